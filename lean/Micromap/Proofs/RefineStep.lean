/-
The simulation step: one lemma per dictionary operation, then `sim_step`.
-/
import Micromap.Proofs.Refine

namespace Micromap.Refine
open SetAlg Dict RefineList
variable {K V Q : Type} (E : Env K V Q)

/-- what `sim_step` promises for one operation. -/
def StepOK (op : DOp K V Q) (s : St K V Q) (d : List (K × V)) : Prop :=
  match srun E op d s.r.cap with
  | .ok out d' => ∃ out' s', mrun E op s = .ok out' s' ∧ OutRel out' out ∧ Sim E s'.r d' ∧
      s'.r.cap = s.r.cap ∧ Benign s'.w
  | .overflow => ∃ c s', mrun E op s = .panic c s' ∧ OverflowPanic s c ∧ s'.r = s.r ∧ Benign s'.w
  | .noentry => ∃ s', mrun E op s = .panic .noentry s' ∧ s'.r = s.r ∧ Benign s'.w

variable {E}

theorem hitKey_refl (hE : E.Lawful) (k : K) : E.hitP (.key k : Probe K Q) k = true := hE.refl k

theorem sim_insert (hE : E.Lawful) (k : K) (v : V) {s : St K V Q} {d l} (hr : Rep s.r l)
    (hn : NodupKeys E.keq l) (hperm : l.Perm d) (hb : Benign s.w) : StepOK E (.insert k v) s d := by
  unfold StepOK srun
  have hlen : d.length = l.length := hperm.length_eq.symm
  rcases find_cases hE hn hperm (.key k) with ⟨i, hi, hf, hh, hfind⟩ | ⟨hf, hnl, hnd, hfind⟩
  · simp only [hfind]
    rcases outcome (insert_sat E hr k v) with ⟨a, s', hm, hc, hq⟩ | ⟨c, s', hm, _, hq⟩
    · rcases hq with ⟨j, hj, ha, hrep, hw, hfj⟩ | ⟨_, _, _, _, hfn⟩
      · have : j = i := by have := hfj hE.toPure; rw [hf] at this; exact (Option.some.inj this).symm
        subst this
        refine ⟨.optV a, s', by simp [mrun, hm], by subst ha; rfl, ⟨_, hrep, ?_, ?_⟩, hc, hw.benign hb⟩
        · exact nodupKeys_set hE.equivB hn hj _ _ (hE.refl _)
        · exact set_perm_map hE.equivB (hE.probeOK _) hn hperm hj hh (fun q => (q.1, v))
      · rw [hf] at hfn; exact absurd (hfn hE.toPure) (by simp)
    · rcases hq with ⟨hi', _⟩ | ⟨_, _, _, hfn, _⟩
      · exact (no_inj hb hi').elim
      · rw [hf] at hfn; exact absurd (hfn hE.toPure) (by simp)
  · simp only [hfind]
    rcases outcome (insert_sat E hr k v) with ⟨a, s', hm, hc, hq⟩ | ⟨c, s', hm, _, hq⟩
    · rcases hq with ⟨j, hj, _, _, _, hfj⟩ | ⟨ha, hroom, hrep, hw, _⟩
      · rw [hf] at hfj; exact absurd (hfj hE.toPure) (by simp)
      · have hroom' : d.length < s.r.cap := by omega
        simp only [hroom', if_true]
        refine ⟨.optV a, s', by simp [mrun, hm], by subst ha; rfl, ⟨_, hrep, ?_, hperm.append_right _⟩,
          hc, hw.benign hb⟩
        exact nodupKeys_append hE.equivB hn k v hnl
    · rcases hq with ⟨hi', _⟩ | ⟨hs, ho, hfull, _, hw⟩
      · exact (no_inj hb hi').elim
      · have hroom' : ¬ d.length < s.r.cap := by omega
        simp only [hroom', if_false]
        exact ⟨c, s', by simp [mrun, hm], ho, hs, hw.benign hb⟩

theorem sim_insert_key_value (hE : E.Lawful) (k : K) (v : V) {s : St K V Q} {d l} (hr : Rep s.r l)
    (hn : NodupKeys E.keq l) (hperm : l.Perm d) (hb : Benign s.w) :
    StepOK E (.insert_key_value k v) s d := by
  unfold StepOK srun
  have hlen : d.length = l.length := hperm.length_eq.symm
  rcases find_cases hE hn hperm (.key k) with ⟨i, hi, hf, hh, hfind⟩ | ⟨hf, hnl, hnd, hfind⟩
  · simp only [hfind]
    rcases outcome (insert_key_value_sat E hr k v) with ⟨a, s', hm, hc, hw, hq⟩ | ⟨c, s', hm, _, hq⟩
    · rcases hq with ⟨j, hj, ha, hrep, hfj⟩ | ⟨_, _, _, hfn⟩
      · have : j = i := by have := hfj hE.toPure; rw [hf] at this; exact (Option.some.inj this).symm
        subst this
        refine ⟨.optKV a, s', by simp [mrun, hm], by subst ha; rfl, ⟨_, hrep, ?_, ?_⟩, hc, hw.benign hb⟩
        · exact nodupKeys_set hE.equivB hn hj _ _ hh
        · exact set_perm_map hE.equivB (hE.probeOK _) hn hperm hj hh (fun _ => (k, v))
      · rw [hf] at hfn; exact absurd (hfn hE.toPure) (by simp)
    · rcases hq with hi' | ⟨_, _, hfn, _⟩
      · exact (no_inj hb hi').elim
      · rw [hf] at hfn; exact absurd (hfn hE.toPure) (by simp)
  · simp only [hfind]
    rcases outcome (insert_key_value_sat E hr k v) with ⟨a, s', hm, hc, hw, hq⟩ | ⟨c, s', hm, hs, hq⟩
    · rcases hq with ⟨j, hj, _, _, hfj⟩ | ⟨ha, hroom, hrep, _⟩
      · rw [hf] at hfj; exact absurd (hfj hE.toPure) (by simp)
      · have hroom' : d.length < s.r.cap := by omega
        simp only [hroom', if_true]
        refine ⟨.optKV a, s', by simp [mrun, hm], by subst ha; rfl, ⟨_, hrep, ?_, hperm.append_right _⟩,
          hc, hw.benign hb⟩
        exact nodupKeys_append hE.equivB hn k v hnl
    · rcases hq with hi' | ⟨ho, hfull, _, hw⟩
      · exact (no_inj hb hi').elim
      · have hroom' : ¬ d.length < s.r.cap := by omega
        simp only [hroom', if_false]
        exact ⟨c, s', by simp [mrun, hm], ho, hs, hw.benign hb⟩

theorem sim_checked_insert (hE : E.Lawful) (k : K) (v : V) {s : St K V Q} {d l} (hr : Rep s.r l)
    (hn : NodupKeys E.keq l) (hperm : l.Perm d) (hb : Benign s.w) :
    StepOK E (.checked_insert k v) s d := by
  unfold StepOK srun
  have hlen : d.length = l.length := hperm.length_eq.symm
  rcases outcome (checked_insert_sat E hr k v) with ⟨a, s', hm, hc, hq⟩ | ⟨c, s', hm, _, hi', _⟩
  rotate_left
  · exact (no_inj hb hi').elim
  rcases find_cases hE hn hperm (.key k) with ⟨i, hi, hf, hh, hfind⟩ | ⟨hf, hnl, hnd, hfind⟩
  · simp only [hfind]
    rcases hq with ⟨j, hj, ha, hrep, hw, hfj⟩ | ⟨_, _, _, _, hfn⟩ | ⟨_, _, _, _, hfn⟩
    · have : j = i := by have := hfj hE.toPure; rw [hf] at this; exact (Option.some.inj this).symm
      subst this
      refine ⟨.optOptV a, s', by simp [mrun, hm], by subst ha; rfl, ⟨_, hrep, ?_, ?_⟩, hc, hw.benign hb⟩
      · exact nodupKeys_set hE.equivB hn hj _ _ (hE.refl _)
      · exact set_perm_map hE.equivB (hE.probeOK _) hn hperm hj hh (fun q => (q.1, v))
    · rw [hf] at hfn; exact absurd (hfn hE.toPure) (by simp)
    · rw [hf] at hfn; exact absurd (hfn hE.toPure) (by simp)
  · simp only [hfind]
    rcases hq with ⟨j, hj, _, _, _, hfj⟩ | ⟨ha, hroom, hrep, hw, _⟩ | ⟨ha, hfull, hs, hw, _⟩
    · rw [hf] at hfj; exact absurd (hfj hE.toPure) (by simp)
    · have hroom' : d.length < s.r.cap := by omega
      simp only [hroom', if_true]
      refine ⟨.optOptV a, s', by simp [mrun, hm], by subst ha; rfl, ⟨_, hrep, ?_, hperm.append_right _⟩,
        hc, hw.benign hb⟩
      exact nodupKeys_append hE.equivB hn k v hnl
    · have hroom' : ¬ d.length < s.r.cap := by omega
      simp only [hroom', if_false]
      exact ⟨.optOptV a, s', by simp [mrun, hm], by subst ha; rfl, ⟨l, hs ▸ hr, hn, hperm⟩, hc,
        hw.benign hb⟩

theorem sim_get (hE : E.Lawful) (pr : Probe K Q) {s : St K V Q} {d l} (hr : Rep s.r l)
    (hn : NodupKeys E.keq l) (hperm : l.Perm d) (hb : Benign s.w) : StepOK E (.get pr) s d := by
  unfold StepOK srun
  rcases outcome (get_sat E hr pr) with ⟨o, s', hm, hs, hw, ho, hfo⟩ | ⟨c, s', hm, _, hi'⟩
  rotate_left
  · exact (no_inj hb hi').elim
  refine ⟨.optKV (o.map (·.2)), s', by simp [mrun, hm], ?_, ⟨l, hs ▸ hr, hn, hperm⟩, by rw [hs], hw.benign hb⟩
  have hfo := hfo hE.toPure
  show DOut.optKV _ = DOut.optKV _
  congr 1
  rcases find_cases hE hn hperm pr with ⟨i, hi, hf, hh, hfind⟩ | ⟨hf, hnl, hnd, hfind⟩
  · rw [hfind]
    rw [hf] at hfo
    cases o with
    | none => simp at hfo
    | some x =>
      obtain ⟨j, p⟩ := x
      simp at hfo; subst hfo
      obtain ⟨_, hp⟩ := ho j p rfl
      simp [hp]
  · rw [hfind]
    rw [hf] at hfo
    cases o with
    | none => rfl
    | some x => simp at hfo

theorem sim_get_mut (hE : E.Lawful) (pr : Probe K Q) (g : V → V) {s : St K V Q} {d l} (hr : Rep s.r l)
    (hn : NodupKeys E.keq l) (hperm : l.Perm d) (hb : Benign s.w) : StepOK E (.get_mut pr g) s d := by
  unfold StepOK srun
  rcases outcome (get_mut_sat E hr pr g) with ⟨o, s', hm, hc, hw, ho, hfo⟩ | ⟨c, s', hm, _, hi'⟩
  rotate_left
  · exact (no_inj hb hi').elim
  have hfo := hfo hE.toPure
  have hmr : mrun E (.get_mut pr g) s = .ok (.optKV (o.map (·.2))) s' := by simp [mrun, hm]
  rcases find_cases hE hn hperm pr with ⟨i, hi, hf, hh, hfind⟩ | ⟨hf, hnl, hnd, hfind⟩
  · rw [hf] at hfo
    rcases ho with ⟨hon, _⟩ | ⟨j, hj, hoj, hrep⟩
    · subst hon; simp at hfo
    · subst hoj
      simp at hfo; subst hfo
      refine ⟨_, s', hmr, ?_, ⟨_, hrep, ?_, ?_⟩, hc, hw.benign hb⟩
      · show DOut.optKV _ = DOut.optKV _
        rw [hfind]; rfl
      · exact nodupKeys_set hE.equivB hn hj _ _ (hE.refl _)
      · exact set_perm_map hE.equivB (hE.probeOK _) hn hperm hj hh (fun q => (q.1, g q.2))
  · rw [hf] at hfo
    rcases ho with ⟨hon, hs⟩ | ⟨j, hj, hoj, _⟩
    · subst hon
      refine ⟨_, s', hmr, ?_, ⟨l, hs ▸ hr, hn, ?_⟩, hc, hw.benign hb⟩
      · show DOut.optKV _ = DOut.optKV _
        rw [hfind]; rfl
      · show l.Perm (RefDict.modVal _ g d)
        unfold RefDict.modVal
        rw [map_none hnd (fun q => (q.1, g q.2))]; exact hperm
    · subst hoj; simp at hfo

theorem sim_contains_key (hE : E.Lawful) (pr : Probe K Q) {s : St K V Q} {d l} (hr : Rep s.r l)
    (hn : NodupKeys E.keq l) (hperm : l.Perm d) (hb : Benign s.w) : StepOK E (.contains_key pr) s d := by
  unfold StepOK srun
  rcases outcome (contains_key_cb E hr pr) with ⟨b, s', hm, hs, hw, hfo⟩ | ⟨c, s', hm, _, hi'⟩
  rotate_left
  · exact (no_inj hb hi').elim
  refine ⟨.bool b, s', by simp [mrun, hm], ?_, ⟨l, hs ▸ hr, hn, hperm⟩, by rw [hs], hw.benign hb⟩
  show DOut.bool _ = DOut.bool _
  rw [hfo hE.toPure]
  rcases find_cases hE hn hperm pr with ⟨i, hi, hf, hh, hfind⟩ | ⟨hf, hnl, hnd, hfind⟩ <;> simp [hf, hfind]

theorem sim_index (hE : E.Lawful) (pr : Probe K Q) {s : St K V Q} {d l} (hr : Rep s.r l)
    (hn : NodupKeys E.keq l) (hperm : l.Perm d) (hb : Benign s.w) : StepOK E (.index pr) s d := by
  unfold StepOK srun
  rcases find_cases hE hn hperm pr with ⟨i, hi, hf, hh, hfind⟩ | ⟨hf, hnl, hnd, hfind⟩
  · simp only [hfind]
    rcases outcome (index_sat E hr pr) with ⟨r, s', hm, hs, hw, ⟨hri, hr2⟩, hfo⟩ | ⟨c, s', hm, _, hq⟩
    · have : r.1 = i := by have := hfo hE.toPure; rw [hf] at this; exact (Option.some.inj this).symm
      subst this
      exact ⟨.kv r.2, s', by simp [mrun, hm], by rw [hr2]; rfl, ⟨l, hs ▸ hr, hn, hperm⟩, by rw [hs],
        hw.benign hb⟩
    · rcases hq with hi' | ⟨_, _, hfn⟩
      · exact (no_inj hb hi').elim
      · rw [hf] at hfn; exact absurd (hfn hE.toPure) (by simp)
  · simp only [hfind]
    rcases outcome (index_sat E hr pr) with ⟨r, s', hm, hs, hw, _, hfo⟩ | ⟨c, s', hm, hs, hq⟩
    · rw [hf] at hfo; exact absurd (hfo hE.toPure) (by simp)
    · rcases hq with hi' | ⟨hc, hw, _⟩
      · exact (no_inj hb hi').elim
      · subst hc; exact ⟨s', by simp [mrun, hm], hs, hw.benign hb⟩

theorem sim_index_mut (hE : E.Lawful) (pr : Probe K Q) (g : V → V) {s : St K V Q} {d l} (hr : Rep s.r l)
    (hn : NodupKeys E.keq l) (hperm : l.Perm d) (hb : Benign s.w) : StepOK E (.index_mut pr g) s d := by
  unfold StepOK srun
  rcases find_cases hE hn hperm pr with ⟨i, hi, hf, hh, hfind⟩ | ⟨hf, hnl, hnd, hfind⟩
  · simp only [hfind]
    rcases outcome (index_mut_sat E hr pr g) with ⟨r, s', hm, hc, hw, ⟨hri, hr2, hrep⟩, hfo⟩ | ⟨c, s', hm, _, hq⟩
    · have : r.1 = i := by have := hfo hE.toPure; rw [hf] at this; exact (Option.some.inj this).symm
      subst this
      refine ⟨.kv r.2, s', by simp [mrun, hm], by rw [hr2]; rfl, ⟨_, hrep, ?_, ?_⟩, hc, hw.benign hb⟩
      · exact nodupKeys_set hE.equivB hn hri _ _ (hE.refl _)
      · exact set_perm_map hE.equivB (hE.probeOK _) hn hperm hri hh (fun q => (q.1, g q.2))
    · rcases hq with hi' | ⟨_, _, hfn⟩
      · exact (no_inj hb hi').elim
      · rw [hf] at hfn; exact absurd (hfn hE.toPure) (by simp)
  · simp only [hfind]
    rcases outcome (index_mut_sat E hr pr g) with ⟨r, s', hm, _, hw, _, hfo⟩ | ⟨c, s', hm, hs, hq⟩
    · rw [hf] at hfo; exact absurd (hfo hE.toPure) (by simp)
    · rcases hq with hi' | ⟨hc, hw, _⟩
      · exact (no_inj hb hi').elim
      · subst hc; exact ⟨s', by simp [mrun, hm], hs, hw.benign hb⟩

theorem sim_remove (hE : E.Lawful) (pr : Probe K Q) {s : St K V Q} {d l} (hr : Rep s.r l)
    (hn : NodupKeys E.keq l) (hperm : l.Perm d) (hb : Benign s.w) : StepOK E (.remove pr) s d := by
  unfold StepOK srun
  rcases outcome (remove_sat E hr pr) with ⟨o, s', hm, hc, ho, hfo⟩ | ⟨c, s', hm, _, hi', _⟩
  rotate_left
  · exact (no_inj hb hi').elim
  have hfo := hfo hE.toPure
  have hmr : mrun E (.remove pr) s = .ok (.optV o) s' := by simp [mrun, hm]
  rcases find_cases hE hn hperm pr with ⟨i, hi, hf, hh, hfind⟩ | ⟨hf, hnl, hnd, hfind⟩
  · rw [hf] at hfo
    rcases ho with ⟨hon, _⟩ | ⟨j, hj, hoj, hrep, hw, hfj⟩
    · subst hon; simp at hfo
    · have : j = i := by have := hfj hE.toPure; rw [hf] at this; exact (Option.some.inj this).symm
      subst this; subst hoj
      refine ⟨_, s', hmr, ?_, ⟨_, hrep, ?_, ?_⟩, hc, hw.benign hb⟩
      · show DOut.optV _ = DOut.optV _
        rw [hfind]; rfl
      · exact nodupKeys_swapRemove hE.equivB hn hj
      · exact swapRemove_perm_erase hE.equivB (hE.probeOK _) hn hperm hj hh
  · rw [hf] at hfo
    rcases ho with ⟨hon, hs, hw⟩ | ⟨j, hj, hoj, _⟩
    · subst hon
      refine ⟨_, s', hmr, ?_, ⟨l, hs ▸ hr, hn, ?_⟩, hc, hw.benign hb⟩
      · show DOut.optV _ = DOut.optV _
        rw [hfind]; rfl
      · rw [erase_none hnd]; exact hperm
    · subst hoj; simp at hfo

theorem sim_remove_entry (hE : E.Lawful) (pr : Probe K Q) {s : St K V Q} {d l} (hr : Rep s.r l)
    (hn : NodupKeys E.keq l) (hperm : l.Perm d) (hb : Benign s.w) : StepOK E (.remove_entry pr) s d := by
  unfold StepOK srun
  rcases outcome (remove_entry_sat E hr pr) with ⟨o, s', hm, hc, hw, ho, hfo⟩ | ⟨c, s', hm, _, hi'⟩
  rotate_left
  · exact (no_inj hb hi').elim
  have hfo := hfo hE.toPure
  have hmr : mrun E (.remove_entry pr) s = .ok (.optKV o) s' := by simp [mrun, hm]
  rcases find_cases hE hn hperm pr with ⟨i, hi, hf, hh, hfind⟩ | ⟨hf, hnl, hnd, hfind⟩
  · rw [hf] at hfo
    rcases ho with ⟨hon, _⟩ | ⟨j, hj, hoj, hrep, hfj⟩
    · subst hon; simp at hfo
    · have : j = i := by have := hfj hE.toPure; rw [hf] at this; exact (Option.some.inj this).symm
      subst this; subst hoj
      refine ⟨_, s', hmr, ?_, ⟨_, hrep, ?_, ?_⟩, hc, hw.benign hb⟩
      · show DOut.optKV _ = DOut.optKV _
        rw [hfind]
      · exact nodupKeys_swapRemove hE.equivB hn hj
      · exact swapRemove_perm_erase hE.equivB (hE.probeOK _) hn hperm hj hh
  · rw [hf] at hfo
    rcases ho with ⟨hon, hs⟩ | ⟨j, hj, hoj, _⟩
    · subst hon
      refine ⟨_, s', hmr, ?_, ⟨l, hs ▸ hr, hn, ?_⟩, hc, hw.benign hb⟩
      · show DOut.optKV _ = DOut.optKV _
        rw [hfind]
      · rw [erase_none hnd]; exact hperm
    · subst hoj; simp at hfo

theorem sim_retain (hE : E.Lawful) (f : K → V → Bool × V) {s : St K V Q} {d l} (hr : Rep s.r l)
    (hn : NodupKeys E.keq l) (hperm : l.Perm d) (hb : Benign s.w) : StepOK E (.retain f) s d := by
  unfold StepOK srun
  rcases outcome (retain_sat E (fun _ k v => f k v) f hr) with
    ⟨_, s', hm, hc, ⟨tr, hw⟩, l', hrep, _, hl', _⟩ | ⟨c, s', hm, _, hi', _⟩
  rotate_left
  · exact (no_inj hb hi').elim
  have hl' := hl' (fun _ _ _ => rfl)
  subst hl'
  refine ⟨.unit, s', by simp [mrun, hm], rfl, ⟨_, hrep, nodupKeys_retainL hE.equivB f hn, ?_⟩, hc,
    hw.benign hb⟩
  exact (retainL_perm f l).trans (hperm.filterMap _)

theorem sim_clear (hE : E.Lawful) {s : St K V Q} {d l} (hr : Rep s.r l)
    (hb : Benign s.w) : StepOK E (.clear : DOp K V Q) s d := by
  unfold StepOK srun
  rcases outcome (clear_sat E hr) with ⟨_, s', hm, hrep, hc, hw⟩ | ⟨c, s', hm, _, _, hi'⟩
  rotate_left
  · exact (no_inj hb hi').elim
  exact ⟨.unit, s', by simp [mrun, hm], rfl, ⟨[], hrep, List.Pairwise.nil, List.Perm.nil⟩, hc, hw.benign hb⟩

/-- **L0 ⊑ L2, one step.**  For a lawful key type (`Eq` an equivalence, `Borrow` consistent with it) in a
    world without injected faults, every dictionary operation run on the slot machine from a state
    that simulates the reference dictionary `d` returns exactly what the reference returns
    (iteration order aside), panics exactly when the reference says `overflow` / `noentry` — in both
    build profiles — and again simulates the reference's next state; the capacity never changes. -/
theorem sim_step (hE : E.Lawful) (op : DOp K V Q) {s : St K V Q} {d : List (K × V)}
    (hs : Sim E s.r d) (hb : Benign s.w) : StepOK E op s d := by
  obtain ⟨l, hr, hn, hperm⟩ := hs
  cases op with
  | insert k v => exact sim_insert hE k v hr hn hperm hb
  | insert_key_value k v => exact sim_insert_key_value hE k v hr hn hperm hb
  | checked_insert k v => exact sim_checked_insert hE k v hr hn hperm hb
  | get pr => exact sim_get hE pr hr hn hperm hb
  | get_mut pr g => exact sim_get_mut hE pr g hr hn hperm hb
  | contains_key pr => exact sim_contains_key hE pr hr hn hperm hb
  | index pr => exact sim_index hE pr hr hn hperm hb
  | index_mut pr g => exact sim_index_mut hE pr g hr hn hperm hb
  | remove pr => exact sim_remove hE pr hr hn hperm hb
  | remove_entry pr => exact sim_remove_entry hE pr hr hn hperm hb
  | retain f => exact sim_retain hE f hr hn hperm hb
  | clear => exact sim_clear hE hr hb
  | len =>
    refine ⟨.nat s.r.len, s, rfl, ?_, ⟨l, hr, hn, hperm⟩, rfl, hb⟩
    show DOut.nat _ = DOut.nat _
    rw [hr.1, hperm.length_eq]
  | is_empty =>
    refine ⟨.bool (s.r.len == 0), s, rfl, ?_, ⟨l, hr, hn, hperm⟩, rfl, hb⟩
    show DOut.bool _ = DOut.bool _
    rw [hr.1, hperm.length_eq]
  | iter =>
    refine ⟨.list l, s, ?_, hperm, ⟨l, hr, hn, hperm⟩, rfl, hb⟩
    simp [mrun, getS, entriesOf_ok hr]

end Micromap.Refine
