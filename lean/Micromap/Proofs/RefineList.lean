/-
List-level lemmas connecting the index-based results of the L0 triples (`set i`, `swapRemove i`,
`retainL`) with the naive reference dictionary (`map`, `filter`, `filterMap`), up to permutation.
-/
import Micromap.Proofs.Bridge
import Micromap.Spec.RefDict

namespace Micromap.RefineList
open SetAlg Dict
variable {K V : Type} {keq : K → K → Bool}

/-- with unique keys, only position `i` is selected by a probe that selects `l[i]`. -/
theorem hit_false_of_ne (h : EquivB keq) {hit : K → Bool} (hp : ProbeOK keq hit) {l : List (K × V)}
    (hn : NodupKeys keq l) {i j} (hi : i < l.length) (hj : j < l.length) (hh : hit l[i].1 = true)
    (hne : j ≠ i) : hit l[j].1 = false := by
  cases hjh : hit l[j].1 with
  | false => rfl
  | true =>
    have := hp.single _ _ hjh hh
    have hf := (nodupKeys_iff_getElem h).mp hn j i hj hi hne
    rw [hf] at this; cases this

/-- updating the selected position = mapping over the selected entries. -/
theorem set_eq_map (h : EquivB keq) {hit : K → Bool} (hp : ProbeOK keq hit) {l : List (K × V)}
    (hn : NodupKeys keq l) {i} (hi : i < l.length) (hh : hit l[i].1 = true) (f : K × V → K × V) :
    l.set i (f l[i]) = l.map fun q => if hit q.1 then f q else q := by
  apply List.ext_getElem
  · simp
  · intro j h1 h2
    simp only [List.length_set] at h1
    by_cases hji : j = i
    · subst hji; simp [hh]
    · have := hit_false_of_ne h hp hn hi h1 hh hji
      simp [List.getElem_set_ne (Ne.symm hji), this]

theorem eraseIdx_eq_filter (h : EquivB keq) {hit : K → Bool} (hp : ProbeOK keq hit) {l : List (K × V)}
    (hn : NodupKeys keq l) {i} (hi : i < l.length) (hh : hit l[i].1 = true) :
    l.eraseIdx i = l.filter fun q => !hit q.1 := by
  have hsplit : l = l.take i ++ l[i] :: l.drop (i + 1) := by
    rw [← List.drop_eq_getElem_cons hi, List.take_append_drop]
  have htake : ∀ q, q ∈ l.take i → hit q.1 = false := by
    intro q hq
    obtain ⟨j, hj, rfl⟩ := List.getElem_of_mem hq
    have hj' : j < i := by
      have := hj; simp only [List.length_take] at this; omega
    rw [List.getElem_take]
    exact hit_false_of_ne h hp hn hi (by omega) hh (by omega)
  have hdrop : ∀ q, q ∈ l.drop (i + 1) → hit q.1 = false := by
    intro q hq
    obtain ⟨j, hj, rfl⟩ := List.getElem_of_mem hq
    rw [List.getElem_drop]
    have hj' : i + 1 + j < l.length := by simp at hj; omega
    exact hit_false_of_ne h hp hn hi hj' hh (by omega)
  rw [List.eraseIdx_eq_take_drop_succ]
  conv => rhs; rw [hsplit]
  rw [List.filter_append, List.filter_cons]
  simp only [hh, Bool.not_true, Bool.false_eq_true, if_false]
  rw [List.filter_eq_self.mpr (fun q hq => by simp [htake q hq]),
    List.filter_eq_self.mpr (fun q hq => by simp [hdrop q hq])]

/-- swap-remove of the selected entry is, up to order, `filter` on the reference side. -/
theorem swapRemove_perm_erase (h : EquivB keq) {hit : K → Bool} (hp : ProbeOK keq hit)
    {l d : List (K × V)} (hn : NodupKeys keq l) (hperm : l.Perm d) {i} (hi : i < l.length)
    (hh : hit l[i].1 = true) : (swapRemove l i).Perm (RefDict.erase hit d) := by
  refine (swapRemove_perm hi).trans ?_
  rw [eraseIdx_eq_filter h hp hn hi hh]
  exact hperm.filter _

theorem set_perm_map (h : EquivB keq) {hit : K → Bool} (hp : ProbeOK keq hit)
    {l d : List (K × V)} (hn : NodupKeys keq l) (hperm : l.Perm d) {i} (hi : i < l.length)
    (hh : hit l[i].1 = true) (f : K × V → K × V) :
    (l.set i (f l[i])).Perm (d.map fun q => if hit q.1 then f q else q) := by
  rw [set_eq_map h hp hn hi hh f]
  exact hperm.map _

/-- nothing selected: `filter` / `map` are the identity. -/
theorem erase_none {hit : K → Bool} {d : List (K × V)} (hnone : ∀ p, p ∈ d → hit p.1 = false) :
    RefDict.erase hit d = d :=
  List.filter_eq_self.mpr fun q hq => by simp [hnone q hq]

theorem map_none {hit : K → Bool} {d : List (K × V)} (hnone : ∀ p, p ∈ d → hit p.1 = false)
    (f : K × V → K × V) : (d.map fun q => if hit q.1 then f q else q) = d := by
  conv => rhs; rw [← List.map_id d]
  apply List.map_congr_left
  intro q hq; simp [hnone q hq]

end Micromap.RefineList
