/-
Object conservation for a larger operation language `L2Op` — every safe operation of ONE map
register: the owning dictionary operations of `Ledger.LOp`, the read-only ones, `retain`, writes
through `&mut V` (`get_mut`, `index_mut`, `get_disjoint_mut`, `iter_mut`/`values_mut`, `and_modify`,
`OccupiedEntry::get_mut`), borrowing iterators with scripts, drains and consuming iterators that are
dropped OR `mem::forget`-ten, the entry chains with all their terminals, bulk insertion (`extend`,
with the overflow panic in the middle), `drop` and `forget` of the container — with the equation
extended by created and leaked objects:

    stored + unreachable + passed in + created  =  stored' + unreachable' + handed back + dropped + leaked

"unreachable" are the ghost-live slots at or beyond `len` (`garbage`): this is where a forgotten
`Drain` leaves its un-yielded entries — the model (like the crate) does NOT record them in
`World.leaked` at that moment; they move to `World.leaked` when a later `insert` overwrites the
slot, or when the container is forgotten.  "leaked" is the suffix `World.leaked` grows by.

The step lemmas come from the ownership logic of `Own.lean` / `OwnMap.lean` / `OwnStep.lean`
(unconditional: any world, any user equality), memory safety from `OpInv`.  `clone` and
`from_iter`, which build a map in a scratch register, are `clone_conserves` / `from_iter_conserves`.
-/
import Micromap.Proofs.OwnStep
import Micromap.Proofs.StepInvEntry
import Micromap.Proofs.SysInv
import Micromap.Proofs.EqClone
import Micromap.Proofs.FromIter

set_option linter.unusedSectionVars false

namespace Micromap.Ledger2
open Micromap Ledger Own SetAlg Refine
variable {K V Q : Type}

/-! ### live slots = stored entries + unreachable slots -/

/-- the ghost-live slots below `n` are the stored entries below `n` and the unreachable ones. -/
theorem wsum_liveObjs_rep (w : Obj K V → Nat) {r : Raw K V} {l : List (K × V)} (hr : Rep r l) : ∀ n,
    wsum w (liveObjs r n) = wpairs w (l.take n) + wsum w (garbageFrom r n)
  | 0 => by simp [liveObjs, garbageFrom]
  | n + 1 => by
    rw [wsum_liveObjs_succ, wsum_liveObjs_rep w hr n]
    by_cases hn : n < l.length
    · have hs : r.slots n = some l[n] := hr.slot hn
      have hlen : ¬ r.len ≤ n := by rw [hr.1]; omega
      have ht : l.take (n + 1) = l.take n ++ [l[n]] := by
        rw [List.take_add_one, List.getElem?_eq_getElem hn]; rfl
      simp only [garbageFrom, hlen, if_false, List.append_nil, ht, wpairs_append, wpairs_cons, wpairs_nil,
        hs, wo_some]
      omega
    · have hlen : r.len ≤ n := by rw [hr.1]; omega
      have ht : l.take (n + 1) = l.take n := by
        rw [List.take_of_length_le (by omega), List.take_of_length_le (by omega)]
      simp only [garbageFrom, hlen, if_true, ht, wsum_append]
      cases r.slots n <;> simp <;> omega

/-- weight of the unreachable ghost-live slots (at or beyond `len`). -/
def garb (w : Obj K V → Nat) (r : Raw K V) : Nat := wsum w (garbage r)

/-- all ghost-live slots = stored entries + unreachable slots. -/
theorem live_rep (w : Obj K V → Nat) {r : Raw K V} {l : List (K × V)} (hr : Rep r l) :
    live w r = wpairs w l + garb w r := by
  unfold live garb garbage
  rw [wsum_liveObjs_rep w hr r.cap, List.take_of_length_le hr.2.1]

theorem garb_new (w : Obj K V → Nat) (cap : Nat) : garb w (Raw.new cap : Raw K V) = 0 := by
  have := live_rep w (Rep.new (K := K) (V := V) cap)
  simp at this
  omega

/-! ### the operation language -/

/-- the owning operations of one map register. -/
inductive L2Op (K V Q : Type) where
  | insert (k : K) (v : V)
  | insert_key_value (k : K) (v : V)
  | checked_insert (k : K) (v : V)
  | get (pr : Probe K Q)
  | get_key_value (pr : Probe K Q)
  | contains_key (pr : Probe K Q)
  | len | is_empty | capacity
  | with_capacity (c : Nat)
  | remove (pr : Probe K Q)
  | remove_entry (pr : Probe K Q)
  | clear
  /-- `take` items are handed to the caller, then the `Drain` is dropped (`forget = false`) or
      `mem::forget`-ten (`forget = true`). -/
  | drain (take : Nat) (forget : Bool)
  | retain (f : Nat → K → V → Bool × V)
  | into_iter (kind : IntoKind) (take : Nat) (forget : Bool)
  /-- `for (k, v) in xs { self.insert(k, v); }` on this register (the body of `from_iter`, `Extend`). -/
  | extend (pulls : Bool) (xs : List (K × V))
  | get_mut (pr : Probe K Q) (g : V → V)
  | index (pr : Probe K Q)
  | index_mut (pr : Probe K Q) (g : V → V)
  /-- a borrowing iterator (`iter`, `keys`, `values`, `iter_mut`, `values_mut`) and a script of
      calls on it; `R` is how elements render (`Debug` of the iterator). -/
  | iter (R : Render K V) (kind : IterKind) (g : V → V) (script : List IterCmd)
  /-- `get_disjoint_mut(ks)` and a write `*r = g(*r)` through every returned reference. -/
  | get_disjoint_mut (g : V → V) (ks : List (Probe K Q))
  | fmt (R : Render K V) (kind : FmtKind)
  /-- an entry chain `map.entry(k).and_modify(g₁)….<fin>`. -/
  | entry (k : K) (mods : List (V → V)) (fin : EntryEnd V)
  | drop
  | forget

/-- every operation of `Ledger.LOp` is one of `L2Op`. -/
def L2Op.ofLOp : LOp K V Q → L2Op K V Q
  | .insert k v => .insert k v
  | .insert_key_value k v => .insert_key_value k v
  | .checked_insert k v => .checked_insert k v
  | .get pr => .get pr
  | .contains_key pr => .contains_key pr
  | .remove pr => .remove pr
  | .remove_entry pr => .remove_entry pr
  | .clear => .clear
  | .drain take => .drain take false

/-- objects the caller passes in. -/
def L2Op.inObjs : L2Op K V Q → List (Obj K V)
  | .insert k v => [.k k, .v v]
  | .insert_key_value k v => [.k k, .v v]
  | .checked_insert k v => [.k k, .v v]
  | .extend _ xs => pairObjs xs
  | .entry k _ fin => .k k :: finIn fin
  | _ => []

/-- the weighting does not tell the values the user closures of the operation write through
    `&mut V` from the values they found there: such a write changes a value in place, it neither
    creates nor destroys one (`retain`'s predicate, `get_mut` / `index_mut` followed by a write). -/
def L2Op.WOk (w : Obj K V → Nat) : L2Op K V Q → Prop
  | .retain f => ∀ n k v, w (.v (f n k v).2) = w (.v v)
  | .get_mut _ g => ∀ v, w (.v (g v)) = w (.v v)
  | .index_mut _ g => ∀ v, w (.v (g v)) = w (.v v)
  | .entry _ mods fin => (∀ g ∈ mods, ∀ v, w (.v (g v)) = w (.v v)) ∧ finWOk w fin
  | .iter _ kind g _ => (kind = .iter_mut ∨ kind = .values_mut) → ∀ v, w (.v (g v)) = w (.v v)
  | .get_disjoint_mut g _ => ∀ v, w (.v (g v)) = w (.v v)
  | _ => True

/-- the user closures of the operation leave the values they are shown as they are (a `retain`
    predicate that only looks, `and_modify(|_| ())`, …). -/
def L2Op.NoWrite : L2Op K V Q → Prop
  | .retain f => ∀ n k v, (f n k v).2 = v
  | .get_mut _ g => ∀ v, g v = v
  | .index_mut _ g => ∀ v, g v = v
  | .entry _ mods fin => (∀ g ∈ mods, ∀ v, g v = v) ∧
      (match fin with | .occ_get_mut g => ∀ v, g v = v | _ => True)
  | .iter _ kind g _ => (kind = .iter_mut ∨ kind = .values_mut) → ∀ v, g v = v
  | .get_disjoint_mut g _ => ∀ v, g v = v
  | _ => True

/-- without writes every weighting is admissible. -/
theorem L2Op.WOk_of_noWrite (w : Obj K V → Nat) (op : L2Op K V Q) (h : op.NoWrite) : op.WOk w := by
  cases op with
  | retain f => exact fun n k v => by rw [h n k v]
  | get_mut pr g => exact fun v => by rw [h v]
  | index_mut pr g => exact fun v => by rw [h v]
  | iter R kind g script => exact fun hk v => by rw [h hk v]
  | get_disjoint_mut g ks => exact fun v => by rw [h v]
  | entry k mods fin =>
    refine ⟨fun g hg v => by rw [h.1 g hg v], ?_⟩
    cases fin with
    | occ_get_mut g => exact fun v => by rw [h.2 v]
    | _ => exact trivial
  | _ => exact trivial

/-- what the caller gets of a pair a consuming iterator yields. -/
def kindObjs (kind : IntoKind) (p : K × V) : List (Obj K V) :=
  match kind with
  | .pairs => [.k p.1, .v p.2]
  | .keys => [.k p.1]
  | .values => [.v p.2]

variable (E : Env K V Q)

/-- the operation on the slot machine, returning the objects whose ownership goes to the caller. -/
def l2mrun : L2Op K V Q → SM K V Q (List (Obj K V))
  | .insert k v => lmrun E (.insert k v)
  | .insert_key_value k v => lmrun E (.insert_key_value k v)
  | .checked_insert k v => lmrun E (.checked_insert k v)
  | .get pr => lmrun E (.get pr)
  | .get_key_value pr => lmrun E (.get pr)
  | .contains_key pr => lmrun E (.contains_key pr)
  | .len => do let _ ← (Micromap.len : SM K V Q Nat); pure []
  | .is_empty => do let _ ← (Micromap.is_empty : SM K V Q Bool); pure []
  | .capacity => do let _ ← (Micromap.capacity : SM K V Q Nat); pure []
  | .with_capacity c => do
    let cap ← getCap
    assertP (c == cap) .capacity
    pure []
  | .remove pr => lmrun E (.remove pr)
  | .remove_entry pr => lmrun E (.remove_entry pr)
  | .clear => lmrun E .clear
  | .drain take forget => do
    let r ← drainOp E take forget
    pure (pairObjs r.1)
  | .retain f => do retain E f; pure []
  | .into_iter kind take forget => do
    let r ← intoIterOp E kind take forget
    pure (r.1.flatMap (kindObjs kind))
  | .extend pulls xs => do extendLoop E pulls xs; pure []
  | .get_mut pr g => do let _ ← get_mut E pr g; pure []
  | .index pr => do let _ ← index E pr; pure []
  | .index_mut pr g => do let _ ← index_mut E pr g; pure []
  | .iter R kind g script => do let _ ← iterOp R kind g script; pure []
  | .get_disjoint_mut g ks => do
    let _ ← (do
      let slots ← get_disjoint_mut E ks
      writeSlots g slots
      let s ← getS
      pure (RV.list (← readSlots s.r slots)) : SM K V Q (RV K V))
    pure []
  | .fmt R kind => do let _ ← fmtMap R kind; pure []
  | .entry k mods fin => do
    let e ← entry E k
    let e' ← entryMods mods e
    let r ← entryFinish E fin e'
    pure (finBack fin e' r)
  | .drop => do dropAndRenew E; pure []
  | .forget => do forgetMap; pure []

/-- on the operations of `Ledger.LOp` the runner is `Ledger.lmrun`. -/
theorem l2mrun_ofLOp (op : LOp K V Q) : l2mrun E (L2Op.ofLOp op) = lmrun E op := by
  cases op <;> rfl

/-! ### memory safety (any world, any user equality) -/

/-- every operation keeps the invariant and the capacity, returning or unwinding, and never
    reaches `ub` (any world, any user equality). -/
theorem l2mrun_opInv (op : L2Op K V Q) : OpInv E (l2mrun E op) := by
  cases op with
  | insert k v => exact OpInv.bind (opInv_insert E k v) (fun o => by cases o <;> exact OpInv.pure _)
  | insert_key_value k v =>
    exact OpInv.bind (opInv_insert_key_value E k v) (fun o => by cases o <;> exact OpInv.pure _)
  | checked_insert k v =>
    refine OpInv.bind (opInv_checked_insert E k v) (fun o => ?_)
    cases o with
    | none => exact OpInv.pure _
    | some o' => cases o' <;> exact OpInv.pure _
  | get pr => exact OpInv.bind (opInv_get E pr) (fun _ => OpInv.pure _)
  | get_key_value pr => exact OpInv.bind (opInv_get E pr) (fun _ => OpInv.pure _)
  | len => exact OpInv.bind (opInv_len E) (fun _ => OpInv.pure _)
  | is_empty => exact OpInv.bind (opInv_is_empty E) (fun _ => OpInv.pure _)
  | capacity => exact OpInv.bind (opInv_capacity E) (fun _ => OpInv.pure _)
  | with_capacity c =>
    refine OpInv.bind (opInv_capacity E) (fun cap => ?_)
    exact OpInv.bind (opInv_assertP E _ _) (fun _ => OpInv.pure _)
  | contains_key pr => exact OpInv.bind (opInv_contains_key E pr) (fun _ => OpInv.pure _)
  | remove pr => exact OpInv.bind (opInv_remove E pr) (fun o => by cases o <;> exact OpInv.pure _)
  | remove_entry pr => exact OpInv.bind (opInv_remove_entry E pr) (fun o => by cases o <;> exact OpInv.pure _)
  | clear => exact OpInv.bind (opInv_clear E) (fun _ => OpInv.pure _)
  | drain take forget => exact OpInv.bind (opInv_drainOp E take forget) (fun _ => OpInv.pure _)
  | retain f => exact OpInv.bind (opInv_retain E f) (fun _ => OpInv.pure _)
  | into_iter kind take forget => exact OpInv.bind (opInv_intoIterOp E kind take forget) (fun _ => OpInv.pure _)
  | extend pulls xs => exact OpInv.bind (opInv_extendLoop E pulls xs) (fun _ => OpInv.pure _)
  | get_mut pr g => exact OpInv.bind (opInv_get_mut E pr g) (fun _ => OpInv.pure _)
  | index pr => exact OpInv.bind (opInv_index E pr) (fun _ => OpInv.pure _)
  | index_mut pr g => exact OpInv.bind (opInv_index_mut E pr g) (fun _ => OpInv.pure _)
  | iter R kind g script => exact OpInv.bind (opInv_iterOp E R kind g script) (fun _ => OpInv.pure _)
  | get_disjoint_mut g ks => exact OpInv.bind (opInv_gdm E g ks) (fun _ => OpInv.pure _)
  | fmt R kind => exact OpInv.bind (opInv_fmtMap E R kind) (fun _ => OpInv.pure _)
  | entry k mods fin =>
    intro s hs
    simp only [l2mrun]
    refine Sat.bind (entry_invE E k hs) ?_
    intro e s1 ⟨h1, h2, h3⟩
    refine Sat.bind (Sat.mono (entryMods_invE E mods e h1 h3) (fun _ _ h => h) ?_) ?_
    · intro c s2 ⟨g1, g2⟩; exact ⟨g1, g2.trans h2⟩
    · intro e' s2 ⟨g1, g2, g3⟩
      refine Sat.bind (Sat.mono (entryFinish_inv E fin e' g1 g3) (fun _ _ h => h) ?_) ?_
      · intro c s3 ⟨k1, k2⟩; exact ⟨k1, (k2.trans g2).trans h2⟩
      · intro r s3 ⟨k1, k2⟩; exact Sat.pure ⟨k1, (k2.trans g2).trans h2⟩
  | drop => exact OpInv.bind (opInv_drop E) (fun _ => OpInv.pure _)
  | forget => exact OpInv.bind (opInv_forget E) (fun _ => OpInv.pure _)

/-! ### conservation of one step (any world, any user equality) -/

variable {E} {P : Event K V Q → Prop} [EvP P] {w : Obj K V → Nat}

theorem wsum_pairObjs (l : List (K × V)) : wsum w (pairObjs l) = wpairs w l := rfl

theorem wsum_kindObjs (kind : IntoKind) (l : List (K × V)) :
    wsum w (l.flatMap (kindObjs kind)) = wkinds w kind l := by
  induction l with
  | nil => rfl
  | cons p l ih =>
    simp only [List.flatMap_cons, wsum_append, ih, wkinds, List.map_cons, List.sum_cons]
    cases kind <;> simp [kindObjs, wkind]

/-- **one step, any world, any user equality**: passed in + created = handed back + dropped +
    leaked + (change of the live slots); a step that unwinds hands nothing back, and then either
    the balance is exact all the same (the container's own panics: overflow, `index` of an absent
    key) or the panic is an injected one. -/
theorem l2mrun_cons (hv : HV E w) (op : L2Op K V Q) (hop : op.WOk w) {s : St K V Q} (hs : Inv E s.r) :
    ConsAt P w (l2mrun E op) s (wsum w op.inObjs) (fun back => wsum w back) (some 0) := by
  cases op with
  | insert k v =>
    simp only [L2Op.inObjs, wsum_cons, wsum_nil, Nat.add_zero]
    refine ConsAt.bind (insert_cons E hv k v s) (Nat.le_refl _) (by own_p) (fun o s1 _ => ?_)
    cases o <;> exact ConsAt.pure (by simp)
  | insert_key_value k v =>
    simp only [L2Op.inObjs, wsum_cons, wsum_nil, Nat.add_zero]
    refine ConsAt.bind (insert_key_value_cons E hv k v s) (Nat.le_refl _) (by own_p) (fun o s1 _ => ?_)
    cases o <;> exact ConsAt.pure (by simp)
  | checked_insert k v =>
    simp only [L2Op.inObjs, wsum_cons, wsum_nil, Nat.add_zero]
    refine ConsAt.bind (checked_insert_cons E hv k v s) (Nat.le_refl _) (by own_p) (fun o s1 _ => ?_)
    cases o with
    | none => exact ConsAt.pure (by simp [wovv])
    | some o' => cases o' <;> exact ConsAt.pure (by simp [wovv])
  | get pr =>
    refine ConsAt.bind0 (get_cons E pr s) (by own_p) (fun o s1 _ => ?_)
    exact ConsAt.pure (by simp [L2Op.inObjs])
  | contains_key pr =>
    refine ConsAt.bind0 (contains_key_cons E pr s) (by own_p) (fun o s1 _ => ?_)
    exact ConsAt.pure (by simp [L2Op.inObjs])
  | get_key_value pr =>
    refine ConsAt.bind0 (get_cons E pr s) (by own_p) (fun o s1 _ => ?_)
    exact ConsAt.pure (by simp [L2Op.inObjs])
  | len =>
    refine ConsAt.bind0 (getLen_cons s) (by own_np) (fun o s1 _ => ?_)
    exact ConsAt.pure (by simp [L2Op.inObjs])
  | is_empty =>
    refine ConsAt.bind0 (m := Micromap.is_empty) (p1 := none) ?_ (by own_np) (fun o s1 _ => ?_)
    · unfold Micromap.is_empty
      refine ConsAt.bind0 (getLen_cons s) (by own_np) (fun o s1 _ => ?_)
      exact ConsAt.pure rfl
    · exact ConsAt.pure (by simp [L2Op.inObjs])
  | capacity =>
    refine ConsAt.bind0 (getCap_cons s) (by own_np) (fun o s1 _ => ?_)
    exact ConsAt.pure (by simp [L2Op.inObjs])
  | with_capacity c =>
    refine ConsAt.bind0 (getCap_cons s) (by own_np) (fun cap s1 _ => ?_)
    refine ConsAt.bind0 (assertP_cons _ _ s1) (by own_p) (fun _ s2 _ => ?_)
    exact ConsAt.pure (by simp [L2Op.inObjs])
  | remove pr =>
    refine ConsAt.bind (remove_cons E pr s) (Nat.zero_le _) (by own_p) (fun o s1 _ => ?_)
    cases o <;> exact ConsAt.pure (by simp [L2Op.inObjs])
  | remove_entry pr =>
    refine ConsAt.bind (remove_entry_cons E pr s) (Nat.zero_le _) (by own_p) (fun o s1 _ => ?_)
    cases o <;> exact ConsAt.pure (by simp [L2Op.inObjs])
  | clear =>
    refine ConsAt.bind0 (clear_cons E hv s) (by own_p) (fun o s1 _ => ?_)
    exact ConsAt.pure (by simp [L2Op.inObjs])
  | drain take forget =>
    refine ConsAt.bind (drainOp_cons E hv take forget s) (Nat.zero_le _) (by own_p) (fun r s1 _ => ?_)
    exact ConsAt.pure (by simp [L2Op.inObjs, wsum_pairObjs])
  | retain f =>
    refine ConsAt.bind0 (retain_cons E hv f hop s) (by own_p) (fun o s1 _ => ?_)
    exact ConsAt.pure (by simp [L2Op.inObjs])
  | into_iter kind take forget =>
    obtain ⟨l, hr, _⟩ := hs
    refine ConsAt.bind (intoIterOp_cons E hv kind take forget hr) (Nat.zero_le _) (by own_np) (fun r s1 _ => ?_)
    exact ConsAt.pure (by simp [L2Op.inObjs, wsum_kindObjs])
  | extend pulls xs =>
    simp only [L2Op.inObjs, wsum_pairObjs]
    refine ConsAt.bind (extendLoop_cons E hv pulls xs s) (Nat.le_refl _) (by own_p)
      (fun o s1 _ => ?_)
    exact ConsAt.pure (by simp)
  | get_mut pr g =>
    refine ConsAt.bind0 (get_mut_cons E pr g hop s) (by own_p) (fun o s1 _ => ?_)
    exact ConsAt.pure (by simp [L2Op.inObjs])
  | index pr =>
    refine ConsAt.bind0 (index_cons E pr s) (by own_p) (fun o s1 _ => ?_)
    exact ConsAt.pure (by simp [L2Op.inObjs])
  | index_mut pr g =>
    refine ConsAt.bind0 (index_mut_cons E pr g hop s) (by own_p) (fun o s1 _ => ?_)
    exact ConsAt.pure (by simp [L2Op.inObjs])
  | iter R kind g script =>
    refine ConsAt.bind0 (iterOp_cons R kind g hop script s) (by own_p) (fun o s1 _ => ?_)
    exact ConsAt.pure (by simp [L2Op.inObjs])
  | get_disjoint_mut g ks =>
    simp only [l2mrun]
    refine ConsAt.bind0 (p1 := some 0) ?_ (by own_p) (fun o s1 _ => ?_)
    · refine ConsAt.bind0 (get_disjoint_mut_cons E ks s) (by own_p) (fun slots s1 _ => ?_)
      refine ConsAt.bind0 (writeSlots_cons g hop slots s1) (by own_np) (fun _ s2 _ => ?_)
      refine ConsAt.getS_bind ?_
      refine ConsAt.bind0 (readSlots_cons s2.r slots s2) (by own_np) (fun _ s3 _ => ?_)
      exact ConsAt.pure rfl
    · exact ConsAt.pure (by simp [L2Op.inObjs])
  | fmt R kind =>
    refine ConsAt.bind0 (fmtMap_cons R kind s) (by own_p) (fun o s1 _ => ?_)
    exact ConsAt.pure (by simp [L2Op.inObjs])
  | entry k mods fin =>
    simp only [L2Op.inObjs, wsum_cons, l2mrun]
    have hle : s.r.len ≤ s.r.cap := by obtain ⟨l, hr, _⟩ := hs; exact hr.1 ▸ hr.2.1
    refine ConsAt.bind (entry_inj E k hle) (by omega) (by own_np) (fun e s1 _ => ?_)
    refine ConsAt.bind (entryMods_cons mods hop.1 e s1) (by omega) (by own_np) (fun e' s2 _ => ?_)
    refine ConsAt.bind (entryFinish_cons E hv fin hop.2 e' s2) (by omega) (by own_p) (fun r s3 _ => ?_)
    exact ConsAt.pure (by omega)
  | drop =>
    refine ConsAt.bind0 (dropAndRenew_cons E hv s) (by own_p) (fun o s1 _ => ?_)
    exact ConsAt.pure (by simp [L2Op.inObjs])
  | forget =>
    refine ConsAt.bind0 (forgetMap_cons s) (by own_np) (fun o s1 _ => ?_)
    exact ConsAt.pure (by simp [L2Op.inObjs])

/-! ### one step in a benign world -/

variable (E) (P) (w)

/-- what one step does in a benign world: it returns, or it raises one of the container's own
    panics (overflow, `index` of an absent key); the invariant is kept either way, and the balance
    is exact (nothing is handed back by a step that unwinds). -/
def Step2 (op : L2Op K V Q) (s : St K V Q) : Prop :=
  (∃ back s', l2mrun E op s = .ok back s' ∧ Inv E s'.r ∧ s'.r.cap = s.r.cap ∧
      Bal P w s s' (wsum w op.inObjs) (wsum w back)) ∨
  (∃ c s', l2mrun E op s = .panic c s' ∧ Inv E s'.r ∧ s'.r.cap = s.r.cap ∧
      Bal P w s s' (wsum w op.inObjs) 0)

variable {E} {P} {w}

/-- **one step in a benign world**, any user equality: `Step2`. -/
theorem l2run_conserves (hv : HV E w) (op : L2Op K V Q) (hop : op.WOk w) {s : St K V Q}
    (hs : Inv E s.r) (hb : Benign s.w) : Step2 E P w op s := by
  have hI := l2mrun_opInv E op s hs
  have hC := l2mrun_cons (P := P) hv op hop hs
  unfold Step2
  cases hm : l2mrun E op s with
  | ok back s' =>
    obtain ⟨h1, h2⟩ := Sat.ok_of hI hm
    exact Or.inl ⟨back, s', rfl, h1, h2, hC.ok_of hm⟩
  | ub => exact absurd hm (Sat.not_ub hI)
  | panic c s' =>
    obtain ⟨h1, h2⟩ := Sat.panic_of hI hm
    obtain ⟨q, hq, hbal⟩ := hC.panic_benign hb.1 hm
    cases hq
    exact Or.inr ⟨c, s', rfl, h1, h2, hbal⟩

/-! ### histories -/

variable (E)

/-- the history on the slot machine: final state and the objects handed back; a step that ends in
    one of the container's own panics leaves the history going. -/
def l2mhist : List (L2Op K V Q) → St K V Q → Option (St K V Q × List (Obj K V))
  | [], s => some (s, [])
  | op :: ops, s =>
    match l2mrun E op s with
    | .ok back s' => (l2mhist ops s').map fun r => (r.1, back ++ r.2)
    | .panic _ s' => l2mhist ops s'
    | .ub => none

variable {E}

theorem Bal.benign {s s' : St K V Q} {i o : Nat} (h : Bal P w s s' i o) (hb : Benign s.w) : Benign s'.w := by
  obtain ⟨ev, lk, hw, _⟩ := h
  exact hw.toWRel.benign hb

theorem Bal.seq {s s1 s2 : St K V Q} {i1 o1 i2 o2 : Nat} (h1 : Bal P w s s1 i1 o1) (h2 : Bal P w s1 s2 i2 o2) :
    Bal P w s s2 (i1 + i2) (o1 + o2) :=
  Bal.trans h1 ((h2.frame o1).of_eq (by omega) (by omega))

/-- the balance of a whole history, in terms of the live slots. -/
theorem l2mhist_bal (hv : HV E w) : ∀ (ops : List (L2Op K V Q)) (s : St K V Q),
    (∀ op ∈ ops, op.WOk w) → Inv E s.r → Benign s.w →
    ∃ sf back, l2mhist E ops s = some (sf, back) ∧ Inv E sf.r ∧ sf.r.cap = s.r.cap ∧
      Bal P w s sf (wsum w (ops.flatMap L2Op.inObjs)) (wsum w back)
  | [], s, _, hs, _ => ⟨s, [], rfl, hs, rfl, by simpa using Bal.refl s 0⟩
  | op :: ops, s, hops, hs, hb => by
    unfold l2mhist
    have hops' : ∀ o ∈ ops, o.WOk w := fun o ho => hops o (List.mem_cons_of_mem _ ho)
    rcases l2run_conserves (P := P) hv op (hops op (List.mem_cons_self ..)) hs hb with
      ⟨back, s', hm, hI, hc, hbal⟩ | ⟨c, s', hm, hI, hc, hbal⟩
    · obtain ⟨sf, b2, h1, h2, h3, h4⟩ := l2mhist_bal hv ops s' hops' hI (Bal.benign hbal hb)
      refine ⟨sf, back ++ b2, by simp [hm, h1], h2, h3.trans hc, ?_⟩
      simpa [List.flatMap_cons] using Bal.seq hbal h4
    · obtain ⟨sf, b2, h1, h2, h3, h4⟩ := l2mhist_bal hv ops s' hops' hI (Bal.benign hbal hb)
      refine ⟨sf, b2, by simp [hm, h1], h2, h3.trans hc, ?_⟩
      simpa [List.flatMap_cons] using Bal.seq hbal h4

/-- **Conservation over every history of `L2Op`, under any user equality**, in a benign world:
    the history runs without `ub`, keeps the invariant, and for every weighting `w` that the
    in-place writes of the history respect (`L2Op.WOk`)

        stored + unreachable + passed in + created
          = stored' + unreachable' + handed back + dropped + leaked

    where `tr` are the effects of the history (`createdOf tr`: the clone results — none, these
    operations do not clone; `droppedOf tr`: the drop log) and `lk` is what `World.leaked` grew by. -/
theorem l2mhist_conserves (hv : HV E w) (ops : List (L2Op K V Q)) (s : St K V Q) (l : List (K × V))
    (hops : ∀ op ∈ ops, op.WOk w) (hr : Rep s.r l) (hn : E.Good → NodupKeys E.keq l) (hb : Benign s.w) :
    ∃ sf back tr lk lf, l2mhist E ops s = some (sf, back) ∧ Rep sf.r lf ∧ (E.Good → NodupKeys E.keq lf) ∧
      sf.r.cap = s.r.cap ∧ WRel s.w sf.w tr ∧ sf.w.leaked = s.w.leaked ++ lk ∧ createdOf tr = [] ∧
      wpairs w l + garb w s.r + wsum w (ops.flatMap L2Op.inObjs) + wsum w (createdOf tr) =
        wpairs w lf + garb w sf.r + wsum w back + wsum w (droppedOf tr) + wsum w lk := by
  obtain ⟨sf, back, h1, ⟨lf, hrf, hnf⟩, h3, ev, lk, hw, heq⟩ :=
    l2mhist_bal (P := notClone) hv ops s hops ⟨l, hr, hn⟩ hb
  refine ⟨sf, back, ev.filter Event.isEff, lk, lf, h1, hrf, hnf, h3, hw.toWRel, hw.leaked, ?_, ?_⟩
  · rw [createdOf_filter]; exact createdOf_notClone ev hw.evP
  · rw [createdOf_filter, droppedOf_filter, ← live_rep w hr, ← live_rep w hrf]
    exact heq


/-! ### the operations that build a container in a scratch register (`clone`, `from_iter`)

At the system level (`assignMap`) these run on a fresh `Raw.new cap`; on success the result is
assigned to the destination register, whose old content is dropped (the operation `L2Op.drop`). -/

theorem WRel.tr_unique {w0 w1 : World K V Q} {t1 t2} (h1 : WRel w0 w1 t1) (h2 : WRel w0 w1 t2) : t1 = t2 := by
  have := h1.trace.symm.trans h2.trace
  exact List.append_cancel_left this

/-- **`clone` conserves**: in a benign world `clone` of a well-formed map returns; the objects
    stored in the new map (plus anything dropped or leaked on the way: nothing, by `cloneInto_sat`)
    are exactly the clone results of the trace — the source is only read. -/
theorem clone_conserves (hv : HV E w) {src : Raw K V} {l : List (K × V)} (hsrc : Rep src l)
    (w0 : World K V Q) (hb : Benign w0) :
    ∃ s' l' lk, cloneInto E src ⟨Raw.new src.cap, w0⟩ = .ok () s' ∧ Rep s'.r l' ∧ garb w s'.r = 0 ∧
      EqClone.ClonesOf E l l' ∧ WRel w0 s'.w (EqClone.cloneTrace E l l') ∧ s'.w.leaked = w0.leaked ++ lk ∧
      wsum w (createdOf (EqClone.cloneTrace E l l')) =
        wpairs w l' + wsum w (droppedOf (EqClone.cloneTrace E l l')) + wsum w lk := by
  have hsat := EqClone.cloneInto_sat E hsrc (s := ⟨Raw.new src.cap, w0⟩) (EqClone.Fresh.new _) rfl
  rcases outcome hsat with ⟨_, s', hm, _, l', hf, hcl, hw⟩ | ⟨c, s', _, _, hi', _⟩
  · obtain ⟨ev, lk, hx, heq⟩ := (cloneInto_cons (P := fun _ => True) E (fun _ => trivial) hv src _).ok_of hm
    have htr := WRel.tr_unique hx.toWRel hw
    have hg : garb w s'.r = 0 := by
      have h1 := live_rep w hf.1
      have h2 := wsum_liveObjs_rep w hf.1 s'.r.cap
      have h3 : ∀ n, wsum w (garbageFrom s'.r n) = 0 := by
        intro n
        induction n with
        | zero => rfl
        | succ n ih =>
          simp only [garbageFrom, wsum_append, ih]
          split
          · rename_i hle
            rw [hf.2 n (by rw [← hf.1.1]; exact hle)]; rfl
          · rfl
      exact h3 _
    refine ⟨s', l', lk, hm, hf.1, hg, hcl, hw, hx.leaked, ?_⟩
    rw [← htr, createdOf_filter, droppedOf_filter]
    have h1 := live_rep w hf.1
    have h0 : live w (Raw.new src.cap : Raw K V) = 0 := live_new w _
    simp only [h0] at heq
    omega
  · exact (no_inj hb hi').elim

/-- **`from_iter` / `collect` conserves**, for any user equality, in a benign world: whether the
    construction returns or unwinds (overflow in the middle: the pairs inserted so far are dropped
    with the local map, the pair being inserted is dropped, the un-pulled rest of the source is
    dropped), every pair of the source is afterwards live in the scratch register, dropped or
    leaked (`live`: all ghost-live slots of the scratch register; after an unwinding the scratch
    register is gone, its live slots — none, by `from_iter_sat` — would be leaked); nothing is
    handed back. -/
theorem from_iter_conserves (hv : HV E w) (pulls : Bool) (xs : List (K × V)) (cap : Nat)
    (w0 : World K V Q) (hb : Benign w0) :
    ∃ s' ev lk, (from_iter E pulls xs ⟨Raw.new cap, w0⟩ = .ok () s' ∨
        ∃ c, from_iter E pulls xs ⟨Raw.new cap, w0⟩ = .panic c s') ∧ WExt notClone w0 s'.w ev lk ∧
      wpairs w xs + wsum w (createdOf ev) = live w s'.r + wsum w (droppedOf ev) + wsum w lk := by
  have hC := from_iter_cons (P := notClone) E hv pulls xs (w := w) ⟨Raw.new cap, w0⟩
  have hsat := FromIter.from_iter_sat E pulls xs (s := ⟨Raw.new cap, w0⟩) (Rep.new cap)
  have h0 : live w (Raw.new cap : Raw K V) = 0 := live_new w _
  rcases outcome hsat with ⟨_, s', hm, _⟩ | ⟨c, s', hm, _⟩
  · obtain ⟨ev, lk, hx, heq⟩ := hC.ok_of hm
    simp only [h0] at heq
    exact ⟨s', ev, lk, Or.inl hm, hx, by omega⟩
  · obtain ⟨q, hq, ev, lk, hx, heq⟩ := hC.panic_benign hb.1 hm
    cases hq
    simp only [h0] at heq
    exact ⟨s', ev, lk, Or.inr ⟨c, hm⟩, hx, by omega⟩

/-! ### `l2mrun` is the model's `stepMapOp` -/

variable (E)

/-- forget the returned value of a run. -/
def voidR {σ α : Type} : Res σ α → Res σ Unit
  | .ok _ s => .ok () s
  | .panic c s => .panic c s
  | .ub => .ub

/-- the `MapOp` an `L2Op` is (`extend` is the loop of `from_iter` run on the register itself, the
    body of `Extend for Set`: not a `MapOp`). -/
def L2Op.toMapOp : L2Op K V Q → Option (MapOp K V Q)
  | .insert k v => some (.insert k v)
  | .insert_key_value k v => some (.insert_key_value k v)
  | .checked_insert k v => some (.checked_insert k v)
  | .get pr => some (.get pr)
  | .get_key_value pr => some (.get_key_value pr)
  | .contains_key pr => some (.contains_key pr)
  | .len => some .len
  | .is_empty => some .is_empty
  | .capacity => some .capacity
  | .with_capacity c => some (.with_capacity c)
  | .remove pr => some (.remove pr)
  | .remove_entry pr => some (.remove_entry pr)
  | .clear => some .clear
  | .drain take fg => some (.drain take fg)
  | .retain f => some (.retain f)
  | .into_iter kind take fg => some (.into_iter kind take fg)
  | .extend _ _ => none
  | .get_mut pr g => some (.get_mut pr g)
  | .index pr => some (.index pr)
  | .index_mut pr g => some (.index_mut pr g)
  | .iter _ kind g script => some (.iter kind g script)
  | .get_disjoint_mut g ks => some (.get_disjoint_mut false g ks)
  | .fmt _ kind => some (.fmt kind)
  | .entry k mods fin => some (.entry k mods fin)
  | .drop => some .drop
  | .forget => some .forget

/-- how elements render, for the operations whose observable result depends on it. -/
def L2Op.render : L2Op K V Q → Option (Render K V)
  | .iter R _ _ _ => some R
  | .fmt R _ => some R
  | _ => none

theorem voidR_bind_pure {α β : Type} (m : SM K V Q α) (f : α → SM K V Q β) (hf : ∀ a s, ∃ b, f a s = .ok b s)
    (s : St K V Q) : voidR ((m >>= f) s) = voidR (m s) := by
  simp only [bind_apply]
  cases m s with
  | ok a s1 => obtain ⟨b, hb⟩ := hf a s1; simp [hb, voidR]
  | panic c s1 => rfl
  | ub => rfl

/-- the state transformer of `l2mrun` is that of the model's `stepMapOp` on the same operation:
    the two differ only in what they return (the handed-back objects / the observable result). -/
theorem l2mrun_is_step (R : Render K V) (other : Nat → Raw K V) (op : L2Op K V Q) (mop : MapOp K V Q)
    (h : op.toMapOp = some mop) (hR : ∀ R', op.render = some R' → R' = R) (s : St K V Q) :
    voidR (l2mrun E op s) = voidR (stepMapOp E R other mop s) := by
  cases op <;> simp only [L2Op.toMapOp, Option.some.injEq, reduceCtorEq] at h <;> subst h <;>
    simp only [l2mrun, lmrun, stepMapOp]
  case iter R' kind g script =>
    have := hR R' rfl; subst this
    rw [voidR_bind_pure, voidR_bind_pure] <;> intro a s' <;> exact ⟨_, rfl⟩
  case fmt R' kind =>
    have := hR R' rfl; subst this
    rw [voidR_bind_pure, voidR_bind_pure] <;> intro a s' <;> exact ⟨_, rfl⟩
  case get_disjoint_mut g ks =>
    simp only [Bool.false_eq_true, if_false]
    rw [voidR_bind_pure]
    intro a s'; exact ⟨_, rfl⟩
  case entry k mods fin =>
    simp only [entryOp, bind_apply]
    cases entry E k s with
    | ok e s1 =>
      simp only
      cases entryMods mods e s1 with
      | ok e' s2 =>
        simp only
        cases entryFinish E fin e' s2 <;> rfl
      | panic c s2 => rfl
      | ub => rfl
    | panic c s1 => rfl
    | ub => rfl
  case with_capacity c =>
    simp only [bind_apply]
    cases (getCap : SM K V Q Nat) s with
    | ok cap s1 =>
      simp only
      cases (assertP (c == cap) PanicClass.capacity : SM K V Q Unit) s1 <;> rfl
    | panic c s1 => rfl
    | ub => rfl
  all_goals
    rw [voidR_bind_pure, voidR_bind_pure]
    · intro a s'
      first
        | exact ⟨_, rfl⟩
        | (cases a <;> exact ⟨_, rfl⟩)
        | (rcases a with _ | _ | _ <;> exact ⟨_, rfl⟩)
    · intro a s'
      first
        | exact ⟨_, rfl⟩
        | (cases a <;> exact ⟨_, rfl⟩)
        | (rcases a with _ | _ | _ <;> exact ⟨_, rfl⟩)


/-- `Extend for Set` (`SetOp.extend`, the only `extend` of the crate) is `L2Op.extend` on a
    `Map<T, (), N>` register. -/
theorem l2mrun_extend_is_set_extend {K Q : Type} (F : Env K Unit Q) (R : Render K Unit)
    (other : Nat → Raw K Unit) (pulls : Bool) (xs : List K) (s : St K Unit Q) :
    voidR (l2mrun F (.extend pulls (xs.map fun k => (k, ()))) s) =
      voidR (stepSetOp F R other (.extend pulls xs) s) := by
  simp only [l2mrun, stepSetOp]
  rw [voidR_bind_pure, voidR_bind_pure] <;> intro a s' <;> exact ⟨_, rfl⟩

end Micromap.Ledger2
