/-
Triples of std's provided iterator methods `nth`, `count`, `last` on the crate's owning iterators
(`Model/StdIter.lean`): `dropItem`, `intoIterSkip`, `intoIterNth`, `intoIterCount`, `intoIterLast`,
`intoIterStdOp`, `drainSkip`, `drainNth`, `drainCount`, `drainLast`, `drainStdOp`.

All statements hold for every `Env`, every world (any equality oracle, any armed injected panic,
either profile) and every content `l` (`Rep s.r l`) unless `Benign` is assumed explicitly.
-/
import Micromap.Proofs.Iters
import Micromap.Model.StdIter

namespace Micromap.StdIterP
open Micromap Micromap.Iters
variable {K V Q : Type} (E : Env K V Q)

/-! ### list facts -/

theorem getLast?_take_sub {α : Type} (l : List α) {k : Nat} (hk : k ≤ l.length) :
    (l.take (l.length - k)).getLast? = l.reverse[k]? := by
  rw [List.getLast?_eq_getElem?, List.length_take]
  by_cases hkl : k = l.length
  · subst hkl; simp
  · have hlt : k < l.length := by omega
    rw [List.getElem?_reverse hlt, List.getElem?_take]
    have : min (l.length - k) l.length - 1 = l.length - 1 - k := by omega
    rw [this, if_pos (by omega)]

theorem dropLast_take_sub {α : Type} (l : List α) (k : Nat) :
    (l.take (l.length - k)).dropLast = l.take (l.length - (k + 1)) := by
  rw [List.dropLast_eq_take, List.length_take, List.take_take]
  congr 1
  omega

/-! ### the caller discards an item -/

/-- the effects of the caller dropping an item it got from a consuming iterator of kind `kind`. -/
def itemTr (kind : IntoKind) (p : K × V) : List (Event K V Q) :=
  match kind with
  | .pairs => .dropK p.1 :: dropVTr E p.2
  | .keys => [.dropK p.1]
  | .values => dropVTr E p.2

/-- all effects of one skipped item: the half `next` discards, then the caller's drop of the item. -/
def skipTr (kind : IntoKind) (p : K × V) : List (Event K V Q) :=
  discardTr E kind p ++ itemTr E kind p

theorem dropItem_cb (kind : IntoKind) (p : K × V) :
    CbOk (dropItem E kind p) (fun _ => itemTr E kind p) (fun _ _ => True) := by
  cases kind with
  | pairs => exact dropPair_cb E p
  | keys => exact dropK_cb p.1
  | values => exact dropV_cb E p.2

theorem leakItem_cb (kind : IntoKind) (p : K × V) :
    CbOk (leakItem (Q := Q) kind p) (fun _ => []) (fun _ _ => True) := by
  cases kind with
  | pairs =>
    have := CbOk.seq (leak_cb (Q := Q) (Obj.k p.1 : Obj K V))
      (fun _ => (leak_cb (Q := Q) (Obj.v p.2 : Obj K V)).mono (fun _ => rfl) (fun _ _ _ => trivial))
    exact this.mono (fun _ => rfl) (fun _ _ h => h)
  | keys => exact leak_cb _
  | values => exact leak_cb _

/-- `next` called from a frame that owns something a callback destroys on unwinding (`fold`'s
    accumulator): same triple as `intoIterNextK_sat`. -/
theorem intoIterNextK_guarded_sat (kind : IntoKind) {cl : SM K V Q Unit} {tc Qc} (hcl : CbOk cl tc Qc)
    {s : St K V Q} {l : List (K × V)} (hr : Rep s.r l) :
    Sat (unwindWith cl (intoIterNextK E kind)) s
      (fun o s' => o = l.getLast? ∧ Rep s'.r l.dropLast ∧ s'.r.cap = s.r.cap ∧
        WRel s.w s'.w ((o.map (discardTr E kind)).getD []))
      (fun c s' => Rep s'.r l.dropLast ∧ s'.r.cap = s.r.cap ∧ InjPanic s s' c ∧ l ≠ [] ∧ kind ≠ .pairs) := by
  refine Sat.unwindWith (intoIterNextK_sat E kind hr) ?_
  intro c s1 ⟨h1, h2, ⟨k1, k2, k3, tr', k4⟩, h4, h5⟩
  refine Sat.mono (hcl.unw (s1.setUnw true) rfl) ?_ (fun _ _ h => h)
  intro _ s2 ⟨g1, g2, _⟩
  exact ⟨by simpa [g1] using h1, by simpa [g1] using h2, ⟨k1, k2, k3, _, k4.trans g2.through_unw⟩, h4, h5⟩

/-! ### `IntoIter` / `IntoKeys` / `IntoValues` -/

/-- `advance_by(k)`: the last `k` entries are popped and destroyed (last first); it answers whether
    there were `k` of them.  If a destructor unwinds, a shorter front of the list is left. -/
theorem intoIterSkip_sat (kind : IntoKind) : ∀ (k : Nat) (s : St K V Q) (l : List (K × V)), Rep s.r l →
    Sat (intoIterSkip E kind k) s
      (fun b s' => b = decide (k ≤ l.length) ∧ Rep s'.r (l.take (l.length - k)) ∧ s'.r.cap = s.r.cap ∧
        WRel s.w s'.w ((l.reverse.take k).flatMap (skipTr E kind)))
      (fun c s' => s'.r.cap = s.r.cap ∧ InjPanic s s' c ∧ ∃ m, m < l.length ∧ Rep s'.r (l.take m))
  | 0, s, l, hr => by
    exact Sat.pure ⟨by simp, by simpa using hr, rfl, by simpa using WRel.refl _⟩
  | k + 1, s, l, hr => by
    unfold intoIterSkip
    refine Sat.bind (Sat.mono (intoIterNextK_sat E kind hr) (fun _ _ h => h) ?_) ?_
    · intro c s1 ⟨h1, h2, h3, h4, _⟩
      refine ⟨h2, h3, l.length - 1, ?_, ?_⟩
      · have : l.length ≠ 0 := by simpa using h4
        omega
      · simpa [List.dropLast_eq_take] using h1
    · intro o s1 ⟨h1, h2, h3, h4⟩
      subst h1
      rcases nil_or_snoc l with rfl | ⟨L, p, rfl⟩
      · exact Sat.pure ⟨by simp, by simpa using h2, h3, by simpa using h4⟩
      · simp only [List.getLast?_concat, List.dropLast_concat, Option.map_some, Option.getD_some] at h2 h4 ⊢
        refine Sat.cb (dropItem_cb E kind p) ?_ ?_
        · intro _ s2 g1 g2 _
          have hr2 : Rep s2.r L := g1 ▸ h2
          refine Sat.mono (intoIterSkip_sat kind k s2 L hr2) ?_ ?_
          · intro b s3 ⟨k1, k2, k3, k4⟩
            refine ⟨by simp [k1], ?_, by rw [k3, g1, h3], ?_⟩
            · have : (L ++ [p]).length - (k + 1) = L.length - k := by simp
              rw [this, List.take_append_of_le_length (by omega)]
              exact k2
            · have := (h4.trans g2).trans k4
              simpa [skipTr, List.append_assoc] using this
          · intro c s3 ⟨k1, k2, m, k3, k4⟩
            refine ⟨by rw [k1, g1, h3], k2.after (h4.trans g2), m, by simp; omega, ?_⟩
            rwa [List.take_append_of_le_length (by omega)]
        · intro s2 tr' g1 g2 g3 g4
          refine ⟨by rw [g1, h3], (InjPanic.of_cb g2 g3 g4).after h4, L.length, by simp, ?_⟩
          rw [g1]; simpa using h2

/-- `nth(k)`: the last `k` entries are destroyed, the one in front of them is returned
    (`l.reverse[k]`, `None` if there is none — then the map is empty). -/
theorem intoIterNth_sat (kind : IntoKind) (k : Nat) {s : St K V Q} {l : List (K × V)} (hr : Rep s.r l) :
    Sat (intoIterNth E kind k) s
      (fun o s' => o = l.reverse[k]? ∧ Rep s'.r (l.take (l.length - (k + 1))) ∧ s'.r.cap = s.r.cap ∧
        WRel s.w s'.w ((l.reverse.take k).flatMap (skipTr E kind) ++ (o.map (discardTr E kind)).getD []))
      (fun c s' => s'.r.cap = s.r.cap ∧ InjPanic s s' c ∧ ∃ m, m < l.length ∧ Rep s'.r (l.take m)) := by
  unfold intoIterNth
  refine Sat.bind (intoIterSkip_sat E kind k s l hr) ?_
  intro b s1 ⟨h1, h2, h3, h4⟩
  subst h1
  by_cases hk : k ≤ l.length
  · simp only [hk, decide_true, if_true]
    refine Sat.mono (intoIterNextK_sat E kind h2) ?_ ?_
    · intro o s2 ⟨g1, g2, g3, g4⟩
      rw [getLast?_take_sub l hk] at g1
      rw [dropLast_take_sub] at g2
      exact ⟨g1, g2, by rw [g3, h3], h4.trans g4⟩
    · intro c s2 ⟨g1, g2, g3, g4, _⟩
      rw [dropLast_take_sub] at g1
      refine ⟨by rw [g2, h3], g3.after h4, l.length - (k + 1), ?_, g1⟩
      have : ¬ l.length - k = 0 ∧ ¬ l = [] := by simpa using g4
      omega
  · simp only [hk, decide_false, Bool.false_eq_true, if_false]
    have hn : l.reverse[k]? = none := List.getElem?_eq_none (by simp; omega)
    have h0 : l.length - (k + 1) = l.length - k := by omega
    refine Sat.pure ⟨hn.symm, by rw [h0]; exact h2, h3, ?_⟩
    simpa [hn] using h4

/-- `count()` with `fuel` rounds: `min fuel |l|` entries are popped and destroyed, last first. -/
theorem intoIterCount_sat (kind : IntoKind) : ∀ (fuel : Nat) (s : St K V Q) (l : List (K × V)), Rep s.r l →
    Sat (intoIterCount E kind fuel) s
      (fun n s' => n = min fuel l.length ∧ Rep s'.r (l.take (l.length - fuel)) ∧ s'.r.cap = s.r.cap ∧
        WRel s.w s'.w ((l.reverse.take fuel).flatMap (skipTr E kind)))
      (fun c s' => s'.r.cap = s.r.cap ∧ InjPanic s s' c ∧ ∃ m, m < l.length ∧ Rep s'.r (l.take m))
  | 0, s, l, hr => by
    exact Sat.pure ⟨by simp, by simpa using hr, rfl, by simpa using WRel.refl _⟩
  | fuel + 1, s, l, hr => by
    unfold intoIterCount
    refine Sat.bind (Sat.mono (intoIterNextK_sat E kind hr) (fun _ _ h => h) ?_) ?_
    · intro c s1 ⟨h1, h2, h3, h4, _⟩
      refine ⟨h2, h3, l.length - 1, ?_, ?_⟩
      · have : l.length ≠ 0 := by simpa using h4
        omega
      · simpa [List.dropLast_eq_take] using h1
    · intro o s1 ⟨h1, h2, h3, h4⟩
      subst h1
      rcases nil_or_snoc l with rfl | ⟨L, p, rfl⟩
      · exact Sat.pure ⟨by simp, by simpa using h2, h3, by simpa using h4⟩
      · simp only [List.getLast?_concat, List.dropLast_concat, Option.map_some, Option.getD_some] at h2 h4 ⊢
        refine Sat.cb (dropItem_cb E kind p) ?_ ?_
        · intro _ s2 g1 g2 _
          have hr2 : Rep s2.r L := g1 ▸ h2
          refine Sat.bind (Sat.mono (intoIterCount_sat kind fuel s2 L hr2) (fun _ _ h => h) ?_) ?_
          · intro c s3 ⟨k1, k2, m, k3, k4⟩
            refine ⟨by rw [k1, g1, h3], k2.after (h4.trans g2), m, by simp; omega, ?_⟩
            rwa [List.take_append_of_le_length (by omega)]
          · intro n s3 ⟨k1, k2, k3, k4⟩
            refine Sat.pure ⟨by simp [k1], ?_, by rw [k3, g1, h3], ?_⟩
            · have : (L ++ [p]).length - (fuel + 1) = L.length - fuel := by simp
              rw [this, List.take_append_of_le_length (by omega)]
              exact k2
            · have := (h4.trans g2).trans k4
              simpa [skipTr, List.append_assoc] using this
        · intro s2 tr' g1 g2 g3 g4
          refine ⟨by rw [g1, h3], (InjPanic.of_cb g2 g3 g4).after h4, L.length, by simp, ?_⟩
          rw [g1]; simpa using h2

/-- the effects of `last()` on the items `ps` (in yield order) with accumulator `acc`: the half
    `next` discards of the new item, then the drop of the previous item. -/
def lastTr (kind : IntoKind) : Option (K × V) → List (K × V) → List (Event K V Q)
  | _, [] => []
  | acc, p :: ps => discardTr E kind p ++ ((acc.map (itemTr E kind)).getD [] ++ lastTr kind (some p) ps)

/-- `last()` with enough fuel: every entry is popped, each but the last one yielded (slot 0) is
    destroyed; the map is empty afterwards. -/
theorem intoIterLast_sat (kind : IntoKind) : ∀ (fuel : Nat) (acc : Option (K × V)) (s : St K V Q)
    (l : List (K × V)), Rep s.r l → l.length < fuel →
    Sat (intoIterLast E kind fuel acc) s
      (fun o s' => o = l.head?.or acc ∧ Rep s'.r [] ∧ s'.r.cap = s.r.cap ∧
        WRel s.w s'.w (lastTr E kind acc l.reverse))
      (fun c s' => s'.r.cap = s.r.cap ∧ InjPanic s s' c ∧ ∃ m, m < l.length ∧ Rep s'.r (l.take m))
  | 0, _, _, _, _, hf => by omega
  | fuel + 1, acc, s, l, hr, hf => by
    unfold intoIterLast
    refine Sat.bind (Sat.mono (intoIterNextK_guarded_sat E kind
      (tc := fun _ => (acc.map (itemTr E kind)).getD []) (Qc := fun _ _ => True) ?hcl hr)
      (fun _ _ h => h) ?_) ?_
    case hcl =>
      cases acc with
      | none => exact (CbOk.pure ()).mono (fun _ => rfl) (fun _ _ _ => trivial)
      | some q => exact dropItem_cb E kind q
    · intro c s1 ⟨h1, h2, h3, h4, _⟩
      refine ⟨h2, h3, l.length - 1, ?_, ?_⟩
      · have : l.length ≠ 0 := by simpa using h4
        omega
      · simpa [List.dropLast_eq_take] using h1
    · intro o s1 ⟨h1, h2, h3, h4⟩
      subst h1
      rcases nil_or_snoc l with rfl | ⟨L, p, rfl⟩
      · exact Sat.pure ⟨by simp, by simpa using h2, h3, by simpa [lastTr] using h4⟩
      · simp only [List.getLast?_concat, List.dropLast_concat, Option.map_some, Option.getD_some] at h2 h4 ⊢
        have hfL : L.length < fuel := by simp at hf; omega
        have hhead : (L ++ [p]).head?.or acc = L.head?.or (some p) := by
          cases L <;> simp
        have key : ∀ (s2 : St K V Q), s2.r = s1.r →
            WRel s.w s2.w (discardTr E kind p ++ (acc.map (itemTr E kind)).getD []) →
            Sat (intoIterLast E kind fuel (some p)) s2
              (fun o s' => o = (L ++ [p]).head?.or acc ∧ Rep s'.r [] ∧ s'.r.cap = s.r.cap ∧
                WRel s.w s'.w (lastTr E kind acc (L ++ [p]).reverse))
              (fun c s' => s'.r.cap = s.r.cap ∧ InjPanic s s' c ∧
                ∃ m, m < (L ++ [p]).length ∧ Rep s'.r ((L ++ [p]).take m)) := by
          intro s2 g1 g2
          have hr2 : Rep s2.r L := g1 ▸ h2
          refine Sat.mono (intoIterLast_sat kind fuel (some p) s2 L hr2 hfL) ?_ ?_
          · intro o s3 ⟨k1, k2, k3, k4⟩
            refine ⟨by rw [k1, hhead], k2, by rw [k3, g1, h3], ?_⟩
            have := g2.trans k4
            simpa [lastTr, List.append_assoc] using this
          · intro c s3 ⟨k1, k2, m, k3, k4⟩
            refine ⟨by rw [k1, g1, h3], k2.after g2, m, by simp; omega, ?_⟩
            rwa [List.take_append_of_le_length (by omega)]
        cases acc with
        | none =>
          exact key s1 rfl (by simpa using h4)
        | some q =>
          refine Sat.cb (CbOk.unwindWith (leakItem_cb kind p) (dropItem_cb E kind q)) ?_ ?_
          · intro _ s2 g1 g2 _
            exact key s2 g1 (by simpa using h4.trans g2)
          · intro s2 tr' g1 g2 g3 g4
            refine ⟨by rw [g1, h3], (InjPanic.of_cb g2 g3 g4).after h4, L.length, by simp, ?_⟩
            rw [g1]; simpa using h2

/-! ### what `last()` leaks -/

/-- the objects of an item of kind `kind`. -/
def leakObjs (kind : IntoKind) (p : K × V) : List (Obj K V) :=
  match kind with
  | .pairs => [.k p.1, .v p.2]
  | .keys => [.k p.1]
  | .values => [.v p.2]

/-- `m` records no leak, whether it returns or unwinds (and never reaches `ub`). -/
def Lk {α : Type} (m : SM K V Q α) : Prop :=
  ∀ s, Sat m s (fun _ s' => s'.w.leaked = s.w.leaked) (fun _ s' => s'.w.leaked = s.w.leaked)

theorem Lk.pure {α : Type} (a : α) : Lk (pure a : SM K V Q α) := fun _ => rfl

theorem Lk.bind {α β : Type} {m : SM K V Q α} {f : α → SM K V Q β} (hm : Lk m) (hf : ∀ a, Lk (f a)) :
    Lk (m >>= f) := by
  intro s
  refine Sat.bind (hm s) ?_
  intro a s1 h1
  exact Sat.mono (hf a s1) (fun _ _ h => h.trans h1) (fun _ _ h => h.trans h1)

theorem Lk.unwindWith {α : Type} {c : SM K V Q Unit} {b : SM K V Q α} {tc Qc} (hc : CbOk c tc Qc)
    (hcl : Lk c) (hb : Lk b) : Lk (unwindWith c b) := by
  intro s
  refine Sat.unwindWith (hb s) ?_
  intro cl s1 h1
  refine Sat.mono (Sat.and (hc.unw (s1.setUnw true) rfl) (hcl (s1.setUnw true))) ?_ (fun _ _ h => h.1)
  intro _ s2 ⟨_, g⟩
  simpa [h1] using g

theorem tick_lk : Lk (tick : SM K V Q Unit) := by
  intro s
  obtain ⟨r, ⟨profile, inject, unwinding, calls, nextId, events, leaked⟩⟩ := s
  unfold Sat tick
  cases unwinding with
  | true => rfl
  | false =>
    cases inject with
    | none => rfl
    | some n => cases n <;> rfl

theorem logE_lk (e : Event K V Q) : Lk (logE e : SM K V Q Unit) := fun _ => rfl

theorem dropK_lk (k : K) : Lk (dropK k : SM K V Q Unit) := Lk.bind (logE_lk _) (fun _ => tick_lk)

theorem dropV_lk (v : V) : Lk (dropV E v) := by
  unfold dropV
  split
  · exact Lk.bind (logE_lk _) (fun _ => tick_lk)
  · exact Lk.pure ()

theorem dropPair_lk (p : K × V) : Lk (dropPair E p) :=
  Lk.bind (Lk.unwindWith (dropV_cb E p.2) (dropV_lk E p.2) (dropK_lk p.1)) (fun _ => dropV_lk E p.2)

theorem dropItem_lk (kind : IntoKind) (p : K × V) : Lk (dropItem E kind p) := by
  cases kind with
  | pairs => exact dropPair_lk E p
  | keys => exact dropK_lk p.1
  | values => exact dropV_lk E p.2

/-- `leakItem` as clean-up: it records exactly the objects of the item. -/
theorem leakItem_leaked (kind : IntoKind) (p : K × V) (t : St K V Q) :
    Sat (leakItem (Q := Q) kind p) t (fun _ t' => t'.w.leaked = t.w.leaked ++ leakObjs kind p)
      (fun _ _ => False) := by
  cases kind <;> simp [Sat, leakItem, leak, modS, leakObjs]

/-- `next` leaks nothing when it returns; if the drop of the discarded half unwinds, exactly the
    kept half of the popped entry `p` — the item — is leaked. -/
theorem intoIterNextK_leaked (kind : IntoKind) {s : St K V Q} {l : List (K × V)} (hr : Rep s.r l) :
    Sat (intoIterNextK E kind) s (fun _ s' => s'.w.leaked = s.w.leaked)
      (fun _ s' => ∃ p, l.getLast? = some p ∧ s'.w.leaked = s.w.leaked ++ leakObjs kind p) := by
  obtain ⟨s1, h1, _, _, h4, _⟩ := intoIterNext_spec hr
  unfold intoIterNextK
  refine Sat.bind (Sat.of_ok h1 (Q := fun o s' => o = l.getLast? ∧ s1 = s') ⟨rfl, rfl⟩) ?_
  rintro _ _ ⟨rfl, rfl⟩
  cases hl : l.getLast? with
  | none => exact Sat.pure (by rw [h4])
  | some p =>
    cases kind with
    | pairs => exact Sat.pure (by rw [h4])
    | keys =>
      refine Sat.bind (Q₁ := fun _ s' => s'.w.leaked = s.w.leaked)
        (Sat.unwindWith (Sat.mono (dropV_lk E p.2 s1) (fun _ _ h => h.trans (by rw [h4])) (fun _ _ h => h)) ?_)
        (fun _ _ h => Sat.pure h)
      intro c s2 g
      have := leakItem_leaked (Q := Q) .keys p (s2.setUnw true)
      refine Sat.mono this ?_ (fun _ _ h => h)
      intro _ s3 g3
      exact ⟨p, rfl, by simpa [g, h4] using g3⟩
    | values =>
      refine Sat.bind (Q₁ := fun _ s' => s'.w.leaked = s.w.leaked)
        (Sat.unwindWith (Sat.mono (dropK_lk p.1 s1) (fun _ _ h => h.trans (by rw [h4])) (fun _ _ h => h)) ?_)
        (fun _ _ h => Sat.pure h)
      intro c s2 g
      have := leakItem_leaked (Q := Q) .values p (s2.setUnw true)
      refine Sat.mono this ?_ (fun _ _ h => h)
      intro _ s3 g3
      exact ⟨p, rfl, by simpa [g, h4] using g3⟩

/-- `last()` records no leak when it returns; when it unwinds, the only new leaked objects are those
    of one item `p` of the map: the item `next` was producing (its kept half sat in the return place
    when the drop of the other half unwound), or the newest item, already in `fold`'s return place
    when the drop of the previous one unwound. -/
theorem intoIterLast_leaked (kind : IntoKind) : ∀ (fuel : Nat) (acc : Option (K × V)) (s : St K V Q)
    (l : List (K × V)), Rep s.r l →
    Sat (intoIterLast E kind fuel acc) s (fun _ s' => s'.w.leaked = s.w.leaked)
      (fun _ s' => ∃ p ∈ l, s'.w.leaked = s.w.leaked ++ leakObjs kind p)
  | 0, _, _, _, _ => Sat.pure rfl
  | fuel + 1, acc, s, l, hr => by
    have hcl : CbOk (match acc with | some q => dropItem E kind q | none => pure ())
        (fun _ => (acc.map (itemTr E kind)).getD []) (fun _ _ => True) := by
      cases acc with
      | none => exact (CbOk.pure ()).mono (fun _ => rfl) (fun _ _ _ => trivial)
      | some q => exact dropItem_cb E kind q
    have hlk : Lk (match acc with | some q => dropItem E kind q | none => pure ()) := by
      cases acc with
      | none => exact Lk.pure ()
      | some q => exact dropItem_lk E kind q
    unfold intoIterLast
    refine Sat.bind (Sat.mono (Sat.and (intoIterNextK_guarded_sat E kind hcl hr)
      (Sat.unwindWith (P := fun _ s' => ∃ p ∈ l, s'.w.leaked = s.w.leaked ++ leakObjs kind p)
        (intoIterNextK_leaked E kind hr) ?cleanup)) (fun _ _ h => h) ?_) ?_
    case cleanup =>
      intro c s1 ⟨p, g1, g2⟩
      refine Sat.mono (Sat.and (hcl.unw (s1.setUnw true) rfl) (hlk (s1.setUnw true))) ?_ (fun _ _ h => h.1)
      intro _ s2 ⟨_, g⟩
      refine ⟨p, List.mem_of_getLast? g1, ?_⟩
      simpa [g2] using g
    · intro c s1 ⟨_, h⟩
      exact h
    · intro o s1 ⟨⟨h1, h2, _, _⟩, h5⟩
      subst h1
      rcases nil_or_snoc l with rfl | ⟨L, p, rfl⟩
      · exact Sat.pure h5
      · simp only [List.getLast?_concat, List.dropLast_concat] at h2 ⊢
        have key : ∀ (s2 : St K V Q), s2.r = s1.r → s2.w.leaked = s.w.leaked →
            Sat (intoIterLast E kind fuel (some p)) s2 (fun _ s' => s'.w.leaked = s.w.leaked)
              (fun _ s' => ∃ p' ∈ L ++ [p], s'.w.leaked = s.w.leaked ++ leakObjs kind p') := by
          intro s2 g1 g2
          refine Sat.mono (intoIterLast_leaked kind fuel (some p) s2 L (g1 ▸ h2)) ?_ ?_
          · intro _ s3 k; exact k.trans g2
          · intro _ s3 ⟨p', k1, k2⟩
            exact ⟨p', List.mem_append_left _ k1, by rw [k2, g2]⟩
        cases acc with
        | none => exact key s1 rfl h5
        | some q =>
          refine Sat.bind (Q₁ := fun _ s2 => s2.r = s1.r ∧ s2.w.leaked = s.w.leaked)
            (Sat.mono (Sat.and (CbOk.unwindWith (leakItem_cb kind p) (dropItem_cb E kind q) s1)
              (Sat.unwindWith (dropItem_lk E kind q s1)
                (P := fun _ s' => s'.w.leaked = s1.w.leaked ++ leakObjs kind p) ?cl2))
              (fun _ _ ⟨a, b⟩ => ⟨a.1, b.trans h5⟩) ?_) ?_
          case cl2 =>
            intro c s2 g
            refine Sat.mono (leakItem_leaked (Q := Q) kind p (s2.setUnw true)) ?_ (fun _ _ h => h)
            intro _ s3 g3
            simpa [g] using g3
          · intro c s2 ⟨_, b⟩
            exact ⟨p, by simp, by rw [b, h5]⟩
          · intro _ s2 ⟨g1, g2⟩
            exact key s2 g1 g2

/-! ### the composite operation on a consuming iterator -/

/-- a panic inside the body unwinds through the owner of the iterator: the rest of the map is
    dropped (this cannot unwind again) and the register holds a fresh `new()`. -/
theorem renewOnUnwind {α : Type} {body : SM K V Q α} {s : St K V Q} {Qp : α → St K V Q → Prop}
    (hb : Sat body s Qp (fun c s' => s'.r.cap = s.r.cap ∧ InjPanic s s' c ∧ ∃ l', Rep s'.r l')) :
    Sat (unwindWith (dropAndRenew E) body) s Qp (fun c s' => s'.r = Raw.new s.r.cap ∧ InjPanic s s' c) := by
  refine Sat.unwindWith hb ?_
  intro c s1 ⟨h1, h2, l', h5⟩
  have hr1 : Rep (s1.setUnw true).r l' := h5
  refine Sat.mono (dropAndRenew_unw E hr1 rfl) ?_ (fun _ _ h => h)
  intro _ s2 ⟨g1, g2⟩
  refine ⟨by simpa [h1] using g1, ?_⟩
  obtain ⟨k1, k2, k3, tr', k4⟩ := h2
  exact ⟨k1, k2, k3, _, k4.trans g2.through_unw⟩

/-- the items the take phase hands to the caller. -/
def intoItems (take : StdTake) (l : List (K × V)) : List (K × V) :=
  match take with
  | .next n => l.reverse.take n
  | .nth k => l.reverse[k]?.toList
  | .last => l.head?.toList

/-- how many entries are still owned after the take phase on `n` entries. -/
def stdRem (take : StdTake) (n : Nat) : Nat :=
  match take with
  | .next m => n - m
  | .nth k => n - (k + 1)
  | .last => 0

/-- `count()`'s answer, if that is how the iterator ended. -/
def stdCnt (fin : StdEnd) (rem : Nat) : Option Nat :=
  match fin with
  | .count => some rem
  | _ => none

/-- the effects of the take phase. -/
def intoTakeTr (kind : IntoKind) (take : StdTake) (l : List (K × V)) : List (Event K V Q) :=
  match take with
  | .next n => (l.reverse.take n).flatMap (discardTr E kind)
  | .nth k => (l.reverse.take k).flatMap (skipTr E kind) ++ ((l.reverse[k]?).map (discardTr E kind)).getD []
  | .last => lastTr E kind none l.reverse

/-- the effects of the end of the iterator that still owns `rest`. -/
def intoFinTr (kind : IntoKind) (fin : StdEnd) (rest : List (K × V)) : List (Event K V Q) :=
  match fin with
  | .forget => []
  | .drop => dropTrace E rest
  | .count => rest.reverse.flatMap (skipTr E kind)

@[simp] theorem stdRem_le (take : StdTake) (n : Nat) : stdRem take n ≤ n := by
  cases take <;> simp [stdRem]

def intoTakeBody (kind : IntoKind) (take : StdTake) (len0 : Nat) : SM K V Q (List (K × V)) :=
  match take with
  | .next n => intoIterTake E kind n
  | .nth k => do pure (← intoIterNth E kind k).toList
  | .last => do pure (← intoIterLast E kind (len0 + 1) none).toList

def intoStdTail (kind : IntoKind) (fin : StdEnd) (items : List (K × V)) :
    SM K V Q (List (K × V) × Nat × List (K × V) × Option Nat) := do
  let remaining ← getLen
  let s ← getS
  let rest ← entriesOf s.r
  match fin with
  | .forget => do forgetMap; pure (items, remaining, rest, none)
  | .drop => do dropAndRenew E; pure (items, remaining, rest, none)
  | .count => do
    let c ← unwindWith (dropAndRenew E) (intoIterCount E kind (remaining + 1))
    dropAndRenew E
    pure (items, remaining, rest, some c)

theorem intoIterStdOp_eq (kind : IntoKind) (take : StdTake) (fin : StdEnd) :
    intoIterStdOp E kind take fin =
      (getLen >>= fun len0 => unwindWith (dropAndRenew E) (intoTakeBody E kind take len0) >>=
        fun items => intoStdTail E kind fin items) := rfl

/-- the take phase. -/
theorem intoTakeBody_sat (kind : IntoKind) (take : StdTake) {s : St K V Q} {l : List (K × V)}
    (hr : Rep s.r l) :
    Sat (intoTakeBody E kind take l.length) s
      (fun items s' => items = intoItems take l ∧ Rep s'.r (l.take (stdRem take l.length)) ∧
        s'.r.cap = s.r.cap ∧ WRel s.w s'.w (intoTakeTr E kind take l))
      (fun c s' => s'.r.cap = s.r.cap ∧ InjPanic s s' c ∧ ∃ l', Rep s'.r l') := by
  cases take with
  | next n =>
    refine Sat.mono (intoIterTake_sat E kind n s l hr) ?_ ?_
    · intro items s' ⟨h1, h2, h3, h4⟩
      subst h1
      exact ⟨rfl, h2, h3, h4⟩
    · intro c s' ⟨h1, h2, _, m, _, h5⟩
      exact ⟨h1, h2, _, h5⟩
  | nth k =>
    show Sat (intoIterNth E kind k >>= fun o => pure o.toList) s _ _
    refine Sat.bind (Sat.mono (intoIterNth_sat E kind k hr) (fun _ _ h => h) ?_) ?_
    · intro c s' ⟨h1, h2, m, _, h5⟩
      exact ⟨h1, h2, _, h5⟩
    · intro o s' ⟨h1, h2, h3, h4⟩
      subst h1
      exact Sat.pure ⟨rfl, h2, h3, h4⟩
  | last =>
    show Sat (intoIterLast E kind (l.length + 1) none >>= fun o => pure o.toList) s _ _
    refine Sat.bind (Sat.mono (intoIterLast_sat E kind (l.length + 1) none s l hr (by omega))
      (fun _ _ h => h) ?_) ?_
    · intro c s' ⟨h1, h2, m, _, h5⟩
      exact ⟨h1, h2, _, h5⟩
    · intro o s' ⟨h1, h2, h3, h4⟩
      subst h1
      exact Sat.pure ⟨by simp [intoItems], by simpa [stdRem] using h2, h3, h4⟩

/-- observing and ending an iterator that still owns `l1`. -/
theorem intoStdTail_sat (kind : IntoKind) (fin : StdEnd) (items : List (K × V)) {s : St K V Q}
    {l : List (K × V)} (hr : Rep s.r l) :
    Sat (intoStdTail E kind fin items) s
      (fun res s' => res = (items, l.length, l, stdCnt fin l.length) ∧ s'.r = Raw.new s.r.cap ∧
        WRel s.w s'.w (intoFinTr E kind fin l))
      (fun c s' => s'.r = Raw.new s.r.cap ∧ InjPanic s s' c) := by
  unfold intoStdTail
  refine Sat.bind (Q₁ := fun n s' => n = l.length ∧ s = s')
    (show Sat getLen s _ _ from ⟨hr.1, rfl⟩) ?_
  rintro _ _ ⟨rfl, rfl⟩
  refine Sat.getS_bind ?_
  refine Sat.bind (Sat.of_ok (entriesOf_rep hr s) (Q := fun x s' => l = x ∧ s = s') ⟨rfl, rfl⟩) ?_
  rintro _ _ ⟨rfl, rfl⟩
  cases fin with
  | forget =>
    refine Sat.bind (Sat.of_ok (forgetMap_eq s) (Q := fun _ s' => s'.r = Raw.new s.r.cap ∧
      WRel s.w s'.w []) ⟨rfl, WRel.leaked s.w _⟩) ?_
    intro _ s2 ⟨g1, g2⟩
    exact Sat.pure ⟨rfl, g1, g2⟩
  | drop =>
    refine Sat.bind (dropAndRenew_sat E hr) ?_
    intro _ s2 ⟨g1, g2⟩
    exact Sat.pure ⟨rfl, g1, g2⟩
  | count =>
    refine Sat.bind (renewOnUnwind E (Sat.mono (intoIterCount_sat E kind (l.length + 1) s l hr)
      (fun _ _ h => h) (fun c s' ⟨h1, h2, m, _, h5⟩ => ⟨h1, h2, _, h5⟩))) ?_
    intro n s1 ⟨h1, h2, h3, h4⟩
    have hn : n = l.length := by omega
    subst hn
    have h0 : l.length - (l.length + 1) = 0 := by omega
    rw [h0, List.take_zero] at h2
    rw [List.take_of_length_le (by simp)] at h4
    refine Sat.bind (Sat.mono (dropAndRenew_sat E h2) (fun _ _ h => h) ?_) ?_
    · intro c s2 ⟨g1, g2⟩
      exact ⟨by rw [g1, h3], g2.after h4⟩
    · intro _ s2 ⟨g1, g2⟩
      refine Sat.pure ⟨rfl, by rw [g1, h3], ?_⟩
      simpa [intoFinTr, dropTrace] using h4.trans g2

/-- (1) `into_iter()` / `into_keys()` / `into_values()`, then `n × next` / `nth(k)` / `last()`, then the
    iterator is dropped, forgotten or `count()`ed — in ANY world: never `ub`; returning or unwinding,
    the register holds a fresh `new()` of the same capacity (the map was consumed); a panic can only
    be an injected one.  The result is `(items, remaining, rest, cnt)` with `items` the items handed
    to the caller, `remaining` the exact `len()` after the take phase, `rest` the untouched front
    (what `Debug` shows), `cnt` the answer of `count()`; the effects are exactly those of the take
    phase followed by those of the end. -/
theorem intoIterStdOp_sat (kind : IntoKind) (take : StdTake) (fin : StdEnd) {s : St K V Q}
    {l : List (K × V)} (hr : Rep s.r l) :
    Sat (intoIterStdOp E kind take fin) s
      (fun res s' => s'.r = Raw.new s.r.cap ∧
        res = (intoItems take l, stdRem take l.length, l.take (stdRem take l.length),
          stdCnt fin (stdRem take l.length)) ∧
        WRel s.w s'.w (intoTakeTr E kind take l ++ intoFinTr E kind fin (l.take (stdRem take l.length))))
      (fun c s' => s'.r = Raw.new s.r.cap ∧ InjPanic s s' c) := by
  rw [intoIterStdOp_eq]
  refine Sat.bind (Q₁ := fun n s' => n = l.length ∧ s = s')
    (show Sat getLen s _ _ from ⟨hr.1, rfl⟩) ?_
  rintro _ _ ⟨rfl, rfl⟩
  refine Sat.bind (renewOnUnwind E (intoTakeBody_sat E kind take hr)) ?_
  intro items s1 ⟨h1, h2, h3, h4⟩
  subst h1
  have hlen : (l.take (stdRem take l.length)).length = stdRem take l.length := by
    rw [List.length_take]; exact Nat.min_eq_left (stdRem_le _ _)
  refine Sat.mono (intoStdTail_sat E kind fin _ h2) ?_ ?_
  · intro res s2 ⟨g1, g2, g3⟩
    rw [hlen] at g1
    exact ⟨by rw [g2, h3], g1, h4.trans g3⟩
  · intro c s2 ⟨g1, g2⟩
    exact ⟨by rw [g1, h3], g2.after h4⟩

/-! ### `Drain` -/

/-- `Drop for Drain` as clean-up (while unwinding) on a range holding `ps`: completes; the range is
    dead afterwards, nothing else moves. -/
theorem drainDrop_unw {ps : List (K × V)} {lo hi : Nat} {s : St K V Q} (hhi : hi = lo + ps.length)
    (hl : ∀ j (hj : j < ps.length), s.r.slots (lo + j) = some ps[j]) (hc : hi ≤ s.r.cap)
    (hu : s.w.unwinding = true) :
    Sat (drainDrop E lo hi) s
      (fun _ s' => s'.r.len = s.r.len ∧ s'.r.cap = s.r.cap ∧
        (∀ j, j < lo ∨ hi ≤ j → s'.r.slots j = s.r.slots j) ∧
        (∀ j, lo ≤ j → j < hi → s'.r.slots j = none) ∧ WRel s.w s'.w (dropTrace E ps))
      (fun _ _ => False) := by
  subst hhi
  unfold drainDrop
  have hn : lo + ps.length - lo = ps.length := by omega
  rw [hn]
  refine Sat.mono (dropRange_sat E ps lo s hl hc) (fun _ _ h => h) ?_
  intro c s' ⟨_, _, _, _, _, h, _⟩
  rw [hu] at h; exact absurd h (by simp)

/-- the unwinding postcondition of the `Drain` methods below: only an injected panic, and the
    `Drain` was dropped — no live slot is left in its range `[lo, hi)`, nothing else moved. -/
def DrainUnw (lo hi : Nat) (s s' : St K V Q) (c : PanicClass) : Prop :=
  s'.r.len = s.r.len ∧ s'.r.cap = s.r.cap ∧ InjPanic s s' c ∧
    (∀ j, j < lo ∨ hi ≤ j → s'.r.slots j = s.r.slots j) ∧ (∀ j, lo ≤ j → j < hi → s'.r.slots j = none)

/-- the caller drops an item while the `Drain` still owns the range `[lo, hi)` holding `ps`: if the
    drop unwinds, the frame's clean-up runs — some bookkeeping `pre` (a leak), then the `Drain` is
    dropped. -/
theorem drainDropItemPre_sat {pre : SM K V Q Unit} {tp Qp} (hpre : CbOk pre tp Qp) (p : K × V)
    {ps : List (K × V)} {lo hi : Nat} {s : St K V Q} (hhi : hi = lo + ps.length)
    (hl : ∀ j (hj : j < ps.length), s.r.slots (lo + j) = some ps[j]) (hc : hi ≤ s.r.cap) :
    Sat (unwindWith (pre >>= fun _ => drainDrop E lo hi) (dropPair E p)) s
      (fun _ s' => s'.r = s.r ∧ WRel s.w s'.w (.dropK p.1 :: dropVTr E p.2))
      (fun c s' => DrainUnw lo hi s s' c) := by
  refine Sat.unwindWith (P₀ := fun c s' => s'.r = s.r ∧ InjPanic s s' c) ?_ ?_
  · refine Sat.cb_last (dropPair_cb E p) ?_ ?_
    · intro _ s' h1 h2 _; exact ⟨h1, h2⟩
    · intro s' tr' h1 h2 h3 h4; exact ⟨h1, InjPanic.of_cb h2 h3 h4⟩
  · intro c s1 ⟨h1, k1, k2, k3, tr', k4⟩
    refine Sat.bind (hpre.unw (s1.setUnw true) rfl) ?_
    intro _ s1' ⟨e1, e2, _⟩
    have er : s1'.r = s.r := by rw [e1]; simpa using h1
    have eu : s1'.w.unwinding = true := by rw [e2.unw]; rfl
    have hl1 : ∀ j (hj : j < ps.length), s1'.r.slots (lo + j) = some ps[j] := by
      intro j hj; rw [er]; exact hl j hj
    refine Sat.mono (drainDrop_unw E (s := s1') hhi hl1 (by rw [er]; exact hc) eu) ?_ (fun _ _ h => h)
    intro _ s2 ⟨g1, g2, g3, g4, g5⟩
    exact ⟨by simpa [er] using g1, by simpa [er] using g2,
      ⟨k1, k2, k3, _, k4.trans (e2.trans g5).through_unw⟩,
      fun j hj => by simpa [er] using g3 j hj, fun j a b => by simpa using g4 j a b⟩

/-- the same without bookkeeping (`advance_by`, `count`). -/
theorem drainDropItem_sat (p : K × V) {ps : List (K × V)} {lo hi : Nat} {s : St K V Q}
    (hhi : hi = lo + ps.length)
    (hl : ∀ j (hj : j < ps.length), s.r.slots (lo + j) = some ps[j]) (hc : hi ≤ s.r.cap) :
    Sat (unwindWith (drainDrop E lo hi) (dropPair E p)) s
      (fun _ s' => s'.r = s.r ∧ WRel s.w s'.w (.dropK p.1 :: dropVTr E p.2))
      (fun c s' => DrainUnw lo hi s s' c) :=
  drainDropItemPre_sat E ((CbOk.pure ()).mono (fun _ => rfl) (fun _ _ _ => trivial)) p hhi hl hc

theorem slots_tail {p : K × V} {ps : List (K × V)} {lo : Nat} {r r' : Raw K V}
    (hl : ∀ j (hj : j < (p :: ps).length), r.slots (lo + j) = some (p :: ps)[j])
    (hr' : ∀ j, lo + 1 ≤ j → r'.slots j = r.slots j) :
    ∀ j (hj : j < ps.length), r'.slots (lo + 1 + j) = some ps[j] := by
  intro j hj
  rw [hr' _ (by omega)]
  have := hl (j + 1) (by simp; omega)
  simpa [Nat.add_assoc, Nat.add_comm 1 j] using this

/-- slot `lo` was read, and behind it the range `[lo + 1, hi)` is dead: `[lo, hi)` is dead. -/
theorem dead_step {r r' : Raw K V} {lo hi : Nat}
    (hA : ∀ j, j < lo + 1 ∨ hi ≤ j → r'.slots j = (setSlot r lo none).slots j)
    (hD : ∀ j, lo + 1 ≤ j → j < hi → r'.slots j = none) (hlt : lo < hi) :
    (∀ j, j < lo ∨ hi ≤ j → r'.slots j = r.slots j) ∧ (∀ j, lo ≤ j → j < hi → r'.slots j = none) := by
  refine ⟨fun j hj => ?_, fun j h1 h2 => ?_⟩
  · rw [hA j (by omega)]; exact setSlot_other _ _ (by omega)
  · by_cases hji : j = lo
    · subst hji; rw [hA j (by omega)]; simp
    · exact hD j (by omega) h2

/-- an unwinding behind the first read of a step is an unwinding of the step. -/
theorem DrainUnw.step {lo hi : Nat} {s s2 s3 : St K V Q} {c t}
    (hlt : lo < hi) (g1 : s2.r = setSlot s.r lo none) (g2 : WRel s.w s2.w t)
    (h : DrainUnw (lo + 1) hi s2 s3 c) :
    DrainUnw lo hi s s3 c := by
  obtain ⟨k1, k2, k3, k4, k5⟩ := h
  rw [g1] at k4
  obtain ⟨a, d⟩ := dead_step k4 k5 hlt
  exact ⟨by rw [k1, g1]; rfl, by rw [k2, g1]; rfl, k3.after g2, a, d⟩

/-- `advance_by(k)` on a `Drain` whose range `[lo, hi)` holds `ps`: the first `min k |ps|` of them
    are read and destroyed in slot order; nothing behind the new position moves. -/
theorem drainSkip_sat : ∀ (k : Nat) (ps : List (K × V)) (lo hi : Nat) (s : St K V Q),
    hi = lo + ps.length → (∀ j (hj : j < ps.length), s.r.slots (lo + j) = some ps[j]) → hi ≤ s.r.cap →
    Sat (drainSkip E hi k lo) s
      (fun res s' => res = (lo + min k ps.length, decide (k ≤ ps.length)) ∧ s'.r.len = s.r.len ∧
        s'.r.cap = s.r.cap ∧ (∀ j, lo + min k ps.length ≤ j → s'.r.slots j = s.r.slots j) ∧
        WRel s.w s'.w (dropTrace E (ps.take k)))
      (fun c s' => DrainUnw lo hi s s' c)
  | 0, ps, lo, hi, s, _, _, _ => by
    exact Sat.pure ⟨by simp, rfl, rfl, fun _ _ => rfl, by simpa [dropTrace] using WRel.refl _⟩
  | k + 1, [], lo, hi, s, hhi, _, _ => by
    have : ¬ lo < hi := by simp at hhi; omega
    unfold drainSkip
    refine Sat.bind (Sat.of_ok (drainNext_end this s) (Q := fun x s' => x = none ∧ s = s') ⟨rfl, rfl⟩) ?_
    rintro _ _ ⟨rfl, rfl⟩
    exact Sat.pure ⟨by simp, rfl, rfl, fun _ _ => rfl, by simpa [dropTrace] using WRel.refl _⟩
  | k + 1, p :: ps, lo, hi, s, hhi, hl, hc => by
    have h0 : s.r.slots lo = some p := by have := hl 0 (by simp); simpa using this
    simp only [List.length_cons] at hhi
    have hlt : lo < hi := by omega
    unfold drainSkip
    refine Sat.bind (Sat.of_ok (drainNext_lt hlt (by omega) h0)
      (Q := fun x s' => x = some p ∧ { s with r := setSlot s.r lo none } = s') ⟨rfl, rfl⟩) ?_
    rintro _ _ ⟨rfl, rfl⟩
    have hl1 := slots_tail (r' := setSlot s.r lo none) hl (fun j hj => setSlot_other _ _ (by omega))
    refine Sat.bind (m := unwindWith _ _) (Sat.mono (drainDropItem_sat E p
      (s := { s with r := setSlot s.r lo none }) (lo := lo + 1) (by omega) hl1 (by simpa using hc))
      (fun _ _ h => h) ?_) ?_
    · intro c s2 h
      exact DrainUnw.step (s2 := { s with r := setSlot s.r lo none }) hlt rfl (WRel.refl _) h
    · intro _ s2 ⟨g1, g2⟩
      have hl2 : ∀ j (hj : j < ps.length), s2.r.slots (lo + 1 + j) = some ps[j] := by
        rw [g1]; exact hl1
      refine Sat.mono (drainSkip_sat k ps (lo + 1) hi s2 (by omega) hl2 (by rw [g1]; simpa using hc)) ?_ ?_
      · intro res s3 ⟨k1, k2, k3, k4, k5⟩
        have hmin : lo + min (k + 1) (ps.length + 1) = lo + 1 + min k ps.length := by omega
        refine ⟨?_, by rw [k2, g1]; rfl, by rw [k3, g1]; rfl, fun j hj => ?_, ?_⟩
        · rw [k1]; simp only [List.length_cons, hmin, Nat.add_le_add_iff_right]
        · simp only [List.length_cons, hmin] at hj
          rw [k4 j hj, g1]; exact setSlot_other _ _ (by omega)
        · have := g2.trans k5
          simpa [dropTrace] using this
      · intro c s3 h
        exact DrainUnw.step hlt g1 g2 h

/-- `nth(k)` on a `Drain` whose range `[lo, hi)` holds `ps`: the first `k` are destroyed, `ps[k]`
    is returned; the `Drain` stands behind it. -/
theorem drainNth_sat (k : Nat) (ps : List (K × V)) (lo hi : Nat) (s : St K V Q)
    (hhi : hi = lo + ps.length) (hl : ∀ j (hj : j < ps.length), s.r.slots (lo + j) = some ps[j])
    (hc : hi ≤ s.r.cap) :
    Sat (drainNth E hi lo k) s
      (fun res s' => res = (ps[k]?, lo + min (k + 1) ps.length) ∧ s'.r.len = s.r.len ∧
        s'.r.cap = s.r.cap ∧ (∀ j, lo + min (k + 1) ps.length ≤ j → s'.r.slots j = s.r.slots j) ∧
        WRel s.w s'.w (dropTrace E (ps.take k)))
      (fun c s' => DrainUnw lo hi s s' c) := by
  unfold drainNth
  refine Sat.bind (drainSkip_sat E k ps lo hi s hhi hl hc) ?_
  rintro _ s1 ⟨rfl, h2, h3, h4, h5⟩
  by_cases hk : k ≤ ps.length
  · simp only [hk, decide_true, if_true]
    by_cases hlt : k < ps.length
    · have hmin : min k ps.length = k := by omega
      have hmin1 : min (k + 1) ps.length = k + 1 := by omega
      rw [hmin] at h4 ⊢
      have hs : s1.r.slots (lo + k) = some ps[k] := by rw [h4 _ (Nat.le_refl _)]; exact hl k hlt
      refine Sat.bind (Sat.of_ok (drainNext_lt (by omega) (by rw [h3]; omega) hs)
        (Q := fun x s' => x = some ps[k] ∧ { s1 with r := setSlot s1.r (lo + k) none } = s') ⟨rfl, rfl⟩) ?_
      rintro _ _ ⟨rfl, rfl⟩
      refine Sat.pure ⟨?_, h2, h3, fun j hj => ?_, h5⟩
      · rw [hmin1, List.getElem?_eq_getElem hlt]; rfl
      · rw [hmin1] at hj
        show (setSlot s1.r (lo + k) none).slots j = _
        rw [setSlot_other _ _ (by omega), h4 j (by omega)]
    · have hkl : k = ps.length := by omega
      have hmin : min k ps.length = ps.length := by omega
      have hmin1 : min (k + 1) ps.length = ps.length := by omega
      rw [hmin] at h4 ⊢
      refine Sat.bind (Sat.of_ok (drainNext_end (by omega) s1)
        (Q := fun x s' => x = none ∧ s1 = s') ⟨rfl, rfl⟩) ?_
      rintro _ _ ⟨rfl, rfl⟩
      refine Sat.pure ⟨?_, h2, h3, fun j hj => ?_, h5⟩
      · rw [hmin1, List.getElem?_eq_none (by omega)]
      · rw [hmin1] at hj; exact h4 j hj
  · simp only [hk, decide_false, Bool.false_eq_true, if_false]
    have hmin : min k ps.length = ps.length := by omega
    have hmin1 : min (k + 1) ps.length = ps.length := by omega
    rw [hmin] at h4 ⊢
    refine Sat.pure ⟨?_, h2, h3, fun j hj => ?_, h5⟩
    · rw [hmin1, List.getElem?_eq_none (by omega)]
    · rw [hmin1] at hj; exact h4 j hj

/-- `count()` on a `Drain` whose range holds `ps`, with `fuel` rounds: `min fuel |ps|` entries are
    read and destroyed in slot order. -/
theorem drainCount_sat : ∀ (fuel : Nat) (ps : List (K × V)) (lo hi : Nat) (s : St K V Q),
    hi = lo + ps.length → (∀ j (hj : j < ps.length), s.r.slots (lo + j) = some ps[j]) → hi ≤ s.r.cap →
    Sat (drainCount E hi fuel lo) s
      (fun n s' => n = min fuel ps.length ∧ s'.r.len = s.r.len ∧ s'.r.cap = s.r.cap ∧
        WRel s.w s'.w (dropTrace E (ps.take fuel)))
      (fun c s' => DrainUnw lo hi s s' c)
  | 0, ps, lo, hi, s, _, _, _ => by
    exact Sat.pure ⟨by simp, rfl, rfl, by simpa [dropTrace] using WRel.refl _⟩
  | fuel + 1, [], lo, hi, s, hhi, _, _ => by
    have : ¬ lo < hi := by simp at hhi; omega
    unfold drainCount
    refine Sat.bind (Sat.of_ok (drainNext_end this s) (Q := fun x s' => x = none ∧ s = s') ⟨rfl, rfl⟩) ?_
    rintro _ _ ⟨rfl, rfl⟩
    exact Sat.pure ⟨by simp, rfl, rfl, by simpa [dropTrace] using WRel.refl _⟩
  | fuel + 1, p :: ps, lo, hi, s, hhi, hl, hc => by
    have h0 : s.r.slots lo = some p := by have := hl 0 (by simp); simpa using this
    simp only [List.length_cons] at hhi
    have hlt : lo < hi := by omega
    unfold drainCount
    refine Sat.bind (Sat.of_ok (drainNext_lt hlt (by omega) h0)
      (Q := fun x s' => x = some p ∧ { s with r := setSlot s.r lo none } = s') ⟨rfl, rfl⟩) ?_
    rintro _ _ ⟨rfl, rfl⟩
    have hl1 := slots_tail (r' := setSlot s.r lo none) hl (fun j hj => setSlot_other _ _ (by omega))
    refine Sat.bind (m := unwindWith _ _) (Sat.mono (drainDropItem_sat E p
      (s := { s with r := setSlot s.r lo none }) (lo := lo + 1) (by omega) hl1 (by simpa using hc))
      (fun _ _ h => h) ?_) ?_
    · intro c s2 h
      exact DrainUnw.step (s2 := { s with r := setSlot s.r lo none }) hlt rfl (WRel.refl _) h
    · intro _ s2 ⟨g1, g2⟩
      have hl2 : ∀ j (hj : j < ps.length), s2.r.slots (lo + 1 + j) = some ps[j] := by
        rw [g1]; exact hl1
      refine Sat.bind (Sat.mono (drainCount_sat fuel ps (lo + 1) hi s2 (by omega) hl2
        (by rw [g1]; simpa using hc)) (fun _ _ h => h) ?_) ?_
      · intro c s3 h
        exact DrainUnw.step hlt g1 g2 h
      · intro n s3 ⟨k1, k2, k3, k5⟩
        refine Sat.pure ⟨by simp [k1], by rw [k2, g1]; rfl, by rw [k3, g1]; rfl, ?_⟩
        have := g2.trans k5
        simpa [dropTrace] using this

/-- the effects of `last()` on a `Drain` yielding `ps` with accumulator `acc`: each item is dropped
    when its successor has been produced. -/
def drainLastTr : Option (K × V) → List (K × V) → List (Event K V Q)
  | _, [] => []
  | acc, p :: ps => (acc.map fun q => Event.dropK q.1 :: dropVTr E q.2).getD [] ++ drainLastTr (some p) ps

/-- `last()` on a `Drain` whose range holds `ps`, with enough fuel: the last entry is returned, all
    the others are destroyed; every slot of the range was read.  If the drop of a previous item
    unwinds, the newest item is leaked and the `Drain` is dropped: no live slot is left either. -/
theorem drainLast_sat : ∀ (fuel : Nat) (ps : List (K × V)) (lo hi : Nat) (acc : Option (K × V))
    (s : St K V Q),
    hi = lo + ps.length → (∀ j (hj : j < ps.length), s.r.slots (lo + j) = some ps[j]) → hi ≤ s.r.cap →
    ps.length < fuel →
    Sat (drainLast E hi fuel lo acc) s
      (fun o s' => o = ps.getLast?.or acc ∧ s'.r.len = s.r.len ∧ s'.r.cap = s.r.cap ∧
        (∀ j, j < lo ∨ hi ≤ j → s'.r.slots j = s.r.slots j) ∧
        (∀ j, lo ≤ j → j < hi → s'.r.slots j = none) ∧
        WRel s.w s'.w (drainLastTr E acc ps))
      (fun c s' => DrainUnw lo hi s s' c)
  | 0, _, _, _, _, _, _, _, _, hf => by omega
  | fuel + 1, [], lo, hi, acc, s, hhi, _, _, _ => by
    have : ¬ lo < hi := by simp at hhi; omega
    unfold drainLast
    refine Sat.bind (Sat.of_ok (drainNext_end this s) (Q := fun x s' => x = none ∧ s = s') ⟨rfl, rfl⟩) ?_
    rintro _ _ ⟨rfl, rfl⟩
    exact Sat.pure ⟨by simp, rfl, rfl, fun _ _ => rfl, fun j h1 h2 => by omega,
      by simpa [drainLastTr] using WRel.refl _⟩
  | fuel + 1, p :: ps, lo, hi, acc, s, hhi, hl, hc, hf => by
    have h0 : s.r.slots lo = some p := by have := hl 0 (by simp); simpa using this
    simp only [List.length_cons] at hhi hf
    have hlt : lo < hi := by omega
    unfold drainLast
    refine Sat.bind (Sat.of_ok (drainNext_lt hlt (by omega) h0)
      (Q := fun x s' => x = some p ∧ { s with r := setSlot s.r lo none } = s') ⟨rfl, rfl⟩) ?_
    rintro _ _ ⟨rfl, rfl⟩
    have hl1 := slots_tail (r' := setSlot s.r lo none) hl (fun j hj => setSlot_other _ _ (by omega))
    have hlast : (p :: ps).getLast?.or acc = ps.getLast?.or (some p) := by
      rw [List.getLast?_cons]; cases ps.getLast? <;> simp
    have key : ∀ (s2 : St K V Q), s2.r = setSlot s.r lo none →
        WRel s.w s2.w ((acc.map fun q => Event.dropK q.1 :: dropVTr E q.2).getD []) →
        Sat (drainLast E hi fuel (lo + 1) (some p)) s2
          (fun o s' => o = (p :: ps).getLast?.or acc ∧ s'.r.len = s.r.len ∧ s'.r.cap = s.r.cap ∧
            (∀ j, j < lo ∨ hi ≤ j → s'.r.slots j = s.r.slots j) ∧
            (∀ j, lo ≤ j → j < hi → s'.r.slots j = none) ∧
            WRel s.w s'.w (drainLastTr E acc (p :: ps)))
          (fun c s' => DrainUnw lo hi s s' c) := by
      intro s2 g1 g2
      have hl2 : ∀ j (hj : j < ps.length), s2.r.slots (lo + 1 + j) = some ps[j] := by
        rw [g1]; exact hl1
      refine Sat.mono (drainLast_sat fuel ps (lo + 1) hi (some p) s2 (by omega) hl2
        (by rw [g1]; simpa using hc) (by omega)) ?_ ?_
      · intro o s3 ⟨k1, k2, k3, k4, k5, k6⟩
        rw [g1] at k4
        obtain ⟨a, d⟩ := dead_step k4 k5 hlt
        refine ⟨by rw [k1, hlast], by rw [k2, g1]; rfl, by rw [k3, g1]; rfl, a, d, ?_⟩
        have := g2.trans k6
        simpa [drainLastTr] using this
      · intro c s3 h
        exact DrainUnw.step hlt g1 g2 h
    cases acc with
    | none => exact key _ rfl (by simpa using WRel.refl _)
    | some q =>
      refine Sat.bind (m := unwindWith _ _) (Sat.mono (drainDropItemPre_sat E
        (leakItem_cb (Q := Q) .pairs p) q (s := { s with r := setSlot s.r lo none }) (lo := lo + 1)
        (by omega) hl1 (by simpa using hc)) (fun _ _ h => h) ?_) ?_
      · intro c s2 h
        exact DrainUnw.step (s2 := { s with r := setSlot s.r lo none }) hlt rfl (WRel.refl _) h
      · intro _ s2 ⟨g1, g2⟩
        exact key s2 g1 (by simpa using g2)

/-! ### the composite operation on a `Drain` -/

/-- the items the take phase of a `Drain` hands to the caller. -/
def drainItems (take : StdTake) (l : List (K × V)) : List (K × V) :=
  match take with
  | .next n => l.take n
  | .nth k => l[k]?.toList
  | .last => l.getLast?.toList

/-- the effects of the take phase of a `Drain`. -/
def drainTakeTr (take : StdTake) (l : List (K × V)) : List (Event K V Q) :=
  match take with
  | .next _ => []
  | .nth k => dropTrace E (l.take k)
  | .last => drainLastTr E none l

/-- the effects of the end of a `Drain` that still owns `rest`. -/
def drainFinTr (fin : StdEnd) (rest : List (K × V)) : List (Event K V Q) :=
  match fin with
  | .forget => []
  | .drop => dropTrace E rest
  | .count => dropTrace E rest

def drainTakeBody (take : StdTake) (hi : Nat) : SM K V Q (List (K × V) × Nat) :=
  match take with
  | .next n => drainTake n 0 hi
  | .nth k => do
    let (x, lo) ← drainNth E hi 0 k
    pure (x.toList, lo)
  | .last => do
    let x ← drainLast E hi (hi + 1) 0 none
    pure (x.toList, hi)

def drainStdTail (fin : StdEnd) (hi : Nat) (items : List (K × V)) (lo : Nat) :
    SM K V Q (List (K × V) × Nat × List (K × V) × Option Nat) := do
  let remaining := hi - lo
  let s ← getS
  let rest ← iterRestR s.r remaining lo
  match fin with
  | .forget => pure (items, remaining, rest, none)
  | .drop => do drainDrop E lo hi; pure (items, remaining, rest, none)
  | .count => do
    let c ← drainCount E hi (remaining + 1) lo
    pure (items, remaining, rest, some c)

theorem drainStdOp_eq (take : StdTake) (fin : StdEnd) :
    drainStdOp E take fin =
      (drainStart >>= fun hi => drainTakeBody E take hi >>= fun x => drainStdTail E fin hi x.1 x.2) := rfl

/-- the take phase of a `Drain` over `l` (slots `[0, |l|)`, published length `0`). -/
theorem drainTakeBody_sat (take : StdTake) {l : List (K × V)} {s : St K V Q}
    (hl : ∀ j (hj : j < l.length), s.r.slots (0 + j) = some l[j]) (hc : l.length ≤ s.r.cap) :
    Sat (drainTakeBody E take l.length) s
      (fun x s' => x = (drainItems take l, l.length - stdRem take l.length) ∧ s'.r.len = s.r.len ∧
        s'.r.cap = s.r.cap ∧
        (∀ j, l.length - stdRem take l.length ≤ j → j < l.length → s'.r.slots j = s.r.slots j) ∧
        WRel s.w s'.w (drainTakeTr E take l))
      (fun c s' => s'.r.len = s.r.len ∧ s'.r.cap = s.r.cap ∧ InjPanic s s' c ∧
        ∀ j, j < l.length → s'.r.slots j = none) := by
  cases take with
  | next n =>
    obtain ⟨s1, e, h1, h2, h3, h4, _⟩ := drainTake_spec n l 0 l.length s (by simp) hl hc
    have hpos : l.length - stdRem (.next n) l.length = 0 + min n l.length := by
      simp only [stdRem]; omega
    refine Sat.of_ok (m := drainTake n 0 l.length) e ⟨by rw [hpos]; rfl, h2, h3, fun j hj _ => ?_, ?_⟩
    · exact h4 j (Or.inr (by omega))
    · rw [h1]; exact WRel.refl _
  | nth k =>
    show Sat (drainNth E l.length 0 k >>= fun x => pure (x.1.toList, x.2)) s _ _
    refine Sat.bind (Sat.mono (drainNth_sat E k l 0 l.length s (by simp) hl hc) (fun _ _ h => h)
      (fun _ _ ⟨g1, g2, g3, _, g5⟩ => ⟨g1, g2, g3, fun j hj => g5 j (Nat.zero_le _) hj⟩)) ?_
    rintro _ s1 ⟨rfl, h2, h3, h4, h5⟩
    have hpos : l.length - stdRem (.nth k) l.length = 0 + min (k + 1) l.length := by
      simp only [stdRem]; omega
    refine Sat.pure ⟨by rw [hpos]; rfl, h2, h3, fun j hj _ => h4 j (by omega), h5⟩
  | last =>
    show Sat (drainLast E l.length (l.length + 1) 0 none >>= fun x => pure (x.toList, l.length)) s _ _
    refine Sat.bind (Sat.mono (drainLast_sat E (l.length + 1) l 0 l.length none s (by simp) hl hc
      (by omega)) (fun _ _ h => h)
      (fun _ _ ⟨g1, g2, g3, _, g5⟩ => ⟨g1, g2, g3, fun j hj => g5 j (Nat.zero_le _) hj⟩)) ?_
    rintro _ s1 ⟨rfl, h2, h3, _, _, h5⟩
    refine Sat.pure ⟨by simp [drainItems, stdRem], h2, h3, fun j hj hj' => ?_, h5⟩
    simp only [stdRem] at hj; omega

/-- observing and ending a `Drain` whose range `[lo, hi)` holds `ps`. -/
theorem drainStdTail_sat (fin : StdEnd) (items : List (K × V)) {ps : List (K × V)} {lo hi : Nat}
    {s : St K V Q} (hhi : hi = lo + ps.length)
    (hl : ∀ j (hj : j < ps.length), s.r.slots (lo + j) = some ps[j]) (hc : hi ≤ s.r.cap) :
    Sat (drainStdTail E fin hi items lo) s
      (fun res s' => res = (items, ps.length, ps, stdCnt fin ps.length) ∧ s'.r.len = s.r.len ∧
        s'.r.cap = s.r.cap ∧ WRel s.w s'.w (drainFinTr E fin ps))
      (fun c s' => s'.r.len = s.r.len ∧ s'.r.cap = s.r.cap ∧ InjPanic s s' c ∧
        ∀ j, j < lo → s'.r.slots j = s.r.slots j) := by
  unfold drainStdTail
  have hn : hi - lo = ps.length := by omega
  simp only [hn]
  refine Sat.getS_bind ?_
  refine Sat.bind (Sat.of_ok (iterRestR_slots s.r ps lo s hl (by omega))
    (Q := fun x s' => ps = x ∧ s = s') ⟨rfl, rfl⟩) ?_
  rintro _ _ ⟨rfl, rfl⟩
  cases fin with
  | forget => exact Sat.pure ⟨rfl, rfl, rfl, WRel.refl _⟩
  | drop =>
    have hdrop := dropRange_sat E ps lo s hl (by omega)
    refine Sat.bind (m := drainDrop E lo hi) (Q₁ := fun _ s' => s'.r.len = s.r.len ∧
      s'.r.cap = s.r.cap ∧ WRel s.w s'.w (dropTrace E ps)) ?_ ?_
    · unfold drainDrop; rw [hn]
      exact Sat.mono hdrop (fun _ _ ⟨g1, g2, _, _, g5⟩ => ⟨g1, g2, g5⟩)
        (fun _ _ ⟨g1, g2, g3, g4⟩ => ⟨g1, g2, g4, fun j hj => g3 j (Or.inl hj)⟩)
    · intro _ s2 ⟨g1, g2, g3⟩
      exact Sat.pure ⟨rfl, g1, g2, g3⟩
  | count =>
    refine Sat.bind (Sat.mono (drainCount_sat E (ps.length + 1) ps lo hi s hhi hl hc) (fun _ _ h => h)
      (fun _ _ ⟨g1, g2, g3, g4, _⟩ => ⟨g1, g2, g3, fun j hj => g4 j (Or.inl hj)⟩)) ?_
    intro n s2 ⟨g1, g2, g3, g4⟩
    have hn' : n = ps.length := by omega
    subst hn'
    rw [List.take_of_length_le (by omega)] at g4
    exact Sat.pure ⟨rfl, g2, g3, g4⟩

/-- (2) `drain()`, then `n × next` / `nth(k)` / `last()`, then the `Drain` is dropped, forgotten or
    `count()`ed — in ANY world: never `ub`; returning or unwinding, the container is empty and
    well-formed with its capacity unchanged (as reusable as after `drainOp`); a panic can only be an
    injected one.  The result is `(items, remaining, rest, cnt)`: the items handed to the caller,
    the exact `len()` of the `Drain` after the take phase, the entries it still owns (what its
    `Debug` shows), and the answer of `count()`. -/
theorem drainStdOp_sat (take : StdTake) (fin : StdEnd) {s : St K V Q} {l : List (K × V)}
    (hr : Rep s.r l) :
    Sat (drainStdOp E take fin) s
      (fun res s' => Rep s'.r [] ∧ s'.r.cap = s.r.cap ∧
        res = (drainItems take l, stdRem take l.length, l.drop (l.length - stdRem take l.length),
          stdCnt fin (stdRem take l.length)) ∧
        WRel s.w s'.w (drainTakeTr E take l ++ drainFinTr E fin (l.drop (l.length - stdRem take l.length))))
      (fun c s' => Rep s'.r [] ∧ s'.r.cap = s.r.cap ∧ InjPanic s s' c) := by
  rw [drainStdOp_eq]
  refine Sat.bind (Sat.of_ok (drainStart_ok hr)
    (Q := fun hi s' => hi = l.length ∧ { s with r := { s.r with len := 0 } } = s') ⟨rfl, rfl⟩) ?_
  rintro _ _ ⟨rfl, rfl⟩
  have hrep0 : ∀ s' : St K V Q, s'.r.len = 0 → Rep s'.r [] := fun s' h =>
    ⟨h, Nat.zero_le _, fun _ hi => by simp at hi⟩
  have hrem : stdRem take l.length ≤ l.length := stdRem_le _ _
  refine Sat.bind (Sat.mono (drainTakeBody_sat E take
    (s := { s with r := { s.r with len := 0 } }) hr.slots_at (by simpa using hr.2.1))
    (fun _ _ h => h) ?_) ?_
  · intro c s1 ⟨g1, g2, g3, _⟩
    exact ⟨hrep0 _ g1, g2, g3⟩
  · rintro _ s1 ⟨rfl, h2, h3, h4, h5⟩
    have hw : WRel s.w s1.w (drainTakeTr E take l) := h5
    have hlen0 : s1.r.len = 0 := h2
    have hcap : s1.r.cap = s.r.cap := h3
    have hld : (l.drop (l.length - stdRem take l.length)).length = stdRem take l.length := by
      rw [List.length_drop]; omega
    have hsl : ∀ j (hj : j < (l.drop (l.length - stdRem take l.length)).length),
        s1.r.slots (l.length - stdRem take l.length + j) =
          some (l.drop (l.length - stdRem take l.length))[j] := by
      intro j hj
      rw [hld] at hj
      rw [h4 _ (by omega) (by omega)]
      show s.r.slots _ = _
      rw [hr.slot (by omega)]; simp
    refine Sat.mono (drainStdTail_sat E fin _ (s := s1) (by rw [hld]; omega) hsl
      (by rw [hcap]; exact hr.2.1)) ?_ ?_
    · intro res s2 ⟨g1, g2, g3, g4⟩
      rw [hld] at g1
      exact ⟨hrep0 _ (g2.trans hlen0), g3.trans hcap, g1, hw.trans g4⟩
    · intro c s2 ⟨g1, g2, g3, _⟩
      exact ⟨hrep0 _ (g1.trans hlen0), g2.trans hcap, g3.after hw⟩

/-! ### the statements spelled out per take phase -/

@[simp] theorem stdCnt_count (r : Nat) : stdCnt .count r = some r := rfl
@[simp] theorem stdCnt_drop (r : Nat) : stdCnt .drop r = none := rfl
@[simp] theorem stdCnt_forget (r : Nat) : stdCnt .forget r = none := rfl

/-- safety and consumption alone: never `ub`, the register holds a fresh `new()` afterwards. -/
theorem intoIterStdOp_safe (kind : IntoKind) (take : StdTake) (fin : StdEnd) {s : St K V Q}
    {l : List (K × V)} (hr : Rep s.r l) :
    Sat (intoIterStdOp E kind take fin) s (fun _ s' => s'.r = Raw.new s.r.cap)
      (fun c s' => s'.r = Raw.new s.r.cap ∧ InjPanic s s' c) :=
  Sat.mono (intoIterStdOp_sat E kind take fin hr) (fun _ _ h => h.1) (fun _ _ h => h)

/-- memory safety from `Safe` alone (no assumption on `==`, the profile or the armed injection). -/
theorem stdOps_safe (kind : IntoKind) (take : StdTake) (fin : StdEnd) {s : St K V Q} (hs : Safe s.r) :
    Sat (intoIterStdOp E kind take fin) s (fun _ s' => s'.r = Raw.new s.r.cap)
      (fun _ s' => s'.r = Raw.new s.r.cap) ∧
    Sat (drainStdOp E take fin) s (fun _ s' => Safe s'.r ∧ s'.r.len = 0 ∧ s'.r.cap = s.r.cap)
      (fun _ s' => Safe s'.r ∧ s'.r.len = 0 ∧ s'.r.cap = s.r.cap) :=
  ⟨Sat.mono (intoIterStdOp_sat E kind take fin hs.rep) (fun _ _ h => h.1) (fun _ _ h => h.1),
   Sat.mono (drainStdOp_sat E take fin hs.rep) (fun _ _ ⟨h1, h2, _⟩ => ⟨h1.safe, h1.1, h2⟩)
     (fun _ _ ⟨h1, h2, _⟩ => ⟨h1.safe, h1.1, h2⟩)⟩

/-- `n` calls of `next`: the last `n` entries, last first. -/
theorem intoIterStdOp_next (kind : IntoKind) (n : Nat) (fin : StdEnd) {s : St K V Q}
    {l : List (K × V)} (hr : Rep s.r l) :
    Sat (intoIterStdOp E kind (.next n) fin) s
      (fun res s' => s'.r = Raw.new s.r.cap ∧
        res = (l.reverse.take n, l.length - n, l.take (l.length - n), stdCnt fin (l.length - n)))
      (fun c s' => s'.r = Raw.new s.r.cap ∧ InjPanic s s' c) :=
  Sat.mono (intoIterStdOp_sat E kind (.next n) fin hr) (fun _ _ h => ⟨h.1, h.2.1⟩) (fun _ _ h => h)

/-- `nth(k)`: the item is `l.reverse[k]` (the iterator pops from the back); `k + 1` entries are gone. -/
theorem intoIterStdOp_nth (kind : IntoKind) (k : Nat) (fin : StdEnd) {s : St K V Q}
    {l : List (K × V)} (hr : Rep s.r l) :
    Sat (intoIterStdOp E kind (.nth k) fin) s
      (fun res s' => s'.r = Raw.new s.r.cap ∧
        res = (l.reverse[k]?.toList, l.length - (k + 1), l.take (l.length - (k + 1)),
          stdCnt fin (l.length - (k + 1))))
      (fun c s' => s'.r = Raw.new s.r.cap ∧ InjPanic s s' c) :=
  Sat.mono (intoIterStdOp_sat E kind (.nth k) fin hr) (fun _ _ h => ⟨h.1, h.2.1⟩) (fun _ _ h => h)

/-- `last()`: the last item yielded is the entry in slot 0; nothing is left. -/
theorem intoIterStdOp_last (kind : IntoKind) (fin : StdEnd) {s : St K V Q}
    {l : List (K × V)} (hr : Rep s.r l) :
    Sat (intoIterStdOp E kind .last fin) s
      (fun res s' => s'.r = Raw.new s.r.cap ∧ res = (l.head?.toList, 0, [], stdCnt fin 0))
      (fun c s' => s'.r = Raw.new s.r.cap ∧ InjPanic s s' c) :=
  Sat.mono (intoIterStdOp_sat E kind .last fin hr)
    (fun _ _ h => ⟨h.1, by simpa [intoItems, stdRem] using h.2.1⟩) (fun _ _ h => h)

theorem drop_sub_sub {α : Type} (l : List α) (n : Nat) : l.drop (l.length - (l.length - n)) = l.drop n := by
  have : l.length - (l.length - n) = min n l.length := by omega
  rw [this, drop_min_length]

/-- `drain()` and `n` calls of `next`: the first `n` entries in slot order. -/
theorem drainStdOp_next (n : Nat) (fin : StdEnd) {s : St K V Q} {l : List (K × V)} (hr : Rep s.r l) :
    Sat (drainStdOp E (.next n) fin) s
      (fun res s' => Rep s'.r [] ∧ s'.r.cap = s.r.cap ∧
        res = (l.take n, l.length - n, l.drop n, stdCnt fin (l.length - n)))
      (fun c s' => s'.r.len = 0 ∧ s'.r.cap = s.r.cap ∧ InjPanic s s' c) :=
  Sat.mono (drainStdOp_sat E (.next n) fin hr)
    (fun _ _ h => ⟨h.1, h.2.1, by simpa [drainItems, stdRem, drop_sub_sub] using h.2.2.1⟩)
    (fun _ _ h => ⟨h.1.1, h.2⟩)

/-- `drain()` and `nth(k)`: the item is `l[k]`; `k + 1` entries are gone. -/
theorem drainStdOp_nth (k : Nat) (fin : StdEnd) {s : St K V Q} {l : List (K × V)} (hr : Rep s.r l) :
    Sat (drainStdOp E (.nth k) fin) s
      (fun res s' => Rep s'.r [] ∧ s'.r.cap = s.r.cap ∧
        res = (l[k]?.toList, l.length - (k + 1), l.drop (k + 1), stdCnt fin (l.length - (k + 1))))
      (fun c s' => s'.r.len = 0 ∧ s'.r.cap = s.r.cap ∧ InjPanic s s' c) :=
  Sat.mono (drainStdOp_sat E (.nth k) fin hr)
    (fun _ _ h => ⟨h.1, h.2.1, by simpa [drainItems, stdRem, drop_sub_sub] using h.2.2.1⟩)
    (fun _ _ h => ⟨h.1.1, h.2⟩)

/-- `drain().last()` unwinding (any world, any ending): no live slot is left in the drained range —
    the `Drain` was dropped (or had read everything). -/
theorem drainStdOp_last_dead (fin : StdEnd) {s : St K V Q} {l : List (K × V)} (hr : Rep s.r l) :
    Sat (drainStdOp E .last fin) s (fun _ _ => True)
      (fun _ s' => ∀ j, j < l.length → s'.r.slots j = none) := by
  rw [drainStdOp_eq]
  refine Sat.bind (Sat.of_ok (drainStart_ok hr)
    (Q := fun hi s' => hi = l.length ∧ { s with r := { s.r with len := 0 } } = s') ⟨rfl, rfl⟩) ?_
  rintro _ _ ⟨rfl, rfl⟩
  refine Sat.bind (Q₁ := fun x s1 => x.2 = l.length ∧ s1.r.cap = s.r.cap ∧
    ∀ j, j < l.length → s1.r.slots j = none) ?_ ?_
  · show Sat (drainLast E l.length (l.length + 1) 0 none >>= fun x => pure (x.toList, l.length)) _ _ _
    refine Sat.bind (Sat.mono (drainLast_sat E (l.length + 1) l 0 l.length none
      { s with r := { s.r with len := 0 } } (by simp) hr.slots_at (by simpa using hr.2.1) (by omega))
      (fun _ _ h => h) (fun _ _ ⟨_, _, _, _, g5⟩ j hj => g5 j (Nat.zero_le _) hj)) ?_
    intro o s1 ⟨_, _, h3, _, h5, _⟩
    exact Sat.pure ⟨rfl, h3, fun j hj => h5 j (Nat.zero_le _) hj⟩
  · rintro ⟨items, lo⟩ s1 ⟨h1, h2, h3⟩
    simp only at h1
    subst h1
    refine Sat.mono (drainStdTail_sat E fin items (ps := []) (lo := l.length) (hi := l.length)
      (s := s1) (by simp) (fun j hj => by simp at hj) (by rw [h2]; exact hr.2.1))
      (fun _ _ _ => trivial) ?_
    intro c s2 ⟨_, _, _, g4⟩ j hj
    rw [g4 j hj]; exact h3 j hj

/-- `drain()` and `last()`: the last entry; nothing is left.  On unwinding, moreover, no slot of the
    drained range is live. -/
theorem drainStdOp_last (fin : StdEnd) {s : St K V Q} {l : List (K × V)} (hr : Rep s.r l) :
    Sat (drainStdOp E .last fin) s
      (fun res s' => Rep s'.r [] ∧ s'.r.cap = s.r.cap ∧ res = (l.getLast?.toList, 0, [], stdCnt fin 0))
      (fun c s' => s'.r.len = 0 ∧ s'.r.cap = s.r.cap ∧ InjPanic s s' c ∧
        ∀ j, j < l.length → s'.r.slots j = none) :=
  Sat.mono (Sat.and (drainStdOp_sat E .last fin hr) (drainStdOp_last_dead E fin hr))
    (fun _ _ ⟨h, _⟩ => ⟨h.1, h.2.1, by simpa [drainItems, stdRem] using h.2.2.1⟩)
    (fun _ _ ⟨h, d⟩ => ⟨h.1.1, h.2.1, h.2.2, d⟩)

/-! ### benign worlds: the operation returns, with the exact effect trace -/

theorem no_inj {s s' : St K V Q} {c} (hb : Benign s.w) (h : InjPanic s s' c) : False := h.2.1 hb.1

/-- (3) the composite operation on a consuming iterator in a world without an armed fault: it
    returns, and the effects are exactly those of the take phase followed by those of the end. -/
theorem into_iter_std_op (kind : IntoKind) (take : StdTake) (fin : StdEnd) {s : St K V Q}
    {l : List (K × V)} (hr : Rep s.r l) (hb : Benign s.w) :
    ∃ s', intoIterStdOp E kind take fin s =
        .ok (intoItems take l, stdRem take l.length, l.take (stdRem take l.length),
          stdCnt fin (stdRem take l.length)) s' ∧
      s'.r = Raw.new s.r.cap ∧
      WRel s.w s'.w (intoTakeTr E kind take l ++ intoFinTr E kind fin (l.take (stdRem take l.length))) := by
  obtain ⟨a, s', e, h1, h2, h3⟩ := (intoIterStdOp_sat E kind take fin hr).must_return (by
    intro c s' ⟨_, h⟩; exact no_inj hb h)
  subst h2
  exact ⟨s', e, h1, h3⟩

/-- the composite operation on a `Drain` in a world without an armed fault. -/
theorem drain_std_op (take : StdTake) (fin : StdEnd) {s : St K V Q} {l : List (K × V)}
    (hr : Rep s.r l) (hb : Benign s.w) :
    ∃ s', drainStdOp E take fin s =
        .ok (drainItems take l, stdRem take l.length, l.drop (l.length - stdRem take l.length),
          stdCnt fin (stdRem take l.length)) s' ∧
      Rep s'.r [] ∧ s'.r.cap = s.r.cap ∧
      WRel s.w s'.w (drainTakeTr E take l ++ drainFinTr E fin (l.drop (l.length - stdRem take l.length))) := by
  obtain ⟨a, s', e, h1, h2, h3, h4⟩ := (drainStdOp_sat E take fin hr).must_return (by
    intro c s' ⟨_, _, h⟩; exact no_inj hb h)
  subst h3
  exact ⟨s', e, h1, h2, h4⟩

/-- for whole pairs nothing is discarded inside `next`: a skipped pair is just dropped. -/
theorem flatMap_skipTr_pairs (ps : List (K × V)) : ps.flatMap (skipTr E .pairs) = dropTrace E ps := by
  have : skipTr E .pairs = fun p => Event.dropK p.1 :: dropVTr E p.2 := by
    funext p; simp [skipTr, discardTr, itemTr]
  rw [this]; rfl

/-- what the end of an `IntoIter` (whole pairs) that still owns `rest` does: nothing when forgotten,
    the drops of `rest` in slot order when dropped, in reverse slot order when `count()`ed. -/
def pairsFinTr (fin : StdEnd) (rest : List (K × V)) : List (Event K V Q) :=
  match fin with
  | .forget => []
  | .drop => dropTrace E rest
  | .count => dropTrace E rest.reverse

/-- `into_iter().nth(k)` in a benign world: the effects are the drops of the first `k` yielded pairs
    (`l.reverse.take k`, in yield order) followed by the end of the iterator on what is left. -/
theorem into_iter_nth_pairs (k : Nat) (fin : StdEnd) {s : St K V Q} {l : List (K × V)}
    (hr : Rep s.r l) (hb : Benign s.w) :
    ∃ s', intoIterStdOp E .pairs (.nth k) fin s =
        .ok (l.reverse[k]?.toList, l.length - (k + 1), l.take (l.length - (k + 1)),
          stdCnt fin (l.length - (k + 1))) s' ∧
      s'.r = Raw.new s.r.cap ∧
      WRel s.w s'.w (dropTrace E (l.reverse.take k) ++ pairsFinTr E fin (l.take (l.length - (k + 1)))) := by
  obtain ⟨s', e, h1, h2⟩ := into_iter_std_op E .pairs (.nth k) fin hr hb
  refine ⟨s', e, h1, ?_⟩
  have hd : ((l.reverse[k]?).map (discardTr E .pairs)).getD [] = [] := by
    cases l.reverse[k]? <;> simp [discardTr]
  have hf : intoFinTr E .pairs fin (l.take (l.length - (k + 1))) =
      pairsFinTr E fin (l.take (l.length - (k + 1))) := by
    cases fin <;> simp [intoFinTr, pairsFinTr, flatMap_skipTr_pairs]
  simpa [intoTakeTr, stdRem, flatMap_skipTr_pairs, hd, hf] using h2

/-- `drain().nth(k)` in a benign world: the first `k` entries are dropped in slot order, then — unless
    the `Drain` is forgotten — the entries behind the yielded one. -/
theorem drain_nth (k : Nat) (fin : StdEnd) {s : St K V Q} {l : List (K × V)}
    (hr : Rep s.r l) (hb : Benign s.w) :
    ∃ s', drainStdOp E (.nth k) fin s =
        .ok (l[k]?.toList, l.length - (k + 1), l.drop (k + 1), stdCnt fin (l.length - (k + 1))) s' ∧
      Rep s'.r [] ∧ s'.r.cap = s.r.cap ∧
      WRel s.w s'.w (dropTrace E (l.take k) ++ drainFinTr E fin (l.drop (k + 1))) := by
  obtain ⟨s', e, h1, h2, h3⟩ := drain_std_op E (.nth k) fin hr hb
  refine ⟨s', ?_, h1, h2, ?_⟩
  · simpa [drainItems, stdRem, drop_sub_sub] using e
  · simpa [drainTakeTr, stdRem, drop_sub_sub] using h3

/-! Non-vacuity: a concrete container meets the hypotheses, and the model computes what the
    theorems say (tests, not proofs). -/

def exEnv : Env Nat Nat Nat :=
  { eqK := fun _ a b => a == b, eqQ := fun _ a b => a == b, eqV := fun a b => a == b, borrow := id,
    clK := fun _ k => k, clV := fun _ v => v }

def exRaw : Raw Nat Nat :=
  { cap := 4, len := 3, slots := fun i =>
      if i = 0 then some (7, 70) else if i = 1 then some (8, 80) else if i = 2 then some (9, 90) else none }

def exSt : St Nat Nat Nat := { r := exRaw, w := {} }
/-- the same container in a world where the 2nd callback from now panics. -/
def exStInj : St Nat Nat Nat := { r := exRaw, w := { inject := some 1 } }

example : Rep exSt.r [(7, 70), (8, 80), (9, 90)] :=
  ⟨rfl, by decide, fun i hi => by
    have : i = 0 ∨ i = 1 ∨ i = 2 := by simp at hi; omega
    rcases this with rfl | rfl | rfl <;> rfl⟩
example : Benign exSt.w := ⟨rfl, rfl⟩
-- (`decide +kernel`: the kernel evaluates the model by reduction; nothing is compiled or assumed)
example : (match intoIterStdOp exEnv .pairs (.nth 1) .count exSt with
    | .ok x s' => x == ([(8, 80)], 1, [(7, 70)], some 1) && s'.r.len == 0 && s'.r.cap == 4
    | _ => false) = true := by decide +kernel
example : (match intoIterStdOp exEnv .keys .last .drop exSt with
    | .ok x s' => x == ([(7, 70)], 0, [], none) && s'.r.len == 0 | _ => false) = true := by decide +kernel
example : (match drainStdOp exEnv (.nth 1) .count exSt with
    | .ok x s' => x == ([(8, 80)], 1, [(9, 90)], some 1) && s'.r.len == 0 && s'.r.cap == 4
    | _ => false) = true := by decide +kernel
example : (match drainStdOp exEnv .last .forget exSt with
    | .ok x s' => x == ([(9, 90)], 0, [], none) && s'.r.len == 0 | _ => false) = true := by decide +kernel
-- with an armed fault the operations unwind (the panic postconditions are not vacuous); the
-- register is fresh / the map is empty all the same
example : (match intoIterStdOp exEnv .pairs (.nth 2) .drop exStInj with
    | .panic c s' => some (c, s'.r.len, s'.r.cap, (s'.r.slots 0).isSome) | _ => none) =
    some (.inject, 0, 4, false) := by decide +kernel
example : (match drainStdOp exEnv (.nth 2) .drop exStInj with
    | .panic c s' => some (c, s'.r.len, s'.r.cap) | _ => none) = some (.inject, 0, 4) := by decide +kernel

-- `last()` with an armed fault (the drop of the first accumulator's key unwinds): the newest item is
-- leaked, the rest is dropped — no live slot is left
example : (match drainStdOp exEnv .last .drop exStInj with
    | .panic c s' => some (c, s'.r.len, (s'.r.slots 0).isSome, (s'.r.slots 1).isSome,
        (s'.r.slots 2).isSome, s'.w.leaked.length) | _ => none) =
    some (.inject, 0, false, false, false, 2) := by decide +kernel
example : (match intoIterStdOp exEnv .pairs .last .drop exStInj with
    | .panic c s' => some (c, s'.r.len, s'.r.cap, (s'.r.slots 0).isSome) | _ => none) =
    some (.inject, 0, 4, false) := by decide +kernel

end Micromap.StdIterP
