/-
`stepMapOp` computes `lMapOp` (one register, map API): the dictionary operations, the bulk
operations, drains and consuming iterators, formatting, `eq`, `with_capacity`.
Iterator scripts, entry chains and `get_disjoint_mut` are in `ListSysMap2.lean`.
-/
import Micromap.Proofs.ListSysBase
import Micromap.Proofs.StepInv

namespace Micromap.ListSys
open Micromap Refine
variable {K V Q : Type}

/-- the slot-machine computation `m`, run from `s`, has the outcome `res` the interpreter gives:
    same returned value / panic class, and the state afterwards represents the list of `res`. -/
def RegOK (prof : Profile) (cap : Nat) : RRes K V → SM K V Q (RV K V) → St K V Q → Prop
  | .ok ret l', m, s => Ret m s ret (Ctx prof cap l')
  | .panic c l', m, s => Pan m s c (Ctx prof cap l')

theorem RegOK.bind_ret {α : Type} {prof cap} {res : RRes K V} {m : SM K V Q α} {f : α → SM K V Q (RV K V)}
    {s : St K V Q} {a : α} {P : St K V Q → Prop} (h : Ret m s a P)
    (hf : ∀ s', P s' → RegOK prof cap res (f a) s') : RegOK prof cap res (m >>= f) s := by
  cases res with
  | ok r l => exact Ret.bind h hf
  | panic c l => exact Ret.bind_pan h hf

variable (E : Env K V Q) (R : Render K V)

section dict
variable {prof : Profile} {cap : Nat} {l : List (K × V)} {s : St K V Q} (other : Nat → Raw K V)

theorem insert_ok (hE : E.Pure) (hc : Ctx prof cap l s) (k : K) (v : V) :
    RegOK prof cap (lMapOp E R prof cap lo l (.insert k v)) (stepMapOp E R other (.insert k v)) s := by
  simp only [lMapOp, lInsert]
  rcases outcome (insert_sat E hc.rep k v) with ⟨a, s', hm, hcap, hq⟩ | ⟨c, s', hm, _, hq⟩
  · rcases hq with ⟨j, hj, ha, hrep, hw, hfj⟩ | ⟨ha, hroom, hrep, hw, hfn⟩
    · rw [lookup_some E (hfj hE) hj]
      subst ha
      exact ⟨s', by simp [stepMapOp, bind_apply, hm], hc.step hrep hcap hw⟩
    · rw [lookup_none E (hfn hE)]
      have : l.length < cap := hc.cap ▸ hroom
      simp only [this, if_true]
      subst ha
      exact ⟨s', by simp [stepMapOp, bind_apply, hm], hc.step hrep hcap hw⟩
  · rcases hq with ⟨hi', _⟩ | ⟨hs, ho, hfull, hfn, hw⟩
    · exact (no_inj hc.benign hi').elim
    · rw [lookup_none E (hfn hE)]
      have : ¬ l.length < cap := by rw [← hc.cap]; omega
      simp only [this, if_false]
      rw [← overflow_class ho hc.prof]
      exact ⟨s', by simp [stepMapOp, bind_apply, hm], hc.frame hs hw⟩

theorem insert_key_value_ok (hE : E.Pure) (hc : Ctx prof cap l s) (k : K) (v : V) :
    RegOK prof cap (lMapOp E R prof cap lo l (.insert_key_value k v))
      (stepMapOp E R other (.insert_key_value k v)) s := by
  simp only [lMapOp, lInsert]
  rcases outcome (insert_key_value_sat E hc.rep k v) with ⟨a, s', hm, hcap, hw, hq⟩ | ⟨c, s', hm, hs, hq⟩
  · rcases hq with ⟨j, hj, ha, hrep, hfj⟩ | ⟨ha, hroom, hrep, hfn⟩
    · rw [lookup_some E (hfj hE) hj]
      subst ha
      exact ⟨s', by simp [stepMapOp, bind_apply, hm], hc.step hrep hcap hw⟩
    · rw [lookup_none E (hfn hE)]
      have : l.length < cap := hc.cap ▸ hroom
      simp only [this, if_true]
      subst ha
      exact ⟨s', by simp [stepMapOp, bind_apply, hm], hc.step hrep hcap hw⟩
  · rcases hq with hi' | ⟨ho, hfull, hfn, hw⟩
    · exact (no_inj hc.benign hi').elim
    · rw [lookup_none E (hfn hE)]
      have : ¬ l.length < cap := by rw [← hc.cap]; omega
      simp only [this, if_false]
      rw [← overflow_class ho hc.prof]
      exact ⟨s', by simp [stepMapOp, bind_apply, hm], hc.frame hs hw⟩

theorem checked_insert_ok (hE : E.Pure) (hc : Ctx prof cap l s) (k : K) (v : V) :
    RegOK prof cap (lMapOp E R prof cap lo l (.checked_insert k v))
      (stepMapOp E R other (.checked_insert k v)) s := by
  simp only [lMapOp, lInsert]
  rcases outcome (checked_insert_sat E hc.rep k v) with ⟨a, s', hm, hcap, hq⟩ | ⟨c, s', _, _, hi', _⟩
  · rcases hq with ⟨j, hj, ha, hrep, hw, hfj⟩ | ⟨ha, hroom, hrep, hw, hfn⟩ | ⟨ha, hfull, hs, hw, hfn⟩
    · rw [lookup_some E (hfj hE) hj]
      subst ha
      exact ⟨s', by simp [stepMapOp, bind_apply, hm], hc.step hrep hcap hw⟩
    · rw [lookup_none E (hfn hE)]
      have : l.length < cap := hc.cap ▸ hroom
      simp only [this, if_true]
      subst ha
      exact ⟨s', by simp [stepMapOp, bind_apply, hm], hc.step hrep hcap hw⟩
    · rw [lookup_none E (hfn hE)]
      have : ¬ l.length < cap := by rw [← hc.cap]; omega
      simp only [this, if_false]
      subst ha
      exact ⟨s', by simp [stepMapOp, bind_apply, hm], hc.frame hs hw⟩
  · exact (no_inj hc.benign hi').elim

/-- what `get` returns, exactly. -/
theorem get_ret (hE : E.Pure) (hc : Ctx prof cap l s) (pr : Probe K Q) :
    Ret (get E pr) s (lookup E l pr) (Ctx prof cap l) := by
  rcases outcome (get_sat E hc.rep pr) with ⟨o, s', hm, hs, hw, ho, hfo⟩ | ⟨c, s', _, _, hi'⟩
  · refine ⟨s', ?_, hc.frame hs hw⟩
    rw [hm]; congr 1
    have hfo := hfo hE
    cases o with
    | none =>
      simp only [Option.map_none] at hfo
      rw [lookup_none E hfo.symm]
    | some x =>
      obtain ⟨i, p⟩ := x
      obtain ⟨hi, hp⟩ := ho i p rfl
      simp only [Option.map_some] at hfo
      rw [lookup_some E hfo.symm hi, hp]
  · exact (no_inj hc.benign hi').elim

theorem get_ok (hE : E.Pure) (hc : Ctx prof cap l s) (pr : Probe K Q) :
    RegOK prof cap (lMapOp E R prof cap lo l (.get pr)) (stepMapOp E R other (.get pr)) s := by
  obtain ⟨s', hm, hc'⟩ := get_ret E hE hc pr
  simp only [lMapOp]
  cases hl : lookup E l pr with
  | none => rw [hl] at hm; exact ⟨s', by simp [stepMapOp, bind_apply, hm, optRef], hc'⟩
  | some x => obtain ⟨i, p⟩ := x; rw [hl] at hm; exact ⟨s', by simp [stepMapOp, bind_apply, hm, optRef], hc'⟩

theorem get_key_value_ok (hE : E.Pure) (hc : Ctx prof cap l s) (pr : Probe K Q) :
    RegOK prof cap (lMapOp E R prof cap lo l (.get_key_value pr))
      (stepMapOp E R other (.get_key_value pr)) s := by
  obtain ⟨s', hm, hc'⟩ := get_ret E hE hc pr
  simp only [lMapOp]
  cases hl : lookup E l pr with
  | none => rw [hl] at hm; exact ⟨s', by simp [stepMapOp, bind_apply, hm, optRef], hc'⟩
  | some x => obtain ⟨i, p⟩ := x; rw [hl] at hm; exact ⟨s', by simp [stepMapOp, bind_apply, hm, optRef], hc'⟩

theorem contains_key_ok (hE : E.Pure) (hc : Ctx prof cap l s) (pr : Probe K Q) :
    RegOK prof cap (lMapOp E R prof cap lo l (.contains_key pr))
      (stepMapOp E R other (.contains_key pr)) s := by
  simp only [lMapOp]
  rcases outcome (contains_key_cb E hc.rep pr) with ⟨b, s', hm, hs, hw, hb⟩ | ⟨c, s', _, _, hi'⟩
  · rw [← hb hE]
    exact ⟨s', by simp [stepMapOp, bind_apply, hm], hc.frame hs hw⟩
  · exact (no_inj hc.benign hi').elim

/-- what `get_mut` followed by the write returns, exactly. -/
theorem get_mut_cases (hE : E.Pure) (hc : Ctx prof cap l s) (pr : Probe K Q) (g : V → V) :
    (lookup E l pr = none ∧ Ret (get_mut E pr g) s none (Ctx prof cap l)) ∨
    (∃ i, ∃ hi : i < l.length, lookup E l pr = some (i, l[i]) ∧
      Ret (get_mut E pr g) s (some (i, (l[i].1, g l[i].2))) (Ctx prof cap (l.set i (l[i].1, g l[i].2)))) := by
  rcases outcome (get_mut_sat E hc.rep pr g) with ⟨o, s', hm, hcap, hw, ho, hfo⟩ | ⟨c, s', _, _, hi'⟩
  · have hfo := hfo hE
    rcases ho with ⟨hon, hs⟩ | ⟨j, hj, hoj, hrep⟩
    · subst hon
      simp only [Option.map_none] at hfo
      exact Or.inl ⟨lookup_none E hfo.symm, s', hm, hc.frame hs hw⟩
    · subst hoj
      simp only [Option.map_some] at hfo
      exact Or.inr ⟨j, hj, lookup_some E hfo.symm hj, s', hm, hc.step hrep hcap hw⟩
  · exact (no_inj hc.benign hi').elim

theorem get_mut_ok (hE : E.Pure) (hc : Ctx prof cap l s) (pr : Probe K Q) (g : V → V) :
    RegOK prof cap (lMapOp E R prof cap lo l (.get_mut pr g)) (stepMapOp E R other (.get_mut pr g)) s := by
  simp only [lMapOp]
  rcases get_mut_cases E hE hc pr g with ⟨hl, s', hm, hc'⟩ | ⟨i, hi, hl, s', hm, hc'⟩
  · rw [hl]; exact ⟨s', by simp [stepMapOp, bind_apply, hm, optRef], hc'⟩
  · rw [hl]; exact ⟨s', by simp [stepMapOp, bind_apply, hm, optRef], hc'⟩

theorem index_ok (hE : E.Pure) (hc : Ctx prof cap l s) (pr : Probe K Q) :
    RegOK prof cap (lMapOp E R prof cap lo l (.index pr)) (stepMapOp E R other (.index pr)) s := by
  obtain ⟨s', hm, hc'⟩ := get_ret E hE hc pr
  simp only [lMapOp]
  cases hl : lookup E l pr with
  | none =>
    rw [hl] at hm
    exact ⟨s', by simp [stepMapOp, index, bind_apply, hm, throwP], hc'⟩
  | some x =>
    obtain ⟨i, p⟩ := x; rw [hl] at hm
    exact ⟨s', by simp [stepMapOp, index, bind_apply, hm], hc'⟩

theorem index_mut_ok (hE : E.Pure) (hc : Ctx prof cap l s) (pr : Probe K Q) (g : V → V) :
    RegOK prof cap (lMapOp E R prof cap lo l (.index_mut pr g)) (stepMapOp E R other (.index_mut pr g)) s := by
  simp only [lMapOp]
  rcases get_mut_cases E hE hc pr g with ⟨hl, s', hm, hc'⟩ | ⟨i, hi, hl, s', hm, hc'⟩
  · rw [hl]; exact ⟨s', by simp [stepMapOp, index_mut, bind_apply, hm, throwP], hc'⟩
  · rw [hl]; exact ⟨s', by simp [stepMapOp, index_mut, bind_apply, hm], hc'⟩

theorem remove_ok (hE : E.Pure) (hc : Ctx prof cap l s) (pr : Probe K Q) :
    RegOK prof cap (lMapOp E R prof cap lo l (.remove pr)) (stepMapOp E R other (.remove pr)) s := by
  simp only [lMapOp]
  rcases outcome (remove_sat E hc.rep pr) with ⟨o, s', hm, hcap, ho, hfo⟩ | ⟨c, s', _, _, hi', _⟩
  · rcases ho with ⟨hon, hs, hw⟩ | ⟨j, hj, hoj, hrep, hw, hfj⟩
    · subst hon
      rw [lookup_none E (findKey_none_of_isSome E (hfo hE))]
      exact ⟨s', by simp [stepMapOp, bind_apply, hm], hc.frame hs hw⟩
    · subst hoj
      rw [lookup_some E (hfj hE) hj]
      exact ⟨s', by simp [stepMapOp, bind_apply, hm], hc.step hrep hcap hw⟩
  · exact (no_inj hc.benign hi').elim

theorem remove_entry_ok (hE : E.Pure) (hc : Ctx prof cap l s) (pr : Probe K Q) :
    RegOK prof cap (lMapOp E R prof cap lo l (.remove_entry pr)) (stepMapOp E R other (.remove_entry pr)) s := by
  simp only [lMapOp]
  rcases outcome (remove_entry_sat E hc.rep pr) with ⟨o, s', hm, hcap, hw, ho, hfo⟩ | ⟨c, s', _, _, hi'⟩
  · rcases ho with ⟨hon, hs⟩ | ⟨j, hj, hoj, hrep, hfj⟩
    · subst hon
      rw [lookup_none E (findKey_none_of_isSome E (hfo hE))]
      exact ⟨s', by simp [stepMapOp, bind_apply, hm], hc.frame hs hw⟩
    · subst hoj
      rw [lookup_some E (hfj hE) hj]
      exact ⟨s', by simp [stepMapOp, bind_apply, hm], hc.step hrep hcap hw⟩
  · exact (no_inj hc.benign hi').elim

/-- `retain` with a predicate that does not look at the call counter. -/
theorem retain_ret (hc : Ctx prof cap l s) (f : Nat → K → V → Bool × V) (hf : ∀ n k v, f n k v = f 0 k v) :
    Ret (retain E f) s () (Ctx prof cap (Dict.retainL (f 0) l.length 0 l)) := by
  rcases outcome (retain_sat E f (f 0) hc.rep) with
    ⟨_, s', hm, hcap, ⟨tr, hw⟩, l', hrep, _, hl', _⟩ | ⟨c, s', _, _, hi', _⟩
  · have := hl' hf
    subst this
    exact ⟨s', hm, hc.step hrep hcap hw⟩
  · exact (no_inj hc.benign hi').elim

theorem clear_ret (hc : Ctx prof cap l s) : Ret (clear E) s () (Ctx prof cap ([] : List (K × V))) := by
  rcases outcome (clear_sat E hc.rep) with ⟨_, s', hm, hrep, hcap, hw⟩ | ⟨c, s', _, _, _, hi'⟩
  · exact ⟨s', hm, hc.step hrep hcap hw⟩
  · exact (no_inj hc.benign hi').elim

theorem drainOp_ret (hc : Ctx prof cap l s) (take : Nat) (forget : Bool) :
    Ret (drainOp E take forget) s (l.take take, l.length - take, l.drop take)
      (Ctx prof cap ([] : List (K × V))) := by
  rcases outcome (Iters.drainOp_sat E take forget hc.rep) with
    ⟨res, s', hm, hres, hrep, hcap, hw⟩ | ⟨c, s', _, _, _, hi', _⟩
  · subst hres
    exact ⟨s', hm, hc.step hrep hcap hw⟩
  · exact (no_inj hc.benign hi').elim

theorem intoIterOp_ret (hc : Ctx prof cap l s) (kind : IntoKind) (take : Nat) (forget : Bool) :
    Ret (intoIterOp E kind take forget) s
      (l.reverse.take take, l.length - take, l.take (l.length - take))
      (Ctx prof cap ([] : List (K × V))) := by
  rcases outcome (Iters.intoIterOp_sat E kind take forget hc.rep) with
    ⟨res, s', hm, hres, hr, hw⟩ | ⟨c, s', _, _, hi'⟩
  · subst hres
    exact ⟨s', hm, hc.step (hr ▸ Rep.new _) (by rw [hr]; rfl) hw⟩
  · exact (no_inj hc.benign hi').elim

theorem dropAndRenew_ret (hc : Ctx prof cap l s) :
    Ret (dropAndRenew E) s () (Ctx prof cap ([] : List (K × V))) := by
  rcases outcome (Iters.dropAndRenew_sat E hc.rep) with ⟨_, s', hm, hr, hw⟩ | ⟨c, s', _, _, hi'⟩
  · exact ⟨s', hm, hc.step (hr ▸ Rep.new _) (by rw [hr]; rfl) hw⟩
  · exact (no_inj hc.benign hi').elim

theorem forgetMap_ret (hc : Ctx prof cap l s) :
    Ret (forgetMap : SM K V Q Unit) s () (Ctx prof cap ([] : List (K × V))) := by
  refine ⟨_, Iters.forgetMap_eq s, ?_⟩
  exact hc.step (Rep.new _) rfl (Iters.WRel.leaked s.w _)

theorem mapEq_ret (hE : E.Pure) (hc : Ctx prof cap l s) {a b : Raw K V} {la lb : List (K × V)}
    (ha : Rep a la) (hb : Rep b lb) :
    Ret (mapEq E a b) s (SetAlg.mapEqCode E.keq (EqClone.veq E) la lb) (Ctx prof cap l) := by
  obtain ⟨r, hr, h⟩ := cb_ret (EqClone.mapEq_cb E ha hb) hc
  rw [hr hE] at h; exact h

theorem entriesOf_eq {r : Raw K V} {lr : List (K × V)} (hr : Rep r lr) (s : St K V Q) :
    entriesOf r s = .ok lr s := Iters.entriesOf_rep hr s

theorem fmtMap_eq (hc : Ctx prof cap l s) (kind : FmtKind) :
    fmtMap R kind s = .ok (lFmtMap R kind l) s := by
  cases kind <;> simp [fmtMap, getS, bind_apply, entriesOf_eq hc.rep, lFmtMap]

end dict

/-- the operations of the safe `Map` API whose refinement does not need more than `E.Pure`
    and, for `retain`, a predicate that does not depend on the call counter. -/
def MapOp.SideOK : MapOp K V Q → Prop
  | .retain f => ∀ n k v, f n k v = f 0 k v
  | _ => True

end Micromap.ListSys
