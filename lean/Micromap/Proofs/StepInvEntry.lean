/-
Invariant preservation for the entry API chains (`entryOp`) and for `get_disjoint_mut` followed
by writes through the returned references — the two composite operations of `stepMapOp` that
`StepInv.lean` leaves out.  Any user equality, any injection point.
-/
import Micromap.Proofs.StepInv
import Micromap.Proofs.EntryOps
import Micromap.Proofs.Disjoint

namespace Micromap
open SetAlg Dict
variable {K V Q : Type} (E : Env K V Q)

/-- an entry is usable on the container it borrows. -/
def EntryS.validIn (e : EntryS K) (r : Raw K V) : Prop :=
  match e with
  | .occ i => i < r.len
  | .vac _ => True

/-- postcondition shape of the entry-producing steps. -/
def InvE (s : St K V Q) (e : EntryS K) (s' : St K V Q) : Prop :=
  Inv E s'.r ∧ s'.r.cap = s.r.cap ∧ e.validIn s'.r

theorem nodup_set_same {E : Env K V Q} {l : List (K × V)} (hn : E.Good → NodupKeys E.keq l) {i}
    (hi : i < l.length) (v : V) : E.Good → NodupKeys E.keq (l.set i (l[i].1, v)) :=
  fun hg => nodupKeys_set hg.1.equivB (hn hg) hi _ _ (hg.1.refl _)

theorem entry_invE (k : K) {s : St K V Q} (hs : Inv E s.r) :
    Sat (entry E k) s (fun e s' => InvE E s e s') (fun _ s' => Inv E s'.r ∧ s'.r.cap = s.r.cap) := by
  obtain ⟨l, hr, hn⟩ := hs
  refine Sat.mono (EntryOps.entry_sat E hr k) ?_ ?_
  · intro e s' ⟨h1, h⟩
    refine ⟨⟨l, h1 ▸ hr, hn⟩, by rw [h1], ?_⟩
    rcases h with ⟨i, rfl, hi, _⟩ | ⟨rfl, _⟩
    · show i < s'.r.len; rw [h1, hr.1]; exact hi
    · trivial
  · intro c s' ⟨h1, _⟩; exact ⟨⟨l, h1 ▸ hr, hn⟩, by rw [h1]⟩

theorem and_modify_invE (g : V → V) (e : EntryS K) {s : St K V Q} (hs : Inv E s.r) (he : e.validIn s.r) :
    Sat (and_modify (Q := Q) g e) s (fun e' s' => InvE E s e' s')
      (fun _ s' => Inv E s'.r ∧ s'.r.cap = s.r.cap) := by
  obtain ⟨l, hr, hn⟩ := hs
  cases e with
  | vac key => exact Sat.of_ok (EntryOps.and_modify_vac g key s) ⟨⟨l, hr, hn⟩, rfl, trivial⟩
  | occ i =>
    have hi : i < l.length := by have : i < s.r.len := he; rw [hr.1] at this; exact this
    refine Sat.mono (EntryOps.and_modify_occ_sat hr g hi) ?_ ?_
    · intro e' s' ⟨h1, h2, h3, _⟩
      subst h1
      refine ⟨⟨_, h3, nodup_set_same hn hi _⟩, h2, ?_⟩
      show i < s'.r.len; rw [h3.1]; simpa using hi
    · intro c s' ⟨h1, _⟩; exact ⟨⟨l, h1 ▸ hr, hn⟩, by rw [h1]⟩

theorem entryMods_invE : ∀ (mods : List (V → V)) (e : EntryS K) {s : St K V Q}, Inv E s.r → e.validIn s.r →
    Sat (entryMods (Q := Q) mods e) s (fun e' s' => InvE E s e' s')
      (fun _ s' => Inv E s'.r ∧ s'.r.cap = s.r.cap)
  | [], e, s, hs, he => Sat.pure ⟨hs, rfl, he⟩
  | g :: gs, e, s, hs, he => by
    unfold entryMods
    refine Sat.bind (and_modify_invE E g e hs he) ?_
    intro e' s1 ⟨h1, h2, h3⟩
    refine Sat.mono (entryMods_invE gs e' h1 h3) ?_ ?_
    · intro e'' s2 ⟨g1, g2, g3⟩; exact ⟨g1, g2.trans h2, g3⟩
    · intro c s2 ⟨g1, g2⟩; exact ⟨g1, g2.trans h2⟩

/-- reading the value behind a live slot. -/
theorem refVal_inv {s : St K V Q} (hs : Inv E s.r) {i} (hi : i < s.r.len) :
    Sat (refVal (Q := Q) i) s (fun _ s' => Inv E s'.r ∧ s'.r.cap = s.r.cap)
      (fun _ s' => Inv E s'.r ∧ s'.r.cap = s.r.cap) := by
  obtain ⟨l, hr, hn⟩ := hs
  have hi' : i < l.length := by rw [hr.1] at hi; exact hi
  have : refVal (Q := Q) i s = .ok (.ref i (.val l[i].2)) s := by
    unfold refVal
    simp [bind_apply, itemRef_ok (s := s) (hr.cap_lt hi') (hr.slot hi')]
  exact Sat.of_ok this ⟨⟨l, hr, hn⟩, rfl⟩

/-- `VacantEntry::insert` (also the vacant branch of `or_insert*`): the returned slot is live. -/
theorem vacant_insert_invI (key : K) (v : V) {s : St K V Q} (hs : Inv E s.r) :
    Sat (vacant_insert E key v) s
      (fun i s' => Inv E s'.r ∧ s'.r.cap = s.r.cap ∧ i < s'.r.len)
      (fun _ s' => Inv E s'.r ∧ s'.r.cap = s.r.cap) := by
  obtain ⟨l, hr, hn⟩ := hs
  refine Sat.mono (EntryOps.vacant_insert_sat E hr key v) ?_ ?_
  · intro idx s1 ⟨hc, h⟩
    rcases h with ⟨hi, hrep, _⟩ | ⟨hidx, _, hrep, _, hf⟩
    · exact ⟨⟨_, hrep, nodup_set_same hn hi _⟩, hc, by rw [hrep.1]; simpa using hi⟩
    · refine ⟨⟨_, hrep, fun hg => nodupKeys_append hg.1.equivB (hn hg) key v ?_⟩, hc, by rw [hrep.1]; simp [hidx]⟩
      exact (findKey_none_iff E _).mp (hf hg.1.toPure)
  · intro c s' ⟨hc, h⟩
    refine ⟨?_, hc⟩
    rcases h with ⟨_, l', hrep, hl'⟩ | ⟨hs', _⟩
    · rcases hl' with rfl | ⟨i, hi, rfl⟩
      · exact ⟨_, hrep, hn⟩
      · exact ⟨_, hrep, nodup_set_same hn hi _⟩
    · exact ⟨l, hs' ▸ hr, hn⟩

/-- a step that yields a live slot, followed by the re-borrow of the value there. -/
theorem then_refVal {m : SM K V Q Nat} {s : St K V Q}
    (hm : Sat m s (fun i s' => Inv E s'.r ∧ s'.r.cap = s.r.cap ∧ i < s'.r.len)
      (fun _ s' => Inv E s'.r ∧ s'.r.cap = s.r.cap)) :
    Sat (m >>= fun i => refVal (Q := Q) i) s (fun _ s' => Inv E s'.r ∧ s'.r.cap = s.r.cap)
      (fun _ s' => Inv E s'.r ∧ s'.r.cap = s.r.cap) := by
  refine Sat.bind hm ?_
  intro i s1 ⟨h1, h2, h3⟩
  refine Sat.mono (refVal_inv E h1 h3) ?_ ?_
  · intro _ s2 ⟨g1, g2⟩; exact ⟨g1, g2.trans h2⟩
  · intro _ s2 ⟨g1, g2⟩; exact ⟨g1, g2.trans h2⟩

theorem or_insert_invI (d : V) (e : EntryS K) {s : St K V Q} (hs : Inv E s.r) (he : e.validIn s.r) :
    Sat (or_insert E d e) s (fun i s' => Inv E s'.r ∧ s'.r.cap = s.r.cap ∧ i < s'.r.len)
      (fun _ s' => Inv E s'.r ∧ s'.r.cap = s.r.cap) := by
  cases e with
  | vac key => exact vacant_insert_invI E key d hs
  | occ i =>
    obtain ⟨l, hr, hn⟩ := hs
    have hi : i < l.length := by have : i < s.r.len := he; rw [hr.1] at this; exact this
    refine Sat.mono (EntryOps.or_insert_occ_sat E hr d hi) ?_ ?_
    · intro idx s' ⟨h1, h2, _⟩
      subst h1
      exact ⟨⟨l, h2 ▸ hr, hn⟩, by rw [h2], by rw [h2, hr.1]; exact hi⟩
    · intro c s' ⟨h2, _⟩; exact ⟨⟨l, h2 ▸ hr, hn⟩, by rw [h2]⟩

theorem or_insert_with_invI (tag : Nat) (mk : V) (e : EntryS K) {s : St K V Q} (hs : Inv E s.r)
    (he : e.validIn s.r) :
    Sat (or_insert_with E tag mk e) s (fun i s' => Inv E s'.r ∧ s'.r.cap = s.r.cap ∧ i < s'.r.len)
      (fun _ s' => Inv E s'.r ∧ s'.r.cap = s.r.cap) := by
  cases e with
  | vac key =>
    unfold or_insert_with
    refine Sat.bind ((OpInv.unwindWith (E := E) (dropK_cb key) (OpInv.of_cb (callF_cb tag))) s hs) ?_
    intro _ s1 ⟨h1, h2⟩
    refine Sat.mono (vacant_insert_invI E key mk h1) ?_ ?_
    · intro i s2 ⟨g1, g2, g3⟩; exact ⟨g1, g2.trans h2, g3⟩
    · intro c s2 ⟨g1, g2⟩; exact ⟨g1, g2.trans h2⟩
  | occ i =>
    have hs0 := hs
    obtain ⟨l, hr, hn⟩ := hs
    have hi : i < l.length := by have : i < s.r.len := he; rw [hr.1] at this; exact this
    exact Sat.of_ok (EntryOps.or_insert_with_occ E hr tag mk hi) ⟨hs0, rfl, he⟩

theorem entryFinish_inv (fin : EntryEnd V) (e : EntryS K) {s : St K V Q} (hs : Inv E s.r)
    (he : e.validIn s.r) :
    Sat (entryFinish E fin e) s (fun _ s' => Inv E s'.r ∧ s'.r.cap = s.r.cap)
      (fun _ s' => Inv E s'.r ∧ s'.r.cap = s.r.cap) := by
  have hs0 := hs
  obtain ⟨l, hr, hn⟩ := hs
  -- a callback as the whole remaining action
  have cbk : ∀ {α : Type} {m : SM K V Q α} {tr Qv}, CbOk m tr Qv →
      Sat m s (fun _ s' => Inv E s'.r ∧ s'.r.cap = s.r.cap) (fun _ s' => Inv E s'.r ∧ s'.r.cap = s.r.cap) :=
    fun h => (OpInv.of_cb (E := E) h) s hs0
  have okk : ∀ {α : Type} {m : SM K V Q α} {a : α}, m s = .ok a s →
      Sat m s (fun _ s' => Inv E s'.r ∧ s'.r.cap = s.r.cap) (fun _ s' => Inv E s'.r ∧ s'.r.cap = s.r.cap) :=
    fun h => Sat.of_ok h ⟨hs0, rfl⟩
  cases e with
  | vac key =>
    cases fin with
    | or_insert v => exact then_refVal E (or_insert_invI E v _ hs0 he)
    | or_insert_with v => exact then_refVal E (or_insert_with_invI E 2 v _ hs0 he)
    | or_insert_with_key v => exact then_refVal E (or_insert_with_invI E 3 v _ hs0 he)
    | or_default v => exact then_refVal E (or_insert_with_invI E 4 v _ hs0 he)
    | key =>
      exact (OpInv.bind (E := E) (OpInv.pure key) (fun k => OpInv.bind (OpInv.of_cb (dropK_cb key))
        (fun _ => OpInv.pure _))) s hs0
    | drop => exact (OpInv.bind (E := E) (OpInv.of_cb (dropK_cb key)) (fun _ => OpInv.pure _)) s hs0
    | vac_key => exact (OpInv.bind (E := E) (OpInv.of_cb (dropK_cb key)) (fun _ => OpInv.pure _)) s hs0
    | vac_into_key => exact Sat.pure ⟨hs0, rfl⟩
    | vac_insert v => exact then_refVal E (vacant_insert_invI E key v hs0)
    | occ_key => exact (OpInv.bind (E := E) (OpInv.of_cb (dropK_cb key)) (fun _ => OpInv.pure _)) s hs0
    | occ_get => exact (OpInv.bind (E := E) (OpInv.of_cb (dropK_cb key)) (fun _ => OpInv.pure _)) s hs0
    | occ_get_mut g => exact (OpInv.bind (E := E) (OpInv.of_cb (dropK_cb key)) (fun _ => OpInv.pure _)) s hs0
    | occ_insert v => exact (OpInv.bind (E := E) (OpInv.of_cb (dropK_cb key)) (fun _ => OpInv.pure _)) s hs0
    | occ_remove => exact (OpInv.bind (E := E) (OpInv.of_cb (dropK_cb key)) (fun _ => OpInv.pure _)) s hs0
    | occ_remove_entry => exact (OpInv.bind (E := E) (OpInv.of_cb (dropK_cb key)) (fun _ => OpInv.pure _)) s hs0
    | occ_into_mut => exact (OpInv.bind (E := E) (OpInv.of_cb (dropK_cb key)) (fun _ => OpInv.pure _)) s hs0
  | occ i =>
    have hi : i < l.length := by have : i < s.r.len := he; rw [hr.1] at this; exact this
    have hil : i < s.r.len := he
    cases fin with
    | or_insert v => exact then_refVal E (or_insert_invI E v _ hs0 he)
    | or_insert_with v => exact then_refVal E (or_insert_with_invI E 2 v _ hs0 he)
    | or_insert_with_key v => exact then_refVal E (or_insert_with_invI E 3 v _ hs0 he)
    | or_default v => exact then_refVal E (or_insert_with_invI E 4 v _ hs0 he)
    | key =>
      refine okk (a := RV.key l[i].1) ?_
      simp [entryFinish, bind_apply, EntryOps.entry_key_occ hr hi, dropEntry]
    | drop => exact okk (a := RV.unit) rfl
    | occ_key =>
      refine okk (a := RV.key l[i].1) ?_
      simp [entryFinish, bind_apply, EntryOps.occ_get_eq hr hi]
    | occ_get =>
      refine okk (a := RV.ref i (.val l[i].2)) ?_
      simp [entryFinish, bind_apply, EntryOps.occ_get_eq hr hi]
    | occ_get_mut g =>
      have h := EntryOps.occ_get_mut_eq hr hi g
      refine Sat.of_ok (a := RV.ref i (.val (g l[i].2)))
        (s' := { s with r := setSlot s.r i (some (l[i].1, g l[i].2)) }) ?_ ?_
      · simp [entryFinish, bind_apply, h]
      · exact ⟨⟨_, hr.set hi _, nodup_set_same hn hi _⟩, rfl⟩
    | occ_insert v =>
      have h := EntryOps.occ_insert_eq E hr hi v
      refine Sat.of_ok (a := RV.val l[i].2)
        (s' := { s with r := setSlot s.r i (some (l[i].1, v)) }) ?_ ?_
      · simp [entryFinish, bind_apply, h]
      · exact ⟨⟨_, hr.set hi _, nodup_set_same hn hi _⟩, rfl⟩
    | occ_remove =>
      refine Sat.bind (Q₁ := fun _ s' => Inv E s'.r ∧ s'.r.cap = s.r.cap)
        (Sat.mono (EntryOps.occ_remove_sat (Q := Q) hr hi) ?_ ?_) ?_
      · intro v s' ⟨_, h1, h2, _⟩
        exact ⟨⟨_, h1, fun hg => nodupKeys_swapRemove hg.1.equivB (hn hg) hi⟩, h2⟩
      · intro c s' ⟨h1, h2, _⟩
        exact ⟨⟨_, h1, fun hg => nodupKeys_swapRemove hg.1.equivB (hn hg) hi⟩, h2⟩
      · intro _ s1 h; exact Sat.pure h
    | occ_remove_entry =>
      refine Sat.bind (Q₁ := fun _ s' => Inv E s'.r ∧ s'.r.cap = s.r.cap)
        (Sat.mono (EntryOps.occ_remove_entry_sat hr hi
          (P := fun _ s' => Inv E s'.r ∧ s'.r.cap = s.r.cap)) ?_ (fun _ _ h => h)) ?_
      · intro p s' ⟨_, h1, h2, _⟩
        exact ⟨⟨_, h1, fun hg => nodupKeys_swapRemove hg.1.equivB (hn hg) hi⟩, h2⟩
      · intro _ s1 h; exact Sat.pure h
    | occ_into_mut => exact refVal_inv E hs0 hil
    | vac_key => exact okk (a := RV.tag "occupied") rfl
    | vac_into_key => exact okk (a := RV.tag "occupied") rfl
    | vac_insert v => exact okk (a := RV.tag "occupied") rfl

theorem opInv_entryOp (k : K) (mods : List (V → V)) (fin : EntryEnd V) : OpInv E (entryOp E k mods fin) := by
  intro s hs
  unfold entryOp
  refine Sat.bind (entry_invE E k hs) ?_
  intro e s1 ⟨h1, h2, h3⟩
  refine Sat.bind (Sat.mono (entryMods_invE E mods e h1 h3) (fun _ _ h => h) ?_) ?_
  · intro c s2 ⟨g1, g2⟩; exact ⟨g1, g2.trans h2⟩
  · intro e' s2 ⟨g1, g2, g3⟩
    refine Sat.bind (Sat.mono (entryFinish_inv E fin e' g1 g3) (fun _ _ h => h) ?_) ?_
    · intro c s3 ⟨k1, k2⟩; exact ⟨k1, (k2.trans g2).trans h2⟩
    · intro r s3 ⟨k1, k2⟩; exact Sat.pure ⟨k1, (k2.trans g2).trans h2⟩

/-! ### `get_disjoint_mut` and the writes through its references -/

theorem writeL_keys (g : V → V) : ∀ (res : List (Option Nat)) (l : List (K × V)),
    (Disjoint.writeL g res l).map (·.1) = l.map (·.1)
  | [], _ => rfl
  | none :: rest, l => writeL_keys g rest l
  | some i :: rest, l => by
    show (Disjoint.writeL g rest _).map (·.1) = _
    rw [writeL_keys g rest]
    cases h : l[i]? with
    | none => rfl
    | some p =>
      simp only
      apply List.ext_getElem?
      intro j
      simp only [List.getElem?_map, List.getElem?_set]
      split
      · rename_i hij; subst hij
        split
        · simp [h]
        · rename_i hlt; simp [List.getElem?_eq_none (Nat.le_of_not_lt hlt)]
      · rfl

theorem readSlots_ok {r : Raw K V} {l : List (K × V)} (hr : Rep r l) (s : St K V Q) :
    ∀ res : List (Option Nat), (∀ (t j : Nat), res[t]? = some (some j) → j < l.length) →
      ∃ out, readSlots r res s = .ok out s
  | [], _ => ⟨_, rfl⟩
  | none :: rest, hb => by
    obtain ⟨o, ho⟩ := readSlots_ok hr s rest (fun t j h => hb (t + 1) j (by simpa using h))
    exact ⟨RV.none :: o, by simp [readSlots, bind_apply, ho]⟩
  | some i :: rest, hb => by
    have hi : i < l.length := hb 0 i (by simp)
    obtain ⟨o, ho⟩ := readSlots_ok hr s rest (fun t j h => hb (t + 1) j (by simpa using h))
    have h1 : itemRefR r i s = .ok l[i] s := by
      unfold itemRefR; simp [hr.cap_lt hi, hr.slot hi]
    exact ⟨RV.some (.ref i (.val l[i].2)) :: o, by simp [readSlots, bind_apply, h1, ho]⟩

theorem opInv_gdm (g : V → V) (ks : List (Probe K Q)) :
    OpInv E (do
      let slots ← get_disjoint_mut E ks
      writeSlots g slots
      let s ← getS
      pure (RV.list (← readSlots s.r slots)) : SM K V Q (RV K V)) := by
  intro s ⟨l, hr, hn⟩
  refine Sat.bind (Sat.mono (Disjoint.checked_sat E hr ks) (fun _ _ h => h) ?_) ?_
  · intro c s' ⟨h1, _⟩; exact ⟨⟨l, h1 ▸ hr, hn⟩, by rw [h1]⟩
  · intro res s1 ⟨h1, _, _, h4, _, _⟩
    obtain ⟨s2, g1, g2, _, g4⟩ := Disjoint.writeSlots_eq (Q := Q) g res s1 l (h1 ▸ hr) h4
    refine Sat.bind (Sat.of_ok g1 (Q := fun _ s' => s' = s2) rfl) ?_
    intro _ s3 hs3
    subst hs3
    refine Sat.getS_bind ?_
    obtain ⟨o, ho⟩ := readSlots_ok g2 s3 res (fun t j h => by
      rw [Disjoint.writeL_length]; exact h4 t j h)
    refine Sat.of_ok (a := RV.list o) (s' := s3) (by simp [bind_apply, ho]) ⟨⟨_, g2, fun hg => ?_⟩, by rw [g4, h1]⟩
    have := hn hg
    unfold NodupKeys at *
    rw [writeL_keys]; exact this

end Micromap
