/-
The representation invariant `Rep`, lawfulness of user equality, and the triple of the
linear scan that every lookup and every insertion starts with.
-/
import Micromap.Proofs.Prims

namespace Micromap
variable {K V Q : Type}

/-- slots `[0, len)` are exactly the list `l`. -/
def Rep (r : Raw K V) (l : List (K × V)) : Prop :=
  r.len = l.length ∧ l.length ≤ r.cap ∧ ∀ i, i < l.length → r.slots i = l[i]?

theorem Rep.safe {r : Raw K V} {l} (h : Rep r l) : Safe r := by
  refine ⟨h.1 ▸ h.2.1, fun i hi => ?_⟩
  rw [h.1] at hi
  rw [h.2.2 i hi]
  simp [hi]

theorem Rep.new (cap : Nat) : Rep (Raw.new cap : Raw K V) [] := ⟨rfl, Nat.zero_le _, fun _ h => by simp at h⟩

/-- the live prefix of a container, read off slot by slot. -/
def absUpTo (r : Raw K V) : Nat → List (K × V)
  | 0 => []
  | n + 1 => absUpTo r n ++ (match r.slots n with | some p => [p] | none => [])

def Raw.abs (r : Raw K V) : List (K × V) := absUpTo r r.len

theorem absUpTo_spec (r : Raw K V) : ∀ n, (∀ i, i < n → (r.slots i).isSome = true) →
    (absUpTo r n).length = n ∧ ∀ i, i < n → r.slots i = (absUpTo r n)[i]?
  | 0, _ => ⟨rfl, fun _ h => by simp at h⟩
  | n + 1, h => by
    obtain ⟨ih1, ih2⟩ := absUpTo_spec r n (fun i hi => h i (Nat.lt_succ_of_lt hi))
    have hn := h n (Nat.lt_succ_self n)
    cases hs : r.slots n with
    | none => simp [hs] at hn
    | some p =>
      simp only [absUpTo, hs]
      refine ⟨by simp [ih1], fun i hi => ?_⟩
      by_cases hin : i < n
      · rw [List.getElem?_append_left (by omega)]; exact ih2 i hin
      · have : i = n := by omega
        subst this
        rw [List.getElem?_append_right (by omega)]
        simp [ih1, hs]

theorem Safe.rep {r : Raw K V} (h : Safe r) : Rep r r.abs := by
  obtain ⟨h1, h2⟩ := absUpTo_spec r r.len h.2
  exact ⟨h1.symm, h1 ▸ h.1, fun i hi => h2 i (h1 ▸ hi)⟩

theorem Rep.unique {r : Raw K V} {l l'} (h : Rep r l) (h' : Rep r l') : l = l' := by
  apply List.ext_getElem?
  intro i
  by_cases hi : i < l.length
  · rw [← h.2.2 i hi, ← h'.2.2 i (by rw [← h'.1, h.1]; exact hi)]
  · have : ¬ i < l'.length := by rw [← h'.1, h.1]; exact hi
    simp [List.getElem?_eq_none (Nat.le_of_not_lt hi), List.getElem?_eq_none (Nat.le_of_not_lt this)]

/-! ### user equality -/

def Env.keq (E : Env K V Q) (a b : K) : Bool := E.eqK 0 a b
def Env.qeq (E : Env K V Q) (a b : Q) : Bool := E.eqQ 0 a b

/-- the answers of `==` do not depend on when it is asked. -/
structure Env.Pure (E : Env K V Q) : Prop where
  k : ∀ n a b, E.eqK n a b = E.keq a b
  q : ∀ n a b, E.eqQ n a b = E.qeq a b

/-- `Eq` is an equivalence and `Borrow` respects it (the contracts of `Eq` and `Borrow`). -/
structure Env.Lawful (E : Env K V Q) : Prop extends E.Pure where
  refl : ∀ a, E.keq a a = true
  symm : ∀ a b, E.keq a b = E.keq b a
  trans : ∀ a b c, E.keq a b = true → E.keq b c = true → E.keq a c = true
  borrow : ∀ a b, E.qeq (E.borrow a) (E.borrow b) = E.keq a b
  qrefl : ∀ a, E.qeq a a = true
  qsymm : ∀ a b, E.qeq a b = E.qeq b a
  qtrans : ∀ a b c, E.qeq a b = true → E.qeq b c = true → E.qeq a c = true

/-- does the stored key match the probe (time-independent reading). -/
def Env.hit (E : Env K V Q) (stored : K) : Probe K Q → Bool
  | .key k => E.keq stored k
  | .q q => E.qeq (E.borrow stored) q

variable (E : Env K V Q)

theorem probeEq_cb (stored : K) (pr : Probe K Q) :
    CbOk (probeEq E stored pr) (fun _ => []) (fun _ r => E.Pure → r = E.hit stored pr) := by
  cases pr with
  | key k =>
    exact (eqK_cb E stored k).mono (fun _ => rfl) (fun _ r ⟨n, hn⟩ hp => by rw [hn, hp.k]; rfl)
  | q q =>
    exact (eqQ_cb E (E.borrow stored) q).mono (fun _ => rfl) (fun _ r ⟨n, hn⟩ hp => by rw [hn, hp.q]; rfl)

/-- first index `j ≥ i` of `l` whose key matches the probe. -/
def findFrom (l : List (K × V)) (pr : Probe K Q) : Nat → Nat → Option Nat
  | 0, _ => none
  | n + 1, i =>
    match l[i]? with
    | some p => if E.hit p.1 pr then some i else findFrom l pr n (i + 1)
    | none => none

def findKey (l : List (K × V)) (pr : Probe K Q) : Option Nat := findFrom E l pr l.length 0

theorem findFrom_some {l : List (K × V)} {pr : Probe K Q} : ∀ {n i j}, findFrom E l pr n i = some j →
    i ≤ j ∧ j < i + n ∧ j < l.length ∧ (∃ p, l[j]? = some p ∧ E.hit p.1 pr = true) ∧
    ∀ m, i ≤ m → m < j → ∀ p, l[m]? = some p → E.hit p.1 pr = false
  | 0, _, _, h => by simp [findFrom] at h
  | n + 1, i, j, h => by
    unfold findFrom at h
    cases hl : l[i]? with
    | none => simp [hl] at h
    | some p =>
      simp only [hl] at h
      by_cases hh : E.hit p.1 pr = true
      · simp only [hh, if_true, Option.some.injEq] at h
        subst h
        have hlt : i < l.length := (List.getElem?_eq_some_iff.mp hl).1
        exact ⟨Nat.le_refl _, by omega, hlt, ⟨p, hl, hh⟩, fun m h1 h2 => by omega⟩
      · simp only [hh] at h
        obtain ⟨h1, h2, h3, h4, h5⟩ := findFrom_some h
        refine ⟨by omega, by omega, h3, h4, fun m hm1 hm2 q hq => ?_⟩
        by_cases hmi : m = i
        · subst hmi
          rw [hl] at hq
          cases hq
          simpa using hh
        · exact h5 m (by omega) hm2 q hq

theorem findFrom_none {l : List (K × V)} {pr : Probe K Q} : ∀ {n i}, i + n = l.length →
    findFrom E l pr n i = none → ∀ m, i ≤ m → ∀ p, l[m]? = some p → E.hit p.1 pr = false
  | 0, i, hn, _ => by
    intro m hm p hp
    have : m < l.length := (List.getElem?_eq_some_iff.mp hp).1
    omega
  | n + 1, i, hn, h => by
    unfold findFrom at h
    have hlt : i < l.length := by omega
    have hl : l[i]? = some l[i] := List.getElem?_eq_getElem hlt
    simp only [hl] at h
    by_cases hh : E.hit l[i].1 pr = true
    · simp [hh] at h
    · simp only [hh] at h
      intro m hm p hp
      by_cases hmi : m = i
      · subst hmi
        rw [hl] at hp
        cases hp
        simpa using hh
      · exact findFrom_none (by omega) h m (by omega) p hp

/-- the scan: framed, effect-free, lands below `len`, and under a pure oracle computes `findFrom`. -/
theorem scanFromR_cb {r : Raw K V} {l : List (K × V)} (hr : Rep r l) (pr : Probe K Q) :
    ∀ n i, i + n = l.length →
    CbOk (scanFromR E r pr n i) (fun _ => [])
      (fun _ o => (∀ j, o = some j → i ≤ j ∧ j < l.length) ∧ (E.Pure → o = findFrom E l pr n i))
  | 0, i, _ => by
    intro s
    exact Sat.pure ⟨rfl, WRel.refl _, fun j h => (by cases h), fun _ => rfl⟩
  | n + 1, i, hn => by
    intro s
    have hlt : i < l.length := by omega
    have hslot : r.slots i = some l[i] := by
      rw [hr.2.2 i hlt]; exact List.getElem?_eq_getElem hlt
    unfold scanFromR
    have hread : itemRefR r i s = .ok l[i] s := by
      unfold itemRefR
      have : i < r.cap := Nat.lt_of_lt_of_le hlt hr.2.1
      simp [this, hslot]
    refine Sat.bind (Q₁ := fun p s' => p = l[i] ∧ s = s') (Sat.of_ok hread ⟨rfl, rfl⟩) ?_
    rintro _ _ ⟨rfl, rfl⟩
    refine Sat.cb (probeEq_cb E l[i].1 pr) ?_ ?_
    · intro b s1 h1 h2 h3
      cases b with
      | true =>
        refine ⟨h1, h2, fun j hj => ?_, fun hp => ?_⟩
        · cases hj; exact ⟨Nat.le_refl _, hlt⟩
        · have := h3 hp
          simp [findFrom, List.getElem?_eq_getElem hlt, ← this]
      | false =>
        simp only [Bool.false_eq_true, if_false]
        refine Sat.mono (scanFromR_cb hr pr n (i + 1) (by omega) s1) ?_ ?_
        · intro o s2 ⟨g1, g2, g3, g4⟩
          refine ⟨g1.trans h1, by simpa using h2.trans g2, fun j hj => ?_, fun hp => ?_⟩
          · have := g3 j hj; exact ⟨by omega, this.2⟩
          · have := h3 hp
            simp [findFrom, List.getElem?_eq_getElem hlt, ← this, g4 hp]
        · intro c s2 ⟨g1, g2, g3, g4, tr', g5⟩
          subst g2
          exact cb_panic_after h1 h2 g1 g3 g4 g5
    · intro s' tr' h1 h2 h3 h4
      exact ⟨h1, rfl, h2, h3, tr', h4⟩

theorem scanR_cb {r : Raw K V} {l : List (K × V)} (hr : Rep r l) (pr : Probe K Q) :
    CbOk (scanR E r pr) (fun _ => [])
      (fun _ o => (∀ j, o = some j → j < l.length) ∧ (E.Pure → o = findKey E l pr)) := by
  intro s
  unfold scanR
  have : r.len ≤ r.cap := hr.1 ▸ hr.2.1
  simp only [this, if_true]
  rw [hr.1]
  refine Sat.mono (scanFromR_cb E hr pr l.length 0 (by omega) s) ?_ (fun _ _ h => h)
  intro o s' ⟨h1, h2, h3, h4⟩
  exact ⟨h1, h2, fun j hj => (h3 j hj).2, h4⟩

end Micromap
