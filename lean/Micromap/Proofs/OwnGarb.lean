/-
A container built in a scratch register (`from_iter`, `Deserialize`, `&a - &b`, `clone`) has no
ghost-live slot at or beyond `len` at any moment (`NoGarb`), whatever the user code does (any world,
any `==`).  Consequence: when the construction unwinds and the scratch register is dropped
(`unwindWith (dropMap E)`), NO slot of it is live afterwards — the discarded local takes no object
with it (`scratch_dead`).  This is what lets the system-level ledger forget the scratch register.
-/
import Micromap.Proofs.OwnAlg
import Micromap.Proofs.SysInv
import Micromap.Proofs.FromIter
import Micromap.Proofs.EqClone

set_option linter.unusedSectionVars false

namespace Micromap.OwnSys
open Micromap Ledger Own
variable {K V Q : Type}

/-! ### runs that leave the container alone -/

/-- the run does not touch the container (returning or unwinding); `ub` is vacuous. -/
def FrameR {α : Type} (m : SM K V Q α) : Prop :=
  ∀ s, match m s with
    | .ok _ s' => s'.r = s.r
    | .panic _ s' => s'.r = s.r
    | .ub => True

theorem FrameR.of_cb {α : Type} {m : SM K V Q α} {tr Qv} (h : CbOk m tr Qv) : FrameR m := by
  intro s
  have := h s
  unfold Sat at this
  cases hm : m s with
  | ok a s' => rw [hm] at this; exact this.1
  | panic c s' => rw [hm] at this; exact this.1
  | ub => trivial

theorem FrameR.pure {α : Type} (a : α) : FrameR (pure a : SM K V Q α) := fun _ => rfl

theorem FrameR.bind {α β : Type} {m : SM K V Q α} {f : α → SM K V Q β} (hm : FrameR m)
    (hf : ∀ a, FrameR (f a)) : FrameR (m >>= f) := by
  intro s
  have h1 := hm s
  simp only [bind_apply]
  cases hm' : m s with
  | ok a s1 =>
    rw [hm'] at h1
    have h2 := hf a s1
    simp only
    cases hf' : f a s1 with
    | ok b s2 => rw [hf'] at h2; exact h2.trans h1
    | panic c s2 => rw [hf'] at h2; exact h2.trans h1
    | ub => trivial
  | panic c s1 => rw [hm'] at h1; exact h1
  | ub => trivial

variable (E : Env K V Q)

theorem frame_itemRefR (r : Raw K V) (i : Nat) : FrameR (itemRefR r i : SM K V Q (K × V)) := by
  intro s
  unfold itemRefR
  by_cases hi : i < r.cap
  · cases hs : r.slots i <;> simp [hi]
  · simp [hi]

theorem frame_probeEq (stored : K) (pr : Probe K Q) : FrameR (probeEq E stored pr) := by
  cases pr with
  | key k => exact FrameR.of_cb (eqK_cb E stored k)
  | q q => exact FrameR.of_cb (eqQ_cb E (E.borrow stored) q)

theorem frame_scanFromR (r : Raw K V) (pr : Probe K Q) : ∀ n i, FrameR (scanFromR E r pr n i)
  | 0, _ => FrameR.pure _
  | n + 1, i => by
    unfold scanFromR
    refine FrameR.bind (frame_itemRefR r i) (fun p => ?_)
    refine FrameR.bind (frame_probeEq E p.1 pr) (fun b => ?_)
    split
    · exact FrameR.pure _
    · exact frame_scanFromR r pr n (i + 1)

theorem frame_scanR (r : Raw K V) (pr : Probe K Q) : FrameR (scanR E r pr) := by
  unfold scanR
  split
  · exact frame_scanFromR E r pr _ _
  · intro s; rfl

theorem frame_scan (pr : Probe K Q) : FrameR (scan E pr) := fun s => frame_scanR E s.r pr s

/-! ### no ghost-live slot at or beyond `len` -/

/-- every slot at or beyond `len` is dead. -/
def NoGarb (r : Raw K V) : Prop := ∀ j, r.len ≤ j → r.slots j = none

theorem NoGarb.new (cap : Nat) : NoGarb (Raw.new cap : Raw K V) := fun _ _ => rfl

/-- the run keeps `NoGarb` (returning or unwinding); `ub` is vacuous. -/
def OpG {α : Type} (m : SM K V Q α) : Prop :=
  ∀ s, NoGarb s.r → match m s with
    | .ok _ s' => NoGarb s'.r
    | .panic _ s' => NoGarb s'.r
    | .ub => True

theorem OpG.of_frame {α : Type} {m : SM K V Q α} (h : FrameR m) : OpG m := by
  intro s hs
  have := h s
  cases hm : m s with
  | ok a s' => rw [hm] at this; simp only; rw [this]; exact hs
  | panic c s' => rw [hm] at this; simp only; rw [this]; exact hs
  | ub => trivial

theorem OpG.pure {α : Type} (a : α) : OpG (pure a : SM K V Q α) := fun _ hs => hs

theorem OpG.bind {α β : Type} {m : SM K V Q α} {f : α → SM K V Q β} (hm : OpG m)
    (hf : ∀ a, OpG (f a)) : OpG (m >>= f) := by
  intro s hs
  have h1 := hm s hs
  simp only [bind_apply]
  cases hm' : m s with
  | ok a s1 =>
    rw [hm'] at h1
    exact hf a s1 h1
  | panic c s1 => rw [hm'] at h1; exact h1
  | ub => trivial

theorem OpG.unwindWith {α : Type} {cleanup : SM K V Q Unit} {body : SM K V Q α} (hc : OpG cleanup)
    (hb : OpG body) : OpG (Micromap.unwindWith cleanup body) := by
  intro s hs
  have h1 := hb s hs
  unfold Micromap.unwindWith
  cases hm : body s with
  | ok a s1 => rw [hm] at h1; exact h1
  | ub => trivial
  | panic c s1 =>
    rw [hm] at h1
    have h2 := hc (s1.setUnw true) h1
    simp only
    cases hcl : cleanup (s1.setUnw true) with
    | ok u s2 => rw [hcl] at h2; exact h2
    | panic c2 s2 => trivial
    | ub => trivial

theorem opG_pairReplace (i : Nat) (p : K × V) : OpG (pairReplace i p : SM K V Q (K × V)) := by
  intro s hs
  unfold pairReplace
  by_cases hi : i < s.r.cap
  · cases hsl : s.r.slots i with
    | none => simp [hi]
    | some old =>
      simp only [hi, if_true]
      intro j hj
      have hj' : s.r.len ≤ j := hj
      show (if j = i then some p else s.r.slots j) = none
      by_cases hji : j = i
      · subst hji; rw [hs j hj'] at hsl; cases hsl
      · simp only [hji, if_false]; exact hs j hj'
  · simp [hi]

theorem opG_valueReplace (i : Nat) (v : V) : OpG (valueReplace i v : SM K V Q V) := by
  intro s hs
  unfold valueReplace
  by_cases hi : i < s.r.cap
  · cases hsl : s.r.slots i with
    | none => simp [hi]
    | some old =>
      simp only [hi, if_true]
      intro j hj
      have hj' : s.r.len ≤ j := hj
      show (if j = i then some (old.1, v) else s.r.slots j) = none
      by_cases hji : j = i
      · subst hji; rw [hs j hj'] at hsl; cases hsl
      · simp only [hji, if_false]; exact hs j hj'
  · simp [hi]

/-- the append path of `insert_ii`: write slot `len`, then publish `len + 1`. -/
theorem opG_append (k : K) (v : V) : OpG (do
    let i ← getLen
    let cap ← getCap
    debugAssert (i < cap) .overflow
    checkedWrite i (k, v)
    setLen (i + 1)
    pure (i, (none : Option (K × V))) : SM K V Q (Nat × Option (K × V))) := by
  intro s hs
  have hset : NoGarb ({ setSlot s.r s.r.len (some (k, v)) with len := s.r.len + 1 } : Raw K V) := by
    intro j hj
    have hj' : s.r.len + 1 ≤ j := hj
    show (if j = s.r.len then some (k, v) else s.r.slots j) = none
    have : j ≠ s.r.len := by omega
    simp only [this, if_false]
    exact hs j (by omega)
  simp only [bind_apply, getLen, getCap, debugAssert, checkedWrite, itemWrite, setLen, modS, pure_apply]
  cases s.w.profile <;> by_cases hlt : s.r.len < s.r.cap <;> simp only [hlt, decide_true, decide_false, if_true, if_false] <;>
    first
    | exact hs
    | (cases hsl : s.r.slots s.r.len <;> exact hset)

theorem opG_insert_ii (k : K) (v : V) (upd : Bool) : OpG (insert_ii E k v upd) := by
  unfold insert_ii
  refine OpG.unwindWith (OpG.of_frame (FrameR.of_cb (dropArgs_cb E k v))) ?_
  refine OpG.bind (OpG.of_frame (frame_scan E _)) (fun o => ?_)
  cases o with
  | some i =>
    simp only
    split
    · exact OpG.bind (opG_pairReplace i _) (fun _ => OpG.pure _)
    · exact OpG.bind (opG_valueReplace i _) (fun _ => OpG.pure _)
  | none => exact opG_append k v

theorem opG_dropReturnedKey (o : Option (K × V)) : OpG (dropReturnedKey o : SM K V Q (Option V)) := by
  cases o with
  | none => exact OpG.pure _
  | some p =>
    obtain ⟨k, v⟩ := p
    unfold dropReturnedKey
    refine OpG.bind (OpG.unwindWith (OpG.of_frame (FrameR.of_cb (leak_cb _))) (OpG.of_frame (FrameR.of_cb (dropK_cb k))))
      (fun _ => OpG.pure _)

theorem opG_insert (k : K) (v : V) : OpG (insert E k v) := by
  unfold insert
  refine OpG.bind (opG_insert_ii E k v false) (fun r => ?_)
  obtain ⟨j, ex⟩ := r
  exact opG_dropReturnedKey ex

theorem opG_extendLoop (pulls : Bool) : ∀ xs : List (K × V), OpG (extendLoop E pulls xs)
  | [] => by
    unfold extendLoop
    cases pulls
    · exact OpG.pure ()
    · exact OpG.of_frame (FrameR.of_cb pullSrc_cb)
  | (k, v) :: rest => by
    have ih := opG_extendLoop pulls rest
    have hdl : OpG (dropList E rest) := OpG.of_frame (FrameR.of_cb (FromIter.dropList_cb E rest))
    have hbody : OpG (do
        let o ← unwindWith (dropList E rest) (insert E k v)
        match o with
        | some old => do
          unwindWith (dropList E rest) (dropV E old)
          extendLoop E pulls rest
        | none => extendLoop E pulls rest) := by
      refine OpG.bind (OpG.unwindWith hdl (opG_insert E k v)) (fun o => ?_)
      cases o with
      | none => exact ih
      | some old =>
        exact OpG.bind (OpG.unwindWith hdl (OpG.of_frame (FrameR.of_cb (dropV_cb E old)))) (fun _ => ih)
    unfold extendLoop
    cases pulls
    · exact hbody
    · exact OpG.bind (OpG.unwindWith (OpG.of_frame (FrameR.of_cb (FromIter.dropList_cb E _)))
        (OpG.of_frame (FrameR.of_cb pullSrc_cb))) (fun _ => hbody)

theorem frame_decodeK (k : K) : FrameR (decodeK E k) := fun _ => rfl

theorem frame_decodeV (v : V) : FrameR (decodeV E v) := by
  intro s
  unfold decodeV
  cases E.vGlue <;> rfl

theorem opG_visitLoop : ∀ toks : List (Tok K V), OpG (visitLoop E toks)
  | [] => by unfold visitLoop; exact OpG.pure ()
  | .start _ :: _ => by unfold visitLoop; exact OpG.pure ()
  | .fin :: _ => by unfold visitLoop; exact OpG.pure ()
  | .entry k v :: rest => by
    unfold visitLoop
    refine OpG.bind (OpG.of_frame (frame_decodeK E k)) (fun k' => ?_)
    refine OpG.bind (OpG.of_frame (frame_decodeV E v)) (fun v' => ?_)
    refine OpG.bind (opG_insert E k' v') (fun o => ?_)
    cases o with
    | none => exact opG_visitLoop rest
    | some old => exact OpG.bind (OpG.of_frame (FrameR.of_cb (dropV_cb E old))) (fun _ => opG_visitLoop rest)


theorem frame_filtNextR (a b : Raw K V) (want : Bool) : ∀ n lo, FrameR (filtNextR E a b want n lo)
  | 0, _ => FrameR.pure _
  | n + 1, lo => by
    unfold filtNextR
    refine FrameR.bind (frame_itemRefR a lo) (fun p => ?_)
    refine FrameR.bind (frame_scanR E b _) (fun c => ?_)
    split
    · exact FrameR.pure _
    · exact frame_filtNextR a b want n (lo + 1)

theorem frame_filtNext (a b : Raw K V) (want : Bool) (it : SliceIt) : FrameR (filtNext E a b want it) := by
  unfold filtNext
  refine FrameR.bind (frame_filtNextR E a b want _ _) (fun r => ?_)
  obtain ⟨o, lo'⟩ := r
  exact FrameR.pure _

theorem opG_subLoop {K Q : Type} (F : Env K Unit Q) (a b : Raw K Unit) : ∀ n it, OpG (subLoop F a b n it)
  | 0, _ => OpG.pure ()
  | n + 1, it => by
    unfold subLoop
    refine OpG.bind (OpG.of_frame (frame_filtNext F a b false it)) (fun r => ?_)
    obtain ⟨o, it'⟩ := r
    cases o with
    | none => exact OpG.pure ()
    | some x =>
      obtain ⟨j, k⟩ := x
      refine OpG.bind (OpG.of_frame (FrameR.of_cb (EqClone.cloneK_cb F k))) (fun k' => ?_)
      exact OpG.bind (opG_insert F k' ()) (fun _ => opG_subLoop F a b n it')

theorem frame_iterStartR (r : Raw K V) : FrameR (iterStartR r : SM K V Q SliceIt) := by
  intro s
  unfold iterStartR
  by_cases h : r.len ≤ r.cap
  · simp only [h, if_true]; rfl
  · simp only [h, if_false]; rfl

/-! ### the scratch register is dead after an unwinding construction -/

theorem live_dead (w : Obj K V → Nat) {r : Raw K V} (h : ∀ j, r.slots j = none) : live w r = 0 := by
  have : ∀ n, liveObjs r n = [] := by
    intro n
    induction n with
    | zero => rfl
    | succ n ih => simp [liveObjs, ih, h n]
  simp [live, this]

/-- a construction that keeps the invariant and `NoGarb`, run on a scratch local that is dropped
    when it unwinds: after the unwinding no slot of the local is live. -/
theorem scratch_dead {body : SM K V Q Unit} (hI : OpInv E body) (hG : OpG body) {s : St K V Q}
    (hs : Inv E s.r) (hg : NoGarb s.r) {c : PanicClass} {s' : St K V Q}
    (h : Micromap.unwindWith (dropMap E) body s = .panic c s') : ∀ j, s'.r.slots j = none := by
  unfold Micromap.unwindWith at h
  have h1 := hI s hs
  have h2 := hG s hg
  cases hb : body s with
  | ok a s1 => rw [hb] at h; cases h
  | ub => rw [hb] at h; cases h
  | panic c1 s1 =>
    rw [hb] at h h2
    obtain ⟨⟨lq, hr, _⟩, _⟩ := Sat.panic_of h1 hb
    have hcl := EqClone.cleanup_dropMap E hr
    unfold Sat at hcl
    simp only at h
    cases hc : dropMap E (s1.setUnw true) with
    | ub => rw [hc] at h; cases h
    | panic c2 s2 => rw [hc] at h; cases h
    | ok u s2 =>
      rw [hc] at h hcl
      injection h with _ hs'
      subst hs'
      obtain ⟨_, hd, hrest, _⟩ := hcl
      intro j
      by_cases hj : j < lq.length
      · exact hd.2 j hj
      · rw [hrest j (by omega)]
        exact h2 j (by rw [hr.1]; omega)

end Micromap.OwnSys
