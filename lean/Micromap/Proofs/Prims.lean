/-
Invariants, the world relation, and the triples of the callbacks.
-/
import Micromap.Model.Map
import Micromap.Proofs.Sat

namespace Micromap

variable {K V Q : Type}

/-- what memory safety needs: no assumption about `==`. -/
def Safe (r : Raw K V) : Prop := r.len ≤ r.cap ∧ ∀ i, i < r.len → (r.slots i).isSome = true

theorem Safe.new (cap : Nat) : Safe (Raw.new cap : Raw K V) := by
  constructor
  · simp [Raw.new]
  · intro i hi; simp [Raw.new] at hi

@[simp] theorem setUnw_r (s : St K V Q) (b : Bool) : (s.setUnw b).r = s.r := rfl
@[simp] theorem setUnw_unw (s : St K V Q) (b : Bool) : (s.setUnw b).w.unwinding = b := rfl
@[simp] theorem setUnw_profile (s : St K V Q) (b : Bool) : (s.setUnw b).w.profile = s.w.profile := rfl
@[simp] theorem setUnw_inject (s : St K V Q) (b : Bool) : (s.setUnw b).w.inject = s.w.inject := rfl
@[simp] theorem setUnw_events (s : St K V Q) (b : Bool) : (s.setUnw b).w.events = s.w.events := rfl
@[simp] theorem setUnw_leaked (s : St K V Q) (b : Bool) : (s.setUnw b).w.leaked = s.w.leaked := rfl

/-! ### world relations -/

/-- a world in which no fault is armed: callbacks run to completion. -/
def Benign (w : World K V Q) : Prop := w.inject = none ∧ w.unwinding = false

/-- effects other than comparisons: drops, clones, closure calls, pulls. -/
def Event.isEff : Event K V Q → Bool
  | .eqK .. => false
  | .eqQ .. => false
  | .eqV .. => false
  | _ => true

def World.trace (w : World K V Q) : List (Event K V Q) := w.events.filter Event.isEff

/-- `w'` is a later world of the same run: profile and unwinding flag fixed, an unarmed
    injection stays unarmed, `tr` = the effects (non-comparison events) in between. -/
structure WRel (w w' : World K V Q) (tr : List (Event K V Q)) : Prop where
  profile : w'.profile = w.profile
  unw : w'.unwinding = w.unwinding
  inj : w.inject = none → w'.inject = none
  trace : w'.trace = w.trace ++ tr

theorem WRel.refl (w : World K V Q) : WRel w w [] :=
  ⟨rfl, rfl, id, by simp⟩

theorem WRel.trans {w w' w'' : World K V Q} {t₁ t₂} (h₁ : WRel w w' t₁) (h₂ : WRel w' w'' t₂) :
    WRel w w'' (t₁ ++ t₂) :=
  ⟨h₂.profile.trans h₁.profile, h₂.unw.trans h₁.unw, fun h => h₂.inj (h₁.inj h),
   by rw [h₂.trace, h₁.trace, List.append_assoc]⟩

theorem WRel.trans' {w w' w'' : World K V Q} {t₁ t₂ t} (h₁ : WRel w w' t₁) (h₂ : WRel w' w'' t₂)
    (ht : t = t₁ ++ t₂) : WRel w w'' t := ht ▸ h₁.trans h₂

theorem WRel.benign {w w' : World K V Q} {t} (h : WRel w w' t) (hb : Benign w) : Benign w' :=
  ⟨h.inj hb.1, h.unw.trans hb.2⟩

/-- clean-up ran in unwinding mode from `s'` and the flag was restored afterwards. -/
theorem WRel.through_unw {s' s'' : St K V Q} {tr} (h : WRel (s'.setUnw true).w s''.w tr) :
    WRel s'.w (s''.setUnw s'.w.unwinding).w tr :=
  ⟨by simpa using h.profile, rfl, fun hi => by simpa using h.inj (by simpa using hi),
   by simpa [World.trace] using h.trace⟩

/-- triple of a pure callback: container framed, world advanced with effects `tr a`, result
    constrained by `Qv`; it can only unwind by an injected panic, and never while unwinding. -/
def CbOk (m : SM K V Q α) (tr : α → List (Event K V Q)) (Qv : St K V Q → α → Prop) : Prop :=
  ∀ s, Sat m s (fun a s' => s'.r = s.r ∧ WRel s.w s'.w (tr a) ∧ Qv s a)
    (fun c s' => s'.r = s.r ∧ c = .inject ∧ s.w.inject ≠ none ∧ s.w.unwinding = false ∧
      ∃ tr', WRel s.w s'.w tr')

theorem tick_cb : CbOk (tick : SM K V Q Unit) (fun _ => []) (fun _ _ => True) := by
  intro s
  obtain ⟨r, ⟨profile, inject, unwinding, calls, nextId, events, leaked⟩⟩ := s
  unfold Sat tick
  cases unwinding with
  | true => exact ⟨rfl, ⟨rfl, rfl, id, by simp [World.trace]⟩, trivial⟩
  | false =>
    cases inject with
    | none => exact ⟨rfl, ⟨rfl, rfl, id, by simp [World.trace]⟩, trivial⟩
    | some n =>
      cases n with
      | zero =>
        exact ⟨rfl, rfl, by simp, rfl, [], ⟨rfl, rfl, fun h => by simp at h, by simp [World.trace]⟩⟩
      | succ n => exact ⟨rfl, ⟨rfl, rfl, fun h => by simp at h, by simp [World.trace]⟩, trivial⟩

theorem logE_cb (e : Event K V Q) :
    CbOk (logE e) (fun _ => if e.isEff then [e] else []) (fun _ _ => True) := by
  intro s
  unfold Sat logE modS
  refine ⟨rfl, ⟨rfl, rfl, id, ?_⟩, trivial⟩
  simp only [World.trace, List.filter_append]
  cases h : e.isEff <;> simp [h]

/-- recording a leak touches neither the container nor anything `WRel` tracks. -/
theorem leak_cb (o : Obj K V) : CbOk (leak o : SM K V Q Unit) (fun _ => []) (fun _ _ => True) := by
  intro s
  unfold Sat leak modS
  exact ⟨rfl, ⟨rfl, rfl, id, by simp [World.trace]⟩, trivial⟩

/-- use a callback triple in front of a continuation. -/
theorem Sat.cb {m : SM K V Q α} {tr Qv} (h : CbOk m tr Qv) {f : α → SM K V Q β} {s : St K V Q}
    {Qp : β → St K V Q → Prop} {P : PanicClass → St K V Q → Prop}
    (hk : ∀ a s', s'.r = s.r → WRel s.w s'.w (tr a) → Qv s a → Sat (f a) s' Qp P)
    (hp : ∀ s' tr', s'.r = s.r → s.w.inject ≠ none → s.w.unwinding = false → WRel s.w s'.w tr' →
      P .inject s') :
    Sat (m >>= f) s Qp P := by
  refine Sat.bind (Sat.mono (h s) (fun _ _ h' => h') ?_) (fun a s' ⟨h1, h2, h3⟩ => hk a s' h1 h2 h3)
  intro c s' ⟨h1, h2, h3, h4, tr', h5⟩
  subst h2
  exact hp s' tr' h1 h3 h4 h5

/-- a callback as the last action. -/
theorem Sat.cb_last {m : SM K V Q α} {tr Qv} (h : CbOk m tr Qv) {s : St K V Q}
    {Qp : α → St K V Q → Prop} {P : PanicClass → St K V Q → Prop}
    (hk : ∀ a s', s'.r = s.r → WRel s.w s'.w (tr a) → Qv s a → Qp a s')
    (hp : ∀ s' tr', s'.r = s.r → s.w.inject ≠ none → s.w.unwinding = false → WRel s.w s'.w tr' →
      P .inject s') :
    Sat m s Qp P := by
  refine Sat.mono (h s) (fun a s' ⟨h1, h2, h3⟩ => hk a s' h1 h2 h3) ?_
  intro c s' ⟨h1, h2, h3, h4, tr', h5⟩
  subst h2
  exact hp s' tr' h1 h3 h4 h5

theorem CbOk.mono {m : SM K V Q α} {tr tr' Qv Qv'} (h : CbOk m tr Qv)
    (ht : ∀ a, tr a = tr' a) (hq : ∀ s a, Qv s a → Qv' s a) : CbOk m tr' Qv' := by
  intro s
  exact Sat.mono (h s) (fun a s' ⟨h1, h2, h3⟩ => ⟨h1, ht a ▸ h2, hq s a h3⟩) (fun _ _ h' => h')

/-- the panic postcondition of a callback that runs after an earlier world step. -/
theorem cb_panic_after {s s1 s2 : St K V Q} {t₁ tr'} (h1 : s1.r = s.r) (h2 : WRel s.w s1.w t₁)
    (g1 : s2.r = s1.r) (g3 : s1.w.inject ≠ none) (g4 : s1.w.unwinding = false) (g5 : WRel s1.w s2.w tr') :
    s2.r = s.r ∧ PanicClass.inject = .inject ∧ s.w.inject ≠ none ∧ s.w.unwinding = false ∧
      ∃ tr', WRel s.w s2.w tr' :=
  ⟨g1.trans h1, rfl, fun hn => g3 (h2.inj hn), h2.unw ▸ g4, _, h2.trans g5⟩

/-- sequencing two callbacks whose effects do not depend on the first result. -/
theorem CbOk.seq {m : SM K V Q α} {f : α → SM K V Q β} {t₁ : List (Event K V Q)}
    {t₂ : β → List (Event K V Q)} {Q₁ : St K V Q → α → Prop} {Q₂ : β → Prop}
    (hm : CbOk m (fun _ => t₁) Q₁) (hf : ∀ a, CbOk (f a) t₂ (fun _ b => Q₂ b)) :
    CbOk (m >>= f) (fun b => t₁ ++ t₂ b) (fun _ b => Q₂ b) := by
  intro s
  refine Sat.cb hm ?_ ?_
  · intro a s' h1 h2 _
    refine Sat.mono (hf a s') ?_ ?_
    · intro b s'' ⟨g1, g2, g3⟩
      exact ⟨g1.trans h1, h2.trans g2, g3⟩
    · intro c s'' ⟨g1, g2, g3, g4, tr', g5⟩
      subst g2
      exact cb_panic_after h1 h2 g1 g3 g4 g5
  · intro s' tr' h1 h2 h3 h4
    exact ⟨h1, rfl, h2, h3, tr', h4⟩

theorem CbOk.pure (a : α) : CbOk (pure a : SM K V Q α) (fun _ => []) (fun _ b => b = a) :=
  fun s => ⟨rfl, WRel.refl _, rfl⟩

/-- general rule for `unwindWith`: the clean-up runs from the body's unwinding state (in
    unwinding mode) and must complete. -/
theorem Sat.unwindWith {cleanup : SM K V Q Unit} {body : SM K V Q α} {s : St K V Q}
    {Qp : α → St K V Q → Prop} {P P₀ : PanicClass → St K V Q → Prop}
    (hb : Sat body s Qp P₀)
    (hc : ∀ c s', P₀ c s' → Sat cleanup (s'.setUnw true)
      (fun _ s'' => P c (s''.setUnw s'.w.unwinding)) (fun _ _ => False)) :
    Sat (Micromap.unwindWith cleanup body) s Qp P := by
  unfold Sat at hb ⊢
  unfold Micromap.unwindWith
  cases h : body s with
  | ok a s' => rw [h] at hb; exact hb
  | ub => rw [h] at hb; exact hb
  | panic c s' =>
    rw [h] at hb
    have := hc c s' hb
    unfold Sat at this
    cases h2 : cleanup (s'.setUnw true) with
    | ok a s'' => rw [h2] at this; simpa [h2] using this
    | ub => rw [h2] at this; exact this.elim
    | panic c2 s'' => rw [h2] at this; exact this.elim

/-- a callback never unwinds while unwinding. -/
theorem CbOk.unw {m : SM K V Q α} {tr Qv} (h : CbOk m tr Qv) (s : St K V Q) (hu : s.w.unwinding = true) :
    Sat m s (fun a s' => s'.r = s.r ∧ WRel s.w s'.w (tr a) ∧ Qv s a) (fun _ _ => False) := by
  refine Sat.mono (h s) (fun _ _ h' => h') ?_
  intro c s' ⟨_, _, _, h4, _⟩
  rw [hu] at h4; exact absurd h4 (by simp)

/-- clean-up by a callback after a callback. -/
theorem CbOk.unwindWith {c : SM K V Q Unit} {b : SM K V Q α} {tc tb Qc Qb}
    (hc : CbOk c tc Qc) (hb : CbOk b tb Qb) : CbOk (Micromap.unwindWith c b) tb Qb := by
  intro s
  refine Sat.unwindWith (hb s) ?_
  intro cl s' ⟨h1, h2, h3, h4, tr', h5⟩
  refine Sat.mono (hc.unw (s'.setUnw true) rfl) ?_ (fun _ _ h => h)
  intro _ s'' ⟨g1, g2, _⟩
  exact ⟨by simpa using g1.trans h1, h2, h3, h4, _, h5.trans g2.through_unw⟩

/-! ### the callbacks -/

variable (E : Env K V Q)

theorem dropK_cb (k : K) : CbOk (dropK k : SM K V Q Unit) (fun _ => [.dropK k]) (fun _ _ => True) := by
  have := CbOk.seq (logE_cb (Event.dropK k : Event K V Q))
    (fun _ => (tick_cb).mono (fun _ => rfl) (fun _ _ _ => trivial))
  exact this.mono (fun _ => by simp [Event.isEff]) (fun _ _ h => h)

/-- the effect of dropping a value: nothing for `V = ()`. -/
def dropVTr (v : V) : List (Event K V Q) := if E.vGlue then [.dropV v] else []

theorem dropV_cb (v : V) : CbOk (dropV E v) (fun _ => dropVTr E v) (fun _ _ => True) := by
  unfold dropV dropVTr
  split
  · have := CbOk.seq (logE_cb (Event.dropV v : Event K V Q))
      (fun _ => (tick_cb).mono (fun _ => rfl) (fun _ _ _ => trivial))
    exact this.mono (fun _ => by simp [Event.isEff]) (fun _ _ h => h)
  · exact (CbOk.pure ()).mono (fun _ => rfl) (fun _ _ _ => trivial)

theorem dropPair_cb (p : K × V) :
    CbOk (dropPair E p) (fun _ => .dropK p.1 :: dropVTr E p.2) (fun _ _ => True) := by
  unfold dropPair
  have := CbOk.seq (CbOk.unwindWith (dropV_cb E p.2) (dropK_cb p.1)) (fun _ => dropV_cb E p.2)
  exact this.mono (fun _ => rfl) (fun _ _ h => h)

theorem dropArgs_cb (k : K) (v : V) :
    CbOk (dropArgs E k v) (fun _ => dropVTr E v ++ [.dropK k]) (fun _ _ => True) := by
  unfold dropArgs
  have := CbOk.seq (CbOk.unwindWith (dropK_cb k) (dropV_cb E v)) (fun _ => dropK_cb (V := V) (Q := Q) k)
  exact this.mono (fun _ => rfl) (fun _ _ h => h)

theorem callF_cb (tag : Nat) : CbOk (callF tag : SM K V Q Unit) (fun _ => [.call tag]) (fun _ _ => True) := by
  have := CbOk.seq (tick_cb (K := K) (V := V) (Q := Q))
    (fun _ => (logE_cb (Event.call tag : Event K V Q)).mono (fun _ => rfl) (fun _ _ _ => trivial))
  exact this.mono (fun _ => by simp [Event.isEff]) (fun _ _ h => h)

theorem pullSrc_cb : CbOk (pullSrc : SM K V Q Unit) (fun _ => [.pull]) (fun _ _ => True) := by
  have := CbOk.seq (tick_cb (K := K) (V := V) (Q := Q))
    (fun _ => (logE_cb (Event.pull : Event K V Q)).mono (fun _ => rfl) (fun _ _ _ => trivial))
  exact this.mono (fun _ => by simp [Event.isEff]) (fun _ _ h => h)

/-- `getS` in the middle of a callback. -/
theorem Sat.getS_bind {f : St K V Q → SM K V Q β} {s : St K V Q} {Qp P} (h : Sat (f s) s Qp P) :
    Sat (Micromap.getS >>= f) s Qp P := h

/-- `p.0 == k`: no effect; the answer is the oracle's at some call number. -/
theorem eqK_cb (a b : K) :
    CbOk (eqK E a b) (fun _ => []) (fun _ r => ∃ n, r = E.eqK n a b) := by
  intro s
  unfold eqK
  refine Sat.cb tick_cb ?_ ?_
  · intro _ s1 h1 h2 _
    refine Sat.getS_bind ?_
    refine Sat.cb (logE_cb _) ?_ ?_
    · intro _ s2 g1 g2 _
      refine Sat.pure ⟨g1.trans h1, ?_, _, rfl⟩
      have := h2.trans g2
      simpa [Event.isEff] using this
    · intro s2 tr' g1 g2 g3 g4
      exact cb_panic_after h1 h2 g1 g2 g3 g4
  · intro s' tr' h1 h2 h3 h4
    exact ⟨h1, rfl, h2, h3, tr', h4⟩

theorem eqQ_cb (a b : Q) :
    CbOk (eqQ E a b) (fun _ => []) (fun _ r => ∃ n, r = E.eqQ n a b) := by
  intro s
  unfold eqQ
  refine Sat.cb tick_cb ?_ ?_
  · intro _ s1 h1 h2 _
    refine Sat.getS_bind ?_
    refine Sat.cb (logE_cb _) ?_ ?_
    · intro _ s2 g1 g2 _
      refine Sat.pure ⟨g1.trans h1, ?_, _, rfl⟩
      have := h2.trans g2
      simpa [Event.isEff] using this
    · intro s2 tr' g1 g2 g3 g4
      exact cb_panic_after h1 h2 g1 g2 g3 g4
  · intro s' tr' h1 h2 h3 h4
    exact ⟨h1, rfl, h2, h3, tr', h4⟩

theorem eqV_cb (a b : V) :
    CbOk (eqV E a b) (fun _ => []) (fun _ r => r = if E.vGlue then E.eqV a b else true) := by
  unfold eqV
  split
  · intro s
    refine Sat.cb tick_cb ?_ ?_
    · intro _ s1 h1 h2 _
      refine Sat.cb (logE_cb _) ?_ ?_
      · intro _ s2 g1 g2 _
        refine Sat.pure ⟨g1.trans h1, ?_, rfl⟩
        have := h2.trans g2
        simpa [Event.isEff] using this
      · intro s2 tr' g1 g2 g3 g4
        exact cb_panic_after h1 h2 g1 g2 g3 g4
    · intro s' tr' h1 h2 h3 h4
      exact ⟨h1, rfl, h2, h3, tr', h4⟩
  · exact (CbOk.pure true).mono (fun _ => rfl) (fun _ _ h => h)

end Micromap
