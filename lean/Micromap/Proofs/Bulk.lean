/-
Triples of the operations that touch many slots: `dropRange` (behind `clear`, `Drop`,
`Drain::drop`), `clear`, `Drop for Map`, `retain`.
-/
import Micromap.Proofs.MapApi
import Micromap.Proofs.DictLaws

namespace Micromap
open Dict (swapRemove)
open SetAlg (EquivB NodupKeys)
variable {K V Q : Type} (E : Env K V Q)

/-- the effects of dropping a list of pairs front to back. -/
def dropTrace (ps : List (K × V)) : List (Event K V Q) :=
  ps.flatMap fun p => .dropK p.1 :: dropVTr E p.2

theorem InjPanic.after {s s1 s2 : St K V Q} {t c} (hw : WRel s.w s1.w t) (h : InjPanic s1 s2 c) :
    InjPanic s s2 c := by
  obtain ⟨h1, h2, h3, tr', h4⟩ := h
  exact ⟨h1, fun hn => h2 (hw.inj hn), hw.unw ▸ h3, _, hw.trans h4⟩

theorem InjPanic.of_cb {s s' : St K V Q} {tr'} (h2 : s.w.inject ≠ none) (h3 : s.w.unwinding = false)
    (h4 : WRel s.w s'.w tr') : InjPanic s s' .inject := ⟨rfl, h2, h3, tr', h4⟩

/-- `item_drop(i)` on a live slot. -/
theorem itemDrop_sat {s : St K V Q} {i p} (hc : i < s.r.cap) (hs : s.r.slots i = some p) :
    Sat (itemDrop E i) s
      (fun _ s' => s'.r = setSlot s.r i none ∧ WRel s.w s'.w (Event.dropK p.1 :: dropVTr E p.2))
      (fun c s' => s'.r = setSlot s.r i none ∧ InjPanic s s' c) := by
  unfold itemDrop
  refine Sat.bind (Sat.of_ok (itemRead_ok hc hs) (Q := fun q s' => p = q ∧ s' = { s with r := setSlot s.r i none })
    ⟨rfl, rfl⟩) ?_
  rintro _ _ ⟨rfl, rfl⟩
  refine Sat.cb_last (dropPair_cb E p) ?_ ?_
  · intro _ s' h1 h2 _; exact ⟨h1, h2⟩
  · intro s' tr' h1 h2 h3 h4; exact ⟨h1, InjPanic.of_cb h2 h3 h4⟩

/-- drop the live slots `[i, i + |ps|)`: afterwards they are dead, everything else is untouched;
    if an element's `Drop` unwinds, the slots outside the range are still untouched. -/
theorem dropRange_sat : ∀ (ps : List (K × V)) (i : Nat) (s : St K V Q),
    (∀ j (hj : j < ps.length), s.r.slots (i + j) = some ps[j]) → i + ps.length ≤ s.r.cap →
    Sat (dropRange E ps.length i) s
      (fun _ s' => s'.r.len = s.r.len ∧ s'.r.cap = s.r.cap ∧
        (∀ j, j < i ∨ i + ps.length ≤ j → s'.r.slots j = s.r.slots j) ∧
        (∀ j, i ≤ j → j < i + ps.length → s'.r.slots j = none) ∧ WRel s.w s'.w (dropTrace E ps))
      (fun c s' => s'.r.len = s.r.len ∧ s'.r.cap = s.r.cap ∧
        (∀ j, j < i ∨ i + ps.length ≤ j → s'.r.slots j = s.r.slots j) ∧ InjPanic s s' c)
  | [], i, s, _, _ => by
    exact Sat.pure ⟨rfl, rfl, fun _ _ => rfl, fun j h1 h2 => by simp at h2; omega, by simpa [dropTrace] using WRel.refl _⟩
  | p :: ps, i, s, hl, hc => by
    simp only [List.length_cons] at hc ⊢
    unfold dropRange
    have h0 : s.r.slots i = some p := by have := hl 0 (by simp); simpa using this
    refine Sat.bind (Sat.mono (itemDrop_sat E (by omega) h0) (fun _ _ h => h) ?_) ?_
    · intro c s' ⟨h1, h2⟩
      refine ⟨by rw [h1]; rfl, by rw [h1]; rfl, fun j hj => ?_, h2⟩
      rw [h1]; exact setSlot_other _ _ (by omega)
    · intro _ s1 ⟨h1, h2⟩
      have hl1 : ∀ j (hj : j < ps.length), s1.r.slots (i + 1 + j) = some ps[j] := by
        intro j hj
        rw [h1, setSlot_other _ _ (by omega)]
        have := hl (j + 1) (by simp; omega)
        simpa [Nat.add_assoc, Nat.add_comm 1 j] using this
      refine Sat.mono (dropRange_sat ps (i + 1) s1 hl1 (by rw [h1]; simp; omega)) ?_ ?_
      · intro _ s2 ⟨g1, g2, g3, g4, g5⟩
        refine ⟨by rw [g1, h1]; rfl, by rw [g2, h1]; rfl, fun j hj => ?_, fun j hj1 hj2 => ?_, ?_⟩
        · rw [g3 j (by omega), h1]; exact setSlot_other _ _ (by omega)
        · by_cases hji : j = i
          · subst hji; rw [g3 j (by omega), h1]; simp
          · exact g4 j (by omega) (by omega)
        · simpa [dropTrace] using h2.trans g5
      · intro c s2 ⟨g1, g2, g3, g4⟩
        refine ⟨by rw [g1, h1]; rfl, by rw [g2, h1]; rfl, fun j hj => ?_, g4.after h2⟩
        rw [g3 j (by omega), h1]; exact setSlot_other _ _ (by omega)

theorem Rep.slots_at {r : Raw K V} {l} (h : Rep r l) : ∀ j (hj : j < l.length), r.slots (0 + j) = some l[j] := by
  intro j hj; simpa using h.slot hj

/-- `clear` (repaired): whatever happens, the map is empty and well-formed afterwards. -/
theorem clear_sat {s : St K V Q} {l : List (K × V)} (hr : Rep s.r l) :
    Sat (clear E) s
      (fun _ s' => Rep s'.r [] ∧ s'.r.cap = s.r.cap ∧ WRel s.w s'.w (dropTrace E l))
      (fun c s' => Rep s'.r [] ∧ s'.r.cap = s.r.cap ∧ InjPanic s s' c) := by
  unfold clear
  show Sat (getLen >>= _) s _ _
  refine Sat.bind (Q₁ := fun n s' => n = l.length ∧ s = s') (show Sat getLen s _ _ from ⟨hr.1, rfl⟩) ?_
  rintro _ _ ⟨rfl, rfl⟩
  refine Sat.bind (Sat.modS (Q := fun _ s' => s' = { s with r := { s.r with len := 0 } }) rfl) ?_
  rintro _ _ rfl
  refine Sat.mono (dropRange_sat E l 0 _ (hr.slots_at) (by simpa using hr.2.1)) ?_ ?_
  · intro _ s' ⟨g1, g2, _, _, g5⟩
    exact ⟨⟨g1, Nat.zero_le _, fun _ h => by simp at h⟩, g2, g5⟩
  · intro c s' ⟨g1, g2, _, g4⟩
    exact ⟨⟨g1, Nat.zero_le _, fun _ h => by simp at h⟩, g2, g4⟩

/-- `Drop for Map`: every live slot is dropped once, none is touched twice; never `ub`. -/
theorem dropMap_sat {s : St K V Q} {l : List (K × V)} (hr : Rep s.r l) :
    Sat (dropMap E) s
      (fun _ s' => s'.r.cap = s.r.cap ∧ (∀ j, j < l.length → s'.r.slots j = none) ∧
        (∀ j, l.length ≤ j → s'.r.slots j = s.r.slots j) ∧ WRel s.w s'.w (dropTrace E l))
      (fun c s' => s'.r.cap = s.r.cap ∧ (∀ j, l.length ≤ j → s'.r.slots j = s.r.slots j) ∧ InjPanic s s' c) := by
  unfold dropMap
  show Sat (getLen >>= _) s _ _
  refine Sat.bind (Q₁ := fun n s' => n = l.length ∧ s = s') (show Sat getLen s _ _ from ⟨hr.1, rfl⟩) ?_
  rintro _ _ ⟨rfl, rfl⟩
  refine Sat.mono (dropRange_sat E l 0 s (hr.slots_at) (by simpa using hr.2.1)) ?_ ?_
  · intro _ s' ⟨_, g2, g3, g4, g5⟩
    exact ⟨g2, fun j hj => g4 j (Nat.zero_le _) (by simpa using hj), fun j hj => g3 j (Or.inr (by simpa using hj)), g5⟩
  · intro c s' ⟨_, g2, g3, g4⟩
    exact ⟨g2, fun j hj => g3 j (Or.inr (by simpa using hj)), g4⟩

/-- `remove_index_drop` (repaired): compacts first, then drops the removed pair. -/
theorem remove_index_drop_sat {s : St K V Q} {l} (hr : Rep s.r l) {i} (hi : i < l.length) :
    Sat (remove_index_drop E i) s
      (fun _ s' => Rep s'.r (swapRemove l i) ∧ s'.r.cap = s.r.cap ∧
        WRel s.w s'.w (.dropK l[i].1 :: dropVTr E l[i].2))
      (fun c s' => Rep s'.r (swapRemove l i) ∧ s'.r.cap = s.r.cap ∧ InjPanic s s' c) := by
  unfold remove_index_drop
  refine Sat.bind (remove_index_read_sat hr hi) ?_
  intro p s1 ⟨h1, h2, h3, h4⟩
  subst h1
  refine Sat.cb_last (dropPair_cb E l[i]) ?_ ?_
  · intro _ s2 g1 g2 _; exact ⟨g1 ▸ h2, by rw [g1, h3], by simpa using h4.trans g2⟩
  · intro s2 tr' g1 g2 g3 g4
    exact ⟨g1 ▸ h2, by rw [g1, h3], (InjPanic.of_cb g2 g3 g4).after h4⟩

/-- `retain`: under any predicate (even one that changes its mind between calls) the loop stays
    inside the live prefix and leaves a well-formed map; for a predicate that is a function of the
    entry it computes `Dict.retainL`. -/
theorem retainLoop_sat (f : Nat → K → V → Bool × V) (f0 : K → V → Bool × V) :
    ∀ (fuel i : Nat) (s : St K V Q) (l : List (K × V)), Rep s.r l → i + fuel = l.length →
    Sat (retainLoop E f fuel i) s
      (fun _ s' => s'.r.cap = s.r.cap ∧ (∃ tr, WRel s.w s'.w tr) ∧ ∃ l', Rep s'.r l' ∧ l'.length ≤ l.length ∧
        ((∀ n k v, f n k v = f0 k v) → l' = Dict.retainL f0 fuel i l) ∧
        (∀ keq : K → K → Bool, EquivB keq → NodupKeys keq l → NodupKeys keq l'))
      (fun c s' => s'.r.cap = s.r.cap ∧ InjPanic s s' c ∧ ∃ l', Rep s'.r l' ∧ l'.length ≤ l.length ∧
        (∀ keq : K → K → Bool, EquivB keq → NodupKeys keq l → NodupKeys keq l'))
  | 0, i, s, l, hr, hfl => by
    unfold retainLoop
    show Sat (getLen >>= _) s _ _
    refine Sat.bind (Q₁ := fun n s' => n = l.length ∧ s = s') (show Sat getLen s _ _ from ⟨hr.1, rfl⟩) ?_
    rintro _ _ ⟨rfl, rfl⟩
    rw [if_neg (by omega)]
    exact Sat.pure ⟨rfl, ⟨_, WRel.refl _⟩, l, hr, Nat.le_refl _, fun _ => rfl, fun _ _ h => h⟩
  | fuel + 1, i, s, l, hr, hfl => by
    have hi : i < l.length := by omega
    unfold retainLoop
    show Sat (getLen >>= _) s _ _
    refine Sat.bind (Q₁ := fun n s' => n = l.length ∧ s = s') (show Sat getLen s _ _ from ⟨hr.1, rfl⟩) ?_
    rintro _ _ ⟨rfl, rfl⟩
    rw [if_pos hi]
    refine Sat.bind (Sat.of_ok (itemRef_ok (hr.cap_lt hi) (hr.slot hi)) (Q := fun p s' => p = l[i] ∧ s = s')
      ⟨rfl, rfl⟩) ?_
    rintro _ _ ⟨rfl, rfl⟩
    refine Sat.cb (callF_cb 0) ?_ ?_
    · intro _ s1 h1 h2 _
      have hr1 : Rep s1.r l := h1 ▸ hr
      refine Sat.getS_bind ?_
      generalize hres : f s1.w.calls l[i].1 l[i].2 = res
      obtain ⟨keep, v'⟩ := res
      simp only
      refine Sat.bind (Sat.of_ok (valueReplace_ok (s := s1) v' (hr1.cap_lt hi) (hr1.slot hi))
        (Q := fun _ s' => s' = { s1 with r := setSlot s1.r i (some (l[i].1, v')) }) rfl) ?_
      rintro _ _ rfl
      have hr2 : Rep (setSlot s1.r i (some (l[i].1, v'))) (l.set i (l[i].1, v')) := hr1.set hi _
      have hnset : ∀ keq : K → K → Bool, EquivB keq → NodupKeys keq l → NodupKeys keq (l.set i (l[i].1, v')) :=
        fun keq h hn => Dict.nodupKeys_set h hn hi _ _ (h.refl _)
      cases keep with
      | true =>
        simp only [if_true]
        refine Sat.mono (retainLoop_sat f f0 fuel (i + 1) _ _ hr2 (by simp; omega)) ?_ ?_
        · intro _ s3 ⟨g1, ⟨tr, g2⟩, l', g3, g4, g5, g6⟩
          refine ⟨by rw [g1]; simp [h1], ⟨_, h2.trans g2⟩, l', g3, by simpa using g4, fun hf => ?_,
            fun keq h hn => g6 keq h (hnset keq h hn)⟩
          rw [g5 hf]
          have : f0 l[i].1 l[i].2 = (true, v') := by rw [← hf s1.w.calls, hres]
          simp [Dict.retainL, List.getElem?_eq_getElem hi, this]
        · intro c s3 ⟨g1, g2, l', g3, g4, g6⟩
          exact ⟨by rw [g1]; simp [h1], g2.after h2, l', g3, by simpa using g4,
            fun keq h hn => g6 keq h (hnset keq h hn)⟩
      | false =>
        simp only [Bool.false_eq_true, if_false]
        have hi2 : i < (l.set i (l[i].1, v')).length := by simpa using hi
        refine Sat.bind (Sat.mono (remove_index_drop_sat E (s := { s1 with r := setSlot s1.r i (some (l[i].1, v')) })
          hr2 hi2) (fun _ _ h => h) ?_) ?_
        · intro c s3 ⟨g1, g2, g3⟩
          refine ⟨by rw [g2]; simp [h1], g3.after h2, _, g1, ?_,
            fun keq h hn => Dict.nodupKeys_swapRemove h (hnset keq h hn) hi2⟩
          rw [swapRemove_length' hi2]; simp
        · intro _ s3 ⟨g1, g2, g3⟩
          have hlen : (swapRemove (l.set i (l[i].1, v')) i).length = l.length - 1 := by
            rw [swapRemove_length' hi2]; simp
          refine Sat.mono (retainLoop_sat f f0 fuel i s3 _ g1 (by rw [hlen]; omega)) ?_ ?_
          · intro _ s4 ⟨k1, ⟨tr, k2⟩, l', k3, k4, k5, k6⟩
            refine ⟨by rw [k1, g2]; simp [h1], ⟨_, (h2.trans g3).trans k2⟩, l', k3, by omega, fun hf => ?_,
              fun keq h hn => k6 keq h (Dict.nodupKeys_swapRemove h (hnset keq h hn) hi2)⟩
            rw [k5 hf]
            have : f0 l[i].1 l[i].2 = (false, v') := by rw [← hf s1.w.calls, hres]
            simp [Dict.retainL, List.getElem?_eq_getElem hi, this]
          · intro c s4 ⟨k1, k2, l', k3, k4, k6⟩
            exact ⟨by rw [k1, g2]; simp [h1], k2.after (h2.trans g3), l', k3, by omega,
              fun keq h hn => k6 keq h (Dict.nodupKeys_swapRemove h (hnset keq h hn) hi2)⟩
    · intro s1 tr' h1 h2 h3 h4
      exact ⟨by rw [h1], InjPanic.of_cb h2 h3 h4, l, h1 ▸ hr, Nat.le_refl _, fun _ _ h => h⟩

theorem retain_sat (f : Nat → K → V → Bool × V) (f0 : K → V → Bool × V) {s : St K V Q} {l : List (K × V)}
    (hr : Rep s.r l) :
    Sat (retain E f) s
      (fun _ s' => s'.r.cap = s.r.cap ∧ (∃ tr, WRel s.w s'.w tr) ∧ ∃ l', Rep s'.r l' ∧ l'.length ≤ l.length ∧
        ((∀ n k v, f n k v = f0 k v) → l' = Dict.retainL f0 l.length 0 l) ∧
        (∀ keq : K → K → Bool, EquivB keq → NodupKeys keq l → NodupKeys keq l'))
      (fun c s' => s'.r.cap = s.r.cap ∧ InjPanic s s' c ∧ ∃ l', Rep s'.r l' ∧ l'.length ≤ l.length ∧
        (∀ keq : K → K → Bool, EquivB keq → NodupKeys keq l → NodupKeys keq l')) := by
  unfold retain
  show Sat (getLen >>= _) s _ _
  refine Sat.bind (Q₁ := fun n s' => n = l.length ∧ s = s') (show Sat getLen s _ _ from ⟨hr.1, rfl⟩) ?_
  rintro _ _ ⟨rfl, rfl⟩
  exact retainLoop_sat E f f0 l.length 0 s l hr (by simp)

end Micromap
