/-
`Deserialize` of an ARBITRARY token stream (entries in any order, repeated keys allowed — a
stream no `Serialize` of the crate writes, but any other producer may): the visitor loop
`while let Some((k, v)) = access.next_entry()? { m.insert(k, v); }` holds exactly the fold of
single inserts (`FromIter.foldInsert`) of the decoded copies of the entries, in stream order;
when the distinct keys do not fit it panics with the overflow class at the first surplus entry.
-/
import Micromap.Proofs.Serde
import Micromap.Proofs.FromIter
import Micromap.Proofs.OwnAlg

namespace Micromap.Serde
open SetAlg Dict EqClone FromIter
variable {K V Q : Type} (E : Env K V Q)

/-! ### the decoded copies of a stream of entries -/

/-- how far one entry advances the fresh-object counter: the key always, the value only when
    `V` is not `()` (`decodeV`). -/
def decStep : Nat := if E.vGlue then 2 else 1

/-- `V::deserialize` at counter `n`: a fresh copy, or the value itself for `V = ()`. -/
def decV (n : Nat) (v : V) : V := if E.vGlue then E.clV n v else v

/-- the decoded copies of the entries `xs`, the fresh-object counter standing at `n` when the
    first entry is decoded: key at `n`, value (if any) at `n + 1`, next entry at `n + decStep`. -/
def decodedFrom : Nat → List (K × V) → List (K × V)
  | _, [] => []
  | n, (k, v) :: rest => (E.clK n k, decV E (n + 1) v) :: decodedFrom (n + decStep E) rest

/-- the state after `decodeK` and `decodeV` of one entry: only the counter moved. -/
def afterDec (s : St K V Q) : St K V Q :=
  ⟨s.r, { s.w with nextId := s.w.nextId + decStep E }⟩

theorem decodedFrom_length : ∀ (n : Nat) (xs : List (K × V)), (decodedFrom E n xs).length = xs.length
  | _, [] => rfl
  | n, (_, _) :: rest => by simp [decodedFrom, decodedFrom_length (n + decStep E) rest]

/-- entry `i` of the decoded list: the copies made at counters `n + i * decStep` (key) and the next
    one (value). -/
theorem decodedFrom_getElem : ∀ (xs : List (K × V)) (n i : Nat) (hi : i < xs.length),
    (decodedFrom E n xs)[i]'(by rw [decodedFrom_length]; exact hi) =
      (E.clK (n + i * decStep E) xs[i].1, decV E (n + i * decStep E + 1) xs[i].2)
  | (k, v) :: rest, n, 0, _ => by simp [decodedFrom]
  | (k, v) :: rest, n, i + 1, hi => by
    have := decodedFrom_getElem rest (n + decStep E) i (by simpa using hi)
    simp only [decodedFrom, List.getElem_cons_succ, this]
    rw [Nat.succ_mul, Nat.add_assoc, Nat.add_comm (decStep E)]

/-- decoding the key and the value of one entry in front of a continuation. -/
theorem decode_pair {α : Type} (k : K) (v : V) (f : K → V → SM K V Q α) (s : St K V Q) :
    (decodeK E k >>= fun k' => decodeV E v >>= fun v' => f k' v') s =
      f (E.clK s.w.nextId k) (decV E (s.w.nextId + 1) v) (afterDec E s) := by
  simp only [bind_apply, decodeK_ok]
  unfold decodeV decV afterDec decStep
  cases h : E.vGlue with
  | true => rfl
  | false => rfl

theorem afterDec_wrel (s : St K V Q) : WRel s.w (afterDec E s).w [] :=
  ⟨rfl, rfl, id, by simp [World.trace, afterDec]⟩

/-- one round of the visitor loop, in terms of the outcome of `insert` on the decoded pair. -/
theorem visitLoop_entry (k : K) (v : V) (rest : List (Tok K V)) (s : St K V Q) :
    visitLoop E (.entry k v :: rest) s =
      (insert E (E.clK s.w.nextId k) (decV E (s.w.nextId + 1) v) >>= fun o =>
        match o with
          | some old => dropV E old >>= fun _ => visitLoop E rest
          | none => visitLoop E rest) (afterDec E s) := by
  rw [← decode_pair E k v (fun k' v' => insert E k' v' >>= fun o =>
        match o with
          | some old => dropV E old >>= fun _ => visitLoop E rest
          | none => visitLoop E rest) s]
  conv => lhs; unfold visitLoop
  rfl

theorem overflowAt_cons_none {cap : Nat} {l : List (K × V)} {k : K} {v : V} {rest : List (K × V)}
    (h : overflowAt E cap l ((k, v) :: rest) = none) :
    ¬ (findKey E l (.key k) = none ∧ cap ≤ l.length) ∧ overflowAt E cap (insertL E l k v) rest = none := by
  unfold overflowAt at h
  by_cases hc : findKey E l (.key k) = none ∧ cap ≤ l.length
  · rw [if_pos hc] at h; cases h
  · rw [if_neg hc] at h; exact ⟨hc, by simpa using h⟩

theorem overflowAt_cons_some {cap : Nat} {l : List (K × V)} {k : K} {v : V} {rest : List (K × V)} {m : Nat}
    (h : overflowAt E cap l ((k, v) :: rest) = some m) :
    (m = 0 ∧ findKey E l (.key k) = none ∧ cap ≤ l.length) ∨
    (∃ m', m = m' + 1 ∧ ¬ (findKey E l (.key k) = none ∧ cap ≤ l.length) ∧
      overflowAt E cap (insertL E l k v) rest = some m') := by
  unfold overflowAt at h
  by_cases hc : findKey E l (.key k) = none ∧ cap ≤ l.length
  · rw [if_pos hc] at h; cases h; exact Or.inl ⟨rfl, hc⟩
  · rw [if_neg hc] at h
    cases h' : overflowAt E cap (insertL E l k v) rest with
    | none => rw [h'] at h; cases h
    | some m' => rw [h'] at h; cases h; exact Or.inr ⟨m', rfl, hc, rfl⟩

/-- what one successful `m.insert(k', v');` of the visitor establishes (benign world, pure `==`,
    the item does not overflow): the container holds `insertL`, the effects are `itemTrace`, the
    counter does not move. -/
theorem visit_item (hE : E.Pure) {s : St K V Q} {l : List (K × V)} (hr : Rep s.r l) (hb : Benign s.w)
    (k : K) (v : V) (kont : SM K V Q Unit)
    (hfit : ¬ (findKey E l (.key k) = none ∧ s.r.cap ≤ l.length)) :
    ∃ s2, (insert E k v >>= fun o =>
        match o with
          | some old => dropV E old >>= fun _ => kont
          | none => kont) s = kont s2 ∧
      Rep s2.r (insertL E l k v) ∧ s2.r.cap = s.r.cap ∧ WRel s.w s2.w (itemTrace E l k v) ∧
      s2.w.nextId = s.w.nextId := by
  obtain ⟨o, s1, hi, hcap, hcase⟩ := (insert_sat E hr k v).must_return (by
    intro c s' ⟨_, hc⟩
    rcases hc with ⟨hinj, _⟩ | ⟨_, _, hfull, hnone, _⟩
    · exact Refine.no_inj hb hinj
    · exact hfit ⟨hnone hE, by omega⟩)
  have hf1 := OwnSys.frameN_insert E k v s
  rw [hi] at hf1
  rcases hcase with ⟨i, hil, hres, hrep, hw, hfind⟩ | ⟨hres, _, hrep, hw, hfind⟩
  · subst hres
    obtain ⟨_, s2, hd, hr2, hw2, _⟩ := (dropV_cb E l[i].2 s1).must_return (by
      intro c s' ⟨_, _, hinj, _⟩
      exact hinj (hw.benign hb).1)
    have hf2 := OwnSys.frameN_dropV E l[i].2 s1
    rw [hd] at hf2
    refine ⟨s2, ?_, ?_, by rw [hr2, hcap], ?_, hf2.trans hf1⟩
    · simp only [bind_apply, hi, hd]
    · rw [insertL_found E v (hfind hE) hil, hr2]; exact hrep
    · rw [itemTrace_found E v (hfind hE) hil]; exact hw.trans hw2
  · subst hres
    refine ⟨s1, ?_, ?_, hcap, ?_, hf1⟩
    · simp only [bind_apply, hi]
    · rw [insertL_absent E v (hfind hE)]; exact hrep
    · rw [itemTrace_absent E v (hfind hE)]; exact hw

/-- **the visitor loop = inserting the decoded entries one by one.**  Benign world,
    time-independent `==`, container holding `l0`, no decoded entry overflows: the loop returns and
    the container holds EXACTLY `foldInsert E l0 (decodedFrom E n xs)`; the effects are those of the
    single inserts (for a repeated key: drop of the decoded key, then of the displaced value); the
    counter has advanced by one `decStep` per entry. -/
theorem visitLoop_eq_fold (hE : E.Pure) : ∀ (xs : List (K × V)) (s : St K V Q) (l0 : List (K × V)) (n : Nat),
    s.w.nextId = n → Rep s.r l0 → Benign s.w →
    overflowAt E s.r.cap l0 (decodedFrom E n xs) = none →
    ∃ s', visitLoop E (xs.map (fun p => Tok.entry p.1 p.2) ++ [.fin]) s = .ok () s' ∧
      Rep s'.r (foldInsert E l0 (decodedFrom E n xs)) ∧ s'.r.cap = s.r.cap ∧
      WRel s.w s'.w (itemsTrace E false l0 (decodedFrom E n xs)) ∧
      s'.w.nextId = n + xs.length * decStep E
  | [], s, l0, n, hn, hr, _, _ => ⟨s, rfl, hr, rfl, WRel.refl _, by simpa using hn⟩
  | (k, v) :: rest, s, l0, n, hn, hr, hb, hfit => by
    subst hn
    obtain ⟨hfit0, hfit1⟩ := overflowAt_cons_none E hfit
    have hr0 : Rep (afterDec E s).r l0 := hr
    have hb0 : Benign (afterDec E s).w := hb
    obtain ⟨s2, hstep, hr2, hcap2, hw2, hn2⟩ := visit_item E hE hr0 hb0 (E.clK s.w.nextId k)
      (decV E (s.w.nextId + 1) v) (visitLoop E (rest.map (fun p => Tok.entry p.1 p.2) ++ [.fin])) hfit0
    have hcap2' : s2.r.cap = s.r.cap := hcap2
    have hb2 : Benign s2.w := hw2.benign hb0
    obtain ⟨s', h1, h2, h3, h4, h5⟩ := visitLoop_eq_fold hE rest s2 _ (s.w.nextId + decStep E) hn2 hr2 hb2
      (by rw [hcap2']; exact hfit1)
    refine ⟨s', ?_, h2, h3.trans hcap2', ?_, ?_⟩
    · simp only [List.map_cons, List.cons_append]
      rw [visitLoop_entry, hstep]; exact h1
    · exact ((afterDec_wrel E s).trans hw2).trans' h4 (by simp [decodedFrom, itemsTrace, pullTr])
    · rw [h5, List.length_cons, Nat.succ_mul]; omega

/-! ### overflow: more distinct keys than capacity -/

/-- the `insert` of a surplus entry (key absent, container full): it unwinds with the overflow
    class of the build profile, container untouched, both decoded objects dropped. -/
theorem visit_item_overflow (hE : E.Pure) {s : St K V Q} {l : List (K × V)} (hr : Rep s.r l)
    (hb : Benign s.w) (k : K) (v : V) (kont : SM K V Q Unit)
    (hov : findKey E l (.key k) = none ∧ s.r.cap ≤ l.length) :
    ∃ c s2, (insert E k v >>= fun o =>
        match o with
          | some old => dropV E old >>= fun _ => kont
          | none => kont) s = .panic c s2 ∧
      OverflowPanic s c ∧ s2.r = s.r ∧ WRel s.w s2.w (dropVTr E v ++ [.dropK k]) := by
  obtain ⟨c, s2, hi, _, hcase⟩ := (insert_sat E hr k v).must_panic (by
    intro o s' ⟨_, hc⟩
    rcases hc with ⟨i, _, _, _, _, hfind⟩ | ⟨_, hroom, _⟩
    · have := hfind hE
      rw [hov.1] at this; cases this
    · omega)
  rcases hcase with ⟨hinj, _⟩ | ⟨hrr, ho, _, _, hw⟩
  · exact (Refine.no_inj hb hinj).elim
  · exact ⟨c, s2, by simp only [bind_apply, hi], ho, hrr, hw⟩

/-- **overflow of the visitor loop.**  If decoded entry `m` is the first surplus one, the loop
    unwinds with the overflow class at exactly that entry: the container holds the fold of the
    decoded entries before it, and the surplus entry's value and key have been dropped. -/
theorem visitLoop_overflow (hE : E.Pure) : ∀ (xs : List (K × V)) (s : St K V Q) (l0 : List (K × V))
    (n m : Nat), s.w.nextId = n → Rep s.r l0 → Benign s.w →
    overflowAt E s.r.cap l0 (decodedFrom E n xs) = some m →
    ∃ c s' k v, visitLoop E (xs.map (fun p => Tok.entry p.1 p.2) ++ [.fin]) s = .panic c s' ∧
      OverflowPanic s c ∧ (decodedFrom E n xs)[m]? = some (k, v) ∧
      Rep s'.r (foldInsert E l0 ((decodedFrom E n xs).take m)) ∧ s'.r.cap = s.r.cap ∧
      WRel s.w s'.w (itemsTrace E false l0 ((decodedFrom E n xs).take m) ++
        (dropVTr E v ++ [.dropK k]))
  | [], s, l0, n, m, _, _, _, hov => by simp [decodedFrom, overflowAt] at hov
  | (k, v) :: rest, s, l0, n, m, hn, hr, hb, hov => by
    subst hn
    have hr0 : Rep (afterDec E s).r l0 := hr
    have hb0 : Benign (afterDec E s).w := hb
    rcases overflowAt_cons_some E hov with ⟨rfl, hnone, hfull⟩ | ⟨m', rfl, hfit0, hov1⟩
    · obtain ⟨c, s2, hstep, ho, hrr, hw⟩ := visit_item_overflow E hE hr0 hb0 (E.clK s.w.nextId k)
        (decV E (s.w.nextId + 1) v) (visitLoop E (rest.map (fun p => Tok.entry p.1 p.2) ++ [.fin]))
        ⟨hnone, hfull⟩
      refine ⟨c, s2, E.clK s.w.nextId k, decV E (s.w.nextId + 1) v, ?_, ho, rfl, ?_, by rw [hrr]; rfl, ?_⟩
      · simp only [List.map_cons, List.cons_append]
        rw [visitLoop_entry, hstep]
      · rw [hrr]; exact hr
      · exact (afterDec_wrel E s).trans' hw (by simp [itemsTrace])
    · obtain ⟨s2, hstep, hr2, hcap2, hw2, hn2⟩ := visit_item E hE hr0 hb0 (E.clK s.w.nextId k)
        (decV E (s.w.nextId + 1) v) (visitLoop E (rest.map (fun p => Tok.entry p.1 p.2) ++ [.fin])) hfit0
      have hcap2' : s2.r.cap = s.r.cap := hcap2
      have hb2 : Benign s2.w := hw2.benign hb0
      have hw02 := (afterDec_wrel E s).trans hw2
      obtain ⟨c, s', k1, v1, h1, h2, h3, h4, h5, h6⟩ := visitLoop_overflow hE rest s2 _
        (s.w.nextId + decStep E) m' hn2 hr2 hb2 (by rw [hcap2']; exact hov1)
      refine ⟨c, s', k1, v1, ?_, OverflowPanic.after hw02 h2, by simpa [decodedFrom] using h3, h4,
        h5.trans hcap2', ?_⟩
      · simp only [List.map_cons, List.cons_append]
        rw [visitLoop_entry, hstep]; exact h1
      · exact hw02.trans' h6 (by simp [decodedFrom, itemsTrace, pullTr])

/-! ### `Deserialize` on a fresh local -/

/-- **deserialization of an arbitrary entry stream = inserting the decoded entries one by one
    into `new()`.**  `fits` is stated as for `from_iter` (`C16.from_iter_eq_fold`): no decoded
    entry overflows. -/
theorem deserialize_eq_fold (hE : E.Pure) (a : Option Nat) (xs : List (K × V)) (cap : Nat)
    (w : World K V Q) (hb : Benign w)
    (hfit : overflowAt E cap [] (decodedFrom E w.nextId xs) = none) :
    ∃ s', deserializeInto E (.start a :: xs.map (fun p => Tok.entry p.1 p.2) ++ [.fin]) ⟨Raw.new cap, w⟩ =
        .ok () s' ∧
      Rep s'.r (foldInsert E [] (decodedFrom E w.nextId xs)) ∧ s'.r.cap = cap ∧
      WRel w s'.w (itemsTrace E false [] (decodedFrom E w.nextId xs)) ∧
      s'.w.nextId = w.nextId + xs.length * decStep E := by
  obtain ⟨s', h1, h2, h3, h4, h5⟩ := visitLoop_eq_fold E hE xs ⟨Raw.new cap, w⟩ [] w.nextId rfl
    (Rep.new cap) hb hfit
  refine ⟨s', ?_, h2, h3, h4, h5⟩
  have hdef : deserializeInto E (.start a :: xs.map (fun p => Tok.entry p.1 p.2) ++ [.fin]) =
      Micromap.unwindWith (dropMap E) (visitLoop E (xs.map (fun p => Tok.entry p.1 p.2) ++ [.fin])) := rfl
  rw [hdef]
  unfold Micromap.unwindWith
  rw [h1]

/-- **overflow.**  If decoded entry `m` is the first surplus one, deserialization unwinds with the
    overflow class, and the partially built local (the fold of the decoded entries before it) has
    been dropped — each of its entries exactly once, after the effects of the loop. -/
theorem deserialize_overflow' (hE : E.Pure) (a : Option Nat) (xs : List (K × V)) (cap : Nat)
    (w : World K V Q) (hb : Benign w) {m : Nat}
    (hov : overflowAt E cap [] (decodedFrom E w.nextId xs) = some m) :
    ∃ c s' k v, deserializeInto E (.start a :: xs.map (fun p => Tok.entry p.1 p.2) ++ [.fin]) ⟨Raw.new cap, w⟩ =
        .panic c s' ∧
      OverflowPanic (⟨Raw.new cap, w⟩ : St K V Q) c ∧ (decodedFrom E w.nextId xs)[m]? = some (k, v) ∧
      Dropped s'.r (foldInsert E [] ((decodedFrom E w.nextId xs).take m)) ∧ s'.r.cap = cap ∧
      WRel w s'.w ((itemsTrace E false [] ((decodedFrom E w.nextId xs).take m) ++
        (dropVTr E v ++ [.dropK k])) ++ dropTrace E (foldInsert E [] ((decodedFrom E w.nextId xs).take m))) := by
  obtain ⟨c, s1, k, v, h1, h2, h3, h4, h5, h6⟩ := visitLoop_overflow E hE xs ⟨Raw.new cap, w⟩ [] w.nextId m rfl
    (Rep.new cap) hb hov
  obtain ⟨_, s2, hd, g1, g2, _, g4⟩ := (cleanup_dropMap E h4).must_return (fun _ _ h => h)
  refine ⟨c, _, k, v, ?_, h2, h3, g2, g1.trans h5, h6.trans g4⟩
  have hdef : deserializeInto E (.start a :: xs.map (fun p => Tok.entry p.1 p.2) ++ [.fin]) =
      Micromap.unwindWith (dropMap E) (visitLoop E (xs.map (fun p => Tok.entry p.1 p.2) ++ [.fin])) := rfl
  rw [hdef]
  unfold Micromap.unwindWith
  rw [h1]
  simp only [hd]

/-! ### "fits" = the fold (the distinct keys) is no longer than the capacity -/

theorem le_foldInsert_length : ∀ (xs l : List (K × V)), l.length ≤ (foldInsert E l xs).length
  | [], _ => Nat.le_refl _
  | (k, v) :: rest, l => by
    rw [foldInsert_cons]
    refine Nat.le_trans ?_ (le_foldInsert_length rest _)
    rw [insertL_length]; split <;> omega

/-- no entry overflows iff the fold of all entries fits (for an initially fitting container). -/
theorem overflowAt_none_of_fold_le (cap : Nat) : ∀ (xs l : List (K × V)),
    (foldInsert E l xs).length ≤ cap → overflowAt E cap l xs = none
  | [], _, _ => rfl
  | (k, v) :: rest, l, h => by
    rw [foldInsert_cons] at h
    have hstep : ¬ (findKey E l (.key k) = none ∧ cap ≤ l.length) := by
      intro ⟨hf, hc⟩
      have h1 := le_foldInsert_length E rest (insertL E l k v)
      rw [insertL_absent E v hf] at h h1
      simp at h1
      omega
    unfold overflowAt
    rw [if_neg hstep, overflowAt_none_of_fold_le cap rest _ h]; rfl

theorem overflowAt_none_iff_fold_le (cap : Nat) (xs : List (K × V)) :
    overflowAt E cap [] xs = none ↔ (foldInsert E [] xs).length ≤ cap :=
  ⟨foldInsert_length_le_cap E cap xs [] (Nat.zero_le _), overflowAt_none_of_fold_le E cap xs []⟩

theorem overflowAt_some_of_lt_fold (cap : Nat) (xs : List (K × V))
    (h : cap < (foldInsert E [] xs).length) : ∃ m, overflowAt E cap [] xs = some m := by
  cases ho : overflowAt E cap [] xs with
  | some m => exact ⟨m, rfl⟩
  | none =>
    have := (overflowAt_none_iff_fold_le E cap xs).1 ho
    omega

/-! ### lawful `==`, decoding respects it: the decoded keys behave as the original ones -/

/-- a decoded key answers every key test as the original does. -/
theorem keq_decoded {E : Env K V Q} (hE : E.Lawful) (hk : ∀ n k, E.keq (E.clK n k) k = true)
    (n : Nat) (k q : K) : E.keq (E.clK n k) q = E.keq k q := by
  rw [hE.symm (E.clK n k) q, hE.symm k q]
  exact keq_congr_right hE.equivB (hk n k) q

/-- position by position, the decoded entries answer a key test as the stream entries do. -/
theorem decodedFrom_keq {E : Env K V Q} (hE : E.Lawful) (hk : ∀ n k, E.keq (E.clK n k) k = true)
    (q : K) : ∀ (xs : List (K × V)) (n : Nat),
    (decodedFrom E n xs).map (fun p => E.keq p.1 q) = xs.map (fun p => E.keq p.1 q)
  | [], _ => rfl
  | (k, v) :: rest, n => by
    simp only [decodedFrom, List.map_cons, keq_decoded hE hk, decodedFrom_keq hE hk q rest]

/-- every decoded key is a copy of a stream key. -/
theorem decodedFrom_key_mem {E : Env K V Q} (hk : ∀ n k, E.keq (E.clK n k) k = true) :
    ∀ (xs : List (K × V)) (n : Nat) (x : K), x ∈ (decodedFrom E n xs).map (·.1) →
      ∃ k, k ∈ xs.map (·.1) ∧ E.keq x k = true
  | [], _, _, h => by simp [decodedFrom] at h
  | (k, v) :: rest, n, x, h => by
    simp only [decodedFrom, List.map_cons, List.mem_cons] at h
    rcases h with rfl | h
    · exact ⟨k, by simp, hk n k⟩
    · obtain ⟨k', h1, h2⟩ := decodedFrom_key_mem hk rest _ x h
      exact ⟨k', by simp only [List.map_cons, List.mem_cons]; exact Or.inr h1, h2⟩

/-- every stream key has a decoded copy. -/
theorem decodedFrom_key_mem' {E : Env K V Q} (hk : ∀ n k, E.keq (E.clK n k) k = true) :
    ∀ (xs : List (K × V)) (n : Nat) (k : K), k ∈ xs.map (·.1) →
      ∃ x, x ∈ (decodedFrom E n xs).map (·.1) ∧ E.keq x k = true
  | [], _, _, h => by simp at h
  | (k0, v) :: rest, n, k, h => by
    simp only [List.map_cons, List.mem_cons] at h
    rcases h with rfl | h
    · exact ⟨E.clK n k, by simp [decodedFrom], hk n k⟩
    · obtain ⟨x, h1, h2⟩ := decodedFrom_key_mem' hk rest (n + decStep E) k h
      exact ⟨x, by simp only [decodedFrom, List.map_cons, List.mem_cons]; exact Or.inr h1, h2⟩

/-- a cover of the stream keys covers the decoded keys. -/
theorem decoded_cover {E : Env K V Q} (hE : E.Lawful) (hk : ∀ n k, E.keq (E.clK n k) k = true)
    (xs : List (K × V)) (n : Nat) (d : List K)
    (hd : ∀ x, x ∈ xs.map (·.1) → memB E.keq x d = true) :
    ∀ x, x ∈ (decodedFrom E n xs).map (·.1) → memB E.keq x d = true := by
  intro x hx
  obtain ⟨k, h1, h2⟩ := decodedFrom_key_mem hk xs n x hx
  rw [memB_congr hE.equivB h2]; exact hd k h1

/-- representatives found among the stream keys are found among the decoded keys. -/
theorem decoded_cover' {E : Env K V Q} (hE : E.Lawful) (hk : ∀ n k, E.keq (E.clK n k) k = true)
    (xs : List (K × V)) (n : Nat) (y : K) (hy : memB E.keq y (xs.map (·.1)) = true) :
    memB E.keq y ((decodedFrom E n xs).map (·.1)) = true := by
  rw [memB_eq_true] at hy ⊢
  obtain ⟨k, h1, h2⟩ := hy
  obtain ⟨x, h3, h4⟩ := decodedFrom_key_mem' hk xs n k h1
  exact ⟨x, h3, hE.trans _ _ _ h4 h2⟩

/-- the last element satisfying `P`, by index. -/
theorem find?_reverse_last {α : Type} (P : α → Bool) : ∀ (ys : List α) (i : Nat) (hi : i < ys.length),
    P ys[i] = true → (∀ j (hj : j < ys.length), i < j → P ys[j] = false) →
    ys.reverse.find? P = some ys[i]
  | y :: t, 0, _, hP, hlast => by
    have hnone : t.reverse.find? P = none := by
      rw [List.find?_eq_none]
      intro x hx
      obtain ⟨j, hj, rfl⟩ := List.mem_iff_getElem.1 (List.mem_reverse.1 hx)
      have := hlast (j + 1) (by simpa using hj) (Nat.succ_pos _)
      simpa using this
    have hP' : P y = true := hP
    simp [List.find?_append, hnone, hP']
  | y :: t, i + 1, hi, hP, hlast => by
    have ih := find?_reverse_last P t i (by simpa using hi) (by simpa using hP)
      (fun j hj hij => by
        have := hlast (j + 1) (by simpa using hj) (by omega)
        simp only [List.getElem_cons_succ] at this
        exact this)
    simp [List.find?_append, ih]

end Micromap.Serde
