/-
System level: the invariant of all registers is preserved by `step`, hence by `run`, for every
history of safe operations — under ANY user equality, with ANY injected panic, in either profile.
This is the common core of C02 (no `ub`: no dead slot is ever read, compared, returned or
dropped), C04 (exception safety), C05 (well-formedness) and C17 (lying `Eq`).
-/
import Micromap.Proofs.StepInvEntry

namespace Micromap
open SetAlg Dict
variable {K V Q : Type} (E : Env K V Q)

/-- a computation run on a scratch local that is dropped on unwinding (`from_iter`, `clone`,
    `&a - &b`): if it returns the local satisfies the invariant; it never reaches `ub`. -/
theorem scratch_sat {body : SM K V Q Unit} (hb : OpInv E body) {s : St K V Q} (hs : Inv E s.r) :
    Sat (Micromap.unwindWith (dropMap E) body) s (fun _ s' => Inv E s'.r ∧ s'.r.cap = s.r.cap)
      (fun _ _ => True) := by
  refine Sat.unwindWith (hb s hs) ?_
  intro c s' ⟨hI, _⟩
  obtain ⟨l, hr, _⟩ := hI
  have hr' : Rep (s'.setUnw true).r l := hr
  refine Sat.mono (dropMap_sat E hr') (fun _ _ _ => trivial) ?_
  intro c' s'' ⟨_, _, hinj⟩
  have := hinj.2.2.1
  simp at this

theorem Env.Good.toUnit {E : Env K V Q} (h : E.Good) : E.toUnit.Good := by
  obtain ⟨hl, hc⟩ := h
  exact ⟨⟨⟨hl.k, hl.q⟩, hl.refl, hl.symm, hl.trans, hl.borrow, hl.qrefl, hl.qsymm, hl.qtrans⟩, hc⟩

/-- `clone()` into a fresh local. -/
theorem cloneInto_inv {src : Raw K V} (hsrc : Inv E src) (w : World K V Q) :
    Sat (cloneInto E src) ⟨Raw.new src.cap, w⟩ (fun _ s' => Inv E s'.r ∧ s'.r.cap = src.cap)
      (fun _ _ => True) := by
  obtain ⟨l, hr, hn⟩ := hsrc
  refine Sat.mono (EqClone.cloneInto_sat E hr (s := ⟨Raw.new src.cap, w⟩) (EqClone.Fresh.new _) rfl) ?_
    (fun _ _ _ => trivial)
  intro _ s' ⟨hc, l', hf, hcl, _⟩
  exact ⟨⟨l', hf.1, fun hg => EqClone.ClonesOf.nodupKeys hg.1 hg.2 hcl (hn hg)⟩, hc⟩

/-- the loop of `&a - &b`. -/
theorem opInv_subLoop (F : Env K Unit Q) {a b : Raw K Unit} {la lb : List (K × Unit)} (hra : Rep a la)
    (hrb : Rep b lb) : ∀ (n : Nat) (it : SliceIt), it.hi ≤ la.length → OpInv F (subLoop F a b n it)
  | 0, _, _ => OpInv.pure ()
  | n + 1, it, hit => by
    unfold subLoop
    intro s hs
    refine Sat.bind (Sat.mono (Alg.filtNext_quiet F hra hrb false it hit s) (fun _ _ h => h) ?_) ?_
    · intro c s' ⟨h1, _⟩; exact ⟨h1 ▸ hs, by rw [h1]⟩
    · intro res s1 ⟨h1, _, h3, _⟩
      obtain ⟨o, it'⟩ := res
      have hs1 : Inv F s1.r := h1 ▸ hs
      have hc1 : s1.r.cap = s.r.cap := by rw [h1]
      cases o with
      | none => exact Sat.pure ⟨hs1, hc1⟩
      | some x =>
        obtain ⟨j, k⟩ := x
        have hrest : OpInv F (do
            let k' ← cloneK F k
            let _ ← insert F k' ()
            subLoop F a b n it') := by
          refine OpInv.bind (OpInv.of_cb (EqClone.cloneK_cb F k)) (fun k' => ?_)
          exact OpInv.bind (opInv_insert F k' ()) (fun _ => opInv_subLoop F hra hrb n it' (by
            have : it'.hi = it.hi := h3; omega))
        refine Sat.mono (hrest s1 hs1) ?_ ?_
        · intro _ s2 ⟨g1, g2⟩; exact ⟨g1, g2.trans hc1⟩
        · intro _ s2 ⟨g1, g2⟩; exact ⟨g1, g2.trans hc1⟩

theorem subInto_inv (F : Env K Unit Q) {a b : Raw K Unit} (ha : Inv F a) (hb : Inv F b)
    (w : World K Unit Q) :
    Sat (subInto F a b) ⟨Raw.new a.cap, w⟩ (fun _ s' => Inv F s'.r ∧ s'.r.cap = a.cap) (fun _ _ => True) := by
  obtain ⟨la, hra, _⟩ := ha
  obtain ⟨lb, hrb, _⟩ := hb
  unfold subInto
  refine scratch_sat F (s := ⟨Raw.new a.cap, w⟩) ?_ (Inv.new F _)
  intro s hs
  have hstart : iterStartR a s = .ok ⟨0, la.length⟩ s := Alg.iterStartR_eq hra s
  refine Sat.bind (Sat.of_ok hstart (Q := fun it s' => it = ⟨0, la.length⟩ ∧ s = s') ⟨rfl, rfl⟩) ?_
  rintro _ _ ⟨rfl, rfl⟩
  exact opInv_subLoop F hra hrb _ _ (Nat.le_refl _) s hs

/-! ### registers -/

/-- all registers satisfy the invariant (set registers w.r.t. the `V = ()` instance of the
    user code). -/
def SysInv (sys : Sys K V Q) : Prop :=
  (∀ i, Inv E (sys.maps i)) ∧ (∀ i, Inv E.toUnit (sys.sets i))

theorem SysInv.init (capM capS : Nat → Nat) (w : World K V Q) : SysInv E (Sys.init capM capS w) :=
  ⟨fun _ => Inv.new E _, fun _ => Inv.new _ _⟩

theorem inv_updReg {α : Type} {P : α → Prop} {f : Nat → α} (hf : ∀ i, P (f i)) (i : Nat) {x : α} (hx : P x) :
    ∀ j, P (updReg f i x j) := by
  intro j; unfold updReg; split
  · exact hx
  · exact hf j

/-- outcome of a system-level computation: not `ub`, and the invariant holds afterwards. -/
def ResInv {α : Type} (r : Res (Sys K V Q) α) : Prop :=
  match r with
  | .ok _ s => SysInv E s
  | .panic _ s => SysInv E s
  | .ub => False

theorem runOnMap_inv {α : Type} {m : SM K V Q α} (hm : OpInv E m) {sys : Sys K V Q} (hs : SysInv E sys)
    (i : Nat) : ResInv E (runOnMap sys i m) := by
  have h := hm ⟨sys.maps i, sys.w⟩ (hs.1 i)
  unfold Sat at h
  unfold runOnMap ResInv
  cases hr : m ⟨sys.maps i, sys.w⟩ with
  | ok a s => rw [hr] at h; exact ⟨inv_updReg hs.1 i h.1, hs.2⟩
  | panic c s => rw [hr] at h; exact ⟨inv_updReg hs.1 i h.1, hs.2⟩
  | ub => rw [hr] at h; exact h

theorem runOnSet_inv {α : Type} {m : SM K Unit Q α} (hm : OpInv E.toUnit m) {sys : Sys K V Q}
    (hs : SysInv E sys) (i : Nat) : ResInv E (runOnSet sys i m) := by
  have h := hm ⟨sys.sets i, sys.w.toUnit⟩ (hs.2 i)
  unfold Sat at h
  unfold runOnSet ResInv
  cases hr : m ⟨sys.sets i, sys.w.toUnit⟩ with
  | ok a s => rw [hr] at h; exact ⟨hs.1, inv_updReg hs.2 i h.1⟩
  | panic c s => rw [hr] at h; exact ⟨hs.1, inv_updReg hs.2 i h.1⟩
  | ub => rw [hr] at h; exact h

theorem assignMap_inv {sys : Sys K V Q} (hs : SysInv E sys) (dst cap : Nat) {build : SM K V Q Unit}
    (hb : ∀ w, Sat build ⟨Raw.new cap, w⟩ (fun _ s' => Inv E s'.r) (fun _ _ => True)) :
    ResInv E (assignMap E sys dst cap build) := by
  have h := hb sys.w
  unfold Sat at h
  unfold assignMap ResInv
  cases hr : build ⟨Raw.new cap, sys.w⟩ with
  | ub => rw [hr] at h; exact h
  | panic c s => exact ⟨hs.1, hs.2⟩
  | ok a s =>
    rw [hr] at h
    obtain ⟨l, hrep, _⟩ := hs.1 dst
    have hd := dropAndRenew_sat E (s := ⟨sys.maps dst, s.w⟩) hrep
    unfold Sat at hd
    simp only
    cases hdr : dropAndRenew E ⟨sys.maps dst, s.w⟩ with
    | ub => rw [hdr] at hd; exact hd
    | panic c s' => exact ⟨inv_updReg hs.1 dst h, hs.2⟩
    | ok a' s' => exact ⟨inv_updReg hs.1 dst h, hs.2⟩

theorem assignSet_inv {sys : Sys K V Q} (hs : SysInv E sys) (dst cap : Nat) {build : SM K Unit Q Unit}
    (hb : ∀ w, Sat build ⟨Raw.new cap, w⟩ (fun _ s' => Inv E.toUnit s'.r) (fun _ _ => True)) :
    ResInv E (assignSet E sys dst cap build) := by
  have h := hb sys.w.toUnit
  unfold Sat at h
  unfold assignSet ResInv
  cases hr : build ⟨Raw.new cap, sys.w.toUnit⟩ with
  | ub => rw [hr] at h; exact h
  | panic c s => exact ⟨hs.1, hs.2⟩
  | ok a s =>
    rw [hr] at h
    obtain ⟨l, hrep, _⟩ := hs.2 dst
    have hd := dropAndRenew_sat E.toUnit (s := ⟨sys.sets dst, s.w⟩) hrep
    unfold Sat at hd
    simp only
    cases hdr : dropAndRenew E.toUnit ⟨sys.sets dst, s.w⟩ with
    | ub => rw [hdr] at hd; exact hd
    | panic c s' => exact ⟨hs.1, inv_updReg hs.2 dst h⟩
    | ok a' s' => exact ⟨hs.1, inv_updReg hs.2 dst h⟩


/-! ### `a.extend(b)` with `b` a set that is moved in -/

/-- outcome of the loop of `extend_from` on the pair (source register, destination register): not
    `ub`, and BOTH registers satisfy the invariant and keep their capacities — whether the loop
    ran to its end or unwound (then the rest of the source has been dropped: a fresh `new()`). -/
def PairInv (F : Env K Unit Q) (cs cd : Nat) (r : Res (Raw K Unit × St K Unit Q) Unit) : Prop :=
  match r with
  | .ok _ x => (Inv F x.1 ∧ x.1.cap = cs) ∧ (Inv F x.2.r ∧ x.2.r.cap = cd)
  | .panic _ x => (Inv F x.1 ∧ x.1.cap = cs) ∧ (Inv F x.2.r ∧ x.2.r.cap = cd)
  | .ub => False

/-- **the loop of `a.extend(b)`** keeps both sets well-formed in ANY world: with an injected panic
    inside `insert` (a panicking `==`), with the destination overflowing, in either profile.  The
    clean-up drop of the rest of the source runs in unwinding mode and therefore completes. -/
theorem extendFromLoop_inv (F : Env K Unit Q) : ∀ (n : Nat) (rs : Raw K Unit) (sd : St K Unit Q),
    Inv F rs → Inv F sd.r → PairInv F rs.cap sd.r.cap (extendFromLoop F n rs sd)
  | 0, rs, sd, hs, hd => ⟨⟨hs, rfl⟩, hd, rfl⟩
  | n + 1, rs, sd, hs, hd => by
    obtain ⟨l, hr, hn⟩ := hs
    have hn' : F.Good → NodupKeys F.keq l.dropLast :=
      fun hg => nodupKeys_of_sublist (hn hg) (List.dropLast_sublist l)
    have h1 := Iters.intoIterNextK_sat F .keys (s := ⟨rs, sd.w⟩) hr
    unfold Sat at h1
    unfold extendFromLoop
    cases hm : intoIterNextK F .keys ⟨rs, sd.w⟩ with
    | ub => rw [hm] at h1; exact h1
    | panic c s1 =>
      rw [hm] at h1
      obtain ⟨h2, h3, _⟩ := h1
      exact ⟨⟨⟨_, h2, hn'⟩, h3⟩, hd, rfl⟩
    | ok o s1 =>
      rw [hm] at h1
      obtain ⟨_, h2, h3, _⟩ := h1
      have hs1 : Inv F s1.r := ⟨_, h2, hn'⟩
      cases o with
      | none => exact ⟨⟨hs1, h3⟩, hd, rfl⟩
      | some p =>
        simp only
        have h4 := opInv_insert F p.1 () ⟨sd.r, s1.w⟩ hd
        unfold Sat at h4
        cases hi : insert F p.1 () ⟨sd.r, s1.w⟩ with
        | ub => rw [hi] at h4; exact h4
        | ok a s2 =>
          rw [hi] at h4
          have ih := extendFromLoop_inv F n s1.r s2 hs1 h4.1
          rw [h3, h4.2] at ih
          exact ih
        | panic c s2 =>
          rw [hi] at h4
          have h5 := Iters.dropAndRenew_unw F (s := (⟨s1.r, s2.w⟩ : St K Unit Q).setUnw true) h2 rfl
          unfold Sat at h5
          simp only
          cases hdr : dropAndRenew F ((⟨s1.r, s2.w⟩ : St K Unit Q).setUnw true) with
          | ub => rw [hdr] at h5; exact h5
          | panic c' s3 => rw [hdr] at h5; exact h5
          | ok u s3 =>
            rw [hdr] at h5
            have h6 : s3.r = Raw.new s1.r.cap := h5.1
            exact ⟨⟨h6 ▸ Inv.new F _, by rw [h6]; exact h3⟩, h4.1, h4.2⟩

/-- **`sets[i].extend(sets[j])`** (`i ≠ j`) at the system level: no `ub`, and every register
    satisfies the invariant afterwards — in any world. -/
theorem extendFrom_inv {sys : Sys K V Q} (hs : SysInv E sys) (i j : Nat) :
    ResInv E (extendFrom E sys i j) := by
  have h := extendFromLoop_inv E.toUnit ((sys.sets j).len + 1) (sys.sets j) ⟨sys.sets i, sys.w.toUnit⟩
    (hs.2 j) (hs.2 i)
  have hfin : ∀ (rs rd : Raw K Unit) (u : World K Unit Q), Inv E.toUnit rs → Inv E.toUnit rd →
      SysInv E (extendFin sys i j rs rd u) := fun rs rd u h1 h2 =>
    ⟨hs.1, inv_updReg (inv_updReg hs.2 j h1) i h2⟩
  unfold PairInv at h
  unfold extendFrom ResInv
  cases hl : extendFromLoop E.toUnit ((sys.sets j).len + 1) (sys.sets j) ⟨sys.sets i, sys.w.toUnit⟩ with
  | ub => rw [hl] at h; exact h
  | panic c x => rw [hl] at h; exact hfin _ _ _ h.1.1 h.2.1
  | ok u x =>
    rw [hl] at h
    obtain ⟨l, hrep, _⟩ := h.1.1
    have hd := dropAndRenew_sat E.toUnit (s := ⟨x.1, x.2.w⟩) hrep
    unfold Sat at hd
    simp only
    cases hdr : dropAndRenew E.toUnit ⟨x.1, x.2.w⟩ with
    | ub => rw [hdr] at hd; exact hd
    | panic c s4 => rw [hdr] at hd; exact hfin _ _ _ (hd ▸ Inv.new _ _) h.2.1
    | ok u' s4 => rw [hdr] at hd; exact hfin _ _ _ (hd ▸ Inv.new _ _) h.2.1


/-! ### `step` and `run` -/

variable (R : Render K V)

/-- every operation of a map register that goes through the safe API. -/
theorem stepMapOp_inv (other : Nat → Raw K V) (hother : ∀ o, Inv E (other o))
    (op : MapOp K V Q) (hop : op.safeApi = true) : OpInv E (stepMapOp E R other op) := by
  cases op with
  | entry k mods fin => exact opInv_entryOp E k mods fin
  | get_disjoint_mut u g ks =>
    cases u with
    | true => cases hop
    | false => exact opInv_gdm E g ks
  | insert_unchecked k v => cases hop
  | _ => exact stepMapOp_inv_basic E R other hother _ rfl

/-- the operations the system-level theorems cover: the whole operation language except the
    two `unsafe fn`s (`insert_unchecked`, `get_disjoint_unchecked_mut`). -/
def Op.safeApi : Op K V Q → Bool
  | .map _ op => op.safeApi
  | .umap _ op => op.safeApi
  | _ => true

theorem resInv_rewrap {α : Type} {r : Res (Sys K V Q) α} (h : ResInv E r) :
    ResInv E (match r with | .ok _ s => .ok RV.unit s | .panic c s => .panic c s | .ub => (.ub : Res (Sys K V Q) (RV K V))) := by
  cases r with
  | ok a s => exact h
  | panic c s => exact h
  | ub => exact h

theorem stepCore_inv {sys : Sys K V Q} (hs : SysInv E sys) (op : Op K V Q) (hop : op.safeApi = true) :
    ResInv E (stepCore E R sys op) := by
  cases op with
  | map reg mop =>
    have hmop : mop.safeApi = true := hop
    cases mop with
    | serde dst =>
      obtain ⟨l, hr, _⟩ := hs.1 reg
      simp only [stepCore, serializeR_ok hr]
      have h := assignMap_inv E (sys := { sys with w := sys.w }) hs dst (sys.maps dst).cap
        (build := deserializeInto E (.start (some l.length) :: l.map (fun p => Tok.entry p.1 p.2) ++ [.fin]))
        (fun w => by
          unfold deserializeInto
          exact Sat.mono (scratch_sat E (opInv_visitLoop E _) (s := ⟨Raw.new _, w⟩) (Inv.new E _))
            (fun _ _ h => h.1) (fun _ _ h => h))
      revert h; generalize assignMap E _ dst _ _ = r; intro h
      cases r <;> exact h
    | clone_to dst =>
      have h := assignMap_inv E hs dst (sys.maps reg).cap (build := cloneInto E (sys.maps reg)) (fun w =>
        Sat.mono (cloneInto_inv E (hs.1 reg) w) (fun _ _ h => h.1) (fun _ _ h => h))
      simp only [stepCore]
      revert h; generalize assignMap E sys dst _ _ = r; intro h
      cases r <;> exact h
    | from_iter pulls xs =>
      have h := assignMap_inv E hs reg (sys.maps reg).cap (build := from_iter E pulls xs) (fun w => by
        unfold from_iter
        exact Sat.mono (scratch_sat E (opInv_extendLoop E pulls xs) (s := ⟨Raw.new _, w⟩) (Inv.new E _))
          (fun _ _ h => h.1) (fun _ _ h => h))
      simp only [stepCore]
      revert h; generalize assignMap E sys reg _ _ = r; intro h
      cases r <;> exact h
    | _ => exact runOnMap_inv E (stepMapOp_inv E R sys.maps hs.1 _ hmop) hs reg
  | set reg sop =>
    cases sop with
    | serde dst =>
      obtain ⟨l, hr, _⟩ := hs.2 reg
      simp only [stepCore, serializeR_ok hr]
      have hs' : SysInv E { sys with w := sys.w.mergeUnit sys.w.toUnit } := hs
      have h := assignSet_inv E hs' dst (sys.sets dst).cap
        (build := deserializeInto E.toUnit (.start (some l.length) :: l.map (fun p => Tok.entry p.1 p.2) ++ [.fin]))
        (fun w => by
          unfold deserializeInto
          exact Sat.mono (scratch_sat E.toUnit (opInv_visitLoop E.toUnit _) (s := ⟨Raw.new _, w⟩) (Inv.new _ _))
            (fun _ _ h => h.1) (fun _ _ h => h))
      revert h; generalize assignSet E _ dst _ _ = r; intro h
      cases r <;> exact h
    | clone_to dst =>
      have h := assignSet_inv E hs dst (sys.sets reg).cap (build := cloneInto E.toUnit (sys.sets reg)) (fun w =>
        Sat.mono (cloneInto_inv E.toUnit (hs.2 reg) w) (fun _ _ h => h.1) (fun _ _ h => h))
      simp only [stepCore]
      revert h; generalize assignSet E sys dst _ _ = r; intro h
      cases r <;> exact h
    | from_iter pulls xs =>
      have h := assignSet_inv E hs reg (sys.sets reg).cap
        (build := from_iter E.toUnit pulls (xs.map fun k => (k, ()))) (fun w => by
        unfold from_iter
        exact Sat.mono (scratch_sat E.toUnit (opInv_extendLoop E.toUnit pulls _) (s := ⟨Raw.new _, w⟩) (Inv.new _ _))
          (fun _ _ h => h.1) (fun _ _ h => h))
      simp only [stepCore]
      revert h; generalize assignSet E sys reg _ _ = r; intro h
      cases r <;> exact h
    | sub o dst =>
      have h := assignSet_inv E hs dst (sys.sets reg).cap (build := subInto E.toUnit (sys.sets reg) (sys.sets o))
        (fun w => Sat.mono (subInto_inv E.toUnit (hs.2 reg) (hs.2 o) w) (fun _ _ h => h.1) (fun _ _ h => h))
      simp only [stepCore]
      revert h; generalize assignSet E sys dst _ _ = r; intro h
      cases r <;> exact h
    | extend_from o =>
      simp only [stepCore]
      split
      · exact hs
      · have h := extendFrom_inv E hs reg o
        revert h; generalize extendFrom E sys reg o = r; intro h
        cases r <;> exact h
    | _ =>
      simp only [stepCore]
      generalize hr : runOnSet sys reg _ = r
      have h : ResInv E r := hr ▸ runOnSet_inv E (stepSetOp_inv E.toUnit R.toUnit sys.sets hs.2 _) hs reg
      cases r <;> exact h
  | umap reg uop =>
    have huop : uop.safeApi = true := hop
    cases uop with
    | clone_to d => exact hs
    | from_iter p xs => exact hs
    | serde d => exact hs
    | _ =>
      simp only [stepCore]
      generalize hr : runOnSet sys reg _ = r
      have h : ResInv E r := hr ▸ runOnSet_inv E (stepMapOp_inv E.toUnit R.toUnit sys.sets hs.2 _ huop) hs reg
      cases r <;> exact h
  | inject j => exact hs
  | endCase => exact hs

theorem dropAllRegs_goM_inv : ∀ (n i : Nat) (sys : Sys K V Q), SysInv E sys →
    ResInv E (dropAllRegs.goM E n i sys)
  | 0, _, sys, hs => hs
  | n + 1, i, sys, hs => by
    unfold dropAllRegs.goM
    have h := runOnMap_inv E (opInv_drop E) hs i
    unfold ResInv at h
    cases hr : runOnMap sys i (dropAndRenew E) with
    | ok a s => rw [hr] at h; exact dropAllRegs_goM_inv n (i + 1) s h
    | panic c s => rw [hr] at h; exact dropAllRegs_goM_inv n (i + 1) s h
    | ub => rw [hr] at h; exact h.elim

theorem dropAllRegs_goS_inv : ∀ (n i : Nat) (sys : Sys K V Q), SysInv E sys →
    ResInv E (dropAllRegs.goS E n i sys)
  | 0, _, sys, hs => hs
  | n + 1, i, sys, hs => by
    unfold dropAllRegs.goS
    have h := runOnSet_inv E (opInv_drop E.toUnit) hs i
    unfold ResInv at h
    cases hr : runOnSet sys i (dropAndRenew E.toUnit) with
    | ok a s => rw [hr] at h; exact dropAllRegs_goS_inv n (i + 1) s h
    | panic c s => rw [hr] at h; exact dropAllRegs_goS_inv n (i + 1) s h
    | ub => rw [hr] at h; exact h.elim

theorem dropAllRegs_inv {sys : Sys K V Q} (hs : SysInv E sys) : ResInv E (dropAllRegs E sys) := by
  unfold dropAllRegs
  have h := dropAllRegs_goM_inv E nRegs 0 sys hs
  unfold ResInv at h
  cases hr : dropAllRegs.goM E nRegs 0 sys with
  | ok a s => rw [hr] at h; exact dropAllRegs_goS_inv E nRegs 0 s h
  | panic c s => rw [hr] at h; exact h
  | ub => rw [hr] at h; exact h.elim

theorem sysInv_world {sys : Sys K V Q} (hs : SysInv E sys) (w : World K V Q) : SysInv E { sys with w := w } := hs

/-- **One step of the system**: from registers that satisfy the invariant, no operation reaches
    `ub` and all registers satisfy the invariant afterwards — whether the operation returned,
    panicked by itself (overflow, missing index, overlap) or unwound from an injected panic in
    user code. -/
theorem step_inv {sys : Sys K V Q} (hs : SysInv E sys) (op : Op K V Q) (hop : op.safeApi = true) :
    (step E R sys op).2.outcome ≠ .ub ∧ SysInv E (step E R sys op).1 := by
  unfold step
  cases op with
  | inject j => exact ⟨by simp, hs⟩
  | endCase =>
    have h := dropAllRegs_inv E (sys := { sys with w := { { sys.w with events := [] } with inject := none } }) hs
    unfold ResInv at h
    simp only
    cases hr : dropAllRegs E _ with
    | ok a s => rw [hr] at h; exact ⟨by simp, h⟩
    | panic c s => rw [hr] at h; exact ⟨by simp, h⟩
    | ub => rw [hr] at h; exact h.elim
  | map reg mop =>
    have h := stepCore_inv E R (sys := { sys with w := { sys.w with events := [] } }) hs (.map reg mop) hop
    unfold ResInv at h
    simp only
    cases hr : stepCore E R _ (Op.map reg mop) with
    | ok a s => rw [hr] at h; exact ⟨by simp, h⟩
    | panic c s => rw [hr] at h; exact ⟨by simp, h⟩
    | ub => rw [hr] at h; exact h.elim
  | set reg sop =>
    have h := stepCore_inv E R (sys := { sys with w := { sys.w with events := [] } }) hs (.set reg sop) rfl
    unfold ResInv at h
    simp only
    cases hr : stepCore E R _ (Op.set reg sop) with
    | ok a s => rw [hr] at h; exact ⟨by simp, h⟩
    | panic c s => rw [hr] at h; exact ⟨by simp, h⟩
    | ub => rw [hr] at h; exact h.elim
  | umap reg uop =>
    have h := stepCore_inv E R (sys := { sys with w := { sys.w with events := [] } }) hs (.umap reg uop) hop
    unfold ResInv at h
    simp only
    cases hr : stepCore E R _ (Op.umap reg uop) with
    | ok a s => rw [hr] at h; exact ⟨by simp, h⟩
    | panic c s => rw [hr] at h; exact ⟨by simp, h⟩
    | ub => rw [hr] at h; exact h.elim

/-- **Every history.**  For any list of operations (no bound on its length), any user equality,
    any armed injections, any profile: no step reaches `ub` and the invariant holds at the end
    (hence, by the same theorem applied to prefixes, after every step). -/
theorem run_inv : ∀ (ops : List (Op K V Q)) (sys : Sys K V Q), SysInv E sys →
    (∀ op, op ∈ ops → op.safeApi = true) →
    (∀ o, o ∈ (run E R sys ops).2 → o.outcome ≠ .ub) ∧ SysInv E (run E R sys ops).1
  | [], sys, hs, _ => ⟨fun _ h => by simp [run] at h, hs⟩
  | op :: ops, sys, hs, hops => by
    have h1 := step_inv E R hs op (hops op (List.mem_cons_self ..))
    have h2 := run_inv ops (step E R sys op).1 h1.2 (fun o ho => hops o (List.mem_cons_of_mem _ ho))
    unfold run
    refine ⟨fun o ho => ?_, h2.2⟩
    rcases List.mem_cons.mp ho with rfl | ho'
    · exact h1.1
    · exact h2.1 o ho'

end Micromap
