/-
Bridge between the L0 triples (stated with `findKey`, the time-independent reading of the
scan) and the list-level dictionary laws of `DictLaws` / `SetAlgLaws` (stated with
`Dict.findIdxP` / `Dict.lookupP` over a Boolean equivalence).
-/
import Micromap.Proofs.Lookup
import Micromap.Proofs.DictLaws

namespace Micromap
open SetAlg Dict
variable {K V Q : Type} (E : Env K V Q)

/-- a probe as a predicate on stored keys. -/
def Env.hitP (pr : Probe K Q) : K → Bool := fun stored => E.hit stored pr

theorem Env.Lawful.equivB {E : Env K V Q} (hE : E.Lawful) : EquivB E.keq :=
  ⟨hE.refl, hE.symm, hE.trans⟩

theorem Env.Lawful.qequivB {E : Env K V Q} (hE : E.Lawful) : EquivB E.qeq :=
  ⟨hE.qrefl, hE.qsymm, hE.qtrans⟩

/-- every probe (by key, or by a borrowed form under the `Borrow` contract) respects key
    equality and identifies at most one class. -/
theorem Env.Lawful.probeOK {E : Env K V Q} (hE : E.Lawful) (pr : Probe K Q) :
    ProbeOK E.keq (E.hitP pr) := by
  cases pr with
  | key k =>
    refine ⟨fun a b hab => ?_, fun a b ha hb => ?_⟩
    · show E.keq a k = E.keq b k
      cases hb : E.keq b k with
      | true => exact hE.trans a b k hab hb
      | false =>
        cases ha : E.keq a k with
        | false => rfl
        | true =>
          have : E.keq b k = true := hE.trans b a k (by rw [hE.symm]; exact hab) ha
          rw [hb] at this; cases this
    · show E.keq a b = true
      have ha' : E.keq a k = true := ha
      have hb' : E.keq b k = true := hb
      exact hE.trans a k b ha' (by rw [hE.symm]; exact hb')
  | q q =>
    refine ⟨fun a b hab => ?_, fun a b ha hb => ?_⟩
    · show E.qeq (E.borrow a) q = E.qeq (E.borrow b) q
      have hab' : E.qeq (E.borrow a) (E.borrow b) = true := by rw [hE.borrow]; exact hab
      cases hb : E.qeq (E.borrow b) q with
      | true => exact hE.qtrans _ _ _ hab' hb
      | false =>
        cases ha : E.qeq (E.borrow a) q with
        | false => rfl
        | true =>
          have : E.qeq (E.borrow b) q = true :=
            hE.qtrans _ _ _ (by rw [hE.qsymm]; exact hab') ha
          rw [hb] at this; cases this
    · show E.keq a b = true
      have ha' : E.qeq (E.borrow a) q = true := ha
      have hb' : E.qeq (E.borrow b) q = true := hb
      rw [← hE.borrow]
      exact hE.qtrans _ _ _ ha' (by rw [hE.qsymm]; exact hb')

/-- the probe "equal to the key `k`" as used by `lookupL` (stored key on the left). -/
theorem Env.hitP_key (k : K) : E.hitP (.key k : Probe K Q) = fun a => E.keq a k := rfl

theorem findFrom_eq_findIdx (l : List (K × V)) (pr : Probe K Q) :
    ∀ n i, i + n = l.length →
      findFrom E l pr n i = ((l.drop i).findIdx? fun p => E.hitP pr p.1).map (· + i)
  | 0, i, h => by
    have : l.drop i = [] := List.drop_eq_nil_of_le (by omega)
    simp [findFrom, this]
  | n + 1, i, h => by
    have hi : i < l.length := by omega
    have hd : l.drop i = l[i] :: l.drop (i + 1) := by
      rw [List.drop_eq_getElem_cons hi]
    unfold findFrom
    rw [List.getElem?_eq_getElem hi, hd, List.findIdx?_cons]
    show (if E.hit l[i].1 pr = true then some i else findFrom E l pr n (i + 1)) = _
    cases hh : E.hit l[i].1 pr with
    | true => simp [Env.hitP, hh]
    | false =>
      rw [findFrom_eq_findIdx l pr n (i + 1) (by omega)]
      simp only [Env.hitP, hh, Bool.false_eq_true, if_false, Option.map_map]
      congr 1
      funext x
      simp [Nat.add_assoc, Nat.add_comm 1 i]

/-- the scan computes `findIdxP`. -/
theorem findKey_eq_findIdxP (l : List (K × V)) (pr : Probe K Q) :
    findKey E l pr = findIdxP (E.hitP pr) l := by
  unfold findKey findIdxP
  rw [findFrom_eq_findIdx E l pr l.length 0 (by omega)]
  simp

theorem findKey_some_iff {E : Env K V Q} (hE : E.Lawful) {l : List (K × V)} (hn : NodupKeys E.keq l)
    (pr : Probe K Q) {i} :
    findKey E l pr = some i ↔ ∃ hi : i < l.length, E.hitP pr l[i].1 = true := by
  rw [findKey_eq_findIdxP]
  constructor
  · intro h
    obtain ⟨hi, _, hh⟩ := lookupP_eq_of_findIdxP h
    exact ⟨hi, hh⟩
  · rintro ⟨hi, hh⟩
    exact findIdxP_unique hE.equivB (hE.probeOK pr) hn hi hh

theorem findKey_none_iff {l : List (K × V)} (pr : Probe K Q) :
    findKey E l pr = none ↔ ∀ p, p ∈ l → E.hitP pr p.1 = false := by
  rw [findKey_eq_findIdxP]; exact findIdxP_none_iff

/-- lookup by a borrowed form of `k` = lookup by `k` itself. -/
theorem hitP_borrow {E : Env K V Q} (hE : E.Lawful) (k : K) :
    E.hitP (.q (E.borrow k) : Probe K Q) = E.hitP (.key k) := by
  funext a
  show E.qeq (E.borrow a) (E.borrow k) = E.keq a k
  exact hE.borrow a k

end Micromap
