/-
Helper lemmas for the borrowing iterators (`iterStartR`, `iterNextR`, `iterRestR`, `iterScript`,
`iterOp`) and for the consuming iterators / drain (`intoIterNext`, `intoIterTake`, `intoIterOp`,
`drainStart`, `drainTake`, `drainOp`).  Used by `Props/C09.lean` and `Props/C10.lean`.
-/
import Micromap.Proofs.Bulk
import Micromap.Model.Step

namespace Micromap.Iters
open Micromap
variable {K V Q : Type}

/-! ### reads through an immutable borrow -/

theorem itemRefR_ok {r : Raw K V} {i p} (s : St K V Q) (hc : i < r.cap) (hs : r.slots i = some p) :
    itemRefR r i s = .ok p s := by
  simp [itemRefR, hc, hs]

theorem itemRefR_rep {r : Raw K V} {l} (hr : Rep r l) {i} (hi : i < l.length) (s : St K V Q) :
    itemRefR r i s = .ok l[i] s :=
  itemRefR_ok s (hr.cap_lt hi) (hr.slot hi)

/-- `iter()` on a well-formed container: the window `[0, len)`, no panic, state untouched. -/
theorem iterStartR_ok {r : Raw K V} {l} (hr : Rep r l) (s : St K V Q) :
    iterStartR r s = .ok ⟨0, l.length⟩ s := by
  simp [iterStartR, hr.1, hr.2.1]

/-- `next` inside the window: yields slot `lo` and the pair stored there, advances by one. -/
theorem iterNextR_lt {r : Raw K V} {l} (hr : Rep r l) {k} (hk : k < l.length) (s : St K V Q) :
    iterNextR r ⟨k, l.length⟩ s = .ok (some (k, l[k]), ⟨k + 1, l.length⟩) s := by
  simp [iterNextR, hk, itemRefR_rep hr hk s]

/-- `next` on an exhausted window: `None`, the iterator does not move (fused). -/
theorem iterNextR_end (r : Raw K V) {it : SliceIt} (h : ¬ it.lo < it.hi) (s : St K V Q) :
    iterNextR r it s = .ok (none, it) s := by
  simp [iterNextR, h]

/-- reading `n` consecutive live slots. -/
theorem iterRestR_slots (r : Raw K V) : ∀ (ps : List (K × V)) (i : Nat) (s : St K V Q),
    (∀ j (hj : j < ps.length), r.slots (i + j) = some ps[j]) → i + ps.length ≤ r.cap →
    iterRestR r ps.length i s = .ok ps s
  | [], _, _, _, _ => rfl
  | p :: ps, i, s, hl, hc => by
    simp only [List.length_cons] at hc ⊢
    have h0 : r.slots i = some p := by have := hl 0 (by simp); simpa using this
    have hl1 : ∀ j (hj : j < ps.length), r.slots (i + 1 + j) = some ps[j] := by
      intro j hj
      have := hl (j + 1) (by simp; omega)
      simpa [Nat.add_assoc, Nat.add_comm 1 j] using this
    simp [iterRestR, itemRefR_ok s (by omega : i < r.cap) h0,
      iterRestR_slots r ps (i + 1) s hl1 (by omega)]

/-- what remains of a traversal that stands at position `k`: the entries from `k` on. -/
theorem restR_rep {r : Raw K V} {l} (hr : Rep r l) {k} (hk : k ≤ l.length) (s : St K V Q) :
    SliceIt.restR r ⟨k, l.length⟩ s = .ok (l.drop k) s := by
  have := iterRestR_slots r (l.drop k) k s (fun j hj => by
    simp only [List.length_drop] at hj
    rw [hr.slot (by omega)]; simp) (by simp; have := hr.2.1; omega)
  simpa [SliceIt.restR, SliceIt.len] using this

theorem entriesOf_rep {r : Raw K V} {l} (hr : Rep r l) (s : St K V Q) :
    entriesOf r s = .ok l s := by
  have := restR_rep hr (Nat.zero_le _) s
  simp only [SliceIt.restR, SliceIt.len, Nat.sub_zero, List.drop_zero] at this
  simp [entriesOf, hr.1, hr.2.1, this]

/-! ### `next` called `n` times; the list of everything a traversal yields -/

/-- `n` consecutive calls of `Iter::next` on container `r`: the results in call order and the
    iterator afterwards. -/
def iterSteps (r : Raw K V) : Nat → SliceIt → SM K V Q (List (Option (Nat × (K × V))) × SliceIt)
  | 0, it => pure ([], it)
  | n + 1, it => do
    let (o, it') ← iterNextR r it
    let (os, it'') ← iterSteps r n it'
    pure (o :: os, it'')

/-- call `next` until it answers `None` (at most `fuel` times) and collect the items. -/
def iterToList (r : Raw K V) : Nat → SliceIt → SM K V Q (List (Nat × (K × V)))
  | 0, _ => pure []
  | n + 1, it => do
    let (o, it') ← iterNextR r it
    match o with
    | none => pure []
    | some x => do
      let rest ← iterToList r n it'
      pure (x :: rest)

/-- an exhausted iterator answers `None` to every further call and never moves. -/
theorem iterSteps_end (r : Raw K V) {it : SliceIt} (h : ¬ it.lo < it.hi) (s : St K V Q) :
    ∀ n, iterSteps r n it s = .ok (List.replicate n none, it) s
  | 0 => rfl
  | n + 1 => by
    simp [iterSteps, iterNextR_end r h s, iterSteps_end r h s n, List.replicate_succ]

/-- from position `k`, the `j`-th of `n` calls returns `(k+j, l[k+j])` while `k+j < |l|` and
    `None` afterwards; the iterator ends at `min (k+n) |l|`; the state is untouched. -/
theorem iterSteps_rep {r : Raw K V} {l} (hr : Rep r l) (s : St K V Q) :
    ∀ n k, k ≤ l.length →
    iterSteps r n ⟨k, l.length⟩ s =
      .ok ((List.range n).map fun j => l[k + j]?.map fun p => (k + j, p), ⟨min (k + n) l.length, l.length⟩) s
  | 0, k, hk => by simp [iterSteps, Nat.min_eq_left hk]
  | n + 1, k, hk => by
    by_cases hlt : k < l.length
    · have ih := iterSteps_rep hr s n (k + 1) hlt
      simp only [iterSteps, bind_apply, iterNextR_lt hr hlt s, ih, pure_apply]
      congr 1
      · rw [List.range_succ_eq_map]
        simp [hlt, Nat.add_assoc, Nat.add_comm 1]
    · have hkl : k = l.length := by omega
      have hend : ¬ (⟨k, l.length⟩ : SliceIt).lo < (⟨k, l.length⟩ : SliceIt).hi := by simp [hkl]
      have := iterSteps_end (K := K) (V := V) (Q := Q) r hend s (n + 1)
      rw [this]
      have hf : (fun j => l[k + j]?.map fun p => (k + j, p)) = fun _ => none := by
        funext j; simp [List.getElem?_eq_none (by omega : l.length ≤ k + j)]
      rw [hf, List.map_const', List.length_range]
      simp [hkl]

/-- the items a traversal standing at `k` still yields: the entries `l[k], l[k+1], …` with
    their slot positions, each once, in slot order. -/
theorem iterToList_rep {r : Raw K V} {l} (hr : Rep r l) (s : St K V Q) :
    ∀ fuel k, k ≤ l.length →
    iterToList r fuel ⟨k, l.length⟩ s =
      .ok ((((l.drop k).take fuel).zipIdx k).map fun x => (x.2, x.1)) s
  | 0, k, _ => by simp [iterToList]
  | n + 1, k, hk => by
    by_cases hlt : k < l.length
    · have ih := iterToList_rep hr s n (k + 1) hlt
      simp only [iterToList, bind_apply, iterNextR_lt hr hlt s, ih, pure_apply]
      rw [List.drop_eq_getElem_cons hlt]
      simp only [List.take_succ_cons, List.zipIdx_cons, List.map_cons]
    · have hkl : k = l.length := by omega
      have hend : ¬ (⟨k, l.length⟩ : SliceIt).lo < (⟨k, l.length⟩ : SliceIt).hi := by simp [hkl]
      simp only [iterToList, bind_apply, iterNextR_end r hend s, pure_apply]
      simp [hkl]

/-! ### the consuming iterator -/

theorem nil_or_snoc {α : Type} (l : List α) : l = [] ∨ ∃ L b, l = L ++ [b] := by
  rcases List.eq_nil_or_concat l with h | ⟨L, b, h⟩
  · exact Or.inl h
  · exact Or.inr ⟨L, b, by rw [h, List.concat_eq_append]⟩

/-- removing the last live slot and publishing the shorter length. -/
theorem Rep.pop {r : Raw K V} {l : List (K × V)} {p} (hr : Rep r (l ++ [p])) :
    Rep (setSlot { r with len := l.length } l.length none) l := by
  refine ⟨rfl, ?_, fun i hi => ?_⟩
  · have := hr.2.1; simp at this; simp; omega
  · rw [setSlot_other _ _ (by omega)]
    have := hr.2.2 i (by simp; omega)
    rw [List.getElem?_append_left hi] at this
    exact this

/-- `IntoIter::next`: pops the entry in the last live slot (`None` and no change when empty). -/
theorem intoIterNext_spec {s : St K V Q} {l : List (K × V)} (hr : Rep s.r l) :
    ∃ s', intoIterNext s = .ok l.getLast? s' ∧ Rep s'.r l.dropLast ∧ s'.r.cap = s.r.cap ∧
      s'.w = s.w ∧ (l = [] → s' = s) := by
  rcases nil_or_snoc l with rfl | ⟨L, p, rfl⟩
  · have h0 : s.r.len = 0 := hr.1
    exact ⟨s, by simp [intoIterNext, getLen, h0], by simpa using hr, rfl, rfl, fun _ => rfl⟩
  · have hlen : s.r.len = L.length + 1 := by simpa using hr.1
    have hslot : s.r.slots L.length = some p := by
      have := hr.slot (i := L.length) (by simp); simpa using this
    have hcap : L.length < s.r.cap := hr.cap_lt (by simp)
    refine ⟨{ s with r := setSlot { s.r with len := L.length } L.length none }, ?_, ?_, rfl, rfl, ?_⟩
    · simp [intoIterNext, getLen, setLen, modS, hlen, itemRead, hcap, hslot]
    · simpa using Rep.pop hr
    · intro h; simp at h

variable (E : Env K V Q)

/-- what `IntoKeys` / `IntoValues` drop of every pair they take out of the map. -/
def discardTr (kind : IntoKind) (p : K × V) : List (Event K V Q) :=
  match kind with
  | .pairs => []
  | .keys => dropVTr E p.2
  | .values => [.dropK p.1]

/-- `IntoIter::next` / `IntoKeys::next` / `IntoValues::next`: the popped entry, and exactly one
    drop of the half that is not handed out.  If that drop unwinds the entry is gone all the same. -/
theorem intoIterNextK_sat (kind : IntoKind) {s : St K V Q} {l : List (K × V)} (hr : Rep s.r l) :
    Sat (intoIterNextK E kind) s
      (fun o s' => o = l.getLast? ∧ Rep s'.r l.dropLast ∧ s'.r.cap = s.r.cap ∧
        WRel s.w s'.w ((o.map (discardTr E kind)).getD []))
      (fun c s' => Rep s'.r l.dropLast ∧ s'.r.cap = s.r.cap ∧ InjPanic s s' c ∧ l ≠ [] ∧ kind ≠ .pairs) := by
  obtain ⟨s1, h1, h2, h3, h4, _⟩ := intoIterNext_spec hr
  unfold intoIterNextK
  refine Sat.bind (Sat.of_ok h1 (Q := fun o s' => o = l.getLast? ∧ s1 = s') ⟨rfl, rfl⟩) ?_
  rintro _ _ ⟨rfl, rfl⟩
  have hw : WRel s.w s1.w [] := by rw [h4]; exact WRel.refl _
  cases hl : l.getLast? with
  | none => exact Sat.pure ⟨rfl, h2, h3, by simpa using hw⟩
  | some p =>
    have hne : l ≠ [] := by rintro rfl; simp at hl
    cases kind with
    | pairs => exact Sat.pure ⟨rfl, h2, h3, by simpa [discardTr] using hw⟩
    | keys =>
      refine Sat.cb (CbOk.unwindWith (leak_cb (.k p.1)) (dropV_cb E p.2)) ?_ ?_
      · intro _ s2 g1 g2 _
        exact Sat.pure ⟨rfl, g1 ▸ h2, by rw [g1, h3], by simpa [discardTr] using hw.trans g2⟩
      · intro s2 tr' g1 g2 g3 g4
        exact ⟨g1 ▸ h2, by rw [g1, h3], (InjPanic.of_cb g2 g3 g4).after hw, hne, by simp⟩
    | values =>
      refine Sat.cb (CbOk.unwindWith (leak_cb (.v p.2)) (dropK_cb p.1)) ?_ ?_
      · intro _ s2 g1 g2 _
        exact Sat.pure ⟨rfl, g1 ▸ h2, by rw [g1, h3], by simpa [discardTr] using hw.trans g2⟩
      · intro s2 tr' g1 g2 g3 g4
        exact ⟨g1 ▸ h2, by rw [g1, h3], (InjPanic.of_cb g2 g3 g4).after hw, hne, by simp⟩

/-- `n` calls of `next` on a consuming iterator: the last `n` entries, last first; what is left
    is the untouched front of the list.  If a drop of a discarded half unwinds, a shorter front
    of the list is left — still a well-formed container. -/
theorem intoIterTake_sat (kind : IntoKind) : ∀ (n : Nat) (s : St K V Q) (l : List (K × V)), Rep s.r l →
    Sat (intoIterTake E kind n) s
      (fun items s' => items = l.reverse.take n ∧ Rep s'.r (l.take (l.length - n)) ∧ s'.r.cap = s.r.cap ∧
        WRel s.w s'.w (items.flatMap (discardTr E kind)))
      (fun c s' => s'.r.cap = s.r.cap ∧ InjPanic s s' c ∧ kind ≠ .pairs ∧
        ∃ m, m < l.length ∧ Rep s'.r (l.take m))
  | 0, s, l, hr => by
    exact Sat.pure ⟨by simp, by simpa using hr, rfl, by simpa using WRel.refl _⟩
  | n + 1, s, l, hr => by
    unfold intoIterTake
    refine Sat.bind (Sat.mono (intoIterNextK_sat E kind hr) (fun _ _ h => h) ?_) ?_
    · intro c s1 ⟨h1, h2, h3, h4, h5⟩
      refine ⟨h2, h3, h5, l.length - 1, ?_, ?_⟩
      · have : l.length ≠ 0 := by simpa using h4
        omega
      · simpa [List.dropLast_eq_take] using h1
    · intro o s1 ⟨h1, h2, h3, h4⟩
      subst h1
      rcases nil_or_snoc l with rfl | ⟨L, p, rfl⟩
      · exact Sat.pure ⟨by simp, by simpa using h2, h3, by simpa using h4⟩
      · simp only [List.getLast?_concat, List.dropLast_concat, Option.map_some, Option.getD_some] at h2 h4 ⊢
        refine Sat.bind (Sat.mono (intoIterTake_sat kind n s1 L h2) (fun _ _ h => h) ?_) ?_
        · intro c s2 ⟨g1, g2, g3, m, g4, g5⟩
          refine ⟨by rw [g1, h3], g2.after h4, g3, m, by simp; omega, ?_⟩
          rwa [List.take_append_of_le_length (by omega)]
        · intro items s2 ⟨g1, g2, g3, g4⟩
          refine Sat.pure ⟨by simp [g1], ?_, by rw [g3, h3], by simpa using h4.trans g4⟩
          have : (L ++ [p]).length - (n + 1) = L.length - n := by simp
          rw [this, List.take_append_of_le_length (by omega)]
          exact g2

/-! ### drain -/

/-- `drain()`: publishes `len = 0`, hands the old length to the iterator, touches no slot. -/
theorem drainStart_ok {s : St K V Q} {l : List (K × V)} (hr : Rep s.r l) :
    drainStart s = .ok l.length { s with r := { s.r with len := 0 } } := by
  simp [drainStart, sliceToLen, setLen, modS, hr.1, hr.2.1]

/-- `Drain::next` on an empty range: `None`, nothing changes. -/
theorem drainNext_end {lo hi : Nat} (h : ¬ lo < hi) (s : St K V Q) : drainNext lo hi s = .ok none s := by
  simp [drainNext, h]

theorem drainNext_lt {lo hi : Nat} {p : K × V} {s : St K V Q} (h : lo < hi) (hc : lo < s.r.cap)
    (hs : s.r.slots lo = some p) :
    drainNext lo hi s = .ok (some p) { s with r := setSlot s.r lo none } := by
  simp [drainNext, h, itemRead, hc, hs]

/-- `n` calls of `Drain::next` on a range holding `ps`: the first `n` of them in slot order; the
    slots read are dead afterwards, nothing else moves. -/
theorem drainTake_spec : ∀ (n : Nat) (ps : List (K × V)) (lo hi : Nat) (s : St K V Q),
    hi = lo + ps.length → (∀ j (hj : j < ps.length), s.r.slots (lo + j) = some ps[j]) → hi ≤ s.r.cap →
    ∃ s', drainTake n lo hi s = .ok (ps.take n, lo + min n ps.length) s' ∧ s'.w = s.w ∧
      s'.r.len = s.r.len ∧ s'.r.cap = s.r.cap ∧
      (∀ j, j < lo ∨ lo + min n ps.length ≤ j → s'.r.slots j = s.r.slots j) ∧
      (∀ j, lo ≤ j → j < lo + min n ps.length → s'.r.slots j = none)
  | 0, ps, lo, hi, s, _, _, _ =>
    ⟨s, by simp [drainTake], rfl, rfl, rfl, fun _ _ => rfl, fun j h1 h2 => by simp at h2; omega⟩
  | n + 1, [], lo, hi, s, hhi, _, _ => by
    have : ¬ lo < hi := by simp at hhi; omega
    exact ⟨s, by simp [drainTake, drainNext_end this], rfl, rfl, rfl, fun _ _ => rfl,
      fun j h1 h2 => by simp at h2; omega⟩
  | n + 1, p :: ps, lo, hi, s, hhi, hl, hc => by
    have h0 : s.r.slots lo = some p := by have := hl 0 (by simp); simpa using this
    simp only [List.length_cons] at hhi
    have hlt : lo < hi := by omega
    have hl1 : ∀ j (hj : j < ps.length),
        ({ s with r := setSlot s.r lo none } : St K V Q).r.slots (lo + 1 + j) = some ps[j] := by
      intro j hj
      show (setSlot s.r lo none).slots (lo + 1 + j) = _
      rw [setSlot_other _ _ (by omega)]
      have := hl (j + 1) (by simp; omega)
      simpa [Nat.add_assoc, Nat.add_comm 1 j] using this
    obtain ⟨s', e, h1, h2, h3, h4, h5⟩ := drainTake_spec n ps (lo + 1) hi
      { s with r := setSlot s.r lo none } (by omega) hl1 (by simpa using hc)
    have hmin : lo + min (n + 1) (ps.length + 1) = lo + 1 + min n ps.length := by omega
    refine ⟨s', ?_, h1, h2, h3, fun j hj => ?_, fun j hj1 hj2 => ?_⟩
    · simp [drainTake, drainNext_lt hlt (by omega) h0, e]; omega
    · simp only [List.length_cons] at hj
      rw [h4 j (by omega)]
      exact setSlot_other _ _ (by omega)
    · simp only [List.length_cons] at hj2
      by_cases hji : j = lo
      · subst hji; rw [h4 j (by omega)]; simp
      · exact h5 j (by omega) (by omega)

theorem drop_min_length {α : Type} (l : List α) (n : Nat) : l.drop (min n l.length) = l.drop n := by
  by_cases h : n ≤ l.length
  · rw [Nat.min_eq_left h]
  · have h' : l.length ≤ n := by omega
    rw [Nat.min_eq_right h', List.drop_length, List.drop_eq_nil_of_le h']

theorem WRel.leaked (w : World K V Q) (x : List (Obj K V)) : WRel w { w with leaked := x } [] :=
  ⟨rfl, rfl, id, by simp [World.trace]⟩

/-- `drain()`, `take` calls of `next`, then drop or forget the `Drain`: the first `take` entries in
    slot order are yielded, the rest is dropped once each in slot order (or leaked when forgotten);
    in every case — also when an element's `Drop` unwinds — the container is left empty. -/
theorem drainOp_sat (take : Nat) (forget : Bool) {s : St K V Q} {l : List (K × V)} (hr : Rep s.r l) :
    Sat (drainOp E take forget) s
      (fun res s' => res = (l.take take, l.length - take, l.drop take) ∧ Rep s'.r [] ∧ s'.r.cap = s.r.cap ∧
        WRel s.w s'.w (if forget then [] else dropTrace E (l.drop take)))
      (fun c s' => Rep s'.r [] ∧ s'.r.cap = s.r.cap ∧ InjPanic s s' c ∧ forget = false) := by
  unfold drainOp
  refine Sat.bind (Sat.of_ok (drainStart_ok hr)
    (Q := fun hi s' => hi = l.length ∧ { s with r := { s.r with len := 0 } } = s') ⟨rfl, rfl⟩) ?_
  rintro _ _ ⟨rfl, rfl⟩
  obtain ⟨s1, e, h1, h2, h3, h4, h5⟩ := drainTake_spec take l 0 l.length
    { s with r := { s.r with len := 0 } } (by simp) hr.slots_at (by simpa using hr.2.1)
  refine Sat.bind (Sat.of_ok e
    (Q := fun x s' => x = (l.take take, 0 + min take l.length) ∧ s1 = s') ⟨rfl, rfl⟩) ?_
  rintro _ _ ⟨rfl, rfl⟩
  simp only [Nat.zero_add] at h4 h5 ⊢
  have hm : min take l.length ≤ l.length := Nat.min_le_right _ _
  have hlen0 : s1.r.len = 0 := h2
  have hcap : s1.r.cap = s.r.cap := h3
  have hw : WRel s.w s1.w [] := by rw [h1]; exact WRel.refl _
  have hrep0 : ∀ s' : St K V Q, s'.r.len = 0 → Rep s'.r [] := fun s' h =>
    ⟨h, Nat.zero_le _, fun _ hi => by simp at hi⟩
  have hsl : ∀ j (hj : j < (l.drop (min take l.length)).length),
      s1.r.slots (min take l.length + j) = some (l.drop (min take l.length))[j] := by
    intro j hj
    simp only [List.length_drop] at hj
    rw [h4 _ (Or.inr (by omega))]
    show s.r.slots _ = _
    rw [hr.slot (by omega)]; simp
  have hc2 : min take l.length + (l.drop (min take l.length)).length ≤ s1.r.cap := by
    have := hr.2.1; simp only [List.length_drop]; omega
  have hld : (l.drop (min take l.length)).length = l.length - min take l.length := List.length_drop
  have hsub : l.length - min take l.length = l.length - take := by omega
  refine Sat.getS_bind ?_
  have hrest := iterRestR_slots s1.r _ _ s1 hsl hc2
  rw [hld] at hrest
  refine Sat.bind (Sat.of_ok hrest
    (Q := fun x s' => x = l.drop (min take l.length) ∧ s1 = s') ⟨rfl, rfl⟩) ?_
  rintro _ _ ⟨rfl, rfl⟩
  cases forget with
  | true =>
    simp only [if_true]
    exact Sat.pure ⟨by rw [drop_min_length, hsub], hrep0 _ hlen0, hcap, hw⟩
  | false =>
    simp only [Bool.false_eq_true, if_false]
    have hdrop := dropRange_sat E _ _ s1 hsl hc2
    rw [hld] at hdrop
    refine Sat.bind (m := drainDrop E _ _) (Sat.mono hdrop (fun _ _ h => h) ?_) ?_
    · intro c s2 ⟨g1, g2, _, g4⟩
      exact ⟨hrep0 _ (g1.trans hlen0), g2.trans hcap, g4.after hw, trivial⟩
    · intro _ s2 ⟨g1, g2, _, _, g5⟩
      refine Sat.pure ⟨by rw [drop_min_length, hsub], hrep0 _ (g1.trans hlen0), g2.trans hcap, ?_⟩
      rw [drop_min_length] at g5
      simpa using hw.trans g5

/-! ### giving up the whole container -/

/-- `mem::forget(map)` / the end of `into_iter`: the register holds a fresh `new()` afterwards. -/
theorem forgetMap_eq (s : St K V Q) :
    forgetMap s = .ok () { r := Raw.new s.r.cap,
                           w := { s.w with leaked := s.w.leaked ++ liveObjs s.r s.r.cap } } := rfl

/-- dropping the container: every live entry is dropped once in slot order; whether or not an
    element's `Drop` unwinds, the register holds a fresh `new()` of the same capacity afterwards. -/
theorem dropAndRenew_sat {s : St K V Q} {l : List (K × V)} (hr : Rep s.r l) :
    Sat (dropAndRenew E) s
      (fun _ s' => s'.r = Raw.new s.r.cap ∧ WRel s.w s'.w (dropTrace E l))
      (fun c s' => s'.r = Raw.new s.r.cap ∧ InjPanic s s' c) := by
  unfold dropAndRenew
  refine Sat.unwindWith (P₀ := fun c s' => s'.r.cap = s.r.cap ∧ InjPanic s s' c) ?_ ?_
  · refine Sat.bind (Sat.mono (dropMap_sat E hr) (fun _ _ h => h) (fun c s' ⟨h1, _, h3⟩ => ⟨h1, h3⟩)) ?_
    intro _ s1 ⟨h1, _, _, h4⟩
    refine Sat.of_ok (forgetMap_eq s1) ⟨by rw [h1], ?_⟩
    simpa using h4.trans (WRel.leaked s1.w _)
  · intro c s' ⟨h1, h2, h3, h4, tr', h5⟩
    refine Sat.of_ok (forgetMap_eq _) ⟨by simp [h1], h2, h3, h4, tr', ?_⟩
    have := h5.trans (WRel.through_unw (s' := s')
      (s'' := { r := Raw.new s'.r.cap, w := { (s'.setUnw true).w with
        leaked := (s'.setUnw true).w.leaked ++ liveObjs s'.r s'.r.cap } }) (WRel.leaked _ _))
    simpa using this

/-- clean-up use of `dropAndRenew`: while unwinding it cannot unwind again. -/
theorem dropAndRenew_unw {s : St K V Q} {l : List (K × V)} (hr : Rep s.r l) (hu : s.w.unwinding = true) :
    Sat (dropAndRenew E) s
      (fun _ s' => s'.r = Raw.new s.r.cap ∧ WRel s.w s'.w (dropTrace E l)) (fun _ _ => False) := by
  refine Sat.mono (dropAndRenew_sat E hr) (fun _ _ h => h) ?_
  intro c s' ⟨_, _, _, h, _⟩
  rw [hu] at h; exact absurd h (by simp)

/-- `into_iter()` / `into_keys()` / `into_values()`, `take` calls of `next`, then drop or forget
    the iterator: the last `take` entries are yielded last-first, `len()` is exact, the untouched
    front is what `Debug` shows and what is dropped (slot order) when the iterator is dropped.  In
    every world (also with an injected panic) the run is free of `ub` and the register holds a
    fresh `new()` of the same capacity afterwards: the map is consumed. -/
theorem intoIterOp_sat (kind : IntoKind) (take : Nat) (forget : Bool) {s : St K V Q} {l : List (K × V)}
    (hr : Rep s.r l) :
    Sat (intoIterOp E kind take forget) s
      (fun res s' => res = (l.reverse.take take, l.length - take, l.take (l.length - take)) ∧
        s'.r = Raw.new s.r.cap ∧
        WRel s.w s'.w ((l.reverse.take take).flatMap (discardTr E kind) ++
          if forget then [] else dropTrace E (l.take (l.length - take))))
      (fun c s' => s'.r = Raw.new s.r.cap ∧ InjPanic s s' c) := by
  unfold intoIterOp
  refine Sat.bind (Sat.unwindWith (intoIterTake_sat E kind take s l hr) ?_) ?_
  · -- a `next` unwound: the iterator (the rest of the map) is dropped while unwinding
    intro c s1 ⟨h1, h2, _, m, _, h5⟩
    have hr1 : Rep (s1.setUnw true).r (l.take m) := h5
    refine Sat.mono (dropAndRenew_unw E hr1 rfl) ?_ (fun _ _ h => h)
    intro _ s2 ⟨g1, g2⟩
    refine ⟨by simpa [h1] using g1, ?_⟩
    obtain ⟨k1, k2, k3, tr', k4⟩ := h2
    exact ⟨k1, k2, k3, _, k4.trans g2.through_unw⟩
  · intro items s1 ⟨h1, h2, h3, h4⟩
    subst h1
    have hlen : s1.r.len = l.length - take := by
      rw [h2.1, List.length_take]; omega
    show Sat (getLen >>= _) s1 _ _
    refine Sat.bind (Q₁ := fun n s' => n = l.length - take ∧ s1 = s')
      (show Sat getLen s1 _ _ from ⟨hlen, rfl⟩) ?_
    rintro _ _ ⟨rfl, rfl⟩
    refine Sat.getS_bind ?_
    refine Sat.bind (Sat.of_ok (entriesOf_rep h2 s1)
      (Q := fun x s' => x = l.take (l.length - take) ∧ s1 = s') ⟨rfl, rfl⟩) ?_
    rintro _ _ ⟨rfl, rfl⟩
    cases forget with
    | true =>
      simp only [if_true]
      refine Sat.bind (Sat.of_ok (forgetMap_eq s1) (Q := fun _ s' => s'.r = Raw.new s.r.cap ∧
        WRel s.w s'.w ((l.reverse.take take).flatMap (discardTr E kind))) ⟨by rw [h3], ?_⟩) ?_
      · simpa using h4.trans (WRel.leaked s1.w _)
      · intro _ s2 ⟨g1, g2⟩
        exact Sat.pure ⟨rfl, g1, by simpa using g2⟩
    | false =>
      simp only [Bool.false_eq_true, if_false]
      refine Sat.bind (Sat.mono (dropAndRenew_sat E h2) (fun _ _ h => h) ?_) ?_
      · intro c s2 ⟨g1, g2⟩
        exact ⟨by rw [g1, h3], g2.after h4⟩
      · intro _ s2 ⟨g1, g2⟩
        exact Sat.pure ⟨rfl, by rw [g1, h3], h4.trans g2⟩

/-! ### iterator scripts -/

/-- the kinds whose `next` hands out `&mut V`; the script writes `g v` through it. -/
def IsMut (kind : IterKind) : Prop := kind = .iter_mut ∨ kind = .values_mut

instance (kind : IterKind) : Decidable (IsMut kind) := by unfold IsMut; infer_instance

/-- apply `f` to the positions `lo ≤ i < hi` of a list. -/
def mapRange {α : Type} (f : α → α) (lo hi : Nat) (l : List α) : List α :=
  l.mapIdx fun i x => if lo ≤ i ∧ i < hi then f x else x

@[simp] theorem mapRange_length {α : Type} (f : α → α) (lo hi : Nat) (l : List α) :
    (mapRange f lo hi l).length = l.length := by simp [mapRange]

theorem getElem?_mapRange {α : Type} (f : α → α) (lo hi : Nat) (l : List α) (i : Nat) :
    (mapRange f lo hi l)[i]? = if lo ≤ i ∧ i < hi then l[i]?.map f else l[i]? := by
  simp only [mapRange, List.getElem?_mapIdx]
  split <;> simp

theorem mapRange_of_le {α : Type} (f : α → α) {lo hi : Nat} {l : List α} (h : l.length ≤ lo ∨ hi ≤ lo) :
    mapRange f lo hi l = l := by
  apply List.ext_getElem?
  intro i
  rw [getElem?_mapRange]
  split
  · rename_i hi'
    rcases h with h | h
    · rw [List.getElem?_eq_none (by omega)]; rfl
    · omega
  · rfl

theorem mapRange_all {α : Type} (f : α → α) {hi : Nat} {l : List α} (h : l.length ≤ hi) :
    mapRange f 0 hi l = l.map f := by
  apply List.ext_getElem?
  intro i
  rw [getElem?_mapRange, List.getElem?_map]
  split
  · rfl
  · rw [List.getElem?_eq_none (by omega)]; rfl

theorem mapRange_step {α : Type} (f : α → α) {k hi : Nat} {l : List α} (hk : k < l.length) (hh : k < hi) :
    mapRange f (k + 1) hi (l.set k (f l[k])) = mapRange f k hi l := by
  apply List.ext_getElem?
  intro i
  rw [getElem?_mapRange, getElem?_mapRange]
  by_cases hik : i = k
  · subst hik
    simp [hh, hk]
    intro h; omega
  · rw [List.getElem?_set_ne (Ne.symm hik)]
    have : (k + 1 ≤ i ∧ i < hi) ↔ (k ≤ i ∧ i < hi) := by omega
    simp only [this]

/-- the write `*v = g(*v)` seen on the stored pair. -/
def wr (g : V → V) (p : K × V) : K × V := (p.1, g p.2)

/-- how many `next` commands a script executes: those in front of the first consuming command. -/
def scriptNexts : List IterCmd → Nat
  | [] => 0
  | .next :: cs => scriptNexts cs + 1
  | .count :: _ => 0
  | .fold :: _ => 0
  | _ :: cs => scriptNexts cs

theorem iterRunOut_ok (kind : IterKind) {s : St K V Q} {l : List (K × V)} (hr : Rep s.r l)
    {f : SliceIt} (hf : f.lo ≤ l.length ∧ f.hi = l.length) :
    ∃ out, iterRunOut kind f s = .ok out s := by
  obtain ⟨lo, hi⟩ := f
  obtain ⟨h1, h2⟩ := hf
  simp only at h1 h2
  subst h2
  apply Exists.intro
  simp only [iterRunOut, getS, bind_apply, restR_rep hr h1 s, pure_apply]
  rfl

theorem iterRunForks_ok (kind : IterKind) {s : St K V Q} {l : List (K × V)} (hr : Rep s.r l) :
    ∀ (forks : List SliceIt), (∀ f ∈ forks, f.lo ≤ l.length ∧ f.hi = l.length) →
    ∃ out, iterRunForks kind forks s = .ok out s
  | [], _ => ⟨[], rfl⟩
  | f :: fs, h => by
    obtain ⟨o1, e1⟩ := iterRunOut_ok kind hr (h f (by simp))
    obtain ⟨o2, e2⟩ := iterRunForks_ok kind hr fs (fun f' hf' => h f' (by simp [hf']))
    apply Exists.intro
    simp only [iterRunForks, bind_apply, e1, e2, pure_apply]
    rfl

theorem iterScript_nil (R : Render K V) (kind : IterKind) (g : V → V) (k : Nat) (forks : List SliceIt)
    {s : St K V Q} {l : List (K × V)} (hr : Rep s.r l)
    (hf : ∀ f ∈ forks, f.lo ≤ l.length ∧ f.hi = l.length) :
    ∃ out, iterScript R kind g [] ⟨k, l.length⟩ forks s = .ok out s := by
  obtain ⟨o, e⟩ := iterRunForks_ok kind hr forks hf
  exact ⟨o, by simp [iterScript, e]⟩

/-- any script over a borrowing iterator standing at `k`: runs to completion without panic or
    `ub`, touches nothing but the values it is entitled to write: the kinds that hand out `&V`
    leave the whole state as it was; `iter_mut` / `values_mut` replace exactly the values of the
    entries yielded (`k ≤ i < k + #next`) by `g v`; keys, order, length and the world are untouched. -/
theorem iterScript_spec (R : Render K V) (kind : IterKind) (g : V → V) :
    ∀ (cs : List IterCmd) (k : Nat) (forks : List SliceIt) (s : St K V Q) (l : List (K × V)),
    Rep s.r l → k ≤ l.length → (∀ f ∈ forks, f.lo ≤ l.length ∧ f.hi = l.length) →
    ∃ out s', iterScript R kind g cs ⟨k, l.length⟩ forks s = .ok out s' ∧ s'.w = s.w ∧
      s'.r.cap = s.r.cap ∧ (¬ IsMut kind → s' = s) ∧
      (IsMut kind → Rep s'.r (mapRange (wr g) k (k + scriptNexts cs) l))
  | [], k, forks, s, l, hr, hk, hf => by
    obtain ⟨o, e⟩ := iterScript_nil R kind g k forks hr hf
    exact ⟨o, s, e, rfl, rfl, fun _ => rfl, fun _ => by
      rw [mapRange_of_le _ (Or.inr (by simp [scriptNexts]))]; exact hr⟩
  | c :: cs, k, forks, s, l, hr, hk, hf => by
    cases c with
    | next =>
      by_cases hlt : k < l.length
      · by_cases hm : IsMut kind
        · have hm' : kind = IterKind.iter_mut ∨ kind = IterKind.values_mut := hm
          have hr1 : Rep ({ s with r := setSlot s.r k (some (l[k].1, g l[k].2)) } : St K V Q).r
              (l.set k (wr g l[k])) := hr.set hlt _
          have ih := iterScript_spec R kind g cs (k + 1) forks _ _ hr1 (by simp; omega) (by simpa using hf)
          simp only [List.length_set] at ih
          obtain ⟨o, s', e, h1, h2, _, h4⟩ := ih
          refine ⟨RV.some (projItem kind k (l[k].1, g l[k].2)) :: o, s', ?_, h1, h2,
            fun h => absurd hm h, fun _ => ?_⟩
          · simp only [iterScript, bind_apply, pure_apply, getS, iterNextR_lt hr hlt s, hm', if_true,
              valueReplace_ok (s := s) (g l[k].2) (hr.cap_lt hlt) (hr.slot hlt), e]
          · have := h4 hm
            rw [mapRange_step (wr g) hlt (by omega)] at this
            simpa [scriptNexts, Nat.add_assoc, Nat.add_comm 1] using this
        · have hm' : ¬ (kind = IterKind.iter_mut ∨ kind = IterKind.values_mut) := hm
          obtain ⟨o, s', e, h1, h2, h3, _⟩ := iterScript_spec R kind g cs (k + 1) forks s l hr hlt hf
          refine ⟨RV.some (projItem kind k l[k]) :: o, s', ?_, h1, h2, h3, fun h => absurd h hm⟩
          simp only [iterScript, bind_apply, pure_apply, getS, iterNextR_lt hr hlt s, hm', if_false, e]
      · have hend : ¬ (⟨k, l.length⟩ : SliceIt).lo < (⟨k, l.length⟩ : SliceIt).hi := hlt
        obtain ⟨o, s', e, h1, h2, h3, h4⟩ := iterScript_spec R kind g cs k forks s l hr hk hf
        refine ⟨RV.none :: o, s', ?_, h1, h2, h3, fun h => ?_⟩
        · simp only [iterScript, bind_apply, pure_apply, getS, iterNextR_end s.r hend s, e]
        · rw [mapRange_of_le _ (Or.inl (by omega))]
          have := h4 h
          rwa [mapRange_of_le _ (Or.inl (by omega))] at this
    | len =>
      obtain ⟨o, s', e, h1, h2, h3, h4⟩ := iterScript_spec R kind g cs k forks s l hr hk hf
      exact ⟨RV.nat (SliceIt.len ⟨k, l.length⟩) :: o, s',
        by simp only [iterScript, bind_apply, pure_apply, e], h1, h2, h3, h4⟩
    | hint =>
      obtain ⟨o, s', e, h1, h2, h3, h4⟩ := iterScript_spec R kind g cs k forks s l hr hk hf
      exact ⟨RV.hint (SliceIt.len ⟨k, l.length⟩) (some (SliceIt.len ⟨k, l.length⟩)) :: o, s',
        by simp only [iterScript, bind_apply, pure_apply, e], h1, h2, h3, h4⟩
    | debug =>
      obtain ⟨o, s', e, h1, h2, h3, h4⟩ := iterScript_spec R kind g cs k forks s l hr hk hf
      exact ⟨RV.str (renderRest R kind false (l.drop k)) :: o, s',
        by simp only [iterScript, bind_apply, pure_apply, getS, restR_rep hr hk s, e], h1, h2, h3, h4⟩
    | debugAlt =>
      obtain ⟨o, s', e, h1, h2, h3, h4⟩ := iterScript_spec R kind g cs k forks s l hr hk hf
      exact ⟨RV.str (renderRest R kind true (l.drop k)) :: o, s',
        by simp only [iterScript, bind_apply, pure_apply, getS, restR_rep hr hk s, e], h1, h2, h3, h4⟩
    | clone =>
      by_cases hm : kind = IterKind.iter_mut ∨ kind = IterKind.values_mut
      · obtain ⟨o, s', e, h1, h2, h3, h4⟩ := iterScript_spec R kind g cs k forks s l hr hk hf
        exact ⟨o, s', by simp only [iterScript, hm, if_true, e], h1, h2, h3, h4⟩
      · have hf' : ∀ f ∈ forks ++ [(⟨k, l.length⟩ : SliceIt)], f.lo ≤ l.length ∧ f.hi = l.length := by
          intro f hfm
          rcases List.mem_append.mp hfm with h | h
          · exact hf f h
          · simp at h; subst h; exact ⟨hk, rfl⟩
        obtain ⟨o, s', e, h1, h2, h3, h4⟩ := iterScript_spec R kind g cs k _ s l hr hk hf'
        exact ⟨o, s', by simp only [iterScript, hm, if_false, e], h1, h2, h3, h4⟩
    | count =>
      obtain ⟨o, e⟩ := iterScript_nil R kind g k forks hr hf
      refine ⟨RV.nat (SliceIt.len ⟨k, l.length⟩) :: o, s, ?_, rfl, rfl, fun _ => rfl, fun _ => ?_⟩
      · rw [iterScript]; simp only [bind_apply, pure_apply, e]
      · rw [mapRange_of_le _ (Or.inr (by simp [scriptNexts]))]; exact hr
    | fold =>
      obtain ⟨o, e⟩ := iterScript_nil R kind g k forks hr hf
      refine ⟨RV.nat (SliceIt.len ⟨k, l.length⟩) :: o, s, ?_, rfl, rfl, fun _ => rfl, fun _ => ?_⟩
      · rw [iterScript]; simp only [bind_apply, pure_apply, e]
      · rw [mapRange_of_le _ (Or.inr (by simp [scriptNexts]))]; exact hr

/-- the composite iterator operation on a well-formed container: `iter()` then the script. -/
theorem iterOp_spec (R : Render K V) (kind : IterKind) (g : V → V) (script : List IterCmd)
    {s : St K V Q} {l : List (K × V)} (hr : Rep s.r l) :
    ∃ out s', iterOp R kind g script s = .ok out s' ∧ s'.w = s.w ∧ s'.r.cap = s.r.cap ∧
      (¬ IsMut kind → s' = s) ∧
      (IsMut kind → Rep s'.r (mapRange (wr g) 0 (scriptNexts script) l)) := by
  obtain ⟨o, s', e, h1, h2, h3, h4⟩ :=
    iterScript_spec R kind g script 0 [] s l hr (Nat.zero_le _) (fun _ h => by simp at h)
  refine ⟨o, s', ?_, h1, h2, h3, fun h => by simpa using h4 h⟩
  simp only [iterOp, getS, bind_apply, iterStartR_ok hr s, e]

/-- writing through `&mut V` does not change what a lookup compares: the keys stay. -/
theorem findFrom_map_wr (g : V → V) (l : List (K × V)) (pr : Probe K Q) :
    ∀ n i, findFrom E (l.map (wr g)) pr n i = findFrom E l pr n i
  | 0, _ => rfl
  | n + 1, i => by
    unfold findFrom
    rw [List.getElem?_map]
    cases l[i]? with
    | none => rfl
    | some p => simp only [Option.map_some, wr, findFrom_map_wr g l pr n (i + 1)]

theorem findKey_map_wr (g : V → V) (l : List (K × V)) (pr : Probe K Q) :
    findKey E (l.map (wr g)) pr = findKey E l pr := by
  unfold findKey
  rw [List.length_map]
  exact findFrom_map_wr E g l pr _ _

/-! ### what a run of `next` commands reports -/

/-- what the `i`-th of a run of `next` commands that starts at position `k` reports: a reference
    into slot `k + i` showing the entry stored there (for `iter_mut` / `values_mut` after the write
    `g v`), `None` once the entries are used up. -/
def nextOut (kind : IterKind) (g : V → V) (l : List (K × V)) (k i : Nat) : RV K V :=
  match l[k + i]? with
  | some p => RV.some (projItem kind (k + i) (if IsMut kind then wr g p else p))
  | none => RV.none

/-- a script that begins with `j` commands `next`: it reports `nextOut … 0`, …, `nextOut … (j-1)`
    and continues with the rest of the script from position `min (k+j) |l|`, in a state `sj` that
    is the old one (shared kinds) or has the yielded values rewritten (`*_mut` kinds). -/
theorem iterScript_nexts (R : Render K V) (kind : IterKind) (g : V → V) :
    ∀ (j k : Nat) (s : St K V Q) (l : List (K × V)), Rep s.r l → k ≤ l.length →
    ∃ sj : St K V Q, sj.w = s.w ∧ sj.r.cap = s.r.cap ∧ (¬ IsMut kind → sj = s) ∧
      Rep sj.r (if IsMut kind then mapRange (wr g) k (k + j) l else l) ∧
      ∀ cs forks o s', iterScript R kind g cs ⟨min (k + j) l.length, l.length⟩ forks sj = .ok o s' →
        iterScript R kind g (List.replicate j .next ++ cs) ⟨k, l.length⟩ forks s =
          .ok ((List.range j).map (nextOut kind g l k) ++ o) s'
  | 0, k, s, l, hr, hk => by
    refine ⟨s, rfl, rfl, fun _ => rfl, ?_, ?_⟩
    · split
      · rw [mapRange_of_le _ (Or.inr (by omega))]; exact hr
      · exact hr
    · intro cs forks o s' e
      simpa [Nat.min_eq_left hk] using e
  | j + 1, k, s, l, hr, hk => by
    by_cases hlt : k < l.length
    · by_cases hm : IsMut kind
      · have hm' : kind = IterKind.iter_mut ∨ kind = IterKind.values_mut := hm
        have hr1 : Rep ({ s with r := setSlot s.r k (some (l[k].1, g l[k].2)) } : St K V Q).r
            (l.set k (wr g l[k])) := hr.set hlt _
        obtain ⟨sj, h1, h2, _, h4, h5⟩ := iterScript_nexts R kind g j (k + 1) _ _ hr1 (by simp; omega)
        simp only [List.length_set, hm, if_true] at h4 h5
        refine ⟨sj, h1, h2, fun h => absurd hm h, ?_, ?_⟩
        · simp only [hm, if_true]
          rw [mapRange_step (wr g) hlt (by omega)] at h4
          simpa [Nat.add_assoc, Nat.add_comm 1] using h4
        · intro cs forks o s' e
          have e' := h5 cs forks o s' (by simpa [Nat.add_assoc, Nat.add_comm 1] using e)
          simp only [List.replicate_succ, List.cons_append, iterScript, bind_apply, pure_apply, getS,
            iterNextR_lt hr hlt s, hm', if_true,
            valueReplace_ok (s := s) (g l[k].2) (hr.cap_lt hlt) (hr.slot hlt), e']
          congr 1
          rw [List.range_succ_eq_map, List.map_cons, List.map_map, List.cons_append]
          congr 1
          · simp [nextOut, hlt, hm, wr]
          · congr 1
            apply List.map_congr_left
            intro i _
            simp only [nextOut, Function.comp, hm, if_true]
            rw [List.getElem?_set_ne (by omega)]
            simp [Nat.add_assoc, Nat.add_comm 1]
      · have hm' : ¬ (kind = IterKind.iter_mut ∨ kind = IterKind.values_mut) := hm
        obtain ⟨sj, h1, h2, h3, h4, h5⟩ := iterScript_nexts R kind g j (k + 1) s l hr hlt
        simp only [hm, if_false] at h4 h5
        refine ⟨sj, h1, h2, h3, by simpa only [hm, if_false] using h4, ?_⟩
        intro cs forks o s' e
        have e' := h5 cs forks o s' (by simpa [Nat.add_assoc, Nat.add_comm 1] using e)
        simp only [List.replicate_succ, List.cons_append, iterScript, bind_apply, pure_apply, getS,
          iterNextR_lt hr hlt s, hm', if_false, e']
        congr 1
        rw [List.range_succ_eq_map, List.map_cons, List.map_map, List.cons_append]
        congr 1
        · simp [nextOut, hlt, hm]
        · congr 1
          apply List.map_congr_left
          intro i _
          simp [nextOut, Function.comp, hm, Nat.add_assoc, Nat.add_comm 1]
    · have hkl : k = l.length := by omega
      have hend : ¬ (⟨k, l.length⟩ : SliceIt).lo < (⟨k, l.length⟩ : SliceIt).hi := hlt
      obtain ⟨sj, h1, h2, h3, h4, h5⟩ := iterScript_nexts R kind g j k s l hr hk
      refine ⟨sj, h1, h2, h3, ?_, ?_⟩
      · split
        · rename_i hm
          simp only [hm, if_true] at h4
          rw [mapRange_of_le _ (Or.inl (by omega))] at h4 ⊢
          exact h4
        · rename_i hm
          simpa only [hm, if_false] using h4
      · intro cs forks o s' e
        have hmin : min (k + j) l.length = min (k + (j + 1)) l.length := by omega
        have e' := h5 cs forks o s' (by rw [hmin]; exact e)
        simp only [List.replicate_succ, List.cons_append, iterScript, bind_apply, pure_apply, getS,
          iterNextR_end s.r hend s, e']
        congr 1
        rw [List.range_succ_eq_map, List.map_cons, List.map_map, List.cons_append]
        congr 1
        · simp [nextOut, hkl]
        · congr 1
          apply List.map_congr_left
          intro i _
          simp [nextOut, Function.comp, hkl]

end Micromap.Iters
