/-
The operations that build a new container in a scratch local and assign it to a register:
`clone`, `from_iter`, deserialization, `&a - &b`.  Each computes `cloneL` / `lBuild`.
-/
import Micromap.Proofs.ListSysSet
import Micromap.Proofs.Serde

namespace Micromap.ListSys
open Micromap Refine FromIter
variable {K V Q : Type}

/-- the user's `Clone` does not depend on the fresh-object counter (so that "the clone of `k`" is
    a function of `k`). -/
def Env.CloneStable (E : Env K V Q) : Prop :=
  (∀ n k, E.clK n k = E.clK 0 k) ∧ (∀ n v, E.clV n v = E.clV 0 v)

theorem Env.CloneStable.toUnit {E : Env K V Q} (h : Env.CloneStable E) : Env.CloneStable E.toUnit :=
  ⟨h.1, fun _ _ => rfl⟩

variable (E : Env K V Q)

theorem clones_eq (hcl : Env.CloneStable E) : ∀ {l l' : List (K × V)}, EqClone.ClonesOf E l l' → l' = cloneL E l
  | [], [], _ => rfl
  | p :: l, p' :: l', h => by
    obtain ⟨⟨⟨n, hk⟩, hv⟩, hrest⟩ := h
    have ih := clones_eq hcl hrest
    have hp : p' = (E.clK 0 p.1, if E.vGlue then E.clV 0 p.2 else p.2) := by
      unfold EqClone.IsCloneV at hv
      apply Prod.ext
      · simp only; rw [hk, hcl.1]
      · simp only
        split at hv
        · rename_i hg
          obtain ⟨m, hm⟩ := hv
          rw [if_pos hg, hm, hcl.2]
        · rename_i hg
          rw [if_neg hg, hv]
    simp only [cloneL, List.map_cons]
    rw [hp]
    congr 1
  | [], _ :: _, h => h.elim
  | _ :: _, [], h => h.elim

/-- the world part of `Ctx`: what remains to be known after a scratch local has been discarded. -/
def WOK (prof : Profile) (s : St K V Q) : Prop := Benign s.w ∧ s.w.profile = prof

/-- outcome of building on a fresh local of capacity `cap` in world `w`: it returns with the
    local holding `l'`, or it unwinds with the container's own overflow panic (the local has
    been dropped). -/
def BuildOK (prof : Profile) (cap : Nat) (res : Option (List (K × V))) (build : SM K V Q Unit)
    (w : World K V Q) : Prop :=
  match res with
  | some l' => Ret build ⟨Raw.new cap, w⟩ () (Ctx prof cap l')
  | none => Pan build ⟨Raw.new cap, w⟩ (fullPanic prof) (WOK prof)

/-- a constructor that unwinds drops its local. -/
theorem Pan.unwindWith_dropMap {α : Type} {body : SM K V Q α} {s : St K V Q} {c prof cap}
    {lq : List (K × V)} (h : Pan body s c (Ctx prof cap lq)) :
    Pan (Micromap.unwindWith (dropMap E) body) s c (WOK prof) := by
  obtain ⟨s1, h1, h2⟩ := h
  obtain ⟨_, s2, g1, _, _, _, g5⟩ := (EqClone.cleanup_dropMap E h2.rep).must_return (fun _ _ hf => hf)
  refine ⟨s2.setUnw s1.w.unwinding, ?_, g5.benign h2.benign, by rw [g5.profile]; exact h2.prof⟩
  unfold Micromap.unwindWith; rw [h1]; simp only [g1]

/-- the list a loop of inserts over `items` builds from a local holding `lp`: the fold of single
    inserts, or `none` when an item with a new key finds the local full. -/
def loopRes (cap : Nat) (lp items : List (K × V)) : Option (List (K × V)) :=
  if overflowAt E cap lp items = none then some (foldInsert E lp items) else none

theorem loopRes_nil (cap : Nat) (lp : List (K × V)) : loopRes E cap lp [] = some lp := rfl

theorem loopRes_cons (cap : Nat) (lp : List (K × V)) (k : K) (v : V) (rest : List (K × V)) :
    loopRes E cap lp ((k, v) :: rest) =
      if findKey E lp (.key k) = none ∧ cap ≤ lp.length then none
      else loopRes E cap (insertL E lp k v) rest := by
  unfold loopRes
  show (if (if findKey E lp (.key k) = none ∧ cap ≤ lp.length then some 0
      else (overflowAt E cap (insertL E lp k v) rest).map (· + 1)) = none then _ else _) = _
  by_cases h : findKey E lp (.key k) = none ∧ cap ≤ lp.length
  · simp [h]
  · simp only [h, if_false, foldInsert_cons]
    cases overflowAt E cap (insertL E lp k v) rest <;> simp

/-- enough room for all the items: no overflow. -/
theorem overflowAt_none_of_room (cap : Nat) : ∀ (xs lp : List (K × V)), lp.length + xs.length ≤ cap →
    overflowAt E cap lp xs = none
  | [], _, _ => rfl
  | (k, v) :: rest, lp, h => by
    simp only [List.length_cons] at h
    show (if findKey E lp (.key k) = none ∧ cap ≤ lp.length then some 0
      else (overflowAt E cap (insertL E lp k v) rest).map (· + 1)) = none
    rw [if_neg (fun hc => by have := hc.2; omega)]
    have hlen : (insertL E lp k v).length ≤ lp.length + 1 := by
      rw [insertL_length]; split <;> omega
    rw [overflowAt_none_of_room cap rest _ (by omega)]
    rfl

theorem lBuild_of_room (cap : Nat) (items : List (K × V)) (h : items.length ≤ cap) :
    lBuild E cap items = some (foldInsert E [] items) := by
  unfold lBuild
  rw [if_pos (overflowAt_none_of_room E cap items [] (by simpa using h))]

theorem lBuild_eq (cap : Nat) (items : List (K × V)) : lBuild E cap items = loopRes E cap [] items := rfl

/-- outcome of a loop body that runs on the local: it returns with the local holding the list,
    or unwinds with the overflow panic (the local still a well-formed container). -/
def UOK (prof : Profile) (cap : Nat) : Option (List (K × V)) → SM K V Q Unit → St K V Q → Prop
  | some l', m, s => Ret m s () (Ctx prof cap l')
  | none, m, s => ∃ lq, Pan m s (fullPanic prof) (Ctx prof cap lq)

theorem UOK.bind_ret {α : Type} {prof cap} {res : Option (List (K × V))} {m : SM K V Q α}
    {f : α → SM K V Q Unit} {s : St K V Q} {a : α} {P : St K V Q → Prop} (h : Ret m s a P)
    (hf : ∀ s', P s' → UOK prof cap res (f a) s') : UOK prof cap res (m >>= f) s := by
  cases res with
  | some l => exact Ret.bind h hf
  | none =>
    obtain ⟨s1, h1, h2⟩ := h
    obtain ⟨lq, s2, g1, g2⟩ := hf s1 h2
    exact ⟨lq, s2, by simp only [bind_apply, h1, g1], g2⟩

theorem buildOK_of_loop {prof cap} {items : List (K × V)} {body : SM K V Q Unit} {w : World K V Q}
    (h : UOK prof cap (loopRes E cap [] items) body ⟨Raw.new cap, w⟩) :
    BuildOK prof cap (lBuild E cap items) (Micromap.unwindWith (dropMap E) body) w := by
  rw [lBuild_eq]
  cases hres : loopRes E cap [] items with
  | some l' => rw [hres] at h; exact Ret.unwindWith h
  | none =>
    rw [hres] at h
    obtain ⟨lq, hp⟩ := h
    exact Pan.unwindWith_dropMap E hp

/-- `Map::insert` as the loops use it. -/
theorem insert_cases (hE : E.Pure) {prof cap} {l : List (K × V)} {s : St K V Q} (hc : Ctx prof cap l s)
    (k : K) (v : V) :
    (¬ (findKey E l (.key k) = none ∧ cap ≤ l.length) ∧
      ∃ r, Ret (insert E k v) s r (Ctx prof cap (insertL E l k v))) ∨
    ((findKey E l (.key k) = none ∧ cap ≤ l.length) ∧
      Pan (insert E k v) s (fullPanic prof) (Ctx prof cap l)) := by
  rcases outcome (insert_sat E hc.rep k v) with ⟨a, s', hm, hcap, hq⟩ | ⟨c, s', hm, _, hq⟩
  · rcases hq with ⟨j, hj, ha, hrep, hw, hfj⟩ | ⟨ha, hroom, hrep, hw, hfn⟩
    · refine Or.inl ⟨fun h => (by rw [hfj hE] at h; cases h.1), a, s', hm, ?_⟩
      rw [insertL_found E v (hfj hE) hj]
      exact hc.step hrep hcap hw
    · refine Or.inl ⟨fun h => (by have := hc.cap ▸ hroom; omega), a, s', hm, ?_⟩
      rw [insertL_absent E v (hfn hE)]
      exact hc.step hrep hcap hw
  · rcases hq with ⟨hi', _⟩ | ⟨hs, ho, hfull, hfn, hw⟩
    · exact (no_inj hc.benign hi').elim
    · refine Or.inr ⟨⟨hfn hE, by rw [← hc.cap]; omega⟩, s', ?_, hc.frame hs hw⟩
      rw [← overflow_class ho hc.prof]; exact hm

/-! ### `clone` -/

theorem cloneInto_ret (hcl : Env.CloneStable E) {src : Raw K V} {l : List (K × V)} (hsrc : Rep src l)
    {prof} {w : World K V Q} (hb : Benign w) (hp : w.profile = prof) :
    Ret (cloneInto E src) ⟨Raw.new src.cap, w⟩ () (Ctx prof src.cap (cloneL E l)) := by
  have hc0 : Ctx prof src.cap ([] : List (K × V)) (⟨Raw.new src.cap, w⟩ : St K V Q) :=
    ⟨Rep.new _, rfl, hb, hp⟩
  rcases outcome (EqClone.cloneInto_sat E hsrc (s := ⟨Raw.new src.cap, w⟩) (EqClone.Fresh.new _) rfl) with
    ⟨_, s', hm, hcap, l', hf, hcl', hw⟩ | ⟨c, s', _, _, hi', _⟩
  · rw [clones_eq E hcl hcl'] at hf
    exact ⟨s', hm, hc0.step hf.1 hcap hw⟩
  · exact (no_inj hb hi').elim

/-! ### `from_iter` -/

theorem from_iter_ok (hE : E.Pure) (pulls : Bool) (xs : List (K × V)) {prof cap} {w : World K V Q}
    (hb : Benign w) (hp : w.profile = prof) :
    BuildOK prof cap (lBuild E cap xs) (from_iter E pulls xs) w := by
  have hc0 : Ctx prof cap ([] : List (K × V)) (⟨Raw.new cap, w⟩ : St K V Q) := ⟨Rep.new _, rfl, hb, hp⟩
  unfold lBuild
  rcases outcome (from_iter_sat E pulls xs (s := ⟨Raw.new cap, w⟩) (Rep.new cap)) with
    ⟨_, s', hm, hcap, l', tr, hrep, hw, hq⟩ | ⟨c, s', hm, hcap, lq, tr, _, hw, hq⟩
  · obtain ⟨hl', _, hov⟩ := hq hE
    have hov' : overflowAt E cap [] xs = none := hov
    rw [if_pos hov']
    subst hl'
    exact ⟨s', hm, hc0.step hrep hcap hw⟩
  · rcases hq with hi' | ⟨ho, hq⟩
    · exact (no_inj hb hi').elim
    · obtain ⟨m, k, v, hov, _⟩ := hq hE
      have hov' : overflowAt E cap [] xs = some m := hov
      rw [if_neg (by rw [hov']; simp)]
      refine ⟨s', ?_, hw.benign hb, by rw [hw.profile]; exact hp⟩
      rw [← overflow_class (s := ⟨Raw.new cap, w⟩) ho hp]; exact hm

/-! ### deserialization -/

theorem cloneL_cons (p : K × V) (l : List (K × V)) :
    cloneL E (p :: l) = (E.clK 0 p.1, if E.vGlue then E.clV 0 p.2 else p.2) :: cloneL E l := rfl

theorem decodeK_ret (hcl : Env.CloneStable E) {prof cap} {l : List (K × V)} {s : St K V Q}
    (hc : Ctx prof cap l s) (k : K) : Ret (decodeK E k) s (E.clK 0 k) (Ctx prof cap l) := by
  rw [← hcl.1 s.w.nextId k]
  exact ⟨_, Serde.decodeK_ok E k s, hc.rep, hc.cap, hc.benign, hc.prof⟩

theorem decodeV_ret (hcl : Env.CloneStable E) {prof cap} {l : List (K × V)} {s : St K V Q}
    (hc : Ctx prof cap l s) (v : V) :
    Ret (decodeV E v) s (if E.vGlue then E.clV 0 v else v) (Ctx prof cap l) := by
  unfold decodeV
  cases hg : E.vGlue with
  | true =>
    simp only [if_true]
    rw [← hcl.2 s.w.nextId v]
    exact ⟨_, rfl, hc.rep, hc.cap, hc.benign, hc.prof⟩
  | false => exact ⟨s, by simp, hc⟩

/-- the visitor loop: every entry is decoded (a fresh copy) and inserted. -/
theorem visitLoop_ok (hE : E.Pure) (hcl : Env.CloneStable E) {prof cap} :
    ∀ (rest lp : List (K × V)) (s : St K V Q), Ctx prof cap lp s →
    UOK prof cap (loopRes E cap lp (cloneL E rest))
      (visitLoop E (rest.map (fun p => Tok.entry p.1 p.2) ++ [.fin])) s
  | [], lp, s, hc => ⟨s, rfl, hc⟩
  | (k, v) :: rest, lp, s, hc => by
    rw [cloneL_cons, loopRes_cons]
    simp only [List.map_cons, List.cons_append, visitLoop]
    refine UOK.bind_ret (decodeK_ret E hcl hc k) (fun s1 hc1 => ?_)
    refine UOK.bind_ret (decodeV_ret E hcl hc1 v) (fun s2 hc2 => ?_)
    rcases insert_cases E hE hc2 (E.clK 0 k) (if E.vGlue then E.clV 0 v else v) with
      ⟨hno, r, hins⟩ | ⟨hfull, hins⟩
    · rw [if_neg hno]
      refine UOK.bind_ret hins (fun s3 hc3 => ?_)
      cases r with
      | none => exact visitLoop_ok hE hcl rest _ s3 hc3
      | some old =>
        exact UOK.bind_ret (cb_ret_unit (dropV_cb E old) hc3)
          (fun s4 hc4 => visitLoop_ok hE hcl rest _ s4 hc4)
    · rw [if_pos hfull]
      exact ⟨lp, Pan.bind hins⟩

theorem deserialize_ok (hE : E.Pure) (hcl : Env.CloneStable E) (l : List (K × V)) {prof cap}
    {w : World K V Q} (hb : Benign w) (hp : w.profile = prof) :
    BuildOK prof cap (lBuild E cap (cloneL E l)) (deserializeInto E (Serde.tokens l)) w := by
  have hc0 : Ctx prof cap ([] : List (K × V)) (⟨Raw.new cap, w⟩ : St K V Q) := ⟨Rep.new _, rfl, hb, hp⟩
  exact buildOK_of_loop E (visitLoop_ok E hE hcl l [] _ hc0)

/-! ### `&a - &b` -/

/-- the elements of `la` that `lb` does not contain. -/
def notIn (lb : List (K × V)) (p : K × V) : Bool := !(findKey E lb (.key p.1)).isSome

/-- what `Difference::next` finds, in terms of the filtered rest of the list. -/
theorem lFiltNextR_spec (la lb : List (K × V)) : ∀ n lo, lo + n = la.length →
    match lFiltNextR E la lb false n lo with
    | (none, _) => (la.drop lo).filter (notIn E lb) = []
    | (some (j, k), lo') => ∃ hj : j < la.length, lo ≤ j ∧ lo' = j + 1 ∧ k = la[j].1 ∧
        (la.drop lo).filter (notIn E lb) = la[j] :: (la.drop (j + 1)).filter (notIn E lb)
  | 0, lo, h => by
    have : la.drop lo = [] := List.drop_eq_nil_of_le (by omega)
    simp [lFiltNextR, this]
  | n + 1, lo, h => by
    have hl : lo < la.length := by omega
    have hd : la.drop lo = la[lo] :: la.drop (lo + 1) := List.drop_eq_getElem_cons hl
    simp only [lFiltNextR, List.getElem?_eq_getElem hl]
    by_cases hc : ((findKey E lb (.key la[lo].1)).isSome == false) = true
    · rw [if_pos hc]
      refine ⟨hl, Nat.le_refl _, rfl, rfl, ?_⟩
      have hp : notIn E lb la[lo] = true := by
        unfold notIn
        cases hx : (findKey E lb (.key la[lo].1)).isSome <;> simp_all
      rw [hd, List.filter_cons, if_pos hp]
    · rw [if_neg hc]
      have hp : notIn E lb la[lo] = false := by
        unfold notIn
        cases hx : (findKey E lb (.key la[lo].1)).isSome <;> simp_all
      have ih := lFiltNextR_spec la lb n (lo + 1) (by omega)
      rw [hd, List.filter_cons, hp]
      simp only [Bool.false_eq_true, if_false]
      split at ih
      · exact ih
      · obtain ⟨hj, h1, h2, h3, h4⟩ := ih
        exact ⟨hj, by omega, h2, h3, h4⟩

section sub
variable {K Q : Type} (F : Env K Unit Q)

theorem subLoop_ok (hF : F.Pure) (hcl : Env.CloneStable F) {a b : Raw K Unit} {la lb : List (K × Unit)}
    (hra : Rep a la) (hrb : Rep b lb) {prof cap} :
    ∀ (n lo : Nat) (lp : List (K × Unit)) (s : St K Unit Q), lo ≤ la.length → la.length - lo < n →
      Ctx prof cap lp s →
      UOK prof cap (loopRes F cap lp (cloneL F ((la.drop lo).filter (notIn F lb))))
        (subLoop F a b n ⟨lo, la.length⟩) s
  | 0, lo, lp, s, _, hn, _ => by omega
  | n + 1, lo, lp, s, hlo, hn, hc => by
    unfold subLoop
    have hq := filtNext_qex F hF hra hrb false ⟨lo, la.length⟩ (Nat.le_refl _)
    refine UOK.bind_ret (hq.ret hc) (fun s1 hc1 => ?_)
    have hspec := lFiltNextR_spec F la lb (la.length - lo) lo (by omega)
    simp only [lFiltNext, SliceIt.len]
    generalize lFiltNextR F la lb false (la.length - lo) lo = r at hspec ⊢
    obtain ⟨o, lo'⟩ := r
    cases o with
    | none =>
      simp only at hspec
      rw [hspec]
      exact ⟨s1, rfl, hc1⟩
    | some x =>
      obtain ⟨j, k⟩ := x
      obtain ⟨hj, h1, h2, h3, h4⟩ := hspec
      subst h2 h3
      rw [h4, cloneL_cons, loopRes_cons]
      simp only
      obtain ⟨k', ⟨m, hk'⟩, hck⟩ := cb_ret (EqClone.cloneK_cb F la[j].1) hc1
      rw [hcl.1] at hk'
      subst hk'
      refine UOK.bind_ret hck (fun s2 hc2 => ?_)
      rcases insert_cases F hF hc2 (F.clK 0 la[j].1) () with ⟨hno, r, hins⟩ | ⟨hfull, hins⟩
      · rw [if_neg hno]
        refine UOK.bind_ret hins (fun s3 hc3 => ?_)
        exact subLoop_ok hF hcl hra hrb n (j + 1) _ s3 (by omega) (by omega) hc3
      · rw [if_pos hfull]
        exact ⟨lp, Pan.bind hins⟩

theorem subInto_ok (hF : F.Pure) (hcl : Env.CloneStable F) {a b : Raw K Unit} {la lb : List (K × Unit)}
    (hra : Rep a la) (hrb : Rep b lb) {prof} {w : World K Unit Q} (hb : Benign w) (hp : w.profile = prof) :
    BuildOK prof a.cap (lBuild F a.cap (cloneL F (la.filter (notIn F lb)))) (subInto F a b) w := by
  have hc0 : Ctx prof a.cap ([] : List (K × Unit)) (⟨Raw.new a.cap, w⟩ : St K Unit Q) :=
    ⟨Rep.new _, rfl, hb, hp⟩
  unfold subInto
  refine buildOK_of_loop F ?_
  refine UOK.bind_ret ⟨_, Iters.iterStartR_ok hra _, hc0⟩ (fun s1 hc1 => ?_)
  have := subLoop_ok F hF hcl hra hrb (la.length + 1) 0 [] s1 (Nat.zero_le _) (by omega) hc1
  simpa [SliceIt.len] using this

end sub

/-! ### `a.extend(b)` with `b` a set that is moved in -/

section extendFrom
variable {K Q : Type} (F : Env K Unit Q)

/-- outcome of the loop of `extend_from` on the pair (source register, destination register), in
    terms of the keys `items` the consuming iterator still yields (in yield order) and the list `ld`
    of the destination: no surplus item — the loop returns, the source is empty, the destination
    holds the fold of single inserts; otherwise it unwinds with the overflow panic of the profile,
    the source is empty all the same (the rest was dropped with the iterator) and the destination
    keeps what went in before the first surplus item. -/
def XOK (prof : Profile) (capS capD : Nat) (ld items : List (K × Unit))
    (r : Res (Raw K Unit × St K Unit Q) Unit) : Prop :=
  if overflowAt F capD ld items = none then
    ∃ x, r = .ok () x ∧ Rep x.1 ([] : List (K × Unit)) ∧ x.1.cap = capS ∧
      Ctx prof capD (foldInsert F ld items) x.2
  else
    ∃ x, r = .panic (fullPanic prof) x ∧ Rep x.1 ([] : List (K × Unit)) ∧ x.1.cap = capS ∧
      Ctx prof capD (foldInsert F ld (items.take ((overflowAt F capD ld items).getD 0))) x.2

theorem overflowAt_cons (cap : Nat) (lp : List (K × Unit)) (k : K) (v : Unit) (rest : List (K × Unit)) :
    overflowAt F cap lp ((k, v) :: rest) =
      if findKey F lp (.key k) = none ∧ cap ≤ lp.length then some 0
      else (overflowAt F cap (insertL F lp k v) rest).map (· + 1) := rfl

theorem XOK.cons {prof capS capD} {ld : List (K × Unit)} {k : K} {v : Unit} {rest : List (K × Unit)}
    {r : Res (Raw K Unit × St K Unit Q) Unit}
    (hno : ¬ (findKey F ld (.key k) = none ∧ capD ≤ ld.length))
    (h : XOK F prof capS capD (insertL F ld k v) rest r) : XOK F prof capS capD ld ((k, v) :: rest) r := by
  unfold XOK at h ⊢
  rw [overflowAt_cons, if_neg hno]
  cases hov : overflowAt F capD (insertL F ld k v) rest with
  | none =>
    rw [hov, if_pos rfl] at h
    simpa [foldInsert_cons] using h
  | some m =>
    rw [hov, if_neg (by simp)] at h
    simpa [foldInsert_cons] using h

/-- **the loop of `a.extend(b)` computes the list-level fold**: under a pure `==`, in a benign
    world, from a source holding `ls` and a destination holding `ld`. -/
theorem extendFromLoop_ok (hF : F.Pure) {prof : Profile} {capS capD : Nat} :
    ∀ (n : Nat) (ls ld : List (K × Unit)) (rs : Raw K Unit) (sd : St K Unit Q),
      ls.length < n → Rep rs ls → rs.cap = capS → Ctx prof capD ld sd →
      XOK F prof capS capD ld ls.reverse (extendFromLoop F n rs sd)
  | 0, _, _, _, _, hn, _, _, _ => by omega
  | n + 1, ls, ld, rs, sd, hn, hr, hcs, hc => by
    have hnext : ∃ o s1, intoIterNextK F .keys ⟨rs, sd.w⟩ = .ok o s1 ∧ o = ls.getLast? ∧
        Rep s1.r ls.dropLast ∧ s1.r.cap = rs.cap ∧
        WRel sd.w s1.w ((o.map (Iters.discardTr F .keys)).getD []) := by
      rcases outcome (Iters.intoIterNextK_sat F .keys (s := ⟨rs, sd.w⟩) hr) with
        ⟨o, s1, h⟩ | ⟨c, s1, _, _, _, hi', _⟩
      · exact ⟨o, s1, h⟩
      · exact (no_inj (s := ⟨rs, sd.w⟩) hc.benign hi').elim
    obtain ⟨o, s1, hm, ho, hrep1, hcap1, hw1⟩ := hnext
    have hcap1' : s1.r.cap = capS := hcap1.trans hcs
    have hcd1 : Ctx prof capD ld (⟨sd.r, s1.w⟩ : St K Unit Q) :=
      hc.frame (s' := ⟨sd.r, s1.w⟩) rfl hw1
    unfold extendFromLoop
    simp only [hm]
    rcases Iters.nil_or_snoc ls with rfl | ⟨L, p, rfl⟩
    · simp only [List.getLast?_nil] at ho
      subst ho
      simp only [List.dropLast_nil] at hrep1
      show XOK F prof capS capD ld [] _
      unfold XOK
      rw [if_pos (show overflowAt F capD ld [] = none from rfl)]
      exact ⟨_, rfl, hrep1, hcap1', hc.frame (s' := { sd with w := s1.w }) rfl hw1⟩
    · have hlast : (L ++ [p]).getLast? = some p := by simp
      have hdl : (L ++ [p]).dropLast = L := by simp
      rw [hlast] at ho
      rw [hdl] at hrep1
      subst ho
      simp only
      have hrev : (L ++ [p]).reverse = (p.1, p.2) :: L.reverse := by simp
      rw [hrev]
      simp only [List.length_append, List.length_cons, List.length_nil] at hn
      rcases insert_cases F hF hcd1 p.1 () with ⟨hno, a, s2, hins, hc2⟩ | ⟨hfull, s2, hins, hc2⟩
      · rw [hins]
        exact XOK.cons F hno (extendFromLoop_ok hF n L _ s1.r s2 (by omega) hrep1 hcap1' hc2)
      · rw [hins]
        have hu : ((⟨s1.r, s2.w⟩ : St K Unit Q).setUnw true).w.unwinding = true := rfl
        have hdrop : ∃ s3, dropAndRenew F ((⟨s1.r, s2.w⟩ : St K Unit Q).setUnw true) = .ok () s3 ∧
            s3.r = Raw.new s1.r.cap ∧
            WRel ((⟨s1.r, s2.w⟩ : St K Unit Q).setUnw true).w s3.w (dropTrace F L) := by
          rcases outcome (Iters.dropAndRenew_unw F (s := (⟨s1.r, s2.w⟩ : St K Unit Q).setUnw true) hrep1 hu) with
            ⟨_, s3, h⟩ | ⟨_, _, _, hf⟩
          · exact ⟨s3, h⟩
          · exact hf.elim
        obtain ⟨s3, hdr, hr3, hw3⟩ := hdrop
        simp only
        rw [hdr]
        unfold XOK
        rw [overflowAt_cons, if_pos hfull, if_neg (by simp)]
        simp only [Option.getD_some, List.take_zero]
        have hw3' : WRel s2.w (s3.setUnw s2.w.unwinding).w _ :=
          WRel.through_unw (s' := (⟨s1.r, s2.w⟩ : St K Unit Q)) hw3
        refine ⟨_, rfl, ?_, ?_, hc2.frame (s' := { s2 with w := (s3.setUnw s2.w.unwinding).w }) rfl hw3'⟩
        · show Rep s3.r []
          rw [hr3]; exact Rep.new _
        · show s3.r.cap = capS
          rw [hr3]; exact hcap1'

/-! #### what the destination gains, as a list -/

/-- the elements of the source `ls` that the destination `ld` does not hold, in the order the
    consuming iterator yields them (last slot first). -/
def gained (ld ls : List (K × Unit)) : List (K × Unit) :=
  ls.reverse.filter fun p => !SetAlg.memB F.keq p.1 (ld.map (·.1))

/-- pairwise unequal keys arriving on top of `acc`: exactly those not yet present are appended. -/
theorem firstKeys_of_nodup (keq : K → K → Bool) : ∀ (xs acc : List K), SetAlg.NodupB keq xs →
    firstKeys keq acc xs = acc ++ xs.filter (fun k => !SetAlg.memB keq k acc)
  | [], acc, _ => by simp [firstKeys]
  | k :: xs, acc, hn => by
    have hk : ∀ x, x ∈ xs → keq k x = false := (List.pairwise_cons.mp hn).1
    have hxs : SetAlg.NodupB keq xs := (List.pairwise_cons.mp hn).2
    show firstKeys keq (if SetAlg.memB keq k acc then acc else acc ++ [k]) xs = _
    cases hm : SetAlg.memB keq k acc with
    | true =>
      simp only [if_true]
      rw [firstKeys_of_nodup keq xs acc hxs, List.filter_cons, hm]
      simp
    | false =>
      simp only [Bool.false_eq_true, if_false]
      rw [firstKeys_of_nodup keq xs (acc ++ [k]) hxs, List.filter_cons, hm]
      simp only [Bool.not_false, if_true, List.append_assoc, List.singleton_append]
      congr 2
      apply List.filter_congr
      intro x hx
      rw [SetAlg.memB_append]
      have : SetAlg.memB keq x [k] = false := by
        rw [SetAlg.memB_eq_false]
        intro y hy
        have : y = k := by simpa using hy
        subst this; exact hk x hx
      rw [this, Bool.or_false]

theorem map_fst_unit_inj : ∀ {l l' : List (K × Unit)}, l.map (·.1) = l'.map (·.1) → l = l'
  | [], [], _ => rfl
  | [], _ :: _, h => by simp at h
  | _ :: _, [], h => by simp at h
  | (a, ()) :: l, (b, ()) :: l', h => by
    simp only [List.map_cons, List.cons.injEq] at h
    obtain ⟨rfl, h2⟩ := h
    rw [map_fst_unit_inj h2]

/-- **`a.extend(b)` on lists**, source keys pairwise unequal: the destination keeps its entries
    (and their key objects) and gains exactly the source's elements it did not hold. -/
theorem foldInsert_gain (hF : F.Lawful) (ld ls : List (K × Unit)) (hn : SetAlg.NodupKeys F.keq ls) :
    foldInsert F ld ls.reverse = ld ++ gained F ld ls := by
  apply map_fst_unit_inj
  have hrev : SetAlg.NodupB F.keq (ls.reverse.map (·.1)) := by
    unfold SetAlg.NodupKeys SetAlg.NodupB at *
    rw [List.map_reverse, List.pairwise_reverse]
    exact hn.imp (fun {a b} h => by rw [hF.symm]; exact h)
  rw [foldInsert_keys, firstKeys_of_nodup F.keq _ _ hrev, List.map_append]
  congr 1
  unfold gained
  rw [List.filter_map]
  rfl

/-- … and it fits exactly when there is room for what is gained. -/
theorem overflowAt_none_of_gain (hF : F.Lawful) (cap : Nat) (ld ls : List (K × Unit))
    (hnd : SetAlg.NodupKeys F.keq ld) (hroom : ld.length + (gained F ld ls).length ≤ cap) :
    overflowAt F cap ld ls.reverse = none := by
  refine overflowAt_none_of_cover hF cap ((ld ++ gained F ld ls).map (·.1)) (by simpa using hroom)
    ls.reverse ld hnd ?_
  intro x hx
  rw [SetAlg.memB_eq_true]
  rcases hx with hx | hx
  · exact ⟨x, by rw [List.map_append]; exact List.mem_append_left _ hx, hF.refl x⟩
  · cases hm : SetAlg.memB F.keq x (ld.map (·.1)) with
    | true =>
      obtain ⟨y, hy, hyx⟩ := SetAlg.memB_eq_true.mp hm
      exact ⟨y, by rw [List.map_append]; exact List.mem_append_left _ hy, hyx⟩
    | false =>
      refine ⟨x, ?_, hF.refl x⟩
      rw [List.map_append]
      apply List.mem_append_right
      obtain ⟨p, hp, rfl⟩ := List.mem_map.mp hx
      exact List.mem_map_of_mem (List.mem_filter.mpr ⟨hp, by simp [hm]⟩)

end extendFrom

end Micromap.ListSys
