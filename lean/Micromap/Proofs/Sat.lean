/-
Program logic for the L0 machine: one total-correctness triple with a normal and
an unwinding postcondition in which `ub` is simply false.
-/
import Micromap.Model.Basic

namespace Micromap

/-- `Sat m s Q P`: from `s`, `m` does not reach `ub`; if it returns `a` in `s'` then
    `Q a s'`; if it unwinds with class `c` in `s'` then `P c s'`. -/
def Sat (m : M σ α) (s : σ) (Q : α → σ → Prop) (P : PanicClass → σ → Prop) : Prop :=
  match m s with
  | .ok a s' => Q a s'
  | .panic c s' => P c s'
  | .ub => False

theorem Sat.pure {a : α} {s : σ} {Q : α → σ → Prop} {P} (h : Q a s) :
    Sat (pure a : M σ α) s Q P := h

theorem Sat.bind {m : M σ α} {f : α → M σ β} {s : σ} {Q₁ : α → σ → Prop}
    {Q : β → σ → Prop} {P : PanicClass → σ → Prop}
    (h₁ : Sat m s Q₁ P) (h₂ : ∀ a s', Q₁ a s' → Sat (f a) s' Q P) :
    Sat (m >>= f) s Q P := by
  unfold Sat at h₁ ⊢
  show match M.bind m f s with | .ok a s' => Q a s' | .panic c s' => P c s' | .ub => False
  unfold M.bind
  cases hm : m s with
  | ok a s' => rw [hm] at h₁; exact h₂ a s' h₁
  | panic c s' => rw [hm] at h₁; exact h₁
  | ub => rw [hm] at h₁; exact h₁

theorem Sat.mono {m : M σ α} {s : σ} {Q Q' : α → σ → Prop} {P P' : PanicClass → σ → Prop}
    (h : Sat m s Q P) (hQ : ∀ a s', Q a s' → Q' a s') (hP : ∀ c s', P c s' → P' c s') :
    Sat m s Q' P' := by
  unfold Sat at h ⊢
  cases hm : m s with
  | ok a s' => rw [hm] at h; exact hQ a s' h
  | panic c s' => rw [hm] at h; exact hP c s' h
  | ub => rw [hm] at h; exact h

/-- conjunction of two triples about the same run. -/
theorem Sat.and {m : M σ α} {s : σ} {Q₁ Q₂ : α → σ → Prop} {P₁ P₂ : PanicClass → σ → Prop}
    (h₁ : Sat m s Q₁ P₁) (h₂ : Sat m s Q₂ P₂) :
    Sat m s (fun a s' => Q₁ a s' ∧ Q₂ a s') (fun c s' => P₁ c s' ∧ P₂ c s') := by
  unfold Sat at *
  cases hm : m s with
  | ok a s' => rw [hm] at h₁ h₂; exact ⟨h₁, h₂⟩
  | panic c s' => rw [hm] at h₁ h₂; exact ⟨h₁, h₂⟩
  | ub => rw [hm] at h₁; exact h₁

theorem Sat.ok_of {m : M σ α} {s : σ} {Q P} (h : Sat m s Q P) {a s'} (hm : m s = .ok a s') : Q a s' := by
  unfold Sat at h; rw [hm] at h; exact h

theorem Sat.panic_of {m : M σ α} {s : σ} {Q P} (h : Sat m s Q P) {c s'} (hm : m s = .panic c s') :
    P c s' := by
  unfold Sat at h; rw [hm] at h; exact h

theorem Sat.not_ub {m : M σ α} {s : σ} {Q P} (h : Sat m s Q P) : m s ≠ .ub := by
  intro hm; unfold Sat at h; rw [hm] at h; exact h

/-- a run that is known never to unwind. -/
theorem Sat.of_ok {m : M σ α} {s : σ} {Q : α → σ → Prop} {P} {a s'} (hm : m s = .ok a s') (h : Q a s') :
    Sat m s Q P := by
  unfold Sat; rw [hm]; exact h

@[simp] theorem pure_apply (a : α) (s : σ) : (pure a : M σ α) s = .ok a s := rfl

@[simp] theorem bind_apply (m : M σ α) (f : α → M σ β) (s : σ) :
    (m >>= f) s = match m s with
      | .ok a s' => f a s'
      | .panic c s' => .panic c s'
      | .ub => .ub := rfl

theorem Sat.getS {s : σ} {Q : σ → σ → Prop} {P} (h : Q s s) : Sat (getS : M σ σ) s Q P := h
theorem Sat.setS {s t : σ} {Q : Unit → σ → Prop} {P} (h : Q () t) : Sat (setS t : M σ Unit) s Q P := h
theorem Sat.modS {s : σ} {f : σ → σ} {Q : Unit → σ → Prop} {P} (h : Q () (f s)) :
    Sat (modS f : M σ Unit) s Q P := h
theorem Sat.throwP {s : σ} {c} {Q : α → σ → Prop} {P : PanicClass → σ → Prop} (h : P c s) :
    Sat (throwP c : M σ α) s Q P := h

theorem Sat.ite {c : Prop} [Decidable c] {m₁ m₂ : M σ α} {s : σ} {Q P}
    (h₁ : c → Sat m₁ s Q P) (h₂ : ¬c → Sat m₂ s Q P) : Sat (if c then m₁ else m₂) s Q P := by
  split
  · exact h₁ ‹_›
  · exact h₂ ‹_›

end Micromap

namespace Micromap

/-- a run whose normal postcondition is impossible must unwind. -/
theorem Sat.must_panic {m : M σ α} {s : σ} {Q : α → σ → Prop} {P} (h : Sat m s Q P)
    (hQ : ∀ a s', Q a s' → False) : ∃ c s', m s = .panic c s' ∧ P c s' := by
  unfold Sat at h
  cases hm : m s with
  | ok a s' => rw [hm] at h; exact (hQ a s' h).elim
  | panic c s' => rw [hm] at h; exact ⟨c, s', rfl, h⟩
  | ub => rw [hm] at h; exact h.elim

/-- a run whose unwinding postcondition is impossible must return. -/
theorem Sat.must_return {m : M σ α} {s : σ} {Q : α → σ → Prop} {P} (h : Sat m s Q P)
    (hP : ∀ c s', P c s' → False) : ∃ a s', m s = .ok a s' ∧ Q a s' := by
  unfold Sat at h
  cases hm : m s with
  | ok a s' => rw [hm] at h; exact ⟨a, s', rfl, h⟩
  | panic c s' => rw [hm] at h; exact (hP c s' h).elim
  | ub => rw [hm] at h; exact h.elim

end Micromap
