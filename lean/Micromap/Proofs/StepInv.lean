/-
Preservation of the invariant by every operation of the operation language (`stepMapOp`,
`stepSetOp`), for any user equality, any injection point and either profile.
-/
import Micromap.Proofs.Inv
import Micromap.Proofs.Iters
import Micromap.Proofs.EqClone
import Micromap.Proofs.FromIter
import Micromap.Proofs.Alg
import Micromap.Model.Sys

namespace Micromap
open SetAlg Dict
variable {K V Q : Type} (E : Env K V Q)

/-! ### keys are untouched by writes through `&mut V` -/

theorem mapRange_wr_keys (g : V → V) (lo hi : Nat) (l : List (K × V)) :
    (Iters.mapRange (Iters.wr g) lo hi l).map (·.1) = l.map (·.1) := by
  apply List.ext_getElem?
  intro i
  simp only [List.getElem?_map, Iters.getElem?_mapRange]
  cases l[i]? with
  | none => split <;> rfl
  | some p => split <;> rfl

theorem nodupKeys_mapRange (keq : K → K → Bool) (g : V → V) (lo hi : Nat) {l : List (K × V)}
    (hn : NodupKeys keq l) : NodupKeys keq (Iters.mapRange (Iters.wr g) lo hi l) := by
  unfold NodupKeys at *
  rw [mapRange_wr_keys]; exact hn

/-! ### the remaining map operations -/

theorem opInv_insert_ii (k : K) (v : V) (upd : Bool) : OpInv E (insert_ii E k v upd) := by
  intro s ⟨l, hr, hn⟩
  refine Sat.mono (insert_ii_sat E hr k v upd) ?_ ?_
  · intro a s' ⟨hc, _, h⟩
    refine ⟨?_, hc⟩
    rcases h with ⟨hi, _, hrep, hf⟩ | ⟨_, _, _, hrep, hf⟩
    · refine ⟨_, hrep, fun hg => ?_⟩
      cases upd with
      | true =>
        exact nodupKeys_set hg.1.equivB (hn hg) hi _ _
          ((findKey_some_iff hg.1 (hn hg) _).mp (hf hg.1.toPure)).2
      | false => exact nodupKeys_set hg.1.equivB (hn hg) hi _ _ (hg.1.refl _)
    · refine ⟨_, hrep, fun hg => nodupKeys_append hg.1.equivB (hn hg) k v ?_⟩
      exact (findKey_none_iff E _).mp (hf hg.1.toPure)
  · intro c s' ⟨hs, _⟩
    exact ⟨⟨l, hs ▸ hr, hn⟩, by rw [hs]⟩

theorem opInv_drainOp (take : Nat) (forget : Bool) : OpInv E (drainOp E take forget) := by
  intro s ⟨l, hr, _⟩
  refine Sat.mono (Iters.drainOp_sat E take forget hr) ?_ ?_
  · intro _ s' ⟨_, hrep, hc, _⟩; exact ⟨⟨[], hrep, fun _ => List.Pairwise.nil⟩, hc⟩
  · intro _ s' ⟨hrep, hc, _⟩; exact ⟨⟨[], hrep, fun _ => List.Pairwise.nil⟩, hc⟩

theorem opInv_intoIterOp (kind : IntoKind) (take : Nat) (forget : Bool) :
    OpInv E (intoIterOp E kind take forget) := by
  intro s ⟨l, hr, _⟩
  refine Sat.mono (Iters.intoIterOp_sat E kind take forget hr) ?_ ?_
  · intro _ s' ⟨_, h, _⟩; exact ⟨h ▸ Inv.new E _, by rw [h]; rfl⟩
  · intro _ s' ⟨h, _⟩; exact ⟨h ▸ Inv.new E _, by rw [h]; rfl⟩

theorem opInv_iterOp (R : Render K V) (kind : IterKind) (g : V → V) (script : List IterCmd) :
    OpInv E (iterOp R kind g script) := by
  intro s ⟨l, hr, hn⟩
  obtain ⟨o, s', e, _, h2, h3, h4⟩ := Iters.iterOp_spec R kind g script hr
  refine Sat.of_ok e ⟨?_, h2⟩
  by_cases hm : Iters.IsMut kind
  · exact ⟨_, h4 hm, fun hg => nodupKeys_mapRange _ g _ _ (hn hg)⟩
  · rw [h3 hm]; exact ⟨l, hr, hn⟩

/-- `self == other` reads both operands and changes nothing. -/
theorem opInv_eq (b : Raw K V) (hb : Inv E b) :
    OpInv E (do let s ← getS; mapEq E s.r b : SM K V Q Bool) := by
  intro s hs
  obtain ⟨la, hra, hna⟩ := hs
  obtain ⟨lb, hrb, _⟩ := hb
  refine Sat.getS_bind ?_
  refine Sat.mono (EqClone.mapEq_cb E hra hrb s) ?_ ?_
  · intro _ s' ⟨h1, _⟩; exact ⟨⟨la, h1 ▸ hra, hna⟩, by rw [h1]⟩
  · intro _ s' ⟨h1, _⟩; exact ⟨⟨la, h1 ▸ hra, hna⟩, by rw [h1]⟩

/-! ### `extend` / `from_iter` body -/

theorem opInv_extendLoop (pulls : Bool) : ∀ xs : List (K × V), OpInv E (extendLoop E pulls xs)
  | [] => by
    unfold extendLoop
    cases pulls
    · exact OpInv.pure ()
    · exact OpInv.of_cb pullSrc_cb
  | (k, v) :: rest => by
    have ih := opInv_extendLoop pulls rest
    have hbody : OpInv E (do
        let o ← unwindWith (dropList E rest) (insert E k v)
        match o with
        | some old => do
          unwindWith (dropList E rest) (dropV E old)
          extendLoop E pulls rest
        | none => extendLoop E pulls rest) := by
      refine OpInv.bind (OpInv.unwindWith (FromIter.dropList_cb E rest) (opInv_insert E k v)) (fun o => ?_)
      cases o with
      | none => exact ih
      | some old =>
        exact OpInv.bind (OpInv.unwindWith (FromIter.dropList_cb E rest) (OpInv.of_cb (dropV_cb E old)))
          (fun _ => ih)
    unfold extendLoop
    cases pulls
    · exact hbody
    · exact OpInv.bind (OpInv.unwindWith (FromIter.dropList_cb E _) (OpInv.of_cb pullSrc_cb)) (fun _ => hbody)

/-! ### set algebra scripts (read-only) -/

section alg
variable {K Q : Type} (F : Env K Unit Q)
open Alg

theorem algRunForks_quiet {a b : Raw K Unit} {la lb : List (K × Unit)} (hra : Rep a la) (hrb : Rep b lb)
    (hlen : a.len + b.len = la.length + lb.length) :
    ∀ forks : List AlgIt, (∀ f, f ∈ forks → AlgInv la.length lb.length f ∧ meas f ≤ la.length + lb.length) →
      Quiet (algRunForks F a b forks) (fun _ => True)
  | [], _ => Quiet.pure trivial
  | f :: fs, hf => by
    unfold algRunForks
    obtain ⟨h1, h2⟩ := hf f (List.mem_cons_self ..)
    refine Quiet.bind (algRunOut_quiet F hra hrb _ f h1 (by omega)) (fun _ _ => ?_)
    refine Quiet.bind (algRunForks_quiet hra hrb hlen fs (fun g hg => hf g (List.mem_cons_of_mem _ hg)))
      (fun _ _ => Quiet.pure trivial)

theorem algScript_quiet (dbg : Bool → K → String) {a b : Raw K Unit} {la lb : List (K × Unit)} (hra : Rep a la)
    (hrb : Rep b lb) (hlen : a.len + b.len = la.length + lb.length) :
    ∀ (cs : List IterCmd) (it : AlgIt) (forks : List AlgIt),
      AlgInv la.length lb.length it → meas it ≤ la.length + lb.length →
      (∀ f, f ∈ forks → AlgInv la.length lb.length f ∧ meas f ≤ la.length + lb.length) →
      Quiet (algScript F dbg a b cs it forks) (fun _ => True)
  | [], it, forks, _, _, hf => by
    unfold algScript
    exact algRunForks_quiet F hra hrb hlen forks hf
  | c :: cs, it, forks, hi, hm, hf => by
    unfold algScript
    cases c with
    | next =>
      refine Quiet.bind (algNext_quiet F hra hrb it hi) (fun res hres => ?_)
      obtain ⟨_, h2, h3, _⟩ := hres
      exact Quiet.bind (algScript_quiet dbg hra hrb hlen cs res.2 forks h2 (by omega) hf)
        (fun _ _ => Quiet.pure trivial)
    | hint =>
      exact Quiet.bind (algScript_quiet dbg hra hrb hlen cs it forks hi hm hf) (fun _ _ => Quiet.pure trivial)
    | len => exact algScript_quiet dbg hra hrb hlen cs it forks hi hm hf
    | debug =>
      refine Quiet.bind (algRunOut_quiet F hra hrb _ it hi (by omega)) (fun _ _ => ?_)
      exact Quiet.bind (algScript_quiet dbg hra hrb hlen cs it forks hi hm hf) (fun _ _ => Quiet.pure trivial)
    | debugAlt =>
      refine Quiet.bind (algRunOut_quiet F hra hrb _ it hi (by omega)) (fun _ _ => ?_)
      exact Quiet.bind (algScript_quiet dbg hra hrb hlen cs it forks hi hm hf) (fun _ _ => Quiet.pure trivial)
    | clone =>
      refine algScript_quiet dbg hra hrb hlen cs it (forks ++ [it]) hi hm ?_
      intro f hfm
      rcases List.mem_append.mp hfm with h | h
      · exact hf f h
      · have : f = it := by simpa using h
        subst this; exact ⟨hi, hm⟩
    | count =>
      refine Quiet.bind (algFold_quiet F hra hrb it hi) (fun _ _ => ?_)
      exact Quiet.bind (algScript_quiet dbg hra hrb hlen [] it forks hi hm hf) (fun _ _ => Quiet.pure trivial)
    | fold =>
      refine Quiet.bind (algFold_quiet F hra hrb it hi) (fun _ _ => ?_)
      exact Quiet.bind (algScript_quiet dbg hra hrb hlen [] it forks hi hm hf) (fun _ _ => Quiet.pure trivial)

theorem algOp_quiet (dbg : Bool → K → String) (kind : AlgKind) {a b : Raw K Unit} {la lb : List (K × Unit)}
    (hra : Rep a la) (hrb : Rep b lb) (script : List IterCmd) :
    Quiet (algOp F dbg kind a b script) (fun _ => True) := by
  unfold algOp
  have hlen : a.len + b.len = la.length + lb.length := by rw [hra.1, hrb.1]
  have hstart : Quiet (algStart a b kind : SM K Unit Q AlgIt)
      (fun it => it = startIt la.length lb.length kind) := by
    intro s
    exact Sat.of_ok (algStart_eq hra hrb kind s) ⟨rfl, WRel.refl _, rfl⟩
  refine Quiet.bind hstart (fun it hit => ?_)
  subst hit
  exact algScript_quiet F dbg hra hrb hlen script _ [] (startIt_inv _ _ _) (startIt_meas _ _ _)
    (fun _ h => by simp at h)

end alg


/-! ### serde: serialization reads, deserialization is a sequence of `insert`s on a local -/

theorem iterAllR_ok {r : Raw K V} {l : List (K × V)} (hr : Rep r l) (s : St K V Q) :
    ∀ n i, i + n = l.length → iterAllR (Q := Q) r n i s = .ok (l.drop i) s
  | 0, i, h => by
    have : l.drop i = [] := List.drop_eq_nil_of_le (by omega)
    simp [iterAllR, this]
  | n + 1, i, h => by
    have hi : i < l.length := by omega
    unfold iterAllR
    have h1 : itemRefR r i s = .ok l[i] s := by
      unfold itemRefR; simp [hr.cap_lt hi, hr.slot hi]
    simp only [bind_apply, h1, iterAllR_ok hr s n (i + 1) (by omega), pure_apply]
    rw [List.drop_eq_getElem_cons hi]

/-- `serialize`: announces `len()` and emits exactly the entries `iter()` yields, in order; the
    container and the world are untouched. -/
theorem serializeR_ok {r : Raw K V} {l : List (K × V)} (hr : Rep r l) (s : St K V Q) :
    serializeR (Q := Q) r s =
      .ok (.start (some l.length) :: l.map (fun p => Tok.entry p.1 p.2) ++ [.fin]) s := by
  unfold serializeR
  have hle : r.len ≤ r.cap := hr.1 ▸ hr.2.1
  simp only [hle, if_true, bind_apply]
  rw [hr.1, iterAllR_ok hr s l.length 0 (by omega)]
  simp

theorem opInv_decodeK (k : K) : OpInv E (decodeK E k) := fun _ hs => ⟨hs, rfl⟩

theorem opInv_decodeV (v : V) : OpInv E (decodeV E v) := by
  intro s hs
  unfold Sat decodeV
  cases E.vGlue <;> exact ⟨hs, rfl⟩

theorem opInv_visitLoop : ∀ toks : List (Tok K V), OpInv E (visitLoop E toks)
  | [] => by unfold visitLoop; exact OpInv.pure ()
  | .start _ :: _ => by unfold visitLoop; exact OpInv.pure ()
  | .fin :: _ => by unfold visitLoop; exact OpInv.pure ()
  | .entry k v :: rest => by
    unfold visitLoop
    refine OpInv.bind (opInv_decodeK E k) (fun k' => ?_)
    refine OpInv.bind (opInv_decodeV E v) (fun v' => ?_)
    refine OpInv.bind (opInv_insert E k' v') (fun o => ?_)
    cases o with
    | none => exact opInv_visitLoop rest
    | some old => exact OpInv.bind (OpInv.of_cb (dropV_cb E old)) (fun _ => opInv_visitLoop rest)

/-! ### every operation of a map register -/

/-- the operations covered by the invariant theorem: the whole safe API.  Excluded are the two
    `unsafe fn`s (`insert_unchecked`, `get_disjoint_unchecked_mut`), whose contract is the caller's
    business (property C18). -/
def MapOp.safeApi : MapOp K V Q → Bool
  | .insert_unchecked _ _ => false
  | .get_disjoint_mut unchecked _ _ => !unchecked
  | _ => true

/-- operations whose invariant lemma lives in `StepInvEntry.lean`. -/
def MapOp.basic : MapOp K V Q → Bool
  | .insert_unchecked _ _ => false
  | .get_disjoint_mut _ _ _ => false
  | .entry _ _ _ => false
  | _ => true

theorem stepMapOp_inv_basic (R : Render K V) (other : Nat → Raw K V) (hother : ∀ o, Inv E (other o))
    (op : MapOp K V Q) (hop : op.basic = true) : OpInv E (stepMapOp E R other op) := by
  cases op with
  | insert k v =>
    exact OpInv.bind (opInv_insert E k v) (fun o => by cases o <;> exact OpInv.pure _)
  | insert_key_value k v =>
    exact OpInv.bind (opInv_insert_key_value E k v) (fun o => by cases o <;> exact OpInv.pure _)
  | checked_insert k v =>
    refine OpInv.bind (opInv_checked_insert E k v) (fun o => ?_)
    cases o with
    | none => exact OpInv.pure _
    | some o' => cases o' <;> exact OpInv.pure _
  | insert_unchecked k v => cases hop
  | get p => exact OpInv.bind (opInv_get E p) (fun _ => OpInv.pure _)
  | get_key_value p => exact OpInv.bind (opInv_get E p) (fun _ => OpInv.pure _)
  | get_mut p g => exact OpInv.bind (opInv_get_mut E p g) (fun _ => OpInv.pure _)
  | contains_key p => exact OpInv.bind (opInv_contains_key E p) (fun _ => OpInv.pure _)
  | index p => exact OpInv.bind (opInv_index E p) (fun _ => OpInv.pure _)
  | index_mut p g => exact OpInv.bind (opInv_index_mut E p g) (fun _ => OpInv.pure _)
  | remove p => exact OpInv.bind (opInv_remove E p) (fun o => by cases o <;> exact OpInv.pure _)
  | remove_entry p => exact OpInv.bind (opInv_remove_entry E p) (fun o => by cases o <;> exact OpInv.pure _)
  | retain f => exact OpInv.bind (opInv_retain E f) (fun _ => OpInv.pure _)
  | clear => exact OpInv.bind (opInv_clear E) (fun _ => OpInv.pure _)
  | len => exact OpInv.bind (opInv_len E) (fun _ => OpInv.pure _)
  | is_empty => exact OpInv.bind (opInv_is_empty E) (fun _ => OpInv.pure _)
  | capacity => exact OpInv.bind (opInv_capacity E) (fun _ => OpInv.pure _)
  | drain take forget => exact OpInv.bind (opInv_drainOp E take forget) (fun _ => OpInv.pure _)
  | into_iter kind take forget => exact OpInv.bind (opInv_intoIterOp E kind take forget) (fun _ => OpInv.pure _)
  | iter kind g script => exact OpInv.bind (opInv_iterOp E R kind g script) (fun _ => OpInv.pure _)
  | clone_to dst => exact OpInv.pure _
  | eq o =>
    intro s hs
    refine Sat.getS_bind ?_
    exact (OpInv.bind (opInv_eq E (other o) (hother o)) (fun _ => OpInv.pure _)) s hs
  | from_iter pulls xs => exact OpInv.pure _
  | entry k mods fin => cases hop
  | get_disjoint_mut u g ks => cases hop
  | fmt kind => exact OpInv.bind (opInv_fmtMap E R kind) (fun _ => OpInv.pure _)
  | drop => exact OpInv.bind (opInv_drop E) (fun _ => OpInv.pure _)
  | forget => exact OpInv.bind (opInv_forget E) (fun _ => OpInv.pure _)
  | with_capacity c =>
    refine OpInv.bind (opInv_capacity E) (fun cap => ?_)
    exact OpInv.bind (opInv_assertP E _ _) (fun _ => OpInv.pure _)
  | serde dst => exact OpInv.pure _


/-! ### every operation of a set register -/

section setops
variable {K Q : Type} (F : Env K Unit Q)

theorem opInv_fmtSet (R : Render K Unit) (kind : FmtKind) : OpInv F (fmtSet R kind) := by
  intro s ⟨l, hr, hn⟩
  have h : ∃ str, fmtSet R kind s = .ok str s := by
    unfold fmtSet
    simp only [bind_apply, Micromap.getS, Refine.entriesOf_ok hr]
    cases kind <;> exact ⟨_, rfl⟩
  obtain ⟨str, h⟩ := h
  exact Sat.of_ok h ⟨⟨l, hr, hn⟩, rfl⟩

/-- a read-only operation on `self` and another register. -/
theorem opInv_readonly2 {α : Type} (b : Raw K Unit) (hb : Inv F b) (m : Raw K Unit → Raw K Unit → SM K Unit Q α)
    (hq : ∀ {a b : Raw K Unit} {la lb : List (K × Unit)}, Rep a la → Rep b lb → Alg.Quiet (m a b) (fun _ => True)) :
    OpInv F (do let s ← getS; m s.r b : SM K Unit Q α) := by
  intro s hs
  obtain ⟨la, hra, hna⟩ := hs
  obtain ⟨lb, hrb, _⟩ := hb
  refine Sat.getS_bind ?_
  refine Sat.mono (hq hra hrb s) ?_ ?_
  · intro _ s' ⟨h1, _⟩; exact ⟨⟨la, h1 ▸ hra, hna⟩, by rw [h1]⟩
  · intro _ s' ⟨h1, _⟩; exact ⟨⟨la, h1 ▸ hra, hna⟩, by rw [h1]⟩

def SetOp.basic : SetOp K Q → Bool := fun _ => true

theorem stepSetOp_inv (R : Render K Unit) (other : Nat → Raw K Unit) (hother : ∀ o, Inv F (other o))
    (op : SetOp K Q) : OpInv F (stepSetOp F R other op) := by
  cases op with
  | insert k => exact OpInv.bind (opInv_insert F k ()) (fun _ => OpInv.pure _)
  | replace k =>
    refine OpInv.bind (opInv_insert_ii F k () true) (fun r => ?_)
    obtain ⟨i, ex⟩ := r
    cases ex <;> exact OpInv.pure _
  | contains p => exact OpInv.bind (opInv_contains_key F p) (fun _ => OpInv.pure _)
  | get p => exact OpInv.bind (opInv_get F p) (fun _ => OpInv.pure _)
  | remove p => exact OpInv.bind (opInv_remove F p) (fun _ => OpInv.pure _)
  | take p => exact OpInv.bind (opInv_remove_entry F p) (fun o => by cases o <;> exact OpInv.pure _)
  | retain f => exact OpInv.bind (opInv_retain F _) (fun _ => OpInv.pure _)
  | clear => exact OpInv.bind (opInv_clear F) (fun _ => OpInv.pure _)
  | len => exact OpInv.bind (opInv_len F) (fun _ => OpInv.pure _)
  | is_empty => exact OpInv.bind (opInv_is_empty F) (fun _ => OpInv.pure _)
  | capacity => exact OpInv.bind (opInv_capacity F) (fun _ => OpInv.pure _)
  | drain take forget =>
    refine OpInv.bind (opInv_drainOp F take forget) (fun r => ?_)
    obtain ⟨a, b, c⟩ := r
    exact OpInv.pure _
  | into_iter take forget =>
    refine OpInv.bind (opInv_intoIterOp F .keys take forget) (fun r => ?_)
    obtain ⟨a, b, c⟩ := r
    exact OpInv.pure _
  | iter script => exact OpInv.bind (opInv_iterOp F R .keys id script) (fun _ => OpInv.pure _)
  | clone_to dst => exact OpInv.pure _
  | eq o =>
    intro s hs
    refine Sat.getS_bind ?_
    exact (OpInv.bind (opInv_eq F (other o) (hother o)) (fun _ => OpInv.pure _)) s hs
  | from_iter pulls xs => exact OpInv.pure _
  | extend pulls xs => exact OpInv.bind (opInv_extendLoop F pulls _) (fun _ => OpInv.pure _)
  | alg kind o script =>
    intro s hs
    refine Sat.getS_bind ?_
    exact (OpInv.bind (opInv_readonly2 F (other o) (hother o)
      (fun a b => algOp F R.dbgK kind a b script) (fun ha hb => algOp_quiet F R.dbgK kind ha hb script))
      (fun _ => OpInv.pure _)) s hs
  | is_subset o =>
    intro s hs
    refine Sat.getS_bind ?_
    exact (OpInv.bind (opInv_readonly2 F (other o) (hother o) (fun a b => is_subset F a b)
      (fun ha hb => (Alg.is_subset_quiet F ha hb).mono (fun _ _ => trivial))) (fun _ => OpInv.pure _)) s hs
  | is_superset o =>
    intro s hs
    refine Sat.getS_bind ?_
    exact (OpInv.bind (opInv_readonly2 F (other o) (hother o) (fun a b => is_superset F a b)
      (fun ha hb => (Alg.is_superset_quiet F ha hb).mono (fun _ _ => trivial))) (fun _ => OpInv.pure _)) s hs
  | is_disjoint o =>
    intro s hs
    refine Sat.getS_bind ?_
    exact (OpInv.bind (opInv_readonly2 F (other o) (hother o) (fun a b => is_disjoint F a b)
      (fun ha hb => (Alg.is_disjoint_quiet F ha hb).mono (fun _ _ => trivial))) (fun _ => OpInv.pure _)) s hs
  | sub o dst => exact OpInv.pure _
  | fmt kind => exact OpInv.bind (opInv_fmtSet F R kind) (fun _ => OpInv.pure _)
  | drop => exact OpInv.bind (opInv_drop F) (fun _ => OpInv.pure _)
  | forget => exact OpInv.bind (opInv_forget F) (fun _ => OpInv.pure _)
  | serde dst => exact OpInv.pure _
  | extend_from o => exact OpInv.pure _

end setops

end Micromap
