/-
THE REFINEMENT THEOREM: the slot machine (`Micromap.step`, `Micromap.run`) computes the
list-level interpreter (`ListSys.lstep`, `ListSys.lrun`) of `Spec/ListSys.lean`.
-/
import Micromap.Proofs.ListSysBuild
import Micromap.Proofs.SysInv

namespace Micromap.ListSys
open Micromap
variable {K V Q : Type}

/-! ### the representation relation -/

/-- every register of `sys` represents the register of `ls` (its slots `[0, len)` are exactly the
    list, whatever the dead slots hold) with the same capacity; same build profile. -/
def SysRep (sys : Sys K V Q) (ls : LSys K V) : Prop :=
  (∀ i, Rep (sys.maps i) (ls.maps i).l ∧ (sys.maps i).cap = (ls.maps i).cap) ∧
  (∀ i, Rep (sys.sets i) (ls.sets i).l ∧ (sys.sets i).cap = (ls.sets i).cap) ∧
  sys.w.profile = ls.profile

theorem SysRep.init (capM capS : Nat → Nat) (w : World K V Q) :
    SysRep (Sys.init capM capS w) (LSys.init capM capS w.profile) :=
  ⟨fun _ => ⟨Rep.new _, rfl⟩, fun _ => ⟨Rep.new _, rfl⟩, rfl⟩

theorem SysRep.setMap {sys : Sys K V Q} {ls : LSys K V} (hs : SysRep sys ls) (i : Nat) {r : Raw K V}
    {c : Nat} {l' : List (K × V)} (hr : Rep r l') (hc : r.cap = c) {w : World K V Q}
    (hw : w.profile = ls.profile) :
    SysRep { sys with maps := updReg sys.maps i r, w := w } (ls.setMap i ⟨c, l'⟩) := by
  refine ⟨fun j => ?_, hs.2.1, hw⟩
  simp only [LSys.setMap, updReg]
  split
  · exact ⟨hr, hc⟩
  · exact hs.1 j

theorem SysRep.setSet {sys : Sys K V Q} {ls : LSys K V} (hs : SysRep sys ls) (i : Nat) {r : Raw K Unit}
    {c : Nat} {l' : List (K × Unit)} (hr : Rep r l') (hc : r.cap = c) {w : World K V Q}
    (hw : w.profile = ls.profile) :
    SysRep { sys with sets := updReg sys.sets i r, w := w } (ls.setSet i ⟨c, l'⟩) := by
  refine ⟨hs.1, fun j => ?_, hw⟩
  simp only [LSys.setSet, updReg]
  split
  · exact ⟨hr, hc⟩
  · exact hs.2.1 j

theorem SysRep.world {sys : Sys K V Q} {ls : LSys K V} (hs : SysRep sys ls) {w : World K V Q}
    (hw : w.profile = ls.profile) : SysRep { sys with w := w } ls := ⟨hs.1, hs.2.1, hw⟩

/-- a system-level computation has the outcome the interpreter gives. -/
def SysOK (res : LRes K V) (r : Res (Sys K V Q) (RV K V)) : Prop :=
  match res with
  | .ok ret ls' => ∃ sys', r = .ok ret sys' ∧ SysRep sys' ls' ∧ Benign sys'.w
  | .panic c ls' => ∃ sys', r = .panic c sys' ∧ SysRep sys' ls' ∧ Benign sys'.w

/-! ### running on one register -/

section lift
variable {sys : Sys K V Q} {ls : LSys K V} (hs : SysRep sys ls) (hb : Benign sys.w)
include hs

include hb in
theorem ctx_map (i : Nat) : Ctx ls.profile (ls.maps i).cap (ls.maps i).l (⟨sys.maps i, sys.w⟩ : St K V Q) :=
  ⟨(hs.1 i).1, (hs.1 i).2, hb, hs.2.2⟩

include hb in
theorem ctx_set (i : Nat) :
    Ctx ls.profile (ls.sets i).cap (ls.sets i).l (⟨sys.sets i, sys.w.toUnit⟩ : St K Unit Q) :=
  ⟨(hs.2.1 i).1, (hs.2.1 i).2, ⟨hb.1, hb.2⟩, hs.2.2⟩

theorem runOnMap_ret {α : Type} (i : Nat) {m : SM K V Q α} {a : α} {l' : List (K × V)}
    (h : Ret m ⟨sys.maps i, sys.w⟩ a (Ctx ls.profile (ls.maps i).cap l')) :
    ∃ sys', runOnMap sys i m = .ok a sys' ∧ SysRep sys' (ls.setMap i ⟨(ls.maps i).cap, l'⟩) ∧
      Benign sys'.w := by
  obtain ⟨s', hm, hc'⟩ := h
  exact ⟨_, by simp only [runOnMap, hm], hs.setMap i hc'.rep hc'.cap hc'.prof, hc'.benign⟩

theorem runOnMap_pan {α : Type} (i : Nat) {m : SM K V Q α} {c : PanicClass} {l' : List (K × V)}
    (h : Pan m ⟨sys.maps i, sys.w⟩ c (Ctx ls.profile (ls.maps i).cap l')) :
    ∃ sys', runOnMap sys i m = .panic c sys' ∧ SysRep sys' (ls.setMap i ⟨(ls.maps i).cap, l'⟩) ∧
      Benign sys'.w := by
  obtain ⟨s', hm, hc'⟩ := h
  exact ⟨_, by simp only [runOnMap, hm], hs.setMap i hc'.rep hc'.cap hc'.prof, hc'.benign⟩

theorem runOnSet_ret {α : Type} (i : Nat) {m : SM K Unit Q α} {a : α} {l' : List (K × Unit)}
    (h : Ret m ⟨sys.sets i, sys.w.toUnit⟩ a (Ctx ls.profile (ls.sets i).cap l')) :
    ∃ sys', runOnSet sys i m = .ok a sys' ∧ SysRep sys' (ls.setSet i ⟨(ls.sets i).cap, l'⟩) ∧
      Benign sys'.w := by
  obtain ⟨s', hm, hc'⟩ := h
  exact ⟨{ sys with sets := updReg sys.sets i s'.r, w := sys.w.mergeUnit s'.w },
    by simp only [runOnSet, hm],
    hs.setSet i (w := sys.w.mergeUnit s'.w) hc'.rep hc'.cap hc'.prof, ⟨hc'.benign.1, hc'.benign.2⟩⟩

theorem runOnSet_pan {α : Type} (i : Nat) {m : SM K Unit Q α} {c : PanicClass} {l' : List (K × Unit)}
    (h : Pan m ⟨sys.sets i, sys.w.toUnit⟩ c (Ctx ls.profile (ls.sets i).cap l')) :
    ∃ sys', runOnSet sys i m = .panic c sys' ∧ SysRep sys' (ls.setSet i ⟨(ls.sets i).cap, l'⟩) ∧
      Benign sys'.w := by
  obtain ⟨s', hm, hc'⟩ := h
  exact ⟨{ sys with sets := updReg sys.sets i s'.r, w := sys.w.mergeUnit s'.w },
    by simp only [runOnSet, hm],
    hs.setSet i (w := sys.w.mergeUnit s'.w) hc'.rep hc'.cap hc'.prof, ⟨hc'.benign.1, hc'.benign.2⟩⟩

theorem runOnMap_ok (i : Nat) {m : SM K V Q (RV K V)} {res : RRes K V}
    (h : RegOK ls.profile (ls.maps i).cap res m ⟨sys.maps i, sys.w⟩) :
    SysOK (liftMap ls i id res) (runOnMap sys i m) := by
  cases res with
  | ok ret l' =>
    obtain ⟨sys', h1, h2, h3⟩ := runOnMap_ret hs i h
    exact ⟨sys', h1, h2, h3⟩
  | panic c l' =>
    obtain ⟨sys', h1, h2, h3⟩ := runOnMap_pan hs i h
    exact ⟨sys', h1, h2, h3⟩

theorem runOnSet_ok (i : Nat) {m : SM K Unit Q (RV K Unit)} {res : RRes K Unit}
    (h : RegOK ls.profile (ls.sets i).cap res m ⟨sys.sets i, sys.w.toUnit⟩) :
    SysOK (liftSet ls i res)
      (match runOnSet sys i m with
        | .ok a s => .ok a.castU s | .panic c s => .panic c s | .ub => .ub) := by
  cases res with
  | ok ret l' =>
    obtain ⟨sys', h1, h2, h3⟩ := runOnSet_ret hs i h
    exact ⟨sys', by rw [h1], h2, h3⟩
  | panic c l' =>
    obtain ⟨sys', h1, h2, h3⟩ := runOnSet_pan hs i h
    exact ⟨sys', by rw [h1], h2, h3⟩

/-! ### build and assign -/

variable (E : Env K V Q)

theorem assignMap_some (dst cap : Nat) {build : SM K V Q Unit} {l' : List (K × V)}
    (h : BuildOK ls.profile cap (some l') build sys.w) :
    ∃ sys', assignMap E sys dst cap build = .ok () sys' ∧
      SysRep sys' (ls.setMap dst ⟨cap, l'⟩) ∧ Benign sys'.w := by
  obtain ⟨s1, h1, hc1⟩ := h
  -- the old value of the destination is dropped
  have hcd : Ctx ls.profile (ls.maps dst).cap (ls.maps dst).l (⟨sys.maps dst, s1.w⟩ : St K V Q) :=
    ⟨(hs.1 dst).1, (hs.1 dst).2, hc1.benign, hc1.prof⟩
  obtain ⟨s2, h2, hc2⟩ := dropAndRenew_ret E hcd
  exact ⟨_, by simp only [assignMap, h1, h2], hs.setMap dst hc1.rep hc1.cap hc2.prof, hc2.benign⟩

theorem assignMap_none (dst cap : Nat) {build : SM K V Q Unit}
    (h : BuildOK ls.profile cap none build sys.w) :
    ∃ sys', assignMap E sys dst cap build = .panic (fullPanic ls.profile) sys' ∧
      SysRep sys' ls ∧ Benign sys'.w := by
  obtain ⟨s1, h1, hb1, hp1⟩ := h
  exact ⟨_, by simp only [assignMap, h1], hs.world hp1, hb1⟩

theorem assignSet_some (dst cap : Nat) {build : SM K Unit Q Unit} {l' : List (K × Unit)}
    (h : BuildOK ls.profile cap (some l') build sys.w.toUnit) :
    ∃ sys', assignSet E sys dst cap build = .ok () sys' ∧
      SysRep sys' (ls.setSet dst ⟨cap, l'⟩) ∧ Benign sys'.w := by
  obtain ⟨s1, h1, hc1⟩ := h
  have hcd : Ctx ls.profile (ls.sets dst).cap (ls.sets dst).l (⟨sys.sets dst, s1.w⟩ : St K Unit Q) :=
    ⟨(hs.2.1 dst).1, (hs.2.1 dst).2, hc1.benign, hc1.prof⟩
  obtain ⟨s2, h2, hc2⟩ := dropAndRenew_ret E.toUnit hcd
  exact ⟨{ sys with sets := updReg sys.sets dst s1.r, w := sys.w.mergeUnit s2.w },
    by simp only [assignSet, h1, h2],
    hs.setSet dst (w := sys.w.mergeUnit s2.w) hc1.rep hc1.cap hc2.prof, ⟨hc2.benign.1, hc2.benign.2⟩⟩

theorem assignSet_none (dst cap : Nat) {build : SM K Unit Q Unit}
    (h : BuildOK ls.profile cap none build sys.w.toUnit) :
    ∃ sys', assignSet E sys dst cap build = .panic (fullPanic ls.profile) sys' ∧
      SysRep sys' ls ∧ Benign sys'.w := by
  obtain ⟨s1, h1, hb1, hp1⟩ := h
  exact ⟨{ sys with w := sys.w.mergeUnit s1.w }, by simp only [assignSet, h1],
    hs.world (w := sys.w.mergeUnit s1.w) hp1, ⟨hb1.1, hb1.2⟩⟩

end lift

/-! ### one operation -/

/-- the operations the refinement theorem covers: the whole operation language except the two
    `unsafe fn`s (`insert_unchecked`, `get_disjoint_unchecked_mut`: outside their contract the model
    has `ub`) and the harness command `inject` (it arms a fault: the next world is not benign). -/
def _root_.Micromap.Op.inSpec : Op K V Q → Bool
  | .inject _ => false
  | op => op.safeApi

/-- the side conditions on user code beyond a time-independent `==`: `retain` predicates do not
    look at the call counter; for the operations whose RESULT contains clones (`clone_to`,
    `&a - &b`, `serde`) the user's `Clone` does not depend on the fresh-object counter. -/
def Op.SideOK (E : Env K V Q) : Op K V Q → Prop
  | .map _ (.clone_to _) => Env.CloneStable E
  | .map _ (.serde _) => Env.CloneStable E
  | .map _ op => MapOp.SideOK op
  | .set _ (.clone_to _) => Env.CloneStable E
  | .set _ (.serde _) => Env.CloneStable E
  | .set _ (.sub _ _) => Env.CloneStable E
  | .set _ op => SetOp.SideOK op
  | .umap _ op => MapOp.SideOK op
  | .inject _ => True
  | .endCase => True

theorem tokSummary_tokens (l : List (K × V)) : tokSummary (Serde.tokens l) = lTokSummary l := by
  unfold tokSummary Serde.tokens lTokSummary
  have : ∀ xs : List (K × V), (List.filter Tok.isEntry
      (xs.map fun p => Tok.entry p.1 p.2)).length = xs.length := by
    intro xs; induction xs with
    | nil => rfl
    | cons p xs ih => simp [List.filter_cons, Tok.isEntry, ih]
  simp [List.filter_append, Tok.isEntry]
  exact this l

theorem Env.Pure.toUnit {E : Env K V Q} (h : E.Pure) : E.toUnit.Pure := ⟨h.k, h.q⟩

section core
variable (E : Env K V Q) (R : Render K V) {sys : Sys K V Q} {ls : LSys K V}

theorem stepCore_map_ok (hE : E.Pure) (hs : SysRep sys ls) (hb : Benign sys.w) (reg : Nat)
    (mop : MapOp K V Q) (hop : mop.safeApi = true) (hside : Op.SideOK E (.map reg mop)) :
    SysOK (lstepCore E R ls (.map reg mop)) (stepCore E R sys (.map reg mop)) := by
  have hctx := ctx_map hs hb reg
  have hreg : ∀ (op : MapOp K V Q), op.safeApi = true → MapOp.SideOK op →
      SysOK (liftMap ls reg id (lMapOp E R ls.profile (ls.maps reg).cap (fun o => (ls.maps o).l)
        (ls.maps reg).l op)) (runOnMap sys reg (stepMapOp E R sys.maps op)) := fun op h1 h2 =>
    runOnMap_ok hs reg (stepMapOp_ok E R hE hctx sys.maps _ (fun o => (hs.1 o).1) op h1 h2)
  cases mop with
  | serde dst =>
    have hcl : Env.CloneStable E := hside
    have hser : serializeR (Q := Q) (sys.maps reg) ⟨sys.maps reg, sys.w⟩ =
        .ok (Serde.tokens (ls.maps reg).l) ⟨sys.maps reg, sys.w⟩ := serializeR_ok (hs.1 reg).1 _
    have hbuild := deserialize_ok E hE hcl (ls.maps reg).l (cap := (ls.maps dst).cap) hb hs.2.2
    simp only [stepCore, lstepCore, hser, (hs.1 dst).2]
    cases hres : lBuild E (ls.maps dst).cap (cloneL E (ls.maps reg).l) with
    | some l' =>
      rw [hres] at hbuild
      obtain ⟨sys', h1, h2, h3⟩ := assignMap_some hs E dst _ hbuild
      have h1' : assignMap E { maps := sys.maps, sets := sys.sets, w := sys.w } dst (ls.maps dst).cap
          (deserializeInto E (Serde.tokens (ls.maps reg).l)) = .ok () sys' := h1
      rw [h1', tokSummary_tokens]
      exact ⟨sys', rfl, h2, h3⟩
    | none =>
      rw [hres] at hbuild
      obtain ⟨sys', h1, h2, h3⟩ := assignMap_none hs E dst _ hbuild
      have h1' : assignMap E { maps := sys.maps, sets := sys.sets, w := sys.w } dst (ls.maps dst).cap
          (deserializeInto E (Serde.tokens (ls.maps reg).l)) = .panic (fullPanic ls.profile) sys' := h1
      rw [h1']
      exact ⟨sys', rfl, h2, h3⟩
  | clone_to dst =>
    have hcl : Env.CloneStable E := hside
    have hbuild : BuildOK ls.profile (sys.maps reg).cap (some (cloneL E (ls.maps reg).l))
        (cloneInto E (sys.maps reg)) sys.w := cloneInto_ret E hcl (hs.1 reg).1 hb hs.2.2
    obtain ⟨sys', h1, h2, h3⟩ := assignMap_some hs E dst _ hbuild
    simp only [stepCore, lstepCore, h1]
    rw [(hs.1 reg).2] at h2
    exact ⟨sys', rfl, h2, h3⟩
  | from_iter pulls xs =>
    have hbuild := from_iter_ok E hE pulls xs (cap := (sys.maps reg).cap) hb hs.2.2
    simp only [stepCore, lstepCore]
    rw [(hs.1 reg).2] at hbuild ⊢
    cases hres : lBuild E (ls.maps reg).cap xs with
    | some l' =>
      rw [hres] at hbuild
      obtain ⟨sys', h1, h2, h3⟩ := assignMap_some hs E reg _ hbuild
      rw [h1]
      exact ⟨sys', rfl, h2, h3⟩
    | none =>
      rw [hres] at hbuild
      obtain ⟨sys', h1, h2, h3⟩ := assignMap_none hs E reg _ hbuild
      rw [h1]
      exact ⟨sys', rfl, h2, h3⟩
  | _ => exact hreg _ hop hside

/-- **`sets[i].extend(sets[j])`** (`j ≠ i`, the set `j` moved in) computes the list-level meaning:
    the destination is the fold of single inserts of the source's keys in the order the consuming
    iterator yields them (last first); the source is empty afterwards; when a new key finds the
    destination full, the overflow panic of the profile, with what went in so far kept and the
    source emptied all the same. -/
theorem extendFrom_ok (hE : E.Pure) (hs : SysRep sys ls) (hb : Benign sys.w) (i j : Nat) :
    SysOK
      (if FromIter.overflowAt E.toUnit (ls.sets i).cap (ls.sets i).l (ls.sets j).l.reverse = none then
        .ok .unit ((ls.setSet j ⟨(ls.sets j).cap, []⟩).setSet i
          ⟨(ls.sets i).cap, FromIter.foldInsert E.toUnit (ls.sets i).l (ls.sets j).l.reverse⟩)
      else
        .panic (fullPanic ls.profile) ((ls.setSet j ⟨(ls.sets j).cap, []⟩).setSet i
          ⟨(ls.sets i).cap, FromIter.foldInsert E.toUnit (ls.sets i).l
            ((ls.sets j).l.reverse.take
              ((FromIter.overflowAt E.toUnit (ls.sets i).cap (ls.sets i).l (ls.sets j).l.reverse).getD 0))⟩))
      (match extendFrom E sys i j with
        | .ok _ s => .ok .unit s | .panic c s => .panic c s | .ub => .ub) := by
  have hF : E.toUnit.Pure := Env.Pure.toUnit hE
  have hloop := extendFromLoop_ok E.toUnit hF (prof := ls.profile) (capS := (ls.sets j).cap)
    (capD := (ls.sets i).cap) ((sys.sets j).len + 1) (ls.sets j).l (ls.sets i).l (sys.sets j)
    ⟨sys.sets i, sys.w.toUnit⟩ (by rw [(hs.2.1 j).1.1]; omega) (hs.2.1 j).1 (hs.2.1 j).2 (ctx_set hs hb i)
  unfold XOK at hloop
  unfold extendFrom
  split at hloop
  · rename_i hov
    rw [if_pos hov]
    obtain ⟨x, hx, hr0, hc0, hcd⟩ := hloop
    rw [hx]
    have hcs : Ctx ls.profile (ls.sets j).cap ([] : List (K × Unit)) (⟨x.1, x.2.w⟩ : St K Unit Q) :=
      ⟨hr0, hc0, hcd.benign, hcd.prof⟩
    obtain ⟨s4, h4, hc4⟩ := dropAndRenew_ret E.toUnit hcs
    simp only
    rw [h4]
    refine ⟨extendFin sys i j s4.r x.2.r s4.w, rfl, ?_, ⟨hc4.benign.1, hc4.benign.2⟩⟩
    exact (hs.setSet j (w := sys.w) hc4.rep hc4.cap hs.2.2).setSet i (w := sys.w.mergeUnit s4.w)
      hcd.rep hcd.cap hc4.prof
  · rename_i hov
    rw [if_neg hov]
    obtain ⟨x, hx, hr0, hc0, hcd⟩ := hloop
    rw [hx]
    refine ⟨extendFin sys i j x.1 x.2.r x.2.w, rfl, ?_, ⟨hcd.benign.1, hcd.benign.2⟩⟩
    exact (hs.setSet j (w := sys.w) hr0 hc0 hs.2.2).setSet i (w := sys.w.mergeUnit x.2.w)
      hcd.rep hcd.cap hcd.prof

theorem stepCore_set_ok (hE : E.Pure) (hs : SysRep sys ls) (hb : Benign sys.w) (reg : Nat)
    (sop : SetOp K Q) (hside : Op.SideOK E (.set reg sop)) :
    SysOK (lstepCore E R ls (.set reg sop)) (stepCore E R sys (.set reg sop)) := by
  have hF : E.toUnit.Pure := Env.Pure.toUnit hE
  have hctx := ctx_set hs hb reg
  have hbu : Benign sys.w.toUnit := ⟨hb.1, hb.2⟩
  have hreg : ∀ (op : SetOp K Q), SetOp.SideOK op →
      SysOK (liftSet ls reg (lSetOp E.toUnit R.toUnit ls.profile (ls.sets reg).cap (fun o => (ls.sets o).l)
        (ls.sets reg).l op))
        (match runOnSet sys reg (stepSetOp E.toUnit R.toUnit sys.sets op) with
          | .ok a s => .ok a.castU s | .panic c s => .panic c s | .ub => .ub) := fun op h2 =>
    runOnSet_ok hs reg (stepSetOp_ok E.toUnit R.toUnit hF hctx sys.sets _ (fun o => (hs.2.1 o).1) op h2)
  have hdef := hreg sop
  cases sop with
  | serde dst =>
    have hcl : Env.CloneStable E.toUnit := Env.CloneStable.toUnit hside
    have hser : serializeR (Q := Q) (sys.sets reg) ⟨sys.sets reg, sys.w.toUnit⟩ =
        .ok (Serde.tokens (ls.sets reg).l) ⟨sys.sets reg, sys.w.toUnit⟩ := serializeR_ok (hs.2.1 reg).1 _
    -- the world after serializing: nothing happened
    have hs1 : SysRep ({ sys with w := sys.w.mergeUnit sys.w.toUnit } : Sys K V Q) ls := hs.world hs.2.2
    have hb1 : Benign ({ sys with w := sys.w.mergeUnit sys.w.toUnit } : Sys K V Q).w := ⟨hb.1, hb.2⟩
    have hbuild := deserialize_ok E.toUnit hF hcl (ls.sets reg).l (cap := (ls.sets dst).cap)
      (w := (sys.w.mergeUnit sys.w.toUnit).toUnit) ⟨hb.1, hb.2⟩ hs.2.2
    simp only [stepCore, lstepCore, hser, (hs.2.1 dst).2]
    cases hres : lBuild E.toUnit (ls.sets dst).cap (cloneL E.toUnit (ls.sets reg).l) with
    | some l' =>
      rw [hres] at hbuild
      obtain ⟨sys', h1, h2, h3⟩ := assignSet_some hs1 E dst _ hbuild
      rw [h1, tokSummary_tokens]
      exact ⟨sys', rfl, h2, h3⟩
    | none =>
      rw [hres] at hbuild
      obtain ⟨sys', h1, h2, h3⟩ := assignSet_none hs1 E dst _ hbuild
      rw [h1]
      exact ⟨sys', rfl, h2, h3⟩
  | clone_to dst =>
    have hcl : Env.CloneStable E.toUnit := Env.CloneStable.toUnit hside
    have hbuild : BuildOK ls.profile (sys.sets reg).cap (some (cloneL E.toUnit (ls.sets reg).l))
        (cloneInto E.toUnit (sys.sets reg)) sys.w.toUnit :=
      cloneInto_ret E.toUnit hcl (hs.2.1 reg).1 hbu hs.2.2
    obtain ⟨sys', h1, h2, h3⟩ := assignSet_some hs E dst _ hbuild
    simp only [stepCore, lstepCore, h1]
    rw [(hs.2.1 reg).2] at h2
    exact ⟨sys', rfl, h2, h3⟩
  | from_iter pulls xs =>
    have hbuild := from_iter_ok E.toUnit hF pulls (xs.map fun k => (k, ())) (cap := (sys.sets reg).cap)
      hbu hs.2.2
    simp only [stepCore, lstepCore]
    rw [(hs.2.1 reg).2] at hbuild ⊢
    cases hres : lBuild E.toUnit (ls.sets reg).cap (xs.map fun k => (k, ())) with
    | some l' =>
      rw [hres] at hbuild
      obtain ⟨sys', h1, h2, h3⟩ := assignSet_some hs E reg _ hbuild
      rw [h1]
      exact ⟨sys', rfl, h2, h3⟩
    | none =>
      rw [hres] at hbuild
      obtain ⟨sys', h1, h2, h3⟩ := assignSet_none hs E reg _ hbuild
      rw [h1]
      exact ⟨sys', rfl, h2, h3⟩
  | sub o dst =>
    have hcl : Env.CloneStable E.toUnit := Env.CloneStable.toUnit hside
    have hbuild := subInto_ok E.toUnit hF hcl (hs.2.1 reg).1 (hs.2.1 o).1 hbu hs.2.2
    -- the difference has at most `|a| ≤ cap a` elements: the collection cannot overflow
    have hroom : (cloneL E.toUnit ((ls.sets reg).l.filter (notIn E.toUnit (ls.sets o).l))).length ≤
        (ls.sets reg).cap := by
      have h1 := (hs.2.1 reg).1.2.1
      have h2 := List.length_filter_le (notIn E.toUnit (ls.sets o).l) (ls.sets reg).l
      have h3 := (hs.2.1 reg).2
      simp only [cloneL, List.length_map]
      omega
    simp only [stepCore, lstepCore]
    rw [(hs.2.1 reg).2] at hbuild ⊢
    rw [lBuild_of_room E.toUnit _ _ hroom] at hbuild
    obtain ⟨sys', h1, h2, h3⟩ := assignSet_some hs E dst _ hbuild
    rw [h1]
    exact ⟨sys', rfl, h2, h3⟩
  | extend_from o =>
    simp only [stepCore, lstepCore]
    by_cases ho : o = reg
    · rw [if_pos ho, if_pos ho]
      exact ⟨sys, rfl, hs, hb⟩
    · rw [if_neg ho, if_neg ho]
      exact extendFrom_ok E hE hs hb reg o
  | _ => exact hdef hside

theorem stepCore_umap_ok (hE : E.Pure) (hs : SysRep sys ls) (hb : Benign sys.w) (reg : Nat)
    (uop : MapOp K Unit Q) (hop : uop.safeApi = true) (hside : MapOp.SideOK uop) :
    SysOK (lstepCore E R ls (.umap reg uop)) (stepCore E R sys (.umap reg uop)) := by
  have hF : E.toUnit.Pure := Env.Pure.toUnit hE
  have hctx := ctx_set hs hb reg
  have hreg : ∀ (op : MapOp K Unit Q), op.safeApi = true → MapOp.SideOK op →
      SysOK (liftSet ls reg (lMapOp E.toUnit R.toUnit ls.profile (ls.sets reg).cap (fun o => (ls.sets o).l)
        (ls.sets reg).l op))
        (match runOnSet sys reg (stepMapOp E.toUnit R.toUnit sys.sets op) with
          | .ok a s => .ok a.castU s | .panic c s => .panic c s | .ub => .ub) := fun op h1 h2 =>
    runOnSet_ok hs reg
      (stepMapOp_ok E.toUnit R.toUnit hF hctx sys.sets _ (fun o => (hs.2.1 o).1) op h1 h2)
  cases uop with
  | serde dst => exact ⟨sys, rfl, hs, hb⟩
  | clone_to dst => exact ⟨sys, rfl, hs, hb⟩
  | from_iter pulls xs => exact ⟨sys, rfl, hs, hb⟩
  | _ => exact hreg _ hop hside

/-- the end of a test case: the harness drops registers 0 and 1 of each kind. -/
theorem dropAllRegs_ok (hs : SysRep sys ls) (hb : Benign sys.w) :
    ∃ sys', dropAllRegs E sys = .ok () sys' ∧ Benign sys'.w ∧
      SysRep sys'
        { ls with
          maps := updReg (updReg ls.maps 0 ⟨(ls.maps 0).cap, []⟩) 1 ⟨(ls.maps 1).cap, []⟩
          sets := updReg (updReg ls.sets 0 ⟨(ls.sets 0).cap, []⟩) 1 ⟨(ls.sets 1).cap, []⟩ } := by
  obtain ⟨s1, e1, r1, b1⟩ := runOnMap_ret hs 0 (dropAndRenew_ret E (ctx_map hs hb 0))
  obtain ⟨s2, e2, r2, b2⟩ := runOnMap_ret r1 1 (dropAndRenew_ret E (ctx_map r1 b1 1))
  obtain ⟨s3, e3, r3, b3⟩ := runOnSet_ret r2 0 (dropAndRenew_ret E.toUnit (ctx_set r2 b2 0))
  obtain ⟨s4, e4, r4, b4⟩ := runOnSet_ret r3 1 (dropAndRenew_ret E.toUnit (ctx_set r3 b3 1))
  refine ⟨s4, ?_, b4, r4⟩
  simp only [dropAllRegs, dropAllRegs.goM, dropAllRegs.goS, nRegs, e1, e2, e3, e4]

end core

/-! ### `step` and `run` -/

/-- what the interpreter is compared with: outcome and returned value of a step. -/
def view (o : Out K V Q) : LOut K V := ⟨o.outcome, o.ret⟩

section main
variable (E : Env K V Q) (R : Render K V)

/-- **ONE STEP.**  For a time-independent `==` (`E.Pure`), in a world without an armed fault
    (`Benign`), from registers that represent the lists of `ls`, every operation in the scope of
    the interpreter (`Op.inSpec`, with the side conditions `Op.SideOK` on user closures / clones):
    `step` shows the outcome and the returned value that the list-level interpreter computes,
    the registers afterwards represent the interpreter's lists (same capacities), and the world
    is again without an armed fault. -/
theorem step_refines (hE : E.Pure) {sys : Sys K V Q} {ls : LSys K V} (hb : Benign sys.w)
    (hs : SysRep sys ls) (op : Op K V Q) (hop : op.inSpec = true) (hside : Op.SideOK E op) :
    view (step E R sys op).2 = (lstep E R ls op).2 ∧
      SysRep (step E R sys op).1 (lstep E R ls op).1 ∧ Benign (step E R sys op).1.w := by
  have hs0 : SysRep ({ sys with w := { sys.w with events := [] } } : Sys K V Q) ls := hs.world hs.2.2
  have hb0 : Benign ({ sys with w := { sys.w with events := [] } } : Sys K V Q).w := ⟨hb.1, hb.2⟩
  -- the three kinds of register operations share the end of the proof
  have hfin : ∀ (o : Op K V Q), (∀ j, o ≠ .inject j) → o ≠ .endCase →
      SysOK (lstepCore E R ls o) (stepCore E R { sys with w := { sys.w with events := [] } } o) →
      view (step E R sys o).2 = (lstep E R ls o).2 ∧
        SysRep (step E R sys o).1 (lstep E R ls o).1 ∧ Benign (step E R sys o).1.w := by
    intro o hni hne h
    have hstep : step E R sys o =
        (match stepCore E R { sys with w := { sys.w with events := [] } } o with
          | .ok r s =>
            ({ s with w := { s.w with inject := none } },
             { outcome := .ok, ret := r, events := s.w.events, calls := s.w.calls - sys.w.calls,
               touchedMaps := (touched o).1, touchedSets := (touched o).2 })
          | .panic c s =>
            ({ s with w := { s.w with inject := none } },
             { outcome := .panic c, ret := .unit, events := s.w.events, calls := s.w.calls - sys.w.calls,
               touchedMaps := (touched o).1, touchedSets := (touched o).2 })
          | .ub => ({ sys with w := { sys.w with events := [] } },
                    { outcome := .ub, ret := .unit, events := [], calls := 0,
                      touchedMaps := (touched o).1, touchedSets := (touched o).2 })) := by
      cases o with
      | inject j => exact absurd rfl (hni j)
      | endCase => exact absurd rfl hne
      | _ => rfl
    rw [hstep]
    unfold lstep
    cases hl : lstepCore E R ls o with
    | ok ret ls' =>
      rw [hl] at h
      obtain ⟨sys', h1, h2, h3⟩ := h
      rw [h1]
      exact ⟨rfl, h2.world h2.2.2, ⟨rfl, h3.2⟩⟩
    | panic c ls' =>
      rw [hl] at h
      obtain ⟨sys', h1, h2, h3⟩ := h
      rw [h1]
      exact ⟨rfl, h2.world h2.2.2, ⟨rfl, h3.2⟩⟩
  cases op with
  | inject j => cases hop
  | endCase =>
    have hs1 : SysRep ({ sys with w := { { sys.w with events := [] } with inject := none } } : Sys K V Q) ls :=
      hs.world hs.2.2
    have hb1 : Benign ({ sys with w := { { sys.w with events := [] } with inject := none } } : Sys K V Q).w :=
      ⟨rfl, hb.2⟩
    obtain ⟨sys', h1, h2, h3⟩ := dropAllRegs_ok E hs1 hb1
    unfold step lstep
    simp only [h1, lstepCore]
    exact ⟨rfl, h3, h2⟩
  | map reg mop =>
    exact hfin _ (fun _ h => by cases h) (fun h => by cases h) (stepCore_map_ok E R hE hs0 hb0 reg mop hop hside)
  | set reg sop =>
    exact hfin _ (fun _ h => by cases h) (fun h => by cases h) (stepCore_set_ok E R hE hs0 hb0 reg sop hside)
  | umap reg uop =>
    exact hfin _ (fun _ h => by cases h) (fun h => by cases h) (stepCore_umap_ok E R hE hs0 hb0 reg uop hop hside)

/-- **EVERY HISTORY.**  From any system that represents `ls` in a benign world, for every list of
    operations in the scope of the interpreter: `run` shows, step by step, exactly the outcomes and
    returned values that `lrun` computes on the lists, and the final registers represent the final
    lists. -/
theorem run_refines' (hE : E.Pure) : ∀ (ops : List (Op K V Q)) (sys : Sys K V Q) (ls : LSys K V),
    Benign sys.w → SysRep sys ls → (∀ op ∈ ops, op.inSpec = true ∧ Op.SideOK E op) →
    (run E R sys ops).2.map view = (lrun E R ls ops).2 ∧
      SysRep (run E R sys ops).1 (lrun E R ls ops).1 ∧ Benign (run E R sys ops).1.w
  | [], sys, ls, hb, hs, _ => ⟨rfl, hs, hb⟩
  | op :: ops, sys, ls, hb, hs, hops => by
    obtain ⟨h1, h2, h3⟩ := step_refines E R hE hb hs op (hops op (List.mem_cons_self ..)).1
      (hops op (List.mem_cons_self ..)).2
    obtain ⟨g1, g2, g3⟩ := run_refines' hE ops _ _ h3 h2 (fun o ho => hops o (List.mem_cons_of_mem _ ho))
    simp only [run, lrun, List.map_cons]
    exact ⟨by rw [h1, g1], g2, g3⟩

/-- **`run` from the initial system** (`Sys.init`: all registers empty) computes `lrun` from the
    initial lists. -/
theorem run_refines (hE : E.Pure) (capM capS : Nat → Nat) (w0 : World K V Q) (hb : Benign w0)
    (ops : List (Op K V Q)) (hops : ∀ op ∈ ops, op.inSpec = true ∧ Op.SideOK E op) :
    (run E R (Sys.init capM capS w0) ops).2.map view =
        (lrun E R (LSys.init capM capS w0.profile) ops).2 ∧
      SysRep (run E R (Sys.init capM capS w0) ops).1 (lrun E R (LSys.init capM capS w0.profile) ops).1 ∧
      Benign (run E R (Sys.init capM capS w0) ops).1.w :=
  run_refines' E R hE ops _ _ hb (SysRep.init capM capS w0) hops

/-- **Only the lists matter.**  Two systems whose registers represent the same lists — whatever
    their dead slots hold, whatever their event logs, leak lists, call counters — show the same
    outcomes and returned values on every history, and end representing the same lists. -/
theorem run_deterministic_in_lists (hE : E.Pure) {sys₁ sys₂ : Sys K V Q} {ls : LSys K V}
    (hb₁ : Benign sys₁.w) (hb₂ : Benign sys₂.w) (hs₁ : SysRep sys₁ ls) (hs₂ : SysRep sys₂ ls)
    (ops : List (Op K V Q)) (hops : ∀ op ∈ ops, op.inSpec = true ∧ Op.SideOK E op) :
    (run E R sys₁ ops).2.map view = (run E R sys₂ ops).2.map view ∧
      ∃ ls', SysRep (run E R sys₁ ops).1 ls' ∧ SysRep (run E R sys₂ ops).1 ls' := by
  obtain ⟨h1, h2, _⟩ := run_refines' E R hE ops sys₁ ls hb₁ hs₁ hops
  obtain ⟨g1, g2, _⟩ := run_refines' E R hE ops sys₂ ls hb₂ hs₂ hops
  exact ⟨by rw [h1, g1], _, h2, g2⟩

end main



end Micromap.ListSys
