/-
Triples of the lazy set-algebra adaptors (`difference`, `intersection`, `union`,
`symmetric_difference`), of the set predicates and of `&a - &b` (helpers for C08).

All the read-only functions are "quiet" callbacks: they leave the whole state's container
alone, have no effect other than comparisons, and can only unwind by an injected panic.
Their functional result is stated under `E.Pure` relative to list-level readings
(`selRest`, `algRest`), which are then connected to `SetAlg.diffL` / `interL` / ….
-/
import Micromap.Model.Sys
import Micromap.Proofs.Bulk
import Micromap.Proofs.Bridge
import Micromap.Proofs.SetAlgLaws

namespace Micromap.Alg
open Micromap SetAlg Dict
variable {K V Q : Type}

/-! ### quiet computations -/

/-- a computation that frames the container, has no effect but comparisons, can only unwind by
    an injected panic, and whose result satisfies `Qv` whatever the oracle answers. -/
def Quiet {α : Type} (m : SM K V Q α) (Qv : α → Prop) : Prop :=
  CbOk m (fun _ => []) (fun _ a => Qv a)

theorem Quiet.pure {α : Type} {a : α} {Qv : α → Prop} (h : Qv a) : Quiet (pure a : SM K V Q α) Qv :=
  fun _ => ⟨rfl, WRel.refl _, h⟩

theorem Quiet.mono {α : Type} {m : SM K V Q α} {Qv Qv' : α → Prop} (h : Quiet m Qv)
    (hq : ∀ a, Qv a → Qv' a) : Quiet m Qv' :=
  CbOk.mono h (fun _ => rfl) (fun _ a => hq a)

theorem Quiet.bind {α β : Type} {m : SM K V Q α} {f : α → SM K V Q β} {Q₁ : α → Prop} {Q₂ : β → Prop}
    (hm : Quiet m Q₁) (hf : ∀ a, Q₁ a → Quiet (f a) Q₂) : Quiet (m >>= f) Q₂ := by
  intro s
  refine Sat.cb hm ?_ ?_
  · intro a s' h1 h2 h3
    refine Sat.mono (hf a h3 s') ?_ ?_
    · intro b s'' ⟨g1, g2, g3⟩
      exact ⟨g1.trans h1, by simpa using h2.trans g2, g3⟩
    · intro c s'' ⟨g1, g2, g3, g4, tr', g5⟩
      subst g2
      exact cb_panic_after h1 h2 g1 g3 g4 g5
  · intro s' tr' h1 h2 h3 h4
    exact ⟨h1, rfl, h2, h3, tr', h4⟩

/-- what a quiet computation gives as a safety triple under ANY oracle and ANY injection. -/
theorem Quiet.sat {α : Type} {m : SM K V Q α} {Qv : α → Prop} (h : Quiet m Qv) (s : St K V Q) :
    Sat m s (fun a s' => s'.r = s.r ∧ WRel s.w s'.w [] ∧ Qv a)
      (fun c s' => s'.r = s.r ∧ InjPanic s s' c) := by
  refine Sat.mono (h s) (fun _ _ h' => h') ?_
  intro c s' ⟨h1, h2, h3, h4, h5⟩
  exact ⟨h1, h2, h3, h4, h5⟩

/-- in a benign world a quiet computation returns. -/
theorem Quiet.run {α : Type} {m : SM K V Q α} {Qv : α → Prop} (h : Quiet m Qv) {s : St K V Q}
    (hb : Benign s.w) : ∃ a s', m s = .ok a s' ∧ s'.r = s.r ∧ WRel s.w s'.w [] ∧ Qv a := by
  obtain ⟨a, s', h1, h2⟩ := (h.sat s).must_return (by
    intro c s' ⟨_, hi⟩; exact hi.2.1 hb.1)
  exact ⟨a, s', h1, h2⟩

theorem Quiet.itemRefR {r : Raw K V} {l : List (K × V)} (hr : Rep r l) {i : Nat} (hi : i < l.length) :
    Quiet (Micromap.itemRefR r i : SM K V Q (K × V)) (fun p => p = l[i]) := by
  intro s
  have : Micromap.itemRefR r i s = .ok l[i] s := by
    simp [Micromap.itemRefR, hr.cap_lt hi, hr.slot hi]
  exact Sat.of_ok this ⟨rfl, WRel.refl _, rfl⟩

/-! ### `contains` -/

variable (E : Env K V Q)

theorem findKey_isSome_eq_memB (l : List (K × V)) (x : K) :
    (findKey E l (.key x)).isSome = memB E.keq x (l.map (·.1)) := by
  rw [findKey_eq_findIdxP]
  unfold findIdxP memB
  rw [List.findIdx?_isSome, List.any_map]
  rfl

/-- `other.contains(x)`: the scan of `b` answers list membership under a pure oracle. -/
theorem contains_quiet {b : Raw K V} {lb : List (K × V)} (hb : Rep b lb) (x : K) :
    Quiet (scanR E b (.key x))
      (fun o => (∀ j, o = some j → j < lb.length) ∧
        (E.Pure → o.isSome = memB E.keq x (lb.map (·.1)))) := by
  refine CbOk.mono (scanR_cb E hb (.key x)) (fun _ => rfl) ?_
  intro _ o ⟨h1, h2⟩
  exact ⟨h1, fun hp => by rw [h2 hp, findKey_isSome_eq_memB]⟩


/-! ### list-level reading of the filtering iterators -/

/-- the selected slots of `l` among positions `lo, lo+1, …` (`n` of them), each with its key. -/
def selRest (l : List (K × V)) (sel : K → Bool) : Nat → Nat → List (Nat × K)
  | 0, _ => []
  | n + 1, lo =>
    match l[lo]? with
    | some p => if sel p.1 then (lo, p.1) :: selRest l sel n (lo + 1) else selRest l sel n (lo + 1)
    | none => []

/-- the selection predicate of `Difference` (`want = false`) / `Intersection` (`want = true`). -/
def selD (keq : K → K → Bool) (kb : List K) (want : Bool) : K → Bool := fun x => memB keq x kb == want

/-- what `find` returns given what is left: the head, and the position after it. -/
def nextOfRest (lo n : Nat) : List (Nat × K) → Option (Nat × K) × Nat
  | [] => (none, lo + n)
  | x :: _ => (some x, x.1 + 1)

theorem selRest_succ_of_lt {l : List (K × V)} {sel : K → Bool} {n lo : Nat} (h : lo < l.length) :
    selRest l sel (n + 1) lo =
      if sel l[lo].1 then (lo, l[lo].1) :: selRest l sel n (lo + 1) else selRest l sel n (lo + 1) := by
  simp [selRest, List.getElem?_eq_getElem h]

/-- the keys of the selected slots are the filtered window of the key list. -/
theorem selRest_keys (l : List (K × V)) (sel : K → Bool) : ∀ n lo,
    (selRest l sel n lo).map (·.2) = (((l.map (·.1)).drop lo).take n).filter sel
  | 0, lo => by simp [selRest]
  | n + 1, lo => by
    by_cases h : lo < l.length
    · have hd : (l.map (·.1)).drop lo = l[lo].1 :: (l.map (·.1)).drop (lo + 1) := by
        rw [List.drop_eq_getElem_cons (by simpa using h)]; simp
      rw [selRest_succ_of_lt h, hd, List.take_succ_cons, List.filter_cons]
      cases hs : sel l[lo].1 <;> simp [selRest_keys l sel n (lo + 1)]
    · have : l[lo]? = none := List.getElem?_eq_none (by omega)
      have hd : (l.map (·.1)).drop lo = [] := List.drop_eq_nil_of_le (by simp; omega)
      simp [selRest, this, hd]

theorem selRest_length_le (l : List (K × V)) (sel : K → Bool) : ∀ n lo, (selRest l sel n lo).length ≤ n
  | 0, _ => by simp [selRest]
  | n + 1, lo => by
    have ih := selRest_length_le l sel n (lo + 1)
    unfold selRest
    split
    · split
      · simp; omega
      · omega
    · simp

/-- every selected item is a slot position of `l` within the window, with that slot's key, and
    satisfies the selection. -/
theorem selRest_mem {l : List (K × V)} {sel : K → Bool} : ∀ {n lo} {x : Nat × K}, x ∈ selRest l sel n lo →
    lo ≤ x.1 ∧ x.1 < lo + n ∧ sel x.2 = true ∧ ∃ h : x.1 < l.length, x.2 = l[x.1].1
  | 0, _, _, h => by simp [selRest] at h
  | n + 1, lo, x, h => by
    by_cases hl : lo < l.length
    · rw [selRest_succ_of_lt hl] at h
      have hrec : x ∈ selRest l sel n (lo + 1) →
          lo ≤ x.1 ∧ x.1 < lo + (n + 1) ∧ sel x.2 = true ∧ ∃ h : x.1 < l.length, x.2 = l[x.1].1 := by
        intro hx
        obtain ⟨h1, h2, h3, h4⟩ := selRest_mem hx
        exact ⟨by omega, by omega, h3, h4⟩
      cases hs : sel l[lo].1 with
      | true =>
        rw [hs, if_pos rfl, List.mem_cons] at h
        rcases h with rfl | h
        · exact ⟨Nat.le_refl _, by omega, hs, hl, rfl⟩
        · exact hrec h
      | false =>
        rw [hs] at h
        exact hrec h
    · have : l[lo]? = none := List.getElem?_eq_none (by omega)
      simp [selRest, this] at h

/-- the positions come out strictly increasing: no slot is reported twice. -/
theorem selRest_sorted (l : List (K × V)) (sel : K → Bool) : ∀ n lo,
    (selRest l sel n lo).Pairwise (fun x y => x.1 < y.1)
  | 0, _ => by simp [selRest]
  | n + 1, lo => by
    have ih := selRest_sorted l sel n (lo + 1)
    unfold selRest
    split
    · split
      · rw [List.pairwise_cons]
        refine ⟨fun y hy => ?_, ih⟩
        have := (selRest_mem hy).1
        show lo < y.1
        omega
      · exact ih
    · simp

/-- the head of what is left is the FIRST selected position at or after `lo`, and the tail is
    what is left after it. -/
theorem selRest_cons {l : List (K × V)} {sel : K → Bool} : ∀ {n lo} {x : Nat × K} {t},
    selRest l sel n lo = x :: t →
    lo ≤ x.1 ∧ x.1 < lo + n ∧ (∃ h : x.1 < l.length, x.2 = l[x.1].1) ∧ sel x.2 = true ∧
    (∀ m (hm : m < l.length), lo ≤ m → m < x.1 → sel l[m].1 = false) ∧
    t = selRest l sel (lo + n - (x.1 + 1)) (x.1 + 1)
  | 0, _, _, _, h => by simp [selRest] at h
  | n + 1, lo, x, t, h => by
    by_cases hl : lo < l.length
    · rw [selRest_succ_of_lt hl] at h
      cases hs : sel l[lo].1 with
      | true =>
        rw [hs, if_pos rfl] at h
        injection h with h1 h2
        subst h1
        refine ⟨Nat.le_refl _, by omega, ⟨hl, rfl⟩, hs, fun m _ h1 h2 => by omega, ?_⟩
        rw [← h2]
        congr 1
        omega
      | false =>
        rw [hs] at h
        obtain ⟨h1, h2, h3, h4, h5, h6⟩ := selRest_cons h
        refine ⟨by omega, by omega, h3, h4, fun m hm g1 g2 => ?_, ?_⟩
        · by_cases hml : m = lo
          · subst hml; exact hs
          · exact h5 m hm (by omega) g2
        · rw [h6]; congr 1; omega
    · have : l[lo]? = none := List.getElem?_eq_none (by omega)
      simp [selRest, this] at h

/-- nothing left: no position of the window is selected. -/
theorem selRest_nil {l : List (K × V)} {sel : K → Bool} : ∀ {n lo}, selRest l sel n lo = [] →
    ∀ m (hm : m < l.length), lo ≤ m → m < lo + n → sel l[m].1 = false
  | 0, lo, _ => fun m _ h1 h2 => by omega
  | n + 1, lo, h => by
    intro m hm h1 h2
    have hl : lo < l.length := by omega
    rw [selRest_succ_of_lt hl] at h
    cases hs : sel l[lo].1 with
    | true => rw [hs, if_pos rfl] at h; cases h
    | false =>
      rw [hs] at h
      by_cases hml : m = lo
      · subst hml; exact hs
      · exact selRest_nil h m hm (by omega) (by omega)

/-! ### `Difference::next` / `Intersection::next` -/

/-- `find` over the rest of `a`, filtered by (non-)membership in `b`.  Under any oracle: it stays
    inside the window and a reported item is a slot of `a` with that slot's key; under a pure
    oracle: it returns the head of `selRest`. -/
theorem filtNextR_quiet {a b : Raw K V} {la lb : List (K × V)} (hra : Rep a la) (hrb : Rep b lb)
    (want : Bool) : ∀ n lo, lo + n ≤ la.length →
    Quiet (filtNextR E a b want n lo) (fun res =>
      lo ≤ res.2 ∧ res.2 ≤ lo + n ∧
      (∀ x, res.1 = some x → lo ≤ x.1 ∧ res.2 = x.1 + 1 ∧ ∃ h : x.1 < la.length, x.2 = la[x.1].1) ∧
      (E.Pure → res = nextOfRest lo n (selRest la (selD E.keq (lb.map (·.1)) want) n lo)))
  | 0, lo, _ => by
    unfold filtNextR
    exact Quiet.pure ⟨Nat.le_refl _, Nat.le_refl _, fun x h => (by cases h), fun _ => rfl⟩
  | n + 1, lo, hn => by
    have hl : lo < la.length := by omega
    unfold filtNextR
    refine Quiet.bind (Quiet.itemRefR hra hl) ?_
    rintro _ rfl
    refine Quiet.bind (contains_quiet E hrb la[lo].1) ?_
    intro c ⟨_, hc⟩
    by_cases hw : (c.isSome == want) = true
    · rw [if_pos hw]
      refine Quiet.pure ⟨by simp, by simp, ?_, fun hp => ?_⟩
      · intro x hx
        simp only [Option.some.injEq] at hx
        subst hx
        exact ⟨Nat.le_refl _, rfl, hl, rfl⟩
      · have hs : selD E.keq (lb.map (·.1)) want la[lo].1 = true := by
          unfold selD; rw [← hc hp]; exact hw
        rw [selRest_succ_of_lt hl, hs, if_pos rfl]
        rfl
    · rw [if_neg hw]
      refine Quiet.mono (filtNextR_quiet hra hrb want n (lo + 1) (by omega)) ?_
      intro res ⟨h1, h2, h3, h4⟩
      refine ⟨by omega, by omega, fun x hx => ?_, fun hp => ?_⟩
      · obtain ⟨g1, g2, g3⟩ := h3 x hx
        exact ⟨by omega, g2, g3⟩
      · have hs : selD E.keq (lb.map (·.1)) want la[lo].1 = false := by
          unfold selD; rw [← hc hp]; simpa using hw
        rw [selRest_succ_of_lt hl, hs, h4 hp]
        simp only [Bool.false_eq_true, if_false]
        cases selRest la (selD E.keq (lb.map (·.1)) want) n (lo + 1) with
        | nil => simp only [nextOfRest]; congr 1; omega
        | cons x t => rfl


theorem selD_true (keq : K → K → Bool) (kb : List K) : selD keq kb true = fun x => memB keq x kb := by
  funext x; simp [selD]

theorem selD_false (keq : K → K → Bool) (kb : List K) : selD keq kb false = fun x => !memB keq x kb := by
  funext x; simp [selD]

/-- `filtNext` on a window `it` of `a` (`it.hi ≤ |la|`). -/
theorem filtNext_quiet {a b : Raw K V} {la lb : List (K × V)} (hra : Rep a la) (hrb : Rep b lb)
    (want : Bool) (it : SliceIt) (hit : it.hi ≤ la.length) :
    Quiet (filtNext E a b want it) (fun res =>
      res.2.hi = it.hi ∧ it.lo ≤ res.2.lo ∧ res.2.len ≤ it.len ∧
      (∀ x, res.1 = some x → res.2.len < it.len ∧ it.lo ≤ x.1 ∧ res.2.lo = x.1 + 1 ∧
        ∃ h : x.1 < la.length, x.2 = la[x.1].1) ∧
      (E.Pure → res.1 = (selRest la (selD E.keq (lb.map (·.1)) want) it.len it.lo).head? ∧
        selRest la (selD E.keq (lb.map (·.1)) want) res.2.len res.2.lo =
          (selRest la (selD E.keq (lb.map (·.1)) want) it.len it.lo).tail)) := by
  unfold filtNext
  by_cases hlo : it.lo ≤ it.hi
  · have hn : it.lo + it.len ≤ la.length := by unfold SliceIt.len; omega
    refine Quiet.bind (filtNextR_quiet E hra hrb want it.len it.lo hn) ?_
    rintro ⟨o, lo'⟩ ⟨h1, h2, h3, h4⟩
    simp only at h1 h2 h3 h4
    refine Quiet.pure ⟨rfl, h1, by simp only [SliceIt.len] at h2 ⊢; omega, ?_, fun hp => ?_⟩
    · intro x hx
      obtain ⟨g1, g2, g3⟩ := h3 x hx
      exact ⟨by simp only [SliceIt.len] at h2 ⊢; omega, g1, g2, g3⟩
    · have h5 := h4 hp
      cases hR : selRest la (selD E.keq (lb.map (·.1)) want) it.len it.lo with
      | nil =>
        rw [hR] at h5
        simp only [nextOfRest, Prod.mk.injEq] at h5
        obtain ⟨rfl, rfl⟩ := h5
        have : ({ it with lo := it.lo + it.len } : SliceIt).len = 0 := by simp only [SliceIt.len]; omega
        simp only [this, selRest, List.head?_nil, List.tail_nil, and_self]
      | cons x t =>
        rw [hR] at h5
        simp only [nextOfRest, Prod.mk.injEq] at h5
        obtain ⟨rfl, rfl⟩ := h5
        obtain ⟨g1, g2, _, _, _, g6⟩ := selRest_cons hR
        refine ⟨rfl, ?_⟩
        have : ({ it with lo := x.1 + 1 } : SliceIt).len = it.lo + it.len - (x.1 + 1) := by
          simp only [SliceIt.len]; omega
        simp only [this, List.tail_cons]
        exact g6.symm
  · have hz : it.len = 0 := by unfold SliceIt.len; omega
    rw [hz]
    unfold filtNextR
    refine Quiet.bind (Quiet.pure (Qv := fun r => r = ((none : Option (Nat × K)), it.lo)) rfl) ?_
    rintro _ rfl
    refine Quiet.pure ⟨rfl, Nat.le_refl _, (by show it.hi - it.lo ≤ _; omega), fun x h => (by cases h), fun _ => ?_⟩
    simp [selRest, hz]

/-- the custom `fold` of `Difference` / `Intersection` visits exactly what `next` would yield. -/
theorem filtFoldR_quiet {a b : Raw K V} {la lb : List (K × V)} (hra : Rep a la) (hrb : Rep b lb)
    (want : Bool) : ∀ n lo, (0 < n → lo + n ≤ la.length) →
    Quiet (filtFoldR E a b want n lo) (fun res =>
      (∀ x, x ∈ res → lo ≤ x.1 ∧ x.1 < lo + n ∧ ∃ h : x.1 < la.length, x.2 = la[x.1].1) ∧
      (E.Pure → res = selRest la (selD E.keq (lb.map (·.1)) want) n lo))
  | 0, lo, _ => by
    unfold filtFoldR
    exact Quiet.pure ⟨fun x h => (by cases h), fun _ => rfl⟩
  | n + 1, lo, hn => by
    have hn := hn (Nat.succ_pos n)
    have hl : lo < la.length := by omega
    unfold filtFoldR
    refine Quiet.bind (Quiet.itemRefR hra hl) ?_
    rintro _ rfl
    refine Quiet.bind (contains_quiet E hrb la[lo].1) ?_
    intro c ⟨_, hc⟩
    refine Quiet.bind (filtFoldR_quiet hra hrb want n (lo + 1) (fun _ => by omega)) ?_
    intro rest ⟨h1, h2⟩
    have hrest : ∀ x, x ∈ rest → lo ≤ x.1 ∧ x.1 < lo + (n + 1) ∧ ∃ h : x.1 < la.length, x.2 = la[x.1].1 := by
      intro x hx
      obtain ⟨g1, g2, g3⟩ := h1 x hx
      exact ⟨by omega, by omega, g3⟩
    by_cases hw : (c.isSome == want) = true
    · rw [if_pos hw]
      refine Quiet.pure ⟨fun x hx => ?_, fun hp => ?_⟩
      · rw [List.mem_cons] at hx
        rcases hx with rfl | hx
        · exact ⟨Nat.le_refl _, by omega, hl, rfl⟩
        · exact hrest x hx
      · have hs : selD E.keq (lb.map (·.1)) want la[lo].1 = true := by
          unfold selD; rw [← hc hp]; exact hw
        rw [selRest_succ_of_lt hl, hs, if_pos rfl, h2 hp]
    · rw [if_neg hw]
      refine Quiet.pure ⟨hrest, fun hp => ?_⟩
      have hs : selD E.keq (lb.map (·.1)) want la[lo].1 = false := by
        unfold selD; rw [← hc hp]; simpa using hw
      rw [selRest_succ_of_lt hl, hs, h2 hp]
      simp

/-! ### the predicates -/

/-- `a.iter().all(|v| other.contains(v) == want)`. -/
theorem allContainR_quiet {a b : Raw K V} {la lb : List (K × V)} (hra : Rep a la) (hrb : Rep b lb)
    (want : Bool) : ∀ n i, i + n ≤ la.length →
    Quiet (allContainR E a b want n i) (fun res =>
      E.Pure → res = (((la.map (·.1)).drop i).take n).all (selD E.keq (lb.map (·.1)) want))
  | 0, i, _ => by
    unfold allContainR
    exact Quiet.pure (fun _ => by simp)
  | n + 1, i, hn => by
    have hl : i < la.length := by omega
    have hd : (la.map (·.1)).drop i = la[i].1 :: (la.map (·.1)).drop (i + 1) := by
      rw [List.drop_eq_getElem_cons (by simpa using hl)]; simp
    unfold allContainR
    refine Quiet.bind (Quiet.itemRefR hra hl) ?_
    rintro _ rfl
    refine Quiet.bind (contains_quiet E hrb la[i].1) ?_
    intro c ⟨_, hc⟩
    by_cases hw : (c.isSome == want) = true
    · rw [if_pos hw]
      refine Quiet.mono (allContainR_quiet hra hrb want n (i + 1) (by omega)) ?_
      intro res h hp
      have hs : selD E.keq (lb.map (·.1)) want la[i].1 = true := by
        unfold selD; rw [← hc hp]; exact hw
      rw [hd, List.take_succ_cons, List.all_cons, hs, h hp, Bool.true_and]
    · rw [if_neg hw]
      refine Quiet.pure (fun hp => ?_)
      have hs : selD E.keq (lb.map (·.1)) want la[i].1 = false := by
        unfold selD; rw [← hc hp]; simpa using hw
      rw [hd, List.take_succ_cons, List.all_cons, hs, Bool.false_and]

theorem allContain_quiet {a b : Raw K V} {la lb : List (K × V)} (hra : Rep a la) (hrb : Rep b lb)
    (want : Bool) :
    Quiet (allContain E a b want) (fun res =>
      E.Pure → res = (la.map (·.1)).all (selD E.keq (lb.map (·.1)) want)) := by
  unfold allContain
  rw [if_pos hra.safe.1, hra.1]
  refine Quiet.mono (allContainR_quiet E hra hrb want la.length 0 (by omega)) ?_
  intro res h hp
  rw [h hp, List.drop_zero, List.take_of_length_le (by simp)]

/-- `is_subset` computes `isSubsetCode` (length shortcut, then `all … contains`). -/
theorem is_subset_quiet {a b : Raw K V} {la lb : List (K × V)} (hra : Rep a la) (hrb : Rep b lb) :
    Quiet (is_subset E a b) (fun res =>
      E.Pure → res = isSubsetCode E.keq (la.map (·.1)) (lb.map (·.1))) := by
  unfold is_subset isSubsetCode
  rw [hra.1, hrb.1]
  simp only [List.length_map]
  by_cases h : la.length ≤ lb.length
  · rw [if_pos h, if_pos h]
    refine Quiet.mono (allContain_quiet E hra hrb true) ?_
    intro res hres hp
    rw [hres hp, selD_true]
  · rw [if_neg h, if_neg h]
    exact Quiet.pure (fun _ => rfl)

theorem is_superset_quiet {a b : Raw K V} {la lb : List (K × V)} (hra : Rep a la) (hrb : Rep b lb) :
    Quiet (is_superset E a b) (fun res =>
      E.Pure → res = isSubsetCode E.keq (lb.map (·.1)) (la.map (·.1))) :=
  is_subset_quiet E hrb hra

/-- `is_disjoint` computes `isDisjointCode` (iterate the shorter operand). -/
theorem is_disjoint_quiet {a b : Raw K V} {la lb : List (K × V)} (hra : Rep a la) (hrb : Rep b lb) :
    Quiet (is_disjoint E a b) (fun res =>
      E.Pure → res = isDisjointCode E.keq (la.map (·.1)) (lb.map (·.1))) := by
  unfold is_disjoint isDisjointCode
  rw [hra.1, hrb.1]
  simp only [List.length_map]
  by_cases h : la.length ≤ lb.length
  · rw [if_pos h, if_pos h]
    refine Quiet.mono (allContain_quiet E hra hrb false) ?_
    intro res hres hp
    rw [hres hp, selD_false]
  · rw [if_neg h, if_neg h]
    refine Quiet.mono (allContain_quiet E hrb hra false) ?_
    intro res hres hp
    rw [hres hp, selD_false]


/-! ### the four lazy iterators: list-level reading of an iterator state -/

/-- items of operand `op`. -/
def tag (op : Nat) (l : List (Nat × K)) : List (AlgItem K) := l.map fun x => (op, x.1, x.2)

/-- an item points into operand 0 (`self`, list `la`) or 1 (`other`, list `lb`) at a live slot
    and carries that slot's key: it is a reference to the operand's own element. -/
def ItemOf (la lb : List (K × V)) (x : AlgItem K) : Prop :=
  (x.1 = 0 ∧ ∃ h : x.2.1 < la.length, x.2.2 = la[x.2.1].1) ∨
  (x.1 = 1 ∧ ∃ h : x.2.1 < lb.length, x.2.2 = lb[x.2.1].1)

/-- what the first half of the iterator will still yield. -/
def fstRest (keq : K → K → Bool) (la lb : List (K × V)) (kind : AlgKind) (it : SliceIt) : List (AlgItem K) :=
  match kind with
  | .difference => tag 0 (selRest la (selD keq (lb.map (·.1)) false) it.len it.lo)
  | .symmetric_difference => tag 0 (selRest la (selD keq (lb.map (·.1)) false) it.len it.lo)
  | .intersection => tag 0 (selRest la (selD keq (lb.map (·.1)) true) it.len it.lo)
  | .union => tag 1 (selRest lb (fun _ => true) it.len it.lo)

/-- what the second half (of a chain) will still yield. -/
def sndRest (keq : K → K → Bool) (la lb : List (K × V)) (kind : AlgKind) (it : SliceIt) : List (AlgItem K) :=
  match kind with
  | .union => tag 0 (selRest la (selD keq (lb.map (·.1)) false) it.len it.lo)
  | _ => tag 1 (selRest lb (selD keq (la.map (·.1)) false) it.len it.lo)

/-- everything an iterator state will still yield, in order. -/
def algRest (keq : K → K → Bool) (la lb : List (K × V)) (s : AlgIt) : List (AlgItem K) :=
  (match s.fst with | some it => fstRest keq la lb s.kind it | none => []) ++
  (match s.snd with | some it => sndRest keq la lb s.kind it | none => [])

/-- well-formed iterator states over operands of `na` and `nb` elements (oracle-independent):
    the windows end inside their operand; plain adaptors have no second half. -/
structure AlgInv (na nb : Nat) (s : AlgIt) : Prop where
  fst : ∀ it, s.fst = some it → it.hi ≤ (if s.kind = .union then nb else na)
  snd : ∀ it, s.snd = some it → it.hi ≤ (if s.kind = .union then na else nb)
  plain : s.kind = .difference ∨ s.kind = .intersection → s.snd = none

/-- upper bound on the number of items still to come, whatever the oracle answers. -/
def meas (s : AlgIt) : Nat :=
  (match s.fst with | some it => it.len | none => 0) + (match s.snd with | some it => it.len | none => 0)

/-- the state `algStart` builds. -/
def startIt (na nb : Nat) : AlgKind → AlgIt
  | .difference => ⟨.difference, some ⟨0, na⟩, none⟩
  | .intersection => ⟨.intersection, some ⟨0, na⟩, none⟩
  | .union => ⟨.union, some ⟨0, nb⟩, some ⟨0, na⟩⟩
  | .symmetric_difference => ⟨.symmetric_difference, some ⟨0, na⟩, some ⟨0, nb⟩⟩

theorem startIt_kind (na nb : Nat) (kind : AlgKind) : (startIt na nb kind).kind = kind := by
  cases kind <;> rfl

theorem startIt_inv (na nb : Nat) (kind : AlgKind) : AlgInv na nb (startIt na nb kind) := by
  cases kind <;> constructor <;> simp [startIt]

theorem startIt_meas (na nb : Nat) (kind : AlgKind) : meas (startIt na nb kind) ≤ na + nb := by
  cases kind <;> simp [startIt, meas, SliceIt.len] <;> omega

theorem iterStartR_eq {r : Raw K V} {l : List (K × V)} (hr : Rep r l) (s : St K V Q) :
    iterStartR r s = .ok ⟨0, l.length⟩ s := by
  unfold iterStartR
  rw [if_pos hr.safe.1, hr.1]
  rfl

/-- `difference()` / `intersection()` / `union()` / `symmetric_difference()`: no callback, no
    effect; the fresh iterator covers both operands entirely. -/
theorem algStart_eq {a b : Raw K V} {la lb : List (K × V)} (hra : Rep a la) (hrb : Rep b lb)
    (kind : AlgKind) (s : St K V Q) :
    algStart a b kind s = .ok (startIt la.length lb.length kind) s := by
  cases kind <;> simp [algStart, bind_apply, iterStartR_eq hra, iterStartR_eq hrb, startIt]

/-- postcondition of one `next` of a half: the window only shrinks (strictly when an item is
    yielded), a yielded item satisfies `P`, and under `pur` it is the head of `R`. -/
def StepPost (R : SliceIt → List (AlgItem K)) (P : AlgItem K → Prop) (pur : Prop) (it : SliceIt)
    (res : Option (AlgItem K) × SliceIt) : Prop :=
  res.2.hi = it.hi ∧ res.2.len ≤ it.len ∧ (∀ x, res.1 = some x → res.2.len < it.len ∧ P x) ∧
  (pur → res.1 = (R it).head? ∧ R res.2 = (R it).tail)

theorem tag_head? (op : Nat) (l : List (Nat × K)) :
    (tag op l).head? = l.head?.map fun x => match x with | (i, k) => (op, i, k) := by
  cases l <;> rfl

theorem tag_tail (op : Nat) (l : List (Nat × K)) : (tag op l).tail = tag op l.tail := by
  cases l <;> rfl

/-- a tagged filtering half. -/
theorem filtHalf_quiet {a b : Raw K V} {la lb : List (K × V)} (hra : Rep a la) (hrb : Rep b lb)
    (want : Bool) (op : Nat) (P : AlgItem K → Prop)
    (hP : ∀ j (h : j < la.length), P (op, j, la[j].1))
    (it : SliceIt) (hit : it.hi ≤ la.length) :
    Quiet (filtNext E a b want it >>= fun x =>
        pure (x.1.map (fun y => match y with | (i, k) => (op, i, k)), x.2))
      (StepPost (fun it => tag op (selRest la (selD E.keq (lb.map (·.1)) want) it.len it.lo)) P E.Pure it) := by
  refine Quiet.bind (filtNext_quiet E hra hrb want it hit) ?_
  rintro ⟨o, it'⟩ ⟨h1, _, h3, h4, h5⟩
  simp only at h1 h3 h4 h5
  refine Quiet.pure ⟨h1, h3, ?_, fun hp => ?_⟩
  · intro x hx
    cases o with
    | none => cases hx
    | some y =>
      obtain ⟨g1, _, _, g4, g5⟩ := h4 y rfl
      simp only [Option.map_some, Option.some.injEq] at hx
      subst hx
      obtain ⟨j, k⟩ := y
      simp only at g4 g5
      have := hP j g4
      rw [← g5] at this
      exact ⟨g1, this⟩
  · obtain ⟨g1, g2⟩ := h5 hp
    simp only [tag_head?, tag_tail, g1, g2, and_self]

/-- `SetIter::next` as the first half of `union`. -/
theorem plainHalf_quiet {b : Raw K V} {lb : List (K × V)} (hrb : Rep b lb) (P : AlgItem K → Prop)
    (hP : ∀ j (h : j < lb.length), P (1, j, lb[j].1))
    (it : SliceIt) (hit : it.hi ≤ lb.length) :
    Quiet (iterNextR b it >>= fun x =>
        (pure (x.1.map (fun y => match y with | (i, p) => (1, i, p.1)), x.2) :
          SM K V Q (Option (AlgItem K) × SliceIt)))
      (StepPost (fun it => tag 1 (selRest lb (fun _ => true) it.len it.lo)) P E.Pure it) := by
  unfold iterNextR
  by_cases hlo : it.lo < it.hi
  · rw [if_pos hlo]
    have hl : it.lo < lb.length := by omega
    refine Quiet.bind (Quiet.bind (Quiet.itemRefR hrb hl)
      (Q₂ := fun r => r = (some (it.lo, lb[it.lo]), ({ it with lo := it.lo + 1 } : SliceIt))) ?_) ?_
    · rintro _ rfl; exact Quiet.pure rfl
    · rintro _ rfl
      have hlen : it.len = ({ it with lo := it.lo + 1 } : SliceIt).len + 1 := by
        simp only [SliceIt.len]; omega
      refine Quiet.pure ⟨rfl, by simp only [SliceIt.len]; omega, ?_, fun _ => ?_⟩
      · intro x hx
        simp only [Option.map_some, Option.some.injEq] at hx
        subst hx
        exact ⟨by simp only [SliceIt.len]; omega, hP _ hl⟩
      · simp only
        rw [hlen, selRest_succ_of_lt hl]
        simp [tag]
  · rw [if_neg hlo]
    have hz : it.len = 0 := by unfold SliceIt.len; omega
    refine Quiet.bind (Quiet.pure (Qv := fun r => r = ((none : Option (Nat × (K × V))), it)) rfl) ?_
    rintro _ rfl
    refine Quiet.pure ⟨rfl, Nat.le_refl _, fun x h => (by cases h), fun _ => ?_⟩
    simp [hz, selRest, tag]

theorem itemOf0 (la lb : List (K × V)) (j : Nat) (h : j < la.length) : ItemOf la lb (0, j, la[j].1) :=
  Or.inl ⟨rfl, h, rfl⟩

theorem itemOf1 (la lb : List (K × V)) (j : Nat) (h : j < lb.length) : ItemOf la lb (1, j, lb[j].1) :=
  Or.inr ⟨rfl, h, rfl⟩

/-- `next` of the first half. -/
theorem algFstNext_quiet {a b : Raw K V} {la lb : List (K × V)} (hra : Rep a la) (hrb : Rep b lb)
    (kind : AlgKind) (it : SliceIt) (hit : it.hi ≤ (if kind = .union then lb.length else la.length)) :
    Quiet (algFstNext E a b kind it)
      (StepPost (fstRest E.keq la lb kind) (ItemOf la lb) E.Pure it) := by
  cases kind with
  | difference => exact filtHalf_quiet E hra hrb false 0 _ (itemOf0 la lb) it (by simpa using hit)
  | symmetric_difference => exact filtHalf_quiet E hra hrb false 0 _ (itemOf0 la lb) it (by simpa using hit)
  | intersection => exact filtHalf_quiet E hra hrb true 0 _ (itemOf0 la lb) it (by simpa using hit)
  | union => exact plainHalf_quiet E hrb _ (itemOf1 la lb) it (by simpa using hit)

/-- `next` of the second half of a chain. -/
theorem algSndNext_quiet {a b : Raw K V} {la lb : List (K × V)} (hra : Rep a la) (hrb : Rep b lb)
    (kind : AlgKind) (it : SliceIt) (hit : it.hi ≤ (if kind = .union then la.length else lb.length)) :
    Quiet (algSndNext E a b kind it)
      (StepPost (sndRest E.keq la lb kind) (ItemOf la lb) E.Pure it) := by
  cases kind with
  | union => exact filtHalf_quiet E hra hrb false 0 _ (itemOf0 la lb) it (by simpa using hit)
  | difference => exact filtHalf_quiet E hrb hra false 1 _ (itemOf1 la lb) it (by simpa using hit)
  | symmetric_difference => exact filtHalf_quiet E hrb hra false 1 _ (itemOf1 la lb) it (by simpa using hit)
  | intersection => exact filtHalf_quiet E hrb hra false 1 _ (itemOf1 la lb) it (by simpa using hit)


/-- postcondition of `algNext`: kind kept, invariant kept, the bound `meas` never grows and strictly
    shrinks when an item is yielded, items are references to operands' own elements; under `pur` the
    item is the head of `algRest` and the new state has the tail left. -/
def NextPost (keq : K → K → Bool) (la lb : List (K × V)) (pur : Prop) (s : AlgIt)
    (res : Option (AlgItem K) × AlgIt) : Prop :=
  res.2.kind = s.kind ∧ AlgInv la.length lb.length res.2 ∧ meas res.2 ≤ meas s ∧
  (∀ x, res.1 = some x → meas res.2 < meas s ∧ ItemOf la lb x) ∧
  (pur → res.1 = (algRest keq la lb s).head? ∧ algRest keq la lb res.2 = (algRest keq la lb s).tail)

theorem head_tail_append {α : Type} {F S : List α} {x : α} (h : F.head? = some x) :
    (F ++ S).head? = some x ∧ (F ++ S).tail = F.tail ++ S := by
  cases F with
  | nil => cases h
  | cons y t => simpa using h

theorem eq_nil_of_head?_none {α : Type} {F : List α} (h : none = F.head?) : F = [] := by
  cases F with
  | nil => rfl
  | cons y t => cases h

/-- plain adaptors (`Difference`, `Intersection`). -/
theorem plainNext_quiet {a b : Raw K V} {la lb : List (K × V)} (hra : Rep a la) (hrb : Rep b lb)
    (kind : AlgKind) (hk : kind = .difference ∨ kind = .intersection) (fst : Option SliceIt)
    (hs : AlgInv la.length lb.length ⟨kind, fst, none⟩) :
    Quiet (match (generalizing := false) fst with
        | some it => algFstNext E a b kind it >>= fun x =>
            pure (x.1, ({ kind := kind, fst := some x.2, snd := none } : AlgIt))
        | none => pure (none, ⟨kind, fst, none⟩))
      (NextPost E.keq la lb E.Pure ⟨kind, fst, none⟩) := by
  have hku : kind ≠ .union := by rcases hk with rfl | rfl <;> simp
  cases fst with
  | none =>
    refine Quiet.pure ⟨rfl, hs, Nat.le_refl _, fun x h => (by cases h), fun _ => ?_⟩
    simp [algRest]
  | some it =>
    have hit := hs.fst it rfl
    simp only at hit
    refine Quiet.bind (algFstNext_quiet E hra hrb kind it hit) ?_
    rintro ⟨o, it'⟩ ⟨h1, h2, h3, h4⟩
    simp only at h1 h2 h3 h4
    refine Quiet.pure ⟨rfl, ⟨?_, ?_, fun _ => rfl⟩, ?_, ?_, fun hp => ?_⟩
    · intro it2 h; simp only [Option.some.injEq] at h; subst h; rw [h1]; exact hit
    · intro it2 h; cases h
    · simpa [meas] using h2
    · intro x hx
      obtain ⟨g1, g2⟩ := h3 x hx
      exact ⟨by simpa [meas] using g1, g2⟩
    · simpa [algRest] using h4 hp


/-- the part of `Chain::next` after the first half answered `None`. -/
theorem chainSnd_quiet {a b : Raw K V} {la lb : List (K × V)} (hra : Rep a la) (hrb : Rep b lb)
    (kind : AlgKind) (hk : kind = .union ∨ kind = .symmetric_difference) (snd : Option SliceIt)
    (hs : AlgInv la.length lb.length ⟨kind, none, snd⟩) :
    Quiet (match (generalizing := false) snd with
        | some it => algSndNext E a b kind it >>= fun x =>
            pure (x.1, ({ kind := kind, fst := none, snd := some x.2 } : AlgIt))
        | none => pure (none, ⟨kind, none, snd⟩))
      (NextPost E.keq la lb E.Pure ⟨kind, none, snd⟩) := by
  have hkp : ¬ (kind = .difference ∨ kind = .intersection) := by rcases hk with rfl | rfl <;> simp
  cases snd with
  | none =>
    refine Quiet.pure ⟨rfl, hs, Nat.le_refl _, fun x h => (by cases h), fun _ => ?_⟩
    simp [algRest]
  | some it =>
    have hit := hs.snd it rfl
    simp only at hit
    refine Quiet.bind (algSndNext_quiet E hra hrb kind it hit) ?_
    rintro ⟨o, it'⟩ ⟨h1, h2, h3, h4⟩
    simp only at h1 h2 h3 h4
    refine Quiet.pure ⟨rfl, ⟨?_, ?_, fun h => absurd h hkp⟩, ?_, ?_, fun hp => ?_⟩
    · intro it2 h; cases h
    · intro it2 h; simp only [Option.some.injEq] at h; subst h; rw [h1]; exact hit
    · simpa [meas] using h2
    · intro x hx
      obtain ⟨g1, g2⟩ := h3 x hx
      exact ⟨by simpa [meas] using g1, g2⟩
    · simpa [algRest] using h4 hp

/-- `Chain::next` (`Union`, `SymmetricDifference`). -/
theorem chainNext_quiet {a b : Raw K V} {la lb : List (K × V)} (hra : Rep a la) (hrb : Rep b lb)
    (kind : AlgKind) (hk : kind = .union ∨ kind = .symmetric_difference) (fst snd : Option SliceIt)
    (hs : AlgInv la.length lb.length ⟨kind, fst, snd⟩) :
    Quiet ((match (generalizing := false) fst with
        | some it => algFstNext E a b kind it >>= fun x =>
            match x.1 with
            | some y => pure (some y, ({ kind := kind, fst := some x.2, snd := snd } : AlgIt))
            | none => pure (none, ({ kind := kind, fst := none, snd := snd } : AlgIt))
        | none => pure (none, ⟨kind, fst, snd⟩) : SM K V Q (Option (AlgItem K) × AlgIt)) >>= fun x =>
        match x.1 with
        | some y => pure (some y, x.2)
        | none =>
          match x.2.snd with
          | some it => algSndNext E a b x.2.kind it >>= fun z =>
              pure (z.1, ({ kind := x.2.kind, fst := x.2.fst, snd := some z.2 } : AlgIt))
          | none => pure (none, x.2))
      (NextPost E.keq la lb E.Pure ⟨kind, fst, snd⟩) := by
  have hkp : ¬ (kind = .difference ∨ kind = .intersection) := by rcases hk with rfl | rfl <;> simp
  cases fst with
  | none =>
    refine Quiet.bind (Quiet.pure (Qv := fun r => r = ((none : Option (AlgItem K)),
      ({ kind := kind, fst := none, snd := snd } : AlgIt))) rfl) ?_
    rintro _ rfl
    exact chainSnd_quiet E hra hrb kind hk snd hs
  | some it =>
    have hit := hs.fst it rfl
    simp only at hit
    refine Quiet.bind (Quiet.bind (algFstNext_quiet E hra hrb kind it hit)
      (Q₂ := fun r => ∃ o it', StepPost (fstRest E.keq la lb kind) (ItemOf la lb) E.Pure it (o, it') ∧
        r = (o, match o with
          | some _ => ({ kind := kind, fst := some it', snd := snd } : AlgIt)
          | none => ({ kind := kind, fst := none, snd := snd } : AlgIt))) ?_) ?_
    · rintro ⟨o, it'⟩ h
      cases o with
      | none => exact Quiet.pure ⟨none, it', h, rfl⟩
      | some y => exact Quiet.pure ⟨some y, it', h, rfl⟩
    · rintro _ ⟨o, it', ⟨h1, h2, h3, h4⟩, rfl⟩
      simp only at h1 h2 h3 h4
      cases o with
      | some y =>
        obtain ⟨g1, g2⟩ := h3 y rfl
        refine Quiet.pure ⟨rfl, ⟨?_, hs.snd, fun h => absurd h hkp⟩, ?_, ?_, fun hp => ?_⟩
        · intro it2 h; simp only [Option.some.injEq] at h; subst h; rw [h1]; exact hit
        · simp only [meas]; omega
        · intro x hx
          simp only [Option.some.injEq] at hx
          subst hx
          exact ⟨by simp only [meas]; omega, g2⟩
        · obtain ⟨k1, k2⟩ := h4 hp
          have := head_tail_append (S := match snd with
            | some it => sndRest E.keq la lb kind it | none => []) k1.symm
          simp only [algRest, k2]
          exact ⟨this.1.symm, this.2.symm⟩
      | none =>
        have hs' : AlgInv la.length lb.length ⟨kind, none, snd⟩ :=
          ⟨fun _ h => (by cases h), hs.snd, fun h => absurd h hkp⟩
        refine Quiet.mono (chainSnd_quiet E hra hrb kind hk snd hs') ?_
        rintro ⟨o2, s2⟩ ⟨k1, k2, k3, k4, k5⟩
        simp only at k1 k2 k3 k4 k5
        refine ⟨k1, k2, ?_, ?_, fun hp => ?_⟩
        · simp only [meas] at k3 ⊢; omega
        · intro x hx
          obtain ⟨m1, m2⟩ := k4 x hx
          exact ⟨by simp only [meas] at m1 ⊢; omega, m2⟩
        · have hnil := eq_nil_of_head?_none (h4 hp).1
          have := k5 hp
          simp only [algRest, hnil] at this ⊢
          exact this

theorem algNext_quiet {a b : Raw K V} {la lb : List (K × V)} (hra : Rep a la) (hrb : Rep b lb)
    (s : AlgIt) (hs : AlgInv la.length lb.length s) :
    Quiet (algNext E a b s) (NextPost E.keq la lb E.Pure s) := by
  obtain ⟨kind, fst, snd⟩ := s
  cases kind with
  | difference =>
    have hsnd : snd = none := hs.plain (Or.inl rfl)
    subst hsnd
    exact plainNext_quiet E hra hrb .difference (Or.inl rfl) fst hs
  | intersection =>
    have hsnd : snd = none := hs.plain (Or.inr rfl)
    subst hsnd
    exact plainNext_quiet E hra hrb .intersection (Or.inr rfl) fst hs
  | union => exact chainNext_quiet E hra hrb .union (Or.inl rfl) fst snd hs
  | symmetric_difference => exact chainNext_quiet E hra hrb .symmetric_difference (Or.inr rfl) fst snd hs

end Micromap.Alg

namespace Micromap.Alg
open Micromap SetAlg Dict
variable {K V Q : Type}

theorem cons_of_head? {α : Type} {l : List α} {x : α} (h : some x = l.head?) : l = x :: l.tail := by
  cases l with
  | nil => cases h
  | cons y t => simp at h; subst h; rfl

theorem algRest_length_le_meas (keq : K → K → Bool) (la lb : List (K × V)) (s : AlgIt) :
    (algRest keq la lb s).length ≤ meas s := by
  obtain ⟨kind, fst, snd⟩ := s
  have h1 : ∀ it, (fstRest keq la lb kind it).length ≤ it.len := by
    intro it; cases kind <;> simp only [fstRest, tag, List.length_map] <;> exact selRest_length_le _ _ _ _
  have h2 : ∀ it, (sndRest keq la lb kind it).length ≤ it.len := by
    intro it; cases kind <;> simp only [sndRest, tag, List.length_map] <;> exact selRest_length_le _ _ _ _
  cases fst with
  | none =>
    cases snd with
    | none => simp [algRest, meas]
    | some y => have := h2 y; simpa [algRest, meas] using this
  | some x =>
    cases snd with
    | none => have := h1 x; simpa [algRest, meas] using this
    | some y =>
      have := h1 x; have := h2 y
      simp only [algRest, meas, List.length_append]; omega

/-- draining an iterator with `next`: with fuel beyond the bound `meas` the fuel never runs out
    (no `ub`), whatever the oracle answers; under a pure oracle the result is `algRest`. -/
theorem algRunOut_quiet (E : Env K Unit Q) {a b : Raw K Unit} {la lb : List (K × Unit)}
    (hra : Rep a la) (hrb : Rep b lb) : ∀ (fuel : Nat) (s : AlgIt),
    AlgInv la.length lb.length s → meas s < fuel →
    Quiet (algRunOut E a b fuel s) (fun res =>
      (∀ x, x ∈ res → ItemOf la lb x) ∧ res.length ≤ meas s ∧
      (E.Pure → res = algRest E.keq la lb s))
  | 0, s, _, hm => by omega
  | n + 1, s, hs, hm => by
    unfold algRunOut
    refine Quiet.bind (algNext_quiet E hra hrb s hs) ?_
    rintro ⟨o, s'⟩ ⟨_, k2, k3, k4, k5⟩
    simp only at k2 k3 k4 k5
    cases o with
    | none =>
      refine Quiet.pure ⟨fun x h => (by cases h), Nat.zero_le _, fun hp => ?_⟩
      exact (eq_nil_of_head?_none (k5 hp).1).symm
    | some x =>
      obtain ⟨m1, m2⟩ := k4 x rfl
      refine Quiet.bind (algRunOut_quiet E hra hrb n s' k2 (by omega)) ?_
      intro r ⟨r1, r2, r3⟩
      refine Quiet.pure ⟨fun y hy => ?_, by simp only [List.length_cons]; omega, fun hp => ?_⟩
      · rw [List.mem_cons] at hy
        rcases hy with rfl | hy
        · exact m2
        · exact r1 y hy
      · rw [r3 hp, (k5 hp).2]
        exact (cons_of_head? (k5 hp).1).symm


/-! ### `fold` -/

theorem iterRestR_quiet {r : Raw K V} {l : List (K × V)} (hr : Rep r l) : ∀ n i, (0 < n → i + n ≤ l.length) →
    Quiet (iterRestR r n i : SM K V Q (List (K × V))) (fun res => res = (l.drop i).take n)
  | 0, i, _ => by
    unfold iterRestR
    exact Quiet.pure (by simp)
  | n + 1, i, hn => by
    have hn := hn (Nat.succ_pos n)
    have hl : i < l.length := by omega
    unfold iterRestR
    refine Quiet.bind (Quiet.itemRefR hr hl) ?_
    rintro _ rfl
    refine Quiet.bind (iterRestR_quiet hr n (i + 1) (fun _ => by omega)) ?_
    rintro _ rfl
    refine Quiet.pure ?_
    rw [List.drop_eq_getElem_cons hl, List.take_succ_cons]

theorem zipIdx_plain (l : List (K × V)) (lo0 : Nat) : ∀ n lo k, lo0 + k = lo →
    (((l.drop lo).take n).zipIdx k).map (fun x => match x with | (p, j) => ((1, lo0 + j, p.1) : AlgItem K)) =
      tag 1 (selRest l (fun _ => true) n lo)
  | 0, lo, k, _ => by simp [selRest, tag]
  | n + 1, lo, k, h => by
    by_cases hl : lo < l.length
    · rw [List.drop_eq_getElem_cons hl, List.take_succ_cons, List.zipIdx_cons, List.map_cons,
        selRest_succ_of_lt hl, zipIdx_plain l lo0 n (lo + 1) (k + 1) (by omega)]
      simp [tag, h]
    · have h1 : l.drop lo = [] := List.drop_eq_nil_of_le (by omega)
      have h2 : l[lo]? = none := List.getElem?_eq_none (by omega)
      simp [h1, selRest, h2, tag]

theorem window_ok {it : SliceIt} {n : Nat} (h : it.hi ≤ n) : 0 < it.len → it.lo + it.len ≤ n := by
  unfold SliceIt.len; omega

theorem tag_itemOf0 {la lb : List (K × V)} {l : List (Nat × K)}
    (h : ∀ x, x ∈ l → ∃ h : x.1 < la.length, x.2 = la[x.1].1) : ∀ y, y ∈ tag 0 l → ItemOf la lb y := by
  intro y hy
  simp only [tag, List.mem_map] at hy
  obtain ⟨x, hx, rfl⟩ := hy
  exact Or.inl ⟨rfl, h x hx⟩

theorem tag_itemOf1 {la lb : List (K × V)} {l : List (Nat × K)}
    (h : ∀ x, x ∈ l → ∃ h : x.1 < lb.length, x.2 = lb[x.1].1) : ∀ y, y ∈ tag 1 l → ItemOf la lb y := by
  intro y hy
  simp only [tag, List.mem_map] at hy
  obtain ⟨x, hx, rfl⟩ := hy
  exact Or.inr ⟨rfl, h x hx⟩

variable (E : Env K V Q)

/-- a tagged filtering `fold`. -/
theorem filtFoldHalf_quiet {a b : Raw K V} {la lb : List (K × V)} (hra : Rep a la) (hrb : Rep b lb)
    (want : Bool) (op : Nat) (it : SliceIt) (hit : it.hi ≤ la.length) :
    Quiet (filtFoldR E a b want it.len it.lo >>= fun r =>
        (pure (r.map fun x => match x with | (i, k) => (op, i, k)) : SM K V Q (List (AlgItem K))))
      (fun res => (∃ l : List (Nat × K), res = tag op l ∧ ∀ x, x ∈ l → ∃ h : x.1 < la.length, x.2 = la[x.1].1) ∧
        (E.Pure → res = tag op (selRest la (selD E.keq (lb.map (·.1)) want) it.len it.lo))) := by
  refine Quiet.bind (filtFoldR_quiet E hra hrb want it.len it.lo (window_ok hit)) ?_
  intro r ⟨h1, h2⟩
  refine Quiet.pure ⟨⟨r, rfl, fun x hx => (h1 x hx).2.2⟩, fun hp => ?_⟩
  rw [h2 hp]; rfl

theorem filtFoldHalf0 {a b : Raw K V} {la lb : List (K × V)} (hra : Rep a la) (hrb : Rep b lb)
    (want : Bool) (it : SliceIt) (hit : it.hi ≤ la.length) :
    Quiet (filtFoldR E a b want it.len it.lo >>= fun r =>
        (pure (r.map fun x => match x with | (i, k) => (0, i, k)) : SM K V Q (List (AlgItem K))))
      (fun res => (∀ x, x ∈ res → ItemOf la lb x) ∧
        (E.Pure → res = tag 0 (selRest la (selD E.keq (lb.map (·.1)) want) it.len it.lo))) := by
  refine Quiet.mono (filtFoldHalf_quiet E hra hrb want 0 it hit) ?_
  rintro res ⟨⟨l, rfl, hl⟩, h2⟩
  exact ⟨tag_itemOf0 hl, h2⟩

theorem filtFoldHalf1 {a b : Raw K V} {la lb : List (K × V)} (hra : Rep a la) (hrb : Rep b lb)
    (want : Bool) (it : SliceIt) (hit : it.hi ≤ lb.length) :
    Quiet (filtFoldR E b a want it.len it.lo >>= fun r =>
        (pure (r.map fun x => match x with | (i, k) => (1, i, k)) : SM K V Q (List (AlgItem K))))
      (fun res => (∀ x, x ∈ res → ItemOf la lb x) ∧
        (E.Pure → res = tag 1 (selRest lb (selD E.keq (la.map (·.1)) want) it.len it.lo))) := by
  refine Quiet.mono (filtFoldHalf_quiet E hrb hra want 1 it hit) ?_
  rintro res ⟨⟨l, rfl, hl⟩, h2⟩
  exact ⟨tag_itemOf1 hl, h2⟩

theorem algFstFold_quiet {a b : Raw K V} {la lb : List (K × V)} (hra : Rep a la) (hrb : Rep b lb)
    (kind : AlgKind) (it : SliceIt) (hit : it.hi ≤ (if kind = .union then lb.length else la.length)) :
    Quiet (algFstFold E a b kind it) (fun res =>
      (∀ x, x ∈ res → ItemOf la lb x) ∧ (E.Pure → res = fstRest E.keq la lb kind it)) := by
  cases kind with
  | difference => exact filtFoldHalf0 E hra hrb false it (by simpa using hit)
  | symmetric_difference => exact filtFoldHalf0 E hra hrb false it (by simpa using hit)
  | intersection => exact filtFoldHalf0 E hra hrb true it (by simpa using hit)
  | union =>
    have hit' : it.hi ≤ lb.length := by simpa using hit
    unfold algFstFold
    refine Quiet.bind (iterRestR_quiet hrb it.len it.lo (window_ok hit')) ?_
    rintro _ rfl
    have := zipIdx_plain lb it.lo it.len it.lo 0 rfl
    refine Quiet.pure ⟨?_, fun _ => ?_⟩
    · simp only
      rw [this]
      exact tag_itemOf1 (fun x hx => (selRest_mem hx).2.2.2)
    · simp only [fstRest]
      exact this

theorem algSndFold_quiet {a b : Raw K V} {la lb : List (K × V)} (hra : Rep a la) (hrb : Rep b lb)
    (kind : AlgKind) (it : SliceIt) (hit : it.hi ≤ (if kind = .union then la.length else lb.length)) :
    Quiet (algSndFold E a b kind it) (fun res =>
      (∀ x, x ∈ res → ItemOf la lb x) ∧ (E.Pure → res = sndRest E.keq la lb kind it)) := by
  cases kind with
  | union => exact filtFoldHalf0 E hra hrb false it (by simpa using hit)
  | difference => exact filtFoldHalf1 E hra hrb false it (by simpa using hit)
  | symmetric_difference => exact filtFoldHalf1 E hra hrb false it (by simpa using hit)
  | intersection => exact filtFoldHalf1 E hra hrb false it (by simpa using hit)

/-- the custom `fold` (and `count`) from ANY well-formed state yields exactly what stepping with
    `next` would still yield. -/
theorem algFold_quiet {a b : Raw K V} {la lb : List (K × V)} (hra : Rep a la) (hrb : Rep b lb)
    (s : AlgIt) (hs : AlgInv la.length lb.length s) :
    Quiet (algFold E a b s) (fun res =>
      (∀ x, x ∈ res → ItemOf la lb x) ∧ (E.Pure → res = algRest E.keq la lb s)) := by
  obtain ⟨kind, fst, snd⟩ := s
  unfold algFold
  refine Quiet.bind (Q₁ := fun xs => (∀ x, x ∈ xs → ItemOf la lb x) ∧
      (E.Pure → xs = match (generalizing := false) fst with | some it => fstRest E.keq la lb kind it | none => [])) ?_ ?_
  · cases fst with
    | none => exact Quiet.pure ⟨fun x h => (by cases h), fun _ => rfl⟩
    | some it => exact algFstFold_quiet E hra hrb kind it (hs.fst it rfl)
  · intro xs ⟨x1, x2⟩
    refine Quiet.bind (Q₁ := fun ys => (∀ x, x ∈ ys → ItemOf la lb x) ∧
        (E.Pure → ys = match (generalizing := false) snd with | some it => sndRest E.keq la lb kind it | none => [])) ?_ ?_
    · cases snd with
      | none => exact Quiet.pure ⟨fun x h => (by cases h), fun _ => rfl⟩
      | some it => exact algSndFold_quiet E hra hrb kind it (hs.snd it rfl)
    · intro ys ⟨y1, y2⟩
      refine Quiet.pure ⟨fun x hx => ?_, fun hp => ?_⟩
      · rw [List.mem_append] at hx
        rcases hx with hx | hx
        · exact x1 x hx
        · exact y1 x hx
      · rw [x2 hp, y2 hp]; rfl

end Micromap.Alg

namespace Micromap.Alg
open Micromap SetAlg Dict
variable {K V Q : Type}

/-! ### keys of what is left; size hints -/

/-- the not-yet-visited part of the key list under a window. -/
def windowKeys (l : List (K × V)) (it : SliceIt) : List K := ((l.map (·.1)).drop it.lo).take it.len

theorem windowKeys_length {l : List (K × V)} {it : SliceIt} (h : it.hi ≤ l.length) :
    (windowKeys l it).length = it.len := by
  simp only [windowKeys, List.length_take, List.length_drop, List.length_map, SliceIt.len]
  omega

theorem windowKeys_nodup {keq : K → K → Bool} {l : List (K × V)} (hn : NodupB keq (l.map (·.1)))
    (it : SliceIt) : NodupB keq (windowKeys l it) := by
  unfold NodupB windowKeys at *
  exact (hn.sublist (List.drop_sublist _ _)).sublist (List.take_sublist _ _)

theorem windowKeys_full (l : List (K × V)) : windowKeys l ⟨0, l.length⟩ = l.map (·.1) := by
  simp only [windowKeys, SliceIt.len, List.drop_zero, Nat.sub_zero]
  exact List.take_of_length_le (by simp)

theorem tag_keys (op : Nat) (l : List (Nat × K)) : (tag op l).map (·.2.2) = l.map (·.2) := by
  simp [tag]

theorem tag_length (op : Nat) (l : List (Nat × K)) : (tag op l).length = l.length := by
  simp [tag]

theorem selRest_diff_keys (keq : K → K → Bool) (l : List (K × V)) (ko : List K) (it : SliceIt) :
    (selRest l (selD keq ko false) it.len it.lo).map (·.2) = diffL keq (windowKeys l it) ko := by
  rw [selRest_keys, selD_false]; rfl

theorem selRest_inter_keys (keq : K → K → Bool) (l : List (K × V)) (ko : List K) (it : SliceIt) :
    (selRest l (selD keq ko true) it.len it.lo).map (·.2) = interL keq (windowKeys l it) ko := by
  rw [selRest_keys, selD_true]; rfl

theorem selRest_plain_keys (l : List (K × V)) (it : SliceIt) :
    (selRest l (fun _ => true) it.len it.lo).map (·.2) = windowKeys l it := by
  rw [selRest_keys]; simp [windowKeys]

/-- keys a first half will still yield. -/
theorem fstRest_keys (keq : K → K → Bool) (la lb : List (K × V)) (kind : AlgKind) (it : SliceIt) :
    (fstRest keq la lb kind it).map (·.2.2) = match kind with
      | .difference => diffL keq (windowKeys la it) (lb.map (·.1))
      | .symmetric_difference => diffL keq (windowKeys la it) (lb.map (·.1))
      | .intersection => interL keq (windowKeys la it) (lb.map (·.1))
      | .union => windowKeys lb it := by
  cases kind <;> simp only [fstRest, tag_keys, selRest_diff_keys, selRest_inter_keys, selRest_plain_keys]

theorem sndRest_keys (keq : K → K → Bool) (la lb : List (K × V)) (kind : AlgKind) (it : SliceIt) :
    (sndRest keq la lb kind it).map (·.2.2) = match kind with
      | .union => diffL keq (windowKeys la it) (lb.map (·.1))
      | _ => diffL keq (windowKeys lb it) (la.map (·.1)) := by
  cases kind <;> simp only [sndRest, tag_keys, selRest_diff_keys]

/-- the fresh iterators will yield, as keys, exactly the list-level set algebra. -/
theorem algRest_start_keys (keq : K → K → Bool) (la lb : List (K × V)) (kind : AlgKind) :
    (algRest keq la lb (startIt la.length lb.length kind)).map (·.2.2) = match kind with
      | .difference => diffL keq (la.map (·.1)) (lb.map (·.1))
      | .intersection => interL keq (la.map (·.1)) (lb.map (·.1))
      | .union => unionL keq (la.map (·.1)) (lb.map (·.1))
      | .symmetric_difference => symmL keq (la.map (·.1)) (lb.map (·.1)) := by
  cases kind <;>
    simp only [algRest, startIt, List.map_append, fstRest_keys, sndRest_keys, windowKeys_full,
      List.append_nil] <;> rfl

theorem half_diff_brackets {keq : K → K → Bool} (h : EquivB keq) {l : List (K × V)} (ko : List K)
    (hn : NodupB keq (l.map (·.1))) {it : SliceIt} (hit : it.hi ≤ l.length) :
    it.len - ko.length ≤ (selRest l (selD keq ko false) it.len it.lo).length ∧
      (selRest l (selD keq ko false) it.len it.lo).length ≤ it.len := by
  have := diff_hint_brackets h (windowKeys l it) ko (windowKeys_nodup hn it)
  rw [← selRest_diff_keys, List.length_map, windowKeys_length hit] at this
  exact this

theorem half_inter_brackets {keq : K → K → Bool} (h : EquivB keq) {l : List (K × V)} (ko : List K)
    (hn : NodupB keq (l.map (·.1))) {it : SliceIt} (hit : it.hi ≤ l.length) :
    (selRest l (selD keq ko true) it.len it.lo).length ≤ min it.len ko.length := by
  have := inter_hint_brackets h (windowKeys l it) ko (windowKeys_nodup hn it)
  rw [← selRest_inter_keys, List.length_map, windowKeys_length hit] at this
  exact this

theorem half_plain_length {l : List (K × V)} {it : SliceIt} (hit : it.hi ≤ l.length) :
    (selRest l (fun _ => true) it.len it.lo).length = it.len := by
  have := congrArg List.length (selRest_plain_keys l it)
  rw [List.length_map, windowKeys_length hit] at this
  exact this

/-- `size_hint` of every well-formed state of every one of the four iterators brackets the number
    of items still to come (the upper bound is always `Some`). -/
theorem algHint_brackets {keq : K → K → Bool} (h : EquivB keq) {a b : Raw K V} {la lb : List (K × V)}
    (hra : Rep a la) (hrb : Rep b lb) (hna : NodupB keq (la.map (·.1))) (hnb : NodupB keq (lb.map (·.1)))
    (s : AlgIt) (hs : AlgInv la.length lb.length s) :
    (algHint a b s).1 ≤ (algRest keq la lb s).length ∧
      ∃ hi, (algHint a b s).2 = some hi ∧ (algRest keq la lb s).length ≤ hi := by
  obtain ⟨kind, fst, snd⟩ := s
  have hla : a.len = la.length := hra.1
  have hlb : b.len = lb.length := hrb.1
  cases kind with
  | difference =>
    have hsnd : snd = none := hs.plain (Or.inl rfl)
    subst hsnd
    cases fst with
    | none => exact ⟨Nat.zero_le _, 0, rfl, by simp [algRest]⟩
    | some x =>
      have := half_diff_brackets h (lb.map (·.1)) hna (hs.fst x rfl)
      simp only [List.length_map] at this
      simp only [algHint, diffHint, algRest, fstRest, tag_length, List.append_nil, hlb]
      refine ⟨?_, _, rfl, this.2⟩
      split <;> omega
  | intersection =>
    have hsnd : snd = none := hs.plain (Or.inr rfl)
    subst hsnd
    cases fst with
    | none => exact ⟨Nat.zero_le _, 0, rfl, by simp [algRest]⟩
    | some x =>
      have := half_inter_brackets h (lb.map (·.1)) hna (hs.fst x rfl)
      simp only [List.length_map] at this
      simp only [algHint, interHint, algRest, fstRest, tag_length, List.append_nil, hlb]
      exact ⟨Nat.zero_le _, _, rfl, this⟩
  | union =>
    have hf : ∀ x, fst = some x → (selRest lb (fun _ => true) x.len x.lo).length = x.len :=
      fun x hx => half_plain_length (hs.fst x hx)
    have hd : ∀ y, snd = some y → _ := fun y hy => half_diff_brackets h (lb.map (·.1)) hna (hs.snd y hy)
    simp only [List.length_map] at hd
    cases fst with
    | none =>
      cases snd with
      | none => exact ⟨Nat.zero_le _, 0, rfl, by simp [algRest]⟩
      | some y =>
        have := hd y rfl
        simp only [algHint, diffHint, algRest, sndRest, tag_length, List.nil_append, hlb]
        refine ⟨?_, _, rfl, this.2⟩
        split <;> omega
    | some x =>
      have hx := hf x rfl
      cases snd with
      | none =>
        simp only [algHint, algRest, fstRest, tag_length, List.append_nil, hx]
        exact ⟨Nat.le_refl _, _, rfl, Nat.le_refl _⟩
      | some y =>
        have := hd y rfl
        simp only [algHint, addHint, diffHint, algRest, fstRest, sndRest, tag_length, List.length_append, hx, hlb]
        refine ⟨?_, _, rfl, by omega⟩
        split <;> omega
  | symmetric_difference =>
    have hf : ∀ x, fst = some x → _ := fun x hx => half_diff_brackets h (lb.map (·.1)) hna (hs.fst x hx)
    have hd : ∀ y, snd = some y → _ := fun y hy => half_diff_brackets h (la.map (·.1)) hnb (hs.snd y hy)
    simp only [List.length_map] at hf hd
    cases fst with
    | none =>
      cases snd with
      | none => exact ⟨Nat.zero_le _, 0, rfl, by simp [algRest]⟩
      | some y =>
        have := hd y rfl
        simp only [algHint, diffHint, algRest, sndRest, tag_length, List.nil_append, hla]
        refine ⟨?_, _, rfl, this.2⟩
        split <;> omega
    | some x =>
      have hx := hf x rfl
      cases snd with
      | none =>
        simp only [algHint, diffHint, algRest, fstRest, tag_length, List.append_nil, hlb]
        refine ⟨?_, _, rfl, hx.2⟩
        split <;> omega
      | some y =>
        have := hd y rfl
        simp only [algHint, addHint, diffHint, algRest, fstRest, sndRest, tag_length, List.length_append, hla, hlb]
        refine ⟨?_, _, rfl, by omega⟩
        split <;> split <;> omega

end Micromap.Alg

namespace Micromap.Alg
open Micromap SetAlg Dict
variable {K V Q : Type} (E : Env K V Q)

/-! ### consumption prefixes -/

/-- `k` calls of `next` in a row: what each returned, and the iterator afterwards. -/
def nextN (a b : Raw K V) : Nat → AlgIt → SM K V Q (List (Option (AlgItem K)) × AlgIt)
  | 0, it => pure ([], it)
  | k + 1, it => do
    let (o, it') ← algNext E a b it
    let (os, it'') ← nextN a b k it'
    pure (o :: os, it'')

/-- after any number of `next`s the state is well formed, of the same kind, with a smaller bound;
    under a pure oracle the `i`-th call returned the `i`-th item of `algRest` (`None` beyond the
    end, forever) and what is left is `algRest` without its first `k` items. -/
theorem nextN_quiet {a b : Raw K V} {la lb : List (K × V)} (hra : Rep a la) (hrb : Rep b lb) :
    ∀ (k : Nat) (s : AlgIt), AlgInv la.length lb.length s →
    Quiet (nextN E a b k s) (fun res =>
      res.2.kind = s.kind ∧ AlgInv la.length lb.length res.2 ∧ meas res.2 ≤ meas s ∧
      (E.Pure → res.1 = (List.range k).map (fun i => (algRest E.keq la lb s)[i]?) ∧
        algRest E.keq la lb res.2 = (algRest E.keq la lb s).drop k))
  | 0, s, hs => by
    unfold nextN
    exact Quiet.pure ⟨rfl, hs, Nat.le_refl _, fun _ => ⟨rfl, rfl⟩⟩
  | k + 1, s, hs => by
    unfold nextN
    refine Quiet.bind (algNext_quiet E hra hrb s hs) ?_
    rintro ⟨o, s'⟩ ⟨k1, k2, k3, _, k5⟩
    simp only at k1 k2 k3 k5
    refine Quiet.bind (nextN_quiet hra hrb k s' k2) ?_
    rintro ⟨os, s''⟩ ⟨m1, m2, m3, m5⟩
    simp only at m1 m2 m3 m5
    refine Quiet.pure ⟨m1.trans k1, m2, Nat.le_trans m3 k3, fun hp => ?_⟩
    obtain ⟨h1, h2⟩ := k5 hp
    obtain ⟨g1, g2⟩ := m5 hp
    simp only
    rw [g1, g2, h2, h1, List.range_succ_eq_map, List.map_cons, List.map_map]
    refine ⟨?_, by simp⟩
    congr 1
    · cases algRest E.keq la lb s <;> rfl
    · apply List.map_congr_left
      intro i _
      cases algRest E.keq la lb s <;> simp

end Micromap.Alg

namespace Micromap.Alg
open Micromap SetAlg Dict
variable {K V Q : Type}

/-! ### shape of the fresh iterators' contents -/

theorem algRest_start_difference (keq : K → K → Bool) (la lb : List (K × V)) :
    algRest keq la lb (startIt la.length lb.length .difference) =
      tag 0 (selRest la (selD keq (lb.map (·.1)) false) la.length 0) := by
  simp [algRest, startIt, fstRest, SliceIt.len]

theorem algRest_start_intersection (keq : K → K → Bool) (la lb : List (K × V)) :
    algRest keq la lb (startIt la.length lb.length .intersection) =
      tag 0 (selRest la (selD keq (lb.map (·.1)) true) la.length 0) := by
  simp [algRest, startIt, fstRest, SliceIt.len]

theorem algRest_start_union (keq : K → K → Bool) (la lb : List (K × V)) :
    algRest keq la lb (startIt la.length lb.length .union) =
      tag 1 (selRest lb (fun _ => true) lb.length 0) ++
      tag 0 (selRest la (selD keq (lb.map (·.1)) false) la.length 0) := by
  simp [algRest, startIt, fstRest, sndRest, SliceIt.len]

theorem algRest_start_symmetric_difference (keq : K → K → Bool) (la lb : List (K × V)) :
    algRest keq la lb (startIt la.length lb.length .symmetric_difference) =
      tag 0 (selRest la (selD keq (lb.map (·.1)) false) la.length 0) ++
      tag 1 (selRest lb (selD keq (la.map (·.1)) false) lb.length 0) := by
  simp [algRest, startIt, fstRest, sndRest, SliceIt.len]

/-- items of a tagged selection point into operand `op`, at live slots, with the slots' keys. -/
theorem tag_selRest_own (op : Nat) (l : List (K × V)) (sel : K → Bool) (n lo : Nat) :
    ∀ x, x ∈ tag op (selRest l sel n lo) → x.1 = op ∧ ∃ h : x.2.1 < l.length, x.2.2 = l[x.2.1].1 := by
  intro x hx
  simp only [tag, List.mem_map] at hx
  obtain ⟨y, hy, rfl⟩ := hx
  exact ⟨rfl, (selRest_mem hy).2.2.2⟩

/-- … at strictly increasing slot positions. -/
theorem tag_selRest_sorted (op : Nat) (l : List (K × V)) (sel : K → Bool) (n lo : Nat) :
    ((tag op (selRest l sel n lo)).map (·.2.1)).Pairwise (· < ·) := by
  simp only [tag, List.map_map]
  rw [List.pairwise_map]
  exact selRest_sorted l sel n lo

end Micromap.Alg

namespace Micromap.Alg
open Micromap SetAlg Dict
variable {K V Q : Type}

/-! ### `&a - &b` -/

/-- `K::clone`: one effect (the clone event); the result is the oracle's clone at some id. -/
theorem cloneK_cb (E : Env K V Q) (k : K) :
    CbOk (cloneK E k) (fun k' => [.cloneK k k']) (fun _ k' => ∃ n, k' = E.clK n k) := by
  intro s
  unfold cloneK
  refine Sat.cb tick_cb ?_ ?_
  · intro _ s1 h1 h2 _
    refine Sat.getS_bind ?_
    refine Sat.bind (Sat.setS (Q := fun _ s' => s' =
      ({ s1 with w := { s1.w with nextId := s1.w.nextId + 1 } } : St K V Q)) rfl) ?_
    rintro _ _ rfl
    have hw : WRel s.w ({ s1 with w := { s1.w with nextId := s1.w.nextId + 1 } } : St K V Q).w [] :=
      ⟨h2.profile, h2.unw, h2.inj, h2.trace⟩
    refine Sat.cb (logE_cb _) ?_ ?_
    · intro _ s2 g1 g2 _
      refine Sat.pure ⟨g1.trans h1, ?_, _, rfl⟩
      have := hw.trans g2
      simpa [Event.isEff] using this
    · intro s2 tr' g1 g2 g3 g4
      exact ⟨g1.trans h1, rfl, fun hn => g2 (h2.inj hn), h2.unw ▸ g3, _, hw.trans g4⟩
  · intro s' tr' h1 h2 h3 h4
    exact ⟨h1, rfl, h2, h3, tr', h4⟩

/-- the clone events of collecting `ks` into clones `cl`. -/
def cloneTrace (ks cl : List K) : List (Event K V Q) := List.zipWith (fun k c => Event.cloneK k c) ks cl


theorem cb_run {α : Type} {m : SM K V Q α} {tr Qv} (h : CbOk m tr Qv) {s : St K V Q} (hb : Benign s.w) :
    ∃ a s', m s = .ok a s' ∧ s'.r = s.r ∧ WRel s.w s'.w (tr a) ∧ Qv s a := by
  obtain ⟨a, s', h1, h2⟩ := (h s).must_return (by
    intro c s' ⟨_, _, hi, _⟩; exact hi hb.1)
  exact ⟨a, s', h1, h2⟩

/-- the collecting loop of `Sub`: in a benign lawful world where a clone compares equal to its
    source, every remaining element of the difference is cloned once and appended (never replaced,
    never overflowing) to the local set. -/
theorem subLoop_run (E : Env K Unit Q) (hE : E.Lawful) (hcl : ∀ n k, E.keq (E.clK n k) k = true)
    {a b : Raw K Unit} {la lb : List (K × Unit)} (hra : Rep a la) (hrb : Rep b lb)
    (hna : NodupB E.keq (la.map (·.1))) :
    ∀ (n : Nat) (it : SliceIt) (l : List (K × Unit)) (s : St K Unit Q),
    it.hi ≤ la.length → Benign s.w → Rep s.r l →
    (diffL E.keq (windowKeys la it) (lb.map (·.1))).length < n →
    l.length + (diffL E.keq (windowKeys la it) (lb.map (·.1))).length ≤ s.r.cap →
    (∀ x, x ∈ diffL E.keq (windowKeys la it) (lb.map (·.1)) → memB E.keq x (l.map (·.1)) = false) →
    ∃ s' cl, subLoop E a b n it s = .ok () s' ∧ s'.r.cap = s.r.cap ∧
      Rep s'.r (l ++ cl.map (fun c => (c, ()))) ∧
      (∃ ids : List Nat, ids.length = (diffL E.keq (windowKeys la it) (lb.map (·.1))).length ∧
        cl = List.zipWith E.clK ids (diffL E.keq (windowKeys la it) (lb.map (·.1)))) ∧
      WRel s.w s'.w (cloneTrace (diffL E.keq (windowKeys la it) (lb.map (·.1))) cl)
  | 0, it, l, s, _, _, _, hn, _, _ => by omega
  | n + 1, it, l, s, hit, hw, hr, hn, hroom, hfresh => by
    obtain ⟨⟨o, it'⟩, s1, h1, h2, h3, h4, _, _, _, h8⟩ := (filtNext_quiet E hra hrb false it hit).run hw
    simp only at h4
    obtain ⟨k1, k2⟩ := h8 hE.toPure
    simp only at k1 k2
    have hkeys := selRest_diff_keys E.keq la (lb.map (·.1)) it
    have hkeys' := selRest_diff_keys E.keq la (lb.map (·.1)) it'
    rw [k2] at hkeys'
    have hw1 : Benign s1.w := h3.benign hw
    have hnd : NodupB E.keq (diffL E.keq (windowKeys la it) (lb.map (·.1))) :=
      nodup_diff _ _ (windowKeys_nodup hna it)
    unfold subLoop
    cases hR : selRest la (selD E.keq (lb.map (·.1)) false) it.len it.lo with
    | nil =>
      rw [hR] at k1 hkeys
      simp only [List.head?_nil] at k1
      subst k1
      simp only [List.map_nil] at hkeys
      rw [← hkeys]
      refine ⟨s1, [], ?_, by rw [h2], by simpa [h2] using hr, ⟨[], rfl, rfl⟩, ?_⟩
      · simp only [bind_apply, h1]; rfl
      · simpa [cloneTrace] using h3
    | cons x t =>
      rw [hR] at k1 hkeys hkeys'
      simp only [List.head?_cons] at k1
      subst k1
      obtain ⟨j, k⟩ := x
      simp only [List.map_cons, List.tail_cons] at hkeys hkeys'
      rw [← hkeys] at hn hroom hfresh hnd ⊢
      -- the clone
      obtain ⟨k', s2, c1, c2, c3, m, c4⟩ := cb_run (cloneK_cb E k) hw1
      have hw2 : Benign s2.w := c3.benign hw1
      have hr2 : Rep s2.r l := by rw [c2, h2]; exact hr
      have hk'k : E.keq k' k = true := by rw [c4]; exact hcl m k
      -- the clone is not yet in the local set
      have habs : findKey E l (.key k') = none := by
        have h := findKey_isSome_eq_memB E l k'
        rw [memB_congr hE.equivB hk'k, hfresh k (List.mem_cons_self)] at h
        cases hf : findKey E l (.key k') with
        | none => rfl
        | some i => rw [hf] at h; cases h
      obtain ⟨res, s3, i1, i2, i3⟩ := (insert_sat E hr2 k' ()).must_return (by
        intro c s' ⟨_, h⟩
        rcases h with ⟨hi, _⟩ | ⟨_, _, hfull, _⟩
        · exact hi.2.1 hw2.1
        · rw [c2, h2] at hfull
          simp only [List.length_cons] at hroom
          omega)
      rcases i3 with ⟨i, _, _, _, _, hf⟩ | ⟨_, _, hr3, hw3, _⟩
      · rw [habs] at hf; exact absurd (hf hE.toPure) (by simp)
      · have hw3b : Benign s3.w := hw3.benign hw2
        have hcap3 : s3.r.cap = s.r.cap := by rw [i2, c2, h2]
        unfold NodupB at hnd
        rw [List.pairwise_cons] at hnd
        obtain ⟨s4, cl, e1, e2, e3, ⟨ids, e4, e4'⟩, e5⟩ :=
          (subLoop_run E hE hcl hra hrb hna n it' (l ++ [(k', ())]) s3 (by rw [h4]; exact hit) hw3b hr3
            (by rw [← hkeys']; simp only [List.length_cons] at hn; omega)
            (by rw [← hkeys', hcap3]; simp only [List.length_cons, List.length_append, List.length_nil] at hroom ⊢; omega)
            (by
              rw [← hkeys']
              intro y hy
              rw [List.map_append, memB_append, hfresh y (List.mem_cons_of_mem _ hy)]
              simp only [List.map_cons, List.map_nil, memB, List.any_cons, List.any_nil, Bool.or_false,
                Bool.false_or]
              cases hky : E.keq k' y with
              | false => rfl
              | true =>
                have : E.keq k y = true :=
                  hE.trans _ _ _ (by rw [hE.symm]; exact hk'k) hky
                rw [hnd.1 y hy] at this
                cases this))
        rw [← hkeys'] at e4 e4' e5
        refine ⟨s4, k' :: cl, ?_, by rw [e2, hcap3], by simpa using e3,
          ⟨m :: ids, by simp [e4], by simp [e4', c4]⟩, ?_⟩
        · simp only [bind_apply, h1, c1, i1]
          exact e1
        · have := ((h3.trans c3).trans hw3).trans e5
          simpa [cloneTrace] using this

end Micromap.Alg

namespace Micromap.Alg
open Micromap SetAlg Dict
variable {K V Q : Type}

/-! ### clones that compare like their sources -/

theorem memB_clones {keq : K → K → Bool} (h : EquivB keq) (cl : Nat → K → K)
    (hcl : ∀ n k, keq (cl n k) k = true) : ∀ (ids : List Nat) (ks : List K), ids.length = ks.length →
    ∀ x, memB keq x (List.zipWith cl ids ks) = memB keq x ks
  | [], [], _, _ => rfl
  | [], _ :: _, hl, _ => by simp at hl
  | _ :: _, [], hl, _ => by simp at hl
  | n :: ids, k :: ks, hl, x => by
    have ih := memB_clones h cl hcl ids ks (by simpa using hl) x
    simp only [List.zipWith_cons_cons, memB, List.any_cons] at ih ⊢
    rw [ih]
    congr 1
    rw [h.symm (cl n k) x, h.symm k x]
    exact keq_congr_right h (hcl n k) x

theorem nodup_clones {keq : K → K → Bool} (h : EquivB keq) (cl : Nat → K → K)
    (hcl : ∀ n k, keq (cl n k) k = true) : ∀ (ids : List Nat) (ks : List K), ids.length = ks.length →
    NodupB keq ks → NodupB keq (List.zipWith cl ids ks)
  | [], [], _, _ => List.Pairwise.nil
  | [], _ :: _, hl, _ => by simp at hl
  | _ :: _, [], hl, _ => by simp at hl
  | n :: ids, k :: ks, hl, hn => by
    have hl' : ids.length = ks.length := by simpa using hl
    unfold NodupB at hn ⊢
    rw [List.pairwise_cons] at hn
    rw [List.zipWith_cons_cons, List.pairwise_cons]
    refine ⟨fun c hc => ?_, nodup_clones h cl hcl ids ks hl' hn.2⟩
    have h1 : memB keq (cl n k) (List.zipWith cl ids ks) = false := by
      rw [memB_clones h cl hcl ids ks hl', memB_congr h (hcl n k), memB_eq_false]
      intro y hy
      rw [h.symm]; exact hn.1 y hy
    rw [h.symm]
    exact memB_eq_false.mp h1 c hc

end Micromap.Alg
