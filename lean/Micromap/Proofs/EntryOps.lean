/-
Triples of `entry.rs`: `Map::entry`, `Entry::{or_insert, or_insert_with, and_modify, key}`,
`OccupiedEntry::{get, get_mut, insert, remove, remove_entry}`, `VacantEntry::insert`.
-/
import Micromap.Proofs.MapApi
import Micromap.Proofs.Bulk
import Micromap.Proofs.Bridge
import Micromap.Model.Entry

namespace Micromap.EntryOps
open Dict (swapRemove)
variable {K V Q : Type} (E : Env K V Q)

/-- `Map::entry`: scans once; `Occupied(i)` with the supplied key dropped when the scan finds
    slot `i`, `Vacant(k)` (owning the key, no effect) otherwise.  The container is untouched,
    also when a comparison or the key's drop unwinds. -/
theorem entry_sat {s : St K V Q} {l : List (K × V)} (hr : Rep s.r l) (k : K) :
    Sat (entry E k) s
      (fun e s' => s'.r = s.r ∧
        ((∃ i, e = .occ i ∧ i < l.length ∧ WRel s.w s'.w [.dropK k] ∧
            (E.Pure → findKey E l (.key k) = some i)) ∨
         (e = .vac k ∧ WRel s.w s'.w [] ∧ (E.Pure → findKey E l (.key k) = none))))
      (fun c s' => s'.r = s.r ∧ InjPanic s s' c) := by
  unfold entry
  refine Sat.bind (m := Micromap.unwindWith (dropK k) (scan E (.key k)))
    (Q₁ := fun o s' => s'.r = s.r ∧ WRel s.w s'.w [] ∧ (∀ j, o = some j → j < l.length) ∧
        (E.Pure → o = findKey E l (.key k))) ?_ ?_
  · refine Sat.unwindWith (scan_cb' E hr (.key k)) ?_
    intro c s' ⟨h1, h2, h3, h4, tr', h5⟩
    refine Sat.mono ((dropK_cb k).unw (s'.setUnw true) rfl) ?_ (fun _ _ h => h)
    intro _ s'' ⟨g1, g2, _⟩
    exact ⟨by simpa using g1.trans h1, h2, h3, h4, _, h5.trans g2.through_unw⟩
  · intro o s1 ⟨h1, h2, h3, h4⟩
    cases o with
    | some i =>
      simp only
      refine Sat.cb (dropK_cb k) ?_ ?_
      · intro _ s2 g1 g2 _
        exact Sat.pure ⟨g1.trans h1, Or.inl ⟨i, rfl, h3 i rfl, by simpa using h2.trans g2,
          fun hp => (h4 hp).symm⟩⟩
      · intro s2 tr' g1 g2 g3 g4
        exact ⟨g1.trans h1, rfl, fun hn => g2 (h2.inj hn), h2.unw ▸ g3, _, h2.trans g4⟩
    | none => exact Sat.pure ⟨h1, Or.inr ⟨rfl, h2, fun hp => (h4 hp).symm⟩⟩

/-- `VacantEntry::insert`: the ordinary insert core, then a re-borrow of the written slot.
    With an absent key (what `entry` established) this is the append branch of `insert_ii`:
    the pair lands in slot `len` and that slot is returned.  (The first disjunct is the branch
    a lying `==` can reach: the scan now finds the key, the value is replaced and the supplied
    key and the old value are dropped.) -/
theorem vacant_insert_sat {s : St K V Q} {l : List (K × V)} (hr : Rep s.r l) (key : K) (v : V) :
    Sat (vacant_insert E key v) s
      (fun idx s' => s'.r.cap = s.r.cap ∧
        ((∃ hi : idx < l.length, Rep s'.r (l.set idx (l[idx].1, v)) ∧
            WRel s.w s'.w (.dropK key :: dropVTr E l[idx].2) ∧
            (E.Pure → findKey E l (.key key) = some idx)) ∨
         (idx = l.length ∧ l.length < s.r.cap ∧ Rep s'.r (l ++ [(key, v)]) ∧ WRel s.w s'.w [] ∧
            (E.Pure → findKey E l (.key key) = none))))
      (fun c s' => s'.r.cap = s.r.cap ∧
        ((InjPanic s s' c ∧ ∃ l', Rep s'.r l' ∧
            (l' = l ∨ ∃ i, ∃ hi : i < l.length, l' = l.set i (l[i].1, v))) ∨
         (s'.r = s.r ∧ OverflowPanic s c ∧ l.length = s.r.cap ∧
            (E.Pure → findKey E l (.key key) = none) ∧
            WRel s.w s'.w (dropVTr E v ++ [.dropK key])))) := by
  unfold vacant_insert
  refine Sat.bind (Sat.mono (insert_ii_sat E hr key v false) (fun _ _ h => h) ?_) ?_
  · intro c s' ⟨h1, h2⟩
    refine ⟨by rw [h1], ?_⟩
    rcases h2 with h | ⟨ho, hf, hn, hw⟩
    · exact Or.inl ⟨h, l, h1 ▸ hr, Or.inl rfl⟩
    · exact Or.inr ⟨h1, ho, hf, hn, hw⟩
  · intro res s1 h
    obtain ⟨i, old⟩ := res
    dsimp only at h
    obtain ⟨hcap, hw, hcase⟩ := h
    rcases hcase with ⟨hi, hold, hrep, hfind⟩ | ⟨hidx, hold, hroom, hrep, hfind⟩
    · subst hold
      simp only [Bool.false_eq_true, if_false] at hrep ⊢
      show Sat (dropPair E (key, l[i].2) >>= _) s1 _ _
      refine Sat.cb (dropPair_cb E (key, l[i].2)) ?_ ?_
      · intro _ s2 g1 g2 _
        have hr2 : Rep s2.r (l.set i (l[i].1, v)) := g1 ▸ hrep
        have hi2 : i < (l.set i (l[i].1, v)).length := by simpa using hi
        refine Sat.bind (Sat.of_ok (itemRef_ok (s := s2) (hr2.cap_lt hi2) (hr2.slot hi2))
          (Q := fun _ s' => s2 = s') rfl) ?_
        rintro _ _ rfl
        exact Sat.pure ⟨by rw [g1, hcap], Or.inl ⟨hi, hr2, by simpa using hw.trans g2, hfind⟩⟩
      · intro s2 tr' g1 g2 g3 g4
        exact ⟨by rw [g1, hcap], Or.inl ⟨⟨rfl, fun hn => g2 (hw.inj hn), hw.unw ▸ g3, _, hw.trans g4⟩,
          _, g1 ▸ hrep, Or.inr ⟨i, hi, rfl⟩⟩⟩
    · subst hold
      subst hidx
      show Sat (pure () >>= _) s1 _ _
      refine Sat.bind (Sat.pure (Q := fun _ s' => s1 = s') rfl) ?_
      rintro _ _ rfl
      have hi2 : l.length < (l ++ [(key, v)]).length := by simp
      refine Sat.bind (Sat.of_ok (itemRef_ok (s := s1) (hrep.cap_lt hi2) (hrep.slot hi2))
        (Q := fun _ s' => s1 = s') rfl) ?_
      rintro _ _ rfl
      exact Sat.pure ⟨hcap, Or.inr ⟨rfl, hroom, hrep, hw, hfind⟩⟩

theorem overflowPanic_after {s s1 : St K V Q} {t c} (hw : WRel s.w s1.w t) (h : OverflowPanic s1 c) :
    OverflowPanic s c := by
  unfold OverflowPanic at *
  rw [hw.profile] at h; exact h

/-- an entry is usable on the map it borrows: an occupied entry points at a live slot. -/
def Valid (l : List (K × V)) : EntryS K → Prop
  | .occ i => i < l.length
  | .vac _ => True

/-- `or_insert` on an occupied entry: the default is dropped, nothing else happens, the slot
    of the entry is returned. -/
theorem or_insert_occ_sat {s : St K V Q} {l : List (K × V)} (hr : Rep s.r l) (d : V) {i}
    (hi : i < l.length) :
    Sat (or_insert E d (.occ i)) s
      (fun idx s' => idx = i ∧ s'.r = s.r ∧ WRel s.w s'.w (dropVTr E d))
      (fun c s' => s'.r = s.r ∧ InjPanic s s' c) := by
  unfold or_insert
  refine Sat.bind (m := Micromap.unwindWith (dropV E d) (itemRef i)) (Q₁ := fun _ s' => s = s') ?_ ?_
  · refine Sat.unwindWith (P₀ := fun _ _ => False)
      (Sat.of_ok (itemRef_ok (s := s) (hr.cap_lt hi) (hr.slot hi)) rfl) ?_
    intro c s' h; exact h.elim
  · rintro _ _ rfl
    refine Sat.cb (dropV_cb E d) ?_ ?_
    · intro _ s1 h1 h2 _
      exact Sat.pure ⟨rfl, h1, h2⟩
    · intro s1 tr' h1 h2 h3 h4
      exact ⟨h1, InjPanic.of_cb h2 h3 h4⟩

/-- `or_insert` on a vacant entry is `VacantEntry::insert`. -/
theorem or_insert_vac (d : V) (key : K) : or_insert E d (.vac key) = vacant_insert E key d := rfl

/-- `or_insert_with` (also `or_insert_with_key`, `or_default`) on an occupied entry: the closure
    is not run, nothing changes at all (not even the world), the slot of the entry is returned. -/
theorem or_insert_with_occ {s : St K V Q} {l : List (K × V)} (hr : Rep s.r l) (tag : Nat) (mk : V) {i}
    (hi : i < l.length) : or_insert_with E tag mk (.occ i) s = .ok i s := by
  unfold or_insert_with
  simp [bind_apply, itemRef_ok (s := s) (hr.cap_lt hi) (hr.slot hi)]

/-- `or_insert_with` on a vacant entry: the closure runs exactly once (`call tag`), then
    `VacantEntry::insert` of what it returned. -/
theorem or_insert_with_vac_sat {s : St K V Q} {l : List (K × V)} (hr : Rep s.r l) (tag : Nat) (mk : V)
    (key : K) :
    Sat (or_insert_with E tag mk (.vac key)) s
      (fun idx s' => s'.r.cap = s.r.cap ∧
        ((∃ hi : idx < l.length, Rep s'.r (l.set idx (l[idx].1, mk)) ∧
            WRel s.w s'.w (.call tag :: .dropK key :: dropVTr E l[idx].2) ∧
            (E.Pure → findKey E l (.key key) = some idx)) ∨
         (idx = l.length ∧ l.length < s.r.cap ∧ Rep s'.r (l ++ [(key, mk)]) ∧
            WRel s.w s'.w [.call tag] ∧ (E.Pure → findKey E l (.key key) = none))))
      (fun c s' => s'.r.cap = s.r.cap ∧
        ((InjPanic s s' c ∧ ∃ l', Rep s'.r l' ∧
            (l' = l ∨ ∃ i, ∃ hi : i < l.length, l' = l.set i (l[i].1, mk))) ∨
         (s'.r = s.r ∧ OverflowPanic s c ∧ l.length = s.r.cap ∧
            (E.Pure → findKey E l (.key key) = none) ∧
            WRel s.w s'.w (.call tag :: (dropVTr E mk ++ [.dropK key]))))) := by
  unfold or_insert_with
  refine Sat.cb (CbOk.unwindWith (dropK_cb key) (callF_cb tag)) ?_ ?_
  · intro _ s1 h1 h2 _
    have hr1 : Rep s1.r l := h1 ▸ hr
    refine Sat.mono (vacant_insert_sat E hr1 key mk) ?_ ?_
    · intro idx s2 ⟨hc, h⟩
      refine ⟨by rw [hc, h1], ?_⟩
      rcases h with ⟨hi, g1, g2, g3⟩ | ⟨g0, g1, g2, g3, g4⟩
      · exact Or.inl ⟨hi, g1, by simpa using h2.trans g2, g3⟩
      · exact Or.inr ⟨g0, by rw [← h1]; exact g1, g2, by simpa using h2.trans g3, g4⟩
    · intro c s2 ⟨hc, h⟩
      refine ⟨by rw [hc, h1], ?_⟩
      rcases h with ⟨g1, g2⟩ | ⟨g0, g1, g2, g3, g4⟩
      · exact Or.inl ⟨g1.after h2, g2⟩
      · exact Or.inr ⟨g0.trans h1, overflowPanic_after h2 g1, by rw [← h1]; exact g2, g3, by simpa using h2.trans g4⟩
  · intro s1 tr' h1 h2 h3 h4
    exact ⟨by rw [h1], Or.inl ⟨InjPanic.of_cb h2 h3 h4, l, h1 ▸ hr, Or.inl rfl⟩⟩

/-- `and_modify` on an occupied entry: the closure runs once on the entry's value; only that
    value changes. -/
theorem and_modify_occ_sat {s : St K V Q} {l : List (K × V)} (hr : Rep s.r l) (g : V → V) {i}
    (hi : i < l.length) :
    Sat (and_modify (Q := Q) g (.occ i)) s
      (fun e s' => e = .occ i ∧ s'.r.cap = s.r.cap ∧ Rep s'.r (l.set i (l[i].1, g l[i].2)) ∧
        WRel s.w s'.w [.call 1])
      (fun c s' => s'.r = s.r ∧ InjPanic s s' c) := by
  unfold and_modify
  refine Sat.bind (Sat.of_ok (itemRef_ok (s := s) (hr.cap_lt hi) (hr.slot hi))
    (Q := fun p s' => p = l[i] ∧ s = s') ⟨rfl, rfl⟩) ?_
  rintro _ _ ⟨rfl, rfl⟩
  refine Sat.cb (callF_cb 1) ?_ ?_
  · intro _ s1 h1 h2 _
    have hr1 : Rep s1.r l := h1 ▸ hr
    refine Sat.bind (Sat.of_ok (valueReplace_ok (s := s1) (g l[i].2) (hr1.cap_lt hi) (hr1.slot hi))
      (Q := fun _ s' => s' = { s1 with r := setSlot s1.r i (some (l[i].1, g l[i].2)) }) rfl) ?_
    rintro _ _ rfl
    exact Sat.pure ⟨rfl, by simp [h1], by simpa using hr1.set hi _, h2⟩
  · intro s1 tr' h1 h2 h3 h4
    exact ⟨h1, InjPanic.of_cb h2 h3 h4⟩

/-- `and_modify` on a vacant entry does nothing: the closure is not run. -/
theorem and_modify_vac (g : V → V) (key : K) (s : St K V Q) :
    and_modify g (.vac key) s = .ok (.vac key) s := rfl

/-! ### `OccupiedEntry` / `VacantEntry` accessors -/

/-- `OccupiedEntry::get` / `into_mut`: the stored pair of the slot, nothing changes. -/
theorem occ_get_eq {s : St K V Q} {l : List (K × V)} (hr : Rep s.r l) {i} (hi : i < l.length) :
    occ_get i s = .ok l[i] s := itemRef_ok (hr.cap_lt hi) (hr.slot hi)

/-- `OccupiedEntry::key`. -/
theorem entry_key_occ {s : St K V Q} {l : List (K × V)} (hr : Rep s.r l) {i} (hi : i < l.length) :
    entry_key (.occ i) s = .ok l[i].1 s := by
  unfold entry_key
  simp [bind_apply, itemRef_ok (s := s) (hr.cap_lt hi) (hr.slot hi)]

/-- `VacantEntry::key` / `into_key`: the key the entry owns. -/
theorem entry_key_vac (k : K) (s : St K V Q) : entry_key (.vac k) s = .ok k s := rfl

/-- `OccupiedEntry::get_mut` followed by a write: exactly slot `i` changes. -/
theorem occ_get_mut_eq {s : St K V Q} {l : List (K × V)} (hr : Rep s.r l) {i} (hi : i < l.length)
    (g : V → V) :
    occ_get_mut i g s = .ok (l[i].1, g l[i].2) { s with r := setSlot s.r i (some (l[i].1, g l[i].2)) } := by
  unfold occ_get_mut
  simp [bind_apply, itemRef_ok (s := s) (hr.cap_lt hi) (hr.slot hi),
    valueReplace_ok (s := s) (g l[i].2) (hr.cap_lt hi) (hr.slot hi)]

/-- `OccupiedEntry::insert`: the old value is returned, exactly slot `i` changes, no callback. -/
theorem occ_insert_eq {s : St K V Q} {l : List (K × V)} (hr : Rep s.r l) {i} (hi : i < l.length)
    (v : V) :
    occ_insert E i v s = .ok l[i].2 { s with r := setSlot s.r i (some (l[i].1, v)) } := by
  unfold occ_insert
  have h1 : Micromap.unwindWith (dropV E v) (itemRef i) s = .ok l[i] s := by
    unfold Micromap.unwindWith
    rw [itemRef_ok (s := s) (hr.cap_lt hi) (hr.slot hi)]
  simp [bind_apply, h1, valueReplace_ok (s := s) v (hr.cap_lt hi) (hr.slot hi)]

/-- `OccupiedEntry::remove_entry` is `remove_index_read` at the recorded slot. -/
theorem occ_remove_entry_sat {s : St K V Q} {l : List (K × V)} (hr : Rep s.r l) {i} (hi : i < l.length)
    {P} :
    Sat (occ_remove_entry i) s
      (fun p s' => p = l[i] ∧ Rep s'.r (swapRemove l i) ∧ s'.r.cap = s.r.cap ∧ WRel s.w s'.w []) P :=
  remove_index_read_sat hr hi

/-- `OccupiedEntry::remove`: the value is returned, the stored key dropped, the last pair fills
    the hole. -/
theorem occ_remove_sat {s : St K V Q} {l : List (K × V)} (hr : Rep s.r l) {i} (hi : i < l.length) :
    Sat (occ_remove (Q := Q) i) s
      (fun v s' => v = l[i].2 ∧ Rep s'.r (swapRemove l i) ∧ s'.r.cap = s.r.cap ∧
        WRel s.w s'.w [.dropK l[i].1])
      (fun c s' => Rep s'.r (swapRemove l i) ∧ s'.r.cap = s.r.cap ∧ InjPanic s s' c) := by
  unfold occ_remove
  refine Sat.bind (remove_index_read_sat hr hi) ?_
  intro p s1 ⟨g1, g2, g3, g4⟩
  subst g1
  refine Sat.cb (CbOk.unwindWith (leak_cb (.v l[i].2)) (dropK_cb l[i].1)) ?_ ?_
  · intro _ s2 k1 k2 _
    exact Sat.pure ⟨rfl, k1 ▸ g2, by rw [k1, g3], by simpa using g4.trans k2⟩
  · intro s2 tr' k1 k2 k3 k4
    exact ⟨k1 ▸ g2, by rw [k1, g3], (InjPanic.of_cb k2 k3 k4).after g4⟩

/-! ### the chains `map.entry(k).or_insert*(…)` -/

/-- `map.entry(k).or_insert(d)`, any oracle, any injection point.  Three ways to return:
    occupied (container untouched, key and default dropped), vacant with room (appended at slot
    `len`), and — only when `==` is not pure — "vacant" for `entry` but found by `insert_ii`. -/
theorem entry_or_insert_sat {s : St K V Q} {l : List (K × V)} (hr : Rep s.r l) (k : K) (d : V) :
    Sat (entry E k >>= or_insert E d) s
      (fun idx s' => s'.r.cap = s.r.cap ∧
        ((idx < l.length ∧ s'.r = s.r ∧ WRel s.w s'.w (.dropK k :: dropVTr E d) ∧
            (E.Pure → findKey E l (.key k) = some idx)) ∨
         (∃ hi : idx < l.length, Rep s'.r (l.set idx (l[idx].1, d)) ∧
            WRel s.w s'.w (.dropK k :: dropVTr E l[idx].2) ∧ ¬ E.Pure) ∨
         (idx = l.length ∧ l.length < s.r.cap ∧ Rep s'.r (l ++ [(k, d)]) ∧ WRel s.w s'.w [] ∧
            (E.Pure → findKey E l (.key k) = none))))
      (fun c s' => s'.r.cap = s.r.cap ∧
        ((InjPanic s s' c ∧ ∃ l', Rep s'.r l' ∧
            (l' = l ∨ ∃ i, ∃ hi : i < l.length, l' = l.set i (l[i].1, d))) ∨
         (s'.r = s.r ∧ OverflowPanic s c ∧ l.length = s.r.cap ∧
            (E.Pure → findKey E l (.key k) = none) ∧
            WRel s.w s'.w (dropVTr E d ++ [.dropK k])))) := by
  refine Sat.bind (Sat.mono (entry_sat E hr k) (fun _ _ h => h) ?_) ?_
  · intro c s' ⟨h1, h2⟩
    exact ⟨by rw [h1], Or.inl ⟨h2, l, h1 ▸ hr, Or.inl rfl⟩⟩
  · intro e s1 ⟨h1, h⟩
    have hr1 : Rep s1.r l := h1 ▸ hr
    rcases h with ⟨i, rfl, hi, hw, hf⟩ | ⟨rfl, hw, hf⟩
    · refine Sat.mono (or_insert_occ_sat E hr1 d hi) ?_ ?_
      · intro idx s2 ⟨g1, g2, g3⟩
        subst g1
        exact ⟨by rw [g2, h1], Or.inl ⟨hi, g2.trans h1, by simpa using hw.trans g3, hf⟩⟩
      · intro c s2 ⟨g1, g2⟩
        exact ⟨by rw [g1, h1], Or.inl ⟨g2.after hw, l, g1 ▸ hr1, Or.inl rfl⟩⟩
    · show Sat (vacant_insert E k d) s1 _ _
      refine Sat.mono (vacant_insert_sat E hr1 k d) ?_ ?_
      · intro idx s2 ⟨hc, h⟩
        refine ⟨by rw [hc, h1], ?_⟩
        rcases h with ⟨hi, g1, g2, g3⟩ | ⟨g0, g1, g2, g3, g4⟩
        · refine Or.inr (Or.inl ⟨hi, g1, by simpa using hw.trans g2, fun hp => ?_⟩)
          have := hf hp; rw [g3 hp] at this; cases this
        · exact Or.inr (Or.inr ⟨g0, by rw [← h1]; exact g1, g2, by simpa using hw.trans g3, g4⟩)
      · intro c s2 ⟨hc, h⟩
        refine ⟨by rw [hc, h1], ?_⟩
        rcases h with ⟨g1, g2⟩ | ⟨g0, g1, g2, g3, g4⟩
        · exact Or.inl ⟨g1.after hw, g2⟩
        · exact Or.inr ⟨g0.trans h1, overflowPanic_after hw g1, by rw [← h1]; exact g2, g3,
            by simpa using hw.trans g4⟩

/-- `map.entry(k).or_insert_with(f)` (`or_insert_with_key`, `or_default`), any oracle, any
    injection point: when occupied the closure is NOT run (the trace is just the drop of the
    supplied key); when vacant it runs exactly once and its result is appended at slot `len`. -/
theorem entry_or_insert_with_sat {s : St K V Q} {l : List (K × V)} (hr : Rep s.r l) (k : K) (tag : Nat)
    (mk : V) :
    Sat (entry E k >>= or_insert_with E tag mk) s
      (fun idx s' => s'.r.cap = s.r.cap ∧
        ((idx < l.length ∧ s'.r = s.r ∧ WRel s.w s'.w [.dropK k] ∧
            (E.Pure → findKey E l (.key k) = some idx)) ∨
         (∃ hi : idx < l.length, Rep s'.r (l.set idx (l[idx].1, mk)) ∧
            WRel s.w s'.w (.call tag :: .dropK k :: dropVTr E l[idx].2) ∧ ¬ E.Pure) ∨
         (idx = l.length ∧ l.length < s.r.cap ∧ Rep s'.r (l ++ [(k, mk)]) ∧
            WRel s.w s'.w [.call tag] ∧ (E.Pure → findKey E l (.key k) = none))))
      (fun c s' => s'.r.cap = s.r.cap ∧
        ((InjPanic s s' c ∧ ∃ l', Rep s'.r l' ∧
            (l' = l ∨ ∃ i, ∃ hi : i < l.length, l' = l.set i (l[i].1, mk))) ∨
         (s'.r = s.r ∧ OverflowPanic s c ∧ l.length = s.r.cap ∧
            (E.Pure → findKey E l (.key k) = none) ∧
            WRel s.w s'.w (.call tag :: (dropVTr E mk ++ [.dropK k]))))) := by
  refine Sat.bind (Sat.mono (entry_sat E hr k) (fun _ _ h => h) ?_) ?_
  · intro c s' ⟨h1, h2⟩
    exact ⟨by rw [h1], Or.inl ⟨h2, l, h1 ▸ hr, Or.inl rfl⟩⟩
  · intro e s1 ⟨h1, h⟩
    have hr1 : Rep s1.r l := h1 ▸ hr
    rcases h with ⟨i, rfl, hi, hw, hf⟩ | ⟨rfl, hw, hf⟩
    · exact Sat.of_ok (or_insert_with_occ E hr1 tag mk hi) ⟨by rw [h1], Or.inl ⟨hi, h1, hw, hf⟩⟩
    · refine Sat.mono (or_insert_with_vac_sat E hr1 tag mk k) ?_ ?_
      · intro idx s2 ⟨hc, h⟩
        refine ⟨by rw [hc, h1], ?_⟩
        rcases h with ⟨hi, g1, g2, g3⟩ | ⟨g0, g1, g2, g3, g4⟩
        · refine Or.inr (Or.inl ⟨hi, g1, by simpa using hw.trans g2, fun hp => ?_⟩)
          have := hf hp; rw [g3 hp] at this; cases this
        · exact Or.inr (Or.inr ⟨g0, by rw [← h1]; exact g1, g2, by simpa using hw.trans g3, g4⟩)
      · intro c s2 ⟨hc, h⟩
        refine ⟨by rw [hc, h1], ?_⟩
        rcases h with ⟨g1, g2⟩ | ⟨g0, g1, g2, g3, g4⟩
        · exact Or.inl ⟨g1.after hw, g2⟩
        · exact Or.inr ⟨g0.trans h1, overflowPanic_after hw g1, by rw [← h1]; exact g2, g3,
            by simpa using hw.trans g4⟩

/-- `map.entry(k).and_modify(g)`: the closure runs iff the entry is occupied, and then only the
    value of that slot changes. -/
theorem entry_and_modify_sat {s : St K V Q} {l : List (K × V)} (hr : Rep s.r l) (k : K) (g : V → V) :
    Sat (entry E k >>= and_modify g) s
      (fun e s' => s'.r.cap = s.r.cap ∧
        ((∃ i, ∃ hi : i < l.length, e = .occ i ∧ Rep s'.r (l.set i (l[i].1, g l[i].2)) ∧
            WRel s.w s'.w [.dropK k, .call 1] ∧ (E.Pure → findKey E l (.key k) = some i)) ∨
         (e = .vac k ∧ s'.r = s.r ∧ WRel s.w s'.w [] ∧ (E.Pure → findKey E l (.key k) = none))))
      (fun c s' => s'.r = s.r ∧ InjPanic s s' c) := by
  refine Sat.bind (entry_sat E hr k) ?_
  intro e s1 ⟨h1, h⟩
  have hr1 : Rep s1.r l := h1 ▸ hr
  rcases h with ⟨i, rfl, hi, hw, hf⟩ | ⟨rfl, hw, hf⟩
  · refine Sat.mono (and_modify_occ_sat hr1 g hi) ?_ ?_
    · intro e s2 ⟨g1, g2, g3, g4⟩
      exact ⟨by rw [g2, h1], Or.inl ⟨i, hi, g1, g3, by simpa using hw.trans g4, hf⟩⟩
    · intro c s2 ⟨g1, g2⟩
      exact ⟨g1.trans h1, g2.after hw⟩
  · exact Sat.of_ok (and_modify_vac g k s1) ⟨by rw [h1], Or.inr ⟨rfl, h1, hw, hf⟩⟩

/-! ### the same thing written with the direct map operations -/

/-- `if m.contains_key(&k) { m.get_mut(&k) } else { m.insert(k, v); m.get_mut(&k) }`: the
    returned reference as a slot position (`id`: nothing is written through it). -/
def direct_or_insert (k : K) (v : V) : SM K V Q (Option Nat) := do
  if (← contains_key E (.key k)) then
    pure ((← get_mut E (.key k) id).map (·.1))
  else
    let _ ← insert E k v
    pure ((← get_mut E (.key k) id).map (·.1))

/-- after appending `(k, v)` to a list without `k`, the scan for `k` finds the new last slot. -/
theorem findKey_append_self (hE : E.Lawful) {l : List (K × V)} (k : K) (v : V)
    (hn : findKey E l (.key k) = none) : findKey E (l ++ [(k, v)]) (.key k) = some l.length := by
  rw [findKey_eq_findIdxP] at hn ⊢
  unfold Dict.findIdxP at hn ⊢
  rw [List.findIdx?_append, hn]
  have : E.hitP (.key k : Probe K Q) k = true := hE.refl k
  simp [List.findIdx?_cons, this]

theorem set_self_id {l : List (K × V)} {i} (hi : i < l.length) : l.set i (l[i].1, id l[i].2) = l :=
  List.set_getElem_self hi

theorem direct_or_insert_sat (hE : E.Lawful) {s : St K V Q} {l : List (K × V)} (hr : Rep s.r l) (k : K)
    (v : V) :
    Sat (direct_or_insert E k v) s
      (fun o s' => s'.r.cap = s.r.cap ∧
        ((∃ i, findKey E l (.key k) = some i ∧ o = some i ∧ Rep s'.r l) ∨
         (findKey E l (.key k) = none ∧ l.length < s.r.cap ∧ o = some l.length ∧
            Rep s'.r (l ++ [(k, v)]))))
      (fun c s' => s'.r.cap = s.r.cap ∧ (InjPanic s s' c ∨
        (s'.r = s.r ∧ OverflowPanic s c ∧ l.length = s.r.cap ∧ findKey E l (.key k) = none))) := by
  have hp : E.Pure := hE.toPure
  unfold direct_or_insert
  refine Sat.bind (Sat.mono (contains_key_cb E hr (.key k)) (fun _ _ h => h) ?_) ?_
  · intro c s' ⟨h1, h2⟩; exact ⟨by rw [h1], Or.inl h2⟩
  · intro b s1 ⟨h1, hw, hb⟩
    have hr1 : Rep s1.r l := h1 ▸ hr
    have hb := hb hp
    cases hfk : findKey E l (.key k) with
    | some i =>
      rw [hfk] at hb; subst hb
      simp only [Option.isSome_some, if_true]
      refine Sat.bind (Sat.mono (get_mut_sat E hr1 (.key k) id) (fun _ _ h => h) ?_) ?_
      · intro c s2 ⟨g1, g2⟩; exact ⟨by rw [g1, h1], Or.inl (g2.after hw)⟩
      · intro o s2 ⟨g1, _, g3, g4⟩
        have g4 := g4 hp
        rw [hfk] at g4
        refine Sat.pure ⟨by rw [g1, h1], Or.inl ⟨i, rfl, g4, ?_⟩⟩
        rcases g3 with ⟨rfl, g3⟩ | ⟨j, hj, rfl, g3⟩
        · exact g3 ▸ hr1
        · rw [set_self_id hj] at g3; exact g3
    | none =>
      rw [hfk] at hb; subst hb
      simp only [Option.isSome_none, Bool.false_eq_true, if_false]
      refine Sat.bind (Sat.mono (insert_sat E hr1 k v) (fun _ _ h => h) ?_) ?_
      · intro c s2 ⟨g1, g2⟩
        refine ⟨by rw [g1, h1], ?_⟩
        rcases g2 with ⟨g2, _⟩ | ⟨g2, g3, g4, _, _⟩
        · exact Or.inl (g2.after hw)
        · exact Or.inr ⟨g2.trans h1, overflowPanic_after hw g3, by rw [← h1]; exact g4, by first | rfl | trivial⟩
      · intro _ s2 ⟨g1, g2⟩
        rcases g2 with ⟨i, _, _, _, _, g3⟩ | ⟨_, hroom, hrep, hw2, _⟩
        · have := g3 hp; rw [hfk] at this; cases this
        · refine Sat.bind (Sat.mono (get_mut_sat E hrep (.key k) id) (fun _ _ h => h) ?_) ?_
          · intro c s3 ⟨k1, k2⟩
            exact ⟨by rw [k1, g1, h1], Or.inl ((k2.after hw2).after hw)⟩
          · intro o s3 ⟨k1, _, k3, k4⟩
            have k4 := k4 hp
            rw [findKey_append_self E hE k v hfk] at k4
            refine Sat.pure ⟨by rw [k1, g1, h1], Or.inr ⟨by first | rfl | trivial, by rw [← h1]; exact hroom, k4, ?_⟩⟩
            rcases k3 with ⟨rfl, k3⟩ | ⟨j, hj, rfl, k3⟩
            · exact k3 ▸ hrep
            · rw [set_self_id hj] at k3; exact k3

end Micromap.EntryOps
