/-
Triples of the container primitives and of `map.rs::internal`
(`insert_ii`, `insert_ii_for_full`, `insert_i`, `remove_index_read`, `remove_index_drop`).
-/
import Micromap.Proofs.Lookup
import Micromap.Spec.Dict

namespace Micromap
variable {K V Q : Type}

/-! ### L1: list-level counterparts -/

open Dict (swapRemove)

theorem swapRemove_length' {l : List (K × V)} {i} (hi : i < l.length) :
    (swapRemove l i).length = l.length - 1 := by
  unfold swapRemove
  split
  · simp
  · cases h : l.getLast? with
    | none => simp [List.getLast?_eq_none_iff] at h; subst h; simp at hi
    | some x => simp

/-! ### evaluation of the container primitives -/

theorem itemRef_ok {s : St K V Q} {i p} (hc : i < s.r.cap) (hs : s.r.slots i = some p) :
    itemRef i s = .ok p s := by
  simp [itemRef, itemRefR, hc, hs]

theorem itemRead_ok {s : St K V Q} {i p} (hc : i < s.r.cap) (hs : s.r.slots i = some p) :
    itemRead i s = .ok p { s with r := setSlot s.r i none } := by
  simp [itemRead, hc, hs]

theorem valueReplace_ok {s : St K V Q} {i p} (v : V) (hc : i < s.r.cap) (hs : s.r.slots i = some p) :
    valueReplace i v s = .ok p.2 { s with r := setSlot s.r i (some (p.1, v)) } := by
  simp [valueReplace, hc, hs]

theorem pairReplace_ok {s : St K V Q} {i p} (q : K × V) (hc : i < s.r.cap) (hs : s.r.slots i = some p) :
    pairReplace i q s = .ok p { s with r := setSlot s.r i (some q) } := by
  simp [pairReplace, hc, hs]

/-- `write` never fails inside the array; whatever was there is overwritten (leaked if live). -/
theorem itemWrite_sat {s : St K V Q} {i} (p : K × V) (hc : i < s.r.cap) {P} :
    Sat (itemWrite i p) s (fun _ s' => s'.r = setSlot s.r i (some p) ∧ WRel s.w s'.w []) P := by
  unfold Sat itemWrite
  simp only [hc, if_true]
  cases h : s.r.slots i with
  | none => exact ⟨rfl, WRel.refl _⟩
  | some old => exact ⟨rfl, ⟨rfl, rfl, id, by simp [World.trace]⟩⟩

@[simp] theorem setSlot_len (r : Raw K V) (i o) : (setSlot r i o).len = r.len := rfl
@[simp] theorem setSlot_cap (r : Raw K V) (i o) : (setSlot r i o).cap = r.cap := rfl
@[simp] theorem setSlot_same (r : Raw K V) (i o) : (setSlot r i o).slots i = o := by simp [setSlot]
theorem setSlot_other (r : Raw K V) {i j} (o) (h : j ≠ i) : (setSlot r i o).slots j = r.slots j := by
  simp [setSlot, h]

/-! ### `Rep` under slot updates -/

theorem Rep.cap_lt {r : Raw K V} {l} (h : Rep r l) {i} (hi : i < l.length) : i < r.cap :=
  Nat.lt_of_lt_of_le hi h.2.1

theorem Rep.slot {r : Raw K V} {l} (h : Rep r l) {i} (hi : i < l.length) : r.slots i = some l[i] := by
  rw [h.2.2 i hi]; exact List.getElem?_eq_getElem hi

theorem Rep.set {r : Raw K V} {l} (h : Rep r l) {i} (hi : i < l.length) (p : K × V) :
    Rep (setSlot r i (some p)) (l.set i p) := by
  refine ⟨by simp [h.1], by simp [h.2.1], fun j hj => ?_⟩
  simp only [List.length_set] at hj
  by_cases hji : j = i
  · subst hji; simp [hj]
  · rw [setSlot_other _ _ hji, h.2.2 j hj, List.getElem?_set_ne (Ne.symm hji)]

theorem Rep.push {r : Raw K V} {l} (h : Rep r l) (hc : l.length < r.cap) (p : K × V) :
    Rep { setSlot r l.length (some p) with len := l.length + 1 } (l ++ [p]) := by
  refine ⟨by simp, by simp; omega, fun j hj => ?_⟩
  simp only [List.length_append, List.length_singleton] at hj
  by_cases hjl : j = l.length
  · subst hjl; simp [setSlot]
  · have : j < l.length := by omega
    show (setSlot r l.length (some p)).slots j = _
    rw [setSlot_other _ _ hjl, h.2.2 j this, List.getElem?_append_left this]

/-- slots at or beyond the new length do not matter. -/
theorem Rep.of_prefix {r' : Raw K V} {l : List (K × V)} (hl : r'.len = l.length) (hc : l.length ≤ r'.cap)
    (hs : ∀ i, i < l.length → r'.slots i = l[i]?) : Rep r' l := ⟨hl, hc, hs⟩

theorem getLast?_eq_getElem {l : List (K × V)} (h : 0 < l.length) :
    l.getLast? = some (l[l.length - 1]'(by omega)) := by
  rw [List.getLast?_eq_getElem?]
  exact List.getElem?_eq_getElem (by omega)

/-- `remove_index_read`: returns `l[i]`, leaves `swapRemove l i`. -/
theorem remove_index_read_sat {s : St K V Q} {l} (hr : Rep s.r l) {i} (hi : i < l.length) {P} :
    Sat (remove_index_read i) s
      (fun p s' => p = l[i] ∧ Rep s'.r (swapRemove l i) ∧ s'.r.cap = s.r.cap ∧ WRel s.w s'.w []) P := by
  have hcap := hr.cap_lt hi
  have hlen : s.r.len = l.length := hr.1
  unfold remove_index_read
  refine Sat.bind (Sat.of_ok (itemRead_ok hcap (hr.slot hi)) (Q := fun p s' =>
    p = l[i] ∧ s' = { s with r := setSlot s.r i none }) ⟨rfl, rfl⟩) ?_
  rintro _ _ ⟨rfl, rfl⟩
  show Sat (getLen >>= _) _ _ _
  refine Sat.bind (Q₁ := fun n s' => n = l.length ∧ s' = { s with r := setSlot s.r i none })
    (show Sat getLen _ _ _ from ⟨by simp [hlen], rfl⟩) ?_
  rintro _ _ ⟨rfl, rfl⟩
  have hne : l.length ≠ 0 := by omega
  simp only [hne, if_false]
  show Sat (setLen (l.length - 1) >>= _) _ _ _
  refine Sat.bind (Q₁ := fun _ s' => s' = { s with r := { setSlot s.r i none with len := l.length - 1 } })
    (Sat.modS rfl) ?_
  rintro _ _ rfl
  by_cases hlast : i = l.length - 1
  · -- removed the last slot
    subst hlast
    simp only [ne_eq, not_true_eq_false, if_false]
    refine Sat.pure ⟨rfl, ?_, rfl, WRel.refl _⟩
    · refine Rep.of_prefix ?_ ?_ ?_
      · simp [swapRemove_length' hi]
      · rw [swapRemove_length' hi]; exact Nat.le_trans (Nat.sub_le _ _) hr.2.1
      · intro j hj
        rw [swapRemove_length' hi] at hj
        have hji : j ≠ l.length - 1 := by omega
        show (setSlot s.r (l.length - 1) none).slots j = _
        rw [setSlot_other _ _ hji, hr.2.2 j (by omega)]
        unfold swapRemove
        have : l.length - 1 + 1 = l.length := by omega
        simp only [this, if_true]
        rw [List.getElem?_dropLast]
        simp [hj]
  · simp only [ne_eq, hlast, not_false_eq_true, if_true]
    have hl1 : l.length - 1 < l.length := by omega
    have hslot : ({ setSlot s.r i none with len := l.length - 1 } : Raw K V).slots (l.length - 1) =
        some l[l.length - 1] := by
      show (setSlot s.r i none).slots (l.length - 1) = _
      rw [setSlot_other _ _ (Ne.symm hlast)]; exact hr.slot hl1
    refine Sat.bind (Sat.of_ok (itemRead_ok (s := { s with r := { setSlot s.r i none with len := l.length - 1 } })
      (by simpa using hr.cap_lt hl1) hslot) (Q := fun p s' => p = l[l.length - 1] ∧
        s' = { s with r := setSlot { setSlot s.r i none with len := l.length - 1 } (l.length - 1) none })
      ⟨rfl, rfl⟩) ?_
    rintro _ _ ⟨rfl, rfl⟩
    refine Sat.bind (itemWrite_sat (P := P) l[l.length - 1] (by simpa using hcap)) ?_
    intro _ s2 ⟨h1, h2⟩
    refine Sat.pure ⟨rfl, ?_, by rw [h1]; rfl, h2⟩
    refine Rep.of_prefix ?_ ?_ ?_
    · rw [h1]; simp [swapRemove_length' hi]
    · rw [h1, swapRemove_length' hi]; exact Nat.le_trans (Nat.sub_le _ _) hr.2.1
    · intro j hj
      rw [swapRemove_length' hi] at hj
      rw [h1]
      unfold swapRemove
      have hne2 : ¬ i + 1 = l.length := by omega
      simp only [hne2, if_false, getLast?_eq_getElem (by omega : 0 < l.length)]
      rw [List.getElem?_dropLast]
      simp only [List.length_set, hj, if_true]
      by_cases hji : j = i
      · subst hji; simp [hi]
      · rw [setSlot_other _ _ hji, List.getElem?_set_ne (Ne.symm hji)]
        show (setSlot (setSlot s.r i none) (l.length - 1) none).slots j = _
        rw [setSlot_other _ _ (by omega), setSlot_other _ _ hji]
        exact hr.2.2 j (by omega)

end Micromap

namespace Micromap
variable {K V Q : Type} (E : Env K V Q)

theorem scan_cb' {s : St K V Q} {l : List (K × V)} (hr : Rep s.r l) (pr : Probe K Q) :
    Sat (scan E pr) s
      (fun o s' => s'.r = s.r ∧ WRel s.w s'.w [] ∧ (∀ j, o = some j → j < l.length) ∧
        (E.Pure → o = findKey E l pr))
      (fun c s' => s'.r = s.r ∧ c = .inject ∧ s.w.inject ≠ none ∧ s.w.unwinding = false ∧
        ∃ tr', WRel s.w s'.w tr') :=
  scanR_cb E hr pr s

/-- how an operation may unwind: by an injected panic (only in a world where one is armed) … -/
def InjPanic (s s' : St K V Q) (c : PanicClass) : Prop :=
  c = .inject ∧ s.w.inject ≠ none ∧ s.w.unwinding = false ∧ ∃ tr', WRel s.w s'.w tr'

/-- … or by the container's own overflow check: `debug_assert!` in debug builds, the bounds
    check of `pairs[i]` in release builds. -/
def OverflowPanic (s : St K V Q) (c : PanicClass) : Prop :=
  (c = .overflow ∧ s.w.profile = .debug) ∨ (c = .oob ∧ s.w.profile = .release)

/-- `insert_ii`: replace in place when the scan finds the key, append otherwise; on a full
    container without a match it panics with the container untouched and both arguments dropped. -/
theorem insert_ii_sat {s : St K V Q} {l : List (K × V)} (hr : Rep s.r l) (k : K) (v : V) (upd : Bool) :
    Sat (insert_ii E k v upd) s
      (fun res s' => s'.r.cap = s.r.cap ∧ WRel s.w s'.w [] ∧
        ((∃ hi : res.1 < l.length,
            res.2 = some (if upd then l[res.1] else (k, l[res.1].2)) ∧
            Rep s'.r (l.set res.1 (if upd then (k, v) else (l[res.1].1, v))) ∧
            (E.Pure → findKey E l (.key k) = some res.1)) ∨
         (res.1 = l.length ∧ res.2 = none ∧ l.length < s.r.cap ∧ Rep s'.r (l ++ [(k, v)]) ∧
            (E.Pure → findKey E l (.key k) = none))))
      (fun c s' => s'.r = s.r ∧
        (InjPanic s s' c ∨
         (OverflowPanic s c ∧ l.length = s.r.cap ∧ (E.Pure → findKey E l (.key k) = none) ∧
            WRel s.w s'.w (dropVTr E v ++ [.dropK k])))) := by
  unfold insert_ii
  refine Sat.unwindWith (P₀ := fun c s' => s'.r = s.r ∧
      (InjPanic s s' c ∨ (OverflowPanic s c ∧ l.length = s.r.cap ∧
        (E.Pure → findKey E l (.key k) = none) ∧ WRel s.w s'.w []))) ?_ ?_
  · -- the body
    refine Sat.bind (Sat.mono (scan_cb' E hr (.key k)) (fun _ _ h => h) ?_) ?_
    rotate_left
    · intro o s1 ⟨h1, h2, h3, h4⟩
      have hr1 : Rep s1.r l := h1 ▸ hr
      cases o with
      | some i =>
        have hi := h3 i rfl
        simp only
        cases upd with
        | true =>
          simp only [if_true]
          refine Sat.bind (Sat.of_ok (pairReplace_ok (s := s1) (k, v) (hr1.cap_lt hi) (hr1.slot hi))
            (Q := fun old s' => old = l[i] ∧ s' = { s1 with r := setSlot s1.r i (some (k, v)) }) ⟨rfl, rfl⟩) ?_
          rintro _ _ ⟨rfl, rfl⟩
          refine Sat.pure ⟨by simp [h1], h2, Or.inl ⟨hi, by simp, by simpa using hr1.set hi (k, v), ?_⟩⟩
          intro hp; rw [← h4 hp]
        | false =>
          simp only [Bool.false_eq_true, if_false]
          refine Sat.bind (Sat.of_ok (valueReplace_ok (s := s1) v (hr1.cap_lt hi) (hr1.slot hi))
            (Q := fun old s' => old = l[i].2 ∧ s' = { s1 with r := setSlot s1.r i (some (l[i].1, v)) })
            ⟨rfl, rfl⟩) ?_
          rintro _ _ ⟨rfl, rfl⟩
          refine Sat.pure ⟨by simp [h1], h2, Or.inl ⟨hi, by simp, by simpa using hr1.set hi (l[i].1, v), ?_⟩⟩
          intro hp; rw [← h4 hp]
      | none =>
        simp only
        show Sat (getLen >>= _) s1 _ _
        refine Sat.bind (Q₁ := fun n s' => n = l.length ∧ s1 = s')
          (show Sat getLen s1 _ _ from ⟨hr1.1, rfl⟩) ?_
        rintro _ _ ⟨rfl, rfl⟩
        show Sat (getCap >>= _) s1 _ _
        refine Sat.bind (Q₁ := fun n s' => n = s.r.cap ∧ s1 = s')
          (show Sat getCap s1 _ _ from ⟨by rw [h1], rfl⟩) ?_
        rintro _ _ ⟨rfl, rfl⟩
        have hfull_or : l.length < s.r.cap ∨ l.length = s.r.cap := by
          have := hr.2.1; omega
        rcases hfull_or with hroom | hfull
        · -- room: both checks pass
          have hda : debugAssert (decide (l.length < s.r.cap)) .overflow s1 = .ok () s1 := by
            unfold debugAssert; cases s1.w.profile <;> simp [hroom]
          refine Sat.bind (Sat.of_ok hda (Q := fun _ s' => s1 = s') rfl) ?_
          rintro _ _ rfl
          have hcw : checkedWrite l.length (k, v) s1 = itemWrite l.length (k, v) s1 := by
            unfold checkedWrite; simp [h1, hroom]
          refine Sat.bind (m := checkedWrite l.length (k, v)) (Q₁ := fun _ s' =>
              s'.r = setSlot s1.r l.length (some (k, v)) ∧ WRel s1.w s'.w []) ?_ ?_
          · unfold Sat; rw [hcw]; exact itemWrite_sat (k, v) (by rw [h1]; exact hroom)
          · intro _ s2 ⟨g1, g2⟩
            refine Sat.bind (Sat.modS (Q := fun _ s' => s' = { s2 with r := { s2.r with len := l.length + 1 } }) rfl) ?_
            rintro _ _ rfl
            refine Sat.pure ⟨by simp [g1, h1], by simpa using h2.trans g2,
              Or.inr ⟨rfl, rfl, hroom, ?_, fun hp => (h4 hp).symm⟩⟩
            have := hr1.push (by rw [h1]; exact hroom) (k, v)
            simpa [g1] using this
        · -- full: debug_assert! fires in debug, the index check in release
          cases hprof : s1.w.profile with
          | debug =>
            have hda : debugAssert (decide (l.length < s.r.cap)) .overflow s1 = .panic .overflow s1 := by
              unfold debugAssert; simp [hprof, hfull]
            unfold Sat; simp only [bind_apply, hda]
            exact ⟨h1, Or.inr ⟨Or.inl ⟨rfl, by rw [← h2.profile]; exact hprof⟩, hfull,
              fun hp => (h4 hp).symm, h2⟩⟩
          | release =>
            have hda : debugAssert (decide (l.length < s.r.cap)) .overflow s1 = .ok () s1 := by
              unfold debugAssert; simp [hprof]
            have hcw : checkedWrite l.length (k, v) s1 = .panic .oob s1 := by
              unfold checkedWrite; simp [h1, hfull]
            unfold Sat; simp only [bind_apply, hda, hcw]
            exact ⟨h1, Or.inr ⟨Or.inr ⟨rfl, by rw [← h2.profile]; exact hprof⟩, hfull,
              fun hp => (h4 hp).symm, h2⟩⟩
    · intro c s' ⟨h1, h2, h3, h4, h5⟩
      exact ⟨h1, Or.inl ⟨h2, h3, h4, h5⟩⟩
  · -- unwinding: the two arguments are dropped
    intro c s' ⟨h1, h2⟩
    refine Sat.mono ((dropArgs_cb E k v).unw (s'.setUnw true) rfl) ?_ (fun _ _ h => h)
    intro _ s'' ⟨g1, g2, _⟩
    refine ⟨by simpa using g1.trans h1, ?_⟩
    rcases h2 with ⟨hc, hi, hu, tr', hw⟩ | ⟨ho, hf, hn, hw⟩
    · exact Or.inl ⟨hc, hi, hu, _, hw.trans g2.through_unw⟩
    · exact Or.inr ⟨ho, hf, hn, by simpa using hw.trans g2.through_unw⟩

end Micromap

namespace Micromap
variable {K V Q : Type} (E : Env K V Q)

theorem dropReturnedKey_cb (o : Option (K × V)) :
    CbOk (dropReturnedKey (Q := Q) o) (fun _ => match o with | some p => [.dropK p.1] | none => [])
      (fun _ r => r = o.map (·.2)) := by
  cases o with
  | none => exact (CbOk.pure none).mono (fun _ => rfl) (fun _ _ h => h)
  | some p =>
    obtain ⟨k, v⟩ := p
    unfold dropReturnedKey
    have := CbOk.seq (CbOk.unwindWith (leak_cb (.v v)) (dropK_cb k)) (fun _ => CbOk.pure (K := K) (V := V) (Q := Q) (some v))
    exact this.mono (fun _ => by simp) (fun _ _ h => by simpa using h)

/-- list-level result of `insert` / `insert_key_value` on a present key. -/
def replaceAt (l : List (K × V)) (i : Nat) (k : K) (v : V) (upd : Bool) : List (K × V) :=
  l.set i (if upd then (k, v) else ((l[i]?.map (·.1)).getD k, v))

/-- `Map::insert`. -/
theorem insert_sat {s : St K V Q} {l : List (K × V)} (hr : Rep s.r l) (k : K) (v : V) :
    Sat (insert E k v) s
      (fun res s' => s'.r.cap = s.r.cap ∧
        ((∃ i, ∃ hi : i < l.length, res = some l[i].2 ∧ Rep s'.r (l.set i (l[i].1, v)) ∧
            WRel s.w s'.w [.dropK k] ∧ (E.Pure → findKey E l (.key k) = some i)) ∨
         (res = none ∧ l.length < s.r.cap ∧ Rep s'.r (l ++ [(k, v)]) ∧ WRel s.w s'.w [] ∧
            (E.Pure → findKey E l (.key k) = none))))
      (fun c s' => s'.r.cap = s.r.cap ∧
        ((InjPanic s s' c ∧ ∃ l', Rep s'.r l' ∧ (l' = l ∨ ∃ i, ∃ hi : i < l.length, l' = l.set i (l[i].1, v))) ∨
         (s'.r = s.r ∧ OverflowPanic s c ∧ l.length = s.r.cap ∧ (E.Pure → findKey E l (.key k) = none) ∧
            WRel s.w s'.w (dropVTr E v ++ [.dropK k])))) := by
  unfold insert
  refine Sat.bind (Sat.mono (insert_ii_sat E hr k v false) (fun _ _ h => h) ?_) ?_
  · intro c s' ⟨h1, h2⟩
    refine ⟨by rw [h1], ?_⟩
    rcases h2 with h | ⟨ho, hf, hn, hw⟩
    · exact Or.inl ⟨h, l, h1 ▸ hr, Or.inl rfl⟩
    · exact Or.inr ⟨h1, ho, hf, hn, hw⟩
  · intro res s1 h
    obtain ⟨i, old⟩ := res
    dsimp only at h
    obtain ⟨hcap, hw, hcase⟩ := h
    rcases hcase with ⟨hi, hold, hrep, hfind⟩ | ⟨_, hold, hroom, hrep, hfind⟩
    · subst hold
      refine Sat.cb_last (dropReturnedKey_cb _) ?_ ?_
      · intro r s2 g1 g2 g3
        refine ⟨by rw [g1, hcap], Or.inl ⟨i, hi, by simpa using g3, g1 ▸ hrep, by simpa using hw.trans g2, hfind⟩⟩
      · intro s2 tr' g1 g2 g3 g4
        refine ⟨by rw [g1, hcap], Or.inl ⟨⟨rfl, fun hn => g2 (hw.inj hn), hw.unw ▸ g3, _, hw.trans g4⟩,
          _, g1 ▸ hrep, Or.inr ⟨i, hi, rfl⟩⟩⟩
    · subst hold
      refine Sat.pure ⟨hcap, Or.inr ⟨rfl, hroom, hrep, hw, hfind⟩⟩

end Micromap
