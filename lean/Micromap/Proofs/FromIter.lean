/-
Triples of `from.rs` / `extend`: the loop `for (k, v) in iter { m.insert(k, v); }`
(`extendLoop`, `from_iter`) against the list-level fold of single inserts.
-/
import Micromap.Proofs.EqClone

namespace Micromap.FromIter
open Micromap SetAlg Dict EqClone
variable {K V Q : Type} (E : Env K V Q)

/-! ### list level: one insert, and the fold of inserts -/

/-- the list `Map::insert(k, v)` leaves behind: when the scan finds the key at slot `i` the
    value is overwritten in place and the stored key object is kept; otherwise `(k, v)` is
    appended. -/
def insertL (l : List (K × V)) (k : K) (v : V) : List (K × V) :=
  match findKey E l (.key k) with
  | some i => l.set i ((l[i]?.map (·.1)).getD k, v)
  | none => l ++ [(k, v)]

/-- inserting the items one at a time, in order. -/
def foldInsert (l : List (K × V)) (xs : List (K × V)) : List (K × V) :=
  xs.foldl (fun acc p => insertL E acc p.1 p.2) l

/-- the effects of one `m.insert(k, v);` statement that succeeds: for a repeated key the
    supplied key object and then the displaced old value are dropped; nothing for a new key. -/
def itemTrace (l : List (K × V)) (k : K) (_v : V) : List (Event K V Q) :=
  match findKey E l (.key k) with
  | some i =>
    match l[i]? with
    | some p => .dropK k :: dropVTr E p.2
    | none => [.dropK k]
  | none => []

/-- one `next` of an instrumented source. -/
def pullTr (pulls : Bool) : List (Event K V Q) := if pulls then [.pull] else []

/-- the effects of consuming the items `xs` (without the final `next` that returns `None`). -/
def itemsTrace (pulls : Bool) : List (K × V) → List (K × V) → List (Event K V Q)
  | _, [] => []
  | l, (k, v) :: rest => pullTr pulls ++ (itemTrace E l k v ++ itemsTrace pulls (insertL E l k v) rest)

/-- the effects of a complete `extend` / `from_iter`: the items, then the final `next`. -/
def extendTrace (pulls : Bool) (l xs : List (K × V)) : List (Event K V Q) :=
  itemsTrace E pulls l xs ++ pullTr pulls

/-- position of the first surplus item: the first item whose key is absent while the container
    (of capacity `cap`) is full. -/
def overflowAt (cap : Nat) : List (K × V) → List (K × V) → Option Nat
  | _, [] => none
  | l, (k, v) :: rest =>
    if findKey E l (.key k) = none ∧ cap ≤ l.length then some 0
    else (overflowAt cap (insertL E l k v) rest).map (· + 1)

theorem foldInsert_cons (l : List (K × V)) (k : K) (v : V) (rest : List (K × V)) :
    foldInsert E l ((k, v) :: rest) = foldInsert E (insertL E l k v) rest := rfl

theorem insertL_found {l : List (K × V)} {k : K} {i} (v : V) (h : findKey E l (.key k) = some i)
    (hi : i < l.length) : insertL E l k v = l.set i (l[i].1, v) := by
  unfold insertL; rw [h]; simp [List.getElem?_eq_getElem hi]

theorem insertL_absent {l : List (K × V)} {k : K} (v : V) (h : findKey E l (.key k) = none) :
    insertL E l k v = l ++ [(k, v)] := by
  unfold insertL; rw [h]

theorem itemTrace_found {l : List (K × V)} {k : K} {i} (v : V) (h : findKey E l (.key k) = some i)
    (hi : i < l.length) : itemTrace E l k v = (.dropK k :: dropVTr E l[i].2 : List (Event K V Q)) := by
  unfold itemTrace; rw [h]; simp [List.getElem?_eq_getElem hi]

theorem itemTrace_absent {l : List (K × V)} {k : K} (v : V) (h : findKey E l (.key k) = none) :
    itemTrace E l k v = ([] : List (Event K V Q)) := by
  unfold itemTrace; rw [h]

/-! ### the pieces of the loop body -/

/-- dropping the rest of the source (a list of owned pairs), front to back. -/
theorem dropList_cb : ∀ ps : List (K × V),
    CbOk (dropList E ps) (fun _ => dropTrace E ps) (fun _ _ => True)
  | [] => (CbOk.pure ()).mono (fun _ => rfl) (fun _ _ _ => trivial)
  | p :: rest => by
    unfold dropList
    have := CbOk.seq (CbOk.unwindWith (dropList_cb rest) (dropPair_cb E p)) (fun _ => dropList_cb rest)
    exact this.mono (fun _ => by simp [dropTrace]) (fun _ _ h => h)

theorem OverflowPanic.after {s s1 : St K V Q} {t c} (hw : WRel s.w s1.w t) (h : OverflowPanic s1 c) :
    OverflowPanic s c := by
  unfold OverflowPanic at *
  rw [hw.profile] at h; exact h

/-- a body followed on unwinding by a clean-up that is a callback. -/
theorem unwindWith_cb {c : SM K V Q Unit} {tc Qc} (hc : CbOk c tc Qc) {body : SM K V Q α}
    {s : St K V Q} {Qp : α → St K V Q → Prop} {P₀ : PanicClass → St K V Q → Prop}
    (hb : Sat body s Qp P₀) :
    Sat (Micromap.unwindWith c body) s Qp
      (fun cl s'' => ∃ s', P₀ cl s' ∧ s''.r = s'.r ∧ WRel s'.w s''.w (tc ())) := by
  refine Sat.unwindWith hb ?_
  intro cl s' h
  refine Sat.mono (hc.unw (s'.setUnw true) rfl) ?_ (fun _ _ h => h)
  intro _ s'' ⟨g1, g2, _⟩
  exact ⟨s', h, by simpa using g1, g2.through_unw⟩

/-- what one successful `m.insert(k, v);` statement establishes. -/
def ItemDone (s0 s2 : St K V Q) (l : List (K × V)) (k : K) (v : V) (l1 : List (K × V)) : Prop :=
  s2.r.cap = s0.r.cap ∧ Rep s2.r l1 ∧ ∃ tr, WRel s0.w s2.w tr ∧
    (E.Pure → l1 = insertL E l k v ∧ tr = itemTrace E l k v ∧
      ¬ (findKey E l (.key k) = none ∧ s0.r.cap ≤ l.length))

/-- how one `m.insert(k, v);` statement unwinds (the rest of the source has been dropped). -/
def ItemPanic (s0 s2 : St K V Q) (l : List (K × V)) (k : K) (v : V) (rest : List (K × V))
    (c : PanicClass) : Prop :=
  s2.r.cap = s0.r.cap ∧ (∃ l', Rep s2.r l') ∧ (∃ tr, WRel s0.w s2.w tr) ∧
    (InjPanic s0 s2 c ∨
      (OverflowPanic s0 c ∧ (E.Pure → findKey E l (.key k) = none ∧ s0.r.cap ≤ l.length ∧
        Rep s2.r l ∧ WRel s0.w s2.w (dropVTr E v ++ (.dropK k :: dropTrace E rest)))))

/-- the statement `m.insert(k, v);` inside the loop, in continuation-passing form (the `do`
    block of `extendLoop` shares its continuation through a join point). -/
theorem itemStep_sat {s0 : St K V Q} {l : List (K × V)} (hr : Rep s0.r l) (k : K) (v : V)
    (rest : List (K × V)) (kont : SM K V Q Unit) {Qp : Unit → St K V Q → Prop}
    {P : PanicClass → St K V Q → Prop}
    (hk : ∀ s2 l1, ItemDone E s0 s2 l k v l1 → Sat kont s2 Qp P)
    (hp : ∀ c s2, ItemPanic E s0 s2 l k v rest c → P c s2) :
    Sat (Micromap.unwindWith (dropList E rest) (insert E k v) >>= fun r =>
        match r with
        | some old => Micromap.unwindWith (dropList E rest) (dropV E old) >>= fun _ => kont
        | none => kont) s0 Qp P := by
  refine Sat.bind (Sat.mono (unwindWith_cb (dropList_cb E rest) (insert_sat E hr k v)) (fun _ _ h => h) ?_) ?_
  · -- `insert` unwound, the rest of the source was dropped
    intro c s2 ⟨s1, ⟨h1, h2⟩, g1, g2⟩
    refine hp c s2 ⟨by rw [g1, h1], ?_, ?_, ?_⟩
    · rcases h2 with ⟨_, l', hl', _⟩ | ⟨hs, _⟩
      · exact ⟨l', g1 ▸ hl'⟩
      · exact ⟨l, by rw [g1, hs]; exact hr⟩
    · rcases h2 with ⟨⟨_, _, _, tr', hw⟩, _⟩ | ⟨_, _, _, _, hw⟩
      · exact ⟨_, hw.trans g2⟩
      · exact ⟨_, hw.trans g2⟩
    · rcases h2 with ⟨⟨hc, hi, hu, tr', hw⟩, _⟩ | ⟨hs, ho, hfull, hfind, hw⟩
      · exact Or.inl ⟨hc, hi, hu, _, hw.trans g2⟩
      · refine Or.inr ⟨ho, fun hpure => ⟨hfind hpure, by omega, by rw [g1, hs]; exact hr, ?_⟩⟩
        exact (hw.trans g2).trans' (WRel.refl _) (by simp)
  · intro res s1 ⟨hcap, hcase⟩
    rcases hcase with ⟨i, hi, hres, hrep, hw, hfind⟩ | ⟨hres, hroom, hrep, hw, hfind⟩
    · -- repeated key: the old value comes back and is dropped
      subst hres
      simp only
      refine Sat.cb (CbOk.unwindWith (dropList_cb E rest) (dropV_cb E l[i].2)) ?_ ?_
      · intro _ s2 g1 g2 _
        refine hk s2 _ ⟨by rw [g1, hcap], g1 ▸ hrep, _, hw.trans g2, fun hpure => ⟨?_, ?_, ?_⟩⟩
        · rw [insertL_found E v (hfind hpure) hi]
        · rw [itemTrace_found E v (hfind hpure) hi]; rfl
        · rw [hfind hpure]; simp
      · intro s2 tr' g1 g2 g3 g4
        refine hp _ s2 ⟨by rw [g1, hcap], ⟨_, g1 ▸ hrep⟩, ⟨_, hw.trans g4⟩, Or.inl ?_⟩
        exact (InjPanic.of_cb g2 g3 g4).after hw
    · -- new key
      subst hres
      simp only
      refine hk s1 _ ⟨hcap, hrep, _, hw, fun hpure => ⟨?_, ?_, ?_⟩⟩
      · rw [insertL_absent E v (hfind hpure)]
      · rw [itemTrace_absent E v (hfind hpure)]
      · intro ⟨_, h⟩; omega

/-! ### the loop -/

/-- normal postcondition of `extendLoop`. -/
def ExtendOk (pulls : Bool) (s s' : St K V Q) (l xs : List (K × V)) : Prop :=
  s'.r.cap = s.r.cap ∧ ∃ l' tr, Rep s'.r l' ∧ WRel s.w s'.w tr ∧
    (E.Pure → l' = foldInsert E l xs ∧ tr = extendTrace E pulls l xs ∧
      overflowAt E s.r.cap l xs = none)

/-- unwinding postcondition of `extendLoop`: an injected panic, or the container's overflow
    check at the first surplus item `xs[m] = (k, v)` — the items before it were inserted, the
    surplus item was pulled and its value and key dropped, the rest of the source was dropped
    unpulled. -/
def ExtendPanic (pulls : Bool) (s s' : St K V Q) (l xs : List (K × V)) (c : PanicClass) : Prop :=
  s'.r.cap = s.r.cap ∧ (∃ l', Rep s'.r l') ∧ (∃ tr, WRel s.w s'.w tr) ∧
    (InjPanic s s' c ∨
      (OverflowPanic s c ∧ (E.Pure → ∃ m k v, overflowAt E s.r.cap l xs = some m ∧
        xs[m]? = some (k, v) ∧ Rep s'.r (foldInsert E l (xs.take m)) ∧
        WRel s.w s'.w (itemsTrace E pulls l (xs.take m) ++
          (pullTr pulls ++ (dropVTr E v ++ (.dropK k :: dropTrace E (xs.drop (m + 1)))))))))

/-- the loop `for (k, v) in iter { m.insert(k, v); }` for any oracle and injection; under a pure
    oracle the result is the fold of single inserts / the overflow happens at the first surplus item. -/
theorem extendLoop_sat (pulls : Bool) : ∀ (xs : List (K × V)) (s : St K V Q) (l : List (K × V)),
    Rep s.r l →
    Sat (extendLoop E pulls xs) s (fun _ s' => ExtendOk E pulls s s' l xs)
      (fun c s' => ExtendPanic E pulls s s' l xs c)
  | [], s, l, hr => by
    unfold extendLoop
    cases pulls with
    | false =>
      simp only [Bool.false_eq_true, if_false]
      exact Sat.pure ⟨rfl, l, [], hr, WRel.refl _, fun _ => ⟨rfl, rfl, rfl⟩⟩
    | true =>
      simp only [if_true]
      refine Sat.cb_last pullSrc_cb ?_ ?_
      · intro _ s' h1 h2 _
        exact ⟨by rw [h1], l, _, h1 ▸ hr, h2, fun _ => ⟨rfl, rfl, rfl⟩⟩
      · intro s' tr' h1 h2 h3 h4
        exact ⟨by rw [h1], ⟨l, h1 ▸ hr⟩, ⟨_, h4⟩, Or.inl (InjPanic.of_cb h2 h3 h4)⟩
  | (k, v) :: rest, s, l, hr => by
    unfold extendLoop
    dsimp only
    -- everything after the pull, from a state `s0` reached with the effects `pullTr pulls`
    have hbody : ∀ s0 : St K V Q, s0.r = s.r → WRel s.w s0.w (pullTr pulls) →
        Sat (Micromap.unwindWith (dropList E rest) (insert E k v) >>= fun r =>
          match r with
          | some old => Micromap.unwindWith (dropList E rest) (dropV E old) >>= fun _ =>
              extendLoop E pulls rest
          | none => extendLoop E pulls rest) s0
          (fun _ s' => ExtendOk E pulls s s' l ((k, v) :: rest))
          (fun c s' => ExtendPanic E pulls s s' l ((k, v) :: rest) c) := by
      intro s0 h0 hw0
      have hr0 : Rep s0.r l := h0 ▸ hr
      refine itemStep_sat E hr0 k v rest _ ?_ ?_
      · -- the item went in: the rest of the loop
        intro s2 l1 ⟨hcap, hrep, tri, hwi, hpure⟩
        refine Sat.mono (extendLoop_sat pulls rest s2 l1 hrep) ?_ ?_
        · intro _ s' ⟨k1, l', tr, k2, k3, k4⟩
          refine ⟨by rw [k1, hcap, h0], l', _, k2, (hw0.trans hwi).trans k3, fun hp => ?_⟩
          obtain ⟨e1, e2, e3⟩ := hpure hp
          obtain ⟨f1, f2, f3⟩ := k4 hp
          refine ⟨by rw [f1, e1]; rfl, ?_, ?_⟩
          · rw [f2, e1, e2]; simp [extendTrace, itemsTrace, List.append_assoc]
          · rw [hcap, h0, e1] at f3
            rw [h0] at e3
            simp only [overflowAt, if_neg e3, f3, Option.map_none]
        · intro c s' ⟨k1, k2, ⟨tr, k3⟩, k4⟩
          refine ⟨by rw [k1, hcap, h0], k2, ⟨_, (hw0.trans hwi).trans k3⟩, ?_⟩
          rcases k4 with hi | ⟨ho, hov⟩
          · exact Or.inl (hi.after (hw0.trans hwi))
          · refine Or.inr ⟨OverflowPanic.after (hw0.trans hwi) ho, fun hp => ?_⟩
            obtain ⟨e1, e2, e3⟩ := hpure hp
            obtain ⟨m, k', v', f1, f2, f3, f4⟩ := hov hp
            rw [hcap, h0, e1] at f1
            rw [h0] at e3
            refine ⟨m + 1, k', v', ?_, by simpa using f2, ?_, ?_⟩
            · simp only [overflowAt, if_neg e3, f1, Option.map_some]
            · rw [List.take_succ_cons, foldInsert_cons, ← e1]; exact f3
            · have := (hw0.trans hwi).trans f4
              rw [e2, e1] at this
              simpa [itemsTrace, List.append_assoc] using this
      · -- the item's insert unwound
        intro c s2 ⟨hcap, hl', ⟨tr, hw⟩, hcase⟩
        refine ⟨by rw [hcap, h0], hl', ⟨_, hw0.trans hw⟩, ?_⟩
        rcases hcase with hi | ⟨ho, hov⟩
        · exact Or.inl (hi.after hw0)
        · refine Or.inr ⟨OverflowPanic.after hw0 ho, fun hp => ?_⟩
          obtain ⟨e1, e2, e3, e4⟩ := hov hp
          rw [h0] at e2
          refine ⟨0, k, v, ?_, rfl, by simpa [foldInsert] using e3, ?_⟩
          · simp only [overflowAt, if_pos (And.intro e1 e2)]
          · simpa [itemsTrace] using hw0.trans e4
    cases pulls with
    | false =>
      simp only [Bool.false_eq_true, if_false]
      exact hbody s rfl (by simpa [pullTr] using WRel.refl s.w)
    | true =>
      simp only [if_true]
      refine Sat.cb (CbOk.unwindWith (dropList_cb E ((k, v) :: rest)) pullSrc_cb) ?_ ?_
      · intro _ s0 h1 h2 _
        exact hbody s0 h1 (by simpa [pullTr] using h2)
      · intro s0 tr' h1 h2 h3 h4
        exact ⟨by rw [h1], ⟨l, h1 ▸ hr⟩, ⟨_, h4⟩, Or.inl (InjPanic.of_cb h2 h3 h4)⟩

/-- two descriptions of the effects between the same two worlds agree. -/
theorem WRel.unique {w w' : World K V Q} {t₁ t₂} (h₁ : WRel w w' t₁) (h₂ : WRel w w' t₂) : t₁ = t₂ := by
  have := h₁.trace.symm.trans h₂.trace
  exact List.append_cancel_left this

/-- `from_iter` / `collect` / `From<[_; N]>`: the loop on a local that is dropped on unwinding.
    Stated for any initial contents `l` of the local (`[]` for `from_iter`). -/
theorem from_iter_sat (pulls : Bool) (xs : List (K × V)) {s : St K V Q} {l : List (K × V)}
    (hr : Rep s.r l) :
    Sat (from_iter E pulls xs) s (fun _ s' => ExtendOk E pulls s s' l xs)
      (fun c s' => s'.r.cap = s.r.cap ∧ ∃ lq tr, Dropped s'.r lq ∧ WRel s.w s'.w (tr ++ dropTrace E lq) ∧
        (InjPanic s s' c ∨
          (OverflowPanic s c ∧ (E.Pure → ∃ m k v, overflowAt E s.r.cap l xs = some m ∧
            xs[m]? = some (k, v) ∧ lq = foldInsert E l (xs.take m) ∧
            tr = itemsTrace E pulls l (xs.take m) ++
              (pullTr pulls ++ (dropVTr E v ++ (.dropK k :: dropTrace E (xs.drop (m + 1))))))))) := by
  unfold from_iter
  refine Sat.unwindWith (extendLoop_sat E pulls xs s l hr) ?_
  intro c s1 ⟨h1, ⟨lq, hlq⟩, ⟨tr, hw⟩, hcase⟩
  refine Sat.mono (cleanup_dropMap E hlq) ?_ (fun _ _ h => h)
  intro _ s2 ⟨g1, g2, _, g4⟩
  refine ⟨by rw [g1, h1], lq, tr, g2, hw.trans g4, ?_⟩
  rcases hcase with ⟨hc, hi, hu, tr', hw'⟩ | ⟨ho, hov⟩
  · exact Or.inl ⟨hc, hi, hu, _, hw'.trans g4⟩
  · refine Or.inr ⟨ho, fun hp => ?_⟩
    obtain ⟨m, k, v, f1, f2, f3, f4⟩ := hov hp
    exact ⟨m, k, v, f1, f2, hlq.unique f3, WRel.unique hw f4⟩

/-! ### the source is consumed once, front to back -/

/-- is the event a `next` call on the source. -/
def isPull : Event K V Q → Bool
  | .pull => true
  | _ => false

/-- number of `next` calls on the source in a trace. -/
def countPulls (tr : List (Event K V Q)) : Nat := (tr.filter isPull).length

theorem countPulls_append (a b : List (Event K V Q)) : countPulls (a ++ b) = countPulls a + countPulls b := by
  simp [countPulls]

theorem countPulls_dropVTr (v : V) : countPulls (dropVTr E v : List (Event K V Q)) = 0 := by
  unfold dropVTr countPulls; split <;> simp [isPull]

theorem countPulls_dropTrace : ∀ ps : List (K × V), countPulls (dropTrace E ps : List (Event K V Q)) = 0
  | [] => rfl
  | p :: ps => by
    have ih := countPulls_dropTrace ps
    have hv := countPulls_dropVTr E (K := K) (Q := Q) p.2
    unfold dropTrace at ih ⊢
    rw [List.flatMap_cons, countPulls_append, ih]
    have : (Event.dropK p.1 :: dropVTr E p.2 : List (Event K V Q)) = [Event.dropK p.1] ++ dropVTr E p.2 := rfl
    rw [this, countPulls_append, hv]
    simp [countPulls, isPull]

theorem countPulls_itemTrace (l : List (K × V)) (k : K) (v : V) :
    countPulls (itemTrace E l k v : List (Event K V Q)) = 0 := by
  unfold itemTrace
  split
  · split
    · rename_i p _
      have hv := countPulls_dropVTr E (K := K) (Q := Q) p.2
      have : (Event.dropK k :: dropVTr E p.2 : List (Event K V Q)) = [Event.dropK k] ++ dropVTr E p.2 := rfl
      rw [this, countPulls_append, hv]
      simp [countPulls, isPull]
    · simp [countPulls, isPull]
  · rfl

theorem countPulls_pullTr (pulls : Bool) :
    countPulls (pullTr pulls : List (Event K V Q)) = if pulls then 1 else 0 := by
  cases pulls <;> rfl

theorem countPulls_itemsTrace (pulls : Bool) : ∀ (xs l : List (K × V)),
    countPulls (itemsTrace E pulls l xs) = if pulls then xs.length else 0
  | [], _ => by simp [itemsTrace, countPulls]
  | (k, v) :: rest, l => by
    unfold itemsTrace
    rw [countPulls_append, countPulls_append, countPulls_itemTrace, countPulls_pullTr,
      countPulls_itemsTrace pulls rest]
    cases pulls <;> simp <;> omega

/-- a complete run over an instrumented source calls `next` exactly `|xs| + 1` times. -/
theorem countPulls_extendTrace (pulls : Bool) (l xs : List (K × V)) :
    countPulls (extendTrace E pulls l xs) = if pulls then xs.length + 1 else 0 := by
  unfold extendTrace
  rw [countPulls_append, countPulls_itemsTrace, countPulls_pullTr]
  cases pulls <;> simp

/-- a run that overflows at item `m` called `next` exactly `m + 1` times: none after the panic. -/
theorem countPulls_overflow (pulls : Bool) (l xs : List (K × V)) (m : Nat) (hm : m < xs.length) (k : K) (v : V) :
    countPulls (itemsTrace E pulls l (xs.take m) ++
      (pullTr pulls ++ (dropVTr E v ++ (.dropK k :: dropTrace E (xs.drop (m + 1)))))) =
      if pulls then m + 1 else 0 := by
  have : (Event.dropK k :: dropTrace E (xs.drop (m + 1)) : List (Event K V Q)) =
      [Event.dropK k] ++ dropTrace E (xs.drop (m + 1)) := rfl
  rw [this, countPulls_append, countPulls_append, countPulls_append, countPulls_append,
    countPulls_itemsTrace, countPulls_pullTr, countPulls_dropVTr, countPulls_dropTrace]
  have : (xs.take m).length = m := by rw [List.length_take]; omega
  cases pulls <;> simp [countPulls, isPull, this]

/-! ### repeats do not consume capacity -/

theorem findKey_some_hit {l : List (K × V)} {k : K} {i} (h : findKey E l (.key k) = some i) :
    ∃ hi : i < l.length, E.keq l[i].1 k = true := by
  rw [findKey_eq_findIdxP] at h
  obtain ⟨hi, _, hh⟩ := lookupP_eq_of_findIdxP h
  exact ⟨hi, hh⟩

theorem findKey_none_keq {l : List (K × V)} {k : K} (h : findKey E l (.key k) = none) :
    ∀ p, p ∈ l → E.keq p.1 k = false :=
  (findKey_none_iff E (.key k)).mp h

/-- the two shapes of `insertL`. -/
theorem insertL_cases (l : List (K × V)) (k : K) (v : V) :
    (∃ i, ∃ hi : i < l.length, findKey E l (.key k) = some i ∧ E.keq l[i].1 k = true ∧
        insertL E l k v = l.set i (l[i].1, v)) ∨
    (findKey E l (.key k) = none ∧ (∀ p, p ∈ l → E.keq p.1 k = false) ∧
        insertL E l k v = l ++ [(k, v)]) := by
  cases h : findKey E l (.key k) with
  | some i =>
    obtain ⟨hi, hh⟩ := findKey_some_hit E h
    exact Or.inl ⟨i, hi, rfl, hh, insertL_found E v h hi⟩
  | none => exact Or.inr ⟨rfl, findKey_none_keq E h, insertL_absent E v h⟩

theorem map_fst_set_self (l : List (K × V)) {i} (hi : i < l.length) (v : V) :
    (l.set i (l[i].1, v)).map (·.1) = l.map (·.1) := by
  apply List.ext_getElem (by simp)
  intro j h1 h2
  simp only [List.getElem_map, List.getElem_set]
  split
  · rename_i h; subst h; rfl
  · rfl

/-- a repeated key leaves the stored key objects (and their order) untouched — the first key
    object is kept; a new key is appended at the end. -/
theorem insertL_keys (l : List (K × V)) (k : K) (v : V) :
    (insertL E l k v).map (·.1) =
      if (findKey E l (.key k)).isSome then l.map (·.1) else l.map (·.1) ++ [k] := by
  rcases insertL_cases E l k v with ⟨i, hi, hf, _, he⟩ | ⟨hf, _, he⟩
  · rw [he, hf, map_fst_set_self l hi]; rfl
  · rw [he, hf]; simp

theorem insertL_length (l : List (K × V)) (k : K) (v : V) :
    (insertL E l k v).length = if (findKey E l (.key k)).isSome then l.length else l.length + 1 := by
  have := congrArg List.length (insertL_keys E l k v)
  rw [List.length_map] at this
  rw [this]; split <;> simp

theorem insertL_nodup {E : Env K V Q} (hE : E.Lawful) {l : List (K × V)} (hn : NodupKeys E.keq l) (k : K) (v : V) :
    NodupKeys E.keq (insertL E l k v) := by
  rcases insertL_cases E l k v with ⟨i, hi, _, _, he⟩ | ⟨_, habs, he⟩
  · rw [he]; exact nodupKeys_set hE.equivB hn hi _ v (hE.refl _)
  · rw [he]; exact nodupKeys_append hE.equivB hn k v habs

theorem foldInsert_nodup {E : Env K V Q} (hE : E.Lawful) : ∀ (xs l : List (K × V)), NodupKeys E.keq l →
    NodupKeys E.keq (foldInsert E l xs)
  | [], _, hn => hn
  | (k, v) :: rest, l, hn => by
    rw [foldInsert_cons]; exact foldInsert_nodup hE rest _ (insertL_nodup hE hn k v)

/-- the stored key objects after the fold are key objects of the initial contents or of the items. -/
theorem foldInsert_keys_sub : ∀ (xs l : List (K × V)) (a : K), a ∈ (foldInsert E l xs).map (·.1) →
    a ∈ l.map (·.1) ∨ a ∈ xs.map (·.1)
  | [], _, _, h => Or.inl h
  | (k, v) :: rest, l, a, h => by
    rw [foldInsert_cons] at h
    rcases foldInsert_keys_sub rest _ a h with h1 | h1
    · rw [insertL_keys] at h1
      split at h1
      · exact Or.inl h1
      · rw [List.mem_append, List.mem_singleton] at h1
        rcases h1 with h1 | h1
        · exact Or.inl h1
        · subst h1; exact Or.inr (by simp)
    · exact Or.inr (by simp only [List.map_cons, List.mem_cons]; exact Or.inr h1)

/-- every key of the initial contents and every item key is present (up to `==`) afterwards. -/
theorem foldInsert_covers {E : Env K V Q} (hE : E.Lawful) : ∀ (xs l : List (K × V)) (x : K),
    (memB E.keq x (l.map (·.1)) = true ∨ x ∈ xs.map (·.1)) →
    memB E.keq x ((foldInsert E l xs).map (·.1)) = true
  | [], _, _, h => by
    rcases h with h | h
    · exact h
    · simp at h
  | (k, v) :: rest, l, x, h => by
    rw [foldInsert_cons]
    apply foldInsert_covers hE rest
    have hk : memB E.keq k ((insertL E l k v).map (·.1)) = true := by
      rw [memB_eq_true]
      rcases insertL_cases E l k v with ⟨i, hi, hf, hh, _⟩ | ⟨hf, _, _⟩
      · refine ⟨l[i].1, ?_, hh⟩
        rw [insertL_keys, hf]; exact List.mem_map_of_mem (List.getElem_mem hi)
      · refine ⟨k, ?_, hE.refl k⟩
        rw [insertL_keys, hf]; simp
    rcases h with h | h
    · left
      rw [memB_eq_true] at h ⊢
      obtain ⟨y, hy, hyx⟩ := h
      refine ⟨y, ?_, hyx⟩
      rw [insertL_keys]; split
      · exact hy
      · exact List.mem_append_left _ hy
    · simp only [List.map_cons, List.mem_cons] at h
      rcases h with h | h
      · subst h; exact Or.inl hk
      · exact Or.inr h

/-- **repeats do not consume capacity**: the fold holds at most as many entries as there are
    distinct keys — `d` is any list that contains (up to `==`) every key involved. -/
theorem foldInsert_length_le_cover {E : Env K V Q} (hE : E.Lawful) (l xs : List (K × V))
    (hn : NodupKeys E.keq l) (d : List K)
    (hd : ∀ x, x ∈ l.map (·.1) ∨ x ∈ xs.map (·.1) → memB E.keq x d = true) :
    (foldInsert E l xs).length ≤ d.length := by
  have hnn : NodupB E.keq ((foldInsert E l xs).map (·.1)) := foldInsert_nodup hE xs l hn
  have := pigeon hE.equivB ((foldInsert E l xs).map (·.1)) d hnn
    (fun x hx => hd x (foldInsert_keys_sub E xs l x hx))
  simpa using this

/-- no step overflows when the distinct keys fit. -/
theorem overflowAt_none_of_cover {E : Env K V Q} (hE : E.Lawful) (cap : Nat) (d : List K) (hdc : d.length ≤ cap) :
    ∀ (xs l : List (K × V)), NodupKeys E.keq l →
    (∀ x, x ∈ l.map (·.1) ∨ x ∈ xs.map (·.1) → memB E.keq x d = true) →
    overflowAt E cap l xs = none
  | [], _, _, _ => rfl
  | (k, v) :: rest, l, hn, hd => by
    unfold overflowAt
    have hstep : ¬ (findKey E l (.key k) = none ∧ cap ≤ l.length) := by
      intro ⟨hf, hfull⟩
      have h1 := foldInsert_length_le_cover hE l [(k, v)] hn d (fun x hx => hd x (by
        rcases hx with hx | hx
        · exact Or.inl hx
        · right; simp at hx; subst hx; simp))
      have : foldInsert E l [(k, v)] = l ++ [(k, v)] := by
        show insertL E l k v = _
        exact insertL_absent E v hf
      rw [this] at h1
      simp at h1; omega
    rw [if_neg hstep]
    rw [overflowAt_none_of_cover hE cap d hdc rest (insertL E l k v) (insertL_nodup hE hn k v) (by
      intro x hx
      apply hd
      rcases hx with hx | hx
      · rw [insertL_keys] at hx
        split at hx
        · exact Or.inl hx
        · rw [List.mem_append, List.mem_singleton] at hx
          rcases hx with hx | hx
          · exact Or.inl hx
          · subst hx; right; simp
      · right; simp only [List.map_cons, List.mem_cons]; exact Or.inr hx)]
    rfl

/-- without overflow the fold stays within the capacity. -/
theorem foldInsert_length_le_cap (cap : Nat) : ∀ (xs l : List (K × V)), l.length ≤ cap →
    overflowAt E cap l xs = none → (foldInsert E l xs).length ≤ cap
  | [], _, h, _ => h
  | (k, v) :: rest, l, h, ho => by
    unfold overflowAt at ho
    split at ho
    · cases ho
    · rename_i hstep
      rw [Option.map_eq_none_iff] at ho
      rw [foldInsert_cons]
      refine foldInsert_length_le_cap cap rest _ ?_ ho
      rw [insertL_length]
      split
      · exact h
      · rename_i hf
        have : findKey E l (.key k) = none := by
          cases hh : findKey E l (.key k) with
          | none => rfl
          | some i => rw [hh] at hf; simp at hf
        have : ¬ cap ≤ l.length := fun hc => hstep ⟨this, hc⟩
        omega

/-- **the overflow is unavoidable with more than `cap` distinct keys**: if `d` is a list of
    pairwise unequal keys, each equal to some item key (or initial key), and `|d| > cap`, then
    some item overflows. -/
theorem overflowAt_some_of_distinct {E : Env K V Q} (hE : E.Lawful) (cap : Nat) (l xs : List (K × V))
    (hl : l.length ≤ cap) (d : List K) (hdn : NodupB E.keq d)
    (hd : ∀ y, y ∈ d → memB E.keq y (l.map (·.1) ++ xs.map (·.1)) = true)
    (hbig : cap < d.length) : overflowAt E cap l xs ≠ none := by
  intro ho
  have h1 := foldInsert_length_le_cap E cap xs l hl ho
  have h2 := pigeon hE.equivB d ((foldInsert E l xs).map (·.1)) hdn (by
    intro y hy
    have := hd y hy
    rw [memB_eq_true] at this ⊢
    obtain ⟨z, hz, hzy⟩ := this
    rw [List.mem_append] at hz
    have hz' : memB E.keq z ((foldInsert E l xs).map (·.1)) = true := by
      apply foldInsert_covers hE
      rcases hz with hz | hz
      · left; rw [memB_eq_true]; exact ⟨z, hz, hE.refl z⟩
      · exact Or.inr hz
    rw [memB_eq_true] at hz'
    obtain ⟨w, hw, hwz⟩ := hz'
    exact ⟨w, hw, hE.trans _ _ _ hwz hzy⟩)
  rw [List.length_map] at h2
  omega

/-- the number of entries after the fold is the number of distinct keys: it equals the length
    of any duplicate-free system of representatives `d` of the keys involved. -/
theorem foldInsert_length_eq_distinct {E : Env K V Q} (hE : E.Lawful) (l xs : List (K × V))
    (hn : NodupKeys E.keq l) (d : List K) (hdn : NodupB E.keq d)
    (hd1 : ∀ x, x ∈ l.map (·.1) ∨ x ∈ xs.map (·.1) → memB E.keq x d = true)
    (hd2 : ∀ y, y ∈ d → memB E.keq y (l.map (·.1) ++ xs.map (·.1)) = true) :
    (foldInsert E l xs).length = d.length := by
  apply Nat.le_antisymm (foldInsert_length_le_cover hE l xs hn d hd1)
  have h2 := pigeon hE.equivB d ((foldInsert E l xs).map (·.1)) hdn (by
    intro y hy
    have := hd2 y hy
    rw [memB_eq_true] at this ⊢
    obtain ⟨z, hz, hzy⟩ := this
    rw [List.mem_append] at hz
    have hz' : memB E.keq z ((foldInsert E l xs).map (·.1)) = true := by
      apply foldInsert_covers hE
      rcases hz with hz | hz
      · left; rw [memB_eq_true]; exact ⟨z, hz, hE.refl z⟩
      · exact Or.inr hz
    rw [memB_eq_true] at hz'
    obtain ⟨w, hw, hwz⟩ := hz'
    exact ⟨w, hw, hE.trans _ _ _ hwz hzy⟩)
  rw [List.length_map] at h2
  exact h2

/-! ### what `overflowAt` means -/

/-- no item overflows iff every item finds its key present or the container not yet full, in
    the container built from the items before it. -/
theorem overflowAt_none_iff (cap : Nat) : ∀ (xs l : List (K × V)),
    overflowAt E cap l xs = none ↔
      ∀ m k v, xs[m]? = some (k, v) →
        ¬ (findKey E (foldInsert E l (xs.take m)) (.key k) = none ∧
            cap ≤ (foldInsert E l (xs.take m)).length)
  | [], l => by simp [overflowAt]
  | (k, v) :: rest, l => by
    have ih := overflowAt_none_iff cap rest (insertL E l k v)
    unfold overflowAt
    constructor
    · intro h m k' v' hm
      split at h
      · cases h
      · rename_i hstep
        rw [Option.map_eq_none_iff] at h
        cases m with
        | zero =>
          simp only [List.getElem?_cons_zero, Option.some.injEq, Prod.mk.injEq] at hm
          obtain ⟨rfl, rfl⟩ := hm
          simpa [foldInsert] using hstep
        | succ m =>
          rw [List.take_succ_cons, foldInsert_cons]
          exact ih.mp h m k' v' (by simpa using hm)
    · intro h
      have h0 := h 0 k v rfl
      rw [if_neg (by simpa [foldInsert] using h0), Option.map_eq_none_iff]
      apply ih.mpr
      intro m k' v' hm
      have := h (m + 1) k' v' (by simpa using hm)
      rwa [List.take_succ_cons, foldInsert_cons] at this

/-- the first surplus item: its key is absent from the full container built from the items
    before it, and no earlier item overflowed. -/
theorem overflowAt_some_spec (cap : Nat) : ∀ (xs l : List (K × V)) (m : Nat),
    overflowAt E cap l xs = some m →
      ∃ k v, xs[m]? = some (k, v) ∧
        findKey E (foldInsert E l (xs.take m)) (.key k) = none ∧
        cap ≤ (foldInsert E l (xs.take m)).length ∧
        overflowAt E cap l (xs.take m) = none
  | [], _, _, h => by simp [overflowAt] at h
  | (k, v) :: rest, l, m, h => by
    unfold overflowAt at h
    split at h
    · rename_i hstep
      cases h
      exact ⟨k, v, rfl, by simpa [foldInsert] using hstep.1, by simpa [foldInsert] using hstep.2, rfl⟩
    · rename_i hstep
      rw [Option.map_eq_some_iff] at h
      obtain ⟨m', hm', rfl⟩ := h
      obtain ⟨k', v', h1, h2, h3, h4⟩ := overflowAt_some_spec cap rest _ m' hm'
      refine ⟨k', v', by simpa using h1, ?_, ?_, ?_⟩
      · rw [List.take_succ_cons, foldInsert_cons]; exact h2
      · rw [List.take_succ_cons, foldInsert_cons]; exact h3
      · rw [List.take_succ_cons]
        unfold overflowAt
        rw [if_neg hstep, h4]; rfl

/-! ### first key object kept, last value wins -/

/-- the stored key objects when keys arrive in the order `xs` on top of `acc`: a key is stored
    only if no equal key is stored already (first occurrence wins). -/
def firstKeys (keq : K → K → Bool) (acc : List K) (xs : List K) : List K :=
  xs.foldl (fun acc k => if memB keq k acc then acc else acc ++ [k]) acc

theorem findKey_isSome_eq_memB (l : List (K × V)) (k : K) :
    (findKey E l (.key k)).isSome = memB E.keq k (l.map (·.1)) := by
  cases h : findKey E l (.key k) with
  | none =>
    have := findKey_none_keq E h
    symm
    rw [Option.isSome_none, memB_eq_false]
    intro y hy
    obtain ⟨p, hp, rfl⟩ := List.mem_map.1 hy
    exact this p hp
  | some i =>
    obtain ⟨hi, hh⟩ := findKey_some_hit E h
    symm
    rw [Option.isSome_some, memB_eq_true]
    exact ⟨l[i].1, List.mem_map_of_mem (List.getElem_mem hi), hh⟩

/-- **first key object kept**: the key objects stored after the fold, in slot order, are the
    first occurrences of each key class. -/
theorem foldInsert_keys : ∀ (xs l : List (K × V)),
    (foldInsert E l xs).map (·.1) = firstKeys E.keq (l.map (·.1)) (xs.map (·.1))
  | [], _ => rfl
  | (k, v) :: rest, l => by
    rw [foldInsert_cons, foldInsert_keys rest, insertL_keys, findKey_isSome_eq_memB]
    rfl

/-- lookups after one insert: the inserted key (and every key equal to it) now maps to `v`,
    every other key is unaffected. -/
theorem lookupL_insertL {E : Env K V Q} (hE : E.Lawful) {l : List (K × V)} (hn : NodupKeys E.keq l)
    (k : K) (v : V) (q : K) :
    lookupL E.keq (insertL E l k v) q = if E.keq k q then some v else lookupL E.keq l q := by
  have hp := hE.probeOK (.key q : Probe K Q)
  rw [lookupL_eq_lookupP (Q := Q), lookupL_eq_lookupP (Q := Q)]
  rcases insertL_cases E l k v with ⟨i, hi, _, hh, he⟩ | ⟨_, habs, he⟩
  · rw [he, lookupP_set hE.equivB hp hn hi l[i].1 v (hE.refl _)]
    have : E.hitP (.key q : Probe K Q) l[i].1 = E.keq k q := by
      show E.keq l[i].1 q = E.keq k q
      exact (hE.probeOK (.key q : Probe K Q)).congr _ _ hh
    rw [this]
    cases E.keq k q <;> rfl
  · rw [he, lookupP_append]
    have hk : E.hitP (.key q : Probe K Q) k = E.keq k q := rfl
    rw [hk]
    cases hkq : E.keq k q with
    | false =>
      cases lookupP (E.hitP (.key q : Probe K Q)) l <;> rfl
    | true =>
      have : lookupP (E.hitP (.key q : Probe K Q)) l = none := by
        rw [lookupP_eq_none_iff]
        intro p hpl
        cases hc : E.hitP (.key q : Probe K Q) p.1 with
        | false => rfl
        | true =>
          have hc' : E.keq p.1 q = true := hc
          have : E.keq p.1 k = true := hE.trans _ _ _ hc' (by rw [hE.symm]; exact hkq)
          rw [habs p hpl] at this
          cases this
      rw [this]; rfl

/-- **last value wins**: after the fold a key maps to the value of the *last* item with an
    equal key, or to its old value if there is none. -/
theorem lookupL_foldInsert {E : Env K V Q} (hE : E.Lawful) : ∀ (xs l : List (K × V)), NodupKeys E.keq l →
    ∀ q, lookupL E.keq (foldInsert E l xs) q =
      match xs.reverse.find? (fun p => E.keq p.1 q) with
      | some p => some p.2
      | none => lookupL E.keq l q
  | [], _, _, _ => rfl
  | (k, v) :: rest, l, hn, q => by
    rw [foldInsert_cons, lookupL_foldInsert hE rest _ (insertL_nodup hE hn k v) q,
      lookupL_insertL hE hn, List.reverse_cons, List.find?_append]
    cases rest.reverse.find? (fun p => E.keq p.1 q) with
    | some p => rfl
    | none =>
      cases hkq : E.keq k q <;> simp [hkq]

end Micromap.FromIter
