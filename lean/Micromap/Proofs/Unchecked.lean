/-
The unsafe fast paths against their safe counterparts: `insert_i` (behind `insert_unchecked`)
performs the same callbacks in the same order as `insert_ii` and, inside its contract, ends in
the same state; `get_disjoint_unchecked_mut` is `get_disjoint_mut` without the pre-check.
-/
import Micromap.Proofs.MapApi
import Micromap.Proofs.Disjoint

namespace Micromap.Unchecked
variable {K V Q : Type} (E : Env K V Q)

/-- moving a pair out of a slot and writing a pair back is one overwrite of the slot. -/
theorem setSlot_setSlot (r : Raw K V) (i : Nat) (o o' : Option (K × V)) :
    setSlot (setSlot r i o) i o' = setSlot r i o' := by
  unfold setSlot
  congr 1
  funext j
  by_cases h : j = i <;> simp [h]

/-- the scan of `insert_ii` on a well-formed container is the bare loop. -/
theorem scan_eq {s : St K V Q} {l : List (K × V)} (hr : Rep s.r l) (pr : Probe K Q) :
    scan E pr s = scanFromR E s.r pr l.length 0 s := by
  unfold scan scanR
  have : s.r.len ≤ s.r.cap := hr.1 ▸ hr.2.1
  rw [if_pos this, hr.1]

/-- the hand-rolled loop of `insert_i` is the library scan (same comparisons, same order)
    followed by moving the found pair out of its slot. -/
theorem loop_eq {l : List (K × V)} (k : K) : ∀ (n i : Nat) (s : St K V Q), Rep s.r l →
    i + n = l.length →
    insert_i_loop E k n i s =
      match scanFromR E s.r (.key k) n i s with
      | .ok none s' => .ok none s'
      | .ok (some j) s' =>
        (match itemRead j s' with
          | .ok old s'' => .ok (some (j, old)) s''
          | .panic c s'' => .panic c s''
          | .ub => .ub)
      | .panic c s' => .panic c s'
      | .ub => .ub
  | 0, i, s, _, _ => rfl
  | n + 1, i, s, hr, hn => by
    have hlt : i < l.length := by omega
    have href : itemRef i s = .ok l[i] s := itemRef_ok (hr.cap_lt hlt) (hr.slot hlt)
    have hrefR : itemRefR s.r i s = .ok l[i] s := href
    unfold insert_i_loop scanFromR
    simp only [bind_apply, href, hrefR]
    have hpe : probeEq E l[i].1 (.key k : Probe K Q) = eqK E l[i].1 k := rfl
    rw [hpe]
    have hcb := eqK_cb E l[i].1 k s
    cases he : eqK E l[i].1 k s with
    | ub => rfl
    | panic c s1 => rfl
    | ok b s1 =>
      have hs1 : s1.r = s.r := (hcb.ok_of he).1
      cases b with
      | true =>
        simp only [if_true, pure_apply, bind_apply]
        cases itemRead i s1 <;> rfl
      | false =>
        simp only [Bool.false_eq_true, if_false]
        rw [loop_eq k n (i + 1) s1 (hs1 ▸ hr) (by omega), hs1]

/-- `unwindWith` only looks at what the body does on the given state. -/
theorem unwindWith_congr {α} {c : SM K V Q Unit} {b₁ b₂ : SM K V Q α} {s : St K V Q}
    (h : b₁ s = b₂ s) : Micromap.unwindWith c b₁ s = Micromap.unwindWith c b₂ s := by
  unfold Micromap.unwindWith; rw [h]

/-- `insert_i` = `insert_ii` as outcomes (result, final state — container and world —, or the
    same panic in the same state), for ANY `==` and ANY injection point, provided the call is
    inside the contract of `insert_unchecked` — there is room, or the scan finds the key — or
    the build has `debug_assert!` enabled. -/
theorem insert_i_eq_insert_ii {s : St K V Q} {l : List (K × V)} (hr : Rep s.r l) (k : K) (v : V)
    (upd : Bool)
    (hc : l.length < s.r.cap ∨ (∀ s1, scan E (.key k) s ≠ .ok none s1) ∨ s.w.profile = .debug) :
    insert_i E k v upd s = insert_ii E k v upd s := by
  unfold insert_i insert_ii
  apply unwindWith_congr
  have hlen : getLen s = .ok l.length s := by unfold getLen; rw [hr.1]
  have hcap : getCap s = .ok s.r.cap s := rfl
  simp only [bind_apply, hlen, hcap]
  rw [loop_eq E k l.length 0 s hr (by omega)]
  have hsc : ∀ o s1, scanFromR E s.r (.key k) l.length 0 s = .ok o s1 →
      s1.r = s.r ∧ WRel s.w s1.w [] ∧ (∀ j, o = some j → j < l.length) ∧
        (E.Pure → o = findKey E l (.key k)) :=
    fun o s1 h => (scan_cb' E hr (.key k)).ok_of (by rw [scan_eq E hr]; exact h)
  rw [scan_eq E hr] at hc ⊢
  cases hscan : scanFromR E s.r (.key k) l.length 0 s with
  | ub => rfl
  | panic c s1 => rfl
  | ok o s1 =>
    obtain ⟨h1, h2, h3, _⟩ := hsc _ _ hscan
    have hr1 : Rep s1.r l := h1 ▸ hr
    cases o with
    | none =>
      have hlen1 : getLen s1 = .ok l.length s1 := by unfold getLen; rw [hr1.1]
      have hcap1 : getCap s1 = .ok s.r.cap s1 := by unfold getCap; rw [h1]
      by_cases hroom : l.length < s.r.cap
      · have hda : debugAssert (decide (l.length < s.r.cap)) .overflow s1 = .ok () s1 := by
          unfold debugAssert; cases s1.w.profile <;> simp [hroom]
        have hc1 : l.length < s1.r.cap := by rw [h1]; exact hroom
        cases hsl : s1.r.slots l.length with
        | none =>
          simp only [bind_apply, pure_apply, hlen1, hcap1, hda, setLen, modS, checkedWrite, itemWrite,
            hc1, hsl, if_true]
          rfl
        | some old =>
          simp only [bind_apply, pure_apply, hlen1, hcap1, hda, setLen, modS, checkedWrite, itemWrite,
            hc1, hsl, if_true]
          rfl
      · rcases hc with hc | hc | hc
        · exact (hroom hc).elim
        · exact (hc s1 hscan).elim
        · have hprof : s1.w.profile = .debug := by rw [h2.profile]; exact hc
          have hda : debugAssert (decide (l.length < s.r.cap)) .overflow s1 = .panic .overflow s1 := by
            unfold debugAssert; simp [hprof, hroom]
          simp only [bind_apply, hlen1, hcap1, hda]
    | some j =>
      have hj := h3 j rfl
      have hrd : itemRead j s1 = .ok l[j] { s1 with r := setSlot s1.r j none } :=
        itemRead_ok (hr1.cap_lt hj) (hr1.slot hj)
      have hw : ∀ p : K × V, itemWrite j p { s1 with r := setSlot s1.r j none } =
          .ok () { s1 with r := setSlot s1.r j (some p) } := by
        intro p
        unfold itemWrite
        have : j < s1.r.cap := hr1.cap_lt hj
        simp [this, setSlot_setSlot]
      simp only [hrd]
      cases upd with
      | true =>
        simp only [bind_apply, Bool.not_true, Bool.false_eq_true, if_false, if_true, hw, pure_apply,
          pairReplace_ok (s := s1) (k, v) (hr1.cap_lt hj) (hr1.slot hj)]
      | false =>
        simp only [bind_apply, Bool.not_false, Bool.false_eq_true, if_false, if_true, hw, pure_apply,
          valueReplace_ok (s := s1) v (hr1.cap_lt hj) (hr1.slot hj)]

/-- `insert_unchecked` = `insert` as outcomes, under the same contract. -/
theorem insert_unchecked_eq_insert {s : St K V Q} {l : List (K × V)} (hr : Rep s.r l) (k : K) (v : V)
    (hc : l.length < s.r.cap ∨ (∀ s1, scan E (.key k) s ≠ .ok none s1) ∨ s.w.profile = .debug) :
    insert_unchecked E k v s = insert E k v s := by
  unfold insert_unchecked insert
  simp only [bind_apply, insert_i_eq_insert_ii E hr k v false hc]

/-- under a pure `==` "the scan finds the key" is "the key is present". -/
theorem scan_ne_none_of_present (hE : E.Pure) {s : St K V Q} {l : List (K × V)} (hr : Rep s.r l) (k : K)
    (hp : findKey E l (.key k) ≠ none) : ∀ s1, scan E (.key k) s ≠ .ok none s1 := by
  intro s1 h
  have := ((scan_cb' E hr (.key k)).ok_of h).2.2.2 hE
  exact hp this.symm

/-- outside the contract — full map, the scan finds nothing, `debug_assert!` compiled out — the
    model of `insert_i` writes past the array: UB (documented on `insert_unchecked`). -/
theorem insert_i_ub_outside {s s1 : St K V Q} {l : List (K × V)} (hr : Rep s.r l) (k : K) (v : V)
    (upd : Bool) (hfull : l.length = s.r.cap) (hrel : s.w.profile = .release)
    (hscan : scan E (.key k) s = .ok none s1) : insert_i E k v upd s = .ub := by
  have hsc := (scan_cb' E hr (.key k)).ok_of hscan
  obtain ⟨h1, h2, _, _⟩ := hsc
  have hprof : s1.w.profile = .release := by rw [h2.profile]; exact hrel
  rw [scan_eq E hr] at hscan
  have hlen : getLen s = .ok l.length s := by unfold getLen; rw [hr.1]
  have hcap : getCap s = .ok s.r.cap s := rfl
  have hda : debugAssert (decide (l.length < s.r.cap)) .overflow s1 = .ok () s1 := by
    unfold debugAssert; simp [hprof]
  have hnc : ¬ l.length < s1.r.cap := by rw [h1]; omega
  unfold insert_i Micromap.unwindWith
  simp only [bind_apply, hlen, hcap]
  rw [loop_eq E k l.length 0 s hr (by omega), hscan]
  simp only [bind_apply, hda, setLen, modS, itemWrite, hnc, if_false]

/-! ### `get_disjoint_unchecked_mut` -/

/-- when the pre-check passes, `get_disjoint_mut` IS `get_disjoint_unchecked_mut`, run from
    the state the pre-check leaves (same container, no effects: only comparisons were made). -/
theorem get_disjoint_mut_of_check_ok {s s1 : St K V Q} (ks : List (Probe K Q))
    (h : overlapCheck E ks s = .ok () s1) :
    get_disjoint_mut E ks s = get_disjoint_unchecked_mut E ks s1 := by
  cases ks with
  | nil => cases h; rfl
  | cons a rest =>
    rw [Disjoint.get_disjoint_mut_cons]
    simp only [bind_apply, h]

end Micromap.Unchecked
