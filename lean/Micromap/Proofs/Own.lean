/-
An ownership logic for the slot machine: the judgment `ConsAt P w m s inn own pown` says that the
run of `m` from `s` conserves objects — for the weighting `w : Obj → Nat`,

    live slots + passed in + created  =  live slots' + owned result + dropped + leaked

where "live slots" are ALL ghost-live slots below `cap` (stored entries and the unreachable ones at
or beyond `len`), "created" / "dropped" are read off the events the run appends to the world and
"leaked" is what it appends to `World.leaked`.  The judgment is unconditional (no invariant on the
container, any world, any user equality): a run that reaches `ub` satisfies it vacuously, memory
safety is the business of `OpInv`.  `pown` is what the enclosing frames still own when the run
unwinds (`none`: the run never unwinds).
-/
import Micromap.Proofs.Ledger

namespace Micromap.Own
open Micromap Ledger
variable {K V Q : Type}

/-- the objects a trace creates: the results of `clone`. -/
def createdOf : List (Event K V Q) → List (Obj K V)
  | [] => []
  | .cloneK _ b :: t => .k b :: createdOf t
  | .cloneV _ b :: t => .v b :: createdOf t
  | _ :: t => createdOf t

theorem createdOf_append : ∀ (a b : List (Event K V Q)), createdOf (a ++ b) = createdOf a ++ createdOf b
  | [], _ => rfl
  | e :: a, b => by
    cases e <;> simp [createdOf, createdOf_append a b]

theorem createdOf_filter : ∀ (a : List (Event K V Q)), createdOf (a.filter Event.isEff) = createdOf a
  | [] => rfl
  | e :: a => by
    cases e <;> simp [createdOf, Event.isEff, List.filter_cons, createdOf_filter a]

theorem droppedOf_filter : ∀ (a : List (Event K V Q)), droppedOf (a.filter Event.isEff) = droppedOf a
  | [] => rfl
  | e :: a => by
    cases e <;> simp [droppedOf, Event.isEff, List.filter_cons, droppedOf_filter a]

/-- events that are not clone results. -/
def notClone : Event K V Q → Prop
  | .cloneK _ _ => False
  | .cloneV _ _ => False
  | _ => True

theorem createdOf_notClone : ∀ (ev : List (Event K V Q)), (∀ e ∈ ev, notClone e) → createdOf ev = []
  | [], _ => rfl
  | e :: ev, h => by
    have h1 := h e (List.mem_cons_self ..)
    have h2 := createdOf_notClone ev (fun e' he' => h e' (List.mem_cons_of_mem _ he'))
    cases e <;> simp [createdOf, h2, notClone] at h1 ⊢

/-- a class of events that contains at least everything but the clone results: the events a
    piece of code may append to the world (`notClone` for code that does not clone,
    `fun _ => True` for code that does). -/
class EvP (P : Event K V Q → Prop) : Prop where
  of_notClone : ∀ e, notClone e → P e

instance : EvP (notClone (K := K) (V := V) (Q := Q)) := ⟨fun _ h => h⟩
instance : EvP (fun _ : Event K V Q => True) := ⟨fun _ _ => trivial⟩

/-- `w'` is a later world of the same run: like `WRel`, but with ALL events in between (`ev`, all
    of them in the class `P`) and the objects recorded as leaked in between (`lk`). -/
structure WExt (P : Event K V Q → Prop) (w w' : World K V Q) (ev : List (Event K V Q)) (lk : List (Obj K V)) :
    Prop where
  profile : w'.profile = w.profile
  unw : w'.unwinding = w.unwinding
  inj : w.inject = none → w'.inject = none
  events : w'.events = w.events ++ ev
  leaked : w'.leaked = w.leaked ++ lk
  evP : ∀ e ∈ ev, P e

variable {P : Event K V Q → Prop}

theorem WExt.refl (w : World K V Q) : WExt P w w [] [] := ⟨rfl, rfl, id, by simp, by simp, by simp⟩

theorem WExt.trans {w w' w'' : World K V Q} {e₁ e₂ l₁ l₂} (h₁ : WExt P w w' e₁ l₁) (h₂ : WExt P w' w'' e₂ l₂) :
    WExt P w w'' (e₁ ++ e₂) (l₁ ++ l₂) :=
  ⟨h₂.profile.trans h₁.profile, h₂.unw.trans h₁.unw, fun h => h₂.inj (h₁.inj h),
   by rw [h₂.events, h₁.events, List.append_assoc], by rw [h₂.leaked, h₁.leaked, List.append_assoc],
   fun e he => by
     rcases List.mem_append.mp he with h | h
     · exact h₁.evP e h
     · exact h₂.evP e h⟩

theorem WExt.toWRel {w w' : World K V Q} {ev lk} (h : WExt P w w' ev lk) :
    WRel w w' (ev.filter Event.isEff) :=
  ⟨h.profile, h.unw, h.inj, by simp [World.trace, h.events]⟩

theorem WExt.through_unw {s' s'' : St K V Q} {ev lk} (h : WExt P (s'.setUnw true).w s''.w ev lk) :
    WExt P s'.w (s''.setUnw s'.w.unwinding).w ev lk :=
  ⟨by simpa using h.profile, rfl, fun hi => by simpa using h.inj (by simpa using hi),
   by simpa using h.events, by simpa using h.leaked, h.evP⟩

/-! ### the weight of the live slots -/

variable (P) (w : Obj K V → Nat)

/-- weight of a pair. -/
def wp (p : K × V) : Nat := w (.k p.1) + w (.v p.2)

/-- weight of the content of a slot / of an optional pair. -/
def wo : Option (K × V) → Nat
  | none => 0
  | some p => w (.k p.1) + w (.v p.2)

/-- weight of an optional value. -/
def wov : Option V → Nat
  | none => 0
  | some v => w (.v v)

@[simp] theorem wo_none : wo w (none : Option (K × V)) = 0 := rfl
@[simp] theorem wo_some (p : K × V) : wo w (some p) = w (.k p.1) + w (.v p.2) := rfl
@[simp] theorem wov_none : wov w (none : Option V) = 0 := rfl
@[simp] theorem wov_some (v : V) : wov w (some v) = w (.v v) := rfl
@[simp] theorem wp_def (p : K × V) : wp w p = w (.k p.1) + w (.v p.2) := rfl

/-- weight of all ghost-live slots of a container (below `cap`): the stored entries and the
    unreachable ones at or beyond `len`. -/
def live (r : Raw K V) : Nat := wsum w (liveObjs r r.cap)

theorem wsum_liveObjs_succ (r : Raw K V) (n : Nat) :
    wsum w (liveObjs r (n + 1)) = wsum w (liveObjs r n) + wo w (r.slots n) := by
  simp only [liveObjs, wsum_append]
  cases r.slots n <;> simp

theorem wsum_liveObjs_setSlot (r : Raw K V) (i : Nat) (o : Option (K × V)) : ∀ n,
    wsum w (liveObjs (setSlot r i o) n) + (if i < n then wo w (r.slots i) else 0) =
      wsum w (liveObjs r n) + (if i < n then wo w o else 0)
  | 0 => by simp [liveObjs]
  | n + 1 => by
    have ih := wsum_liveObjs_setSlot r i o n
    rw [wsum_liveObjs_succ, wsum_liveObjs_succ]
    by_cases hin : i = n
    · subst hin
      have hs : (setSlot r i o).slots i = o := by simp [setSlot]
      rw [hs]
      simp only [Nat.lt_irrefl, if_false, Nat.lt_succ_self, if_true] at ih ⊢
      omega
    · have hs : (setSlot r i o).slots n = r.slots n := by simp [setSlot, Ne.symm hin]
      rw [hs]
      by_cases hlt : i < n
      · have : i < n + 1 := by omega
        simp only [hlt, this, if_true] at ih ⊢
        omega
      · have : ¬ i < n + 1 := by omega
        simp only [hlt, this, if_false] at ih ⊢
        omega

theorem live_setSlot {r : Raw K V} {i : Nat} (hi : i < r.cap) (o : Option (K × V)) :
    live w (setSlot r i o) + wo w (r.slots i) = live w r + wo w o := by
  have := wsum_liveObjs_setSlot w r i o r.cap
  simpa [live, setSlot, hi] using this

theorem wsum_liveObjs_congr {r r' : Raw K V} (h : r'.slots = r.slots) : ∀ n,
    liveObjs r' n = liveObjs r n
  | 0 => rfl
  | n + 1 => by simp [liveObjs, wsum_liveObjs_congr h n, h]

@[simp] theorem live_setLen (r : Raw K V) (n : Nat) : live w { r with len := n } = live w r := by
  unfold live
  rw [wsum_liveObjs_congr (r' := { r with len := n }) (r := r) rfl]

theorem liveObjs_new (cap : Nat) : ∀ n, liveObjs (Raw.new cap : Raw K V) n = []
  | 0 => rfl
  | n + 1 => by
    show liveObjs (Raw.new cap : Raw K V) n ++ _ = []
    rw [liveObjs_new cap n]; rfl

@[simp] theorem live_new (cap : Nat) : live w (Raw.new cap : Raw K V) = 0 := by
  unfold live
  rw [liveObjs_new]; rfl

/-! ### the judgment -/

/-- the balance between two states of one run. -/
def Bal (s s' : St K V Q) (inn out : Nat) : Prop :=
  ∃ ev lk, WExt P s.w s'.w ev lk ∧
    live w s.r + inn + wsum w (createdOf ev) = live w s'.r + out + wsum w (droppedOf ev) + wsum w lk

variable {P} {w}

theorem Bal.refl (s : St K V Q) (n : Nat) : Bal P w s s n n :=
  ⟨[], [], WExt.refl _, by simp [createdOf, droppedOf]⟩

theorem Bal.frame {s s' : St K V Q} {i o : Nat} (h : Bal P w s s' i o) (x : Nat) : Bal P w s s' (i + x) (o + x) := by
  obtain ⟨ev, lk, h1, h2⟩ := h
  exact ⟨ev, lk, h1, by omega⟩

theorem Bal.trans {s s1 s2 : St K V Q} {i1 o1 x o2 : Nat} (h1 : Bal P w s s1 i1 o1)
    (h2 : Bal P w s1 s2 (o1 + x) o2) : Bal P w s s2 (i1 + x) o2 := by
  obtain ⟨e1, l1, a1, a2⟩ := h1
  obtain ⟨e2, l2, b1, b2⟩ := h2
  refine ⟨e1 ++ e2, l1 ++ l2, a1.trans b1, ?_⟩
  simp only [createdOf_append, droppedOf_append, wsum_append]
  omega

theorem Bal.of_eq {s s' : St K V Q} {i o i' o' : Nat} (h : Bal P w s s' i o) (hi : i = i') (ho : o = o') :
    Bal P w s s' i' o' := by subst hi; subst ho; exact h

/-- `ConsAt P w m s inn own pown`: the run of `m` from `s` conserves objects; it receives objects of
    weight `inn`, its result owns `own a`, and if it unwinds then EITHER the panic is an injected
    one (a user callback panicked; the world was armed) OR the balance is exact and the enclosing
    frames still own `q` where `pown = some q`.  So `pown = none` says: the run unwinds only by an
    injected panic. -/
def ConsAt (P : Event K V Q → Prop) (w : Obj K V → Nat) {α : Type} (m : SM K V Q α) (s : St K V Q) (inn : Nat) (own : α → Nat)
    (pown : Option Nat) : Prop :=
  match m s with
  | .ok a s' => Bal P w s s' inn (own a)
  | .panic c s' => (c = .inject ∧ s.w.inject ≠ none) ∨ ∃ q, pown = some q ∧ Bal P w s s' inn q
  | .ub => True

def Cons (P : Event K V Q → Prop) (w : Obj K V → Nat) {α : Type} (m : SM K V Q α) (inn : Nat) (own : α → Nat) (pown : Option Nat) : Prop :=
  ∀ s, ConsAt P w m s inn own pown

theorem Bal.armed {s s' : St K V Q} {i o : Nat} (h : Bal P w s s' i o) (ha : s'.w.inject ≠ none) :
    s.w.inject ≠ none := by
  obtain ⟨ev, lk, hw, _⟩ := h
  exact fun hn => ha (hw.inj hn)

theorem ConsAt.pure {α : Type} {a : α} {s : St K V Q} {inn : Nat} {own : α → Nat} {pown}
    (h : inn = own a) : ConsAt P w (pure a : SM K V Q α) s inn own pown := by
  subst h; exact Bal.refl s _

theorem ConsAt.bind {α β : Type} {m : SM K V Q α} {f : α → SM K V Q β} {s : St K V Q} {inn : Nat}
    {own : β → Nat} {pown : Option Nat} {i1 : Nat} {o1 : α → Nat} {p1 : Option Nat}
    (h1 : ConsAt P w m s i1 o1 p1) (hi : i1 ≤ inn)
    (hp : ∀ q, p1 = some q → pown = some (q + (inn - i1)))
    (h2 : ∀ a s', m s = .ok a s' → ConsAt P w (f a) s' (o1 a + (inn - i1)) own pown) :
    ConsAt P w (m >>= f) s inn own pown := by
  unfold ConsAt at h1 ⊢
  simp only [bind_apply]
  cases hm : m s with
  | ok a s1 =>
    rw [hm] at h1
    have h2' := h2 a s1 hm
    unfold ConsAt at h2'
    simp only
    cases hf : f a s1 with
    | ok b s2 =>
      rw [hf] at h2'
      exact (Bal.trans h1 h2').of_eq (by omega) rfl
    | panic c s2 =>
      rw [hf] at h2'
      rcases h2' with ⟨hc, ha⟩ | ⟨q, hq, hb⟩
      · exact Or.inl ⟨hc, h1.armed ha⟩
      · exact Or.inr ⟨q, hq, (Bal.trans h1 hb).of_eq (by omega) rfl⟩
    | ub => trivial
  | panic c s1 =>
    rw [hm] at h1
    rcases h1 with hl | ⟨q, hq, hb⟩
    · exact Or.inl hl
    · exact Or.inr ⟨_, hp q hq, (hb.frame (inn - i1)).of_eq (by omega) rfl⟩
  | ub => trivial

/-- a step that neither takes nor gives ownership and whose unwinding leaves the frame as it is. -/
theorem ConsAt.bind0 {α β : Type} {m : SM K V Q α} {f : α → SM K V Q β} {s : St K V Q} {inn : Nat}
    {own : β → Nat} {pown : Option Nat} {p1 : Option Nat}
    (h1 : ConsAt P w m s 0 (fun _ => 0) p1)
    (hp : ∀ q, p1 = some q → pown = some (q + inn))
    (h2 : ∀ a s', m s = .ok a s' → ConsAt P w (f a) s' inn own pown) :
    ConsAt P w (m >>= f) s inn own pown := by
  refine ConsAt.bind h1 (Nat.zero_le _) (by simpa using hp) ?_
  intro a s' hm
  simpa using h2 a s' hm

theorem ConsAt.congr {α : Type} {m : SM K V Q α} {s : St K V Q} {inn inn' : Nat} {own own' : α → Nat}
    {pown pown' : Option Nat} (h : ConsAt P w m s inn own pown) (hi : inn = inn')
    (ho : ∀ a, own a = own' a) (hp : ∀ q, pown = some q → pown' = some q) :
    ConsAt P w m s inn' own' pown' := by
  subst hi
  unfold ConsAt at h ⊢
  cases hm : m s with
  | ok a s1 => rw [hm] at h; exact h.of_eq rfl (ho a)
  | panic c s1 =>
    rw [hm] at h
    rcases h with hl | ⟨q, hq, hb⟩
    · exact Or.inl hl
    · exact Or.inr ⟨q, hp q hq, hb⟩
  | ub => trivial

/-- framing: the run leaves alone what it does not know about. -/
theorem ConsAt.frame {α : Type} {m : SM K V Q α} {s : St K V Q} {inn : Nat} {own : α → Nat}
    {pown : Option Nat} (h : ConsAt P w m s inn own pown) (x : Nat) :
    ConsAt P w m s (inn + x) (fun a => own a + x) (pown.map (· + x)) := by
  unfold ConsAt at h ⊢
  cases hm : m s with
  | ok a s1 => rw [hm] at h; exact h.frame x
  | panic c s1 =>
    rw [hm] at h
    rcases h with hl | ⟨q, hq, hb⟩
    · exact Or.inl hl
    · exact Or.inr ⟨q + x, by simp [hq], hb.frame x⟩
  | ub => trivial

/-- use a triple inside a frame that owns `x` more. -/
theorem ConsAt.framed {α : Type} {m : SM K V Q α} {s : St K V Q} {i : Nat} {o : α → Nat}
    {p : Option Nat} (h : ConsAt P w m s i o p) (x : Nat) {inn : Nat} {own : α → Nat} {pown : Option Nat}
    (hi : inn = i + x) (ho : ∀ a, own a = o a + x) (hp : ∀ q, p = some q → pown = some (q + x)) :
    ConsAt P w m s inn own pown :=
  (h.frame x).congr hi.symm (fun a => (ho a).symm) (fun q hq => by
    cases p with
    | none => simp at hq
    | some q0 => simp at hq; subst hq; exact hp q0 rfl)

theorem ConsAt.getS_bind {β : Type} {f : St K V Q → SM K V Q β} {s : St K V Q} {inn own pown}
    (h : ConsAt P w (f s) s inn own pown) : ConsAt P w (Micromap.getS >>= f) s inn own pown := h

theorem ConsAt.ub {α : Type} {s : St K V Q} {inn : Nat} {own : α → Nat} {pown} :
    ConsAt P w (ubM : SM K V Q α) s inn own pown := trivial

theorem ConsAt.throwP {α : Type} {s : St K V Q} {c} {inn : Nat} {own : α → Nat} :
    ConsAt P w (throwP c : SM K V Q α) s inn own (some inn) := Or.inr ⟨inn, rfl, Bal.refl s _⟩

/-- `unwindWith`: the clean-up receives what the frames own when the body unwinds (nothing is
    asked of the clean-up after an injected panic). -/
theorem ConsAt.unwindWith {α : Type} {cleanup : SM K V Q Unit} {body : SM K V Q α} {s : St K V Q}
    {inn : Nat} {own : α → Nat} {p0 : Option Nat} {q : Nat} {pc : Option Nat}
    (hb : ConsAt P w body s inn own p0)
    (hc : ∀ x, p0 = some x → ∀ s1, ConsAt P w cleanup s1 x (fun _ => q) pc) :
    ConsAt P w (Micromap.unwindWith cleanup body) s inn own (some q) := by
  unfold ConsAt at hb ⊢
  unfold Micromap.unwindWith
  cases hm : body s with
  | ok a s1 => rw [hm] at hb; exact hb
  | ub => trivial
  | panic c s1 =>
    rw [hm] at hb
    simp only
    cases h2 : cleanup (s1.setUnw true) with
    | ok u s2 =>
      rcases hb with hl | ⟨x, hx, hbal⟩
      · exact Or.inl hl
      · have hcl := hc x hx (s1.setUnw true)
        unfold ConsAt at hcl
        rw [h2] at hcl
        obtain ⟨ev, lk, c1, c2⟩ := hcl
        refine Or.inr ⟨q, rfl, ?_⟩
        have : Bal P w s1 (s2.setUnw s1.w.unwinding) x q := ⟨ev, lk, c1.through_unw, by simpa using c2⟩
        simpa using Bal.trans (x := 0) hbal (by simpa using this)
    | panic c2 s2 => trivial
    | ub => trivial

/-- … and when the body unwinds only by injected panics, nothing at all is asked of the clean-up,
    and the whole still unwinds only by injected panics. -/
theorem ConsAt.unwindWith_inj {α : Type} {cleanup : SM K V Q Unit} {body : SM K V Q α} {s : St K V Q}
    {inn : Nat} {own : α → Nat} {pown : Option Nat}
    (hb : ConsAt P w body s inn own none) : ConsAt P w (Micromap.unwindWith cleanup body) s inn own pown := by
  unfold ConsAt at hb ⊢
  unfold Micromap.unwindWith
  cases hm : body s with
  | ok a s1 => rw [hm] at hb; exact hb
  | ub => trivial
  | panic c s1 =>
    rw [hm] at hb
    simp only
    cases h2 : cleanup (s1.setUnw true) with
    | ok u s2 =>
      rcases hb with hl | ⟨x, hx, _⟩
      · exact Or.inl hl
      · cases hx
    | panic c2 s2 => trivial
    | ub => trivial

/-- in a world with no armed fault, an unwinding is one of the container's own panics and its
    balance is exact. -/
theorem ConsAt.panic_benign {α : Type} {m : SM K V Q α} {s : St K V Q} {inn : Nat} {own : α → Nat}
    {pown : Option Nat} (h : ConsAt P w m s inn own pown) (hb : s.w.inject = none) {c s'}
    (hm : m s = .panic c s') : ∃ q, pown = some q ∧ Bal P w s s' inn q := by
  unfold ConsAt at h
  rw [hm] at h
  rcases h with ⟨_, ha⟩ | h
  · exact absurd hb ha
  · exact h

theorem ConsAt.ok_of {α : Type} {m : SM K V Q α} {s : St K V Q} {inn : Nat} {own : α → Nat}
    {pown : Option Nat} (h : ConsAt P w m s inn own pown) {a s'} (hm : m s = .ok a s') :
    Bal P w s s' inn (own a) := by
  unfold ConsAt at h
  rw [hm] at h
  exact h

end Micromap.Own
