/-
Ownership triples (`Own.Cons`) of the composite operations of `Model/Step.lean` (forget, drop,
drain, the consuming iterators) and of the entry API (`Model/Entry.lean`).
-/
import Micromap.Proofs.OwnMap
import Micromap.Model.Step
import Micromap.Proofs.Iters

set_option linter.unusedSectionVars false

namespace Micromap.Own
open Micromap Ledger
variable {K V Q : Type} {P : Event K V Q → Prop} [EvP P] {w : Obj K V → Nat} (E : Env K V Q)

/-! ### giving up the container -/

theorem forgetMap_cons : Cons P w (forgetMap : SM K V Q Unit) 0 (fun _ => 0) none := by
  intro s
  unfold ConsAt forgetMap
  refine ⟨[], liveObjs s.r s.r.cap, ⟨rfl, rfl, id, by simp, rfl, by simp⟩, ?_⟩
  have h0 : live w (Raw.new s.r.cap : Raw K V) = 0 := live_new w _
  simp only [createdOf, droppedOf, wsum_nil, h0]
  simp [live]

theorem dropAndRenew_cons (hv : HV E w) : Cons P w (dropAndRenew E) 0 (fun _ => 0) (some 0) := by
  intro s
  unfold dropAndRenew
  refine ConsAt.unwindWith (p0 := some 0) (q := 0) (pc := none) ?_
    (fun x hx s1 => by cases hx; exact forgetMap_cons s1)
  refine ConsAt.bind0 (dropMap_cons E hv s) (by own_p) (fun _ s1 _ => ?_)
  exact (forgetMap_cons s1).congr rfl (fun _ => rfl) (by own_np)

theorem iterRestR_cons (r : Raw K V) : ∀ n i,
    Cons P w (iterRestR r n i : SM K V Q (List (K × V))) 0 (fun _ => 0) none
  | 0, _ => fun _ => ConsAt.pure rfl
  | n + 1, i => by
    intro s
    unfold iterRestR
    refine ConsAt.bind0 (itemRefR_cons r i s) (by own_np) (fun p s1 _ => ?_)
    refine ConsAt.bind0 (iterRestR_cons r n (i + 1) s1) (by own_np) (fun rest s2 _ => ?_)
    exact ConsAt.pure rfl

theorem entriesOf_cons (r : Raw K V) : Cons P w (entriesOf r : SM K V Q (List (K × V))) 0 (fun _ => 0) (some 0) := by
  intro s
  unfold entriesOf
  split
  · exact (iterRestR_cons r _ _ s).congr rfl (fun _ => rfl) (by own_np)
  · exact ConsAt.throwP

/-! ### drain -/

theorem drainTake_cons : ∀ n lo hi,
    Cons P w (drainTake n lo hi : SM K V Q (List (K × V) × Nat)) 0 (fun r => wpairs w r.1) none
  | 0, _, _ => fun _ => ConsAt.pure rfl
  | n + 1, lo, hi => by
    intro s
    unfold drainTake
    refine ConsAt.bind (drainNext_cons lo hi s) (Nat.le_refl _) (by own_np) (fun o s1 _ => ?_)
    cases o with
    | none => exact ConsAt.pure (by simp)
    | some p =>
      simp only
      refine ConsAt.bind (drainTake_cons n (lo + 1) hi s1) (Nat.zero_le _) (by own_np) (fun r s2 _ => ?_)
      obtain ⟨rest, lo'⟩ := r
      exact ConsAt.pure (by simp; omega)

theorem dropAndRenew_inj (hv : HV E w) : Cons P w (dropAndRenew E) 0 (fun _ => 0) none := by
  intro s
  unfold dropAndRenew
  refine ConsAt.unwindWith_inj ?_
  refine ConsAt.bind0 (dropMap_inj E hv s) (by own_np) (fun _ s1 _ => ?_)
  exact forgetMap_cons s1

/-- `drain()`, `take` calls of `next`, then the `Drain` dropped or forgotten: the items handed out
    are owned by the caller; a forgotten `Drain` leaves its un-yielded entries in the slots (live,
    unreachable: beyond `len = 0`). -/
theorem drainOp_cons (hv : HV E w) (take : Nat) (forget : Bool) :
    Cons P w (drainOp E take forget) 0 (fun r => wpairs w r.1) (some 0) := by
  intro s
  unfold drainOp
  refine ConsAt.bind0 (drainStart_cons s) (by own_p) (fun hi s1 _ => ?_)
  refine ConsAt.bind (drainTake_cons take 0 hi s1) (Nat.le_refl _) (by own_np) (fun r s2 _ => ?_)
  obtain ⟨items, lo⟩ := r
  dsimp only
  refine ConsAt.getS_bind ?_
  refine ConsAt.bind (iterRestR_cons s2.r _ _ s2) (Nat.zero_le _) (by own_np) (fun rest s3 _ => ?_)
  split
  · exact ConsAt.pure (by simp)
  · refine ConsAt.bind (drainDrop_inj E hv lo hi s3) (Nat.zero_le _) (by own_np) (fun _ s4 _ => ?_)
    exact ConsAt.pure (by simp)

/-! ### the consuming iterators -/

/-- what the caller gets of a pair a consuming iterator yields. -/
def wkind (w : Obj K V → Nat) (kind : IntoKind) (p : K × V) : Nat :=
  match kind with
  | .pairs => w (.k p.1) + w (.v p.2)
  | .keys => w (.k p.1)
  | .values => w (.v p.2)

def wkinds (w : Obj K V → Nat) (kind : IntoKind) (l : List (K × V)) : Nat := (l.map (wkind w kind)).sum

theorem intoIterNextK_inj (hv : HV E w) (kind : IntoKind) :
    Cons P w (intoIterNextK E kind) 0 (fun o => (o.map (wkind w kind)).getD 0) none := by
  intro s
  unfold intoIterNextK
  refine ConsAt.bind (intoIterNext_cons s) (Nat.le_refl _) (by own_np) (fun o s1 _ => ?_)
  cases o with
  | none => exact ConsAt.pure (by simp)
  | some p =>
    cases kind with
    | pairs => exact ConsAt.pure (by simp [wkind])
    | keys =>
      simp only
      refine ConsAt.bind (i1 := w (.k p.1) + w (.v p.2)) (o1 := fun _ => w (.k p.1)) (p1 := none) ?_
        (by simp) (by own_np) (fun _ s2 _ => ?_)
      · exact ConsAt.unwindWith_inj
          ((dropV_inj E hv p.2 s1).framed (w (.k p.1)) (by omega) (fun _ => by omega) (by own_np))
      · exact ConsAt.pure (by simp [wkind])
    | values =>
      simp only
      refine ConsAt.bind (i1 := w (.k p.1) + w (.v p.2)) (o1 := fun _ => w (.v p.2)) (p1 := none) ?_
        (by simp) (by own_np) (fun _ s2 _ => ?_)
      · exact ConsAt.unwindWith_inj
          ((dropK_inj p.1 s1).framed (w (.v p.2)) (by omega) (fun _ => by omega) (by own_np))
      · exact ConsAt.pure (by simp [wkind])

theorem intoIterTake_inj (hv : HV E w) (kind : IntoKind) : ∀ n,
    Cons P w (intoIterTake E kind n) 0 (fun items => wkinds w kind items) none
  | 0 => fun _ => ConsAt.pure rfl
  | n + 1 => by
    intro s
    unfold intoIterTake
    refine ConsAt.bind (intoIterNextK_inj E hv kind s) (Nat.le_refl _) (by own_np) (fun o s1 _ => ?_)
    cases o with
    | none => exact ConsAt.pure (by simp [wkinds])
    | some p =>
      simp only
      refine ConsAt.bind (intoIterTake_inj hv kind n s1) (Nat.zero_le _) (by own_np) (fun rest s2 _ => ?_)
      exact ConsAt.pure (by simp [wkinds]; omega)

/-- `into_iter()` / `into_keys()` / `into_values()`, `take` calls of `next`, then the iterator
    dropped or forgotten, on a well-formed container: the caller owns the halves handed out, the
    other halves are dropped, the rest of the map is dropped or (forgotten) leaked; it unwinds only
    by an injected panic. -/
theorem intoIterOp_cons (hv : HV E w) (kind : IntoKind) (take : Nat) (forget : Bool) {s : St K V Q}
    {l : List (K × V)} (hr : Rep s.r l) :
    ConsAt P w (intoIterOp E kind take forget) s 0 (fun r => wkinds w kind r.1) none := by
  unfold intoIterOp
  refine ConsAt.bind (ConsAt.unwindWith_inj (pown := none) (intoIterTake_inj E hv kind take s))
    (Nat.le_refl _) (by own_np) (fun items s1 h1 => ?_)
  obtain ⟨_, hr1, _, _⟩ := Sat.ok_of (Iters.intoIterTake_sat E kind take s l hr) (unwindWith_ok h1)
  refine ConsAt.bind (getLen_cons s1) (Nat.zero_le _) (by own_np) (fun remaining s2 h2 => ?_)
  have e2 : s2 = s1 := by
    have : (getLen : SM K V Q Nat) s1 = .ok s1.r.len s1 := rfl
    rw [this] at h2; injection h2 with _ h; exact h.symm
  subst e2
  refine ConsAt.getS_bind ?_
  have hent : ConsAt P w (entriesOf s2.r : SM K V Q _) s2 0 (fun _ => 0) none := by
    unfold entriesOf
    have : s2.r.len ≤ s2.r.cap := hr1.1 ▸ hr1.2.1
    simp only [this, if_true]
    exact iterRestR_cons s2.r _ _ s2
  refine ConsAt.bind hent (Nat.zero_le _) (by own_np) (fun rest s3 _ => ?_)
  dsimp only
  split
  · refine ConsAt.bind (forgetMap_cons s3) (Nat.zero_le _) (by own_np) (fun _ s4 _ => ?_)
    exact ConsAt.pure (by simp)
  · refine ConsAt.bind (dropAndRenew_inj E hv s3) (Nat.zero_le _) (by own_np) (fun _ s4 _ => ?_)
    exact ConsAt.pure (by simp)


/-! ### borrowing iterators (they own nothing; `iter_mut` / `values_mut` write in place) -/

theorem iterNextR_inv {r : Raw K V} {it it' : SliceIt} {slot : Nat} {p : K × V} {s s' : St K V Q}
    (h : iterNextR r it s = .ok (some (slot, p), it') s') : s' = s ∧ slot < r.cap ∧ r.slots slot = some p := by
  unfold iterNextR at h
  by_cases hlt : it.lo < it.hi
  · simp only [hlt, if_true, bind_apply] at h
    unfold itemRefR at h
    by_cases hc : it.lo < r.cap
    · cases hs : r.slots it.lo with
      | none => simp [hc, hs] at h
      | some p' =>
        simp only [hc, hs, if_true, pure_apply] at h
        injection h with h1 h2
        injection h1 with h3 _
        injection h3 with h4
        injection h4 with h5 h6
        subst h5; subst h6
        exact ⟨h2.symm, hc, hs⟩
    · simp [hc] at h
  · simp only [hlt, if_false, pure_apply] at h
    injection h with h1 _
    injection h1 with h3 _
    cases h3

theorem iterNextR_cons (r : Raw K V) (it : SliceIt) :
    Cons P w (iterNextR r it : SM K V Q _) 0 (fun _ => 0) none := by
  intro s
  unfold iterNextR
  split
  · refine ConsAt.bind0 (itemRefR_cons r it.lo s) (by own_np) (fun p s1 _ => ?_)
    exact ConsAt.pure rfl
  · exact ConsAt.pure rfl

theorem iterRunOut_cons (kind : IterKind) (f : SliceIt) :
    Cons P w (iterRunOut kind f : SM K V Q (List (RV K V))) 0 (fun _ => 0) none := by
  intro s
  unfold iterRunOut
  refine ConsAt.getS_bind ?_
  refine ConsAt.bind0 (iterRestR_cons s.r _ _ s) (by own_np) (fun l s1 _ => ?_)
  exact ConsAt.pure rfl

theorem iterRunForks_cons (kind : IterKind) : ∀ forks : List SliceIt,
    Cons P w (iterRunForks kind forks : SM K V Q (List (RV K V))) 0 (fun _ => 0) none
  | [] => fun _ => ConsAt.pure rfl
  | f :: fs => by
    intro s
    unfold iterRunForks
    refine ConsAt.bind0 (iterRunOut_cons kind f s) (by own_np) (fun x s1 _ => ?_)
    refine ConsAt.bind0 (iterRunForks_cons kind fs s1) (by own_np) (fun rest s2 _ => ?_)
    exact ConsAt.pure rfl

/-- any script over a borrowing iterator; the `*_mut` kinds write `g v` through the references
    they hand out: the weighting must not tell `g v` from `v`. -/
theorem iterScript_cons (R : Render K V) (kind : IterKind) (g : V → V)
    (hg : (kind = .iter_mut ∨ kind = .values_mut) → ∀ v, w (.v (g v)) = w (.v v)) :
    ∀ (cs : List IterCmd) (it : SliceIt) (forks : List SliceIt),
    Cons P w (iterScript R kind g cs it forks : SM K V Q (List (RV K V))) 0 (fun _ => 0) none
  | [], it, forks => by
    intro s
    unfold iterScript
    exact iterRunForks_cons kind forks s
  | c :: cs, it, forks => by
    intro s
    cases c with
    | next =>
      unfold iterScript
      simp only
      refine ConsAt.getS_bind ?_
      refine ConsAt.bind0 (iterNextR_cons s.r it s) (by own_np) (fun x s1 hx => ?_)
      obtain ⟨o, it'⟩ := x
      cases o with
      | none =>
        simp only
        refine ConsAt.bind0 (iterScript_cons R kind g hg cs it' forks s1) (by own_np) (fun rest s2 _ => ?_)
        exact ConsAt.pure rfl
      | some sp =>
        obtain ⟨slot, p⟩ := sp
        obtain ⟨rfl, hc, hs⟩ := iterNextR_inv hx
        simp only
        refine ConsAt.bind0 (p1 := none) ?_ (by own_np) (fun p' s2 _ => ?_)
        · split
          · rename_i hm
            refine ConsAt.bind0 (modify_cons hc hs (hg hm _)) (by own_np) (fun _ s2 _ => ?_)
            exact ConsAt.pure rfl
          · exact ConsAt.pure rfl
        · refine ConsAt.bind0 (iterScript_cons R kind g hg cs it' forks s2) (by own_np) (fun rest s3 _ => ?_)
          exact ConsAt.pure rfl
    | len =>
      unfold iterScript
      simp only
      refine ConsAt.bind0 (iterScript_cons R kind g hg cs it forks s) (by own_np) (fun rest s2 _ => ?_)
      exact ConsAt.pure rfl
    | hint =>
      unfold iterScript
      simp only
      refine ConsAt.bind0 (iterScript_cons R kind g hg cs it forks s) (by own_np) (fun rest s2 _ => ?_)
      exact ConsAt.pure rfl
    | debug =>
      unfold iterScript
      simp only
      refine ConsAt.getS_bind ?_
      refine ConsAt.bind0 (iterRestR_cons s.r _ _ s) (by own_np) (fun l s1 _ => ?_)
      refine ConsAt.bind0 (iterScript_cons R kind g hg cs it forks s1) (by own_np) (fun rest s2 _ => ?_)
      exact ConsAt.pure rfl
    | debugAlt =>
      unfold iterScript
      simp only
      refine ConsAt.getS_bind ?_
      refine ConsAt.bind0 (iterRestR_cons s.r _ _ s) (by own_np) (fun l s1 _ => ?_)
      refine ConsAt.bind0 (iterScript_cons R kind g hg cs it forks s1) (by own_np) (fun rest s2 _ => ?_)
      exact ConsAt.pure rfl
    | clone =>
      unfold iterScript
      simp only
      split
      · exact iterScript_cons R kind g hg cs it forks s
      · exact iterScript_cons R kind g hg cs it _ s
    | count =>
      unfold iterScript
      simp only
      refine ConsAt.bind0 (iterScript_cons R kind g hg [] it forks s) (by own_np) (fun rest s2 _ => ?_)
      exact ConsAt.pure rfl
    | fold =>
      unfold iterScript
      simp only
      refine ConsAt.bind0 (iterScript_cons R kind g hg [] it forks s) (by own_np) (fun rest s2 _ => ?_)
      exact ConsAt.pure rfl
termination_by cs => cs.length + 1
decreasing_by all_goals simp_wf <;> omega

theorem iterOp_cons (R : Render K V) (kind : IterKind) (g : V → V)
    (hg : (kind = .iter_mut ∨ kind = .values_mut) → ∀ v, w (.v (g v)) = w (.v v)) (script : List IterCmd) :
    Cons P w (iterOp R kind g script : SM K V Q (List (RV K V))) 0 (fun _ => 0) (some 0) := by
  intro s
  unfold iterOp
  refine ConsAt.getS_bind ?_
  refine ConsAt.bind0 (p1 := some 0) ?_ (by own_p) (fun it s1 _ => ?_)
  · unfold iterStartR
    split
    · exact ConsAt.pure rfl
    · exact ConsAt.throwP
  · exact (iterScript_cons R kind g hg script it [] s1).congr rfl (fun _ => rfl) (by own_np)

theorem fmtMap_cons (R : Render K V) (kind : FmtKind) :
    Cons P w (fmtMap R kind : SM K V Q String) 0 (fun _ => 0) (some 0) := by
  intro s
  unfold fmtMap
  refine ConsAt.getS_bind ?_
  refine ConsAt.bind0 (entriesOf_cons s.r s) (by own_p) (fun l s1 _ => ?_)
  cases kind <;> exact ConsAt.pure rfl

theorem readSlots_cons (r : Raw K V) : ∀ slots : List (Option Nat),
    Cons P w (readSlots r slots : SM K V Q (List (RV K V))) 0 (fun _ => 0) none
  | [] => fun _ => ConsAt.pure rfl
  | none :: rest => by
    intro s
    unfold readSlots
    refine ConsAt.bind0 (readSlots_cons r rest s) (by own_np) (fun _ s1 _ => ?_)
    exact ConsAt.pure rfl
  | some i :: rest => by
    intro s
    unfold readSlots
    refine ConsAt.bind0 (itemRefR_cons r i s) (by own_np) (fun p s1 _ => ?_)
    refine ConsAt.bind0 (readSlots_cons r rest s1) (by own_np) (fun _ s2 _ => ?_)
    exact ConsAt.pure rfl

/-! ### the entry API -/

/-- weight of the key an entry owns. -/
def we (w : Obj K V → Nat) : EntryS K → Nat
  | .occ _ => 0
  | .vac key => w (.k key)

@[simp] theorem we_occ (i : Nat) : we w (.occ i : EntryS K) = 0 := rfl
@[simp] theorem we_vac (key : K) : we w (.vac key : EntryS K) = w (.k key) := rfl

theorem entry_cons (k : K) : Cons P w (entry E k) (w (.k k)) (fun e => we w e) (some 0) := by
  intro s
  unfold entry
  refine ConsAt.bind (i1 := w (.k k)) (o1 := fun _ => w (.k k)) (p1 := some 0) ?_ (Nat.le_refl _) (by own_p)
    (fun o s1 _ => ?_)
  · exact ConsAt.unwindWith (p0 := some (w (.k k))) (q := 0) (pc := some 0)
      ((scan_cons E (.key k) s).framed (w (.k k)) (by omega) (fun _ => by omega) (by own_p))
      (fun x hx s' => by cases hx; exact dropK_cons k s')
  · cases o with
    | some i =>
      simp only
      refine ConsAt.bind (dropK_cons k s1) (by omega) (by own_p) (fun _ s2 _ => ?_)
      exact ConsAt.pure (by simp)
    | none => exact ConsAt.pure (by simp)

/-- on a container with `len ≤ cap`, `entry` unwinds only by an injected panic. -/
theorem entry_inj (k : K) {s : St K V Q} (h : s.r.len ≤ s.r.cap) :
    ConsAt P w (entry E k) s (w (.k k)) (fun e => we w e) none := by
  unfold entry
  refine ConsAt.bind (i1 := w (.k k)) (o1 := fun _ => w (.k k)) (p1 := none) ?_ (Nat.le_refl _) (by own_np)
    (fun o s1 _ => ?_)
  · exact ConsAt.unwindWith_inj
      ((scan_inj E (.key k) h).framed (w (.k k)) (by omega) (fun _ => by omega) (by own_np))
  · cases o with
    | some i =>
      simp only
      refine ConsAt.bind (dropK_inj k s1) (by omega) (by own_np) (fun _ s2 _ => ?_)
      exact ConsAt.pure (by simp)
    | none => exact ConsAt.pure (by simp)

theorem dropEntry_cons (e : EntryS K) : Cons P w (dropEntry e : SM K V Q Unit) (we w e) (fun _ => 0) (some 0) := by
  intro s
  cases e with
  | occ i => exact ConsAt.pure rfl
  | vac key => exact dropK_cons key s

theorem entry_key_cons (e : EntryS K) : Cons P w (entry_key e : SM K V Q K) 0 (fun _ => 0) none := by
  intro s
  cases e with
  | occ i =>
    unfold entry_key
    refine ConsAt.bind0 (itemRef_cons i s) (by own_np) (fun p s1 _ => ?_)
    exact ConsAt.pure rfl
  | vac key => exact ConsAt.pure rfl

/-- `and_modify`, for a weighting that does not tell `g v` from `v`. -/
theorem and_modify_cons (g : V → V) (hg : ∀ v, w (.v (g v)) = w (.v v)) (e : EntryS K) :
    Cons P w (and_modify g e : SM K V Q (EntryS K)) (we w e) (fun e' => we w e') none := by
  intro s
  cases e with
  | vac key => exact ConsAt.pure rfl
  | occ i =>
    unfold and_modify
    refine ConsAt.bind0 (itemRef_cons i s) (by own_np) (fun p s1 hp => ?_)
    obtain ⟨rfl, hc, hs⟩ := itemRef_inv hp
    refine ConsAt.bind0 (callF_inj 1 s1) (by own_np) (fun _ s2 h2 => ?_)
    have hr2 : s2.r = s1.r := callF_r h2
    refine ConsAt.bind0 (modify_cons (by rw [hr2]; exact hc) (by rw [hr2]; exact hs) (hg _)) (by own_np)
      (fun _ s3 _ => ?_)
    exact ConsAt.pure rfl

theorem entryMods_cons : ∀ (mods : List (V → V)), (∀ g ∈ mods, ∀ v, w (.v (g v)) = w (.v v)) → ∀ e : EntryS K,
    Cons P w (entryMods mods e : SM K V Q (EntryS K)) (we w e) (fun e' => we w e') none
  | [], _, _ => fun _ => ConsAt.pure rfl
  | g :: gs, hm, e => by
    intro s
    unfold entryMods
    refine ConsAt.bind (and_modify_cons g (hm g (List.mem_cons_self ..)) e s) (Nat.le_refl _) (by own_np)
      (fun e' s1 _ => ?_)
    exact (entryMods_cons gs (fun g' h' => hm g' (List.mem_cons_of_mem _ h')) e' s1).congr (by omega)
      (fun _ => rfl) (by own_np)

theorem dropOptPair_cons (hv : HV E w) (o : Option (K × V)) :
    Cons P w (dropOptPair E o) (wo w o) (fun _ => 0) (some 0) := by
  intro s
  cases o with
  | none => exact ConsAt.pure rfl
  | some p => exact dropPair_cons E hv p s

theorem vacant_insert_cons (hv : HV E w) (key : K) (value : V) :
    Cons P w (vacant_insert E key value) (w (.k key) + w (.v value)) (fun _ => 0) (some 0) := by
  intro s
  unfold vacant_insert
  refine ConsAt.bind (insert_ii_cons E hv key value false s) (Nat.le_refl _) (by own_p) (fun r s1 _ => ?_)
  obtain ⟨index, ex⟩ := r
  dsimp only
  refine ConsAt.bind (dropOptPair_cons E hv ex s1) (by omega) (by own_p) (fun _ s2 _ => ?_)
  refine ConsAt.bind0 (itemRef_cons index s2) (by own_np) (fun _ s3 _ => ?_)
  exact ConsAt.pure (by omega)

theorem or_insert_cons (hv : HV E w) (d : V) (e : EntryS K) :
    Cons P w (or_insert E d e) (w (.v d) + we w e) (fun _ => 0) (some 0) := by
  intro s
  cases e with
  | occ i =>
    unfold or_insert
    simp only [we_occ, Nat.add_zero]
    refine ConsAt.bind (i1 := w (.v d)) (o1 := fun _ => w (.v d)) (p1 := none) ?_ (Nat.le_refl _) (by own_np)
      (fun _ s1 _ => ?_)
    · exact ConsAt.unwindWith_inj ((itemRef_cons i s).framed (w (.v d)) (by omega) (fun _ => by omega) (by own_np))
    · refine ConsAt.bind (dropV_cons E hv d s1) (by omega) (by own_p) (fun _ s2 _ => ?_)
      exact ConsAt.pure (by omega)
  | vac key =>
    exact (vacant_insert_cons E hv key d s).congr (by simp; omega) (fun _ => rfl) (fun _ h => h)

/-- the value a not-run closure would have made stays with the caller. -/
def wmk (w : Obj K V → Nat) (mk : V) : EntryS K → Nat
  | .occ _ => w (.v mk)
  | .vac _ => 0

theorem or_insert_with_cons (hv : HV E w) (tag : Nat) (mk : V) (e : EntryS K) :
    Cons P w (or_insert_with E tag mk e) (w (.v mk) + we w e) (fun _ => wmk w mk e) (some 0) := by
  intro s
  cases e with
  | occ i =>
    unfold or_insert_with
    refine ConsAt.bind0 (itemRef_cons i s) (by own_np) (fun _ s1 _ => ?_)
    exact ConsAt.pure (by simp [wmk])
  | vac key =>
    unfold or_insert_with
    refine ConsAt.bind (i1 := 0) (o1 := fun _ => 0) (p1 := none) ?_ (Nat.zero_le _) (by own_np) (fun _ s1 _ => ?_)
    · exact ConsAt.unwindWith_inj (callF_inj tag s)
    · exact (vacant_insert_cons E hv key mk s1).congr (by simp; omega) (fun _ => by simp [wmk]) (fun _ h => h)

theorem occ_get_mut_cons (i : Nat) (g : V → V) (hg : ∀ v, w (.v (g v)) = w (.v v)) :
    Cons P w (occ_get_mut i g : SM K V Q (K × V)) 0 (fun _ => 0) none := by
  intro s
  unfold occ_get_mut
  refine ConsAt.bind0 (itemRef_cons i s) (by own_np) (fun p s1 hp => ?_)
  obtain ⟨rfl, hc, hs⟩ := itemRef_inv hp
  refine ConsAt.bind0 (modify_cons hc hs (hg _)) (by own_np) (fun _ s3 _ => ?_)
  exact ConsAt.pure rfl

theorem occ_insert_cons (i : Nat) (value : V) :
    Cons P w (occ_insert E i value) (w (.v value)) (fun old => w (.v old)) none := by
  intro s
  unfold occ_insert
  refine ConsAt.bind (i1 := w (.v value)) (o1 := fun _ => w (.v value)) (p1 := none) ?_ (Nat.le_refl _) (by own_np)
    (fun _ s1 _ => ?_)
  · exact ConsAt.unwindWith_inj ((itemRef_cons i s).framed (w (.v value)) (by omega) (fun _ => by omega) (by own_np))
  · exact (valueReplace_cons i value s1).congr (by omega) (fun _ => rfl) (by own_np)

theorem occ_remove_cons (i : Nat) : Cons P w (occ_remove i : SM K V Q V) 0 (fun v => w (.v v)) (some 0) := by
  intro s
  unfold occ_remove
  refine ConsAt.bind (remove_index_read_cons i s) (Nat.le_refl _) (by own_np) (fun p s2 _ => ?_)
  refine ConsAt.bind (i1 := w (.k p.1) + w (.v p.2)) (o1 := fun _ => w (.v p.2)) (p1 := some 0) ?_
    (by omega) (by own_p) (fun _ s3 _ => ?_)
  · refine ConsAt.unwindWith (p0 := some (w (.v p.2))) (q := 0) (pc := none)
      ((dropK_cons p.1 s2).framed (w (.v p.2)) rfl (fun _ => by omega) (by own_p)) (fun x hx s' => ?_)
    cases hx
    exact leak_cons (.v p.2) s'
  · exact ConsAt.pure (by simp)

theorem refVal_cons (slot : Nat) : Cons P w (refVal slot : SM K V Q (RV K V)) 0 (fun _ => 0) none := by
  intro s
  unfold refVal
  refine ConsAt.bind0 (itemRef_cons slot s) (by own_np) (fun p s1 _ => ?_)
  exact ConsAt.pure rfl

/-- the objects a terminal of an entry chain carries. -/
def finIn : EntryEnd V → List (Obj K V)
  | .or_insert v => [.v v]
  | .or_insert_with v => [.v v]
  | .or_insert_with_key v => [.v v]
  | .or_default v => [.v v]
  | .occ_insert v => [.v v]
  | .vac_insert v => [.v v]
  | _ => []

/-- what the caller owns after the terminal: the old value (`occ_insert`), the removed value or
    pair, the key of a vacant entry (`into_key`); and the value it passed in when the terminal did
    not consume it (a terminal that does not apply to this kind of entry; `or_insert_with` on an
    occupied entry, whose closure is not run). -/
def finBack (fin : EntryEnd V) (e : EntryS K) (r : RV K V) : List (Obj K V) :=
  match fin, e, r with
  | .or_insert_with v, .occ _, _ => [.v v]
  | .or_insert_with_key v, .occ _, _ => [.v v]
  | .or_default v, .occ _, _ => [.v v]
  | .occ_insert _, .occ _, .val old => [.v old]
  | .occ_insert v, .vac _, _ => [.v v]
  | .occ_remove, .occ _, .val v => [.v v]
  | .occ_remove_entry, .occ _, .pair k v => [.k k, .v v]
  | .vac_into_key, .vac _, .key k => [.k k]
  | .vac_insert v, .occ _, _ => [.v v]
  | _, _, _ => []

/-- the terminal writes through `&mut V` only what the weighting cannot tell from the old value. -/
def finWOk (w : Obj K V → Nat) : EntryEnd V → Prop
  | .occ_get_mut g => ∀ v, w (.v (g v)) = w (.v v)
  | _ => True

set_option linter.unusedSimpArgs false in
theorem entryFinish_cons (hv : HV E w) (fin : EntryEnd V) (hfin : finWOk w fin) (e : EntryS K) :
    Cons P w (entryFinish E fin e) (wsum w (finIn fin) + we w e) (fun r => wsum w (finBack fin e r)) (some 0) := by
  intro s
  cases fin with
  | or_insert v =>
    cases e with
    | occ i =>
      unfold entryFinish
      simp only [finIn, finBack, wsum_nil, wsum_cons, we_occ, we_vac, Nat.add_zero, Nat.zero_add]
      refine ConsAt.bind (or_insert_cons E hv v (.occ i) s) (by simp) (by own_p) (fun x s1 _ => ?_)
      exact (refVal_cons x s1).congr (by simp) (fun _ => rfl) (by own_np)
    | vac key =>
      unfold entryFinish
      simp only [finIn, finBack, wsum_nil, wsum_cons, we_occ, we_vac, Nat.add_zero, Nat.zero_add]
      refine ConsAt.bind (or_insert_cons E hv v (.vac key) s) (by simp) (by own_p) (fun x s1 _ => ?_)
      exact (refVal_cons x s1).congr (by simp) (fun _ => rfl) (by own_np)
  | or_insert_with v =>
    cases e with
    | occ i =>
      unfold entryFinish
      simp only [finIn, finBack, wsum_nil, wsum_cons, we_occ, we_vac, Nat.add_zero, Nat.zero_add]
      refine ConsAt.bind (or_insert_with_cons E hv 2 v (.occ i) s) (by simp) (by own_p) (fun x s1 _ => ?_)
      exact (refVal_cons x s1).framed (w (.v v)) (by simp [wmk]) (fun _ => by simp) (by own_np)
    | vac key =>
      unfold entryFinish
      simp only [finIn, finBack, wsum_nil, wsum_cons, we_occ, we_vac, Nat.add_zero, Nat.zero_add]
      refine ConsAt.bind (or_insert_with_cons E hv 2 v (.vac key) s) (by simp) (by own_p) (fun x s1 _ => ?_)
      exact (refVal_cons x s1).congr (by simp [wmk]) (fun _ => rfl) (by own_np)
  | or_insert_with_key v =>
    cases e with
    | occ i =>
      unfold entryFinish
      simp only [finIn, finBack, wsum_nil, wsum_cons, we_occ, we_vac, Nat.add_zero, Nat.zero_add]
      refine ConsAt.bind (or_insert_with_cons E hv 3 v (.occ i) s) (by simp) (by own_p) (fun x s1 _ => ?_)
      exact (refVal_cons x s1).framed (w (.v v)) (by simp [wmk]) (fun _ => by simp) (by own_np)
    | vac key =>
      unfold entryFinish
      simp only [finIn, finBack, wsum_nil, wsum_cons, we_occ, we_vac, Nat.add_zero, Nat.zero_add]
      refine ConsAt.bind (or_insert_with_cons E hv 3 v (.vac key) s) (by simp) (by own_p) (fun x s1 _ => ?_)
      exact (refVal_cons x s1).congr (by simp [wmk]) (fun _ => rfl) (by own_np)
  | or_default v =>
    cases e with
    | occ i =>
      unfold entryFinish
      simp only [finIn, finBack, wsum_nil, wsum_cons, we_occ, we_vac, Nat.add_zero, Nat.zero_add]
      refine ConsAt.bind (or_insert_with_cons E hv 4 v (.occ i) s) (by simp) (by own_p) (fun x s1 _ => ?_)
      exact (refVal_cons x s1).framed (w (.v v)) (by simp [wmk]) (fun _ => by simp) (by own_np)
    | vac key =>
      unfold entryFinish
      simp only [finIn, finBack, wsum_nil, wsum_cons, we_occ, we_vac, Nat.add_zero, Nat.zero_add]
      refine ConsAt.bind (or_insert_with_cons E hv 4 v (.vac key) s) (by simp) (by own_p) (fun x s1 _ => ?_)
      exact (refVal_cons x s1).congr (by simp [wmk]) (fun _ => rfl) (by own_np)
  | key =>
    cases e with
    | occ i =>
      unfold entryFinish
      simp only [finIn, finBack, wsum_nil, wsum_cons, we_occ, we_vac, Nat.add_zero, Nat.zero_add]
      refine ConsAt.bind0 (entry_key_cons (.occ i) s) (by own_np) (fun k s1 _ => ?_)
      refine ConsAt.bind0 (dropEntry_cons (.occ i) s1) (by own_p) (fun _ s2 _ => ?_)
      exact ConsAt.pure rfl
    | vac key =>
      unfold entryFinish
      simp only [finIn, finBack, wsum_nil, wsum_cons, we_occ, we_vac, Nat.add_zero, Nat.zero_add]
      refine ConsAt.bind0 (entry_key_cons (.vac key) s) (by own_np) (fun k s1 _ => ?_)
      refine ConsAt.bind (dropEntry_cons (.vac key) s1) (by simp) (by own_p) (fun _ s2 _ => ?_)
      exact ConsAt.pure (by simp)
  | drop =>
    cases e with
    | occ i =>
      unfold entryFinish
      simp only [finIn, finBack, wsum_nil, wsum_cons, we_occ, we_vac, Nat.add_zero, Nat.zero_add]
      refine ConsAt.bind0 (dropEntry_cons (.occ i) s) (by own_p) (fun _ s2 _ => ?_)
      exact ConsAt.pure rfl
    | vac key =>
      unfold entryFinish
      simp only [finIn, finBack, wsum_nil, wsum_cons, we_occ, we_vac, Nat.add_zero, Nat.zero_add]
      refine ConsAt.bind (dropEntry_cons (.vac key) s) (by simp) (by own_p) (fun _ s2 _ => ?_)
      exact ConsAt.pure (by simp)
  | occ_key =>
    cases e with
    | occ i =>
      unfold entryFinish
      simp only [finIn, finBack, wsum_nil, wsum_cons, we_occ, we_vac, Nat.add_zero, Nat.zero_add]
      refine ConsAt.bind0 (itemRef_cons i s) (by own_np) (fun p s1 _ => ?_)
      exact ConsAt.pure rfl
    | vac key =>
      unfold entryFinish
      simp only [finIn, finBack, wsum_nil, wsum_cons, we_occ, we_vac, Nat.add_zero, Nat.zero_add]
      refine ConsAt.bind (dropK_inj key s) (by omega) (by own_np) (fun _ s1 _ => ?_)
      exact ConsAt.pure (by simp)
  | occ_get =>
    cases e with
    | occ i =>
      unfold entryFinish
      simp only [finIn, finBack, wsum_nil, wsum_cons, we_occ, we_vac, Nat.add_zero, Nat.zero_add]
      refine ConsAt.bind0 (itemRef_cons i s) (by own_np) (fun p s1 _ => ?_)
      exact ConsAt.pure rfl
    | vac key =>
      unfold entryFinish
      simp only [finIn, finBack, wsum_nil, wsum_cons, we_occ, we_vac, Nat.add_zero, Nat.zero_add]
      refine ConsAt.bind (dropK_inj key s) (by omega) (by own_np) (fun _ s1 _ => ?_)
      exact ConsAt.pure (by simp)
  | occ_get_mut g =>
    cases e with
    | occ i =>
      unfold entryFinish
      simp only [finIn, finBack, wsum_nil, wsum_cons, we_occ, we_vac, Nat.add_zero, Nat.zero_add]
      refine ConsAt.bind0 (occ_get_mut_cons i g hfin s) (by own_np) (fun p s1 _ => ?_)
      exact ConsAt.pure rfl
    | vac key =>
      unfold entryFinish
      simp only [finIn, finBack, wsum_nil, wsum_cons, we_occ, we_vac, Nat.add_zero, Nat.zero_add]
      refine ConsAt.bind (dropK_inj key s) (by omega) (by own_np) (fun _ s1 _ => ?_)
      exact ConsAt.pure (by simp)
  | occ_insert v =>
    cases e with
    | occ i =>
      unfold entryFinish
      simp only [finIn, finBack, wsum_nil, wsum_cons, we_occ, we_vac, Nat.add_zero, Nat.zero_add]
      refine ConsAt.bind (occ_insert_cons E i v s) (by simp) (by own_np) (fun x s1 _ => ?_)
      exact ConsAt.pure (by simp)
    | vac key =>
      unfold entryFinish
      simp only [finIn, finBack, wsum_nil, wsum_cons, we_occ, we_vac, Nat.add_zero, Nat.zero_add]
      refine ConsAt.bind (dropK_inj key s) (by omega) (by own_np) (fun _ s1 _ => ?_)
      exact ConsAt.pure (by simp)
  | occ_remove =>
    cases e with
    | occ i =>
      unfold entryFinish
      simp only [finIn, finBack, wsum_nil, wsum_cons, we_occ, we_vac, Nat.add_zero, Nat.zero_add]
      refine ConsAt.bind (occ_remove_cons i s) (by simp) (by own_p) (fun x s1 _ => ?_)
      exact ConsAt.pure (by simp)
    | vac key =>
      unfold entryFinish
      simp only [finIn, finBack, wsum_nil, wsum_cons, we_occ, we_vac, Nat.add_zero, Nat.zero_add]
      refine ConsAt.bind (dropK_inj key s) (by omega) (by own_np) (fun _ s1 _ => ?_)
      exact ConsAt.pure (by simp)
  | occ_remove_entry =>
    cases e with
    | occ i =>
      unfold entryFinish
      simp only [finIn, finBack, wsum_nil, wsum_cons, we_occ, we_vac, Nat.add_zero, Nat.zero_add]
      refine ConsAt.bind (remove_index_read_cons i s) (by simp) (by own_np) (fun x s1 _ => ?_)
      exact ConsAt.pure (by simp)
    | vac key =>
      unfold entryFinish
      simp only [finIn, finBack, wsum_nil, wsum_cons, we_occ, we_vac, Nat.add_zero, Nat.zero_add]
      refine ConsAt.bind (dropK_inj key s) (by omega) (by own_np) (fun _ s1 _ => ?_)
      exact ConsAt.pure (by simp)
  | occ_into_mut =>
    cases e with
    | occ i =>
      unfold entryFinish
      simp only [finIn, finBack, wsum_nil, wsum_cons, we_occ, we_vac, Nat.add_zero, Nat.zero_add]
      exact (refVal_cons i s).congr rfl (fun _ => rfl) (by own_np)
    | vac key =>
      unfold entryFinish
      simp only [finIn, finBack, wsum_nil, wsum_cons, we_occ, we_vac, Nat.add_zero, Nat.zero_add]
      refine ConsAt.bind (dropK_inj key s) (by omega) (by own_np) (fun _ s1 _ => ?_)
      exact ConsAt.pure (by simp)
  | vac_key =>
    cases e with
    | occ i =>
      unfold entryFinish
      simp only [finIn, finBack, wsum_nil, wsum_cons, we_occ, we_vac, Nat.add_zero, Nat.zero_add]
      exact ConsAt.pure (by simp)
    | vac key =>
      unfold entryFinish
      simp only [finIn, finBack, wsum_nil, wsum_cons, we_occ, we_vac, Nat.add_zero, Nat.zero_add]
      refine ConsAt.bind (dropK_inj key s) (by omega) (by own_np) (fun _ s1 _ => ?_)
      exact ConsAt.pure (by simp)
  | vac_into_key =>
    cases e with
    | occ i =>
      unfold entryFinish
      simp only [finIn, finBack, wsum_nil, wsum_cons, we_occ, we_vac, Nat.add_zero, Nat.zero_add]
      exact ConsAt.pure (by simp)
    | vac key =>
      unfold entryFinish
      simp only [finIn, finBack, wsum_nil, wsum_cons, we_occ, we_vac, Nat.add_zero, Nat.zero_add]
      exact ConsAt.pure (by simp)
  | vac_insert v =>
    cases e with
    | occ i =>
      unfold entryFinish
      simp only [finIn, finBack, wsum_nil, wsum_cons, we_occ, we_vac, Nat.add_zero, Nat.zero_add]
      exact ConsAt.pure (by simp)
    | vac key =>
      unfold entryFinish
      simp only [finIn, finBack, wsum_nil, wsum_cons, we_occ, we_vac, Nat.add_zero, Nat.zero_add]
      refine ConsAt.bind (vacant_insert_cons E hv key v s) (by omega) (by own_p) (fun x s1 _ => ?_)
      exact (refVal_cons x s1).congr (by simp; omega) (fun _ => rfl) (by own_np)

end Micromap.Own
