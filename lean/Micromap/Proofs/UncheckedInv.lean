/-
The system invariant (`SysInv`) along histories that DO contain the two `unsafe fn`s
(`insert_unchecked`, `get_disjoint_unchecked_mut`), provided every call meets the documented
contract in the state in which it is made.  `SysInv.lean` proves `step_inv` / `run_inv` for the
safe API only (`Op.safeApi`); this file adds the two excluded operations.

* `Op.contractOk E sys op`  — the contract of `op`, as a predicate on the CURRENT system state;
* `step_inv_contract`       — one step inside the contract: no `ub`, `SysInv` preserved (any `==`,
                              any armed injection, either profile);
* `ContractAlong`, `run_inv_contract` — the same along a whole history;
* `step_insert_unchecked_eq`, `run_toChecked_eq` — inside the contract a step (a history) with
  `insert_unchecked` IS the step (history) with `insert` in its place: same outputs, same states.
-/
import Micromap.Proofs.SysInv
import Micromap.Proofs.Unchecked

namespace Micromap.UncheckedInv
open Micromap SetAlg Dict
variable {K V Q : Type} (E : Env K V Q)

/-! ### the contract of `insert_unchecked` on one container state -/

/-- The contract of `insert_unchecked(k, _)` in state `s`, for ANY user equality: the map is not
    full, or the scan that `insert_i` performs for `k` from this state does not come back empty
    (it finds a slot — "the key is present" — or it unwinds from an injected panic before the
    write is reached).  This is exactly the hypothesis of `Unchecked.insert_unchecked_eq_insert`
    without its third alternative (`debug_assert!` compiled in). -/
def InsertContract (s : St K V Q) (k : K) : Prop :=
  s.r.len < s.r.cap ∨ ∀ s1, scan E (.key k) s ≠ .ok none s1

/-- the contract in the simple form used in the documentation of the crate ("not full, or the key
    is already present"), meaningful for a time-independent `==`. -/
def InsertContractPure (r : Raw K V) (k : K) : Prop :=
  r.len < r.cap ∨ findKey E r.abs (.key k : Probe K Q) ≠ none

/-- for a pure `==` the simple form implies the general one (any world, injections included). -/
theorem InsertContract.of_pure (hE : E.Pure) {s : St K V Q} (hs : Safe s.r) {k : K}
    (h : InsertContractPure E s.r k) : InsertContract E s k := by
  rcases h with h | h
  · exact Or.inl h
  · exact Or.inr (Unchecked.scan_ne_none_of_present E hE hs.rep k h)

/-- in a world without an armed injection the two forms coincide (pure `==`). -/
theorem InsertContract.iff_pure (hE : E.Pure) {s : St K V Q} (hs : Safe s.r) (hb : Benign s.w) {k : K} :
    InsertContract E s k ↔ InsertContractPure E s.r k := by
  refine ⟨fun h => ?_, InsertContract.of_pure E hE hs⟩
  rcases h with h | h
  · exact Or.inl h
  · refine Or.inr (fun hf => ?_)
    obtain ⟨o, s1, h1, _, _, _, h2⟩ := (scan_cb' E hs.rep (.key k)).must_return (by
      intro c s' ⟨_, _, hi, _⟩; exact hi hb.1)
    have : o = none := by rw [h2 hE, hf]
    subst this
    exact h s1 h1

/-! ### one container: the two unsafe operations keep the invariant -/

/-- inside the contract (or with `debug_assert!` compiled in) the `insert_unchecked` line of
    `stepMapOp` IS its `insert` line: same result value, same final state, same panic. -/
theorem stepMapOp_insert_unchecked_eq (R : Render K V) (other : Nat → Raw K V) {s : St K V Q}
    (hs : Safe s.r) (k : K) (v : V) (hc : InsertContract E s k ∨ s.w.profile = .debug) :
    stepMapOp E R other (.insert_unchecked k v) s = stepMapOp E R other (.insert k v) s := by
  have hr := hs.rep
  have hc' : s.r.abs.length < s.r.cap ∨ (∀ s1, scan E (.key k) s ≠ .ok none s1) ∨ s.w.profile = .debug := by
    rcases hc with (h | h) | h
    · exact Or.inl (hr.1 ▸ h)
    · exact Or.inr (Or.inl h)
    · exact Or.inr (Or.inr h)
  show (insert_unchecked E k v >>= _) s = (insert E k v >>= _) s
  simp only [bind_apply, Unchecked.insert_unchecked_eq_insert E hr k v hc']

/-- `insert_unchecked` inside its contract keeps the invariant of the container (well-defined
    live prefix, `len ≤ cap`, unique keys for a lawful key type) and its capacity, whether it
    returns or unwinds, and does not reach `ub` — any `==`, any injection point, either profile. -/
theorem insert_unchecked_inv_at (R : Render K V) (other : Nat → Raw K V) {s : St K V Q}
    (hs : Inv E s.r) (k : K) (v : V) (hc : InsertContract E s k ∨ s.w.profile = .debug) :
    Sat (stepMapOp E R other (.insert_unchecked k v)) s (fun _ s' => Inv E s'.r ∧ s'.r.cap = s.r.cap)
      (fun _ s' => Inv E s'.r ∧ s'.r.cap = s.r.cap) := by
  unfold Sat
  rw [stepMapOp_insert_unchecked_eq E R other hs.safe k v hc]
  exact (OpInv.bind (opInv_insert E k v) (fun o => by cases o <;> exact OpInv.pure _)) s hs

/-- `get_disjoint_unchecked_mut` followed by writes through the returned references keeps the
    invariant for ANY request list — also one with repeated keys — any `==` and any injection
    point: the implementation pushes every slot at most once onto its index stack and splits the
    slice back to front, so the returned references never alias whatever the caller passes. -/
theorem opInv_gdm_unchecked (g : V → V) (ks : List (Probe K Q)) :
    OpInv E (do
      let slots ← get_disjoint_unchecked_mut E ks
      writeSlots g slots
      let s ← getS
      pure (RV.list (← readSlots s.r slots)) : SM K V Q (RV K V)) := by
  intro s ⟨l, hr, hn⟩
  refine Sat.bind (Sat.mono (Disjoint.unchecked_sat E hr ks) (fun _ _ h => h) ?_) ?_
  · intro c s' ⟨h1, _⟩; exact ⟨⟨l, h1 ▸ hr, hn⟩, by rw [h1]⟩
  · intro res s1 ⟨h1, _, _, h4, _, _⟩
    obtain ⟨s2, g1, g2, _, g4⟩ := Disjoint.writeSlots_eq (Q := Q) g res s1 l (h1 ▸ hr) h4
    refine Sat.bind (Sat.of_ok g1 (Q := fun _ s' => s' = s2) rfl) ?_
    intro _ s3 hs3
    subst hs3
    refine Sat.getS_bind ?_
    obtain ⟨o, ho⟩ := readSlots_ok g2 s3 res (fun t j h => by
      rw [Disjoint.writeL_length]; exact h4 t j h)
    refine Sat.of_ok (a := RV.list o) (s' := s3) (by simp [bind_apply, ho]) ⟨⟨_, g2, fun hg => ?_⟩, by rw [g4, h1]⟩
    have := hn hg
    unfold NodupKeys at *
    rw [writeL_keys]; exact this

theorem stepMapOp_gdm_unchecked_inv (R : Render K V) (other : Nat → Raw K V) (g : V → V)
    (ks : List (Probe K Q)) : OpInv E (stepMapOp E R other (.get_disjoint_mut true g ks)) :=
  opInv_gdm_unchecked E g ks

/-! ### registers: a computation known to be good on THIS register state -/

theorem runOnMap_inv_at {α : Type} {m : SM K V Q α} {sys : Sys K V Q} (hs : SysInv E sys) (i : Nat)
    (hm : Sat m ⟨sys.maps i, sys.w⟩ (fun _ s' => Inv E s'.r ∧ s'.r.cap = (sys.maps i).cap)
      (fun _ s' => Inv E s'.r ∧ s'.r.cap = (sys.maps i).cap)) :
    ResInv E (runOnMap sys i m) := by
  unfold Sat at hm
  unfold runOnMap ResInv
  cases hr : m ⟨sys.maps i, sys.w⟩ with
  | ok a s => rw [hr] at hm; exact ⟨inv_updReg hs.1 i hm.1, hs.2⟩
  | panic c s => rw [hr] at hm; exact ⟨inv_updReg hs.1 i hm.1, hs.2⟩
  | ub => rw [hr] at hm; exact hm

theorem runOnSet_inv_at {α : Type} {m : SM K Unit Q α} {sys : Sys K V Q} (hs : SysInv E sys) (i : Nat)
    (hm : Sat m ⟨sys.sets i, sys.w.toUnit⟩ (fun _ s' => Inv E.toUnit s'.r ∧ s'.r.cap = (sys.sets i).cap)
      (fun _ s' => Inv E.toUnit s'.r ∧ s'.r.cap = (sys.sets i).cap)) :
    ResInv E (runOnSet sys i m) := by
  unfold Sat at hm
  unfold runOnSet ResInv
  cases hr : m ⟨sys.sets i, sys.w.toUnit⟩ with
  | ok a s => rw [hr] at hm; exact ⟨hs.1, inv_updReg hs.2 i hm.1⟩
  | panic c s => rw [hr] at hm; exact ⟨hs.1, inv_updReg hs.2 i hm.1⟩
  | ub => rw [hr] at hm; exact hm

/-! ### the contract as a predicate on the current system state -/

/-- the system as `step` presents it to an operation: the per-step event log is empty. -/
def atStep (sys : Sys K V Q) : Sys K V Q := { sys with w := { sys.w with events := [] } }

/-- the state on which `step` runs an operation of map register `reg`. -/
def mapSt (sys : Sys K V Q) (reg : Nat) : St K V Q := ⟨sys.maps reg, { sys.w with events := [] }⟩

/-- the state on which `step` runs a `Map<K, (), N>` operation of set register `reg`. -/
def setSt (sys : Sys K V Q) (reg : Nat) : St K Unit Q := ⟨sys.sets reg, sys.w.toUnit⟩

theorem mapSt_atStep (sys : Sys K V Q) (reg : Nat) :
    (⟨(atStep sys).maps reg, (atStep sys).w⟩ : St K V Q) = mapSt sys reg := rfl

theorem setSt_atStep (sys : Sys K V Q) (reg : Nat) :
    (⟨(atStep sys).sets reg, (atStep sys).w.toUnit⟩ : St K Unit Q) = setSt sys reg := rfl

end Micromap.UncheckedInv

namespace Micromap
open Micromap.UncheckedInv
variable {K V Q : Type} (E : Env K V Q)

/-- the part of the contract that memory safety and the invariant actually DEPEND on: every
    `insert_unchecked(k, _)` is issued on a register that is not full or on which the scan for `k`
    does not come back empty (`InsertContract`).  Everything else — the safe API and, in this
    implementation, also `get_disjoint_unchecked_mut` with arbitrary requests — needs nothing. -/
def Op.insertContractOk (sys : Sys K V Q) : Op K V Q → Prop
  | .map reg (.insert_unchecked k _) => InsertContract E (mapSt sys reg) k
  | .umap reg (.insert_unchecked k _) => InsertContract E.toUnit (setSt sys reg) k
  | _ => True

/-- **The contract of the two `unsafe fn`s, as a predicate on the current state.**
    * safe operations: nothing to meet;
    * `insert_unchecked(k, _)` on register `reg`: the register is not full (`len < cap`) or the
      key is present — in the form that makes sense for ANY user equality: the scan `insert_i`
      performs from this very state finds a match (`InsertContract`; for a pure `==` this is
      `findKey … ≠ none`, see `Op.contractOk_of_pure`);
    * `get_disjoint_unchecked_mut(ks)`: the requests are pairwise different (`Disjoint.Unequal`:
      `k == k'` is false for every two of them, the condition the checked variant asserts).
    The `umap` cases are the same for the zero-sized-value shape `Map<K, (), N>`. -/
def Op.contractOk (sys : Sys K V Q) : Op K V Q → Prop
  | .map reg (.insert_unchecked k _) => InsertContract E (mapSt sys reg) k
  | .umap reg (.insert_unchecked k _) => InsertContract E.toUnit (setSt sys reg) k
  | .map _ (.get_disjoint_mut true _ ks) => Disjoint.Unequal E ks
  | .umap _ (.get_disjoint_mut true _ ks) => Disjoint.Unequal E.toUnit ks
  | _ => True

/-- the documented form of the contract for a time-independent `==`: "not full, or the key is
    already present" on the abstract list of the register. -/
def Op.contractOkPure (sys : Sys K V Q) : Op K V Q → Prop
  | .map reg (.insert_unchecked k _) => InsertContractPure E (sys.maps reg) k
  | .umap reg (.insert_unchecked k _) => InsertContractPure E.toUnit (sys.sets reg) k
  | .map _ (.get_disjoint_mut true _ ks) => Disjoint.Unequal E ks
  | .umap _ (.get_disjoint_mut true _ ks) => Disjoint.Unequal E.toUnit ks
  | _ => True

end Micromap

namespace Micromap.UncheckedInv
open Micromap SetAlg Dict
variable {K V Q : Type} (E : Env K V Q) (R : Render K V)

theorem contractOk_safe (sys : Sys K V Q) {op : Op K V Q} (hop : op.safeApi = true) :
    op.contractOk E sys := by
  cases op with
  | map reg mop =>
    cases mop with
    | insert_unchecked k v => cases hop
    | get_disjoint_mut u g ks =>
      cases u with
      | true => cases hop
      | false => trivial
    | _ => trivial
  | umap reg mop =>
    cases mop with
    | insert_unchecked k v => cases hop
    | get_disjoint_mut u g ks =>
      cases u with
      | true => cases hop
      | false => trivial
    | _ => trivial
  | _ => trivial

theorem insertContractOk_of_contractOk (sys : Sys K V Q) {op : Op K V Q} (h : op.contractOk E sys) :
    op.insertContractOk E sys := by
  cases op with
  | map reg mop =>
    cases mop with
    | insert_unchecked k v => exact h
    | _ => trivial
  | umap reg mop =>
    cases mop with
    | insert_unchecked k v => exact h
    | _ => trivial
  | _ => trivial

theorem Env.Pure.toUnit {E : Env K V Q} (h : E.Pure) : E.toUnit.Pure := ⟨h.k, h.q⟩

/-- pure `==`: the documented form of the contract implies the general one, in any world. -/
theorem contractOk_of_pure (hE : E.Pure) {sys : Sys K V Q} (hs : SysInv E sys) {op : Op K V Q}
    (h : op.contractOkPure E sys) : op.contractOk E sys := by
  cases op with
  | map reg mop =>
    cases mop with
    | insert_unchecked k v =>
      exact InsertContract.of_pure E hE (s := mapSt sys reg) (hs.1 reg).safe h
    | get_disjoint_mut u g ks => cases u <;> exact h
    | _ => trivial
  | umap reg mop =>
    cases mop with
    | insert_unchecked k v =>
      exact InsertContract.of_pure E.toUnit (Env.Pure.toUnit hE) (s := setSt sys reg) (hs.2 reg).safe h
    | get_disjoint_mut u g ks => cases u <;> exact h
    | _ => trivial
  | _ => trivial

/-- pure `==`, no injection armed: the two forms of the contract coincide. -/
theorem contractOk_iff_pure (hE : E.Pure) {sys : Sys K V Q} (hs : SysInv E sys) (hb : Benign sys.w)
    (op : Op K V Q) : op.contractOk E sys ↔ op.contractOkPure E sys := by
  refine ⟨fun h => ?_, contractOk_of_pure E hE hs⟩
  cases op with
  | map reg mop =>
    cases mop with
    | insert_unchecked k v =>
      exact (InsertContract.iff_pure E hE (s := mapSt sys reg) (hs.1 reg).safe ⟨hb.1, hb.2⟩).mp h
    | get_disjoint_mut u g ks => cases u <;> exact h
    | _ => trivial
  | umap reg mop =>
    cases mop with
    | insert_unchecked k v =>
      exact (InsertContract.iff_pure E.toUnit (Env.Pure.toUnit hE) (s := setSt sys reg) (hs.2 reg).safe
        ⟨hb.1, hb.2⟩).mp h
    | get_disjoint_mut u g ks => cases u <;> exact h
    | _ => trivial
  | _ => trivial

/-! ### one step -/

/-- `stepCore` on the system as `step` presents it. -/
theorem stepCore_inv_insertContract {sys : Sys K V Q} (hs : SysInv E sys) (op : Op K V Q)
    (hc : op.insertContractOk E sys) : ResInv E (stepCore E R (atStep sys) op) := by
  have hs0 : SysInv E (atStep sys) := hs
  by_cases hop : op.safeApi = true
  · exact stepCore_inv E R hs0 op hop
  · cases op with
    | map reg mop =>
      cases mop with
      | insert_unchecked k v =>
        exact runOnMap_inv_at E hs0 reg
          (insert_unchecked_inv_at E R (atStep sys).maps (s := mapSt sys reg) (hs.1 reg) k v (Or.inl hc))
      | get_disjoint_mut u g ks =>
        cases u with
        | false => exact absurd rfl hop
        | true => exact runOnMap_inv E (stepMapOp_gdm_unchecked_inv E R _ g ks) hs0 reg
      | _ => exact absurd rfl hop
    | umap reg mop =>
      cases mop with
      | insert_unchecked k v =>
        simp only [stepCore]
        generalize hr : runOnSet (atStep sys) reg _ = r
        have h : ResInv E r := hr ▸ runOnSet_inv_at E hs0 reg
          (insert_unchecked_inv_at E.toUnit R.toUnit (atStep sys).sets (s := setSt sys reg) (hs.2 reg) k v
            (Or.inl hc))
        cases r <;> exact h
      | get_disjoint_mut u g ks =>
        cases u with
        | false => exact absurd rfl hop
        | true =>
          simp only [stepCore]
          generalize hr : runOnSet (atStep sys) reg _ = r
          have h : ResInv E r := hr ▸ runOnSet_inv E (stepMapOp_gdm_unchecked_inv E.toUnit R.toUnit _ g ks) hs0 reg
          cases r <;> exact h
      | _ => exact absurd rfl hop
    | _ => exact absurd rfl hop

/-- **One step inside the contract** (weakest form of the hypothesis: only the calls of
    `insert_unchecked` have something to meet).  From registers that satisfy the invariant the
    operation does not reach `ub` and all registers satisfy the invariant afterwards — whether it
    returned, panicked by itself or unwound from an injected panic in user code; any `==`, any
    armed injection, either profile.  No hypothesis on the world is needed. -/
theorem step_inv_insertContract {sys : Sys K V Q} (hs : SysInv E sys) (op : Op K V Q)
    (hc : op.insertContractOk E sys) :
    (step E R sys op).2.outcome ≠ .ub ∧ SysInv E (step E R sys op).1 := by
  by_cases hop : op.safeApi = true
  · exact step_inv E R hs op hop
  · have h : ResInv E (stepCore E R { sys with w := { sys.w with events := [] } } op) :=
      stepCore_inv_insertContract E R hs op hc
    unfold ResInv at h
    unfold step
    cases op with
    | inject j => exact absurd rfl hop
    | endCase => exact absurd rfl hop
    | set reg sop => exact absurd rfl hop
    | map reg mop =>
      simp only
      cases hr : stepCore E R _ (Op.map reg mop) with
      | ok a s => rw [hr] at h; exact ⟨by simp, h⟩
      | panic c s => rw [hr] at h; exact ⟨by simp, h⟩
      | ub => rw [hr] at h; exact h.elim
    | umap reg uop =>
      simp only
      cases hr : stepCore E R _ (Op.umap reg uop) with
      | ok a s => rw [hr] at h; exact ⟨by simp, h⟩
      | panic c s => rw [hr] at h; exact ⟨by simp, h⟩
      | ub => rw [hr] at h; exact h.elim

/-- **One step inside the contract.**  `SysInv` + the contract of the operation in the current
    state ⟹ the step does not reach `ub` and `SysInv` holds afterwards, for ANY world (armed
    injections included), any `==`, either profile. -/
theorem step_inv_contract {sys : Sys K V Q} (hs : SysInv E sys) (op : Op K V Q)
    (hc : op.contractOk E sys) :
    (step E R sys op).2.outcome ≠ .ub ∧ SysInv E (step E R sys op).1 :=
  step_inv_insertContract E R hs op (insertContractOk_of_contractOk E sys hc)

/-! ### histories -/

/-- every operation of the history meets its contract IN THE STATE REACHED when it is issued
    (recursion over the history: the head in the current state, the tail from the state the
    head's step leaves). -/
def ContractAlong (sys : Sys K V Q) : List (Op K V Q) → Prop
  | [] => True
  | op :: ops => op.contractOk E sys ∧ ContractAlong (step E R sys op).1 ops

/-- the same for the part of the contract safety depends on (`Op.insertContractOk`). -/
def InsertContractAlong (sys : Sys K V Q) : List (Op K V Q) → Prop
  | [] => True
  | op :: ops => op.insertContractOk E sys ∧ InsertContractAlong (step E R sys op).1 ops

/-- the documented (pure-`==`) form along a history. -/
def ContractAlongPure (sys : Sys K V Q) : List (Op K V Q) → Prop
  | [] => True
  | op :: ops => op.contractOkPure E sys ∧ ContractAlongPure (step E R sys op).1 ops

theorem InsertContractAlong.of_contractAlong : ∀ (ops : List (Op K V Q)) (sys : Sys K V Q),
    ContractAlong E R sys ops → InsertContractAlong E R sys ops
  | [], _, _ => trivial
  | _ :: ops, _, h => ⟨insertContractOk_of_contractOk E _ h.1, of_contractAlong ops _ h.2⟩

/-- a history of safe operations meets every contract. -/
theorem ContractAlong.of_safe : ∀ (ops : List (Op K V Q)) (sys : Sys K V Q),
    (∀ op, op ∈ ops → op.safeApi = true) → ContractAlong E R sys ops
  | [], _, _ => trivial
  | op :: ops, sys, h => ⟨contractOk_safe E sys (h op (List.mem_cons_self ..)),
      of_safe ops _ (fun o ho => h o (List.mem_cons_of_mem _ ho))⟩

/-- **Every history inside the contract** (weakest hypothesis).  No step reaches `ub` and the
    invariant holds at the end — hence, applied to prefixes, after every step. -/
theorem run_inv_insertContract : ∀ (ops : List (Op K V Q)) (sys : Sys K V Q), SysInv E sys →
    InsertContractAlong E R sys ops →
    (∀ o, o ∈ (run E R sys ops).2 → o.outcome ≠ .ub) ∧ SysInv E (run E R sys ops).1
  | [], sys, hs, _ => ⟨fun _ h => by simp [run] at h, hs⟩
  | op :: ops, sys, hs, hc => by
    have h1 := step_inv_insertContract E R hs op hc.1
    have h2 := run_inv_insertContract ops (step E R sys op).1 h1.2 hc.2
    unfold run
    refine ⟨fun o ho => ?_, h2.2⟩
    rcases List.mem_cons.mp ho with rfl | ho'
    · exact h1.1
    · exact h2.1 o ho'

/-- **Every history inside the contract.**  For any list of operations — safe ones, and the two
    `unsafe fn`s each meeting its contract in the state reached when it is issued —, any user
    equality, any armed injections, either profile: no step reaches `ub` and `SysInv` holds at
    the end. -/
theorem run_inv_contract (ops : List (Op K V Q)) (sys : Sys K V Q) (hs : SysInv E sys)
    (hc : ContractAlong E R sys ops) :
    (∀ o, o ∈ (run E R sys ops).2 → o.outcome ≠ .ub) ∧ SysInv E (run E R sys ops).1 :=
  run_inv_insertContract E R ops sys hs (InsertContractAlong.of_contractAlong E R ops sys hc)

/-- pure `==`: a history that meets the documented form of the contract meets the general one. -/
theorem ContractAlong.of_pure (hE : E.Pure) : ∀ (ops : List (Op K V Q)) (sys : Sys K V Q), SysInv E sys →
    ContractAlongPure E R sys ops → ContractAlong E R sys ops
  | [], _, _, _ => trivial
  | op :: ops, sys, hs, h => by
    have h1 := contractOk_of_pure E hE hs h.1
    exact ⟨h1, of_pure hE ops _ (step_inv_contract E R hs op h1).2 h.2⟩

/-- the contract of a prefix and of the rest from the state the prefix reaches. -/
theorem contractAlong_append : ∀ (ops₁ ops₂ : List (Op K V Q)) (sys : Sys K V Q),
    ContractAlong E R sys (ops₁ ++ ops₂) ↔
      ContractAlong E R sys ops₁ ∧ ContractAlong E R (run E R sys ops₁).1 ops₂
  | [], _, _ => by simp [ContractAlong, run]
  | op :: ops₁, ops₂, sys => by
    have ih := contractAlong_append ops₁ ops₂ (step E R sys op).1
    show _ ∧ ContractAlong E R _ (ops₁ ++ ops₂) ↔
      (_ ∧ _) ∧ ContractAlong E R (run E R (step E R sys op).1 ops₁).1 ops₂
    rw [ih]
    exact and_assoc.symm

/-! ### `insert_unchecked` = `insert` at the level of `step` and `run` -/

theorem run_cons (sys : Sys K V Q) (op : Op K V Q) (ops : List (Op K V Q)) :
    run E R sys (op :: ops) =
      ((run E R (step E R sys op).1 ops).1, (step E R sys op).2 :: (run E R (step E R sys op).1 ops).2) := rfl

/-- replace every `insert_unchecked` by `insert`. -/
def toChecked : Op K V Q → Op K V Q
  | .map reg (.insert_unchecked k v) => .map reg (.insert k v)
  | .umap reg (.insert_unchecked k v) => .umap reg (.insert k v)
  | op => op

/-- inside the contract, or with `debug_assert!` compiled in, the two steps coincide. -/
theorem step_insert_unchecked_eq' {sys : Sys K V Q} (reg : Nat) (hs : Inv E (sys.maps reg)) (k : K) (v : V)
    (hc : InsertContract E (mapSt sys reg) k ∨ sys.w.profile = .debug) :
    step E R sys (.map reg (.insert_unchecked k v)) = step E R sys (.map reg (.insert k v)) := by
  have h : stepCore E R { sys with w := { sys.w with events := [] } } (.map reg (.insert_unchecked k v)) =
      stepCore E R { sys with w := { sys.w with events := [] } } (.map reg (.insert k v)) := by
    show runOnMap _ reg _ = runOnMap _ reg _
    unfold runOnMap
    have := stepMapOp_insert_unchecked_eq E R sys.maps (s := mapSt sys reg) hs.safe k v hc
    unfold mapSt at this
    simp only [this]
  unfold step
  simp only [h]
  rfl

/-- **One step.**  Inside the contract (register not full, or the scan finds the key) a step with
    `insert_unchecked(k, v)` IS the step with `insert(k, v)`: the same output record (outcome,
    returned old value, events, number of callbacks, touched registers) and the same next system
    state — for ANY `==`, any armed injection, either profile. -/
theorem step_insert_unchecked_eq {sys : Sys K V Q} (reg : Nat) (hs : Inv E (sys.maps reg)) (k : K) (v : V)
    (hc : InsertContract E (mapSt sys reg) k) :
    step E R sys (.map reg (.insert_unchecked k v)) = step E R sys (.map reg (.insert k v)) :=
  step_insert_unchecked_eq' E R reg hs k v (Or.inl hc)

/-- the same for the zero-sized-value shape `Map<K, (), N>` (set registers). -/
theorem step_insert_unchecked_eq_umap {sys : Sys K V Q} (reg : Nat) (hs : Inv E.toUnit (sys.sets reg)) (k : K)
    (v : Unit) (hc : InsertContract E.toUnit (setSt sys reg) k) :
    step E R sys (.umap reg (.insert_unchecked k v)) = step E R sys (.umap reg (.insert k v)) := by
  have h : stepCore E R { sys with w := { sys.w with events := [] } } (.umap reg (.insert_unchecked k v)) =
      stepCore E R { sys with w := { sys.w with events := [] } } (.umap reg (.insert k v)) := by
    simp only [stepCore]
    unfold runOnSet
    have := stepMapOp_insert_unchecked_eq E.toUnit R.toUnit sys.sets
      (s := ⟨sys.sets reg, World.toUnit { sys.w with events := [] }⟩) hs.safe k v (Or.inl hc)
    simp only [this]
  unfold step
  simp only [h]
  rfl

/-- one step of any operation that meets its contract equals the step of its checked form. -/
theorem step_toChecked_eq {sys : Sys K V Q} (hs : SysInv E sys) (op : Op K V Q)
    (hc : op.insertContractOk E sys) : step E R sys op = step E R sys (toChecked op) := by
  cases op with
  | map reg mop =>
    cases mop with
    | insert_unchecked k v => exact step_insert_unchecked_eq E R reg (hs.1 reg) k v hc
    | _ => rfl
  | umap reg mop =>
    cases mop with
    | insert_unchecked k v => exact step_insert_unchecked_eq_umap E R reg (hs.2 reg) k v hc
    | _ => rfl
  | _ => rfl

/-- **Histories.**  If every `insert_unchecked` of a history meets its contract in the state in
    which it is issued, the history produces exactly the outputs and the final system state of
    the history with `insert` in its place. -/
theorem run_toChecked_eq : ∀ (ops : List (Op K V Q)) (sys : Sys K V Q), SysInv E sys →
    InsertContractAlong E R sys ops → run E R sys ops = run E R sys (ops.map toChecked)
  | [], _, _, _ => rfl
  | op :: ops, sys, hs, hc => by
    have h1 := step_toChecked_eq E R hs op hc.1
    have h2 := run_toChecked_eq ops (step E R sys op).1 (step_inv_insertContract E R hs op hc.1).2 hc.2
    rw [List.map_cons, run_cons, run_cons (op := toChecked op), ← h1, h2]

/-- the checked form of a history goes through the safe API wherever the original did, and its
    `insert`s are safe: only `get_disjoint_unchecked_mut` calls remain outside `Op.safeApi`. -/
theorem toChecked_safe (op : Op K V Q) (h : ∀ reg g ks, op ≠ .map reg (.get_disjoint_mut true g ks))
    (h' : ∀ reg g ks, op ≠ .umap reg (.get_disjoint_mut true g ks)) : (toChecked op).safeApi = true := by
  cases op with
  | map reg mop =>
    cases mop with
    | get_disjoint_mut u g ks =>
      cases u with
      | true => exact absurd rfl (h reg g ks)
      | false => rfl
    | _ => rfl
  | umap reg mop =>
    cases mop with
    | get_disjoint_mut u g ks =>
      cases u with
      | true => exact absurd rfl (h' reg g ks)
      | false => rfl
    | _ => rfl
  | _ => rfl

end Micromap.UncheckedInv
