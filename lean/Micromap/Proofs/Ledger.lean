/-
Object conservation ("every key and value is at every moment in exactly one place") for the
owning operations of the dictionary API, as a multiset equation:

    objects stored before ⊎ objects passed in  =  objects stored after ⊎ objects handed back ⊎ objects dropped

per operation, and lifted to every history.  The multiset equation is stated through all
weightings `w : Obj → Nat` (`wsum w` is a monoid homomorphism from lists up to permutation; taking
`w` = the indicator of one object gives: the number of places that object is in never changes).  Benign world, time-independent `==` (`E.Pure`),
value type with drop glue (`E.vGlue = true`; for `V = ()` the value side is vacuous).
-/
import Micromap.Proofs.Refine
import Micromap.Proofs.Iters

namespace Micromap.Ledger
open Dict Refine
variable {K V Q : Type}

/-- the objects a list of pairs owns. -/
def pairObjs (l : List (K × V)) : List (Obj K V) := l.flatMap fun p => [.k p.1, .v p.2]

/-- the objects a trace destroys. -/
def droppedOf : List (Event K V Q) → List (Obj K V)
  | [] => []
  | .dropK k :: t => .k k :: droppedOf t
  | .dropV v :: t => .v v :: droppedOf t
  | _ :: t => droppedOf t

theorem droppedOf_append : ∀ (a b : List (Event K V Q)), droppedOf (a ++ b) = droppedOf a ++ droppedOf b
  | [], _ => rfl
  | e :: a, b => by
    cases e <;> simp [droppedOf, droppedOf_append a b]

theorem pairObjs_append (a b : List (K × V)) : pairObjs (a ++ b) = pairObjs a ++ pairObjs b := by
  simp [pairObjs, List.flatMap_append]

theorem pairObjs_cons (p : K × V) (l : List (K × V)) : pairObjs (p :: l) = [.k p.1, .v p.2] ++ pairObjs l := by
  simp [pairObjs, List.flatMap_cons]

theorem pairObjs_perm {a b : List (K × V)} (h : a.Perm b) : (pairObjs a).Perm (pairObjs b) :=
  List.Perm.flatMap_right _ h

theorem perm_cons_eraseIdx {α : Type} {l : List α} {i : Nat} (hi : i < l.length) :
    l.Perm (l[i] :: l.eraseIdx i) := by
  have h1 : l = l.take i ++ l[i] :: l.drop (i + 1) := by
    rw [List.getElem_cons_drop hi, List.take_append_drop]
  rw [List.eraseIdx_eq_take_drop_succ]
  conv => lhs; rw [h1]
  exact List.perm_middle

theorem set_perm_cons_eraseIdx {α : Type} {l : List α} {i : Nat} (hi : i < l.length) (x : α) :
    (l.set i x).Perm (x :: l.eraseIdx i) := by
  have h := perm_cons_eraseIdx (l := l.set i x) (i := i) (by simpa using hi)
  rw [List.eraseIdx_set_eq] at h
  simpa using h

variable (E : Env K V Q)

theorem droppedOf_dropVTr (hv : E.vGlue = true) (v : V) : droppedOf (dropVTr E v) = [.v v] := by
  simp [dropVTr, hv, droppedOf]

theorem droppedOf_dropTrace (hv : E.vGlue = true) : ∀ l : List (K × V),
    droppedOf (dropTrace E l) = pairObjs l
  | [] => rfl
  | p :: l => by
    have : dropTrace E (p :: l) = (Event.dropK p.1 :: dropVTr E p.2) ++ dropTrace E l := by
      simp [dropTrace, List.flatMap_cons]
    rw [this, droppedOf_append, droppedOf_dropTrace hv l, pairObjs_cons]
    simp [droppedOf, droppedOf_dropVTr E hv]

/-- the owning operations. -/
inductive LOp (K V Q : Type) where
  | insert (k : K) (v : V)
  | insert_key_value (k : K) (v : V)
  | checked_insert (k : K) (v : V)
  | get (pr : Probe K Q)
  | contains_key (pr : Probe K Q)
  | remove (pr : Probe K Q)
  | remove_entry (pr : Probe K Q)
  | clear
  | drain (take : Nat)          -- `take` items are handed to the caller, the `Drain` is dropped

/-- objects the caller passes in. -/
def LOp.inObjs : LOp K V Q → List (Obj K V)
  | .insert k v => [.k k, .v v]
  | .insert_key_value k v => [.k k, .v v]
  | .checked_insert k v => [.k k, .v v]
  | _ => []

/-- what one operation does: the list afterwards, the objects handed back (ownership, not
    references), the effects; or the overflow panic. -/
inductive LRes (K V Q : Type) where
  | ok (l' : List (K × V)) (back : List (Obj K V)) (tr : List (Event K V Q))
  | overflow (tr : List (Event K V Q))

/-- list-level semantics of the owning operations (what the triples of `MapApi.lean`,
    `Bulk.lean`, `Iters.lean` say in a benign pure world). -/
def lstep (cap : Nat) (l : List (K × V)) : LOp K V Q → LRes K V Q
  | .insert k v =>
    match findKey E l (.key k) with
    | some i =>
      match l[i]? with
      | some p => .ok (l.set i (p.1, v)) [.v p.2] [.dropK k]
      | none => .ok l [] []
    | none =>
      if l.length < cap then .ok (l ++ [(k, v)]) [] []
      else .overflow (dropVTr E v ++ [.dropK k])
  | .insert_key_value k v =>
    match findKey E l (.key k) with
    | some i =>
      match l[i]? with
      | some p => .ok (l.set i (k, v)) [.k p.1, .v p.2] []
      | none => .ok l [] []
    | none =>
      if l.length < cap then .ok (l ++ [(k, v)]) [] []
      else .overflow (dropVTr E v ++ [.dropK k])
  | .checked_insert k v =>
    match findKey E l (.key k) with
    | some i =>
      match l[i]? with
      | some p => .ok (l.set i (p.1, v)) [.v p.2] [.dropK k]
      | none => .ok l [] []
    | none =>
      if l.length < cap then .ok (l ++ [(k, v)]) [] []
      else .ok l [] (dropVTr E v ++ [.dropK k])
  | .get _ => .ok l [] []
  | .contains_key _ => .ok l [] []
  | .remove pr =>
    match findKey E l pr with
    | some i =>
      match l[i]? with
      | some p => .ok (swapRemove l i) [.v p.2] [.dropK p.1]
      | none => .ok l [] []
    | none => .ok l [] []
  | .remove_entry pr =>
    match findKey E l pr with
    | some i =>
      match l[i]? with
      | some p => .ok (swapRemove l i) [.k p.1, .v p.2] []
      | none => .ok l [] []
    | none => .ok l [] []
  | .clear => .ok [] [] (dropTrace E l)
  | .drain take => .ok [] (pairObjs (l.take take)) (dropTrace E (l.drop take))


/-! ### weighted counts: multiset equations that `omega` can do -/

def wsum (w : Obj K V → Nat) (l : List (Obj K V)) : Nat := (l.map w).sum

@[simp] theorem wsum_nil (w : Obj K V → Nat) : wsum w [] = 0 := rfl
@[simp] theorem wsum_cons (w : Obj K V → Nat) (x : Obj K V) (l : List (Obj K V)) :
    wsum w (x :: l) = w x + wsum w l := by simp [wsum]
@[simp] theorem wsum_append (w : Obj K V → Nat) (a b : List (Obj K V)) :
    wsum w (a ++ b) = wsum w a + wsum w b := by simp [wsum]

theorem wsum_perm (w : Obj K V → Nat) {a b : List (Obj K V)} (h : a.Perm b) : wsum w a = wsum w b := by
  induction h with
  | nil => rfl
  | cons x _ ih => simp [ih]
  | swap x y l => simp; omega
  | trans _ _ ih1 ih2 => exact ih1.trans ih2

/-- total weight of the objects a list of pairs owns. -/
def wpairs (w : Obj K V → Nat) (l : List (K × V)) : Nat := wsum w (pairObjs l)

@[simp] theorem wpairs_nil (w : Obj K V → Nat) : wpairs w ([] : List (K × V)) = 0 := rfl
@[simp] theorem wpairs_cons (w : Obj K V → Nat) (p : K × V) (l : List (K × V)) :
    wpairs w (p :: l) = w (.k p.1) + w (.v p.2) + wpairs w l := by
  simp [wpairs, pairObjs_cons]; omega
@[simp] theorem wpairs_append (w : Obj K V → Nat) (a b : List (K × V)) :
    wpairs w (a ++ b) = wpairs w a + wpairs w b := by simp [wpairs, pairObjs_append]

theorem wpairs_perm (w : Obj K V → Nat) {a b : List (K × V)} (h : a.Perm b) : wpairs w a = wpairs w b :=
  wsum_perm w (pairObjs_perm h)

theorem wpairs_eraseIdx (w : Obj K V → Nat) {l : List (K × V)} {i} (hi : i < l.length) :
    wpairs w l = w (.k l[i].1) + w (.v l[i].2) + wpairs w (l.eraseIdx i) := by
  rw [wpairs_perm w (perm_cons_eraseIdx hi), wpairs_cons]

theorem wpairs_set (w : Obj K V → Nat) {l : List (K × V)} {i} (hi : i < l.length) (x : K × V) :
    wpairs w (l.set i x) = w (.k x.1) + w (.v x.2) + wpairs w (l.eraseIdx i) := by
  rw [wpairs_perm w (set_perm_cons_eraseIdx hi x), wpairs_cons]

theorem wpairs_swapRemove (w : Obj K V → Nat) {l : List (K × V)} {i} (hi : i < l.length) :
    wpairs w (swapRemove l i) = wpairs w (l.eraseIdx i) :=
  wpairs_perm w (swapRemove_perm hi)

theorem wpairs_take_drop (w : Obj K V → Nat) (l : List (K × V)) (n : Nat) :
    wpairs w (l.take n) + wpairs w (l.drop n) = wpairs w l := by
  rw [← wpairs_append, List.take_append_drop]

/-- **Conservation, one operation** (list level): for every weighting of objects,
    stored + passed in = stored' + handed back + dropped; on an overflow panic the passed-in
    objects are exactly the dropped ones and the list is unchanged. -/
theorem lstep_conserves (hv : E.vGlue = true) (w : Obj K V → Nat) (cap : Nat) (l : List (K × V))
    (op : LOp K V Q) (hfind : ∀ pr i, findKey E l pr = some i → i < l.length) :
    match lstep E cap l op with
    | .ok l' back tr => wpairs w l + wsum w op.inObjs = wpairs w l' + wsum w back + wsum w (droppedOf tr)
    | .overflow tr => wsum w op.inObjs = wsum w (droppedOf tr) := by
  cases op with
  | insert k v =>
    simp only [lstep, LOp.inObjs]
    cases hf : findKey E l (.key k) with
    | some i =>
      have hi := hfind _ _ hf
      simp only [List.getElem?_eq_getElem hi, wpairs_set w hi, wpairs_eraseIdx w hi, droppedOf]
      simp; omega
    | none =>
      by_cases hroom : l.length < cap
      · simp [hroom, droppedOf]
      · simp [hroom, droppedOf_append, droppedOf_dropVTr E hv, droppedOf]; omega
  | insert_key_value k v =>
    simp only [lstep, LOp.inObjs]
    cases hf : findKey E l (.key k) with
    | some i =>
      have hi := hfind _ _ hf
      simp only [List.getElem?_eq_getElem hi, wpairs_set w hi, wpairs_eraseIdx w hi, droppedOf]
      simp; omega
    | none =>
      by_cases hroom : l.length < cap
      · simp [hroom, droppedOf]
      · simp [hroom, droppedOf_append, droppedOf_dropVTr E hv, droppedOf]; omega
  | checked_insert k v =>
    simp only [lstep, LOp.inObjs]
    cases hf : findKey E l (.key k) with
    | some i =>
      have hi := hfind _ _ hf
      simp only [List.getElem?_eq_getElem hi, wpairs_set w hi, wpairs_eraseIdx w hi, droppedOf]
      simp; omega
    | none =>
      by_cases hroom : l.length < cap
      · simp [hroom, droppedOf]
      · simp [hroom, droppedOf_append, droppedOf_dropVTr E hv, droppedOf]; omega
  | get pr => simp [lstep, LOp.inObjs, droppedOf]
  | contains_key pr => simp [lstep, LOp.inObjs, droppedOf]
  | remove pr =>
    simp only [lstep, LOp.inObjs]
    cases hf : findKey E l pr with
    | some i =>
      have hi := hfind _ _ hf
      simp only [List.getElem?_eq_getElem hi, wpairs_swapRemove w hi, wpairs_eraseIdx w hi, droppedOf]
      simp; omega
    | none => simp [droppedOf]
  | remove_entry pr =>
    simp only [lstep, LOp.inObjs]
    cases hf : findKey E l pr with
    | some i =>
      have hi := hfind _ _ hf
      simp only [List.getElem?_eq_getElem hi, wpairs_swapRemove w hi, wpairs_eraseIdx w hi, droppedOf]
      simp; omega
    | none => simp [droppedOf]
  | clear =>
    have h0 : wsum w (pairObjs ([] : List (K × V))) = 0 := rfl
    simp [lstep, LOp.inObjs, droppedOf_dropTrace E hv, wpairs, h0]
  | drain take =>
    have h0 : wsum w (pairObjs ([] : List (K × V))) = 0 := rfl
    simp only [lstep, LOp.inObjs, droppedOf_dropTrace E hv]
    have := wpairs_take_drop w l take
    simp [wpairs, h0] at this ⊢
    omega


/-! ### the model computes `lstep` -/

theorem findKey_lt {l : List (K × V)} {pr : Probe K Q} {i} (h : findKey E l pr = some i) : i < l.length :=
  (findFrom_some E h).2.2.1

/-- the operation on the slot machine, returning the objects whose ownership goes to the caller. -/
def lmrun : LOp K V Q → SM K V Q (List (Obj K V))
  | .insert k v => do
    match ← insert E k v with
    | some old => pure [.v old]
    | none => pure []
  | .insert_key_value k v => do
    match ← insert_key_value E k v with
    | some old => pure [.k old.1, .v old.2]
    | none => pure []
  | .checked_insert k v => do
    match ← checked_insert E k v with
    | some (some old) => pure [.v old]
    | _ => pure []
  | .get pr => do let _ ← get E pr; pure []
  | .contains_key pr => do let _ ← contains_key E pr; pure []
  | .remove pr => do
    match ← remove E pr with
    | some v => pure [.v v]
    | none => pure []
  | .remove_entry pr => do
    match ← remove_entry E pr with
    | some p => pure [.k p.1, .v p.2]
    | none => pure []
  | .clear => do clear E; pure []
  | .drain take => do
    let r ← drainOp E take false
    pure (pairObjs r.1)

/-- what `lrun_refines` promises. -/
def LStepOK (op : LOp K V Q) (s : St K V Q) (l : List (K × V)) : Prop :=
  match lstep E s.r.cap l op with
  | .ok l' back tr => ∃ s', lmrun E op s = .ok back s' ∧ Rep s'.r l' ∧ s'.r.cap = s.r.cap ∧ WRel s.w s'.w tr
  | .overflow tr => ∃ c s', lmrun E op s = .panic c s' ∧ s'.r = s.r ∧ WRel s.w s'.w tr

theorem lrun_refines (hE : E.Pure) (op : LOp K V Q) {s : St K V Q} {l : List (K × V)} (hr : Rep s.r l)
    (hb : Benign s.w) : LStepOK E op s l := by
  unfold LStepOK
  cases op with
  | insert k v =>
    simp only [lstep]
    rcases outcome (insert_sat E hr k v) with ⟨a, s', hm, hc, hq⟩ | ⟨c, s', hm, _, hq⟩
    · rcases hq with ⟨j, hj, ha, hrep, hw, hfj⟩ | ⟨ha, hroom, hrep, hw, hfn⟩
      · simp only [hfj hE, List.getElem?_eq_getElem hj]
        subst ha
        exact ⟨s', by simp [lmrun, hm], hrep, hc, hw⟩
      · simp only [hfn hE, hroom, if_true]
        subst ha
        exact ⟨s', by simp [lmrun, hm], hrep, hc, hw⟩
    · rcases hq with ⟨hi', _⟩ | ⟨hs, _, hfull, hfn, hw⟩
      · exact (no_inj hb hi').elim
      · have : ¬ l.length < s.r.cap := by omega
        simp only [hfn hE, this, if_false]
        exact ⟨c, s', by simp [lmrun, hm], hs, hw⟩
  | insert_key_value k v =>
    simp only [lstep]
    rcases outcome (insert_key_value_sat E hr k v) with ⟨a, s', hm, hc, hw, hq⟩ | ⟨c, s', hm, hs, hq⟩
    · rcases hq with ⟨j, hj, ha, hrep, hfj⟩ | ⟨ha, hroom, hrep, hfn⟩
      · simp only [hfj hE, List.getElem?_eq_getElem hj]
        subst ha
        exact ⟨s', by simp [lmrun, hm], hrep, hc, hw⟩
      · simp only [hfn hE, hroom, if_true]
        subst ha
        exact ⟨s', by simp [lmrun, hm], hrep, hc, hw⟩
    · rcases hq with hi' | ⟨_, hfull, hfn, hw⟩
      · exact (no_inj hb hi').elim
      · have : ¬ l.length < s.r.cap := by omega
        simp only [hfn hE, this, if_false]
        exact ⟨c, s', by simp [lmrun, hm], hs, hw⟩
  | checked_insert k v =>
    simp only [lstep]
    rcases outcome (checked_insert_sat E hr k v) with ⟨a, s', hm, hc, hq⟩ | ⟨c, s', _, _, hi', _⟩
    · rcases hq with ⟨j, hj, ha, hrep, hw, hfj⟩ | ⟨ha, hroom, hrep, hw, hfn⟩ | ⟨ha, hfull, hs, hw, hfn⟩
      · simp only [hfj hE, List.getElem?_eq_getElem hj]
        subst ha
        exact ⟨s', by simp [lmrun, hm], hrep, hc, hw⟩
      · simp only [hfn hE, hroom, if_true]
        subst ha
        exact ⟨s', by simp [lmrun, hm], hrep, hc, hw⟩
      · have : ¬ l.length < s.r.cap := by omega
        simp only [hfn hE, this, if_false]
        subst ha
        exact ⟨s', by simp [lmrun, hm], hs ▸ hr, hc, hw⟩
    · exact (no_inj hb hi').elim
  | get pr =>
    simp only [lstep]
    rcases outcome (get_sat E hr pr) with ⟨o, s', hm, hs, hw, _⟩ | ⟨c, s', _, _, hi'⟩
    · exact ⟨s', by simp [lmrun, hm], hs ▸ hr, by rw [hs], hw⟩
    · exact (no_inj hb hi').elim
  | contains_key pr =>
    simp only [lstep]
    rcases outcome (contains_key_cb E hr pr) with ⟨o, s', hm, hs, hw, _⟩ | ⟨c, s', _, _, hi'⟩
    · exact ⟨s', by simp [lmrun, hm], hs ▸ hr, by rw [hs], hw⟩
    · exact (no_inj hb hi').elim
  | remove pr =>
    simp only [lstep]
    rcases outcome (remove_sat E hr pr) with ⟨o, s', hm, hc, ho, hfo⟩ | ⟨c, s', _, _, hi', _⟩
    · rcases ho with ⟨hon, hs, hw⟩ | ⟨j, hj, hoj, hrep, hw, hfj⟩
      · have hfn : findKey E l pr = none := by
          have := hfo hE; rw [hon] at this
          cases hf : findKey E l pr with
          | none => rfl
          | some x => rw [hf] at this; simp at this
        simp only [hfn]
        subst hon
        exact ⟨s', by simp [lmrun, hm], hs ▸ hr, hc, hw⟩
      · simp only [hfj hE, List.getElem?_eq_getElem hj]
        subst hoj
        exact ⟨s', by simp [lmrun, hm], hrep, hc, hw⟩
    · exact (no_inj hb hi').elim
  | remove_entry pr =>
    simp only [lstep]
    rcases outcome (remove_entry_sat E hr pr) with ⟨o, s', hm, hc, hw, ho, hfo⟩ | ⟨c, s', _, _, hi'⟩
    · rcases ho with ⟨hon, hs⟩ | ⟨j, hj, hoj, hrep, hfj⟩
      · have hfn : findKey E l pr = none := by
          have := hfo hE; rw [hon] at this
          cases hf : findKey E l pr with
          | none => rfl
          | some x => rw [hf] at this; simp at this
        simp only [hfn]
        subst hon
        exact ⟨s', by simp [lmrun, hm], hs ▸ hr, hc, hw⟩
      · simp only [hfj hE, List.getElem?_eq_getElem hj]
        subst hoj
        exact ⟨s', by simp [lmrun, hm], hrep, hc, hw⟩
    · exact (no_inj hb hi').elim
  | clear =>
    simp only [lstep]
    rcases outcome (clear_sat E hr) with ⟨_, s', hm, hrep, hc, hw⟩ | ⟨c, s', _, _, _, hi'⟩
    · exact ⟨s', by simp [lmrun, hm], hrep, hc, hw⟩
    · exact (no_inj hb hi').elim
  | drain take =>
    simp only [lstep]
    rcases outcome (Iters.drainOp_sat E take false hr) with ⟨res, s', hm, hres, hrep, hc, hw⟩ | ⟨c, s', _, _, _, hi', _⟩
    · subst hres
      exact ⟨s', by simp [lmrun, hm], hrep, hc, by simpa using hw⟩
    · exact (no_inj hb hi').elim

/-! ### histories -/

/-- list-level history: the final list, everything passed in, everything handed back, all effects. -/
def lhist (cap : Nat) : List (LOp K V Q) → List (K × V) →
    List (K × V) × List (Obj K V) × List (Obj K V) × List (Event K V Q)
  | [], l => (l, [], [], [])
  | op :: ops, l =>
    match lstep E cap l op with
    | .ok l' back tr =>
      let r := lhist cap ops l'
      (r.1, op.inObjs ++ r.2.1, back ++ r.2.2.1, tr ++ r.2.2.2)
    | .overflow tr =>
      let r := lhist cap ops l
      (r.1, op.inObjs ++ r.2.1, r.2.2.1, tr ++ r.2.2.2)

/-- **Conservation over a whole history** (list level). -/
theorem lhist_conserves (hv : E.vGlue = true) (w : Obj K V → Nat) (cap : Nat) :
    ∀ (ops : List (LOp K V Q)) (l : List (K × V)),
      wpairs w l + wsum w (lhist E cap ops l).2.1 =
        wpairs w (lhist E cap ops l).1 + wsum w (lhist E cap ops l).2.2.1 +
          wsum w (droppedOf (lhist E cap ops l).2.2.2)
  | [], l => by simp [lhist, droppedOf]
  | op :: ops, l => by
    have h := lstep_conserves E hv w cap l op (fun pr i hf => findKey_lt E hf)
    unfold lhist
    cases hs : lstep E cap l op with
    | ok l' back tr =>
      rw [hs] at h
      have ih := lhist_conserves hv w cap ops l'
      simp only [wsum_append, droppedOf_append] at h ih ⊢
      omega
    | overflow tr =>
      rw [hs] at h
      have ih := lhist_conserves hv w cap ops l
      simp only [wsum_append, droppedOf_append] at h ih ⊢
      omega

/-- the history on the slot machine: final state and the objects handed back; a step that ends in
    the container's own panic leaves the state as it is and the history goes on. -/
def lmhist : List (LOp K V Q) → St K V Q → Option (St K V Q × List (Obj K V))
  | [], s => some (s, [])
  | op :: ops, s =>
    match lmrun E op s with
    | .ok back s' => (lmhist ops s').map fun r => (r.1, back ++ r.2)
    | .panic _ s' => lmhist ops s'
    | .ub => none

theorem lmhist_refines (hE : E.Pure) : ∀ (ops : List (LOp K V Q)) (s : St K V Q) (l : List (K × V)),
    Rep s.r l → Benign s.w →
    ∃ sf, lmhist E ops s = some (sf, (lhist E s.r.cap ops l).2.2.1) ∧ Rep sf.r (lhist E s.r.cap ops l).1 ∧
      sf.r.cap = s.r.cap ∧ WRel s.w sf.w (lhist E s.r.cap ops l).2.2.2
  | [], s, l, hr, _ => ⟨s, rfl, hr, rfl, WRel.refl _⟩
  | op :: ops, s, l, hr, hb => by
    have h := lrun_refines E hE op hr hb
    unfold LStepOK at h
    unfold lhist lmhist
    cases hs : lstep E s.r.cap l op with
    | ok l' back tr =>
      rw [hs] at h
      obtain ⟨s', hm, hrep, hc, hw⟩ := h
      obtain ⟨sf, h1, h2, h3, h4⟩ := lmhist_refines hE ops s' l' hrep (hw.benign hb)
      rw [hc] at h1 h2 h4
      exact ⟨sf, by simp [hm, h1], h2, h3.trans hc, hw.trans h4⟩
    | overflow tr =>
      rw [hs] at h
      obtain ⟨c, s', hm, hsr, hw⟩ := h
      obtain ⟨sf, h1, h2, h3, h4⟩ := lmhist_refines hE ops s' l (hsr ▸ hr) (hw.benign hb)
      rw [hsr] at h1 h2 h3 h4
      exact ⟨sf, by simp [hm, h1], h2, h3, hw.trans h4⟩


/-- everything the caller passed in during a history. -/
theorem lhist_in (cap : Nat) : ∀ (ops : List (LOp K V Q)) (l : List (K × V)),
    (lhist E cap ops l).2.1 = ops.flatMap LOp.inObjs
  | [], _ => rfl
  | op :: ops, l => by
    unfold lhist
    cases lstep E cap l op with
    | ok l' back tr => simp [lhist_in cap ops l', List.flatMap_cons]
    | overflow tr => simp [lhist_in cap ops l, List.flatMap_cons]


/-! ### conservation under ANY user equality

Which branch an operation takes depends on what `==` answers; conservation does not.  No
hypothesis on `E` besides drop glue for values. -/

/-- one step, any oracle: the step returns or raises the container's overflow panic; either way
    stored + passed in = stored' + handed back + dropped. -/
def StepConserves (w : Obj K V → Nat) (op : LOp K V Q) (s : St K V Q) (l : List (K × V)) : Prop :=
  (∃ back s' l' tr, lmrun E op s = .ok back s' ∧ Rep s'.r l' ∧ s'.r.cap = s.r.cap ∧ WRel s.w s'.w tr ∧
      wpairs w l + wsum w op.inObjs = wpairs w l' + wsum w back + wsum w (droppedOf tr)) ∨
  (∃ c s' tr, lmrun E op s = .panic c s' ∧ s'.r = s.r ∧ WRel s.w s'.w tr ∧
      wsum w op.inObjs = wsum w (droppedOf tr))

theorem lrun_conserves (hv : E.vGlue = true) (w : Obj K V → Nat) (op : LOp K V Q) {s : St K V Q}
    {l : List (K × V)} (hr : Rep s.r l) (hb : Benign s.w) : StepConserves E w op s l := by
  unfold StepConserves
  cases op with
  | insert k v =>
    rcases outcome (insert_sat E hr k v) with ⟨a, s', hm, hc, hq⟩ | ⟨c, s', hm, _, hq⟩
    · rcases hq with ⟨j, hj, ha, hrep, hw, _⟩ | ⟨ha, _, hrep, hw, _⟩
      · subst ha
        refine Or.inl ⟨[Obj.v l[j].2], s', _, _, by simp [lmrun, hm], hrep, hc, hw, ?_⟩
        simp [LOp.inObjs, wpairs_set w hj, wpairs_eraseIdx w hj, droppedOf]; omega
      · subst ha
        refine Or.inl ⟨[], s', _, _, by simp [lmrun, hm], hrep, hc, hw, ?_⟩
        simp [LOp.inObjs, droppedOf]
    · rcases hq with ⟨hi', _⟩ | ⟨hs, _, _, _, hw⟩
      · exact (no_inj hb hi').elim
      · refine Or.inr ⟨c, s', _, by simp [lmrun, hm], hs, hw, ?_⟩
        simp [LOp.inObjs, droppedOf_append, droppedOf_dropVTr E hv, droppedOf]; omega
  | insert_key_value k v =>
    rcases outcome (insert_key_value_sat E hr k v) with ⟨a, s', hm, hc, hw, hq⟩ | ⟨c, s', hm, hs, hq⟩
    · rcases hq with ⟨j, hj, ha, hrep, _⟩ | ⟨ha, _, hrep, _⟩
      · subst ha
        refine Or.inl ⟨[Obj.k l[j].1, Obj.v l[j].2], s', _, _, by simp [lmrun, hm], hrep, hc, hw, ?_⟩
        simp [LOp.inObjs, wpairs_set w hj, wpairs_eraseIdx w hj, droppedOf]; omega
      · subst ha
        refine Or.inl ⟨[], s', _, _, by simp [lmrun, hm], hrep, hc, hw, ?_⟩
        simp [LOp.inObjs, droppedOf]
    · rcases hq with hi' | ⟨_, _, _, hw⟩
      · exact (no_inj hb hi').elim
      · refine Or.inr ⟨c, s', _, by simp [lmrun, hm], hs, hw, ?_⟩
        simp [LOp.inObjs, droppedOf_append, droppedOf_dropVTr E hv, droppedOf]; omega
  | checked_insert k v =>
    rcases outcome (checked_insert_sat E hr k v) with ⟨a, s', hm, hc, hq⟩ | ⟨c, s', _, _, hi', _⟩
    · rcases hq with ⟨j, hj, ha, hrep, hw, _⟩ | ⟨ha, _, hrep, hw, _⟩ | ⟨ha, _, hs, hw, _⟩
      · subst ha
        refine Or.inl ⟨[Obj.v l[j].2], s', _, _, by simp [lmrun, hm], hrep, hc, hw, ?_⟩
        simp [LOp.inObjs, wpairs_set w hj, wpairs_eraseIdx w hj, droppedOf]; omega
      · subst ha
        refine Or.inl ⟨[], s', _, _, by simp [lmrun, hm], hrep, hc, hw, ?_⟩
        simp [LOp.inObjs, droppedOf]
      · subst ha
        refine Or.inl ⟨[], s', l, _, by simp [lmrun, hm], hs ▸ hr, hc, hw, ?_⟩
        simp [LOp.inObjs, droppedOf_append, droppedOf_dropVTr E hv, droppedOf]; omega
    · exact (no_inj hb hi').elim
  | get pr =>
    rcases outcome (get_sat E hr pr) with ⟨o, s', hm, hs, hw, _⟩ | ⟨c, s', _, _, hi'⟩
    · exact Or.inl ⟨[], s', l, _, by simp [lmrun, hm], hs ▸ hr, by rw [hs], hw, by simp [LOp.inObjs, droppedOf]⟩
    · exact (no_inj hb hi').elim
  | contains_key pr =>
    rcases outcome (contains_key_cb E hr pr) with ⟨o, s', hm, hs, hw, _⟩ | ⟨c, s', _, _, hi'⟩
    · exact Or.inl ⟨[], s', l, _, by simp [lmrun, hm], hs ▸ hr, by rw [hs], hw, by simp [LOp.inObjs, droppedOf]⟩
    · exact (no_inj hb hi').elim
  | remove pr =>
    rcases outcome (remove_sat E hr pr) with ⟨o, s', hm, hc, ho, _⟩ | ⟨c, s', _, _, hi', _⟩
    · rcases ho with ⟨hon, hs, hw⟩ | ⟨j, hj, hoj, hrep, hw, _⟩
      · subst hon
        exact Or.inl ⟨[], s', l, _, by simp [lmrun, hm], hs ▸ hr, hc, hw, by simp [LOp.inObjs, droppedOf]⟩
      · subst hoj
        refine Or.inl ⟨[Obj.v l[j].2], s', _, _, by simp [lmrun, hm], hrep, hc, hw, ?_⟩
        simp [LOp.inObjs, wpairs_swapRemove w hj, wpairs_eraseIdx w hj, droppedOf]; omega
    · exact (no_inj hb hi').elim
  | remove_entry pr =>
    rcases outcome (remove_entry_sat E hr pr) with ⟨o, s', hm, hc, hw, ho, _⟩ | ⟨c, s', _, _, hi'⟩
    · rcases ho with ⟨hon, hs⟩ | ⟨j, hj, hoj, hrep, _⟩
      · subst hon
        exact Or.inl ⟨[], s', l, _, by simp [lmrun, hm], hs ▸ hr, hc, hw, by simp [LOp.inObjs, droppedOf]⟩
      · subst hoj
        refine Or.inl ⟨[Obj.k l[j].1, Obj.v l[j].2], s', _, _, by simp [lmrun, hm], hrep, hc, hw, ?_⟩
        simp [LOp.inObjs, wpairs_swapRemove w hj, wpairs_eraseIdx w hj, droppedOf]; omega
    · exact (no_inj hb hi').elim
  | clear =>
    rcases outcome (clear_sat E hr) with ⟨_, s', hm, hrep, hc, hw⟩ | ⟨c, s', _, _, _, hi'⟩
    · refine Or.inl ⟨[], s', _, _, by simp [lmrun, hm], hrep, hc, hw, ?_⟩
      have h0 : wsum w (pairObjs ([] : List (K × V))) = 0 := rfl
      simp [LOp.inObjs, droppedOf_dropTrace E hv, wpairs, h0]
    · exact (no_inj hb hi').elim
  | drain take =>
    rcases outcome (Iters.drainOp_sat E take false hr) with ⟨res, s', hm, hres, hrep, hc, hw⟩ | ⟨c, s', _, _, _, hi', _⟩
    · subst hres
      refine Or.inl ⟨pairObjs (l.take take), s', _, _, by simp [lmrun, hm], hrep, hc, (by simpa using hw), ?_⟩
      have h0 : wsum w (pairObjs ([] : List (K × V))) = 0 := rfl
      have := wpairs_take_drop w l take
      simp [LOp.inObjs, droppedOf_dropTrace E hv, wpairs, h0] at this ⊢
      omega
    · exact (no_inj hb hi').elim

/-- **Conservation over every history, under any user equality.** -/
theorem lmhist_conserves (hv : E.vGlue = true) (w : Obj K V → Nat) :
    ∀ (ops : List (LOp K V Q)) (s : St K V Q) (l : List (K × V)), Rep s.r l → Benign s.w →
    ∃ sf back tr lf, lmhist E ops s = some (sf, back) ∧ Rep sf.r lf ∧ sf.r.cap = s.r.cap ∧
      WRel s.w sf.w tr ∧
      wpairs w l + wsum w (ops.flatMap LOp.inObjs) = wpairs w lf + wsum w back + wsum w (droppedOf tr)
  | [], s, l, hr, _ => ⟨s, [], [], l, rfl, hr, rfl, WRel.refl _, by simp [droppedOf]⟩
  | op :: ops, s, l, hr, hb => by
    unfold lmhist
    rcases lrun_conserves E hv w op hr hb with ⟨back, s', l', tr, hm, hrep, hc, hw, heq⟩ | ⟨c, s', tr, hm, hs, hw, heq⟩
    · obtain ⟨sf, b2, t2, lf, h1, h2, h3, h4, h5⟩ := lmhist_conserves hv w ops s' l' hrep (hw.benign hb)
      refine ⟨sf, back ++ b2, tr ++ t2, lf, by simp [hm, h1], h2, h3.trans hc, hw.trans h4, ?_⟩
      simp only [List.flatMap_cons, wsum_append, droppedOf_append] at heq h5 ⊢
      omega
    · obtain ⟨sf, b2, t2, lf, h1, h2, h3, h4, h5⟩ := lmhist_conserves hv w ops s' l (hs ▸ hr) (hw.benign hb)
      refine ⟨sf, b2, tr ++ t2, lf, by simp [hm, h1], h2, by rw [h3, hs], hw.trans h4, ?_⟩
      simp only [List.flatMap_cons, wsum_append, droppedOf_append] at heq h5 ⊢
      omega

end Micromap.Ledger
