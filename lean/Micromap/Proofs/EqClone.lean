/-
Triples of `eq.rs` (`eqLoop`, `mapEq`) and `clone.rs` (`clonePair`, `cloneLoop`, `cloneInto`).
-/
import Micromap.Proofs.Bulk
import Micromap.Proofs.Bridge
import Micromap.Proofs.SetAlgLaws

namespace Micromap.EqClone
open Micromap SetAlg Dict
variable {K V Q : Type} (E : Env K V Q)

/-- value equality as `Map::eq` asks it: the user's `==` when `V` has one, constantly `true`
    for `V = ()` (sets). -/
def veq (x y : V) : Bool := if E.vGlue then E.eqV x y else true

/-! ### the scan's answer read as a list-level lookup -/

theorem lookupL_eq_lookupP (l : List (K × V)) (k : K) :
    lookupL E.keq l k = (lookupP (E.hitP (.key k : Probe K Q)) l).map (·.2) := rfl

theorem lookupL_of_findKey_some {l : List (K × V)} {k : K} {j}
    (h : findKey E l (.key k) = some j) :
    ∃ hj : j < l.length, lookupL E.keq l k = some l[j].2 := by
  rw [findKey_eq_findIdxP] at h
  obtain ⟨hj, hl, _⟩ := lookupP_eq_of_findIdxP h
  refine ⟨hj, ?_⟩
  rw [lookupL_eq_lookupP (Q := Q), hl]; rfl

theorem lookupL_of_findKey_none {l : List (K × V)} {k : K}
    (h : findKey E l (.key k) = none) : lookupL E.keq l k = none := by
  rw [findKey_eq_findIdxP, ← lookupP_none_iff] at h
  rw [lookupL_eq_lookupP (Q := Q), h]; rfl

/-- the per-entry test of `Map::eq`: `other.get(k) == Some(v)`. -/
def entryOk (lb : List (K × V)) (p : K × V) : Bool :=
  match lookupL E.keq lb p.1 with
  | some v => veq E v p.2
  | none => false

theorem itemRefR_ok {r : Raw K V} {l} (hr : Rep r l) {i} (hi : i < l.length) (s : St K V Q) :
    itemRefR r i s = .ok l[i] s := by
  unfold itemRefR
  simp [hr.cap_lt hi, hr.slot hi]

/-- `eqLoop`: framed, effect-free; under a pure oracle it computes the `all` of `mapEqCode`. -/
theorem eqLoop_cb {a b : Raw K V} {la lb : List (K × V)} (ha : Rep a la) (hb : Rep b lb) :
    ∀ n i, i + n = la.length →
    CbOk (eqLoop E a b n i) (fun _ => [])
      (fun _ r => E.Pure → r = (la.drop i).all (entryOk E lb))
  | 0, i, h => by
    intro s
    have : la.drop i = [] := List.drop_eq_nil_of_le (by omega)
    exact Sat.pure ⟨rfl, WRel.refl _, fun _ => by simp [this]⟩
  | n + 1, i, h => by
    intro s
    have hlt : i < la.length := by omega
    unfold eqLoop
    refine Sat.bind (Q₁ := fun p s' => p = la[i] ∧ s = s') (Sat.of_ok (itemRefR_ok ha hlt s) ⟨rfl, rfl⟩) ?_
    rintro _ _ ⟨rfl, rfl⟩
    refine Sat.cb (scanR_cb E hb (.key la[i].1)) ?_ ?_
    · intro o s1 h1 h2 ⟨h3, h4⟩
      cases o with
      | none =>
        refine Sat.pure ⟨h1, h2, fun hp => ?_⟩
        have := lookupL_of_findKey_none E (h4 hp).symm
        rw [List.drop_eq_getElem_cons hlt, List.all_cons]
        simp only [entryOk, this, Bool.false_and]
      | some j =>
        have hj := h3 j rfl
        simp only
        refine Sat.bind (Q₁ := fun p s' => p = lb[j] ∧ s1 = s')
          (Sat.of_ok (itemRefR_ok hb hj s1) ⟨rfl, rfl⟩) ?_
        rintro _ _ ⟨rfl, rfl⟩
        refine Sat.cb (eqV_cb E lb[j].2 la[i].2) ?_ ?_
        · intro r s2 g1 g2 g3
          have hentry : E.Pure → entryOk E lb la[i] = r := by
            intro hp
            obtain ⟨_, hl⟩ := lookupL_of_findKey_some E (h4 hp).symm
            simp only [entryOk, hl, veq]
            exact g3.symm
          cases r with
          | true =>
            simp only [if_true]
            refine Sat.mono (eqLoop_cb ha hb n (i + 1) (by omega) s2) ?_ ?_
            · intro r' s3 ⟨k1, k2, k3⟩
              refine ⟨k1.trans (g1.trans h1), by simpa using (h2.trans g2).trans k2, fun hp => ?_⟩
              rw [List.drop_eq_getElem_cons hlt, List.all_cons, hentry hp, k3 hp]
              rfl
            · intro c s3 ⟨k1, k2, k3, k4, tr', k5⟩
              subst k2
              exact cb_panic_after (g1.trans h1) (h2.trans g2) k1 k3 k4 k5
          | false =>
            simp only [Bool.false_eq_true, if_false]
            refine Sat.pure ⟨g1.trans h1, by simpa using h2.trans g2, fun hp => ?_⟩
            rw [List.drop_eq_getElem_cons hlt, List.all_cons, hentry hp]
            rfl
        · intro s2 tr' g1 g2 g3 g4
          exact cb_panic_after h1 h2 g1 g2 g3 g4
    · intro s' tr' h1 h2 h3 h4
      exact ⟨h1, rfl, h2, h3, tr', h4⟩

/-- `Map::eq`: framed, effect-free, unwinds only by injection; under a pure oracle it is
    `mapEqCode` of the two represented lists. -/
theorem mapEq_cb {a b : Raw K V} {la lb : List (K × V)} (ha : Rep a la) (hb : Rep b lb) :
    CbOk (mapEq E a b) (fun _ => [])
      (fun _ r => E.Pure → r = mapEqCode E.keq (veq E) la lb) := by
  intro s
  unfold mapEq
  by_cases hlen : la.length = lb.length
  · have h1 : (a.len == b.len) = true := by rw [ha.1, hb.1]; simpa using hlen
    have h2 : a.len ≤ a.cap := ha.1 ▸ ha.2.1
    simp only [h1, h2, if_true]
    rw [ha.1]
    refine Sat.mono (eqLoop_cb E ha hb la.length 0 (by omega) s) ?_ (fun _ _ h => h)
    intro r s' ⟨g1, g2, g3⟩
    refine ⟨g1, g2, fun hp => ?_⟩
    rw [g3 hp]
    unfold mapEqCode
    simp only [List.drop_zero, hlen, beq_self_eq_true, Bool.true_and]
    rfl
  · have h1 : (a.len == b.len) = false := by rw [ha.1, hb.1]; simpa using hlen
    simp only [h1, Bool.false_eq_true, if_false]
    refine Sat.pure ⟨rfl, WRel.refl _, fun _ => ?_⟩
    unfold mapEqCode
    have : (la.length == lb.length) = false := by simpa using hlen
    rw [this]; rfl

/-! ### `clone.rs` -/

/-- `K::clone`: one `cloneK src dst` effect; the result is what the user's `clone` makes of
    `src` (at some value of the fresh-object counter). -/
theorem cloneK_cb (k : K) :
    CbOk (cloneK E k) (fun k' => [.cloneK k k']) (fun _ k' => ∃ n, k' = E.clK n k) := by
  intro s
  unfold cloneK
  refine Sat.cb tick_cb ?_ ?_
  · intro _ s1 h1 h2 _
    refine Sat.getS_bind ?_
    refine Sat.bind (Sat.setS (Q := fun _ s' => s' = { s1 with w := { s1.w with nextId := s1.w.nextId + 1 } }) rfl) ?_
    rintro _ _ rfl
    have hmid : WRel s1.w { s1.w with nextId := s1.w.nextId + 1 } [] :=
      ⟨rfl, rfl, id, by simp [World.trace]⟩
    refine Sat.cb (logE_cb _) ?_ ?_
    · intro _ s2 g1 g2 _
      refine Sat.pure ⟨g1.trans h1, ?_, _, rfl⟩
      have := (h2.trans hmid).trans g2
      simpa [Event.isEff] using this
    · intro s2 tr' g1 g2 g3 g4
      exact cb_panic_after (s1 := { s1 with w := { s1.w with nextId := s1.w.nextId + 1 } })
        h1 (h2.trans hmid) g1 g2 g3 g4
  · intro s' tr' h1 h2 h3 h4
    exact ⟨h1, rfl, h2, h3, tr', h4⟩

/-- the effect of cloning a value: nothing for `V = ()`. -/
def cloneVTr (v v' : V) : List (Event K V Q) := if E.vGlue then [.cloneV v v'] else []

/-- `v'` is what `V::clone` returns for `v` (`v` itself for `V = ()`). -/
def IsCloneV (v v' : V) : Prop := if E.vGlue then ∃ n, v' = E.clV n v else v' = v

/-- `V::clone`: one `cloneV src dst` effect (nothing for `V = ()`). -/
theorem cloneV_cb (v : V) :
    CbOk (cloneV E v) (fun v' => cloneVTr E v v') (fun _ v' => IsCloneV E v v') := by
  unfold cloneV cloneVTr IsCloneV
  split
  · intro s
    refine Sat.cb tick_cb ?_ ?_
    · intro _ s1 h1 h2 _
      refine Sat.getS_bind ?_
      refine Sat.bind (Sat.setS (Q := fun _ s' => s' = { s1 with w := { s1.w with nextId := s1.w.nextId + 1 } }) rfl) ?_
      rintro _ _ rfl
      have hmid : WRel s1.w { s1.w with nextId := s1.w.nextId + 1 } [] :=
        ⟨rfl, rfl, id, by simp [World.trace]⟩
      refine Sat.cb (logE_cb _) ?_ ?_
      · intro _ s2 g1 g2 _
        refine Sat.pure ⟨g1.trans h1, ?_, _, rfl⟩
        have := (h2.trans hmid).trans g2
        simpa [Event.isEff] using this
      · intro s2 tr' g1 g2 g3 g4
        exact cb_panic_after (s1 := { s1 with w := { s1.w with nextId := s1.w.nextId + 1 } })
          h1 (h2.trans hmid) g1 g2 g3 g4
    · intro s' tr' h1 h2 h3 h4
      exact ⟨h1, rfl, h2, h3, tr', h4⟩
  · exact (CbOk.pure v).mono (fun _ => rfl) (fun _ _ h => h)

/-- `p'` is a clone of the pair `p`: key cloned by the user's `K::clone`, value by `V::clone`. -/
def IsCloneOf (p p' : K × V) : Prop := (∃ n, p'.1 = E.clK n p.1) ∧ IsCloneV E p.2 p'.2

/-- the effects of cloning one pair: the key, then the value. -/
def clonePairTr (p p' : K × V) : List (Event K V Q) := .cloneK p.1 p'.1 :: cloneVTr E p.2 p'.2

/-- `(K, V)::clone`: one key clone then one value clone; if the value's clone unwinds the fresh
    key is dropped (so the triple is still that of a callback). -/
theorem clonePair_cb (p : K × V) :
    CbOk (clonePair E p) (fun p' => clonePairTr E p p') (fun _ p' => IsCloneOf E p p') := by
  intro s
  unfold clonePair
  refine Sat.cb (cloneK_cb E p.1) ?_ ?_
  · intro k' s1 h1 h2 h3
    refine Sat.cb (CbOk.unwindWith (dropK_cb k') (cloneV_cb E p.2)) ?_ ?_
    · intro v' s2 g1 g2 g3
      exact Sat.pure ⟨g1.trans h1, by simpa [clonePairTr] using h2.trans g2, h3, g3⟩
    · intro s2 tr' g1 g2 g3 g4
      exact cb_panic_after h1 h2 g1 g2 g3 g4
  · intro s' tr' h1 h2 h3 h4
    exact ⟨h1, rfl, h2, h3, tr', h4⟩

/-- `l'` is an element-wise clone of `l`. -/
def ClonesOf : List (K × V) → List (K × V) → Prop
  | [], [] => True
  | p :: l, p' :: l' => IsCloneOf E p p' ∧ ClonesOf l l'
  | _, _ => False

/-- the effects of cloning `l` into `l'` slot by slot: per entry one `cloneK src dst`, then
    (when `V` is not `()`) one `cloneV src dst`. -/
def cloneTrace (l l' : List (K × V)) : List (Event K V Q) :=
  (l.zip l').flatMap fun pp => clonePairTr E pp.1 pp.2

theorem cloneTrace_cons (p p' : K × V) (l l' : List (K × V)) :
    cloneTrace E (p :: l) (p' :: l') = clonePairTr E p p' ++ cloneTrace E l l' := by
  simp [cloneTrace]

theorem ClonesOf.length_eq {E : Env K V Q} : ∀ {l l' : List (K × V)}, ClonesOf E l l' → l'.length = l.length
  | [], [], _ => rfl
  | _ :: l, _ :: l', h => by simp [ClonesOf.length_eq (l := l) (l' := l') h.2]
  | [], _ :: _, h => h.elim
  | _ :: _, [], h => h.elim

theorem ClonesOf.get {E : Env K V Q} : ∀ {l l' : List (K × V)}, ClonesOf E l l' →
    ∀ i (h : i < l.length) (h' : i < l'.length), IsCloneOf E l[i] l'[i]
  | [], [], _, i, h, _ => by simp at h
  | p :: l, p' :: l', hc, 0, _, _ => hc.1
  | p :: l, p' :: l', hc, i + 1, h, h' => by
    simpa using ClonesOf.get (l := l) (l' := l') hc.2 i (by simpa using h) (by simpa using h')
  | [], _ :: _, h, _, _, _ => h.elim
  | _ :: _, [], h, _, _, _ => h.elim

/-- the local under construction: it holds exactly `l` and every other slot is dead. -/
def Fresh (r : Raw K V) (l : List (K × V)) : Prop := Rep r l ∧ ∀ j, l.length ≤ j → r.slots j = none

theorem Fresh.new (cap : Nat) : Fresh (Raw.new cap : Raw K V) [] := ⟨Rep.new cap, fun _ _ => rfl⟩

/-- the loop of `clone` (repaired: `len` is published slot by slot).  Invariant: after `i` rounds
    the local holds the clones of the first `i` source entries and `len = i`. -/
theorem cloneLoop_sat {src : Raw K V} {l : List (K × V)} (hsrc : Rep src l) :
    ∀ (n : Nat) (s : St K V Q) (lp : List (K × V)), Fresh s.r lp → lp.length + n = l.length →
      l.length ≤ s.r.cap →
    Sat (cloneLoop E src n lp.length) s
      (fun _ s' => s'.r.cap = s.r.cap ∧ ∃ l', Fresh s'.r (lp ++ l') ∧ ClonesOf E (l.drop lp.length) l' ∧
        WRel s.w s'.w (cloneTrace E (l.drop lp.length) l'))
      (fun c s' => s'.r.cap = s.r.cap ∧ InjPanic s s' c ∧ ∃ lq, Fresh s'.r lq)
  | 0, s, lp, hf, hn, _ => by
    have : l.drop lp.length = [] := List.drop_eq_nil_of_le (by omega)
    rw [this]
    exact Sat.pure ⟨rfl, [], by simpa using hf, trivial, by simpa [cloneTrace] using WRel.refl _⟩
  | n + 1, s, lp, hf, hn, hcap => by
    have hlt : lp.length < l.length := by omega
    have hdrop : l.drop lp.length = l[lp.length] :: l.drop (lp.length + 1) :=
      List.drop_eq_getElem_cons hlt
    unfold cloneLoop
    show Sat (getCap >>= _) s _ _
    refine Sat.bind (Q₁ := fun c s' => c = s.r.cap ∧ s = s') (show Sat getCap s _ _ from ⟨rfl, rfl⟩) ?_
    rintro _ _ ⟨rfl, rfl⟩
    rw [if_pos (by omega : lp.length < s.r.cap)]
    refine Sat.bind (Q₁ := fun p s' => p = l[lp.length] ∧ s = s')
      (Sat.of_ok (itemRefR_ok hsrc hlt s) ⟨rfl, rfl⟩) ?_
    rintro _ _ ⟨rfl, rfl⟩
    refine Sat.cb (clonePair_cb E l[lp.length]) ?_ ?_
    · intro p' s1 h1 h2 h3
      refine Sat.bind (itemWrite_sat p' (by rw [h1]; omega)) ?_
      intro _ s2 ⟨g1, g2⟩
      refine Sat.bind (Sat.modS (Q := fun _ s' => s' = { s2 with r := { s2.r with len := lp.length + 1 } }) rfl) ?_
      rintro _ _ rfl
      have hf2 : Fresh ({ s2.r with len := lp.length + 1 } : Raw K V) (lp ++ [p']) := by
        rw [g1, h1]
        refine ⟨hf.1.push (by omega) p', fun j hj => ?_⟩
        simp only [List.length_append, List.length_singleton] at hj
        show (setSlot s.r lp.length (some p')).slots j = none
        rw [setSlot_other _ _ (by omega)]
        exact hf.2 j (by omega)
      have hlen2 : (lp ++ [p']).length = lp.length + 1 := by simp
      have hcap2 : s2.r.cap = s.r.cap := by rw [g1, h1]; rfl
      have ih := cloneLoop_sat hsrc n { s2 with r := { s2.r with len := lp.length + 1 } } (lp ++ [p']) hf2
        (by rw [hlen2]; omega) (by show l.length ≤ s2.r.cap; rw [hcap2]; exact hcap)
      rw [hlen2] at ih
      refine Sat.mono ih ?_ ?_
      · intro _ s3 ⟨k1, l'', k2, k3, k4⟩
        refine ⟨k1.trans hcap2, p' :: l'', by simpa using k2, ?_, ?_⟩
        · rw [hdrop]; exact ⟨h3, k3⟩
        · rw [hdrop, cloneTrace_cons]
          exact (h2.trans g2).trans' k4 (by simp)
      · intro c s3 ⟨k1, k2, k3⟩
        exact ⟨k1.trans hcap2, k2.after (h2.trans g2), k3⟩
    · intro s1 tr' h1 h2 h3 h4
      exact ⟨by rw [h1], InjPanic.of_cb h2 h3 h4, lp, h1 ▸ hf⟩

/-- every live slot of the local has been dropped: what is left of a partially built container
    after the clean-up of an unwinding constructor (`len` is stale, no slot is live). -/
def Dropped (r : Raw K V) (lq : List (K × V)) : Prop :=
  r.len = lq.length ∧ ∀ j, j < lq.length → r.slots j = none

/-- `Drop for Map` (as `dropMap_sat`, additionally: `len` and `cap` are not written). -/
theorem dropMap_sat' {s : St K V Q} {l : List (K × V)} (hr : Rep s.r l) :
    Sat (dropMap E) s
      (fun _ s' => s'.r.cap = s.r.cap ∧ s'.r.len = s.r.len ∧ (∀ j, j < l.length → s'.r.slots j = none) ∧
        (∀ j, l.length ≤ j → s'.r.slots j = s.r.slots j) ∧ WRel s.w s'.w (dropTrace E l))
      (fun c s' => s'.r.cap = s.r.cap ∧ InjPanic s s' c) := by
  unfold dropMap
  show Sat (getLen >>= _) s _ _
  refine Sat.bind (Q₁ := fun n s' => n = l.length ∧ s = s') (show Sat getLen s _ _ from ⟨hr.1, rfl⟩) ?_
  rintro _ _ ⟨rfl, rfl⟩
  refine Sat.mono (dropRange_sat E l 0 s (hr.slots_at) (by simpa using hr.2.1)) ?_ ?_
  · intro _ s' ⟨g1, g2, g3, g4, g5⟩
    exact ⟨g2, g1, fun j hj => g4 j (Nat.zero_le _) (by simpa using hj),
      fun j hj => g3 j (Or.inr (by simpa using hj)), g5⟩
  · intro c s' ⟨_, g2, _, g4⟩
    exact ⟨g2, g4⟩

/-- the clean-up of an unwinding constructor: the local (well-formed, holding `lq`) is dropped
    in unwinding mode; this cannot fail, leaves every slot that was live dead, and its effects
    are the drops of `lq`. -/
theorem cleanup_dropMap {s' : St K V Q} {lq : List (K × V)} (hr : Rep s'.r lq) :
    Sat (dropMap E) (s'.setUnw true)
      (fun _ s'' => (s''.setUnw s'.w.unwinding).r.cap = s'.r.cap ∧
        Dropped (s''.setUnw s'.w.unwinding).r lq ∧
        (∀ j, lq.length ≤ j → (s''.setUnw s'.w.unwinding).r.slots j = s'.r.slots j) ∧
        WRel s'.w (s''.setUnw s'.w.unwinding).w (dropTrace E lq))
      (fun _ _ => False) := by
  have hrq : Rep (s'.setUnw true).r lq := hr
  refine Sat.mono (dropMap_sat' E hrq) ?_ ?_
  · intro _ s'' ⟨g1, g2, g3, g4, g5⟩
    refine ⟨by simpa using g1, ⟨?_, fun j hj => by simpa using g3 j hj⟩,
      fun j hj => by simpa using g4 j hj, g5.through_unw⟩
    simp only [setUnw_r] at g2 ⊢
    rw [g2]; exact hr.1
  · intro c' s'' ⟨_, g3⟩
    have := g3.2.2.1
    simp at this

/-- `Clone::clone` into a fresh local of the source's capacity.  Normal return: the local holds
    an element-wise clone of the source, made by one `cloneK` (and one `cloneV`) per entry in slot
    order.  Unwinding (only by an injected panic of a user `clone`): the partially built local has
    been dropped — every slot is dead and the drop effects of what it held come last. -/
theorem cloneInto_sat {src : Raw K V} {l : List (K × V)} (hsrc : Rep src l) {s : St K V Q}
    (hf : Fresh s.r []) (hcap : s.r.cap = src.cap) :
    Sat (cloneInto E src) s
      (fun _ s' => s'.r.cap = src.cap ∧ ∃ l', Fresh s'.r l' ∧ ClonesOf E l l' ∧
        WRel s.w s'.w (cloneTrace E l l'))
      (fun c s' => s'.r.cap = src.cap ∧ InjPanic s s' c ∧ (∀ j, s'.r.slots j = none) ∧
        ∃ lq tr, Dropped s'.r lq ∧ WRel s.w s'.w (tr ++ dropTrace E lq)) := by
  unfold cloneInto
  have hle : src.len ≤ src.cap := hsrc.1 ▸ hsrc.2.1
  rw [if_pos hle, hsrc.1]
  refine Sat.unwindWith (P₀ := fun c s' => s'.r.cap = s.r.cap ∧ InjPanic s s' c ∧ ∃ lq, Fresh s'.r lq) ?_ ?_
  · have := cloneLoop_sat E hsrc l.length s [] hf (by simp) (by rw [hcap]; exact hsrc.2.1)
    refine Sat.mono this ?_ (fun _ _ h => h)
    intro _ s' ⟨h1, l', h2, h3, h4⟩
    exact ⟨h1.trans hcap, l', by simpa using h2, by simpa using h3, by simpa using h4⟩
  · intro c s' ⟨h1, h2, lq, h3⟩
    refine Sat.mono (cleanup_dropMap E h3.1) ?_ (fun _ _ h => h)
    intro _ s'' ⟨g1, g2, g3, hw⟩
    obtain ⟨hc, hi, hu, tr', hw'⟩ := h2
    refine ⟨by rw [g1, h1, hcap], ⟨hc, hi, hu, _, hw'.trans hw⟩, fun j => ?_, lq, tr', g2, hw'.trans hw⟩
    by_cases hj : j < lq.length
    · exact g2.2 j hj
    · rw [g3 j (by omega)]; exact h3.2 j (by omega)

/-! ### a clone compares equal to its source (list level) -/

theorem ClonesOf.keq_get {E : Env K V Q} (hk : ∀ n k, E.keq (E.clK n k) k = true)
    {l l' : List (K × V)} (hc : ClonesOf E l l') {i} (h : i < l.length) (h' : i < l'.length) :
    E.keq l'[i].1 l[i].1 = true := by
  obtain ⟨⟨n, hn⟩, _⟩ := hc.get i h h'
  rw [hn]; exact hk n _

theorem veq_of_isCloneV {E : Env K V Q} (hv : ∀ n v, E.eqV (E.clV n v) v = true) {v v' : V}
    (h : IsCloneV E v v') : veq E v' v = true := by
  unfold IsCloneV at h
  unfold veq
  split
  · rename_i hg
    rw [if_pos hg] at h
    obtain ⟨n, rfl⟩ := h
    exact hv n v
  · rfl

theorem veq_of_isCloneV' {E : Env K V Q} (hv : ∀ n v, E.eqV v (E.clV n v) = true) {v v' : V}
    (h : IsCloneV E v v') : veq E v v' = true := by
  unfold IsCloneV at h
  unfold veq
  split
  · rename_i hg
    rw [if_pos hg] at h
    obtain ⟨n, rfl⟩ := h
    exact hv n v
  · rfl

/-- cloning keeps keys unique when a cloned key equals its source. -/
theorem ClonesOf.nodupKeys {E : Env K V Q} (hE : E.Lawful) (hk : ∀ n k, E.keq (E.clK n k) k = true)
    {l l' : List (K × V)} (hc : ClonesOf E l l') (hn : NodupKeys E.keq l) : NodupKeys E.keq l' := by
  have hlen := hc.length_eq
  rw [nodupKeys_iff_getElem hE.equivB] at hn ⊢
  intro i j hi hj hij
  have hi' : i < l.length := hlen ▸ hi
  have hj' : j < l.length := hlen ▸ hj
  cases hc' : E.keq l'[i].1 l'[j].1 with
  | false => rfl
  | true =>
    have h1 : E.keq l[i].1 l'[i].1 = true := by rw [hE.symm]; exact hc.keq_get hk hi' hi
    have h2 := hc.keq_get hk hj' hj
    have := hE.trans _ _ _ (hE.trans _ _ _ h1 hc') h2
    rw [hn i j hi' hj' hij] at this
    cases this

/-- `original == clone`: provided a cloned key / value compares equal to its source. -/
theorem mapEqCode_clone {E : Env K V Q} (hE : E.Lawful) (hk : ∀ n k, E.keq (E.clK n k) k = true)
    (hv : ∀ n v, E.eqV (E.clV n v) v = true) {l l' : List (K × V)} (hc : ClonesOf E l l')
    (hn : NodupKeys E.keq l) : mapEqCode E.keq (veq E) l l' = true := by
  have hlen := hc.length_eq
  have hn' := hc.nodupKeys hE hk hn
  rw [mapEqCode_eq_true]
  refine ⟨hlen.symm, fun p hp => ?_⟩
  obtain ⟨i, hi, rfl⟩ := List.mem_iff_getElem.1 hp
  have hi' : i < l'.length := hlen ▸ hi
  refine ⟨l'[i].2, lookupL_some_intro hE.equivB l' hn' l'[i] (List.getElem_mem hi') _
    (hc.keq_get hk hi hi'), veq_of_isCloneV hv (hc.get i hi hi').2⟩

/-- `clone == original`. -/
theorem mapEqCode_clone' {E : Env K V Q} (hE : E.Lawful) (hk : ∀ n k, E.keq (E.clK n k) k = true)
    (hv : ∀ n v, E.eqV v (E.clV n v) = true) {l l' : List (K × V)} (hc : ClonesOf E l l')
    (hn : NodupKeys E.keq l) : mapEqCode E.keq (veq E) l' l = true := by
  have hlen := hc.length_eq
  rw [mapEqCode_eq_true]
  refine ⟨hlen, fun p hp => ?_⟩
  obtain ⟨i, hi', rfl⟩ := List.mem_iff_getElem.1 hp
  have hi : i < l.length := hlen ▸ hi'
  refine ⟨l[i].2, lookupL_some_intro hE.equivB l hn l[i] (List.getElem_mem hi) _ ?_,
    veq_of_isCloneV' hv (hc.get i hi hi').2⟩
  rw [hE.symm]; exact hc.keq_get hk hi hi'

end Micromap.EqClone
