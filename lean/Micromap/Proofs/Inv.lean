/-
The global invariant and its preservation by the dictionary API — for ANY user equality (then
it is memory safety: `Safe`), any injection point and either profile; for a lawful key type it
additionally keeps the keys pairwise unequal (`WF`).
-/
import Micromap.Proofs.RefineStep

namespace Micromap
open SetAlg Dict
variable {K V Q : Type}

/-- `Clone` respects `Eq`: a clone compares equal to its source (needed only for "a clone has
    unique keys", which no law of `Eq` alone implies). -/
def Env.CloneOK (E : Env K V Q) : Prop := ∀ n k, E.keq (E.clK n k) k = true

/-- lawful `Eq`/`Borrow` and a `Clone` that respects them. -/
def Env.Good (E : Env K V Q) : Prop := E.Lawful ∧ E.CloneOK

/-- The invariant of one container: the live prefix is well-defined (`Rep`, hence `Safe`:
    `len ≤ cap`, every slot below `len` live) and — if the key type is lawful — its keys are
    pairwise unequal. -/
def Inv (E : Env K V Q) (r : Raw K V) : Prop := ∃ l, Rep r l ∧ (E.Good → NodupKeys E.keq l)

theorem Inv.safe {E : Env K V Q} {r : Raw K V} (h : Inv E r) : Safe r := by
  obtain ⟨l, hr, _⟩ := h; exact hr.safe

theorem Inv.new (E : Env K V Q) (cap : Nat) : Inv E (Raw.new cap : Raw K V) :=
  ⟨[], Rep.new cap, fun _ => List.Pairwise.nil⟩

theorem Inv.abs {E : Env K V Q} {r : Raw K V} (h : Inv E r) : Rep r r.abs ∧ (E.Good → NodupKeys E.keq r.abs) := by
  obtain ⟨l, hr, hn⟩ := h
  have : r.abs = l := Rep.unique hr.safe.rep hr
  rw [this]; exact ⟨hr, hn⟩

/-- an operation keeps the invariant and the capacity, whether it returns or unwinds, and never
    reaches `ub`. -/
def OpInv (E : Env K V Q) (m : SM K V Q α) : Prop :=
  ∀ s, Inv E s.r → Sat m s (fun _ s' => Inv E s'.r ∧ s'.r.cap = s.r.cap)
    (fun _ s' => Inv E s'.r ∧ s'.r.cap = s.r.cap)

theorem OpInv.bind {E : Env K V Q} {m : SM K V Q α} {f : α → SM K V Q β} (hm : OpInv E m)
    (hf : ∀ a, OpInv E (f a)) : OpInv E (m >>= f) := by
  intro s hs
  refine Sat.bind (hm s hs) ?_
  intro a s1 ⟨h1, h2⟩
  refine Sat.mono (hf a s1 h1) ?_ ?_
  · intro b s2 ⟨g1, g2⟩; exact ⟨g1, g2.trans h2⟩
  · intro c s2 ⟨g1, g2⟩; exact ⟨g1, g2.trans h2⟩

theorem OpInv.pure {E : Env K V Q} (a : α) : OpInv E (pure a : SM K V Q α) :=
  fun _ hs => Sat.pure ⟨hs, rfl⟩

theorem OpInv.map {E : Env K V Q} {m : SM K V Q α} (hm : OpInv E m) (g : α → β) :
    OpInv E (do let a ← m; Pure.pure (g a)) :=
  hm.bind fun a => OpInv.pure (g a)

/-- a callback (anything that leaves the container alone) keeps the invariant. -/
theorem OpInv.of_cb {E : Env K V Q} {m : SM K V Q α} {tr Qv} (h : CbOk m tr Qv) : OpInv E m := by
  intro s hs
  refine Sat.mono (h s) ?_ ?_
  · intro a s' ⟨h1, _, _⟩; exact ⟨h1 ▸ hs, by rw [h1]⟩
  · intro c s' ⟨h1, _⟩; exact ⟨h1 ▸ hs, by rw [h1]⟩

/-- clean-up by something that leaves the container alone (drops of locals) keeps the invariant. -/
theorem OpInv.unwindWith {E : Env K V Q} {cleanup : SM K V Q Unit} {body : SM K V Q α} {tc Qc}
    (hc : CbOk cleanup tc Qc) (hb : OpInv E body) : OpInv E (Micromap.unwindWith cleanup body) := by
  intro s hs
  refine Sat.unwindWith (hb s hs) ?_
  intro c s' ⟨hI, hcap⟩
  refine Sat.mono (hc.unw (s'.setUnw true) rfl) ?_ (fun _ _ h => h)
  intro _ s'' ⟨g1, _, _⟩
  have : (s''.setUnw s'.w.unwinding).r = s'.r := by simpa using g1
  exact ⟨this ▸ hI, by rw [this]; exact hcap⟩

theorem OpInv.ite {E : Env K V Q} {c : Prop} [Decidable c] {m₁ m₂ : SM K V Q α} (h₁ : OpInv E m₁)
    (h₂ : OpInv E m₂) : OpInv E (if c then m₁ else m₂) := by
  split
  · exact h₁
  · exact h₂

variable (E : Env K V Q)

theorem opInv_insert (k : K) (v : V) : OpInv E (insert E k v) := by
  intro s ⟨l, hr, hn⟩
  refine Sat.mono (insert_sat E hr k v) ?_ ?_
  · intro a s' ⟨hc, h⟩
    refine ⟨?_, hc⟩
    rcases h with ⟨i, hi, _, hrep, _, _⟩ | ⟨_, _, hrep, _, hf⟩
    · exact ⟨_, hrep, fun hg => nodupKeys_set hg.1.equivB (hn hg) hi _ _ (hg.1.refl _)⟩
    · refine ⟨_, hrep, fun hg => nodupKeys_append hg.1.equivB (hn hg) k v ?_⟩
      exact (findKey_none_iff E _).mp (hf hg.1.toPure)
  · intro c s' ⟨hc, h⟩
    refine ⟨?_, hc⟩
    rcases h with ⟨_, l', hrep, hl'⟩ | ⟨hs, _⟩
    · rcases hl' with rfl | ⟨i, hi, rfl⟩
      · exact ⟨_, hrep, hn⟩
      · exact ⟨_, hrep, fun hg => nodupKeys_set hg.1.equivB (hn hg) hi _ _ (hg.1.refl _)⟩
    · exact ⟨l, hs ▸ hr, hn⟩

theorem opInv_insert_key_value (k : K) (v : V) : OpInv E (insert_key_value E k v) := by
  intro s ⟨l, hr, hn⟩
  refine Sat.mono (insert_key_value_sat E hr k v) ?_ ?_
  · intro a s' ⟨hc, _, h⟩
    refine ⟨?_, hc⟩
    rcases h with ⟨i, hi, _, hrep, hf⟩ | ⟨_, _, hrep, hf⟩
    · refine ⟨_, hrep, fun hg => nodupKeys_set hg.1.equivB (hn hg) hi _ _ ?_⟩
      exact ((findKey_some_iff hg.1 (hn hg) _).mp (hf hg.1.toPure)).2
    · refine ⟨_, hrep, fun hg => nodupKeys_append hg.1.equivB (hn hg) k v ?_⟩
      exact (findKey_none_iff E _).mp (hf hg.1.toPure)
  · intro c s' ⟨hs, _⟩
    exact ⟨⟨l, hs ▸ hr, hn⟩, by rw [hs]⟩

theorem opInv_checked_insert (k : K) (v : V) : OpInv E (checked_insert E k v) := by
  intro s ⟨l, hr, hn⟩
  refine Sat.mono (checked_insert_sat E hr k v) ?_ ?_
  · intro a s' ⟨hc, h⟩
    refine ⟨?_, hc⟩
    rcases h with ⟨i, hi, _, hrep, _, _⟩ | ⟨_, _, hrep, _, hf⟩ | ⟨_, _, hs, _⟩
    · exact ⟨_, hrep, fun hg => nodupKeys_set hg.1.equivB (hn hg) hi _ _ (hg.1.refl _)⟩
    · refine ⟨_, hrep, fun hg => nodupKeys_append hg.1.equivB (hn hg) k v ?_⟩
      exact (findKey_none_iff E _).mp (hf hg.1.toPure)
    · exact ⟨l, hs ▸ hr, hn⟩
  · intro c s' ⟨hc, _, l', hrep, hl'⟩
    refine ⟨?_, hc⟩
    rcases hl' with rfl | ⟨i, hi, rfl⟩
    · exact ⟨_, hrep, hn⟩
    · exact ⟨_, hrep, fun hg => nodupKeys_set hg.1.equivB (hn hg) hi _ _ (hg.1.refl _)⟩

theorem opInv_get (pr : Probe K Q) : OpInv E (get E pr) := by
  intro s ⟨l, hr, hn⟩
  refine Sat.mono (get_sat E hr pr) ?_ ?_
  · intro a s' ⟨hs, _⟩; exact ⟨⟨l, hs ▸ hr, hn⟩, by rw [hs]⟩
  · intro c s' ⟨hs, _⟩; exact ⟨⟨l, hs ▸ hr, hn⟩, by rw [hs]⟩

theorem opInv_contains_key (pr : Probe K Q) : OpInv E (contains_key E pr) := by
  intro s ⟨l, hr, hn⟩
  refine Sat.mono (contains_key_cb E hr pr) ?_ ?_
  · intro a s' ⟨hs, _⟩; exact ⟨⟨l, hs ▸ hr, hn⟩, by rw [hs]⟩
  · intro c s' ⟨hs, _⟩; exact ⟨⟨l, hs ▸ hr, hn⟩, by rw [hs]⟩

theorem opInv_get_mut (pr : Probe K Q) (g : V → V) : OpInv E (get_mut E pr g) := by
  intro s ⟨l, hr, hn⟩
  refine Sat.mono (get_mut_sat E hr pr g) ?_ ?_
  · intro a s' ⟨hc, _, h, _⟩
    refine ⟨?_, hc⟩
    rcases h with ⟨_, hs⟩ | ⟨i, hi, _, hrep⟩
    · exact ⟨l, hs ▸ hr, hn⟩
    · exact ⟨_, hrep, fun hg => nodupKeys_set hg.1.equivB (hn hg) hi _ _ (hg.1.refl _)⟩
  · intro c s' ⟨hs, _⟩; exact ⟨⟨l, hs ▸ hr, hn⟩, by rw [hs]⟩

theorem opInv_index (pr : Probe K Q) : OpInv E (index E pr) := by
  intro s ⟨l, hr, hn⟩
  refine Sat.mono (index_sat E hr pr) ?_ ?_
  · intro a s' ⟨hs, _⟩; exact ⟨⟨l, hs ▸ hr, hn⟩, by rw [hs]⟩
  · intro c s' ⟨hs, _⟩; exact ⟨⟨l, hs ▸ hr, hn⟩, by rw [hs]⟩

theorem opInv_index_mut (pr : Probe K Q) (g : V → V) : OpInv E (index_mut E pr g) := by
  intro s ⟨l, hr, hn⟩
  refine Sat.mono (Refine.index_mut_sat E hr pr g) ?_ ?_
  · intro a s' ⟨hc, _, ⟨hi, _, hrep⟩, _⟩
    exact ⟨⟨_, hrep, fun hg => nodupKeys_set hg.1.equivB (hn hg) hi _ _ (hg.1.refl _)⟩, hc⟩
  · intro c s' ⟨hs, _⟩; exact ⟨⟨l, hs ▸ hr, hn⟩, by rw [hs]⟩

theorem opInv_remove (pr : Probe K Q) : OpInv E (remove E pr) := by
  intro s ⟨l, hr, hn⟩
  refine Sat.mono (remove_sat E hr pr) ?_ ?_
  · intro a s' ⟨hc, h, _⟩
    refine ⟨?_, hc⟩
    rcases h with ⟨_, hs, _⟩ | ⟨i, hi, _, hrep, _⟩
    · exact ⟨l, hs ▸ hr, hn⟩
    · exact ⟨_, hrep, fun hg => nodupKeys_swapRemove hg.1.equivB (hn hg) hi⟩
  · intro c s' ⟨hc, _, h⟩
    refine ⟨?_, hc⟩
    rcases h with hs | ⟨i, hi, hrep⟩
    · exact ⟨l, hs ▸ hr, hn⟩
    · exact ⟨_, hrep, fun hg => nodupKeys_swapRemove hg.1.equivB (hn hg) hi⟩

theorem opInv_remove_entry (pr : Probe K Q) : OpInv E (remove_entry E pr) := by
  intro s ⟨l, hr, hn⟩
  refine Sat.mono (remove_entry_sat E hr pr) ?_ ?_
  · intro a s' ⟨hc, _, h, _⟩
    refine ⟨?_, hc⟩
    rcases h with ⟨_, hs⟩ | ⟨i, hi, _, hrep, _⟩
    · exact ⟨l, hs ▸ hr, hn⟩
    · exact ⟨_, hrep, fun hg => nodupKeys_swapRemove hg.1.equivB (hn hg) hi⟩
  · intro c s' ⟨hs, _⟩; exact ⟨⟨l, hs ▸ hr, hn⟩, by rw [hs]⟩

theorem opInv_clear : OpInv E (clear E) := by
  intro s ⟨l, hr, _⟩
  refine Sat.mono (clear_sat E hr) ?_ ?_
  · intro _ s' ⟨hrep, hc, _⟩; exact ⟨⟨[], hrep, fun _ => List.Pairwise.nil⟩, hc⟩
  · intro c s' ⟨hrep, hc, _⟩; exact ⟨⟨[], hrep, fun _ => List.Pairwise.nil⟩, hc⟩

theorem opInv_len : OpInv E (len : SM K V Q Nat) := fun _ hs => ⟨hs, rfl⟩
theorem opInv_capacity : OpInv E (capacity : SM K V Q Nat) := fun _ hs => ⟨hs, rfl⟩
theorem opInv_is_empty : OpInv E (is_empty : SM K V Q Bool) := fun _ hs => ⟨hs, rfl⟩

theorem opInv_retain (f : Nat → K → V → Bool × V) : OpInv E (retain E f) := by
  intro s ⟨l, hr, hn⟩
  refine Sat.mono (retain_sat E f (fun k v => f 0 k v) hr) ?_ ?_
  · intro _ s' ⟨hc, _, l', hrep, _, _, hk⟩
    exact ⟨⟨l', hrep, fun hg => hk _ hg.1.equivB (hn hg)⟩, hc⟩
  · intro c s' ⟨hc, _, l', hrep, _, hk⟩
    exact ⟨⟨l', hrep, fun hg => hk _ hg.1.equivB (hn hg)⟩, hc⟩

/-- `mem::forget(map)` / the end of a consumed container: the register holds a fresh `new()`. -/
theorem forgetMap_sat {s : St K V Q} {P} :
    Sat (forgetMap : SM K V Q Unit) s
      (fun _ s' => s'.r = Raw.new s.r.cap ∧ s'.w.unwinding = s.w.unwinding ∧ s'.w.inject = s.w.inject ∧
        s'.w.profile = s.w.profile) P :=
  ⟨rfl, rfl, rfl, rfl⟩

theorem opInv_forget : OpInv E (forgetMap : SM K V Q Unit) := by
  intro s _
  refine Sat.mono (forgetMap_sat (P := fun _ _ => False)) ?_ (fun _ _ h => h.elim)
  intro _ s' ⟨h, _⟩
  exact ⟨h ▸ Inv.new E _, by rw [h]; rfl⟩

/-- dropping a container: whatever happens (also when an element's `Drop` unwinds) the register
    ends up holding a fresh `new()` of the same capacity, and no dead slot is touched. -/
theorem dropAndRenew_sat {s : St K V Q} {l : List (K × V)} (hr : Rep s.r l) :
    Sat (dropAndRenew E) s (fun _ s' => s'.r = Raw.new s.r.cap) (fun _ s' => s'.r = Raw.new s.r.cap) := by
  unfold dropAndRenew
  refine Sat.unwindWith (P₀ := fun _ s' => s'.r.cap = s.r.cap) ?_ ?_
  · refine Sat.bind (Sat.mono (dropMap_sat E hr) (fun _ _ h => h) ?_) ?_
    · intro c s' ⟨hc, _⟩; exact hc
    · intro _ s1 ⟨hc, _⟩
      refine Sat.mono (forgetMap_sat (P := fun _ s' => s'.r.cap = s.r.cap)) ?_ (fun _ _ h => h)
      intro _ s' ⟨h, _⟩; rw [h, hc]
  · intro c s' hc
    refine Sat.mono (forgetMap_sat (P := fun _ _ => False)) ?_ (fun _ _ h => h)
    intro _ s'' ⟨h, _⟩
    show (s''.setUnw _).r = _
    rw [setUnw_r, h, setUnw_r, hc]

theorem opInv_drop : OpInv E (dropAndRenew E) := by
  intro s ⟨l, hr, _⟩
  refine Sat.mono (dropAndRenew_sat E hr) ?_ ?_
  · intro _ s' h; exact ⟨h ▸ Inv.new E _, by rw [h]; rfl⟩
  · intro _ s' h; exact ⟨h ▸ Inv.new E _, by rw [h]; rfl⟩

theorem opInv_fmtMap (R : Render K V) (kind : FmtKind) : OpInv E (fmtMap R kind) := by
  intro s ⟨l, hr, hn⟩
  have h : ∃ str, fmtMap R kind s = .ok str s := by
    unfold fmtMap
    simp only [bind_apply, Micromap.getS, Refine.entriesOf_ok hr]
    cases kind <;> exact ⟨_, rfl⟩
  obtain ⟨str, h⟩ := h
  exact Sat.of_ok h ⟨⟨l, hr, hn⟩, rfl⟩

theorem opInv_assertP (c : Bool) (cls : PanicClass) : OpInv E (assertP c cls : SM K V Q Unit) := by
  intro s hs
  unfold Sat assertP
  cases c <;> exact ⟨hs, rfl⟩

end Micromap
