/-
Evaluation judgements for the refinement of the slot machine by the list-level interpreter
(`Spec/ListSys.lean`): in a world without an armed fault every model function RETURNS a definite
value (or raises a definite panic of the container itself) and leaves a state that represents a
definite list.  `Ret` / `Pan` say that; `Ctx` is the invariant carried along; `QEx` is the
special case of read-only computations (scans, set predicates, lazy set iterators).
-/
import Micromap.Spec.ListSys
import Micromap.Proofs.Refine
import Micromap.Proofs.Iters

namespace Micromap.ListSys
open Micromap
variable {K V Q : Type}

/-- the state's register holds `l` with capacity `cap`; its world has no armed fault, is not
    unwinding, and has build profile `prof`. -/
structure Ctx (prof : Profile) (cap : Nat) (l : List (K × V)) (s : St K V Q) : Prop where
  rep : Rep s.r l
  cap : s.r.cap = cap
  benign : Benign s.w
  prof : s.w.profile = prof

/-- `m` returns `a` from `s` in a state satisfying `P`. -/
def Ret {α : Type} (m : SM K V Q α) (s : St K V Q) (a : α) (P : St K V Q → Prop) : Prop :=
  ∃ s', m s = .ok a s' ∧ P s'

/-- `m` unwinds with class `c` from `s` in a state satisfying `P`. -/
def Pan {α : Type} (m : SM K V Q α) (s : St K V Q) (c : PanicClass) (P : St K V Q → Prop) : Prop :=
  ∃ s', m s = .panic c s' ∧ P s'

theorem Ctx.frame {prof cap} {l : List (K × V)} {s s' : St K V Q} {tr} (h : Ctx prof cap l s)
    (hr : s'.r = s.r) (hw : WRel s.w s'.w tr) : Ctx prof cap l s' :=
  ⟨hr ▸ h.rep, by rw [hr]; exact h.cap, hw.benign h.benign, by rw [hw.profile]; exact h.prof⟩

theorem Ctx.step {prof cap} {l l' : List (K × V)} {s s' : St K V Q} {tr} (h : Ctx prof cap l s)
    (hr : Rep s'.r l') (hc : s'.r.cap = s.r.cap) (hw : WRel s.w s'.w tr) : Ctx prof cap l' s' :=
  ⟨hr, by rw [hc]; exact h.cap, hw.benign h.benign, by rw [hw.profile]; exact h.prof⟩

/-- same world, new register contents. -/
theorem Ctx.step' {prof cap} {l l' : List (K × V)} {s s' : St K V Q} (h : Ctx prof cap l s)
    (hr : Rep s'.r l') (hc : s'.r.cap = s.r.cap) (hw : s'.w = s.w) : Ctx prof cap l' s' :=
  ⟨hr, by rw [hc]; exact h.cap, by rw [hw]; exact h.benign, by rw [hw]; exact h.prof⟩

theorem Ret.bind {α β : Type} {m : SM K V Q α} {f : α → SM K V Q β} {s : St K V Q} {a : α} {b : β}
    {P Qp : St K V Q → Prop} (h : Ret m s a P) (hf : ∀ s', P s' → Ret (f a) s' b Qp) :
    Ret (m >>= f) s b Qp := by
  obtain ⟨s1, h1, h2⟩ := h
  obtain ⟨s2, g1, g2⟩ := hf s1 h2
  exact ⟨s2, by simp only [bind_apply, h1, g1], g2⟩

theorem Ret.bind_pan {α β : Type} {m : SM K V Q α} {f : α → SM K V Q β} {s : St K V Q} {a : α} {c}
    {P Qp : St K V Q → Prop} (h : Ret m s a P) (hf : ∀ s', P s' → Pan (f a) s' c Qp) :
    Pan (m >>= f) s c Qp := by
  obtain ⟨s1, h1, h2⟩ := h
  obtain ⟨s2, g1, g2⟩ := hf s1 h2
  exact ⟨s2, by simp only [bind_apply, h1, g1], g2⟩

theorem Pan.bind {α β : Type} {m : SM K V Q α} {f : α → SM K V Q β} {s : St K V Q} {c}
    {P : St K V Q → Prop} (h : Pan m s c P) : Pan (m >>= f) s c P := by
  obtain ⟨s1, h1, h2⟩ := h
  exact ⟨s1, by simp only [bind_apply, h1], h2⟩

theorem M_bind_assoc {σ α β γ : Type} (m : M σ α) (f : α → M σ β) (g : β → M σ γ) :
    (m >>= f) >>= g = m >>= fun a => f a >>= g := by
  funext s
  simp only [bind_apply]
  cases m s <;> rfl

theorem Ret.pure {α : Type} {a : α} {s : St K V Q} {P : St K V Q → Prop} (h : P s) :
    Ret (pure a : SM K V Q α) s a P := ⟨s, rfl, h⟩

theorem Ret.mono {α : Type} {m : SM K V Q α} {s : St K V Q} {a : α} {P P' : St K V Q → Prop}
    (h : Ret m s a P) (hp : ∀ s', P s' → P' s') : Ret m s a P' := by
  obtain ⟨s1, h1, h2⟩ := h; exact ⟨s1, h1, hp s1 h2⟩

theorem Pan.mono {α : Type} {m : SM K V Q α} {s : St K V Q} {c} {P P' : St K V Q → Prop}
    (h : Pan m s c P) (hp : ∀ s', P s' → P' s') : Pan m s c P' := by
  obtain ⟨s1, h1, h2⟩ := h; exact ⟨s1, h1, hp s1 h2⟩

/-- a body that returns is not affected by its clean-up. -/
theorem Ret.unwindWith {α : Type} {cleanup : SM K V Q Unit} {body : SM K V Q α} {s : St K V Q} {a : α}
    {P : St K V Q → Prop} (h : Ret body s a P) : Ret (Micromap.unwindWith cleanup body) s a P := by
  obtain ⟨s1, h1, h2⟩ := h
  exact ⟨s1, by unfold Micromap.unwindWith; rw [h1], h2⟩

/-- a callback (drop, comparison, closure call, clone) in a benign world: it returns, the
    register is untouched, the world stays benign. -/
theorem cb_ret {α : Type} {m : SM K V Q α} {tr Qv} (h : CbOk m tr Qv) {prof cap} {l : List (K × V)}
    {s : St K V Q} (hc : Ctx prof cap l s) : ∃ a, Qv s a ∧ Ret m s a (Ctx prof cap l) := by
  obtain ⟨a, s', h1, h2, h3, h4⟩ := (h s).must_return (by
    intro c s' ⟨_, _, hi, _⟩; exact hi hc.benign.1)
  exact ⟨a, h4, s', h1, hc.frame h2 h3⟩

/-- a callback whose value does not matter. -/
theorem cb_ret_unit {m : SM K V Q Unit} {tr Qv} (h : CbOk m tr Qv) {prof cap} {l : List (K × V)}
    {s : St K V Q} (hc : Ctx prof cap l s) : Ret m s () (Ctx prof cap l) := by
  obtain ⟨_, _, h2⟩ := cb_ret h hc; exact h2

/-- the body unwinds with the container's own panic, the clean-up is a callback (drops of the
    locals): the panic goes on with the register as the body left it. -/
theorem Pan.unwindWith_cb {α : Type} {cleanup : SM K V Q Unit} {tc Qc} (hcb : CbOk cleanup tc Qc)
    {body : SM K V Q α} {s : St K V Q} {c} {prof cap} {l : List (K × V)}
    (h : Pan body s c (Ctx prof cap l)) : Pan (Micromap.unwindWith cleanup body) s c (Ctx prof cap l) := by
  obtain ⟨s1, h1, h2⟩ := h
  have hu : (s1.setUnw true).w.unwinding = true := rfl
  obtain ⟨_, s2, g1, g2, g3, _⟩ := (hcb.unw (s1.setUnw true) hu).must_return (fun _ _ hf => hf)
  refine ⟨s2.setUnw s1.w.unwinding, ?_, ?_⟩
  · unfold Micromap.unwindWith; rw [h1]; simp only [g1]
  · exact h2.frame (by simpa using g2) g3.through_unw

/-! ### from the triples of the existing development -/

theorem no_inj {s s' : St K V Q} {c} (hb : Benign s.w) (h : InjPanic s s' c) : False := h.2.1 hb.1

/-- the overflow panic of a world of profile `prof` is `fullPanic prof`. -/
theorem overflow_class {s : St K V Q} {c prof} (h : OverflowPanic s c) (hp : s.w.profile = prof) :
    c = fullPanic prof := by
  rcases h with ⟨rfl, h⟩ | ⟨rfl, h⟩ <;> · rw [hp] at h; subst h; rfl

/-! ### `lookup` -/

variable (E : Env K V Q)

theorem findKey_lt {l : List (K × V)} {pr : Probe K Q} {i} (h : findKey E l pr = some i) : i < l.length :=
  (findFrom_some E h).2.2.1

theorem lookup_some {l : List (K × V)} {pr : Probe K Q} {i} (h : findKey E l pr = some i) (hi : i < l.length) :
    lookup E l pr = some (i, l[i]) := by
  simp [lookup, h, List.getElem?_eq_getElem hi]

theorem lookup_none {l : List (K × V)} {pr : Probe K Q} (h : findKey E l pr = none) :
    lookup E l pr = none := by
  simp [lookup, h]

theorem findKey_none_of_isSome {l : List (K × V)} {pr : Probe K Q} (h : false = (findKey E l pr).isSome) :
    findKey E l pr = none := by
  cases hf : findKey E l pr with
  | none => rfl
  | some x => rw [hf] at h; cases h

/-! ### read-only computations -/

/-- `m` evaluates to `x` without touching the register and with no effect but comparisons. -/
def QEx {α : Type} (m : SM K V Q α) (x : α) : Prop := Alg.Quiet m (fun a => a = x)

theorem QEx.pure {α : Type} (x : α) : QEx (pure x : SM K V Q α) x := Alg.Quiet.pure rfl

theorem QEx.bind {α β : Type} {m : SM K V Q α} {f : α → SM K V Q β} {x : α} {y : β}
    (hm : QEx m x) (hf : QEx (f x) y) : QEx (m >>= f) y :=
  Alg.Quiet.bind hm (fun a ha => by subst ha; exact hf)

theorem QEx.of_quiet {α : Type} {m : SM K V Q α} {Qv : α → Prop} {x : α} (h : Alg.Quiet m Qv)
    (hx : ∀ a, Qv a → a = x) : QEx m x := Alg.Quiet.mono h hx

theorem QEx.of_eq {α : Type} {m : SM K V Q α} {x : α} (h : ∀ s, m s = .ok x s) : QEx m x := by
  intro s
  exact Sat.of_ok (h s) ⟨rfl, WRel.refl _, rfl⟩

theorem QEx.ite {α : Type} {c : Prop} [Decidable c] {m₁ m₂ : SM K V Q α} {x₁ x₂ : α}
    (h₁ : c → QEx m₁ x₁) (h₂ : ¬ c → QEx m₂ x₂) :
    QEx (if c then m₁ else m₂) (if c then x₁ else x₂) := by
  split
  · exact h₁ ‹_›
  · exact h₂ ‹_›

/-- running a read-only computation. -/
theorem QEx.ret {α : Type} {m : SM K V Q α} {x : α} (h : QEx m x) {prof cap} {l : List (K × V)}
    {s : St K V Q} (hc : Ctx prof cap l s) : Ret m s x (Ctx prof cap l) := by
  obtain ⟨a, ha, h2⟩ := cb_ret h hc
  subst ha; exact h2

theorem QEx.itemRefR {r : Raw K V} {l : List (K × V)} (hr : Rep r l) {i : Nat} (hi : i < l.length) :
    QEx (Micromap.itemRefR r i : SM K V Q (K × V)) l[i] := Alg.Quiet.itemRefR hr hi

/-- the scan of a (possibly other) container under a pure `==`. -/
theorem QEx.scanR (hE : E.Pure) {r : Raw K V} {l : List (K × V)} (hr : Rep r l) (pr : Probe K Q) :
    QEx (Micromap.scanR E r pr) (findKey E l pr) :=
  CbOk.mono (scanR_cb E hr pr) (fun _ => rfl) (fun _ _ h => h.2 hE)

end Micromap.ListSys
