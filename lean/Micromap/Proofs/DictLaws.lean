/-
Laws of the extensional dictionary (used by C01, C05, C07, C12): how lookups change under the
three list edits the container performs — overwrite in place, append, swap-remove — and the
`retain` loop.  Pure list reasoning.
-/
import Micromap.Spec.Dict

namespace Micromap.Dict
open Micromap.SetAlg
variable {K V : Type} {keq : K → K → Bool}

/-! ### helpers -/

/-- index characterisation of key uniqueness. -/
theorem nodupKeys_iff_getElem (h : EquivB keq) {l : List (K × V)} :
    NodupKeys keq l ↔
      ∀ (i j : Nat) (hi : i < l.length) (hj : j < l.length), i ≠ j → keq l[i].1 l[j].1 = false := by
  unfold NodupKeys NodupB
  rw [List.pairwise_map, List.pairwise_iff_getElem]
  constructor
  · intro hn i j hi hj hij
    rcases Nat.lt_or_gt_of_ne hij with hlt | hgt
    · exact hn i j hi hj hlt
    · rw [h.symm]; exact hn j i hj hi hgt
  · intro hn i j hi hj hlt
    exact hn i j hi hj (Nat.ne_of_lt hlt)

theorem nodupKeys_of_perm {l l' : List (K × V)} (h : EquivB keq) (hn : NodupKeys keq l)
    (hperm : l.Perm l') : NodupKeys keq l' := by
  unfold NodupKeys NodupB at *
  refine (hperm.map (·.1)).pairwise hn ?_
  intro x y hxy
  rw [h.symm]; exact hxy

theorem nodupKeys_of_sublist {l l' : List (K × V)} (hn : NodupKeys keq l)
    (hs : l'.Sublist l) : NodupKeys keq l' := by
  unfold NodupKeys NodupB at *
  exact List.Pairwise.sublist (hs.map (·.1)) hn

theorem nodupKeys_cons {p : K × V} {l : List (K × V)} :
    NodupKeys keq (p :: l) ↔ (∀ q, q ∈ l → keq p.1 q.1 = false) ∧ NodupKeys keq l := by
  unfold NodupKeys NodupB
  rw [List.map_cons, List.pairwise_cons]
  constructor
  · rintro ⟨h1, h2⟩
    exact ⟨fun q hq => h1 q.1 (List.mem_map_of_mem hq), h2⟩
  · rintro ⟨h1, h2⟩
    refine ⟨?_, h2⟩
    intro a ha
    rcases List.mem_map.1 ha with ⟨q, hq, rfl⟩
    exact h1 q hq

/-- a lookup that finds nothing: no stored key satisfies the probe. -/
theorem lookupP_eq_none_iff {hit : K → Bool} {l : List (K × V)} :
    lookupP hit l = none ↔ ∀ p, p ∈ l → hit p.1 = false := by
  unfold lookupP
  rw [List.find?_eq_none]
  constructor
  · intro hh p hp
    have := hh p hp
    cases hc : hit p.1 with
    | false => rfl
    | true => exact absurd hc this
  · intro hh p hp hc
    rw [hh p hp] at hc
    exact Bool.noConfusion hc

/-- with unique keys, a lookup finds `p` iff `p` is stored and satisfies the probe. -/
theorem lookupP_eq_some_iff {hit : K → Bool} (hp : ProbeOK keq hit) {l : List (K × V)}
    (hn : NodupKeys keq l) {p : K × V} :
    lookupP hit l = some p ↔ p ∈ l ∧ hit p.1 = true := by
  constructor
  · intro hf
    exact ⟨List.mem_of_find?_eq_some hf, List.find?_some (p := fun q : K × V => hit q.1) hf⟩
  · rintro ⟨hmem, hhit⟩
    induction l with
    | nil => cases hmem
    | cons q t ih =>
      rw [nodupKeys_cons] at hn
      unfold lookupP
      rw [List.find?_cons]
      rcases List.mem_cons.1 hmem with rfl | hmem'
      · rw [hhit]
      · cases hq : hit q.1 with
        | true =>
          have h1 := hp.single _ _ hq hhit
          rw [hn.1 p hmem'] at h1
          exact Bool.noConfusion h1
        | false =>
          exact ih hn.2 hmem'

/-- two key-unique lists with the same probe-satisfying entries answer the probe alike. -/
theorem lookupP_congr_mem {hit : K → Bool} (hp : ProbeOK keq hit) {l l' : List (K × V)}
    (hn : NodupKeys keq l)
    (hmem : ∀ p, hit p.1 = true → (p ∈ l ↔ p ∈ l')) : lookupP hit l = lookupP hit l' := by
  cases hl' : lookupP hit l' with
  | none =>
    rw [lookupP_eq_none_iff] at hl' ⊢
    intro p hpl
    cases hc : hit p.1 with
    | false => rfl
    | true =>
      have := hl' p ((hmem p hc).1 hpl)
      rw [hc] at this
      exact this
  | some p =>
    have h1 : p ∈ l' := List.mem_of_find?_eq_some hl'
    have h2 : hit p.1 = true := List.find?_some (p := fun q : K × V => hit q.1) hl'
    exact (lookupP_eq_some_iff hp hn).2 ⟨(hmem p h2).2 h1, h2⟩

/-! ### scan index vs. found pair -/

theorem findIdxP_some_lt {hit : K → Bool} {l : List (K × V)} {i} (h : findIdxP hit l = some i) :
    i < l.length := by
  unfold findIdxP at h
  rw [List.findIdx?_eq_some_iff_getElem] at h
  exact h.1

/-- the scan's index and the found pair agree. -/
theorem lookupP_eq_of_findIdxP {hit : K → Bool} {l : List (K × V)} {i} (h : findIdxP hit l = some i) :
    ∃ hi : i < l.length, lookupP hit l = some l[i] ∧ hit l[i].1 = true := by
  unfold findIdxP at h
  rw [List.findIdx?_eq_some_iff_getElem] at h
  obtain ⟨hi, hh, hlt⟩ := h
  refine ⟨hi, ?_, hh⟩
  unfold lookupP
  rw [List.find?_eq_some_iff_getElem]
  refine ⟨hh, i, hi, rfl, ?_⟩
  intro j hj
  have := hlt j hj
  cases hc : hit l[j].1 with
  | false => rfl
  | true => exact absurd hc this

theorem findIdxP_none_iff {hit : K → Bool} {l : List (K × V)} :
    findIdxP hit l = none ↔ ∀ p, p ∈ l → hit p.1 = false := by
  unfold findIdxP
  exact List.findIdx?_eq_none_iff

theorem lookupP_none_iff {hit : K → Bool} {l : List (K × V)} :
    lookupP hit l = none ↔ findIdxP hit l = none := by
  rw [lookupP_eq_none_iff, findIdxP_none_iff]

/-- with unique keys, any position whose key satisfies the probe is the one the scan finds. -/
theorem findIdxP_unique (h : EquivB keq) {hit : K → Bool} (hp : ProbeOK keq hit) {l : List (K × V)}
    (hn : NodupKeys keq l) {i} (hi : i < l.length) (hh : hit l[i].1 = true) :
    findIdxP hit l = some i := by
  unfold findIdxP
  rw [List.findIdx?_eq_some_iff_getElem]
  refine ⟨hi, hh, ?_⟩
  intro j hj hc
  have hjl : j < l.length := Nat.lt_trans hj hi
  have h1 := hp.single _ _ hc hh
  rw [(nodupKeys_iff_getElem h).1 hn j i hjl hi (Nat.ne_of_lt hj)] at h1
  exact Bool.noConfusion h1

/-! ### overwrite in place (`insert` / `insert_key_value` on a present key, `get_mut`) -/

theorem nodupKeys_set (h : EquivB keq) {l : List (K × V)} (hn : NodupKeys keq l) {i} (hi : i < l.length)
    (k' : K) (v' : V) (hk : keq l[i].1 k' = true) : NodupKeys keq (l.set i (k', v')) := by
  rw [nodupKeys_iff_getElem h] at hn ⊢
  intro a b ha hb hab
  have ha' : a < l.length := by rw [List.length_set] at ha; exact ha
  have hb' : b < l.length := by rw [List.length_set] at hb; exact hb
  rw [List.getElem_set, List.getElem_set]
  by_cases hia : i = a
  · have hib : ¬ i = b := fun hib => hab (hia.symm.trans hib)
    rw [if_pos hia, if_neg hib]
    cases hc : keq k' l[b].1 with
    | false => rfl
    | true =>
      have h1 := h.trans _ _ _ hk hc
      rw [hn i b hi hb' hib] at h1
      exact Bool.noConfusion h1
  · rw [if_neg hia]
    by_cases hib : i = b
    · rw [if_pos hib]
      cases hc : keq l[a].1 k' with
      | false => rfl
      | true =>
        have hk' : keq k' l[i].1 = true := by rw [h.symm]; exact hk
        have h1 := h.trans _ _ _ hc hk'
        rw [hn a i ha' hi (fun e => hia e.symm)] at h1
        exact Bool.noConfusion h1
    · rw [if_neg hib]
      exact hn a b ha' hb' hab

/-- replacing slot `i` by a pair whose key is equal to the old key: the probe that hits that key
    now finds the new pair, every other probe is unaffected. -/
theorem lookupP_set (h : EquivB keq) {hit : K → Bool} (hp : ProbeOK keq hit) {l : List (K × V)}
    (hn : NodupKeys keq l) {i} (hi : i < l.length) (k' : K) (v' : V) (hk : keq l[i].1 k' = true) :
    lookupP hit (l.set i (k', v')) = if hit k' then some (k', v') else lookupP hit l := by
  have hn' := nodupKeys_set h hn hi k' v' hk
  cases hc : hit k' with
  | true =>
    rw [if_pos rfl]
    exact (lookupP_eq_some_iff hp hn').2 ⟨List.mem_set hi _, hc⟩
  | false =>
    rw [if_neg (by simp)]
    apply lookupP_congr_mem hp hn'
    intro p hpt
    have hli : hit l[i].1 = false := by rw [hp.congr _ _ hk]; exact hc
    constructor
    · intro hm
      rcases List.mem_or_eq_of_mem_set hm with hm' | rfl
      · exact hm'
      · rw [hc] at hpt; exact Bool.noConfusion hpt
    · intro hm
      rcases List.mem_iff_getElem.1 hm with ⟨j, hj, rfl⟩
      have hij : ¬ i = j := by
        intro e
        subst e
        rw [hli] at hpt
        exact Bool.noConfusion hpt
      have hj' : j < (l.set i (k', v')).length := by rw [List.length_set]; exact hj
      have : (l.set i (k', v'))[j] = l[j] := by rw [List.getElem_set, if_neg hij]
      rw [← this]
      exact List.getElem_mem hj'

/-! ### append (`insert` of an absent key) -/

theorem lookupP_append {hit : K → Bool} {l : List (K × V)} (k : K) (v : V) :
    lookupP hit (l ++ [(k, v)]) = match lookupP hit l with
      | some p => some p
      | none => if hit k then some (k, v) else none := by
  unfold lookupP
  rw [List.find?_append]
  cases List.find? (fun p => hit p.1) l with
  | some p => rfl
  | none =>
    cases hc : hit k <;> simp [hc]

/-- appending a key that no stored key equals keeps keys unique. -/
theorem nodupKeys_append (h : EquivB keq) {l : List (K × V)} (hn : NodupKeys keq l) (k : K) (v : V)
    (habs : ∀ p, p ∈ l → keq p.1 k = false) : NodupKeys keq (l ++ [(k, v)]) := by
  have _ := h
  unfold NodupKeys NodupB at *
  rw [List.map_append, List.pairwise_append]
  refine ⟨hn, by simp, ?_⟩
  intro a ha b hb
  rcases List.mem_map.1 ha with ⟨q, hq, rfl⟩
  simp at hb
  subst hb
  exact habs q hq

/-! ### swap-remove (`remove`, `remove_entry`, `retain`, entry removal) -/

theorem swapRemove_last (a : List (K × V)) (x : K × V) :
    swapRemove (a ++ [x]) a.length = a := by
  unfold swapRemove
  simp

theorem swapRemove_mid (a b : List (K × V)) (x y : K × V) :
    swapRemove (a ++ x :: (b ++ [y])) a.length = a ++ y :: b := by
  unfold swapRemove
  have hne : ¬ (a.length + 1 = (a ++ x :: (b ++ [y])).length) := by
    simp
  rw [if_neg hne]
  have hl : (a ++ x :: (b ++ [y])).getLast? = some y := by
    simp [List.getLast?_append, List.getLast?_cons]
  rw [hl]
  show ((a ++ x :: (b ++ [y])).set a.length y).dropLast = a ++ y :: b
  rw [List.set_append, if_neg (Nat.lt_irrefl _), Nat.sub_self, List.set_cons_zero]
  have : a ++ y :: (b ++ [y]) = (a ++ y :: b) ++ [y] := by simp
  rw [this, List.dropLast_concat]

/-- the two shapes of a swap-remove. -/
theorem swapRemove_cases {l : List (K × V)} {i} (hi : i < l.length) :
    (∃ a x, l = a ++ [x] ∧ a.length = i ∧ swapRemove l i = a) ∨
    (∃ a x b y, l = a ++ x :: (b ++ [y]) ∧ a.length = i ∧ swapRemove l i = a ++ y :: b) := by
  have hl : l = l.take i ++ l[i] :: l.drop (i + 1) := by
    rw [← List.drop_eq_getElem_cons hi, List.take_append_drop]
  have hlen : (l.take i).length = i := by
    rw [List.length_take]; omega
  rcases List.eq_nil_or_concat (l.drop (i + 1)) with hb | ⟨b, y, hb⟩
  · left
    refine ⟨l.take i, l[i], ?_, hlen, ?_⟩
    · rw [hb] at hl; exact hl
    · rw [hb] at hl
      have := swapRemove_last (l.take i) l[i]
      rw [← hl, hlen] at this
      exact this
  · right
    rw [List.concat_eq_append] at hb
    refine ⟨l.take i, l[i], b, y, ?_, hlen, ?_⟩
    · rw [hb] at hl; exact hl
    · rw [hb] at hl
      have := swapRemove_mid (l.take i) b l[i] y
      rw [← hl, hlen] at this
      exact this

theorem swapRemove_length {l : List (K × V)} {i} (hi : i < l.length) :
    (swapRemove l i).length = l.length - 1 := by
  rcases swapRemove_cases hi with ⟨a, x, hl, _, hs⟩ | ⟨a, x, b, y, hl, _, hs⟩
  · rw [hs, hl]; simp
  · rw [hs, hl]; simp

/-- swap-remove is removal up to order. -/
theorem swapRemove_perm {l : List (K × V)} {i} (hi : i < l.length) :
    (swapRemove l i).Perm (l.eraseIdx i) := by
  rcases swapRemove_cases hi with ⟨a, x, hl, ha, hs⟩ | ⟨a, x, b, y, hl, ha, hs⟩
  · rw [hs, hl, ← ha, List.eraseIdx_append_of_length_le (Nat.le_refl _), Nat.sub_self]
    simp
  · rw [hs, hl, ← ha, List.eraseIdx_append_of_length_le (Nat.le_refl _), Nat.sub_self]
    show (a ++ y :: b).Perm (a ++ (b ++ [y]))
    exact List.Perm.append_left a (List.perm_append_singleton y b).symm

/-- swap-remove at `i` leaves the prefix before `i` untouched and permutes the rest. -/
theorem swapRemove_take_drop {l : List (K × V)} {i} (hi : i < l.length) :
    (swapRemove l i).take i = l.take i ∧ ((swapRemove l i).drop i).Perm (l.drop (i + 1)) := by
  rcases swapRemove_cases hi with ⟨a, x, hl, ha, hs⟩ | ⟨a, x, b, y, hl, ha, hs⟩
  · rw [hs, hl, ← ha]
    constructor
    · rw [List.take_left' rfl, List.take_length]
    · rw [List.drop_length]
      have : a ++ [x] = (a ++ [x]) ++ [] := by simp
      rw [this, List.drop_left' (by simp)]
  · rw [hs, hl, ← ha]
    constructor
    · rw [List.take_left' rfl, List.take_left' rfl]
    · rw [List.drop_left' rfl]
      have : a ++ x :: (b ++ [y]) = (a ++ [x]) ++ (b ++ [y]) := by simp
      rw [this, List.drop_left' (by simp)]
      exact (List.perm_append_singleton y b).symm

theorem nodupKeys_swapRemove (h : EquivB keq) {l : List (K × V)} (hn : NodupKeys keq l) {i}
    (hi : i < l.length) : NodupKeys keq (swapRemove l i) :=
  nodupKeys_of_perm h (nodupKeys_of_sublist hn (List.eraseIdx_sublist l i)) (swapRemove_perm hi).symm

/-- lookups only depend on the set of entries, not on their order, when keys are unique. -/
theorem lookupP_perm (h : EquivB keq) {hit : K → Bool} (hp : ProbeOK keq hit) {l l' : List (K × V)}
    (hn : NodupKeys keq l) (hperm : l.Perm l') : lookupP hit l = lookupP hit l' := by
  have _ := h
  exact lookupP_congr_mem hp hn (fun _ _ => hperm.mem_iff)

/-- after removing slot `i`, probes hitting its key find nothing, all others are unaffected. -/
theorem lookupP_swapRemove (h : EquivB keq) {hit : K → Bool} (hp : ProbeOK keq hit) {l : List (K × V)}
    (hn : NodupKeys keq l) {i} (hi : i < l.length) :
    lookupP hit (swapRemove l i) = if hit l[i].1 then none else lookupP hit l := by
  have hne : NodupKeys keq (l.eraseIdx i) := nodupKeys_of_sublist hn (List.eraseIdx_sublist l i)
  rw [← lookupP_perm h hp hne (swapRemove_perm hi).symm]
  have hidx := (nodupKeys_iff_getElem h).1 hn
  cases hc : hit l[i].1 with
  | true =>
    rw [if_pos rfl, lookupP_eq_none_iff]
    intro p hpm
    rcases List.mem_eraseIdx_iff_getElem.1 hpm with ⟨j, hj, hji, rfl⟩
    cases hcj : hit l[j].1 with
    | false => rfl
    | true =>
      have h1 := hp.single _ _ hcj hc
      rw [hidx j i hj hi hji] at h1
      exact Bool.noConfusion h1
  | false =>
    rw [if_neg (by simp)]
    apply lookupP_congr_mem hp hne
    intro p hpt
    constructor
    · intro hm
      exact (List.eraseIdx_sublist l i).mem hm
    · intro hm
      rcases List.mem_iff_getElem.1 hm with ⟨j, hj, rfl⟩
      refine List.mem_eraseIdx_iff_getElem.2 ⟨j, hj, ?_, rfl⟩
      intro e
      subst e
      rw [hc] at hpt
      exact Bool.noConfusion hpt

/-! ### `retain` -/

/-- the loop invariant of `retain`: the prefix before `i` is final, the rest is still to filter. -/
theorem retainL_perm_aux (f : K → V → Bool × V) :
    ∀ (fuel i : Nat) (l : List (K × V)), i + fuel = l.length →
      (retainL f fuel i l).Perm
        (l.take i ++ (l.drop i).filterMap
          fun p => if (f p.1 p.2).1 then some (p.1, (f p.1 p.2).2) else none) := by
  intro fuel
  induction fuel with
  | zero =>
    intro i l hlen
    have : i = l.length := by omega
    subst this
    simp [retainL]
  | succ fuel ih =>
    intro i l hlen
    have hi : i < l.length := by omega
    unfold retainL
    rw [List.getElem?_eq_getElem hi]
    simp only []
    have hdrop : l.drop i = l[i] :: l.drop (i + 1) := List.drop_eq_getElem_cons hi
    cases hk : (f l[i].1 l[i].2).1 with
    | true =>
      rw [if_pos rfl]
      have hlen1 : (i + 1) + fuel = (l.set i (l[i].1, (f l[i].1 l[i].2).2)).length := by
        rw [List.length_set]; omega
      refine (ih (i + 1) _ hlen1).trans ?_
      rw [hdrop, List.filterMap_cons, hk]
      simp only [if_true]
      rw [List.drop_set, if_pos (Nat.lt_succ_self i)]
      have ht : List.take (i + 1) (l.set i (l[i].1, (f l[i].1 l[i].2).2))
          = l.take i ++ [(l[i].1, (f l[i].1 l[i].2).2)] := by
        rw [List.take_set, List.take_succ_eq_append_getElem hi, List.set_append,
          if_neg (by rw [List.length_take]; omega)]
        have : i - (List.take i l).length = 0 := by rw [List.length_take]; omega
        rw [this, List.set_cons_zero]
      rw [ht, List.append_assoc]
      exact List.Perm.refl _
    | false =>
      rw [if_neg (by simp)]
      have hi1 : i < (l.set i (l[i].1, (f l[i].1 l[i].2).2)).length := by
        rw [List.length_set]; exact hi
      have hlen1 : i + fuel = (swapRemove (l.set i (l[i].1, (f l[i].1 l[i].2).2)) i).length := by
        rw [swapRemove_length hi1, List.length_set]; omega
      refine (ih i _ hlen1).trans ?_
      obtain ⟨htake, hdropp⟩ := swapRemove_take_drop hi1
      rw [htake, hdrop, List.filterMap_cons, hk]
      simp only [Bool.false_eq_true, if_false]
      rw [List.take_set, List.set_eq_of_length_le (by rw [List.length_take]; omega)]
      apply List.Perm.append_left
      apply List.Perm.filterMap
      refine hdropp.trans ?_
      rw [List.drop_set, if_pos (Nat.lt_succ_self i)]

/-- `retain` keeps exactly the entries whose predicate answers `true`, with the value the
    predicate left behind, each once; `fuel` is the loop measure `len - i`. -/
theorem retainL_perm (f : K → V → Bool × V) (l : List (K × V)) :
    (retainL f l.length 0 l).Perm
      (l.filterMap fun p => if (f p.1 p.2).1 then some (p.1, (f p.1 p.2).2) else none) := by
  have := retainL_perm_aux f l.length 0 l (by omega)
  simpa using this

theorem nodupKeys_filterMap_retain (f : K → V → Bool × V) {l : List (K × V)}
    (hn : NodupKeys keq l) :
    NodupKeys keq
      (l.filterMap fun p => if (f p.1 p.2).1 then some (p.1, (f p.1 p.2).2) else none) := by
  unfold NodupKeys NodupB at *
  rw [List.pairwise_map] at hn ⊢
  refine List.Pairwise.filterMap _ ?_ hn
  intro a a' hr b hb b' hb'
  split at hb
  · split at hb'
    · cases hb; cases hb'; exact hr
    · cases hb'
  · cases hb

theorem nodupKeys_retainL (h : EquivB keq) (f : K → V → Bool × V) {l : List (K × V)}
    (hn : NodupKeys keq l) : NodupKeys keq (retainL f l.length 0 l) :=
  nodupKeys_of_perm h (nodupKeys_filterMap_retain f hn) (retainL_perm f l).symm

/-- lookups after `retain`. -/
theorem lookupP_retainL (h : EquivB keq) {hit : K → Bool} (hp : ProbeOK keq hit) (f : K → V → Bool × V)
    {l : List (K × V)} (hn : NodupKeys keq l) :
    lookupP hit (retainL f l.length 0 l) =
      (lookupP hit l).bind fun p => if (f p.1 p.2).1 then some (p.1, (f p.1 p.2).2) else none := by
  have hnf := nodupKeys_filterMap_retain f hn
  rw [← lookupP_perm h hp hnf (retainL_perm f l).symm]
  cases hl : lookupP hit l with
  | none =>
    rw [Option.bind_none, lookupP_eq_none_iff]
    rw [lookupP_eq_none_iff] at hl
    intro q hq
    rcases List.mem_filterMap.1 hq with ⟨p, hpm, hg⟩
    split at hg
    · cases hg; exact hl p hpm
    · cases hg
  | some p =>
    rw [Option.bind_some]
    obtain ⟨hpm, hph⟩ := (lookupP_eq_some_iff hp hn).1 hl
    cases hk : (f p.1 p.2).1 with
    | true =>
      rw [if_pos rfl]
      refine (lookupP_eq_some_iff hp hnf).2 ⟨?_, hph⟩
      exact List.mem_filterMap.2 ⟨p, hpm, by rw [hk, if_pos rfl]⟩
    | false =>
      rw [if_neg (by simp), lookupP_eq_none_iff]
      intro q hq
      rcases List.mem_filterMap.1 hq with ⟨p', hpm', hg⟩
      split at hg
      · rename_i hk'
        cases hg
        cases hc : hit p'.1 with
        | false => rfl
        | true =>
          have := (lookupP_eq_some_iff hp hn).2 ⟨hpm', hc⟩
          rw [hl] at this
          cases this
          rw [hk] at hk'
          exact Bool.noConfusion hk'
      · cases hg

/-- every stored entry can be looked up by its own key and yields itself. -/
theorem lookupP_self (h : EquivB keq) {l : List (K × V)} (hn : NodupKeys keq l) {i} (hi : i < l.length) :
    lookupP (fun k => keq k l[i].1) l = some l[i] := by
  have hp : ProbeOK keq (fun k => keq k l[i].1) := by
    constructor
    · intro a b hab
      show keq a l[i].1 = keq b l[i].1
      cases hb : keq b l[i].1 with
      | true => exact h.trans _ _ _ hab hb
      | false =>
        cases ha : keq a l[i].1 with
        | false => rfl
        | true =>
          have hba : keq b a = true := by rw [h.symm]; exact hab
          have := h.trans _ _ _ hba ha
          rw [hb] at this
          exact Bool.noConfusion this
    · intro a b ha hb
      have ha : keq a l[i].1 = true := ha
      have hb : keq l[i].1 b = true := by rw [h.symm]; exact hb
      exact h.trans _ _ _ ha hb
  exact (lookupP_eq_some_iff hp hn).2 ⟨List.getElem_mem hi, h.refl _⟩

end Micromap.Dict
