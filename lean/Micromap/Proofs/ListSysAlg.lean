/-
The lazy set operations: `algOp` (scripts over `difference` / `intersection` / `union` /
`symmetric_difference`) computes `lAlgScript`; the set predicates compute the list-level codes.
All of them are read-only (`QEx`).
-/
import Micromap.Proofs.ListSysBase

namespace Micromap.ListSys
open Micromap Alg
variable {K V Q : Type}

/-- what a read-only computation is known to satisfy under any oracle also holds of the value it
    evaluates to. -/
theorem QEx.transfer {α : Type} {m : SM K V Q α} {x : α} {Qv : α → Prop} (h : QEx m x)
    (hq : Alg.Quiet m Qv) : Qv x := by
  have hb : Benign (⟨Raw.new 0, {}⟩ : St K V Q).w := ⟨rfl, rfl⟩
  obtain ⟨a, s1, h1, _, _, ha⟩ := Alg.Quiet.run h hb
  obtain ⟨a', s2, h2, _, _, ha'⟩ := Alg.Quiet.run hq hb
  rw [h1] at h2
  cases h2
  subst ha
  exact ha'

variable (E : Env K V Q)

section halves
variable (hE : E.Pure) {a b : Raw K V} {la lb : List (K × V)} (hra : Rep a la) (hrb : Rep b lb)
include hE hra hrb

theorem filtNextR_qex (want : Bool) : ∀ n lo, (0 < n → lo + n ≤ la.length) →
    QEx (filtNextR E a b want n lo) (lFiltNextR E la lb want n lo)
  | 0, lo, _ => QEx.pure _
  | n + 1, lo, hn => by
    have hn := hn (Nat.succ_pos n)
    have hl : lo < la.length := by omega
    unfold filtNextR
    simp only [lFiltNextR, List.getElem?_eq_getElem hl]
    refine QEx.bind (QEx.itemRefR hra hl) ?_
    refine QEx.bind (QEx.scanR E hE hrb _) ?_
    exact QEx.ite (fun _ => QEx.pure _)
      (fun _ => filtNextR_qex want n (lo + 1) (fun _ => by omega))

theorem filtNext_qex (want : Bool) (it : SliceIt) (hit : it.hi ≤ la.length) :
    QEx (filtNext E a b want it) (lFiltNext E la lb want it) := by
  unfold filtNext lFiltNext
  refine QEx.bind (filtNextR_qex E hE hra hrb want it.len it.lo
    (fun h => by unfold SliceIt.len at *; omega)) ?_
  generalize lFiltNextR E la lb want it.len it.lo = r
  obtain ⟨o, lo'⟩ := r
  exact QEx.pure _

end halves

theorem iterNextR_qex {r : Raw K V} {l : List (K × V)} (hr : Rep r l) (it : SliceIt) (hit : it.hi ≤ l.length) :
    QEx (iterNextR r it : SM K V Q _) (lIterNext l it) := by
  unfold iterNextR lIterNext
  by_cases h : it.lo < it.hi
  · have hl : it.lo < l.length := by omega
    simp only [h, if_true, List.getElem?_eq_getElem hl]
    exact QEx.bind (QEx.itemRefR hr hl) (QEx.pure _)
  · simp only [h, if_false]
    exact QEx.pure _

section next
variable (hE : E.Pure) {a b : Raw K V} {la lb : List (K × V)} (hra : Rep a la) (hrb : Rep b lb)
include hE hra hrb

theorem algFstNext_qex (kind : AlgKind) (it : SliceIt)
    (hit : it.hi ≤ (if kind = .union then lb.length else la.length)) :
    QEx (algFstNext E a b kind it) (lAlgFstNext E la lb kind it) := by
  cases kind <;> simp only [algFstNext, lAlgFstNext]
  · refine QEx.bind (filtNext_qex E hE hra hrb false it (by simpa using hit)) ?_
    generalize lFiltNext E la lb false it = r
    obtain ⟨o, it'⟩ := r
    exact QEx.pure _
  · refine QEx.bind (filtNext_qex E hE hra hrb true it (by simpa using hit)) ?_
    generalize lFiltNext E la lb true it = r
    obtain ⟨o, it'⟩ := r
    exact QEx.pure _
  · refine QEx.bind (iterNextR_qex hrb it (by simpa using hit)) ?_
    generalize lIterNext lb it = r
    obtain ⟨o, it'⟩ := r
    exact QEx.pure _
  · refine QEx.bind (filtNext_qex E hE hra hrb false it (by simpa using hit)) ?_
    generalize lFiltNext E la lb false it = r
    obtain ⟨o, it'⟩ := r
    exact QEx.pure _

theorem algSndNext_qex (kind : AlgKind) (it : SliceIt)
    (hit : it.hi ≤ (if kind = .union then la.length else lb.length)) :
    QEx (algSndNext E a b kind it) (lAlgSndNext E la lb kind it) := by
  cases kind <;> simp only [algSndNext, lAlgSndNext]
  · refine QEx.bind (filtNext_qex E hE hrb hra false it (by simpa using hit)) ?_
    generalize lFiltNext E lb la false it = r
    obtain ⟨o, it'⟩ := r
    exact QEx.pure _
  · refine QEx.bind (filtNext_qex E hE hrb hra false it (by simpa using hit)) ?_
    generalize lFiltNext E lb la false it = r
    obtain ⟨o, it'⟩ := r
    exact QEx.pure _
  · refine QEx.bind (filtNext_qex E hE hra hrb false it (by simpa using hit)) ?_
    generalize lFiltNext E la lb false it = r
    obtain ⟨o, it'⟩ := r
    exact QEx.pure _
  · refine QEx.bind (filtNext_qex E hE hrb hra false it (by simpa using hit)) ?_
    generalize lFiltNext E lb la false it = r
    obtain ⟨o, it'⟩ := r
    exact QEx.pure _

/-- the plain adaptors. -/
theorem algNext_plain_qex (kind : AlgKind) (hk : kind = .difference ∨ kind = .intersection)
    (fst snd : Option SliceIt) (hs : AlgInv la.length lb.length ⟨kind, fst, snd⟩) :
    QEx (algNext E a b ⟨kind, fst, snd⟩) (lAlgNext E la lb ⟨kind, fst, snd⟩) := by
  have hku : kind ≠ .union := by rcases hk with rfl | rfl <;> simp
  cases fst with
  | none => rcases hk with rfl | rfl <;> exact QEx.pure _
  | some it =>
    have hit := hs.fst it rfl
    simp only [hku, if_false] at hit
    have h := algFstNext_qex E hE hra hrb kind it (by simpa [hku] using hit)
    rcases hk with rfl | rfl
    · simp only [algNext, lAlgNext]
      refine QEx.bind h ?_
      generalize lAlgFstNext E la lb .difference it = r
      obtain ⟨o, it'⟩ := r
      exact QEx.pure _
    · simp only [algNext, lAlgNext]
      refine QEx.bind h ?_
      generalize lAlgFstNext E la lb .intersection it = r
      obtain ⟨o, it'⟩ := r
      exact QEx.pure _

/-- the chains (`union`, `symmetric_difference`). -/
theorem algNext_chain_qex (kind : AlgKind) (hk : kind = .union ∨ kind = .symmetric_difference)
    (fst snd : Option SliceIt) (hs : AlgInv la.length lb.length ⟨kind, fst, snd⟩) :
    QEx (algNext E a b ⟨kind, fst, snd⟩) (lAlgNext E la lb ⟨kind, fst, snd⟩) := by
  -- the second half, from a state whose first half did not yield
  have hsnd : ∀ fst' : Option SliceIt,
      QEx (match (generalizing := false) snd with
          | some it => algSndNext E a b kind it >>= fun x =>
              pure (x.1, ({ kind := kind, fst := fst', snd := some x.2 } : AlgIt))
          | none => pure (none, ⟨kind, fst', snd⟩))
        (match (generalizing := false) snd with
          | some it =>
            ((lAlgSndNext E la lb kind it).1,
              ({ kind := kind, fst := fst', snd := some (lAlgSndNext E la lb kind it).2 } : AlgIt))
          | none => (none, ⟨kind, fst', snd⟩)) := by
    intro fst'
    cases snd with
    | none => exact QEx.pure _
    | some it =>
      have hit := hs.snd it rfl
      refine QEx.bind (algSndNext_qex E hE hra hrb kind it hit) ?_
      exact QEx.pure _
  cases fst with
  | none =>
    rcases hk with rfl | rfl
    · simp only [algNext, lAlgNext]
      exact QEx.bind (QEx.pure _) (hsnd none)
    · simp only [algNext, lAlgNext]
      exact QEx.bind (QEx.pure _) (hsnd none)
  | some it =>
    rcases hk with rfl | rfl
    ·
      have hit := hs.fst it rfl
      have h1 : QEx (algFstNext E a b AlgKind.union it >>= fun __x =>
            (match __x.fst with
              | some x => pure (some x, ({ kind := AlgKind.union, fst := some __x.snd, snd := snd } : AlgIt))
              | none => pure (none, ({ kind := AlgKind.union, fst := none, snd := snd } : AlgIt)) :
              SM K V Q (Option (AlgItem K) × AlgIt)))
          (match (lAlgFstNext E la lb AlgKind.union it).fst with
            | some x => (some x, ({ kind := AlgKind.union, fst := some (lAlgFstNext E la lb AlgKind.union it).snd, snd := snd } : AlgIt))
            | none => (none, ({ kind := AlgKind.union, fst := none, snd := snd } : AlgIt))) := by
        refine QEx.bind (algFstNext_qex E hE hra hrb AlgKind.union it hit) ?_
        generalize lAlgFstNext E la lb AlgKind.union it = r
        obtain ⟨o, it'⟩ := r
        cases o <;> exact QEx.pure _
      simp only [algNext, lAlgNext]
      refine QEx.bind h1 ?_
      generalize lAlgFstNext E la lb AlgKind.union it = r
      obtain ⟨o, it'⟩ := r
      cases o with
      | some x => exact QEx.pure _
      | none => exact hsnd none
    ·
      have hit := hs.fst it rfl
      have h1 : QEx (algFstNext E a b AlgKind.symmetric_difference it >>= fun __x =>
            (match __x.fst with
              | some x => pure (some x, ({ kind := AlgKind.symmetric_difference, fst := some __x.snd, snd := snd } : AlgIt))
              | none => pure (none, ({ kind := AlgKind.symmetric_difference, fst := none, snd := snd } : AlgIt)) :
              SM K V Q (Option (AlgItem K) × AlgIt)))
          (match (lAlgFstNext E la lb AlgKind.symmetric_difference it).fst with
            | some x => (some x, ({ kind := AlgKind.symmetric_difference, fst := some (lAlgFstNext E la lb AlgKind.symmetric_difference it).snd, snd := snd } : AlgIt))
            | none => (none, ({ kind := AlgKind.symmetric_difference, fst := none, snd := snd } : AlgIt))) := by
        refine QEx.bind (algFstNext_qex E hE hra hrb AlgKind.symmetric_difference it hit) ?_
        generalize lAlgFstNext E la lb AlgKind.symmetric_difference it = r
        obtain ⟨o, it'⟩ := r
        cases o <;> exact QEx.pure _
      simp only [algNext, lAlgNext]
      refine QEx.bind h1 ?_
      generalize lAlgFstNext E la lb AlgKind.symmetric_difference it = r
      obtain ⟨o, it'⟩ := r
      cases o with
      | some x => exact QEx.pure _
      | none => exact hsnd none

theorem algNext_qex (s : AlgIt) (hs : AlgInv la.length lb.length s) :
    QEx (algNext E a b s) (lAlgNext E la lb s) := by
  obtain ⟨kind, fst, snd⟩ := s
  cases kind with
  | difference => exact algNext_plain_qex E hE hra hrb _ (Or.inl rfl) fst snd hs
  | intersection => exact algNext_plain_qex E hE hra hrb _ (Or.inr rfl) fst snd hs
  | union => exact algNext_chain_qex E hE hra hrb _ (Or.inl rfl) fst snd hs
  | symmetric_difference => exact algNext_chain_qex E hE hra hrb _ (Or.inr rfl) fst snd hs

/-- what `next` is known to preserve, read off the list-level function. -/
theorem lAlgNext_post (s : AlgIt) (hs : AlgInv la.length lb.length s) :
    NextPost E.keq la lb E.Pure s (lAlgNext E la lb s) :=
  (algNext_qex E hE hra hrb s hs).transfer (algNext_quiet E hra hrb s hs)

end next

theorem algHint_eq (a b : Raw K V) (s : AlgIt) : algHint a b s = lAlgHint a.len b.len s := by
  obtain ⟨kind, fst, snd⟩ := s
  cases kind <;> cases fst <;> cases snd <;> rfl

/-! ### scripts (set registers: `V = ()`) -/

section script
variable {K Q : Type} (F : Env K Unit Q) (hF : F.Pure) {a b : Raw K Unit} {la lb : List (K × Unit)}
  (hra : Rep a la) (hrb : Rep b lb)

/-- a well-formed iterator state over the two operands, with the bound that makes the model's
    fuel `|a| + |b| + 1` sufficient. -/
def ItOK (na nb : Nat) (it : AlgIt) : Prop := AlgInv na nb it ∧ meas it ≤ na + nb

include hF hra hrb

theorem algRunOut_qex (it : AlgIt) (h : ItOK la.length lb.length it) :
    QEx (algRunOut F a b (a.len + b.len + 1) it) (algRest F.keq la lb it) :=
  QEx.of_quiet (algRunOut_quiet F hra hrb _ it h.1 (by rw [hra.1, hrb.1]; have := h.2; omega))
    (fun _ hr => hr.2.2 hF)

theorem algFold_qex (it : AlgIt) (h : ItOK la.length lb.length it) :
    QEx (algFold F a b it) (algRest F.keq la lb it) :=
  QEx.of_quiet (algFold_quiet F hra hrb it h.1) (fun _ hr => hr.2 hF)

theorem algRunForks_qex : ∀ (forks : List AlgIt), (∀ f ∈ forks, ItOK la.length lb.length f) →
    QEx (algRunForks F a b forks) (forks.map fun f => RV.list ((algRest F.keq la lb f).map algItemRV))
  | [], _ => QEx.pure _
  | f :: fs, h => by
    unfold algRunForks
    refine QEx.bind (algRunOut_qex F hF hra hrb f (h f (by simp))) ?_
    refine QEx.bind (algRunForks_qex fs (fun f' hf' => h f' (by simp [hf']))) ?_
    exact QEx.pure _

/-- **scripts over the lazy set operations** compute `lAlgScript`. -/
theorem algScript_qex (dbg : Bool → K → String) : ∀ (cs : List IterCmd) (it : AlgIt) (forks : List AlgIt),
    ItOK la.length lb.length it → (∀ f ∈ forks, ItOK la.length lb.length f) →
    QEx (algScript F dbg a b cs it forks) (lAlgScript F dbg la lb cs it forks)
  | [], it, forks, _, hf => by
    simp only [algScript, lAlgScript]
    exact algRunForks_qex F hF hra hrb forks hf
  | c :: cs, it, forks, h, hf => by
    cases c with
    | next =>
      simp only [algScript, lAlgScript]
      have hp := lAlgNext_post F hF hra hrb it h.1
      refine QEx.bind (algNext_qex F hF hra hrb it h.1) ?_
      generalize lAlgNext F la lb it = r at hp ⊢
      obtain ⟨o, it'⟩ := r
      have h' : ItOK la.length lb.length it' := ⟨hp.2.1, Nat.le_trans hp.2.2.1 h.2⟩
      exact QEx.bind (algScript_qex dbg cs it' forks h' hf) (QEx.pure _)
    | hint =>
      simp only [algScript, lAlgScript, algHint_eq, hra.1, hrb.1]
      exact QEx.bind (algScript_qex dbg cs it forks h hf) (QEx.pure _)
    | len =>
      simp only [algScript, lAlgScript]
      exact algScript_qex dbg cs it forks h hf
    | debug =>
      simp only [algScript, lAlgScript]
      refine QEx.bind (algRunOut_qex F hF hra hrb it h) ?_
      exact QEx.bind (algScript_qex dbg cs it forks h hf) (QEx.pure _)
    | debugAlt =>
      simp only [algScript, lAlgScript]
      refine QEx.bind (algRunOut_qex F hF hra hrb it h) ?_
      exact QEx.bind (algScript_qex dbg cs it forks h hf) (QEx.pure _)
    | clone =>
      simp only [algScript, lAlgScript]
      refine algScript_qex dbg cs it (forks ++ [it]) h (fun f hfm => ?_)
      rcases List.mem_append.mp hfm with h1 | h1
      · exact hf f h1
      · simp at h1; subst h1; exact h
    | count =>
      simp only [algScript, lAlgScript]
      refine QEx.bind (algFold_qex F hF hra hrb it h) ?_
      exact QEx.bind (algRunForks_qex F hF hra hrb forks hf) (QEx.pure _)
    | fold =>
      simp only [algScript, lAlgScript]
      refine QEx.bind (algFold_qex F hF hra hrb it h) ?_
      exact QEx.bind (algRunForks_qex F hF hra hrb forks hf) (QEx.pure _)

theorem algOp_qex (dbg : Bool → K → String) (kind : AlgKind) (script : List IterCmd) :
    QEx (algOp F dbg kind a b script)
      (lAlgScript F dbg la lb script (startIt la.length lb.length kind) []) := by
  unfold algOp
  refine QEx.bind (QEx.of_eq (algStart_eq hra hrb kind)) ?_
  exact algScript_qex F hF hra hrb dbg script _ []
    ⟨startIt_inv _ _ kind, startIt_meas _ _ kind⟩ (fun _ h => by simp at h)

theorem is_subset_qex :
    QEx (is_subset F a b) (SetAlg.isSubsetCode F.keq (la.map (·.1)) (lb.map (·.1))) :=
  QEx.of_quiet (is_subset_quiet F hra hrb) (fun _ h => h hF)

theorem is_superset_qex :
    QEx (is_superset F a b) (SetAlg.isSubsetCode F.keq (lb.map (·.1)) (la.map (·.1))) :=
  QEx.of_quiet (is_superset_quiet F hra hrb) (fun _ h => h hF)

theorem is_disjoint_qex :
    QEx (is_disjoint F a b) (SetAlg.isDisjointCode F.keq (la.map (·.1)) (lb.map (·.1))) :=
  QEx.of_quiet (is_disjoint_quiet F hra hrb) (fun _ h => h hF)

end script

end Micromap.ListSys
