/-
Triples of `get_disjoint_mut` / `get_disjoint_unchecked_mut`: the pairwise overlap pre-check,
the pass over the map that fills the index stack, the (immaterial) sort and the back-to-front
`split_at_mut`.
-/
import Micromap.Proofs.MapApi
import Micromap.Proofs.Bulk
import Micromap.Proofs.Bridge
import Micromap.Proofs.SetAlgLaws

namespace Micromap.Disjoint
variable {K V Q : Type} (E : Env K V Q)

/-! ### time-independent readings of the two comparisons -/

/-- `k.borrow() == p.0.borrow()`: request on the left, stored key on the right. -/
def rhit (stored : K) : Probe K Q → Bool
  | .key k => E.keq k stored
  | .q q => E.qeq q (E.borrow stored)

/-- `k == k_behind` between two requests. -/
def reqHit : Probe K Q → Probe K Q → Bool
  | .key a, .key b => E.keq a b
  | .q a, .q b => E.qeq a b
  | .key a, .q b => E.qeq (E.borrow a) b
  | .q a, .key b => E.qeq a (E.borrow b)

/-- the requests are pairwise different (what the pre-check asserts). -/
def Unequal (ks : List (Probe K Q)) : Prop := ks.Pairwise fun a b => reqHit E a b = false

theorem reqEq_cb (a b : Probe K Q) :
    CbOk (reqEq E a b) (fun _ => []) (fun _ r => E.Pure → r = reqHit E a b) := by
  cases a <;> cases b
  · exact (eqK_cb E _ _).mono (fun _ => rfl) (fun _ r ⟨n, hn⟩ hp => by rw [hn, hp.k]; rfl)
  · exact (eqQ_cb E _ _).mono (fun _ => rfl) (fun _ r ⟨n, hn⟩ hp => by rw [hn, hp.q]; rfl)
  · exact (eqQ_cb E _ _).mono (fun _ => rfl) (fun _ r ⟨n, hn⟩ hp => by rw [hn, hp.q]; rfl)
  · exact (eqQ_cb E _ _).mono (fun _ => rfl) (fun _ r ⟨n, hn⟩ hp => by rw [hn, hp.q]; rfl)

theorem reqEqStored_cb (stored : K) (k : Probe K Q) :
    CbOk (reqEqStored E stored k) (fun _ => []) (fun _ r => E.Pure → r = rhit E stored k) := by
  cases k
  · exact (eqK_cb E _ _).mono (fun _ => rfl) (fun _ r ⟨n, hn⟩ hp => by rw [hn, hp.k]; rfl)
  · exact (eqQ_cb E _ _).mono (fun _ => rfl) (fun _ r ⟨n, hn⟩ hp => by rw [hn, hp.q]; rfl)

theorem assertP_true (c : PanicClass) (s : St K V Q) : assertP true c s = .ok () s := rfl
theorem assertP_false (c : PanicClass) (s : St K V Q) : assertP false c s = .panic c s := rfl

/-! ### the overlap pre-check -/

theorem overlapInner_sat (k : Probe K Q) : ∀ (rest : List (Probe K Q)) (s : St K V Q),
    Sat (overlapInner E k rest) s
      (fun _ s' => s'.r = s.r ∧ WRel s.w s'.w [] ∧ (E.Pure → ∀ kb, kb ∈ rest → reqHit E k kb = false))
      (fun c s' => s'.r = s.r ∧ (InjPanic s s' c ∨
        (c = .overlap ∧ WRel s.w s'.w [] ∧ (E.Pure → ∃ kb, kb ∈ rest ∧ reqHit E k kb = true))))
  | [], s => Sat.pure ⟨rfl, WRel.refl _, fun _ kb h => by cases h⟩
  | kb :: rest, s => by
    unfold overlapInner
    refine Sat.cb (reqEq_cb E k kb) ?_ ?_
    · intro e s1 h1 h2 h3
      cases e with
      | true =>
        show Sat (assertP false .overlap >>= _) s1 _ _
        unfold Sat; simp only [bind_apply, assertP_false]
        exact ⟨h1, Or.inr ⟨by first | rfl | trivial, h2, fun hp => ⟨kb, List.mem_cons_self, (h3 hp).symm⟩⟩⟩
      | false =>
        show Sat (assertP true .overlap >>= _) s1 _ _
        refine Sat.bind (Sat.of_ok (assertP_true _ s1) (Q := fun _ s' => s1 = s') rfl) ?_
        rintro _ _ rfl
        refine Sat.mono (overlapInner_sat k rest s1) ?_ ?_
        · intro _ s2 ⟨g1, g2, g3⟩
          refine ⟨g1.trans h1, by simpa using h2.trans g2, fun hp x hx => ?_⟩
          rcases List.mem_cons.1 hx with rfl | hx
          · exact (h3 hp).symm
          · exact g3 hp x hx
        · intro c s2 ⟨g1, g2⟩
          refine ⟨g1.trans h1, ?_⟩
          rcases g2 with g2 | ⟨gc, gw, gp⟩
          · exact Or.inl (g2.after h2)
          · refine Or.inr ⟨gc, by simpa using h2.trans gw, fun hp => ?_⟩
            obtain ⟨x, hx, hh⟩ := gp hp
            exact ⟨x, List.mem_cons_of_mem _ hx, hh⟩
    · intro s' tr' h1 h2 h3 h4
      exact ⟨h1, Or.inl (InjPanic.of_cb h2 h3 h4)⟩

/-- the O(J²) pre-check: it never touches the container; under a pure `==` it passes exactly
    when the requests are pairwise unequal and panics `.overlap` otherwise. -/
theorem overlapCheck_sat : ∀ (ks : List (Probe K Q)) (s : St K V Q),
    Sat (overlapCheck E ks) s
      (fun _ s' => s'.r = s.r ∧ WRel s.w s'.w [] ∧ (E.Pure → Unequal E ks))
      (fun c s' => s'.r = s.r ∧ (InjPanic s s' c ∨
        (c = .overlap ∧ WRel s.w s'.w [] ∧ (E.Pure → ¬ Unequal E ks))))
  | [], s => Sat.pure ⟨rfl, WRel.refl _, fun _ => List.Pairwise.nil⟩
  | k :: rest, s => by
    unfold overlapCheck
    refine Sat.bind (Sat.mono (overlapInner_sat E k rest s) (fun _ _ h => h) ?_) ?_
    · intro c s' ⟨h1, h2⟩
      refine ⟨h1, ?_⟩
      rcases h2 with h2 | ⟨hc, hw, hp⟩
      · exact Or.inl h2
      · refine Or.inr ⟨hc, hw, fun hpu hu => ?_⟩
        obtain ⟨x, hx, hh⟩ := hp hpu
        have := (List.pairwise_cons.1 hu).1 x hx
        rw [hh] at this; cases this
    · intro _ s1 ⟨h1, h2, h3⟩
      refine Sat.mono (overlapCheck_sat rest s1) ?_ ?_
      · intro _ s2 ⟨g1, g2, g3⟩
        exact ⟨g1.trans h1, by simpa using h2.trans g2,
          fun hp => List.pairwise_cons.2 ⟨h3 hp, g3 hp⟩⟩
      · intro c s2 ⟨g1, g2⟩
        refine ⟨g1.trans h1, ?_⟩
        rcases g2 with g2 | ⟨gc, gw, gp⟩
        · exact Or.inl (g2.after h2)
        · exact Or.inr ⟨gc, by simpa using h2.trans gw,
            fun hp hu => gp hp (List.pairwise_cons.1 hu).2⟩

/-! ### matching a stored key against the requests -/

/-- the first request equal to the stored key (time-independent reading of `position`). -/
def posSpec (stored : K) (ks : List (Probe K Q)) : Option Nat := ks.findIdx? fun k => rhit E stored k

theorem positionOf_cb (stored : K) : ∀ (ks : List (Probe K Q)) (t : Nat),
    CbOk (positionOf E stored ks t) (fun _ => [])
      (fun _ o => (∀ j, o = some j → t ≤ j ∧ j < t + ks.length) ∧
        (E.Pure → o = (posSpec E stored ks).map (· + t)))
  | [], t => by
    intro s
    exact Sat.pure ⟨rfl, WRel.refl _, fun j h => (by cases h), fun _ => rfl⟩
  | k :: rest, t => by
    intro s
    unfold positionOf
    refine Sat.cb (reqEqStored_cb E stored k) ?_ ?_
    · intro b s1 h1 h2 h3
      cases b with
      | true =>
        refine ⟨h1, h2, fun j hj => ?_, fun hp => ?_⟩
        · cases hj; exact ⟨Nat.le_refl _, by simp⟩
        · have := h3 hp
          simp [posSpec, List.findIdx?_cons, ← this]
      | false =>
        simp only [Bool.false_eq_true, if_false]
        refine Sat.mono (positionOf_cb stored rest (t + 1) s1) ?_ ?_
        · intro o s2 ⟨g1, g2, g3, g4⟩
          refine ⟨g1.trans h1, by simpa using h2.trans g2, fun j hj => ?_, fun hp => ?_⟩
          · have := g3 j hj; simp only [List.length_cons]; omega
          · have := h3 hp
            rw [g4 hp]
            simp only [posSpec, List.findIdx?_cons, ← this, Bool.false_eq_true, if_false,
              Option.map_map]
            congr 1
            funext x
            simp [Nat.add_assoc, Nat.add_comm 1 t]
        · intro c s2 ⟨g1, g2, g3, g4, tr', g5⟩
          subst g2
          exact cb_panic_after h1 h2 g1 g3 g4 g5
    · intro s' tr' h1 h2 h3 h4
      exact ⟨h1, rfl, h2, h3, tr', h4⟩

/-! ### the pass over the map -/

/-- what the pass pushes for the slots `[i, i + n)` under a pure `==`. -/
def collectSpec (l : List (K × V)) (ks : List (Probe K Q)) : Nat → Nat → List (Nat × Nat)
  | 0, _ => []
  | n + 1, i =>
    (match l[i]? with
      | some p => (match posSpec E p.1 ks with
        | some t => [(i, t)]
        | none => [])
      | none => []) ++ collectSpec l ks n (i + 1)

/-- invariant of the index stack: strictly increasing slot positions below `bound`, request
    positions below `m`, at most `m` entries. -/
def StackOK (bound m : Nat) (st : List (Nat × Nat)) : Prop :=
  st.Pairwise (fun a b => a.1 < b.1) ∧ (∀ x, x ∈ st → x.1 < bound ∧ x.2 < m) ∧ st.length ≤ m

theorem StackOK.mono {bound bound' m : Nat} {st} (h : StackOK bound m st) (hb : bound ≤ bound') :
    StackOK bound' m st :=
  ⟨h.1, fun x hx => ⟨Nat.lt_of_lt_of_le (h.2.1 x hx).1 hb, (h.2.1 x hx).2⟩, h.2.2⟩

theorem StackOK.push {i m : Nat} {st} (h : StackOK i m st) {t} (ht : t < m) (hl : st.length < m) :
    StackOK (i + 1) m (st ++ [(i, t)]) := by
  refine ⟨?_, ?_, by simp; omega⟩
  · rw [List.pairwise_append]
    refine ⟨h.1, by simp, fun a ha b hb => ?_⟩
    simp at hb; subst hb
    exact (h.2.1 a ha).1
  · intro x hx
    rcases List.mem_append.1 hx with hx | hx
    · exact ⟨Nat.lt_succ_of_lt (h.2.1 x hx).1, (h.2.1 x hx).2⟩
    · simp at hx; subst hx; exact ⟨Nat.lt_succ_self _, ht⟩

/-- the pass over the live slots: framed and effect-free; whatever `==` answers the stack stays
    strictly increasing in the slot position (each slot is pushed at most once), below `len`,
    and never grows beyond the number of requests (the checked index `stack[stack_top]` panics
    first).  Under a pure `==` it is `collectSpec`. -/
theorem disjointCollect_sat {l : List (K × V)} (ks : List (Probe K Q)) :
    ∀ (n i : Nat) (stack : List (Nat × Nat)) (s : St K V Q), Rep s.r l → i + n = l.length →
    StackOK i ks.length stack →
    Sat (disjointCollect E ks n i stack) s
      (fun st s' => s'.r = s.r ∧ WRel s.w s'.w [] ∧ StackOK l.length ks.length st ∧
        (E.Pure → st = stack ++ collectSpec E l ks n i))
      (fun c s' => s'.r = s.r ∧ (InjPanic s s' c ∨
        (c = .oob ∧ WRel s.w s'.w [] ∧
          (E.Pure → ks.length < (stack ++ collectSpec E l ks n i).length))))
  | 0, i, stack, s, _, hn, hst => by
    have : i = l.length := by omega
    subst this
    exact Sat.pure ⟨rfl, WRel.refl _, hst, fun _ => by simp [collectSpec]⟩
  | n + 1, i, stack, s, hr, hn, hst => by
    have hlt : i < l.length := by omega
    unfold disjointCollect
    refine Sat.bind (Sat.of_ok (itemRef_ok (s := s) (hr.cap_lt hlt) (hr.slot hlt))
      (Q := fun p s' => p = l[i] ∧ s = s') ⟨rfl, rfl⟩) ?_
    rintro _ _ ⟨rfl, rfl⟩
    refine Sat.cb (positionOf_cb E l[i].1 ks 0) ?_ ?_
    · intro o s1 h1 h2 ⟨h3, h4⟩
      have hr1 : Rep s1.r l := h1 ▸ hr
      cases o with
      | some t =>
        have ht : t < ks.length := by have := (h3 t rfl).2; omega
        have hspec : E.Pure → collectSpec E l ks (n + 1) i = (i, t) :: collectSpec E l ks n (i + 1) := by
          intro hp
          have := h4 hp
          simp only [Nat.add_zero, Option.map_id'] at this
          have h5 : posSpec E l[i].1 ks = some t := by
            cases hq : posSpec E l[i].1 ks with
            | none => rw [hq] at this; cases this
            | some t' => rw [hq] at this; simp at this; rw [this]
          simp [collectSpec, List.getElem?_eq_getElem hlt, h5]
        simp only
        by_cases hroom : stack.length < ks.length
        · have ha : assertP (decide (stack.length < ks.length)) .oob s1 = .ok () s1 := by
            simp [assertP, hroom]
          refine Sat.bind (Sat.of_ok ha (Q := fun _ s' => s1 = s') rfl) ?_
          rintro _ _ rfl
          refine Sat.mono (disjointCollect_sat ks n (i + 1) (stack ++ [(i, t)]) s1 hr1 (by omega)
            (hst.push ht hroom)) ?_ ?_
          · intro st s2 ⟨g1, g2, g3, g4⟩
            refine ⟨g1.trans h1, by simpa using h2.trans g2, g3, fun hp => ?_⟩
            rw [g4 hp, hspec hp]; simp
          · intro c s2 ⟨g1, g2⟩
            refine ⟨g1.trans h1, ?_⟩
            rcases g2 with g2 | ⟨gc, gw, gp⟩
            · exact Or.inl (g2.after h2)
            · refine Or.inr ⟨gc, by simpa using h2.trans gw, fun hp => ?_⟩
              have := gp hp
              rw [hspec hp]; simpa using this
        · have ha : assertP (decide (stack.length < ks.length)) .oob s1 = .panic .oob s1 := by
            simp [assertP, hroom]
          unfold Sat; simp only [bind_apply, ha]
          refine ⟨h1, Or.inr ⟨by first | rfl | trivial, h2, fun hp => ?_⟩⟩
          rw [hspec hp]; simp; omega
      | none =>
        have hspec : E.Pure → collectSpec E l ks (n + 1) i = collectSpec E l ks n (i + 1) := by
          intro hp
          have := h4 hp
          have h5 : posSpec E l[i].1 ks = none := by
            cases hq : posSpec E l[i].1 ks with
            | none => rfl
            | some t' => rw [hq] at this; cases this
          simp [collectSpec, List.getElem?_eq_getElem hlt, h5]
        simp only
        refine Sat.mono (disjointCollect_sat ks n (i + 1) stack s1 hr1 (by omega)
          (hst.mono (Nat.le_succ _))) ?_ ?_
        · intro st s2 ⟨g1, g2, g3, g4⟩
          exact ⟨g1.trans h1, by simpa using h2.trans g2, g3, fun hp => by rw [g4 hp, hspec hp]⟩
        · intro c s2 ⟨g1, g2⟩
          refine ⟨g1.trans h1, ?_⟩
          rcases g2 with g2 | ⟨gc, gw, gp⟩
          · exact Or.inl (g2.after h2)
          · exact Or.inr ⟨gc, by simpa using h2.trans gw, fun hp => by rw [hspec hp]; exact gp hp⟩
    · intro s' tr' h1 h2 h3 h4
      exact ⟨h1, Or.inl (InjPanic.of_cb h2 h3 h4)⟩

/-! ### the sort is immaterial -/

/-- on a stack that is strictly increasing in the slot position — which is how the pass
    builds it — sorting by slot position changes nothing. -/
theorem sortStack_id : ∀ (st : List (Nat × Nat)), st.Pairwise (fun a b => a.1 < b.1) → sortStack st = st
  | [], _ => rfl
  | x :: xs, h => by
    have ⟨h1, h2⟩ := List.pairwise_cons.1 h
    unfold sortStack
    rw [sortStack_id xs h2]
    cases xs with
    | nil => rfl
    | cons y ys =>
      have : x.1 ≤ y.1 := Nat.le_of_lt (h1 y List.mem_cons_self)
      simp [insertSorted, this]

theorem pairwise_lt_inj {st : List (Nat × Nat)} (h : st.Pairwise (fun a b => a.1 < b.1)) {x y}
    (hx : x ∈ st) (hy : y ∈ st) (hxy : x.1 = y.1) : x = y := by
  obtain ⟨i, hi, rfl⟩ := List.mem_iff_getElem.1 hx
  obtain ⟨j, hj, rfl⟩ := List.mem_iff_getElem.1 hy
  rw [List.pairwise_iff_getElem] at h
  rcases Nat.lt_trichotomy i j with hlt | heq | hgt
  · have := h i j hi hj hlt; omega
  · subst heq; rfl
  · have := h j i hj hi hgt; omega

/-! ### the back-to-front split -/

/-- `ret[ks_i] = Some(slot pair_i)` for every stack entry, in order. -/
def splitSpec : List (Nat × Nat) → List (Option Nat) → List (Option Nat)
  | [], ret => ret
  | x :: rest, ret => splitSpec rest (ret.set x.2 (some x.1))

/-- on a stack that is strictly decreasing in the slot position and below `restLen ≤ len`, all
    the checked preconditions of `split_at_mut` / indexing hold: no panic, no effect. -/
theorem disjointSplit_eq {s : St K V Q} {l : List (K × V)} (hr : Rep s.r l) :
    ∀ (st : List (Nat × Nat)) (restLen : Nat) (ret : List (Option Nat)), restLen ≤ l.length →
      st.Pairwise (fun a b => b.1 < a.1) → (∀ x, x ∈ st → x.1 < restLen ∧ x.2 < ret.length) →
      disjointSplit st restLen ret s = .ok (splitSpec st ret) s
  | [], _, ret, _, _, _ => rfl
  | (p, t) :: rest, restLen, ret, hl, hp, hb => by
    have ⟨hp1, hp2⟩ := List.pairwise_cons.1 hp
    have ⟨hb1, hb2⟩ := hb (p, t) List.mem_cons_self
    have hb1 : p < restLen := hb1
    have hb2 : t < ret.length := hb2
    have hpl : p < l.length := by omega
    have ih := disjointSplit_eq hr rest p (ret.set t (some p)) (by omega) hp2 (by
      intro x hx
      exact ⟨hp1 x hx, by simpa using (hb x (List.mem_cons_of_mem _ hx)).2⟩)
    unfold disjointSplit
    simp only [bind_apply, assertP, hb1, Nat.le_of_lt hb1, hb2, decide_true, if_true,
      itemRef_ok (s := s) (hr.cap_lt hpl) (hr.slot hpl), ih]
    rfl

theorem splitSpec_length : ∀ (st : List (Nat × Nat)) (ret : List (Option Nat)),
    (splitSpec st ret).length = ret.length
  | [], _ => rfl
  | x :: rest, ret => by
    show (splitSpec rest (ret.set x.2 (some x.1))).length = _
    rw [splitSpec_length rest]; simp

theorem splitSpec_not_mem {t : Nat} : ∀ (st : List (Nat × Nat)) (ret : List (Option Nat)),
    (∀ x, x ∈ st → x.2 ≠ t) → (splitSpec st ret)[t]? = ret[t]?
  | [], _, _ => rfl
  | x :: rest, ret, h => by
    show (splitSpec rest (ret.set x.2 (some x.1)))[t]? = _
    rw [splitSpec_not_mem rest _ (fun y hy => h y (List.mem_cons_of_mem _ hy)),
      List.getElem?_set_ne (h x List.mem_cons_self)]

/-- every `Some(slot)` in the result comes from a stack entry (or was there before). -/
theorem splitSpec_some {t j : Nat} : ∀ (st : List (Nat × Nat)) (ret : List (Option Nat)),
    (splitSpec st ret)[t]? = some (some j) → ret[t]? = some (some j) ∨ (j, t) ∈ st
  | [], _, h => Or.inl h
  | x :: rest, ret, h => by
    have h : (splitSpec rest (ret.set x.2 (some x.1)))[t]? = some (some j) := h
    rcases splitSpec_some rest _ h with h1 | h1
    · by_cases hx : x.2 = t
      · rw [List.getElem?_set, if_pos hx] at h1
        split at h1
        · have : x.1 = j := by simpa using h1
          right; rw [← this, ← hx]; exact List.mem_cons_self
        · cases h1
      · rw [List.getElem?_set_ne hx] at h1; exact Or.inl h1
    · exact Or.inr (List.mem_cons_of_mem _ h1)

/-- a request position that exactly one slot was matched to receives that slot. -/
theorem splitSpec_mem {t j : Nat} : ∀ (st : List (Nat × Nat)) (ret : List (Option Nat)),
    t < ret.length → (j, t) ∈ st → (∀ x, x ∈ st → x.2 = t → x.1 = j) →
    (splitSpec st ret)[t]? = some (some j)
  | [], _, _, h, _ => by cases h
  | x :: rest, ret, ht, hm, hu => by
    show (splitSpec rest (ret.set x.2 (some x.1)))[t]? = _
    by_cases hr : (j, t) ∈ rest
    · exact splitSpec_mem rest _ (by simpa using ht) hr (fun y hy => hu y (List.mem_cons_of_mem _ hy))
    · have hx : x = (j, t) := by
        rcases List.mem_cons.1 hm with h | h
        · exact h.symm
        · exact (hr h).elim
      subst hx
      rw [splitSpec_not_mem rest _ (fun y hy hy2 => hr (by
        have := hu y (List.mem_cons_of_mem _ hy) hy2
        have : y = (j, t) := Prod.ext this hy2
        rw [← this]; exact hy))]
      exact List.getElem?_set_self ht

/-! ### `get_disjoint_unchecked_mut` -/

/-- no two returned references point at the same slot. -/
def NoAlias (res : List (Option Nat)) : Prop :=
  ∀ (t₁ t₂ j : Nat), res[t₁]? = some (some j) → res[t₂]? = some (some j) → t₁ = t₂

/-- the result under a pure `==`: one scan for `J ≤ 1`, the stack machinery otherwise. -/
def resSpec (l : List (K × V)) (ks : List (Probe K Q)) : List (Option Nat) :=
  if ks.length ≤ 1 then ks.map (findKey E l)
  else splitSpec (collectSpec E l ks l.length 0).reverse (ks.map fun _ => none)

/-- more slots match than there are requests (impossible for a lawful `==` and unique keys). -/
def Overfull (l : List (K × V)) (ks : List (Probe K Q)) : Prop :=
  2 ≤ ks.length ∧ ks.length < (collectSpec E l ks l.length 0).length

theorem init_no_some (ks : List (Probe K Q)) (t j : Nat) :
    (ks.map fun _ => (none : Option Nat))[t]? ≠ some (some j) := by
  rw [List.getElem?_map]
  cases ks[t]? <;> simp

/-- what the stack machinery returns for a stack satisfying the invariant. -/
theorem split_props {l : List (K × V)} {m : Nat} {st : List (Nat × Nat)} (h : StackOK l.length m st)
    (init : List (Option Nat)) (hinit : ∀ (t j : Nat), init[t]? ≠ some (some j)) :
    (∀ (t j : Nat), (splitSpec st.reverse init)[t]? = some (some j) → j < l.length) ∧
    NoAlias (splitSpec st.reverse init) := by
  constructor
  · intro t j hj
    rcases splitSpec_some _ _ hj with h1 | h1
    · exact (hinit t j h1).elim
    · exact (h.2.1 _ (List.mem_reverse.1 h1)).1
  · intro t₁ t₂ j h1 h2
    rcases splitSpec_some _ _ h1 with g1 | g1
    · exact (hinit _ _ g1).elim
    rcases splitSpec_some _ _ h2 with g2 | g2
    · exact (hinit _ _ g2).elim
    have := pairwise_lt_inj h.1 (List.mem_reverse.1 g1) (List.mem_reverse.1 g2) rfl
    exact (Prod.mk.inj this).2

/-- `get_disjoint_unchecked_mut`, any oracle, any injection point: never UB, the container is
    never changed, one result per request, every returned slot is live, no two returned slots
    coincide.  It can only unwind by an injected panic or by the checked stack index (`.oob`). -/
theorem unchecked_sat {s : St K V Q} {l : List (K × V)} (hr : Rep s.r l) (ks : List (Probe K Q)) :
    Sat (get_disjoint_unchecked_mut E ks) s
      (fun res s' => s'.r = s.r ∧ WRel s.w s'.w [] ∧ res.length = ks.length ∧
        (∀ (t j : Nat), res[t]? = some (some j) → j < l.length) ∧ NoAlias res ∧
        (E.Pure → res = resSpec E l ks ∧ ¬ Overfull E l ks))
      (fun c s' => s'.r = s.r ∧ (InjPanic s s' c ∨
        (c = .oob ∧ WRel s.w s'.w [] ∧ (E.Pure → Overfull E l ks)))) := by
  match ks with
  | [] =>
    refine Sat.pure ⟨rfl, WRel.refl _, rfl, fun t j h => by simp at h, fun t₁ t₂ j h => by simp at h,
      fun _ => ⟨by simp [resSpec], fun h => by simp [Overfull] at h⟩⟩
  | [k] =>
    unfold get_disjoint_unchecked_mut
    refine Sat.bind (Sat.mono (scan_cb' E hr k) (fun _ _ h => h) ?_) ?_
    · intro c s' ⟨h1, h2, h3, h4, h5⟩; exact ⟨h1, Or.inl ⟨h2, h3, h4, h5⟩⟩
    · intro o s1 ⟨h1, h2, h3, h4⟩
      have hr1 : Rep s1.r l := h1 ▸ hr
      cases o with
      | none =>
        refine Sat.pure ⟨h1, h2, rfl, fun t j h => ?_, fun t₁ t₂ j h => ?_,
          fun hp => ⟨by simp [resSpec, ← h4 hp], fun h => by simp [Overfull] at h⟩⟩
        · cases t <;> simp at h
        · cases t₁ <;> simp at h
      | some i =>
        have hi := h3 i rfl
        simp only
        refine Sat.bind (Sat.of_ok (itemRef_ok (s := s1) (hr1.cap_lt hi) (hr1.slot hi))
          (Q := fun _ s' => s1 = s') rfl) ?_
        rintro _ _ rfl
        refine Sat.pure ⟨h1, h2, rfl, fun t j h => ?_, fun t₁ t₂ j g1 g2 => ?_,
          fun hp => ⟨by simp [resSpec, ← h4 hp], fun h => by simp [Overfull] at h⟩⟩
        · cases t with
          | zero => simp at h; omega
          | succ t => simp at h
        · cases t₁ with
          | zero =>
            cases t₂ with
            | zero => rfl
            | succ t => simp at g2
          | succ t => simp at g1
  | a :: b :: rest =>
    have hlen2 : 2 ≤ (a :: b :: rest).length := by simp
    generalize hks : a :: b :: rest = ks' at hlen2 ⊢
    have hunf : get_disjoint_unchecked_mut E ks' = (do
        let len ← getLen
        let stack ← disjointCollect E ks' len 0 []
        let sorted := sortStack stack
        let n ← sliceToLen
        disjointSplit sorted.reverse n (ks'.map fun _ => none)) := by
      subst hks; rfl
    rw [hunf]
    show Sat (getLen >>= _) s _ _
    refine Sat.bind (Q₁ := fun n s' => n = l.length ∧ s = s') (show Sat getLen s _ _ from ⟨hr.1, rfl⟩) ?_
    rintro _ _ ⟨rfl, rfl⟩
    refine Sat.bind (Sat.mono (disjointCollect_sat E ks' l.length 0 [] s hr (by omega)
      ⟨List.Pairwise.nil, fun x hx => (by simp at hx), Nat.zero_le _⟩) (fun _ _ h => h) ?_) ?_
    · intro c s' ⟨h1, h2⟩
      refine ⟨h1, ?_⟩
      rcases h2 with h2 | ⟨hc, hw, hp⟩
      · exact Or.inl h2
      · exact Or.inr ⟨hc, hw, fun hpu => ⟨hlen2, by simpa using hp hpu⟩⟩
    · intro st s1 ⟨h1, h2, h3, h4⟩
      have hr1 : Rep s1.r l := h1 ▸ hr
      have hsl : sliceToLen s1 = .ok l.length s1 := by
        unfold sliceToLen
        have : s1.r.len ≤ s1.r.cap := hr1.1 ▸ hr1.2.1
        rw [if_pos this, hr1.1]
      simp only [sortStack_id st h3.1]
      refine Sat.bind (Sat.of_ok hsl (Q := fun n s' => n = l.length ∧ s1 = s') ⟨rfl, rfl⟩) ?_
      rintro _ _ ⟨rfl, rfl⟩
      have heq := disjointSplit_eq (s := s1) hr1 st.reverse l.length (ks'.map fun _ => none)
        (Nat.le_refl _) (List.pairwise_reverse.2 h3.1) (fun x hx => by
          have := h3.2.1 x (List.mem_reverse.1 hx)
          simpa using this)
      obtain ⟨p1, p2⟩ := split_props h3 (ks'.map fun _ => none) (init_no_some ks')
      refine Sat.of_ok heq ⟨h1, h2, by rw [splitSpec_length]; simp, p1, p2, fun hp => ⟨?_, ?_⟩⟩
      · have : ¬ ks'.length ≤ 1 := by omega
        rw [resSpec, if_neg this, h4 hp]; simp
      · intro ho
        have := h3.2.2
        rw [h4 hp] at this
        have h5 := ho.2
        simp at this; omega

/-! ### `get_disjoint_mut` -/

theorem get_disjoint_mut_nil : get_disjoint_mut E ([] : List (Probe K Q)) = pure [] := rfl

/-- with at least one request: the pre-check, then the unchecked function. -/
theorem get_disjoint_mut_cons (a : Probe K Q) (rest : List (Probe K Q)) :
    get_disjoint_mut E (a :: rest) =
      (overlapCheck E (a :: rest) >>= fun _ => get_disjoint_unchecked_mut E (a :: rest)) := rfl

/-- `get_disjoint_mut`, any oracle, any injection point: never UB, the container is never
    changed (on return and on unwinding), one result per request, returned slots are live and
    pairwise distinct.  It unwinds only by an injected panic, `.overlap` (the pre-check) or
    `.oob` (the checked stack index). -/
theorem checked_sat {s : St K V Q} {l : List (K × V)} (hr : Rep s.r l) (ks : List (Probe K Q)) :
    Sat (get_disjoint_mut E ks) s
      (fun res s' => s'.r = s.r ∧ WRel s.w s'.w [] ∧ res.length = ks.length ∧
        (∀ (t j : Nat), res[t]? = some (some j) → j < l.length) ∧ NoAlias res ∧
        (E.Pure → res = resSpec E l ks ∧ ¬ Overfull E l ks ∧ Unequal E ks))
      (fun c s' => s'.r = s.r ∧ (InjPanic s s' c ∨
        (c = .oob ∧ WRel s.w s'.w [] ∧ (E.Pure → Overfull E l ks ∧ Unequal E ks)) ∨
        (c = .overlap ∧ WRel s.w s'.w [] ∧ (E.Pure → ¬ Unequal E ks)))) := by
  cases ks with
  | nil =>
    refine Sat.pure ⟨rfl, WRel.refl _, rfl, fun t j h => by simp at h, fun t₁ t₂ j h => by simp at h,
      fun _ => ⟨by simp [resSpec], fun h => by simp [Overfull] at h, List.Pairwise.nil⟩⟩
  | cons a rest =>
    rw [get_disjoint_mut_cons]
    refine Sat.bind (Sat.mono (overlapCheck_sat E (a :: rest) s) (fun _ _ h => h) ?_) ?_
    · intro c s' ⟨h1, h2⟩
      refine ⟨h1, ?_⟩
      rcases h2 with h2 | h2
      · exact Or.inl h2
      · exact Or.inr (Or.inr h2)
    · intro _ s1 ⟨h1, h2, h3⟩
      have hr1 : Rep s1.r l := h1 ▸ hr
      refine Sat.mono (unchecked_sat E hr1 (a :: rest)) ?_ ?_
      · intro res s2 ⟨g1, g2, g3, g4, g5, g6⟩
        exact ⟨g1.trans h1, by simpa using h2.trans g2, g3, g4, g5,
          fun hp => ⟨(g6 hp).1, (g6 hp).2, h3 hp⟩⟩
      · intro c s2 ⟨g1, g2⟩
        refine ⟨g1.trans h1, ?_⟩
        rcases g2 with g2 | ⟨gc, gw, gp⟩
        · exact Or.inl (g2.after h2)
        · exact Or.inr (Or.inl ⟨gc, by simpa using h2.trans gw, fun hp => ⟨gp hp, h3 hp⟩⟩)

/-! ### list level: what the stack machinery computes for a lawful `==` -/

open SetAlg Dict in
theorem rhit_eq_hit (hE : E.Lawful) (stored : K) (k : Probe K Q) : rhit E stored k = E.hit stored k := by
  cases k with
  | key k => exact hE.symm k stored
  | q q => exact hE.qsymm q (E.borrow stored)

/-- two requests that both match one stored key are equal requests. -/
theorem reqHit_of_hits (hE : E.Lawful) {a : K} {k₁ k₂ : Probe K Q} (h₁ : E.hit a k₁ = true)
    (h₂ : E.hit a k₂ = true) : reqHit E k₁ k₂ = true := by
  cases k₁ with
  | key x =>
    cases k₂ with
    | key y => exact hE.trans x a y (by rw [hE.symm]; exact h₁) h₂
    | q y =>
      have h₁' : E.qeq (E.borrow a) (E.borrow x) = true := by rw [hE.borrow]; exact h₁
      exact hE.qtrans _ _ _ (by rw [hE.qsymm]; exact h₁') h₂
  | q x =>
    cases k₂ with
    | key y =>
      have h₂' : E.qeq (E.borrow a) (E.borrow y) = true := by rw [hE.borrow]; exact h₂
      exact hE.qtrans _ _ _ (by rw [hE.qsymm]; exact h₁) h₂'
    | q y => exact hE.qtrans _ _ _ (by rw [hE.qsymm]; exact h₁) h₂

theorem posSpec_some {stored : K} {ks : List (Probe K Q)} {t} (h : posSpec E stored ks = some t) :
    ∃ ht : t < ks.length, rhit E stored ks[t] = true := by
  unfold posSpec at h
  rw [List.findIdx?_eq_some_iff_getElem] at h
  obtain ⟨ht, h1, _⟩ := h
  exact ⟨ht, h1⟩

/-- among pairwise unequal requests, the one that matches a stored key is the first match. -/
theorem posSpec_of_hit (hE : E.Lawful) {stored : K} {ks : List (Probe K Q)} (hu : Unequal E ks) {t}
    (ht : t < ks.length) (h : rhit E stored ks[t] = true) : posSpec E stored ks = some t := by
  unfold posSpec
  rw [List.findIdx?_eq_some_iff_getElem]
  refine ⟨ht, h, fun t' ht' hc => ?_⟩
  have h1 : E.hit stored ks[t'] = true := by rw [← rhit_eq_hit E hE]; exact hc
  have h2 : E.hit stored ks[t] = true := by rw [← rhit_eq_hit E hE]; exact h
  have := reqHit_of_hits E hE h1 h2
  have hne := (List.pairwise_iff_getElem.1 hu) t' t (Nat.lt_trans ht' ht) ht ht'
  rw [this] at hne; cases hne

/-- what the pass pushes for slot `i`. -/
def headSpec (l : List (K × V)) (ks : List (Probe K Q)) (i : Nat) : List (Nat × Nat) :=
  match l[i]? with
  | some p => (match posSpec E p.1 ks with
    | some t => [(i, t)]
    | none => [])
  | none => []

theorem collectSpec_succ (l : List (K × V)) (ks : List (Probe K Q)) (n i : Nat) :
    collectSpec E l ks (n + 1) i = headSpec E l ks i ++ collectSpec E l ks n (i + 1) := rfl

theorem mem_headSpec {l : List (K × V)} {ks : List (Probe K Q)} {i : Nat} {x : Nat × Nat} :
    x ∈ headSpec E l ks i ↔ x.1 = i ∧ ∃ p, l[i]? = some p ∧ posSpec E p.1 ks = some x.2 := by
  unfold headSpec
  cases hl : l[i]? with
  | none => simp
  | some p =>
    simp only
    cases hp : posSpec E p.1 ks with
    | none => simp [hp]
    | some t =>
      simp only [List.mem_singleton, Option.some.injEq, exists_eq_left', hp]
      constructor
      · rintro rfl; exact ⟨rfl, rfl⟩
      · rintro ⟨h1, h2⟩; exact Prod.ext h1 h2.symm

theorem headSpec_length_le (l : List (K × V)) (ks : List (Probe K Q)) (i : Nat) :
    (headSpec E l ks i).length ≤ 1 := by
  unfold headSpec
  cases l[i]? with
  | none => simp
  | some p => simp only; cases posSpec E p.1 ks <;> simp

theorem mem_collectSpec {l : List (K × V)} {ks : List (Probe K Q)} {j t : Nat} : ∀ (n i : Nat),
    (j, t) ∈ collectSpec E l ks n i ↔
      i ≤ j ∧ j < i + n ∧ ∃ p, l[j]? = some p ∧ posSpec E p.1 ks = some t
  | 0, i => by simp [collectSpec]; omega
  | n + 1, i => by
    rw [collectSpec_succ, List.mem_append, mem_collectSpec n (i + 1), mem_headSpec]
    constructor
    · rintro (⟨h1, h2⟩ | ⟨h1, h2, h3⟩)
      · have h1 : j = i := h1
        subst h1
        exact ⟨Nat.le_refl _, by omega, h2⟩
      · exact ⟨by omega, by omega, h3⟩
    · rintro ⟨h1, h2, h3⟩
      by_cases hji : j = i
      · subst hji
        exact Or.inl ⟨rfl, h3⟩
      · exact Or.inr ⟨by omega, by omega, h3⟩

theorem collectSpec_pairwise {l : List (K × V)} {ks : List (Probe K Q)} : ∀ (n i : Nat),
    (collectSpec E l ks n i).Pairwise fun a b => a.1 < b.1
  | 0, _ => List.Pairwise.nil
  | n + 1, i => by
    rw [collectSpec_succ, List.pairwise_append]
    refine ⟨?_, collectSpec_pairwise n (i + 1), ?_⟩
    · have := headSpec_length_le E l ks i
      match h : headSpec E l ks i with
      | [] => exact List.Pairwise.nil
      | [x] => simp
      | x :: y :: r => rw [h] at this; simp at this
    · intro a ha b hb
      have hb' : i + 1 ≤ b.1 := ((mem_collectSpec E n (i + 1)).1 (by simpa using hb)).1
      have ha' : a.1 = i := ((mem_headSpec E).1 ha).1
      omega

/-- with a lawful `==` and unique stored keys, one request is matched by at most one slot. -/
theorem collectSpec_inj (hE : E.Lawful) {l : List (K × V)} (hn : SetAlg.NodupKeys E.keq l)
    {ks : List (Probe K Q)} {j j' t : Nat}
    (h : (j, t) ∈ collectSpec E l ks l.length 0) (h' : (j', t) ∈ collectSpec E l ks l.length 0) :
    j = j' := by
  obtain ⟨_, _, p, hp1, hp2⟩ := (mem_collectSpec E _ _).1 h
  obtain ⟨_, _, p', hp1', hp2'⟩ := (mem_collectSpec E _ _).1 h'
  obtain ⟨hj, rfl⟩ := List.getElem?_eq_some_iff.1 hp1
  obtain ⟨hj', rfl⟩ := List.getElem?_eq_some_iff.1 hp1'
  obtain ⟨ht, g⟩ := posSpec_some E hp2
  obtain ⟨_, g'⟩ := posSpec_some E hp2'
  rw [rhit_eq_hit E hE] at g g'
  have hk : E.keq l[j].1 l[j'].1 = true := (hE.probeOK ks[t]).single _ _ g g'
  by_cases hjj : j = j'
  · exact hjj
  · rw [(Dict.nodupKeys_iff_getElem hE.equivB).1 hn j j' hj hj' hjj] at hk; cases hk

theorem natEquivB : SetAlg.EquivB (fun a b : Nat => a == b) :=
  ⟨fun a => by simp, fun _ _ => BEq.comm, fun a b c h1 h2 => by simp_all⟩

/-- lawful `==`, unique keys: never more matched slots than requests — the checked stack index
    cannot fail. -/
theorem not_overfull (hE : E.Lawful) {l : List (K × V)} (hn : SetAlg.NodupKeys E.keq l)
    (ks : List (Probe K Q)) : ¬ Overfull E l ks := by
  intro ⟨_, h⟩
  have hp := collectSpec_pairwise E (l := l) (ks := ks) l.length 0
  have hnd : SetAlg.NodupB (fun a b : Nat => a == b) ((collectSpec E l ks l.length 0).map (·.2)) := by
    unfold SetAlg.NodupB
    rw [List.pairwise_map]
    refine List.Pairwise.imp_of_mem ?_ hp
    intro a b ha hb hab
    cases hc : (a.2 == b.2) with
    | false => exact hc
    | true =>
      have h2 : a.2 = b.2 := by simpa using hc
      have hb' : (b.1, a.2) ∈ collectSpec E l ks l.length 0 := by rw [h2]; exact hb
      have := collectSpec_inj E hE hn (j := a.1) (t := a.2) ha hb'
      omega
  have := SetAlg.pigeon natEquivB _ (List.range ks.length) hnd (by
    intro x hx
    rw [SetAlg.memB_eq_true]
    obtain ⟨y, hy, rfl⟩ := List.mem_map.1 hx
    obtain ⟨_, _, p, _, hp2⟩ := (mem_collectSpec E (j := y.1) (t := y.2) _ _).1 hy
    obtain ⟨ht, _⟩ := posSpec_some E hp2
    exact ⟨y.2, List.mem_range.2 ht, by simp⟩)
  simp at this
  omega

/-- lawful `==`, unique stored keys, pairwise unequal requests: position by position the result
    is what the linear scan (`get_mut`) finds for that request. -/
theorem resSpec_lawful (hE : E.Lawful) {l : List (K × V)} (hn : SetAlg.NodupKeys E.keq l)
    {ks : List (Probe K Q)} (hu : Unequal E ks) : resSpec E l ks = ks.map (findKey E l) := by
  unfold resSpec
  split
  · rfl
  · apply List.ext_getElem?
    intro t
    by_cases ht : t < ks.length
    · rw [List.getElem?_map, List.getElem?_eq_getElem ht]
      simp only [Option.map_some]
      cases hf : findKey E l ks[t] with
      | some j =>
        obtain ⟨hj, hh⟩ := (findKey_some_iff hE hn ks[t]).1 hf
        have hh' : rhit E l[j].1 ks[t] = true := by rw [rhit_eq_hit E hE]; exact hh
        have hm : (j, t) ∈ collectSpec E l ks l.length 0 :=
          (mem_collectSpec E _ _).2 ⟨Nat.zero_le _, by omega, l[j], List.getElem?_eq_getElem hj,
            posSpec_of_hit E hE hu ht hh'⟩
        refine splitSpec_mem _ _ (by simpa using ht) (List.mem_reverse.2 hm) ?_
        intro x hx hx2
        have hx' : (x.1, t) ∈ collectSpec E l ks l.length 0 := by
          rw [← hx2]; exact List.mem_reverse.1 hx
        exact collectSpec_inj E hE hn hx' hm
      | none =>
        rw [splitSpec_not_mem]
        · simp [ht]
        · intro x hx hx2
          have hx' : (x.1, t) ∈ collectSpec E l ks l.length 0 := by
            rw [← hx2]; exact List.mem_reverse.1 hx
          obtain ⟨_, _, p, hp1, hp2⟩ := (mem_collectSpec E _ _).1 hx'
          obtain ⟨_, g⟩ := posSpec_some E hp2
          rw [rhit_eq_hit E hE] at g
          have := (findKey_none_iff E ks[t]).1 hf p (List.mem_of_getElem? hp1)
          rw [show E.hitP ks[t] p.1 = E.hit p.1 ks[t] from rfl, g] at this
          cases this
    · rw [List.getElem?_eq_none (by rw [splitSpec_length]; simp; omega),
        List.getElem?_eq_none (by simp; omega)]

/-! ### writing through the returned references -/

/-- list-level effect of `*r = g(*r)` through every returned reference, in order. -/
def writeL (g : V → V) : List (Option Nat) → List (K × V) → List (K × V)
  | [], l => l
  | none :: rest, l => writeL g rest l
  | some i :: rest, l =>
    writeL g rest (match l[i]? with
      | some p => l.set i (p.1, g p.2)
      | none => l)

theorem writeL_length (g : V → V) : ∀ (res : List (Option Nat)) (l : List (K × V)),
    (writeL g res l).length = l.length
  | [], _ => rfl
  | none :: rest, l => writeL_length g rest l
  | some i :: rest, l => by
    show (writeL g rest _).length = _
    rw [writeL_length g rest]
    cases l[i]? <;> simp

/-- the writes through references to live slots never fail and touch nothing but the container
    values: no callback, no UB. -/
theorem writeSlots_eq (g : V → V) : ∀ (res : List (Option Nat)) (s : St K V Q) (l : List (K × V)),
    Rep s.r l → (∀ (t j : Nat), res[t]? = some (some j) → j < l.length) →
    ∃ s', writeSlots g res s = .ok () s' ∧ Rep s'.r (writeL g res l) ∧ s'.w = s.w ∧ s'.r.cap = s.r.cap
  | [], s, l, hr, _ => ⟨s, rfl, hr, rfl, rfl⟩
  | none :: rest, s, l, hr, hb => by
    obtain ⟨s', h1, h2, h3, h4⟩ := writeSlots_eq g rest s l hr (fun t j h => hb (t + 1) j (by simpa using h))
    exact ⟨s', h1, h2, h3, h4⟩
  | some i :: rest, s, l, hr, hb => by
    have hi : i < l.length := hb 0 i (by simp)
    have hr' : Rep (setSlot s.r i (some (l[i].1, g l[i].2))) (l.set i (l[i].1, g l[i].2)) := hr.set hi _
    obtain ⟨s', h1, h2, h3, h4⟩ := writeSlots_eq g rest
      { s with r := setSlot s.r i (some (l[i].1, g l[i].2)) } (l.set i (l[i].1, g l[i].2)) hr'
      (fun t j h => by simpa using hb (t + 1) j (by simpa using h))
    refine ⟨s', ?_, ?_, h3, h4⟩
    · unfold writeSlots
      simp only [bind_apply, itemRef_ok (s := s) (hr.cap_lt hi) (hr.slot hi),
        valueReplace_ok (s := s) (g l[i].2) (hr.cap_lt hi) (hr.slot hi)]
      exact h1
    · show Rep s'.r (writeL g rest _)
      rw [List.getElem?_eq_getElem hi]
      exact h2

theorem NoAlias.tail {o : Option Nat} {rest : List (Option Nat)} (h : NoAlias (o :: rest)) :
    NoAlias rest := by
  intro t₁ t₂ j h1 h2
  have := h (t₁ + 1) (t₂ + 1) j (by simpa using h1) (by simpa using h2)
  omega

theorem NoAlias.head_not_mem {i : Nat} {rest : List (Option Nat)} (h : NoAlias (some i :: rest)) :
    some i ∉ rest := by
  intro hm
  obtain ⟨t, ht, he⟩ := List.mem_iff_getElem.1 hm
  have := h 0 (t + 1) i (by simp) (by simp [List.getElem?_eq_getElem ht, he])
  omega

/-- with non-aliasing references every returned slot is updated exactly once (`g` applied once,
    stored key kept) and every other entry is left as it was. -/
theorem writeL_getElem? (g : V → V) : ∀ (res : List (Option Nat)) (l : List (K × V)) (j : Nat),
    NoAlias res →
    (writeL g res l)[j]? = if some j ∈ res then (l[j]?).map (fun p => (p.1, g p.2)) else l[j]?
  | [], l, j, _ => by simp [writeL]
  | none :: rest, l, j, h => by
    show (writeL g rest l)[j]? = _
    rw [writeL_getElem? g rest l j h.tail]
    simp
  | some i :: rest, l, j, h => by
    show (writeL g rest _)[j]? = _
    rw [writeL_getElem? g rest _ j h.tail]
    by_cases hji : j = i
    · subst hji
      have hnm := h.head_not_mem
      rw [if_neg hnm, if_pos (by simp)]
      cases hl : l[j]? with
      | none => simp [hl]
      | some p =>
        have hj : j < l.length := (List.getElem?_eq_some_iff.1 hl).1
        simp [hj]
    · have hm : (some j ∈ some i :: rest) ↔ some j ∈ rest := by simp [hji]
      have hset : (match l[i]? with
          | some p => l.set i (p.1, g p.2)
          | none => l)[j]? = l[j]? := by
        cases l[i]? with
        | none => rfl
        | some p => exact List.getElem?_set_ne (Ne.symm hji)
      simp only [hm, hset]

end Micromap.Disjoint
