/-
`stepMapOp` computes `lMapOp`, continued: iterator scripts, entry chains, `get_disjoint_mut`,
and the assembled theorem `stepMapOp_ok` for every operation of the safe `Map` API.
-/
import Micromap.Proofs.ListSysMap
import Micromap.Proofs.EntryOps
import Micromap.Proofs.StepInvEntry

namespace Micromap.ListSys
open Micromap Refine
variable {K V Q : Type}

/-! ### iterator scripts -/

theorem isMut_iff (kind : IterKind) : isMut kind = true ↔ (kind = .iter_mut ∨ kind = .values_mut) := by
  cases kind <;> simp [isMut]

/-- the clones of a script as the model keeps them. -/
def forkIts (n : Nat) (forks : List Nat) : List SliceIt := forks.map fun f => ⟨f, n⟩

theorem iterRunOut_eq (kind : IterKind) {s : St K V Q} {l : List (K × V)} (hr : Rep s.r l) {f : Nat}
    (hf : f ≤ l.length) : iterRunOut kind ⟨f, l.length⟩ s = .ok (restItems kind f l) s := by
  simp only [iterRunOut, getS, bind_apply, Iters.restR_rep hr hf s, pure_apply]
  rfl

theorem iterRunForks_eq (kind : IterKind) {s : St K V Q} {l : List (K × V)} (hr : Rep s.r l) :
    ∀ (forks : List Nat), (∀ f ∈ forks, f ≤ l.length) →
      iterRunForks kind (forkIts l.length forks) s = .ok (runForks kind forks l) s
  | [], _ => rfl
  | f :: fs, h => by
    have e1 := iterRunOut_eq kind hr (h f (by simp))
    have e2 := iterRunForks_eq kind hr fs (fun f' hf' => h f' (by simp [hf']))
    show iterRunForks kind (⟨f, l.length⟩ :: forkIts l.length fs) s = _
    simp only [iterRunForks, bind_apply, e1, e2, pure_apply]
    rfl

/-- **iterator scripts**: the script over a borrowing iterator standing at `k`, with the clones
    `forks`, returns exactly the outputs of `lIterScript` and leaves the list `lIterScript` says;
    the world is not touched at all. -/
theorem iterScript_eq (R : Render K V) (kind : IterKind) (g : V → V) :
    ∀ (cs : List IterCmd) (k : Nat) (forks : List Nat) (s : St K V Q) (l : List (K × V)),
    Rep s.r l → k ≤ l.length → (∀ f ∈ forks, f ≤ l.length) →
    ∃ s', iterScript R kind g cs ⟨k, l.length⟩ (forkIts l.length forks) s =
        .ok (lIterScript R kind g cs k forks l).1 s' ∧ s'.w = s.w ∧ s'.r.cap = s.r.cap ∧
      Rep s'.r (lIterScript R kind g cs k forks l).2
  | [], k, forks, s, l, hr, hk, hf => by
    refine ⟨s, ?_, rfl, rfl, hr⟩
    simp only [iterScript, lIterScript]
    exact iterRunForks_eq kind hr forks hf
  | c :: cs, k, forks, s, l, hr, hk, hf => by
    cases c with
    | next =>
      by_cases hlt : k < l.length
      · by_cases hm : isMut kind = true
        · have hm' : kind = IterKind.iter_mut ∨ kind = IterKind.values_mut := (isMut_iff kind).1 hm
          have hr1 : Rep ({ s with r := setSlot s.r k (some (l[k].1, g l[k].2)) } : St K V Q).r
              (l.set k (l[k].1, g l[k].2)) := hr.set hlt _
          have ih := iterScript_eq R kind g cs (k + 1) forks _ _ hr1 (by simp; omega) (by simpa using hf)
          simp only [List.length_set] at ih
          obtain ⟨s', e, h1, h2, h3⟩ := ih
          refine ⟨s', ?_, h1, h2, ?_⟩
          · simp only [iterScript, bind_apply, pure_apply, getS, Iters.iterNextR_lt hr hlt s, hm', if_true,
              valueReplace_ok (s := s) (g l[k].2) (hr.cap_lt hlt) (hr.slot hlt), e]
            simp only [lIterScript, List.getElem?_eq_getElem hlt, hm, if_true, consOut]
          · simpa only [lIterScript, List.getElem?_eq_getElem hlt, hm, if_true, consOut] using h3
        · have hm' : ¬ (kind = IterKind.iter_mut ∨ kind = IterKind.values_mut) :=
            fun h => hm ((isMut_iff kind).2 h)
          have hmf : isMut kind = false := by simpa using hm
          obtain ⟨s', e, h1, h2, h3⟩ := iterScript_eq R kind g cs (k + 1) forks s l hr hlt hf
          refine ⟨s', ?_, h1, h2, ?_⟩
          · simp only [iterScript, bind_apply, pure_apply, getS, Iters.iterNextR_lt hr hlt s, hm', if_false, e]
            simp only [lIterScript, List.getElem?_eq_getElem hlt, hmf, consOut, Bool.false_eq_true, if_false]
          · simpa only [lIterScript, List.getElem?_eq_getElem hlt, hmf, consOut, Bool.false_eq_true, if_false] using h3
      · have hend : ¬ (⟨k, l.length⟩ : SliceIt).lo < (⟨k, l.length⟩ : SliceIt).hi := hlt
        have hnone : l[k]? = none := List.getElem?_eq_none (by omega)
        obtain ⟨s', e, h1, h2, h3⟩ := iterScript_eq R kind g cs k forks s l hr hk hf
        refine ⟨s', ?_, h1, h2, ?_⟩
        · simp only [iterScript, bind_apply, pure_apply, getS, Iters.iterNextR_end s.r hend s, e]
          simp only [lIterScript, hnone, consOut]
        · simpa only [lIterScript, hnone, consOut] using h3
    | len =>
      obtain ⟨s', e, h1, h2, h3⟩ := iterScript_eq R kind g cs k forks s l hr hk hf
      exact ⟨s', by simp only [iterScript, bind_apply, pure_apply, e, lIterScript, consOut, SliceIt.len],
        h1, h2, h3⟩
    | hint =>
      obtain ⟨s', e, h1, h2, h3⟩ := iterScript_eq R kind g cs k forks s l hr hk hf
      exact ⟨s', by simp only [iterScript, bind_apply, pure_apply, e, lIterScript, consOut, SliceIt.len],
        h1, h2, h3⟩
    | debug =>
      obtain ⟨s', e, h1, h2, h3⟩ := iterScript_eq R kind g cs k forks s l hr hk hf
      exact ⟨s', by simp only [iterScript, bind_apply, pure_apply, getS, Iters.restR_rep hr hk s, e,
        lIterScript, consOut], h1, h2, h3⟩
    | debugAlt =>
      obtain ⟨s', e, h1, h2, h3⟩ := iterScript_eq R kind g cs k forks s l hr hk hf
      exact ⟨s', by simp only [iterScript, bind_apply, pure_apply, getS, Iters.restR_rep hr hk s, e,
        lIterScript, consOut], h1, h2, h3⟩
    | clone =>
      by_cases hm : isMut kind = true
      · have hm' : kind = IterKind.iter_mut ∨ kind = IterKind.values_mut := (isMut_iff kind).1 hm
        obtain ⟨s', e, h1, h2, h3⟩ := iterScript_eq R kind g cs k forks s l hr hk hf
        exact ⟨s', by simp only [iterScript, hm', if_true, e, lIterScript, hm], h1, h2,
          by simpa only [lIterScript, hm, if_true] using h3⟩
      · have hm' : ¬ (kind = IterKind.iter_mut ∨ kind = IterKind.values_mut) :=
          fun h => hm ((isMut_iff kind).2 h)
        have hf' : ∀ f ∈ forks ++ [k], f ≤ l.length := by
          intro f hfm
          rcases List.mem_append.mp hfm with h | h
          · exact hf f h
          · simp at h; subst h; exact hk
        obtain ⟨s', e, h1, h2, h3⟩ := iterScript_eq R kind g cs k (forks ++ [k]) s l hr hk hf'
        have hfk : forkIts l.length (forks ++ [k]) = forkIts l.length forks ++ [⟨k, l.length⟩] := by
          simp [forkIts]
        rw [hfk] at e
        have hmf : isMut kind = false := by simpa using hm
        exact ⟨s', by simp only [iterScript, hm', if_false, e, lIterScript, hmf, Bool.false_eq_true], h1, h2,
          by simpa only [lIterScript, hmf, Bool.false_eq_true, if_false] using h3⟩
    | count =>
      refine ⟨s, ?_, rfl, rfl, hr⟩
      rw [iterScript]
      simp only [bind_apply, pure_apply, iterScript, iterRunForks_eq kind hr forks hf, lIterScript,
        SliceIt.len]
    | fold =>
      refine ⟨s, ?_, rfl, rfl, hr⟩
      rw [iterScript]
      simp only [bind_apply, pure_apply, iterScript, iterRunForks_eq kind hr forks hf, lIterScript,
        SliceIt.len]

theorem iterOp_ret (R : Render K V) (kind : IterKind) (g : V → V) (script : List IterCmd)
    {prof cap} {l : List (K × V)} {s : St K V Q} (hc : Ctx prof cap l s) :
    Ret (iterOp R kind g script) s (lIterScript R kind g script 0 [] l).1
      (Ctx prof cap (lIterScript R kind g script 0 [] l).2) := by
  obtain ⟨s', e, h1, h2, h3⟩ :=
    iterScript_eq R kind g script 0 [] s l hc.rep (Nat.zero_le _) (fun _ h => by simp at h)
  refine ⟨s', ?_, hc.step' h3 h2 h1⟩
  simp only [iterOp, getS, bind_apply, Iters.iterStartR_ok hc.rep s]
  exact e

/-- a script over a shared iterator leaves the list as it is. -/
theorem lIterScript_shared (R : Render K V) {kind : IterKind} (hk : isMut kind = false) (g : V → V) :
    ∀ (cs : List IterCmd) (k : Nat) (forks : List Nat) (l : List (K × V)),
      (lIterScript R kind g cs k forks l).2 = l
  | [], _, _, _ => rfl
  | c :: cs, k, forks, l => by
    cases c <;> simp only [lIterScript, hk, consOut, Bool.false_eq_true, if_false]
    case next =>
      cases l[k]? with
      | none => exact lIterScript_shared R hk g cs k forks l
      | some p => exact lIterScript_shared R hk g cs (k + 1) forks l
    all_goals first
      | exact lIterScript_shared R hk g cs k forks l
      | exact lIterScript_shared R hk g cs k (forks ++ [k]) l

/-! ### `get_disjoint_mut` -/

theorem readSlots_eq {r : Raw K V} {l : List (K × V)} (hr : Rep r l) (s : St K V Q) :
    ∀ res : List (Option Nat), (∀ (t j : Nat), res[t]? = some (some j) → j < l.length) →
      readSlots r res s = .ok (readL l res) s
  | [], _ => rfl
  | none :: rest, hb => by
    have ho := readSlots_eq hr s rest (fun t j h => hb (t + 1) j (by simpa using h))
    simp [readSlots, bind_apply, ho, readL]
  | some i :: rest, hb => by
    have hi : i < l.length := hb 0 i (by simp)
    have ho := readSlots_eq hr s rest (fun t j h => hb (t + 1) j (by simpa using h))
    have h1 : itemRefR r i s = .ok l[i] s := by
      unfold itemRefR; simp [hr.cap_lt hi, hr.slot hi]
    simp [readSlots, bind_apply, h1, ho, readL, List.getElem?_eq_getElem hi]

variable (E : Env K V Q) (R : Render K V)

theorem gdm_ok (hE : E.Pure) {prof cap} {l : List (K × V)} {s : St K V Q} (hc : Ctx prof cap l s)
    (other : Nat → Raw K V) (g : V → V) (ks : List (Probe K Q)) :
    RegOK prof cap (lDisjoint E l g ks) (stepMapOp E R other (.get_disjoint_mut false g ks)) s := by
  unfold lDisjoint
  rcases outcome (Disjoint.checked_sat E hc.rep ks) with
    ⟨res, s1, hm, hs, hw, _, hb, _, hp⟩ | ⟨c, s1, hm, hs, hq⟩
  · obtain ⟨hres, hov, hun⟩ := hp hE
    rw [if_neg (by simpa using hun), if_neg hov]
    subst hres
    have hc1 := hc.frame hs hw
    obtain ⟨s2, g1, g2, g3, g4⟩ := Disjoint.writeSlots_eq (Q := Q) g _ s1 l hc1.rep hb
    have hrd := readSlots_eq g2 s2 (Disjoint.resSpec E l ks) (fun t j h => by
      rw [Disjoint.writeL_length]; exact hb t j h)
    refine ⟨s2, ?_, hc1.step' g2 g4 g3⟩
    simp [stepMapOp, bind_apply, hm, g1, getS, hrd]
  · rcases hq with hi' | ⟨hcl, hw, hp⟩ | ⟨hcl, hw, hp⟩
    · exact (no_inj hc.benign hi').elim
    · obtain ⟨hov, hun⟩ := hp hE
      rw [if_neg (by simpa using hun), if_pos hov]
      subst hcl
      exact ⟨s1, by simp [stepMapOp, bind_apply, hm], hc.frame hs hw⟩
    · rw [if_pos (hp hE)]
      subst hcl
      exact ⟨s1, by simp [stepMapOp, bind_apply, hm], hc.frame hs hw⟩

end Micromap.ListSys
