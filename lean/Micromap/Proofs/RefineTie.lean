/-
`Refine.mrun` (the function the refinement theorems are about) is what `stepMapOp` (the function
the driver executes) computes, up to the presentation of the result: for every dictionary
operation both give the same outcome, the same final state and the same return value once slot
positions are erased.
-/
import Micromap.Proofs.RefineStep
import Micromap.Proofs.RefineSet
import Micromap.Model.Sys

namespace Micromap.Refine
variable {K V Q : Type} (E : Env K V Q) (R : Render K V)

def Res.mapOut {σ α β : Type} (f : α → β) : Res σ α → Res σ β
  | .ok a s => .ok (f a) s
  | .panic c s => .panic c s
  | .ub => .ub

/-- the `MapOp` of the operation language behind a dictionary operation (`iter` is the script-
    driven `MapOp.iter`, covered by C09; it has no single counterpart here). -/
def toMapOp : DOp K V Q → Option (MapOp K V Q)
  | .insert k v => some (.insert k v)
  | .insert_key_value k v => some (.insert_key_value k v)
  | .checked_insert k v => some (.checked_insert k v)
  | .get pr => some (.get_key_value pr)
  | .get_mut pr g => some (.get_mut pr g)
  | .contains_key pr => some (.contains_key pr)
  | .index pr => some (.index pr)
  | .index_mut pr g => some (.index_mut pr g)
  | .remove pr => some (.remove pr)
  | .remove_entry pr => some (.remove_entry pr)
  | .retain f => some (.retain fun _ k v => f k v)
  | .clear => some .clear
  | .len => some .len
  | .is_empty => some .is_empty
  | .iter => none

/-- the return value of `stepMapOp` with slot positions erased. -/
def viewRV : DOp K V Q → RV K V → DOut K V
  | .insert _ _, .none => .optV none
  | .insert _ _, .some (.val v) => .optV (some v)
  | .remove _, .none => .optV none
  | .remove _, .some (.val v) => .optV (some v)
  | .insert_key_value _ _, .none => .optKV none
  | .insert_key_value _ _, .some (.pair k v) => .optKV (some (k, v))
  | .remove_entry _, .none => .optKV none
  | .remove_entry _, .some (.pair k v) => .optKV (some (k, v))
  | .checked_insert _ _, .none => .optOptV none
  | .checked_insert _ _, .some .none => .optOptV (some none)
  | .checked_insert _ _, .some (.some (.val v)) => .optOptV (some (some v))
  | .get _, .none => .optKV none
  | .get _, .some (.ref _ (.pair k v)) => .optKV (some (k, v))
  | .get_mut _ _, .none => .optV none
  | .get_mut _ _, .some (.ref _ (.val v)) => .optV (some v)
  | .index _, .ref _ (.val v) => .optV (some v)
  | .index_mut _ _, .ref _ (.val v) => .optV (some v)
  | .contains_key _, .bool b => .bool b
  | .is_empty, .bool b => .bool b
  | .len, .nat n => .nat n
  | _, _ => .unit

/-- the same view of `mrun`'s result (`get_mut`, `index`, `index_mut` return the value only). -/
def viewD : DOp K V Q → DOut K V → DOut K V
  | .get_mut _ _, .optKV o => .optV (o.map (·.2))
  | .index _, .kv p => .optV (some p.2)
  | .index_mut _ _, .kv p => .optV (some p.2)
  | _, x => x

/-- **`stepMapOp` = `mrun`** on every dictionary operation: same outcome (return / panic class /
    never `ub` differently), same final state, same return value up to slot positions. -/
theorem stepMapOp_eq_mrun (other : Nat → Raw K V) (op : DOp K V Q) (mop : MapOp K V Q)
    (h : toMapOp op = some mop) (s : St K V Q) :
    Res.mapOut (viewRV op) (stepMapOp E R other mop s) = Res.mapOut (viewD op) (mrun E op s) := by
  cases op <;> simp only [toMapOp, Option.some.injEq, reduceCtorEq] at h <;> subst h
  case insert k v =>
    simp only [stepMapOp, mrun, bind_apply]
    cases insert E k v s with
    | ok a s' => cases a <;> rfl
    | panic c s' => rfl
    | ub => rfl
  case insert_key_value k v =>
    simp only [stepMapOp, mrun, bind_apply]
    cases insert_key_value E k v s with
    | ok a s' => cases a <;> rfl
    | panic c s' => rfl
    | ub => rfl
  case checked_insert k v =>
    simp only [stepMapOp, mrun, bind_apply]
    cases checked_insert E k v s with
    | ok a s' =>
      cases a with
      | none => rfl
      | some a' => cases a' <;> rfl
    | panic c s' => rfl
    | ub => rfl
  case get pr =>
    simp only [stepMapOp, mrun, bind_apply]
    cases get E pr s with
    | ok a s' =>
      cases a with
      | none => rfl
      | some x => obtain ⟨i, p⟩ := x; rfl
    | panic c s' => rfl
    | ub => rfl
  case get_mut pr g =>
    simp only [stepMapOp, mrun, bind_apply]
    cases get_mut E pr g s with
    | ok a s' =>
      cases a with
      | none => rfl
      | some x => obtain ⟨i, p⟩ := x; rfl
    | panic c s' => rfl
    | ub => rfl
  case contains_key pr =>
    simp only [stepMapOp, mrun, bind_apply]
    cases contains_key E pr s <;> rfl
  case index pr =>
    simp only [stepMapOp, mrun, bind_apply]
    cases index E pr s with
    | ok a s' => obtain ⟨i, p⟩ := a; rfl
    | panic c s' => rfl
    | ub => rfl
  case index_mut pr g =>
    simp only [stepMapOp, mrun, bind_apply]
    cases index_mut E pr g s with
    | ok a s' => obtain ⟨i, p⟩ := a; rfl
    | panic c s' => rfl
    | ub => rfl
  case remove pr =>
    simp only [stepMapOp, mrun, bind_apply]
    cases remove E pr s with
    | ok a s' => cases a <;> rfl
    | panic c s' => rfl
    | ub => rfl
  case remove_entry pr =>
    simp only [stepMapOp, mrun, bind_apply]
    cases remove_entry E pr s with
    | ok a s' => cases a <;> rfl
    | panic c s' => rfl
    | ub => rfl
  case retain f =>
    simp only [stepMapOp, mrun, bind_apply]
    cases retain E (fun _ k v => f k v) s <;> rfl
  case clear =>
    simp only [stepMapOp, mrun, bind_apply]
    cases clear E s <;> rfl
  case len => rfl
  case is_empty => rfl

end Micromap.Refine

namespace Micromap.RefineSet
open Micromap.Refine
variable {K Q : Type} (F : Env K Unit Q) (R : Render K Unit)

/-- the `SetOp` of the operation language behind a set operation. -/
def toSetOp : SOp K Q → Option (SetOp K Q)
  | .insert k => some (.insert k)
  | .replace k => some (.replace k)
  | .contains pr => some (.contains pr)
  | .get pr => some (.get pr)
  | .remove pr => some (.remove pr)
  | .take pr => some (.take pr)
  | .retain f => some (.retain fun _ k => f k)
  | .clear => some .clear
  | .len => some .len
  | .is_empty => some .is_empty
  | .iter => none

/-- the return value of `stepSetOp` with slot positions erased. -/
def viewSRV : SOp K Q → RV K Unit → SOut K
  | .insert _, .bool b => .bool b
  | .contains _, .bool b => .bool b
  | .remove _, .bool b => .bool b
  | .is_empty, .bool b => .bool b
  | .len, .nat n => .nat n
  | .replace _, .none => .optK none
  | .replace _, .some (.key k) => .optK (some k)
  | .take _, .none => .optK none
  | .take _, .some (.key k) => .optK (some k)
  | .get _, .none => .optK none
  | .get _, .some (.ref _ (.key k)) => .optK (some k)
  | _, _ => .unit

/-- **`stepSetOp` = `smrun`**: every `Set` method of the operation language is the forwarding to
    the map method that the C07 theorems are about. -/
theorem stepSetOp_eq_smrun (other : Nat → Raw K Unit) (op : SOp K Q) (sop : SetOp K Q)
    (h : toSetOp op = some sop) (s : St K Unit Q) :
    Res.mapOut (viewSRV op) (stepSetOp F R other sop s) = smrun F op s := by
  cases op <;> simp only [toSetOp, Option.some.injEq, reduceCtorEq] at h <;> subst h
  case insert k =>
    simp only [stepSetOp, smrun, mrun, toD, bind_apply]
    cases insert F k () s with
    | ok a s' => cases a <;> rfl
    | panic c s' => rfl
    | ub => rfl
  case replace k =>
    simp only [stepSetOp, smrun, mrun, toD, insert_key_value, bind_apply]
    cases insert_ii F k () true s with
    | ok a s' =>
      obtain ⟨i, ex⟩ := a
      cases ex <;> rfl
    | panic c s' => rfl
    | ub => rfl
  case contains pr =>
    simp only [stepSetOp, smrun, mrun, toD, bind_apply]
    cases contains_key F pr s <;> rfl
  case get pr =>
    simp only [stepSetOp, smrun, mrun, toD, bind_apply]
    cases get F pr s with
    | ok a s' =>
      cases a with
      | none => rfl
      | some x => obtain ⟨i, p⟩ := x; rfl
    | panic c s' => rfl
    | ub => rfl
  case remove pr =>
    simp only [stepSetOp, smrun, mrun, toD, bind_apply]
    cases remove F pr s with
    | ok a s' => cases a <;> rfl
    | panic c s' => rfl
    | ub => rfl
  case take pr =>
    simp only [stepSetOp, smrun, mrun, toD, bind_apply]
    cases remove_entry F pr s with
    | ok a s' => cases a <;> rfl
    | panic c s' => rfl
    | ub => rfl
  case retain f =>
    simp only [stepSetOp, smrun, mrun, toD, bind_apply]
    cases retain F (fun _ k u => (f k, u)) s <;> rfl
  case clear =>
    simp only [stepSetOp, smrun, mrun, toD, bind_apply]
    cases clear F s <;> rfl
  case len => rfl
  case is_empty => rfl

end Micromap.RefineSet
