/-
Decidable equality of returned-value trees (`RV` is a nested inductive type, for which `deriving`
does not apply): used by the executable examples of `Props/SysSpec.lean`.
-/
import Micromap.Spec.ListSys

namespace Micromap.ListSys
open Micromap
variable {K V : Type}

mutual
def RV.beq [DecidableEq K] [DecidableEq V] : RV K V → RV K V → Bool
  | .unit, .unit => true
  | .none, .none => true
  | .bool a, .bool b => a == b
  | .nat a, .nat b => a == b
  | .key a, .key b => decide (a = b)
  | .val a, .val b => decide (a = b)
  | .pair a b, .pair c d => decide (a = c) && decide (b = d)
  | .ref s x, .ref t y => s == t && RV.beq x y
  | .oref o s x, .oref p t y => o == p && s == t && RV.beq x y
  | .some x, .some y => RV.beq x y
  | .list xs, .list ys => RV.beqL xs ys
  | .hint a b, .hint c d => a == c && b == d
  | .str a, .str b => a == b
  | .tag a, .tag b => a == b
  | _, _ => false
def RV.beqL [DecidableEq K] [DecidableEq V] : List (RV K V) → List (RV K V) → Bool
  | [], [] => true
  | x :: xs, y :: ys => RV.beq x y && RV.beqL xs ys
  | _, _ => false
end

mutual
theorem RV.eq_of_beq [DecidableEq K] [DecidableEq V] : ∀ (a b : RV K V), RV.beq a b = true → a = b
  | .unit, b, h => by cases b <;> simp [RV.beq] at h ⊢
  | .none, b, h => by cases b <;> simp [RV.beq] at h ⊢
  | .bool x, b, h => by cases b <;> simp [RV.beq] at h ⊢; exact h
  | .nat x, b, h => by cases b <;> simp [RV.beq] at h ⊢; exact h
  | .key x, b, h => by cases b <;> simp [RV.beq] at h ⊢; exact h
  | .val x, b, h => by cases b <;> simp [RV.beq] at h ⊢; exact h
  | .pair x y, b, h => by cases b <;> simp [RV.beq] at h ⊢; exact h
  | .hint x y, b, h => by cases b <;> simp [RV.beq] at h ⊢; exact h
  | .str x, b, h => by cases b <;> simp [RV.beq] at h ⊢; exact h
  | .tag x, b, h => by cases b <;> simp [RV.beq] at h ⊢; exact h
  | .ref s x, b, h => by
    cases b with
    | ref t y => simp [RV.beq] at h; rw [h.1, RV.eq_of_beq x y h.2]
    | _ => simp [RV.beq] at h
  | .oref o s x, b, h => by
    cases b with
    | oref p t y => simp [RV.beq] at h; rw [h.1.1, h.1.2, RV.eq_of_beq x y h.2]
    | _ => simp [RV.beq] at h
  | .some x, b, h => by
    cases b with
    | some y => simp [RV.beq] at h; rw [RV.eq_of_beq x y h]
    | _ => simp [RV.beq] at h
  | .list xs, b, h => by
    cases b with
    | list ys => simp [RV.beq] at h; rw [RV.eqL_of_beqL xs ys h]
    | _ => simp [RV.beq] at h
theorem RV.eqL_of_beqL [DecidableEq K] [DecidableEq V] :
    ∀ (xs ys : List (RV K V)), RV.beqL xs ys = true → xs = ys
  | [], [], _ => rfl
  | x :: xs, y :: ys, h => by
    simp [RV.beqL] at h; rw [RV.eq_of_beq x y h.1, RV.eqL_of_beqL xs ys h.2]
  | [], _ :: _, h => by simp [RV.beqL] at h
  | _ :: _, [], h => by simp [RV.beqL] at h
end

mutual
theorem RV.beq_self [DecidableEq K] [DecidableEq V] : ∀ (a : RV K V), RV.beq a a = true
  | .unit | .none | .bool _ | .nat _ | .key _ | .val _ | .pair _ _ | .hint _ _ | .str _ | .tag _ => by
    simp [RV.beq]
  | .ref s x => by simp [RV.beq, RV.beq_self x]
  | .oref o s x => by simp [RV.beq, RV.beq_self x]
  | .some x => by simp [RV.beq, RV.beq_self x]
  | .list xs => by simp [RV.beq, RV.beqL_self xs]
theorem RV.beqL_self [DecidableEq K] [DecidableEq V] : ∀ (xs : List (RV K V)), RV.beqL xs xs = true
  | [] => rfl
  | x :: xs => by simp [RV.beqL, RV.beq_self x, RV.beqL_self xs]
end

instance [DecidableEq K] [DecidableEq V] : DecidableEq (RV K V) := fun a b =>
  if h : RV.beq a b = true then isTrue (RV.eq_of_beq a b h)
  else isFalse (fun e => h (e ▸ RV.beq_self a))

instance [DecidableEq K] [DecidableEq V] : DecidableEq (LOut K V) := fun a b =>
  if h : a.outcome = b.outcome ∧ a.ret = b.ret then
    isTrue (by cases a; cases b; simp only [LOut.mk.injEq]; exact h)
  else isFalse (fun e => h (e ▸ ⟨rfl, rfl⟩))

end Micromap.ListSys
