/-
std's provided `nth` / `last` on the BORROWING iterators and on the lazy set operations
(`Model/StdIterB.lean`): the extended script interpreters coincide with the old ones on scripts
without `nth` / `last`; triples of `iterSkipR`, `iterNthR`, `iterLastR`, `iterYield`, the `nth` /
`last` commands of `iterScriptX`, and of `algSkip`, `algNth`, `algLast`.

The borrowing-iterator statements hold for every `Env` and every world: these iterators make no
callback.  The set-algebra statements are `Alg.Quiet` triples (any oracle, any injected panic), with
the functional result under `E.Pure`, relative to `Alg.algRest` exactly as `Alg.nextN_quiet` /
`Alg.algFold_quiet` are.
-/
import Micromap.Proofs.Iters
import Micromap.Proofs.Alg
import Micromap.Model.StdIterB

namespace Micromap.StdIterB
open Micromap Micromap.Iters
variable {K V Q : Type}

/-! ### the extended interpreters extend the old ones -/

/-- on a script without `nth` / `last` the extended interpreter is `iterScript`. -/
theorem iterScriptX_base (R : Render K V) (kind : IterKind) (g : V → V) :
    ∀ (cs : List IterCmd) (it : SliceIt) (forks : List SliceIt),
    iterScriptX (Q := Q) R kind g (cs.map .base) it forks = iterScript R kind g cs it forks
  | [], it, forks => by
    rw [iterScript]; rfl
  | c :: cs, it, forks => by
    cases c with
    | next =>
      simp only [List.map_cons, iterScriptX, iterScript]
      refine congrArg (fun f => getS >>= f) (funext fun s => ?_)
      refine congrArg (fun f => iterNextR s.r it >>= f) (funext fun x => ?_)
      obtain ⟨o, it'⟩ := x
      cases o with
      | none =>
        simp only [iterYield, iterScriptX_base R kind g cs it' forks]
        rfl
      | some y =>
        obtain ⟨slot, p⟩ := y
        simp only [iterYield, iterScriptX_base R kind g cs it' forks]
        funext s0
        by_cases hm : kind = IterKind.iter_mut ∨ kind = IterKind.values_mut
        · simp only [hm, if_true, bind_apply, pure_apply]
          cases valueReplace slot (g p.2) s0 <;> rfl
        · simp only [hm, if_false, bind_apply, pure_apply]
    | len => simp only [List.map_cons, iterScriptX, iterScript, iterScriptX_base R kind g cs it forks]
    | hint => simp only [List.map_cons, iterScriptX, iterScript, iterScriptX_base R kind g cs it forks]
    | debug => simp only [List.map_cons, iterScriptX, iterScript, iterScriptX_base R kind g cs it forks]
    | debugAlt => simp only [List.map_cons, iterScriptX, iterScript, iterScriptX_base R kind g cs it forks]
    | clone =>
      simp only [List.map_cons, iterScriptX, iterScript, iterScriptX_base R kind g cs it forks,
        iterScriptX_base R kind g cs it (forks ++ [it])]
    | count =>
      simp only [List.map_cons, iterScriptX]
      conv => rhs; rw [iterScript]
      simp only [iterScript]
    | fold =>
      simp only [List.map_cons, iterScriptX]
      conv => rhs; rw [iterScript]
      simp only [iterScript]

theorem iterOpX_base (R : Render K V) (kind : IterKind) (g : V → V) (cs : List IterCmd) :
    iterOpX (Q := Q) R kind g (cs.map .base) = iterOp R kind g cs := by
  simp only [iterOpX, iterOp, iterScriptX_base]

/-! ### `advance_by`, `nth`, `last` on a borrowing iterator -/

/-- `advance_by(k)` from position `j`: it answers whether `k` more entries were there and leaves the
    iterator at `min (j+k) |l|`; no panic, no `ub`, the state is untouched. -/
theorem iterSkipR_rep {r : Raw K V} {l} (hr : Rep r l) (s : St K V Q) :
    ∀ k j, j ≤ l.length →
    iterSkipR r k ⟨j, l.length⟩ s =
      .ok (decide (j + k ≤ l.length), ⟨min (j + k) l.length, l.length⟩) s
  | 0, j, hj => by simp [iterSkipR, hj, Nat.min_eq_left hj]
  | k + 1, j, hj => by
    by_cases hlt : j < l.length
    · have ih := iterSkipR_rep hr s k (j + 1) hlt
      simp only [iterSkipR, bind_apply, iterNextR_lt hr hlt s, ih]
      have e1 : j + 1 + k = j + (k + 1) := by omega
      rw [e1]
    · have hjl : j = l.length := by omega
      have hend : ¬ (⟨j, l.length⟩ : SliceIt).lo < (⟨j, l.length⟩ : SliceIt).hi := hlt
      simp only [iterSkipR, bind_apply, iterNextR_end r hend s, pure_apply]
      have h1 : decide (j + (k + 1) ≤ l.length) = false := by simp; omega
      have h2 : min (j + (k + 1)) l.length = j := by omega
      rw [h1, h2]

/-- `nth(k)` from position `j ≤ |l|`: it returns slot `j+k` with the entry stored there (`None` when
    there is no such entry) and leaves the iterator at `min (j+k+1) |l|`; no panic, no `ub`, the
    state is untouched. -/
theorem iterNthR_rep {r : Raw K V} {l} (hr : Rep r l) (s : St K V Q) (k : Nat) {j : Nat}
    (hj : j ≤ l.length) :
    iterNthR r k ⟨j, l.length⟩ s =
      .ok (l[j + k]?.map fun p => (j + k, p), ⟨min (j + k + 1) l.length, l.length⟩) s := by
  simp only [iterNthR, bind_apply, iterSkipR_rep hr s k j hj]
  by_cases hle : j + k ≤ l.length
  · simp only [hle, decide_true, if_true, Nat.min_eq_left hle]
    by_cases hlt : j + k < l.length
    · rw [iterNextR_lt hr hlt s]
      have h2 : min (j + k + 1) l.length = j + k + 1 := by omega
      simp [hlt, h2]
    · have hend : ¬ (⟨j + k, l.length⟩ : SliceIt).lo < (⟨j + k, l.length⟩ : SliceIt).hi := hlt
      rw [iterNextR_end r hend s]
      have h2 : min (j + k + 1) l.length = j + k := by omega
      simp [List.getElem?_eq_none (by omega : l.length ≤ j + k), h2]
  · have h2 : min (j + k) l.length = l.length := by omega
    have h3 : min (j + k + 1) l.length = l.length := by omega
    simp [hle, h2, h3, List.getElem?_eq_none (by omega : l.length ≤ j + k)]

/-- what `last()` returns from position `j`: the last entry with its slot `|l| - 1` if anything is
    left, else the accumulator it started with (`None`). -/
def lastItem (l : List (K × V)) (j : Nat) (acc : Option (Nat × (K × V))) : Option (Nat × (K × V)) :=
  if j < l.length then l.getLast?.map fun p => (l.length - 1, p) else acc

theorem lastItem_lt {l : List (K × V)} {j : Nat} (h : j < l.length) (acc : Option (Nat × (K × V))) :
    lastItem l j acc = some (l.length - 1, l[l.length - 1]) := by
  simp [lastItem, h, List.getLast?_eq_getElem?, List.getElem?_eq_getElem (by omega : l.length - 1 < l.length)]

theorem lastItem_ge {l : List (K × V)} {j : Nat} (h : l.length ≤ j) (acc : Option (Nat × (K × V))) :
    lastItem l j acc = acc := by
  simp [lastItem, Nat.not_lt.mpr h]

/-- `last()` from position `j ≤ |l|` with fuel beyond the window length: the fuel never runs out
    (no `ub`), no panic, the state is untouched; the result is `lastItem`, the iterator is
    exhausted. -/
theorem iterLastR_rep {r : Raw K V} {l} (hr : Rep r l) (s : St K V Q) :
    ∀ fuel j acc, j ≤ l.length → l.length - j < fuel →
    iterLastR r fuel ⟨j, l.length⟩ acc s = .ok (lastItem l j acc, ⟨l.length, l.length⟩) s
  | 0, j, acc, _, hf => by omega
  | fuel + 1, j, acc, hj, hf => by
    by_cases hlt : j < l.length
    · have ih := iterLastR_rep hr s fuel (j + 1) (some (j, l[j])) hlt (by omega)
      simp only [iterLastR, bind_apply, iterNextR_lt hr hlt s, ih]
      congr 2
      rw [lastItem_lt hlt]
      by_cases hlt' : j + 1 < l.length
      · rw [lastItem_lt hlt']
      · rw [lastItem_ge (by omega)]
        have : j = l.length - 1 := by omega
        subst this; rfl
    · have hjl : j = l.length := by omega
      have hend : ¬ (⟨j, l.length⟩ : SliceIt).lo < (⟨j, l.length⟩ : SliceIt).hi := hlt
      simp only [iterLastR, bind_apply, iterNextR_end r hend s, pure_apply]
      rw [lastItem_ge (by omega), hjl]

/-! ### what the script does with the item it receives -/

/-- shared kinds: the item is reported, nothing is written. -/
theorem iterYield_shared {kind : IterKind} (hk : ¬ IsMut kind) (g : V → V)
    (o : Option (Nat × (K × V))) (s : St K V Q) :
    iterYield kind g o s =
      .ok (match o with | none => RV.none | some x => RV.some (projItem kind x.1 x.2)) s := by
  have hk' : ¬ (kind = IterKind.iter_mut ∨ kind = IterKind.values_mut) := hk
  cases o with
  | none => rfl
  | some x =>
    obtain ⟨slot, p⟩ := x
    simp only [iterYield, hk', if_false, bind_apply, pure_apply]

/-- `iter_mut` / `values_mut`: `g v` is written through the reference — into the slot of the
    received item and nowhere else. -/
theorem iterYield_mut {kind : IterKind} (hk : IsMut kind) (g : V → V) {s : St K V Q} {l : List (K × V)}
    (hr : Rep s.r l) {i : Nat} (hi : i < l.length) :
    iterYield kind g (some (i, l[i])) s =
      .ok (RV.some (projItem kind i (wr g l[i]))) { s with r := setSlot s.r i (some (wr g l[i])) } := by
  have hk' : kind = IterKind.iter_mut ∨ kind = IterKind.values_mut := hk
  simp only [iterYield, hk', if_true, bind_apply, pure_apply,
    valueReplace_ok (s := s) (g l[i].2) (hr.cap_lt hi) (hr.slot hi)]
  rfl

theorem set_eq_mapRange {α : Type} (f : α → α) (l : List α) {i : Nat} (hi : i < l.length) :
    l.set i (f l[i]) = mapRange f i (i + 1) l := by
  apply List.ext_getElem?
  intro n
  rw [getElem?_mapRange, List.getElem?_set]
  by_cases hn : i = n
  · subst hn; simp [hi]
  · have : ¬ (i ≤ n ∧ n < i + 1) := by omega
    simp [hn, this]

/-- the report of the item an iterator hands out from slot `i` (`None` beyond the end), and the
    state after the script has used it: `RV` as `nextOut … i 0`; for `iter_mut` / `values_mut`
    exactly entry `i` is rewritten to `g v`, for the other kinds (and beyond the end) nothing. -/
theorem iterYield_at (kind : IterKind) (g : V → V) {s : St K V Q} {l : List (K × V)} (hr : Rep s.r l)
    (i : Nat) :
    ∃ s1 : St K V Q, iterYield kind g (l[i]?.map fun p => (i, p)) s = .ok (nextOut kind g l i 0) s1 ∧
      s1.w = s.w ∧ s1.r.cap = s.r.cap ∧ (¬ IsMut kind → s1 = s) ∧
      Rep s1.r (if IsMut kind then mapRange (wr g) i (i + 1) l else l) := by
  by_cases hi : i < l.length
  · by_cases hm : IsMut kind
    · refine ⟨{ s with r := setSlot s.r i (some (wr g l[i])) }, ?_, rfl, rfl, fun h => absurd hm h, ?_⟩
      · rw [List.getElem?_eq_getElem hi, Option.map_some, iterYield_mut hm g hr hi]
        simp [nextOut, hi, hm]
      · rw [if_pos hm, ← set_eq_mapRange (wr g) l hi]
        exact hr.set hi _
    · refine ⟨s, ?_, rfl, rfl, fun _ => rfl, by rw [if_neg hm]; exact hr⟩
      rw [iterYield_shared hm, List.getElem?_eq_getElem hi]
      simp [nextOut, hi, hm]
  · refine ⟨s, ?_, rfl, rfl, fun _ => rfl, ?_⟩
    · rw [List.getElem?_eq_none (by omega)]
      simp [nextOut, iterYield, List.getElem?_eq_none (by omega : l.length ≤ i)]
    · split
      · rw [mapRange_of_le _ (Or.inl (by omega))]; exact hr
      · exact hr

/-! ### the `nth` / `last` commands of a script -/

/-- `nth(k)` inside a script, iterator at `j ≤ |l|`: it reports `nextOut … j k` — a reference into
    slot `j+k` showing the entry stored there (after the write `g v` for `iter_mut` / `values_mut`),
    `None` if there is no such entry — and the script continues from position `min (j+k+1) |l|` in
    a state `s1` that is the old one for the shared kinds and has exactly entry `j+k` rewritten for
    the `*_mut` kinds: the `k` skipped entries are NOT written. -/
theorem iterScriptX_nth (R : Render K V) (kind : IterKind) (g : V → V) (k : Nat) (cs : List IterCmdX)
    (forks : List SliceIt) {s : St K V Q} {l : List (K × V)} (hr : Rep s.r l) {j : Nat}
    (hj : j ≤ l.length) :
    ∃ s1 : St K V Q, s1.w = s.w ∧ s1.r.cap = s.r.cap ∧ (¬ IsMut kind → s1 = s) ∧
      Rep s1.r (if IsMut kind then mapRange (wr g) (j + k) (j + k + 1) l else l) ∧
      iterScriptX R kind g (.nth k :: cs) ⟨j, l.length⟩ forks s =
        (iterScriptX R kind g cs ⟨min (j + k + 1) l.length, l.length⟩ forks >>= fun rest =>
          pure (nextOut kind g l j k :: rest)) s1 := by
  obtain ⟨s1, e, h1, h2, h3, h4⟩ := iterYield_at kind g hr (j + k)
  refine ⟨s1, h1, h2, h3, h4, ?_⟩
  have hno : nextOut kind g l (j + k) 0 = nextOut kind g l j k := by simp [nextOut]
  simp only [iterScriptX, bind_apply, getS, iterNthR_rep hr s k hj, e, hno]

/-- `last()` inside a script, iterator at `j ≤ |l|`: if anything is left it reports a reference into
    slot `|l| - 1` showing the last entry (after the write `g v` for the `*_mut` kinds), else `None`;
    the script ends (the clones taken before are still run out).  For the `*_mut` kinds exactly the
    last entry is rewritten — and only if it was received —, for the shared kinds nothing. -/
theorem iterScriptX_last (R : Render K V) (kind : IterKind) (g : V → V) (cs : List IterCmdX)
    (forks : List SliceIt) {s : St K V Q} {l : List (K × V)} (hr : Rep s.r l) {j : Nat}
    (hj : j ≤ l.length) :
    ∃ s1 : St K V Q, s1.w = s.w ∧ s1.r.cap = s.r.cap ∧ (¬ IsMut kind → s1 = s) ∧
      Rep s1.r (if IsMut kind ∧ j < l.length then mapRange (wr g) (l.length - 1) l.length l else l) ∧
      iterScriptX R kind g (.last :: cs) ⟨j, l.length⟩ forks s =
        (iterRunForks kind forks >>= fun rest =>
          pure ((if j < l.length then nextOut kind g l (l.length - 1) 0 else RV.none) :: rest)) s1 := by
  have hrun := iterLastR_rep hr s ((⟨j, l.length⟩ : SliceIt).len + 1) j none hj (by simp [SliceIt.len])
  by_cases hlt : j < l.length
  · obtain ⟨s1, e, h1, h2, h3, h4⟩ := iterYield_at kind g hr (l.length - 1)
    have hidx : l[l.length - 1]?.map (fun p => (l.length - 1, p)) = lastItem l j none := by
      rw [lastItem_lt hlt, List.getElem?_eq_getElem (by omega : l.length - 1 < l.length)]; rfl
    rw [hidx] at e
    refine ⟨s1, h1, h2, h3, ?_, ?_⟩
    · have : l.length - 1 + 1 = l.length := by omega
      rw [this] at h4
      by_cases hm : IsMut kind
      · simpa [hm, hlt] using h4
      · simpa [hm] using h4
    · simp only [iterScriptX, bind_apply, getS, hrun, e, hlt, if_true]
  · refine ⟨s, rfl, rfl, fun _ => rfl, by simp [hlt, hr], ?_⟩
    simp only [iterScriptX, bind_apply, getS, hrun, lastItem_ge (Nat.not_lt.mp hlt), iterYield, hlt,
      if_false, pure_apply]

/-! ### any extended script -/

/-- `next()` is `nth(0)`. -/
theorem iterNthR_zero (r : Raw K V) (it : SliceIt) : (iterNthR r 0 it : SM K V Q _) = iterNextR r it := by
  funext s; rfl

theorem iterScriptX_next_eq_nth0 (R : Render K V) (kind : IterKind) (g : V → V) (cs : List IterCmdX)
    (it : SliceIt) (forks : List SliceIt) :
    iterScriptX (Q := Q) R kind g (.base .next :: cs) it forks = iterScriptX R kind g (.nth 0 :: cs) it forks := by
  simp only [iterScriptX, iterNthR_zero]

/-- the content after a write through `iter_mut` / `values_mut` (none for the shared kinds). -/
def written (kind : IterKind) (g : V → V) (lo hi : Nat) (l : List (K × V)) : List (K × V) :=
  if IsMut kind then mapRange (wr g) lo hi l else l

theorem written_length (kind : IterKind) (g : V → V) (lo hi : Nat) (l : List (K × V)) :
    (written kind g lo hi l).length = l.length := by
  unfold written; split <;> simp

theorem written_keys (kind : IterKind) (g : V → V) (lo hi : Nat) (l : List (K × V)) :
    (written kind g lo hi l).map (·.1) = l.map (·.1) := by
  unfold written
  split
  · apply List.ext_getElem?
    intro i
    simp only [List.getElem?_map, getElem?_mapRange]
    split
    · cases l[i]? <;> simp [wr]
    · rfl
  · rfl

/-- ANY extended script over a borrowing iterator standing at `k ≤ |l|`: it runs to completion — no
    panic, no `ub` (in particular the loop bound of `last()` is never hit) — in every world; the
    world and the capacity are untouched; the kinds handing out `&V` leave the whole state as it
    was; `iter_mut` / `values_mut` change values only: same keys in the same slots, same length. -/
theorem iterScriptX_spec (R : Render K V) (kind : IterKind) (g : V → V) :
    ∀ (cs : List IterCmdX) (k : Nat) (forks : List SliceIt) (s : St K V Q) (l : List (K × V)),
    Rep s.r l → k ≤ l.length → (∀ f ∈ forks, f.lo ≤ l.length ∧ f.hi = l.length) →
    ∃ out s' l', iterScriptX R kind g cs ⟨k, l.length⟩ forks s = .ok out s' ∧ s'.w = s.w ∧
      s'.r.cap = s.r.cap ∧ (¬ IsMut kind → s' = s) ∧ Rep s'.r l' ∧ l'.map (·.1) = l.map (·.1)
  | [], k, forks, s, l, hr, hk, hf => by
    obtain ⟨o, e⟩ := iterRunForks_ok kind hr forks hf
    exact ⟨o, s, l, by simp only [iterScriptX, e], rfl, rfl, fun _ => rfl, hr, rfl⟩
  | .nth n :: cs, k, forks, s, l, hr, hk, hf => by
    obtain ⟨s1, h1, h2, h3, h4, e⟩ := iterScriptX_nth R kind g n cs forks hr hk
    have hlen := written_length kind g (k + n) (k + n + 1) l
    have hkeys := written_keys kind g (k + n) (k + n + 1) l
    obtain ⟨o, s', l', e', g1, g2, g3, g4, g5⟩ := iterScriptX_spec R kind g cs (min (k + n + 1) l.length) forks s1
      (written kind g (k + n) (k + n + 1) l) h4 (by rw [hlen]; omega) (by rw [hlen]; exact hf)
    rw [hlen] at e'
    refine ⟨nextOut kind g l k n :: o, s', l', ?_, g1.trans h1, g2.trans h2, fun h => by rw [g3 h, h3 h], g4, g5.trans hkeys⟩
    rw [e]; simp only [bind_apply, e', pure_apply]
  | .last :: cs, k, forks, s, l, hr, hk, hf => by
    obtain ⟨s1, h1, h2, h3, h4, e⟩ := iterScriptX_last R kind g cs forks hr hk
    have hw : ∃ l1 : List (K × V), Rep s1.r l1 ∧ l1.length = l.length ∧ l1.map (·.1) = l.map (·.1) := by
      by_cases hc : IsMut kind ∧ k < l.length
      · rw [if_pos hc] at h4
        have := written_keys kind g (l.length - 1) l.length l
        have hl := written_length kind g (l.length - 1) l.length l
        simp only [written, if_pos hc.1] at this hl
        exact ⟨_, h4, hl, this⟩
      · rw [if_neg hc] at h4; exact ⟨l, h4, rfl, rfl⟩
    obtain ⟨l1, hr1, hl1, hk1⟩ := hw
    obtain ⟨o, e'⟩ := iterRunForks_ok kind hr1 forks (by rw [hl1]; exact hf)
    refine ⟨(if k < l.length then nextOut kind g l (l.length - 1) 0 else RV.none) :: o, s1, l1, ?_, h1, h2, h3, hr1, hk1⟩
    rw [e]; simp only [bind_apply, e', pure_apply]
  | .base c :: cs, k, forks, s, l, hr, hk, hf => by
    cases c with
    | next =>
      rw [iterScriptX_next_eq_nth0]
      exact iterScriptX_spec R kind g (.nth 0 :: cs) k forks s l hr hk hf
    | len =>
      obtain ⟨o, s', l', e, h⟩ := iterScriptX_spec R kind g cs k forks s l hr hk hf
      exact ⟨RV.nat (SliceIt.len ⟨k, l.length⟩) :: o, s', l', by simp only [iterScriptX, bind_apply, pure_apply, e], h⟩
    | hint =>
      obtain ⟨o, s', l', e, h⟩ := iterScriptX_spec R kind g cs k forks s l hr hk hf
      exact ⟨RV.hint (SliceIt.len ⟨k, l.length⟩) (some (SliceIt.len ⟨k, l.length⟩)) :: o, s', l', by simp only [iterScriptX, bind_apply, pure_apply, e], h⟩
    | debug =>
      obtain ⟨o, s', l', e, h⟩ := iterScriptX_spec R kind g cs k forks s l hr hk hf
      exact ⟨RV.str (renderRest R kind false (l.drop k)) :: o, s', l', by simp only [iterScriptX, bind_apply, pure_apply, getS, restR_rep hr hk s, e], h⟩
    | debugAlt =>
      obtain ⟨o, s', l', e, h⟩ := iterScriptX_spec R kind g cs k forks s l hr hk hf
      exact ⟨RV.str (renderRest R kind true (l.drop k)) :: o, s', l', by simp only [iterScriptX, bind_apply, pure_apply, getS, restR_rep hr hk s, e], h⟩
    | clone =>
      by_cases hm : kind = IterKind.iter_mut ∨ kind = IterKind.values_mut
      · obtain ⟨o, s', l', e, h⟩ := iterScriptX_spec R kind g cs k forks s l hr hk hf
        exact ⟨o, s', l', by simp only [iterScriptX, hm, if_true, e], h⟩
      · have hf' : ∀ f ∈ forks ++ [(⟨k, l.length⟩ : SliceIt)], f.lo ≤ l.length ∧ f.hi = l.length := by
          intro f hfm
          rcases List.mem_append.mp hfm with h | h
          · exact hf f h
          · simp at h; subst h; exact ⟨hk, rfl⟩
        obtain ⟨o, s', l', e, h⟩ := iterScriptX_spec R kind g cs k _ s l hr hk hf'
        exact ⟨o, s', l', by simp only [iterScriptX, hm, if_false, e], h⟩
    | count =>
      obtain ⟨o, e⟩ := iterRunForks_ok kind hr forks hf
      exact ⟨RV.nat (SliceIt.len ⟨k, l.length⟩) :: o, s, l,
        by simp only [iterScriptX, bind_apply, pure_apply, e], rfl, rfl, fun _ => rfl, hr, rfl⟩
    | fold =>
      obtain ⟨o, e⟩ := iterRunForks_ok kind hr forks hf
      exact ⟨RV.nat (SliceIt.len ⟨k, l.length⟩) :: o, s, l,
        by simp only [iterScriptX, bind_apply, pure_apply, e], rfl, rfl, fun _ => rfl, hr, rfl⟩
termination_by cs => (cs.length, match cs with | .base .next :: _ => 1 | _ => 0)

/-- the composite operation on a well-formed container: `iter()` then the extended script. -/
theorem iterOpX_spec (R : Render K V) (kind : IterKind) (g : V → V) (script : List IterCmdX)
    {s : St K V Q} {l : List (K × V)} (hr : Rep s.r l) :
    ∃ out s' l', iterOpX R kind g script s = .ok out s' ∧ s'.w = s.w ∧ s'.r.cap = s.r.cap ∧
      (¬ IsMut kind → s' = s) ∧ Rep s'.r l' ∧ l'.map (·.1) = l.map (·.1) := by
  obtain ⟨o, s', l', e, h⟩ :=
    iterScriptX_spec R kind g script 0 [] s l hr (Nat.zero_le _) (fun _ h => by simp at h)
  exact ⟨o, s', l', by simp only [iterOpX, getS, bind_apply, iterStartR_ok hr s, e], h⟩

/-! ### the shared kinds: plain equations -/

/-- `nth(k)` in a script over `iter` / `keys` / `values`: nothing changes, the report is
    `nextOut … j k`, the script goes on from `min (j+k+1) |l|`. -/
theorem iterScriptX_nth_shared (R : Render K V) {kind : IterKind} (hk : ¬ IsMut kind) (g : V → V) (k : Nat)
    (cs : List IterCmdX) (forks : List SliceIt) {s : St K V Q} {l : List (K × V)} (hr : Rep s.r l)
    {j : Nat} (hj : j ≤ l.length) :
    iterScriptX R kind g (.nth k :: cs) ⟨j, l.length⟩ forks s =
      (iterScriptX R kind g cs ⟨min (j + k + 1) l.length, l.length⟩ forks >>= fun rest =>
        pure (nextOut kind g l j k :: rest)) s := by
  obtain ⟨s1, _, _, h3, _, e⟩ := iterScriptX_nth R kind g k cs forks hr hj
  rw [e, h3 hk]

/-- `last()` in a script over `iter` / `keys` / `values`. -/
theorem iterScriptX_last_shared (R : Render K V) {kind : IterKind} (hk : ¬ IsMut kind) (g : V → V)
    (cs : List IterCmdX) (forks : List SliceIt) {s : St K V Q} {l : List (K × V)} (hr : Rep s.r l)
    {j : Nat} (hj : j ≤ l.length) :
    iterScriptX R kind g (.last :: cs) ⟨j, l.length⟩ forks s =
      (iterRunForks kind forks >>= fun rest =>
        pure ((if j < l.length then nextOut kind g l (l.length - 1) 0 else RV.none) :: rest)) s := by
  obtain ⟨s1, _, _, h3, _, e⟩ := iterScriptX_last R kind g cs forks hr hj
  rw [e, h3 hk]

theorem nextOut_beyond (kind : IterKind) (g : V → V) (l : List (K × V)) {k i : Nat} (h : l.length ≤ k + i) :
    nextOut kind g l k i = RV.none := by
  simp [nextOut, List.getElem?_eq_none h]

/-- after an `nth(k)` that overshoots (`|l| ≤ j + k`), for every kind: it reports `None`, every
    later `next` reports `None`, `len()` is `0`, and nothing was written. -/
theorem iterScriptX_nth_overshoot (R : Render K V) (kind : IterKind) (g : V → V) {k : Nat} (m : Nat)
    {s : St K V Q} {l : List (K × V)} (hr : Rep s.r l) {j : Nat} (hj : j ≤ l.length)
    (hk : l.length ≤ j + k) :
    ∃ s', iterScriptX R kind g (.nth k :: (List.replicate m IterCmd.next ++ [IterCmd.len]).map .base)
        ⟨j, l.length⟩ [] s = .ok (RV.none :: (List.replicate m RV.none ++ [RV.nat 0])) s' ∧
      s'.w = s.w ∧ Rep s'.r l := by
  obtain ⟨s1, h1, _, _, h4, e⟩ := iterScriptX_nth R kind g k
    ((List.replicate m IterCmd.next ++ [IterCmd.len]).map .base) [] hr hj
  have hr1 : Rep s1.r l := by
    split at h4
    · rwa [mapRange_of_le _ (Or.inl hk)] at h4
    · exact h4
  have hmin : min (j + k + 1) l.length = l.length := by omega
  obtain ⟨sj, g1, _, _, g4, g5⟩ := iterScript_nexts R kind g m l.length s1 l hr1 (Nat.le_refl _)
  have hrj : Rep sj.r l := by
    split at g4
    · rwa [mapRange_of_le _ (Or.inl (Nat.le_refl _))] at g4
    · exact g4
  have hmin2 : min (l.length + m) l.length = l.length := by omega
  have := g5 [.len] [] [RV.nat 0] sj (by
    simp [iterScript, iterRunForks, SliceIt.len, hmin2])
  refine ⟨sj, ?_, g1.trans h1, hrj⟩
  rw [e, hmin]
  simp only [bind_apply, iterScriptX_base, this, pure_apply, nextOut_beyond kind g l hk]
  congr 2
  rw [List.map_congr_left (g := fun _ => RV.none)
    (fun i _ => nextOut_beyond kind g l (Nat.le_add_right _ i))]
  rw [List.map_const', List.length_range]

section
variable {K Q : Type} (E : Env K Unit Q)

/-- on a script without `nth` / `last` the extended interpreter is `algScript`. -/
theorem algScriptX_base (dbg : Bool → K → String) (a b : Raw K Unit) :
    ∀ (cs : List IterCmd) (it : AlgIt) (forks : List AlgIt),
    algScriptX E dbg a b (cs.map .base) it forks = algScript E dbg a b cs it forks
  | [], it, forks => by
    rw [algScript]; rfl
  | c :: cs, it, forks => by
    cases c with
    | next =>
      simp only [List.map_cons, algScriptX, algScript]
      refine congrArg (fun f => algNext E a b it >>= f) (funext fun x => ?_)
      obtain ⟨o, it'⟩ := x
      simp only [algScriptX_base dbg a b cs it' forks]
      cases o <;> rfl
    | len => simp only [List.map_cons, algScriptX, algScript, algScriptX_base dbg a b cs it forks]
    | hint => simp only [List.map_cons, algScriptX, algScript, algScriptX_base dbg a b cs it forks]
    | debug => simp only [List.map_cons, algScriptX, algScript, algScriptX_base dbg a b cs it forks]
    | debugAlt => simp only [List.map_cons, algScriptX, algScript, algScriptX_base dbg a b cs it forks]
    | clone =>
      simp only [List.map_cons, algScriptX, algScript, algScriptX_base dbg a b cs it (forks ++ [it])]
    | count =>
      simp only [List.map_cons, algScriptX]
      conv => rhs; rw [algScript]
      simp only [algScript]
    | fold =>
      simp only [List.map_cons, algScriptX]
      conv => rhs; rw [algScript]
      simp only [algScript]

theorem algOpX_base (dbg : Bool → K → String) (kind : AlgKind) (a b : Raw K Unit) (cs : List IterCmd) :
    algOpX E dbg kind a b (cs.map .base) = algOp E dbg kind a b cs := by
  simp only [algOpX, algOp, algScriptX_base]

end

/-! ### `advance_by`, `nth`, `last` on the lazy set operations

`Alg.Quiet` triples: for ANY oracle and any injected panic the computation frames the container,
has no effect but comparisons, can unwind only by an injected panic and never reaches `ub`; under
`E.Pure` the result is read off `Alg.algRest`, the list the iterator state still yields under
repeated `next` (`Alg.nextN_quiet`, `Alg.algRunOut_quiet`) and under `fold` (`Alg.algFold_quiet`). -/

section
open Micromap.Alg
variable {K V Q : Type} (E : Env K V Q)

/-- `advance_by(k)`: it answers whether `k` more items were there; what is left is `algRest`
    without its first `k` items. -/
theorem algSkip_quiet {a b : Raw K V} {la lb : List (K × V)} (hra : Rep a la) (hrb : Rep b lb) :
    ∀ (k : Nat) (s : AlgIt), AlgInv la.length lb.length s →
    Quiet (algSkip E a b k s) (fun res =>
      res.2.kind = s.kind ∧ AlgInv la.length lb.length res.2 ∧ meas res.2 ≤ meas s ∧
      (E.Pure → res.1 = decide (k ≤ (algRest E.keq la lb s).length) ∧
        algRest E.keq la lb res.2 = (algRest E.keq la lb s).drop k))
  | 0, s, hs => by
    unfold algSkip
    exact Quiet.pure ⟨rfl, hs, Nat.le_refl _, fun _ => ⟨by simp, rfl⟩⟩
  | k + 1, s, hs => by
    unfold algSkip
    refine Quiet.bind (algNext_quiet E hra hrb s hs) ?_
    rintro ⟨o, s'⟩ ⟨k1, k2, k3, _, k5⟩
    simp only at k1 k2 k3 k5
    cases o with
    | none =>
      refine Quiet.pure ⟨k1, k2, k3, fun hp => ?_⟩
      obtain ⟨h1, h2⟩ := k5 hp
      have hnil := eq_nil_of_head?_none h1
      simp only [hnil, List.tail_nil] at h2 ⊢
      exact ⟨by simp, by simp [h2]⟩
    | some x =>
      refine Quiet.mono (algSkip_quiet hra hrb k s' k2) ?_
      rintro ⟨ok, s''⟩ ⟨m1, m2, m3, m5⟩
      simp only at m1 m2 m3 m5
      refine ⟨m1.trans k1, m2, Nat.le_trans m3 k3, fun hp => ?_⟩
      obtain ⟨h1, h2⟩ := k5 hp
      obtain ⟨g1, g2⟩ := m5 hp
      have hc := cons_of_head? h1
      simp only
      rw [g1, g2, h2, hc]
      simp

/-- `nth(k)` from ANY well-formed state: under a pure oracle it returns the `k`-th item of
    `algRest` (`None` if there are not that many) and what is left is `algRest` without its first
    `k+1` items; under any oracle a returned item is a reference to a live slot of an operand, the
    state stays well formed and of the same kind. -/
theorem algNth_quiet {a b : Raw K V} {la lb : List (K × V)} (hra : Rep a la) (hrb : Rep b lb)
    (k : Nat) (s : AlgIt) (hs : AlgInv la.length lb.length s) :
    Quiet (algNth E a b k s) (fun res =>
      res.2.kind = s.kind ∧ AlgInv la.length lb.length res.2 ∧ meas res.2 ≤ meas s ∧
      (∀ x, res.1 = some x → ItemOf la lb x) ∧
      (E.Pure → res.1 = (algRest E.keq la lb s)[k]? ∧
        algRest E.keq la lb res.2 = (algRest E.keq la lb s).drop (k + 1))) := by
  unfold algNth
  refine Quiet.bind (algSkip_quiet E hra hrb k s hs) ?_
  rintro ⟨ok, s'⟩ ⟨k1, k2, k3, k5⟩
  simp only at k1 k2 k3 k5
  cases ok with
  | true =>
    simp only [if_true]
    refine Quiet.mono (algNext_quiet E hra hrb s' k2) ?_
    rintro ⟨o, s''⟩ ⟨m1, m2, m3, m4, m5⟩
    simp only at m1 m2 m3 m4 m5
    refine ⟨m1.trans k1, m2, Nat.le_trans m3 k3, fun x hx => (m4 x hx).2, fun hp => ?_⟩
    obtain ⟨_, g2⟩ := k5 hp
    obtain ⟨h1, h2⟩ := m5 hp
    simp only
    rw [h1, h2, g2, List.head?_drop, List.tail_drop]
    exact ⟨rfl, rfl⟩
  | false =>
    simp only [Bool.false_eq_true, if_false]
    refine Quiet.pure ⟨k1, k2, k3, fun x hx => (by cases hx), fun hp => ?_⟩
    obtain ⟨g1, g2⟩ := k5 hp
    have hlt : (algRest E.keq la lb s).length < k := by
      have := g1.symm; simpa using this
    simp only
    rw [g2, List.getElem?_eq_none (by omega), List.drop_eq_nil_of_le (by omega),
      List.drop_eq_nil_of_le (by omega)]
    exact ⟨rfl, rfl⟩

/-- `last()` from ANY well-formed state (through the crate's `fold`): under a pure oracle the last
    item of `algRest` (`None` iff nothing is left); under any oracle a returned item is a reference
    to a live slot of an operand. -/
theorem algLast_quiet {a b : Raw K V} {la lb : List (K × V)} (hra : Rep a la) (hrb : Rep b lb)
    (s : AlgIt) (hs : AlgInv la.length lb.length s) :
    Quiet (algLast E a b s) (fun res =>
      (∀ x, res = some x → ItemOf la lb x) ∧ (E.Pure → res = (algRest E.keq la lb s).getLast?)) := by
  unfold algLast
  refine Quiet.bind (algFold_quiet E hra hrb s hs) ?_
  intro l ⟨h1, h2⟩
  exact Quiet.pure ⟨fun x hx => h1 x (List.mem_of_getLast? hx), fun hp => by rw [h2 hp]⟩

end

/-! ### any extended script over a lazy set operation -/

section
open Micromap.Alg
variable {K Q : Type} (E : Env K Unit Q)

/-- well-formed iterator states reachable in a script: the windows lie inside the operands and the
    number of items still to come is bounded by `|a| + |b|` (so the fuel of `algRunOut` suffices). -/
def ItOK (na nb : Nat) (f : AlgIt) : Prop := AlgInv na nb f ∧ meas f ≤ na + nb

theorem algRunForks_quiet {a b : Raw K Unit} {la lb : List (K × Unit)} (hra : Rep a la) (hrb : Rep b lb) :
    ∀ (forks : List AlgIt), (∀ f ∈ forks, ItOK la.length lb.length f) →
    Quiet (algRunForks E a b forks) (fun _ => True)
  | [], _ => by unfold algRunForks; exact Quiet.pure trivial
  | f :: fs, h => by
    unfold algRunForks
    obtain ⟨h1, h2⟩ := h f (by simp)
    refine Quiet.bind (algRunOut_quiet E hra hrb (a.len + b.len + 1) f h1 (by rw [hra.1, hrb.1]; omega)) ?_
    intro _ _
    refine Quiet.bind (algRunForks_quiet hra hrb fs (fun f' hf' => h f' (by simp [hf']))) ?_
    intro _ _
    exact Quiet.pure trivial

/-- ANY extended script (any mixture of `next`, `nth`, `last`, `size_hint`, `Debug`, `clone`,
    `count`, `fold`) over any of the four lazy set operations, from any well-formed state, under ANY
    `==` and any injected panic: it never reaches `ub` (no loop bound is hit), frames the
    container, has no effect but comparisons and can unwind only by an injected panic. -/
theorem algScriptX_quiet {a b : Raw K Unit} {la lb : List (K × Unit)} (hra : Rep a la) (hrb : Rep b lb)
    (dbg : Bool → K → String) :
    ∀ (cs : List IterCmdX) (it : AlgIt) (forks : List AlgIt), ItOK la.length lb.length it →
    (∀ f ∈ forks, ItOK la.length lb.length f) →
    Quiet (algScriptX E dbg a b cs it forks) (fun _ => True)
  | [], it, forks, _, hf => by
    unfold algScriptX
    exact algRunForks_quiet E hra hrb forks hf
  | c :: cs, it, forks, hit, hf => by
    have hfuel : meas it < a.len + b.len + 1 := by rw [hra.1, hrb.1]; have := hit.2; omega
    have hf' : ∀ f ∈ forks ++ [it], ItOK la.length lb.length f := by
      intro f hfm
      rcases List.mem_append.mp hfm with h | h
      · exact hf f h
      · simp at h; subst h; exact hit
    cases c with
    | nth k =>
      simp only [algScriptX]
      refine Quiet.bind (algNth_quiet E hra hrb k it hit.1) ?_
      rintro ⟨o, it'⟩ ⟨_, k2, k3, _⟩
      simp only at k2 k3
      refine Quiet.bind (algScriptX_quiet hra hrb dbg cs it' forks ⟨k2, Nat.le_trans k3 hit.2⟩ hf) ?_
      intro _ _; exact Quiet.pure trivial
    | last =>
      simp only [algScriptX]
      refine Quiet.bind (algLast_quiet E hra hrb it hit.1) ?_
      intro _ _
      refine Quiet.bind (algRunForks_quiet E hra hrb forks hf) ?_
      intro _ _; exact Quiet.pure trivial
    | base c =>
      cases c with
      | next =>
        simp only [algScriptX]
        refine Quiet.bind (algNext_quiet E hra hrb it hit.1) ?_
        rintro ⟨o, it'⟩ ⟨_, k2, k3, _⟩
        simp only at k2 k3
        refine Quiet.bind (algScriptX_quiet hra hrb dbg cs it' forks ⟨k2, Nat.le_trans k3 hit.2⟩ hf) ?_
        intro _ _; exact Quiet.pure trivial
      | len =>
        simp only [algScriptX]
        exact algScriptX_quiet hra hrb dbg cs it forks hit hf
      | hint =>
        simp only [algScriptX]
        refine Quiet.bind (algScriptX_quiet hra hrb dbg cs it forks hit hf) ?_
        intro _ _; exact Quiet.pure trivial
      | debug =>
        simp only [algScriptX]
        refine Quiet.bind (algRunOut_quiet E hra hrb _ it hit.1 hfuel) ?_
        intro _ _
        refine Quiet.bind (algScriptX_quiet hra hrb dbg cs it forks hit hf) ?_
        intro _ _; exact Quiet.pure trivial
      | debugAlt =>
        simp only [algScriptX]
        refine Quiet.bind (algRunOut_quiet E hra hrb _ it hit.1 hfuel) ?_
        intro _ _
        refine Quiet.bind (algScriptX_quiet hra hrb dbg cs it forks hit hf) ?_
        intro _ _; exact Quiet.pure trivial
      | clone =>
        simp only [algScriptX]
        exact algScriptX_quiet hra hrb dbg cs it (forks ++ [it]) hit hf'
      | count =>
        simp only [algScriptX]
        refine Quiet.bind (algFold_quiet E hra hrb it hit.1) ?_
        intro _ _
        refine Quiet.bind (algRunForks_quiet E hra hrb forks hf) ?_
        intro _ _; exact Quiet.pure trivial
      | fold =>
        simp only [algScriptX]
        refine Quiet.bind (algFold_quiet E hra hrb it hit.1) ?_
        intro _ _
        refine Quiet.bind (algRunForks_quiet E hra hrb forks hf) ?_
        intro _ _; exact Quiet.pure trivial

/-- the composite operation: `difference()` / … / `symmetric_difference()` then any extended script. -/
theorem algOpX_quiet {a b : Raw K Unit} {la lb : List (K × Unit)} (hra : Rep a la) (hrb : Rep b lb)
    (dbg : Bool → K → String) (kind : AlgKind) (script : List IterCmdX) :
    Quiet (algOpX E dbg kind a b script) (fun _ => True) := by
  unfold algOpX
  refine Quiet.bind (Q₁ := fun it => it = startIt la.length lb.length kind) ?_ ?_
  · intro s
    exact Sat.of_ok (algStart_eq hra hrb kind s) ⟨rfl, WRel.refl _, rfl⟩
  · rintro _ rfl
    exact algScriptX_quiet E hra hrb dbg script _ []
      ⟨startIt_inv _ _ _, startIt_meas _ _ _⟩ (fun _ h => by simp at h)

end

end Micromap.StdIterB
