/-
Ownership logic, continued: what a returned value tree owns (`RV.owned`), and the triples
(`Own.Cons`) of the functions of `Model/Iter.lean`, `Model/Sys.lean` and `Model/Map.lean` that the
single-register files do not cover: the lazy set-algebra iterators and predicates (read-only on two
containers passed as arguments), `mapEq`, `&a - &b`, `serializeR`, the borrowing-iterator scripts
with the ownership of their results.
-/
import Micromap.Proofs.OwnStep
import Micromap.Model.Sys

set_option linter.unusedSectionVars false

namespace Micromap.OwnSys
open Micromap Ledger Own
variable {K V Q : Type}

/-! ### what a returned value owns -/

/-- the objects a returned value tree OWNS: the keys, values and pairs that are not under a
    `ref` / `oref` constructor (a reference into a container is not ownership). -/
def _root_.Micromap.RV.owned : RV K V → List (Obj K V)
  | .unit => []
  | .none => []
  | .bool _ => []
  | .nat _ => []
  | .key k => [.k k]
  | .val v => [.v v]
  | .pair k v => [.k k, .v v]
  | .ref _ _ => []
  | .oref _ _ _ => []
  | .some x => RV.owned x
  | .list l => ownedL l
  | .hint _ _ => []
  | .str _ => []
  | .tag _ => []
where
  ownedL : List (RV K V) → List (Obj K V)
    | [] => []
    | x :: xs => RV.owned x ++ ownedL xs

@[simp] theorem owned_unit : RV.owned (.unit : RV K V) = [] := by simp [RV.owned]
@[simp] theorem owned_none : RV.owned (.none : RV K V) = [] := by simp [RV.owned]
@[simp] theorem owned_bool (b : Bool) : RV.owned (.bool b : RV K V) = [] := by simp [RV.owned]
@[simp] theorem owned_nat (n : Nat) : RV.owned (.nat n : RV K V) = [] := by simp [RV.owned]
@[simp] theorem owned_key (k : K) : RV.owned (.key k : RV K V) = [.k k] := by simp [RV.owned]
@[simp] theorem owned_val (v : V) : RV.owned (.val v : RV K V) = [.v v] := by simp [RV.owned]
@[simp] theorem owned_pair (k : K) (v : V) : RV.owned (.pair k v : RV K V) = [.k k, .v v] := by simp [RV.owned]
@[simp] theorem owned_ref (i : Nat) (x : RV K V) : RV.owned (.ref i x) = [] := by simp [RV.owned]
@[simp] theorem owned_oref (o i : Nat) (x : RV K V) : RV.owned (.oref o i x) = [] := by simp [RV.owned]
@[simp] theorem owned_some (x : RV K V) : RV.owned (.some x) = RV.owned x := by simp [RV.owned]
@[simp] theorem owned_list (l : List (RV K V)) : RV.owned (.list l) = RV.owned.ownedL l := by simp [RV.owned]
@[simp] theorem owned_hint (a : Nat) (b : Option Nat) : RV.owned (.hint a b : RV K V) = [] := by simp [RV.owned]
@[simp] theorem owned_str (s : String) : RV.owned (.str s : RV K V) = [] := by simp [RV.owned]
@[simp] theorem owned_tag (s : String) : RV.owned (.tag s : RV K V) = [] := by simp [RV.owned]
@[simp] theorem ownedL_nil : RV.owned.ownedL ([] : List (RV K V)) = [] := by simp [RV.owned.ownedL]
@[simp] theorem ownedL_cons (x : RV K V) (xs : List (RV K V)) :
    RV.owned.ownedL (x :: xs) = RV.owned x ++ RV.owned.ownedL xs := by simp [RV.owned.ownedL]


theorem ownedL_append (a b : List (RV K V)) :
    RV.owned.ownedL (a ++ b) = RV.owned.ownedL a ++ RV.owned.ownedL b := by
  induction a with
  | nil => simp
  | cons x xs ih => simp [ih]

/-- a list of values none of which owns anything. -/
theorem ownedL_nil_of {l : List (RV K V)} (h : ∀ x ∈ l, RV.owned x = []) : RV.owned.ownedL l = [] := by
  induction l with
  | nil => simp
  | cons x xs ih =>
    simp [h x (List.mem_cons_self ..), ih (fun y hy => h y (List.mem_cons_of_mem _ hy))]

theorem ownedL_map_nil {α : Type} (f : α → RV K V) (hf : ∀ a, RV.owned (f a) = []) (l : List α) :
    RV.owned.ownedL (l.map f) = [] :=
  ownedL_nil_of (fun x hx => by
    obtain ⟨a, _, rfl⟩ := List.mem_map.mp hx
    exact hf a)

variable {P : Event K V Q → Prop} [EvP P] {w : Obj K V → Nat} (E : Env K V Q)

/-- change the ownership function of a triple on the results the run can actually produce. -/
theorem ConsAt.own_of_ok {α : Type} {m : SM K V Q α} {s : St K V Q} {inn : Nat} {own own' : α → Nat}
    {pown : Option Nat} (h : ConsAt P w m s inn own pown)
    (ho : ∀ a s', m s = .ok a s' → own a = own' a) : ConsAt P w m s inn own' pown := by
  unfold ConsAt at h ⊢
  cases hm : m s with
  | ok a s1 => rw [hm] at h; exact h.of_eq rfl (ho a s1 hm)
  | panic c s1 => rw [hm] at h; exact h
  | ub => trivial

/-! ### the lazy set-algebra iterators and the set predicates: read-only -/

theorem iterStartR_cons (r : Raw K V) : Cons P w (iterStartR r : SM K V Q SliceIt) 0 (fun _ => 0) (some 0) := by
  intro s
  unfold iterStartR
  split
  · exact ConsAt.pure rfl
  · exact ConsAt.throwP

theorem filtNextR_cons (a b : Raw K V) (want : Bool) : ∀ n lo,
    Cons P w (filtNextR E a b want n lo) 0 (fun _ => 0) (some 0)
  | 0, _ => fun _ => ConsAt.pure rfl
  | n + 1, lo => by
    intro s
    unfold filtNextR
    refine ConsAt.bind0 (itemRefR_cons a lo s) (by own_np) (fun p s1 _ => ?_)
    refine ConsAt.bind0 (scanR_cons E b (.key p.1) s1) (by own_p) (fun c s2 _ => ?_)
    split
    · exact ConsAt.pure rfl
    · exact filtNextR_cons a b want n (lo + 1) s2

theorem filtNext_cons (a b : Raw K V) (want : Bool) (it : SliceIt) :
    Cons P w (filtNext E a b want it) 0 (fun _ => 0) (some 0) := by
  intro s
  unfold filtNext
  refine ConsAt.bind0 (filtNextR_cons E a b want _ _ s) (by own_p) (fun r s1 _ => ?_)
  obtain ⟨o, lo'⟩ := r
  exact ConsAt.pure rfl

theorem filtFoldR_cons (a b : Raw K V) (want : Bool) : ∀ n lo,
    Cons P w (filtFoldR E a b want n lo) 0 (fun _ => 0) (some 0)
  | 0, _ => fun _ => ConsAt.pure rfl
  | n + 1, lo => by
    intro s
    unfold filtFoldR
    refine ConsAt.bind0 (itemRefR_cons a lo s) (by own_np) (fun p s1 _ => ?_)
    refine ConsAt.bind0 (scanR_cons E b (.key p.1) s1) (by own_p) (fun c s2 _ => ?_)
    refine ConsAt.bind0 (filtFoldR_cons a b want n (lo + 1) s2) (by own_p) (fun rest s3 _ => ?_)
    split <;> exact ConsAt.pure rfl

theorem algStart_cons (a b : Raw K V) (kind : AlgKind) :
    Cons P w (algStart a b kind : SM K V Q AlgIt) 0 (fun _ => 0) (some 0) := by
  intro s
  unfold algStart
  cases kind <;> simp only
  · refine ConsAt.bind0 (iterStartR_cons a s) (by own_p) (fun _ s1 _ => ?_)
    exact ConsAt.pure rfl
  · refine ConsAt.bind0 (iterStartR_cons a s) (by own_p) (fun _ s1 _ => ?_)
    exact ConsAt.pure rfl
  · refine ConsAt.bind0 (iterStartR_cons b s) (by own_p) (fun _ s1 _ => ?_)
    refine ConsAt.bind0 (iterStartR_cons a s1) (by own_p) (fun _ s2 _ => ?_)
    exact ConsAt.pure rfl
  · refine ConsAt.bind0 (iterStartR_cons a s) (by own_p) (fun _ s1 _ => ?_)
    refine ConsAt.bind0 (iterStartR_cons b s1) (by own_p) (fun _ s2 _ => ?_)
    exact ConsAt.pure rfl

theorem algFstNext_cons (a b : Raw K V) (kind : AlgKind) (it : SliceIt) :
    Cons P w (algFstNext E a b kind it) 0 (fun _ => 0) (some 0) := by
  intro s
  unfold algFstNext
  cases kind <;> simp only
  · refine ConsAt.bind0 (filtNext_cons E a b false it s) (by own_p) (fun r s1 _ => ?_)
    obtain ⟨o, it'⟩ := r; exact ConsAt.pure rfl
  · refine ConsAt.bind0 (filtNext_cons E a b true it s) (by own_p) (fun r s1 _ => ?_)
    obtain ⟨o, it'⟩ := r; exact ConsAt.pure rfl
  · refine ConsAt.bind0 (iterNextR_cons b it s) (by own_np) (fun r s1 _ => ?_)
    obtain ⟨o, it'⟩ := r; exact ConsAt.pure rfl
  · refine ConsAt.bind0 (filtNext_cons E a b false it s) (by own_p) (fun r s1 _ => ?_)
    obtain ⟨o, it'⟩ := r; exact ConsAt.pure rfl

theorem algSndNext_cons (a b : Raw K V) (kind : AlgKind) (it : SliceIt) :
    Cons P w (algSndNext E a b kind it) 0 (fun _ => 0) (some 0) := by
  intro s
  unfold algSndNext
  cases kind <;> simp only
  · refine ConsAt.bind0 (filtNext_cons E b a false it s) (by own_p) (fun r s1 _ => ?_)
    obtain ⟨o, it'⟩ := r; exact ConsAt.pure rfl
  · refine ConsAt.bind0 (filtNext_cons E b a false it s) (by own_p) (fun r s1 _ => ?_)
    obtain ⟨o, it'⟩ := r; exact ConsAt.pure rfl
  · refine ConsAt.bind0 (filtNext_cons E a b false it s) (by own_p) (fun r s1 _ => ?_)
    obtain ⟨o, it'⟩ := r; exact ConsAt.pure rfl
  · refine ConsAt.bind0 (filtNext_cons E b a false it s) (by own_p) (fun r s1 _ => ?_)
    obtain ⟨o, it'⟩ := r; exact ConsAt.pure rfl


theorem algNext_cons (a b : Raw K V) (it : AlgIt) :
    Cons P w (algNext E a b it) 0 (fun _ => 0) (some 0) := by
  intro s
  obtain ⟨kind, fst, snd⟩ := it
  unfold algNext
  cases kind <;> simp only
  · cases fst with
    | none => exact ConsAt.pure rfl
    | some it =>
      simp only
      refine ConsAt.bind0 (algFstNext_cons E a b _ it s) (by own_p) (fun r s1 _ => ?_)
      obtain ⟨o, it'⟩ := r; exact ConsAt.pure rfl
  · cases fst with
    | none => exact ConsAt.pure rfl
    | some it =>
      simp only
      refine ConsAt.bind0 (algFstNext_cons E a b _ it s) (by own_p) (fun r s1 _ => ?_)
      obtain ⟨o, it'⟩ := r; exact ConsAt.pure rfl
  · refine ConsAt.bind0 (p1 := some 0) ?_ (by own_p) (fun r s1 _ => ?_)
    · cases fst with
      | none => exact ConsAt.pure rfl
      | some it =>
        simp only
        refine ConsAt.bind0 (algFstNext_cons E a b _ it s) (by own_p) (fun r s1 _ => ?_)
        obtain ⟨o, it'⟩ := r
        cases o <;> exact ConsAt.pure rfl
    · obtain ⟨o, s'⟩ := r
      cases o with
      | some x => exact ConsAt.pure rfl
      | none =>
        simp only
        cases hsnd : s'.snd with
        | none => exact ConsAt.pure rfl
        | some it =>
          simp only
          refine ConsAt.bind0 (algSndNext_cons E a b s'.kind it s1) (by own_p) (fun r s2 _ => ?_)
          obtain ⟨o, it'⟩ := r; exact ConsAt.pure rfl
  · refine ConsAt.bind0 (p1 := some 0) ?_ (by own_p) (fun r s1 _ => ?_)
    · cases fst with
      | none => exact ConsAt.pure rfl
      | some it =>
        simp only
        refine ConsAt.bind0 (algFstNext_cons E a b _ it s) (by own_p) (fun r s1 _ => ?_)
        obtain ⟨o, it'⟩ := r
        cases o <;> exact ConsAt.pure rfl
    · obtain ⟨o, s'⟩ := r
      cases o with
      | some x => exact ConsAt.pure rfl
      | none =>
        simp only
        cases hsnd : s'.snd with
        | none => exact ConsAt.pure rfl
        | some it =>
          simp only
          refine ConsAt.bind0 (algSndNext_cons E a b s'.kind it s1) (by own_p) (fun r s2 _ => ?_)
          obtain ⟨o, it'⟩ := r; exact ConsAt.pure rfl


theorem algFstFold_cons (a b : Raw K V) (kind : AlgKind) (it : SliceIt) :
    Cons P w (algFstFold E a b kind it) 0 (fun _ => 0) (some 0) := by
  intro s
  unfold algFstFold
  cases kind <;> simp only
  · refine ConsAt.bind0 (filtFoldR_cons E a b false _ _ s) (by own_p) (fun r s1 _ => ?_)
    exact ConsAt.pure rfl
  · refine ConsAt.bind0 (filtFoldR_cons E a b true _ _ s) (by own_p) (fun r s1 _ => ?_)
    exact ConsAt.pure rfl
  · refine ConsAt.bind0 (iterRestR_cons b _ _ s) (by own_np) (fun r s1 _ => ?_)
    exact ConsAt.pure rfl
  · refine ConsAt.bind0 (filtFoldR_cons E a b false _ _ s) (by own_p) (fun r s1 _ => ?_)
    exact ConsAt.pure rfl

theorem algSndFold_cons (a b : Raw K V) (kind : AlgKind) (it : SliceIt) :
    Cons P w (algSndFold E a b kind it) 0 (fun _ => 0) (some 0) := by
  intro s
  unfold algSndFold
  cases kind <;> simp only
  · refine ConsAt.bind0 (filtFoldR_cons E b a false _ _ s) (by own_p) (fun r s1 _ => ?_)
    exact ConsAt.pure rfl
  · refine ConsAt.bind0 (filtFoldR_cons E b a false _ _ s) (by own_p) (fun r s1 _ => ?_)
    exact ConsAt.pure rfl
  · refine ConsAt.bind0 (filtFoldR_cons E a b false _ _ s) (by own_p) (fun r s1 _ => ?_)
    exact ConsAt.pure rfl
  · refine ConsAt.bind0 (filtFoldR_cons E b a false _ _ s) (by own_p) (fun r s1 _ => ?_)
    exact ConsAt.pure rfl

theorem algFold_cons (a b : Raw K V) (it : AlgIt) :
    Cons P w (algFold E a b it) 0 (fun _ => 0) (some 0) := by
  intro s
  unfold algFold
  refine ConsAt.bind0 (p1 := some 0) ?_ (by own_p) (fun xs s1 _ => ?_)
  · cases it.fst with
    | none => exact ConsAt.pure rfl
    | some x => exact algFstFold_cons E a b _ x s
  · refine ConsAt.bind0 (p1 := some 0) ?_ (by own_p) (fun ys s2 _ => ?_)
    · cases it.snd with
      | none => exact ConsAt.pure rfl
      | some x => exact algSndFold_cons E a b _ x s1
    · exact ConsAt.pure rfl

theorem allContainR_cons (a b : Raw K V) (want : Bool) : ∀ n i,
    Cons P w (allContainR E a b want n i) 0 (fun _ => 0) (some 0)
  | 0, _ => fun _ => ConsAt.pure rfl
  | n + 1, i => by
    intro s
    unfold allContainR
    refine ConsAt.bind0 (itemRefR_cons a i s) (by own_np) (fun p s1 _ => ?_)
    refine ConsAt.bind0 (scanR_cons E b (.key p.1) s1) (by own_p) (fun c s2 _ => ?_)
    split
    · exact allContainR_cons a b want n (i + 1) s2
    · exact ConsAt.pure rfl

theorem allContain_cons (a b : Raw K V) (want : Bool) :
    Cons P w (allContain E a b want) 0 (fun _ => 0) (some 0) := by
  intro s
  unfold allContain
  split
  · exact allContainR_cons E a b want _ _ s
  · exact ConsAt.throwP

theorem is_disjoint_cons (a b : Raw K V) : Cons P w (is_disjoint E a b) 0 (fun _ => 0) (some 0) := by
  intro s
  unfold is_disjoint
  split <;> exact allContain_cons E _ _ _ s

theorem is_subset_cons (a b : Raw K V) : Cons P w (is_subset E a b) 0 (fun _ => 0) (some 0) := by
  intro s
  unfold is_subset
  split
  · exact allContain_cons E _ _ _ s
  · exact ConsAt.pure rfl

theorem is_superset_cons (a b : Raw K V) : Cons P w (is_superset E a b) 0 (fun _ => 0) (some 0) :=
  is_subset_cons E b a

/-! ### `==` -/

theorem eqLoop_cons (a b : Raw K V) : ∀ n i, Cons P w (eqLoop E a b n i) 0 (fun _ => 0) (some 0)
  | 0, _ => fun _ => ConsAt.pure rfl
  | n + 1, i => by
    intro s
    unfold eqLoop
    refine ConsAt.bind0 (itemRefR_cons a i s) (by own_np) (fun p s1 _ => ?_)
    refine ConsAt.bind0 (scanR_cons E b (.key p.1) s1) (by own_p) (fun o s2 _ => ?_)
    cases o with
    | none => exact ConsAt.pure rfl
    | some j =>
      simp only
      refine ConsAt.bind0 (itemRefR_cons b j s2) (by own_np) (fun q s3 _ => ?_)
      refine ConsAt.bind0 (eqV_cons E q.2 p.2 s3) (by own_p) (fun e s4 _ => ?_)
      split
      · exact eqLoop_cons a b n (i + 1) s4
      · exact ConsAt.pure rfl

theorem mapEq_cons (a b : Raw K V) : Cons P w (mapEq E a b) 0 (fun _ => 0) (some 0) := by
  intro s
  unfold mapEq
  split
  · split
    · exact eqLoop_cons E a b _ _ s
    · exact ConsAt.throwP
  · exact ConsAt.pure rfl

/-! ### `Serialize`: reads -/

theorem iterAllR_cons (r : Raw K V) : ∀ n i,
    Cons P w (iterAllR r n i : SM K V Q (List (K × V))) 0 (fun _ => 0) none
  | 0, _ => fun _ => ConsAt.pure rfl
  | n + 1, i => by
    intro s
    unfold iterAllR
    refine ConsAt.bind0 (itemRefR_cons r i s) (by own_np) (fun p s1 _ => ?_)
    refine ConsAt.bind0 (iterAllR_cons r n (i + 1) s1) (by own_np) (fun rest s2 _ => ?_)
    exact ConsAt.pure rfl

theorem serializeR_cons (r : Raw K V) :
    Cons P w (serializeR r : SM K V Q (List (Tok K V))) 0 (fun _ => 0) (some 0) := by
  intro s
  unfold serializeR
  refine ConsAt.bind0 (p1 := some 0) ?_ (by own_p) (fun l s1 _ => ?_)
  · split
    · exact (iterAllR_cons r _ _ s).congr rfl (fun _ => rfl) (by own_np)
    · exact ConsAt.throwP
  · exact ConsAt.pure rfl


/-! ### set-algebra scripts (`V = ()`): every reported item is a reference into an operand -/

section unit
variable {K Q : Type} {P : Event K Unit Q → Prop} [EvP P] {w : Obj K Unit → Nat} (F : Env K Unit Q)

theorem owned_algItemRV (x : AlgItem K) : RV.owned (algItemRV x) = [] := by simp [algItemRV]

theorem algRunOut_cons (a b : Raw K Unit) : ∀ n it,
    Cons P w (algRunOut F a b n it) 0 (fun _ => 0) (some 0)
  | 0, _ => fun _ => ConsAt.ub
  | n + 1, it => by
    intro s
    unfold algRunOut
    refine ConsAt.bind0 (algNext_cons F a b it s) (by own_p) (fun r s1 _ => ?_)
    obtain ⟨o, it'⟩ := r
    cases o with
    | none => exact ConsAt.pure rfl
    | some x =>
      simp only
      refine ConsAt.bind0 (algRunOut_cons a b n it' s1) (by own_p) (fun rest s2 _ => ?_)
      exact ConsAt.pure rfl

theorem algRunForks_cons (a b : Raw K Unit) : ∀ forks : List AlgIt,
    Cons P w (algRunForks F a b forks) 0 (fun l => wsum w (RV.owned.ownedL l)) (some 0)
  | [] => fun _ => ConsAt.pure (by simp)
  | f :: fs => by
    intro s
    unfold algRunForks
    refine ConsAt.bind0 (algRunOut_cons F a b _ f s) (by own_p) (fun x s1 _ => ?_)
    refine ConsAt.bind (algRunForks_cons a b fs s1) (Nat.le_refl _) (by own_p) (fun rest s2 _ => ?_)
    exact ConsAt.pure (by simp [ownedL_map_nil _ owned_algItemRV])

/-- any script over a lazy set-algebra iterator: it reads the two operands; what it reports are
    references into them (`oref`), numbers and strings — the caller comes to own nothing. -/
theorem algScript_cons (dbg : Bool → K → String) (a b : Raw K Unit) :
    ∀ (cs : List IterCmd) (it : AlgIt) (forks : List AlgIt),
    Cons P w (algScript F dbg a b cs it forks) 0 (fun l => wsum w (RV.owned.ownedL l)) (some 0)
  | [], it, forks => by
    intro s
    unfold algScript
    exact algRunForks_cons F a b forks s
  | c :: cs, it, forks => by
    intro s
    cases c with
    | next =>
      unfold algScript
      simp only
      refine ConsAt.bind0 (algNext_cons F a b it s) (by own_p) (fun r s1 _ => ?_)
      obtain ⟨o, it'⟩ := r
      simp only
      refine ConsAt.bind (algScript_cons dbg a b cs it' forks s1) (Nat.le_refl _) (by own_p) (fun rest s2 _ => ?_)
      cases o <;> exact ConsAt.pure (by simp [owned_algItemRV])
    | hint =>
      unfold algScript
      simp only
      refine ConsAt.bind (algScript_cons dbg a b cs it forks s) (Nat.le_refl _) (by own_p) (fun rest s2 _ => ?_)
      exact ConsAt.pure (by simp)
    | len =>
      unfold algScript
      simp only
      exact algScript_cons dbg a b cs it forks s
    | debug =>
      unfold algScript
      simp only
      refine ConsAt.bind0 (algRunOut_cons F a b _ it s) (by own_p) (fun l s1 _ => ?_)
      refine ConsAt.bind (algScript_cons dbg a b cs it forks s1) (Nat.le_refl _) (by own_p) (fun rest s2 _ => ?_)
      exact ConsAt.pure (by simp)
    | debugAlt =>
      unfold algScript
      simp only
      refine ConsAt.bind0 (algRunOut_cons F a b _ it s) (by own_p) (fun l s1 _ => ?_)
      refine ConsAt.bind (algScript_cons dbg a b cs it forks s1) (Nat.le_refl _) (by own_p) (fun rest s2 _ => ?_)
      exact ConsAt.pure (by simp)
    | clone =>
      unfold algScript
      simp only
      exact algScript_cons dbg a b cs it _ s
    | count =>
      unfold algScript
      simp only
      refine ConsAt.bind0 (algFold_cons F a b it s) (by own_p) (fun l s1 _ => ?_)
      refine ConsAt.bind (algScript_cons dbg a b [] it forks s1) (Nat.le_refl _) (by own_p) (fun rest s2 _ => ?_)
      exact ConsAt.pure (by simp)
    | fold =>
      unfold algScript
      simp only
      refine ConsAt.bind0 (algFold_cons F a b it s) (by own_p) (fun l s1 _ => ?_)
      refine ConsAt.bind (algScript_cons dbg a b [] it forks s1) (Nat.le_refl _) (by own_p) (fun rest s2 _ => ?_)
      exact ConsAt.pure (by simp [ownedL_map_nil _ owned_algItemRV])
termination_by cs => cs.length + 1
decreasing_by all_goals simp_wf <;> omega

theorem algOp_cons (dbg : Bool → K → String) (kind : AlgKind) (a b : Raw K Unit) (script : List IterCmd) :
    Cons P w (algOp F dbg kind a b script) 0 (fun l => wsum w (RV.owned.ownedL l)) (some 0) := by
  intro s
  unfold algOp
  refine ConsAt.bind0 (algStart_cons a b kind s) (by own_p) (fun it s1 _ => ?_)
  exact algScript_cons F dbg a b script it [] s1

/-! ### `&a - &b`: clones the selected keys into a scratch register -/

theorem subLoop_cons (hall : ∀ e, P e) (hw : ∀ u, w (.v u) = 0) (a b : Raw K Unit) : ∀ n it,
    Cons P w (subLoop F a b n it) 0 (fun _ => 0) (some 0)
  | 0, _ => fun _ => ConsAt.pure rfl
  | n + 1, it => by
    intro s
    unfold subLoop
    refine ConsAt.bind0 (filtNext_cons F a b false it s) (by own_p) (fun r s1 _ => ?_)
    obtain ⟨o, it'⟩ := r
    cases o with
    | none => exact ConsAt.pure rfl
    | some x =>
      obtain ⟨j, k⟩ := x
      simp only
      refine ConsAt.bind (cloneK_cons F hall k s1) (Nat.le_refl _) (by own_p) (fun k' s2 _ => ?_)
      refine ConsAt.bind (insert_cons F (Or.inr hw) k' () s2) (by simp [hw]) (by own_p) (fun o s3 _ => ?_)
      have h0 : wov w o = 0 := by cases o <;> simp [hw]
      exact (subLoop_cons hall hw a b n it' s3).congr (by simp [h0, hw]) (fun _ => rfl) (fun _ h => h)

/-- `&a - &b` into a scratch register: every object that ends up live in it, dropped or leaked is a
    clone result. -/
theorem subInto_cons (hall : ∀ e, P e) (hw : ∀ u, w (.v u) = 0) (a b : Raw K Unit) :
    Cons P w (subInto F a b) 0 (fun _ => 0) (some 0) := by
  intro s
  unfold subInto
  refine ConsAt.unwindWith (p0 := some 0) (q := 0) (pc := some 0) ?_
    (fun x hx s1 => by cases hx; exact dropMap_cons F (Or.inr hw) s1)
  refine ConsAt.bind0 (iterStartR_cons a s) (by own_p) (fun it s1 _ => ?_)
  exact subLoop_cons F hall hw a b _ it s1

end unit


/-! ### borrowing-iterator scripts: every reported item is a reference into the container -/

theorem owned_projItem (kind : IterKind) (slot : Nat) (p : K × V) : RV.owned (projItem kind slot p) = [] := by
  cases kind <;> simp [projItem]

theorem iterRunOut_own (kind : IterKind) (f : SliceIt) :
    Cons P w (iterRunOut kind f : SM K V Q (List (RV K V))) 0 (fun l => wsum w (RV.owned.ownedL l)) none := by
  intro s
  unfold iterRunOut
  refine ConsAt.getS_bind ?_
  refine ConsAt.bind0 (iterRestR_cons s.r _ _ s) (by own_np) (fun l s1 _ => ?_)
  refine ConsAt.pure ?_
  rw [ownedL_map_nil]
  · rfl
  · intro a; exact owned_projItem _ _ _

theorem iterRunForks_own (kind : IterKind) : ∀ forks : List SliceIt,
    Cons P w (iterRunForks kind forks : SM K V Q (List (RV K V))) 0 (fun l => wsum w (RV.owned.ownedL l)) none
  | [] => fun _ => ConsAt.pure (by simp)
  | f :: fs => by
    intro s
    unfold iterRunForks
    refine ConsAt.bind (iterRunOut_own kind f s) (Nat.le_refl _) (by own_np) (fun x s1 _ => ?_)
    refine ConsAt.bind (iterRunForks_own kind fs s1) (Nat.zero_le _) (by own_np) (fun rest s2 _ => ?_)
    exact ConsAt.pure (by simp; omega)

/-- `Own.iterScript_cons` with the ownership of the result: nothing. -/
theorem iterScript_own (R : Render K V) (kind : IterKind) (g : V → V)
    (hg : (kind = .iter_mut ∨ kind = .values_mut) → ∀ v, w (.v (g v)) = w (.v v)) :
    ∀ (cs : List IterCmd) (it : SliceIt) (forks : List SliceIt),
    Cons P w (iterScript R kind g cs it forks : SM K V Q (List (RV K V))) 0
      (fun l => wsum w (RV.owned.ownedL l)) none
  | [], it, forks => by
    intro s
    unfold iterScript
    exact iterRunForks_own kind forks s
  | c :: cs, it, forks => by
    intro s
    cases c with
    | next =>
      unfold iterScript
      simp only
      refine ConsAt.getS_bind ?_
      refine ConsAt.bind0 (iterNextR_cons s.r it s) (by own_np) (fun x s1 hx => ?_)
      obtain ⟨o, it'⟩ := x
      cases o with
      | none =>
        simp only
        refine ConsAt.bind (iterScript_own R kind g hg cs it' forks s1) (Nat.le_refl _) (by own_np) (fun rest s2 _ => ?_)
        exact ConsAt.pure (by simp)
      | some sp =>
        obtain ⟨slot, p⟩ := sp
        obtain ⟨rfl, hc, hs⟩ := iterNextR_inv hx
        simp only
        refine ConsAt.bind0 (p1 := none) ?_ (by own_np) (fun p' s2 _ => ?_)
        · split
          · rename_i hm
            refine ConsAt.bind0 (modify_cons hc hs (hg hm _)) (by own_np) (fun _ s2 _ => ?_)
            exact ConsAt.pure rfl
          · exact ConsAt.pure rfl
        · refine ConsAt.bind (iterScript_own R kind g hg cs it' forks s2) (Nat.le_refl _) (by own_np) (fun rest s3 _ => ?_)
          exact ConsAt.pure (by simp [owned_projItem])
    | len =>
      unfold iterScript
      simp only
      refine ConsAt.bind (iterScript_own R kind g hg cs it forks s) (Nat.le_refl _) (by own_np) (fun rest s2 _ => ?_)
      exact ConsAt.pure (by simp)
    | hint =>
      unfold iterScript
      simp only
      refine ConsAt.bind (iterScript_own R kind g hg cs it forks s) (Nat.le_refl _) (by own_np) (fun rest s2 _ => ?_)
      exact ConsAt.pure (by simp)
    | debug =>
      unfold iterScript
      simp only
      refine ConsAt.getS_bind ?_
      refine ConsAt.bind0 (iterRestR_cons s.r _ _ s) (by own_np) (fun l s1 _ => ?_)
      refine ConsAt.bind (iterScript_own R kind g hg cs it forks s1) (Nat.le_refl _) (by own_np) (fun rest s2 _ => ?_)
      exact ConsAt.pure (by simp)
    | debugAlt =>
      unfold iterScript
      simp only
      refine ConsAt.getS_bind ?_
      refine ConsAt.bind0 (iterRestR_cons s.r _ _ s) (by own_np) (fun l s1 _ => ?_)
      refine ConsAt.bind (iterScript_own R kind g hg cs it forks s1) (Nat.le_refl _) (by own_np) (fun rest s2 _ => ?_)
      exact ConsAt.pure (by simp)
    | clone =>
      unfold iterScript
      simp only
      split
      · exact iterScript_own R kind g hg cs it forks s
      · exact iterScript_own R kind g hg cs it _ s
    | count =>
      unfold iterScript
      simp only
      refine ConsAt.bind (iterScript_own R kind g hg [] it forks s) (Nat.le_refl _) (by own_np) (fun rest s2 _ => ?_)
      exact ConsAt.pure (by simp)
    | fold =>
      unfold iterScript
      simp only
      refine ConsAt.bind (iterScript_own R kind g hg [] it forks s) (Nat.le_refl _) (by own_np) (fun rest s2 _ => ?_)
      exact ConsAt.pure (by simp)
termination_by cs => cs.length + 1
decreasing_by all_goals simp_wf <;> omega

theorem iterOp_own (R : Render K V) (kind : IterKind) (g : V → V)
    (hg : (kind = .iter_mut ∨ kind = .values_mut) → ∀ v, w (.v (g v)) = w (.v v)) (script : List IterCmd) :
    Cons P w (iterOp R kind g script : SM K V Q (List (RV K V))) 0 (fun l => wsum w (RV.owned.ownedL l)) (some 0) := by
  intro s
  unfold iterOp
  refine ConsAt.getS_bind ?_
  refine ConsAt.bind0 (iterStartR_cons s.r s) (by own_p) (fun it s1 _ => ?_)
  exact (iterScript_own R kind g hg script it [] s1).congr rfl (fun _ => rfl) (by own_np)

theorem readSlots_own (r : Raw K V) : ∀ slots : List (Option Nat),
    Cons P w (readSlots r slots : SM K V Q (List (RV K V))) 0 (fun l => wsum w (RV.owned.ownedL l)) none
  | [] => fun _ => ConsAt.pure (by simp)
  | none :: rest => by
    intro s
    unfold readSlots
    refine ConsAt.bind (readSlots_own r rest s) (Nat.le_refl _) (by own_np) (fun _ s1 _ => ?_)
    exact ConsAt.pure (by simp)
  | some i :: rest => by
    intro s
    unfold readSlots
    refine ConsAt.bind0 (itemRefR_cons r i s) (by own_np) (fun p s1 _ => ?_)
    refine ConsAt.bind (readSlots_own r rest s1) (Nat.le_refl _) (by own_np) (fun _ s2 _ => ?_)
    exact ConsAt.pure (by simp)


/-! ### runs that do not advance the fresh-object counter -/

/-- the run does not advance the fresh-object counter (it neither clones nor decodes). -/
def FrameN {α : Type} (m : SM K V Q α) : Prop :=
  ∀ s, match m s with
    | .ok _ s' => s'.w.nextId = s.w.nextId
    | .panic _ s' => s'.w.nextId = s.w.nextId
    | .ub => True

theorem FrameN.pure {α : Type} (a : α) : FrameN (pure a : SM K V Q α) := fun _ => rfl

theorem FrameN.bind {α β : Type} {m : SM K V Q α} {f : α → SM K V Q β} (hm : FrameN m)
    (hf : ∀ a, FrameN (f a)) : FrameN (m >>= f) := by
  intro s
  have h1 := hm s
  simp only [bind_apply]
  cases hm' : m s with
  | ok a s1 =>
    rw [hm'] at h1
    have h2 := hf a s1
    simp only
    cases hf' : f a s1 with
    | ok b s2 => rw [hf'] at h2; exact h2.trans h1
    | panic c s2 => rw [hf'] at h2; exact h2.trans h1
    | ub => trivial
  | panic c s1 => rw [hm'] at h1; exact h1
  | ub => trivial

theorem FrameN.unwindWith {α : Type} {cleanup : SM K V Q Unit} {body : SM K V Q α} (hc : FrameN cleanup)
    (hb : FrameN body) : FrameN (Micromap.unwindWith cleanup body) := by
  intro s
  have h1 := hb s
  unfold Micromap.unwindWith
  cases hm : body s with
  | ok a s1 => rw [hm] at h1; exact h1
  | ub => trivial
  | panic c s1 =>
    rw [hm] at h1
    have h2 := hc (s1.setUnw true)
    simp only
    cases hcl : cleanup (s1.setUnw true) with
    | ok u s2 => rw [hcl] at h2; exact h2.trans h1
    | panic c2 s2 => trivial
    | ub => trivial

theorem frameN_tick : FrameN (tick : SM K V Q Unit) := by
  intro s
  obtain ⟨r, ⟨profile, inject, unwinding, calls, nextId, events, leaked⟩⟩ := s
  unfold tick
  cases unwinding with
  | true => rfl
  | false =>
    cases inject with
    | none => rfl
    | some n => cases n <;> rfl

theorem frameN_logE (e : Event K V Q) : FrameN (logE e) := fun _ => rfl
theorem frameN_leak (o : Obj K V) : FrameN (leak o : SM K V Q Unit) := fun _ => rfl
theorem frameN_getS : FrameN (getS : SM K V Q (St K V Q)) := fun _ => rfl
theorem frameN_getLen : FrameN (getLen : SM K V Q Nat) := fun _ => rfl
theorem frameN_getCap : FrameN (getCap : SM K V Q Nat) := fun _ => rfl
theorem frameN_setLen (n : Nat) : FrameN (setLen n : SM K V Q Unit) := fun _ => rfl


theorem frameN_eqK (a b : K) : FrameN (eqK E a b) := by
  unfold eqK
  exact FrameN.bind frameN_tick (fun _ => FrameN.bind frameN_getS (fun _ => FrameN.bind (frameN_logE _) (fun _ => FrameN.pure _)))

theorem frameN_eqQ (a b : Q) : FrameN (eqQ E a b) := by
  unfold eqQ
  exact FrameN.bind frameN_tick (fun _ => FrameN.bind frameN_getS (fun _ => FrameN.bind (frameN_logE _) (fun _ => FrameN.pure _)))

theorem frameN_dropK (k : K) : FrameN (dropK k : SM K V Q Unit) := by
  unfold dropK
  exact FrameN.bind (frameN_logE _) (fun _ => frameN_tick)

theorem frameN_dropV (v : V) : FrameN (dropV E v) := by
  unfold dropV
  split
  · exact FrameN.bind (frameN_logE _) (fun _ => frameN_tick)
  · exact FrameN.pure _

theorem frameN_dropArgs (k : K) (v : V) : FrameN (dropArgs E k v) := by
  unfold dropArgs
  exact FrameN.bind (FrameN.unwindWith (frameN_dropK k) (frameN_dropV E v)) (fun _ => frameN_dropK k)

theorem frameN_probeEq (stored : K) (pr : Probe K Q) : FrameN (probeEq E stored pr) := by
  cases pr with
  | key k => exact frameN_eqK E stored k
  | q q => exact frameN_eqQ E _ q

theorem frameN_itemRefR (r : Raw K V) (i : Nat) : FrameN (itemRefR r i : SM K V Q (K × V)) := by
  intro s
  unfold itemRefR
  by_cases hi : i < r.cap
  · cases hs : r.slots i <;> simp [hi]
  · simp [hi]

theorem frameN_scanFromR (r : Raw K V) (pr : Probe K Q) : ∀ n i, FrameN (scanFromR E r pr n i)
  | 0, _ => FrameN.pure _
  | n + 1, i => by
    unfold scanFromR
    refine FrameN.bind (frameN_itemRefR r i) (fun p => ?_)
    refine FrameN.bind (frameN_probeEq E p.1 pr) (fun b => ?_)
    split
    · exact FrameN.pure _
    · exact frameN_scanFromR r pr n (i + 1)

theorem frameN_scanR (r : Raw K V) (pr : Probe K Q) : FrameN (scanR E r pr) := by
  unfold scanR
  split
  · exact frameN_scanFromR E r pr _ _
  · intro s; rfl

theorem frameN_scan (pr : Probe K Q) : FrameN (scan E pr) := fun s => frameN_scanR E s.r pr s

theorem frameN_pairReplace (i : Nat) (p : K × V) : FrameN (pairReplace i p : SM K V Q (K × V)) := by
  intro s
  unfold pairReplace
  by_cases hi : i < s.r.cap
  · cases hs : s.r.slots i <;> simp [hi]
  · simp [hi]

theorem frameN_valueReplace (i : Nat) (v : V) : FrameN (valueReplace i v : SM K V Q V) := by
  intro s
  unfold valueReplace
  by_cases hi : i < s.r.cap
  · cases hs : s.r.slots i <;> simp [hi]
  · simp [hi]

theorem frameN_debugAssert (c : Bool) (cls : PanicClass) : FrameN (debugAssert c cls : SM K V Q Unit) := by
  intro s
  unfold debugAssert
  cases s.w.profile <;> cases c <;> rfl

theorem frameN_checkedWrite (i : Nat) (p : K × V) : FrameN (checkedWrite i p : SM K V Q Unit) := by
  intro s
  unfold checkedWrite itemWrite
  by_cases hi : i < s.r.cap
  · cases hs : s.r.slots i <;> simp [hi]
  · simp [hi]

theorem frameN_insert_ii (k : K) (v : V) (upd : Bool) : FrameN (insert_ii E k v upd) := by
  unfold insert_ii
  refine FrameN.unwindWith (frameN_dropArgs E k v) ?_
  refine FrameN.bind (frameN_scan E _) (fun o => ?_)
  cases o with
  | some i =>
    simp only
    split
    · exact FrameN.bind (frameN_pairReplace i _) (fun _ => FrameN.pure _)
    · exact FrameN.bind (frameN_valueReplace i _) (fun _ => FrameN.pure _)
  | none =>
    simp only
    exact FrameN.bind frameN_getLen (fun i => FrameN.bind frameN_getCap (fun cap =>
      FrameN.bind (frameN_debugAssert _ _) (fun _ => FrameN.bind (frameN_checkedWrite _ _) (fun _ =>
        FrameN.bind (frameN_setLen _) (fun _ => FrameN.pure _)))))

theorem frameN_dropReturnedKey (o : Option (K × V)) : FrameN (dropReturnedKey o : SM K V Q (Option V)) := by
  cases o with
  | none => exact FrameN.pure _
  | some p =>
    obtain ⟨k, v⟩ := p
    unfold dropReturnedKey
    exact FrameN.bind (FrameN.unwindWith (frameN_leak _) (frameN_dropK k)) (fun _ => FrameN.pure _)

theorem frameN_insert (k : K) (v : V) : FrameN (insert E k v) := by
  unfold insert
  refine FrameN.bind (frameN_insert_ii E k v false) (fun r => ?_)
  obtain ⟨j, ex⟩ := r
  exact frameN_dropReturnedKey ex


/-! ### `Deserialize`: decoding CREATES objects that are not clone results

`decodeK` / `decodeV` (the `K::deserialize` / `V::deserialize` of the element types) return a new
object (`E.clK id k`: fresh identity, equal content) and log NO event — they are not user callbacks of
the container.  So the objects a deserialization creates are not in `createdOf events`; the ledger
counts them separately: `DecOf E full n ents dec` says that `dec` are the decode results of a prefix
of the serialized entries `ents` (of all of them when `full`), one key object and one value object
per entry (the value object is `v` itself when the value type has no drop glue, `V = ()`), with
exactly the identities the model gives them: the fresh-object counter stands at `n` when the
decoding starts, and nothing else advances it during a deserialization (`FrameN`: `insert` and the
drops neither clone nor decode). -/

/-- the entries a token stream starts with (what `visitLoop` consumes). -/
def leadEntries : List (Tok K V) → List (K × V)
  | .entry k v :: rest => (k, v) :: leadEntries rest
  | _ => []

/-- `dec` = the objects created by decoding a prefix of `ents` (all of `ents` when `full`), the
    fresh-object counter standing at `n` when the decoding starts: entry `(k, v)` yields the key
    `E.clK n k` and the value `E.clV (n + 1) v` (the value `v` itself, and one id less, when the value
    type has no drop glue). -/
inductive DecOf (E : Env K V Q) : Bool → Nat → List (K × V) → List (Obj K V) → Prop
  | done (full : Bool) (n : Nat) : DecOf E full n [] []
  | stop (n : Nat) (ents : List (K × V)) : DecOf E false n ents []
  | cons (full : Bool) (n : Nat) (k : K) (v : V) {ents : List (K × V)} {dec : List (Obj K V)} :
      DecOf E full (n + (if E.vGlue then 2 else 1)) ents dec →
      DecOf E full n ((k, v) :: ents) (.k (E.clK n k) :: .v (if E.vGlue then E.clV (n + 1) v else v) :: dec)

theorem DecOf.weaken {E : Env K V Q} {n ents dec} : ∀ {full}, DecOf E full n ents dec → DecOf E false n ents dec := by
  intro full h
  induction h with
  | done f n => exact .done false n
  | stop n e => exact .stop n e
  | cons f n k v _ ih => exact .cons false n k v ih

theorem DecOf.length_le {E : Env K V Q} {full n ents dec} (h : DecOf E full n ents dec) :
    dec.length ≤ 2 * ents.length := by
  induction h with
  | done f n => simp
  | stop n e => simp
  | cons f n k v _ ih => simp only [List.length_cons]; omega

theorem DecOf.length_full {E : Env K V Q} {n ents dec} (h : DecOf E true n ents dec) :
    dec.length = 2 * ents.length := by
  generalize hf : true = full at h
  induction h with
  | done f n => simp
  | stop n e => cases hf
  | cons f n k v _ ih => simp only [List.length_cons, ih hf]; omega

/-- outcome of a deserialization loop, as a balance in which the decode results are received. -/
def DecRes (E : Env K V Q) (P : Event K V Q → Prop) (w : Obj K V → Nat) (ents : List (K × V)) (s : St K V Q) :
    Res (St K V Q) Unit → Prop
  | .ok _ s' => ∃ dec, DecOf E true s.w.nextId ents dec ∧ Bal P w s s' (wsum w dec) 0
  | .panic c s' => (c = .inject ∧ s.w.inject ≠ none) ∨
      ∃ dec, DecOf E false s.w.nextId ents dec ∧ Bal P w s s' (wsum w dec) 0
  | .ub => True

theorem bal_nextId (s : St K V Q) (n : Nat) :
    Bal P w s { s with w := { s.w with nextId := n } } 0 0 :=
  ⟨[], [], ⟨rfl, rfl, id, by simp, by simp, by simp⟩, by simp [createdOf, droppedOf]⟩

theorem decodeV_bal (v : V) (s : St K V Q) :
    ∃ s', decodeV E v s = .ok (if E.vGlue then E.clV s.w.nextId v else v) s' ∧ Bal P w s s' 0 0 ∧
      s'.w.nextId = s.w.nextId + (if E.vGlue then 1 else 0) := by
  unfold decodeV
  cases h : E.vGlue with
  | true =>
    exact ⟨{ s with w := { s.w with nextId := s.w.nextId + 1 } }, by simp, bal_nextId s _, by simp⟩
  | false => exact ⟨s, by simp, Bal.refl s 0, by simp⟩

/-- `visit_map` / `visit_seq`: every decode result ends up stored, dropped (the displaced old value,
    the supplied key of a duplicate; on the overflow panic: the pair being inserted) or leaked. -/
theorem visitLoop_bal (hv : HV E w) : ∀ (toks : List (Tok K V)) (s : St K V Q),
    DecRes E P w (leadEntries toks) s (visitLoop E toks s)
  | [], s => ⟨[], .done true _, Bal.refl s 0⟩
  | .start _ :: _, s => ⟨[], .done true _, Bal.refl s 0⟩
  | .fin :: _, s => ⟨[], .done true _, Bal.refl s 0⟩
  | .entry k v :: rest, s => by
    simp only [visitLoop, bind_apply, decodeK, leadEntries]
    obtain ⟨s2, hdv, hb2, hn2⟩ := decodeV_bal (P := P) (w := w) E v
      { s with w := { s.w with nextId := s.w.nextId + 1 } }
    rw [hdv]
    simp only
    have hb02 : Bal P w s s2 0 0 := Bal.trans (x := 0) (bal_nextId s _) hb2
    have hn02 : s2.w.nextId = s.w.nextId + (if E.vGlue then 2 else 1) := by
      rw [hn2]; cases E.vGlue <;> simp
    generalize hk' : E.clK s.w.nextId k = k' at *
    generalize hv' : (if E.vGlue then E.clV (s.w.nextId + 1) v else v) = v' at *
    have hdec : ∀ {full dec}, DecOf E full (s.w.nextId + (if E.vGlue then 2 else 1)) (leadEntries rest) dec →
        DecOf E full s.w.nextId ((k, v) :: leadEntries rest) (.k k' :: .v v' :: dec) := by
      intro full dec h
      rw [← hk', ← hv']
      exact .cons full _ k v h
    have hins := insert_cons (P := P) E hv k' v' s2
    have hfi := frameN_insert E k' v' s2
    unfold ConsAt at hins
    cases hi : Micromap.insert E k' v' s2 with
    | ub => trivial
    | panic c s3 =>
      rw [hi] at hins
      rcases hins with ⟨hc, ha⟩ | ⟨q, hq, hb⟩
      · exact Or.inl ⟨hc, hb02.armed ha⟩
      · cases hq
        refine Or.inr ⟨_, hdec (.stop _ _), ?_⟩
        have := Bal.trans (x := w (.k k') + w (.v v')) hb02 (hb.of_eq (by omega) rfl)
        exact this.of_eq (by simp) rfl
    | ok o s3 =>
      rw [hi] at hins hfi
      have hn03 : s3.w.nextId = s.w.nextId + (if E.vGlue then 2 else 1) := hfi.trans hn02
      have hb03 : Bal P w s s3 (w (.k k') + w (.v v')) (wov w o) :=
        (Bal.trans (x := w (.k k') + w (.v v')) hb02 (hins.of_eq (by omega) rfl)).of_eq (by omega) rfl
      have tail : ∀ s4, Bal P w s s4 (w (.k k') + w (.v v')) 0 →
          s4.w.nextId = s.w.nextId + (if E.vGlue then 2 else 1) →
          DecRes E P w ((k, v) :: leadEntries rest) s (visitLoop E rest s4) := by
        intro s4 hr hn4
        have ih := visitLoop_bal hv rest s4
        cases hrest : visitLoop E rest s4 with
        | ub => trivial
        | ok _ s5 =>
          rw [hrest] at ih
          obtain ⟨dec, hd, hb⟩ := ih
          rw [hn4] at hd
          refine ⟨_, hdec hd, ?_⟩
          exact (Bal.trans (x := wsum w dec) hr (hb.of_eq (by omega) rfl)).of_eq (by simp; omega) rfl
        | panic c s5 =>
          rw [hrest] at ih
          rcases ih with ⟨hc, ha⟩ | ⟨dec, hd, hb⟩
          · exact Or.inl ⟨hc, hr.armed ha⟩
          · rw [hn4] at hd
            refine Or.inr ⟨_, hdec hd, ?_⟩
            exact (Bal.trans (x := wsum w dec) hr (hb.of_eq (by omega) rfl)).of_eq (by simp; omega) rfl
      cases o with
      | none => exact tail s3 (by simpa using hb03) hn03
      | some old =>
        simp only [bind_apply]
        have hd := dropV_cons (P := P) E hv old s3
        have hfd := frameN_dropV E old s3
        unfold ConsAt at hd
        cases hdr : dropV E old s3 with
        | ub => trivial
        | ok _ s4 =>
          rw [hdr] at hd hfd
          exact tail s4 ((Bal.trans (x := 0) hb03 (hd.of_eq (by simp) rfl)).of_eq (by omega) rfl) (hfd.trans hn03)
        | panic c s4 =>
          rw [hdr] at hd
          rcases hd with ⟨hc, ha⟩ | ⟨q, hq, hb⟩
          · exact Or.inl ⟨hc, hb03.armed ha⟩
          · cases hq
            refine Or.inr ⟨_, hdec (.stop _ _), ?_⟩
            exact (Bal.trans (x := 0) hb03 (hb.of_eq (by simp) rfl)).of_eq (by simp) rfl

theorem DecRes.unwindWith {cleanup : SM K V Q Unit} {body : SM K V Q Unit} {ents : List (K × V)} {s : St K V Q}
    {pc : Option Nat} (hb : DecRes E P w ents s (body s))
    (hc : ∀ s1, ConsAt P w cleanup s1 0 (fun _ => 0) pc) :
    DecRes E P w ents s (Micromap.unwindWith cleanup body s) := by
  unfold Micromap.unwindWith
  cases hm : body s with
  | ok a s1 => rw [hm] at hb; exact hb
  | ub => trivial
  | panic c s1 =>
    rw [hm] at hb
    simp only
    cases h2 : cleanup (s1.setUnw true) with
    | panic c2 s2 => trivial
    | ub => trivial
    | ok u s2 =>
      rcases hb with hl | ⟨dec, hd, hbal⟩
      · exact Or.inl hl
      · have hcl := hc (s1.setUnw true)
        unfold ConsAt at hcl
        rw [h2] at hcl
        obtain ⟨ev, lk, c1, c2⟩ := hcl
        refine Or.inr ⟨dec, hd, ?_⟩
        have : Bal P w s1 (s2.setUnw s1.w.unwinding) 0 0 := ⟨ev, lk, c1.through_unw, by simpa using c2⟩
        simpa using Bal.trans (x := 0) hbal (by simpa using this)

/-- the entries a serialized stream carries. -/
def desEntries : List (Tok K V) → List (K × V)
  | .start _ :: rest => leadEntries rest
  | _ => []

/-- `Deserialize` into a scratch register: the decode results are stored, dropped or leaked. -/
theorem deserializeInto_bal (hv : HV E w) (toks : List (Tok K V)) (s : St K V Q) :
    DecRes E P w (desEntries toks) s (deserializeInto E toks s) := by
  unfold deserializeInto
  refine DecRes.unwindWith E ?_ (fun s1 => dropMap_cons E hv s1)
  cases toks with
  | nil => exact ⟨[], .done true _, Bal.refl s 0⟩
  | cons t rest =>
    cases t with
    | start n => exact visitLoop_bal E hv rest s
    | entry k v => exact ⟨[], .done true _, Bal.refl s 0⟩
    | fin => exact ⟨[], .done true _, Bal.refl s 0⟩

theorem leadEntries_map (l : List (K × V)) (tl : List (Tok K V)) (htl : leadEntries tl = []) :
    leadEntries (l.map (fun p => Tok.entry p.1 p.2) ++ tl) = l := by
  induction l with
  | nil => simpa using htl
  | cons p l ih => simp [leadEntries, ih]

theorem desEntries_serialized (n : Option Nat) (l : List (K × V)) :
    desEntries (.start n :: l.map (fun p => Tok.entry p.1 p.2) ++ [.fin]) = l := by
  simp only [desEntries, List.cons_append]
  exact leadEntries_map l [.fin] rfl

end Micromap.OwnSys
