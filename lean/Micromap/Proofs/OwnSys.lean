/-
The ownership logic at the SYSTEM level: the four registers of `Model/Sys.lean`, the worlds of the
set registers (`World.toUnit` / `mergeUnit`), the scratch registers of `clone` / `from_iter` /
`&a - &b` / `Deserialize` (`assignMap` / `assignSet`), and the model's transition function `step` /
`run` over the whole safe operation language.
-/
import Micromap.Proofs.OwnGarb
import Micromap.Proofs.Ledger2

set_option linter.unusedSectionVars false

namespace Micromap.OwnSys
open Micromap Ledger Own
variable {K V Q : Type}

/-! ### weights on a set register: a set holds only keys -/

/-- the weighting of the objects of a set register (`Obj K Unit`): a key weighs what it weighs,
    the unit values carry no object. -/
def wU (w : Obj K V → Nat) : Obj K Unit → Nat
  | .k x => w (.k x)
  | .v _ => 0

@[simp] theorem wU_k (w : Obj K V → Nat) (x : K) : wU w (.k x) = w (.k x) := rfl
@[simp] theorem wU_v (w : Obj K V → Nat) (u : Unit) : wU w (.v u) = 0 := rfl

theorem hv_unit (E : Env K V Q) (w : Obj K V → Nat) : HV E.toUnit (wU w) := Or.inr (fun _ => rfl)

theorem wsum_fromUnit (w : Obj K V → Nat) : ∀ l : List (Obj K Unit),
    wsum w (l.filterMap objFromUnit) = wsum (wU w) l
  | [] => rfl
  | o :: l => by
    cases o with
    | k x => simp [objFromUnit, wsum_fromUnit w l]
    | v u => simp [objFromUnit, List.filterMap_cons, wsum_fromUnit w l]

theorem created_fromUnit (w : Obj K V → Nat) : ∀ ev : List (Event K Unit Q),
    wsum w (createdOf (ev.filterMap evFromUnit : List (Event K V Q))) = wsum (wU w) (createdOf ev)
  | [] => rfl
  | e :: ev => by
    cases e <;> simp [evFromUnit, List.filterMap_cons, createdOf, created_fromUnit w ev]

theorem dropped_fromUnit (w : Obj K V → Nat) : ∀ ev : List (Event K Unit Q),
    wsum w (droppedOf (ev.filterMap evFromUnit : List (Event K V Q))) = wsum (wU w) (droppedOf ev)
  | [] => rfl
  | e :: ev => by
    cases e <;> simp [evFromUnit, List.filterMap_cons, droppedOf, dropped_fromUnit w ev]

/-- a run in the world of a set register, seen from the system's world. -/
theorem wext_fromUnit {P : Event K Unit Q → Prop} {w0 : World K V Q} {u : World K Unit Q} {ev lk}
    (h : WExt P w0.toUnit u ev lk) :
    WExt (fun _ : Event K V Q => True) w0 (w0.mergeUnit u) (ev.filterMap evFromUnit) (lk.filterMap objFromUnit) := by
  refine ⟨h.profile, h.unw, fun hi => h.inj hi, ?_, ?_, fun _ _ => trivial⟩
  · show w0.events ++ u.events.filterMap evFromUnit = _
    rw [h.events]; rfl
  · show w0.leaked ++ u.leaked.filterMap objFromUnit = _
    rw [h.leaked]; rfl

theorem wext_toTrue {P : Event K V Q → Prop} {w0 w1 : World K V Q} {ev lk} (h : WExt P w0 w1 ev lk) :
    WExt (fun _ : Event K V Q => True) w0 w1 ev lk :=
  ⟨h.profile, h.unw, h.inj, h.events, h.leaked, fun _ _ => trivial⟩

/-! ### the live slots of the system -/

/-- weight of all ghost-live slots of the four registers (`maps 0/1`, `sets 0/1`; the set
    registers hold only keys). -/
def sysLive (w : Obj K V → Nat) (sys : Sys K V Q) : Nat :=
  live w (sys.maps 0) + live w (sys.maps 1) + live (wU w) (sys.sets 0) + live (wU w) (sys.sets 1)

theorem lt_nRegs {i : Nat} (h : i < nRegs) : i = 0 ∨ i = 1 := by unfold nRegs at h; omega

theorem sysLive_updMap (w : Obj K V → Nat) (sys : Sys K V Q) {i : Nat} (hi : i < nRegs) (x : Raw K V)
    (w' : World K V Q) :
    sysLive w { sys with maps := updReg sys.maps i x, w := w' } + live w (sys.maps i) = sysLive w sys + live w x := by
  rcases lt_nRegs hi with rfl | rfl <;> simp [sysLive, updReg] <;> omega

theorem sysLive_updSet (w : Obj K V → Nat) (sys : Sys K V Q) {i : Nat} (hi : i < nRegs) (x : Raw K Unit)
    (w' : World K V Q) :
    sysLive w { sys with sets := updReg sys.sets i x, w := w' } + live (wU w) (sys.sets i) =
      sysLive w sys + live (wU w) x := by
  rcases lt_nRegs hi with rfl | rfl <;> simp [sysLive, updReg] <;> omega

/-! ### the system-level judgment -/

/-- the balance between two states of the system. -/
def SBal (w : Obj K V → Nat) (sys sys' : Sys K V Q) (inn out : Nat) : Prop :=
  ∃ ev lk, WExt (fun _ : Event K V Q => True) sys.w sys'.w ev lk ∧
    sysLive w sys + inn + wsum w (createdOf ev) = sysLive w sys' + out + wsum w (droppedOf ev) + wsum w lk

/-- a system-level run conserves objects: it receives `inn`, its result owns `own a`; if it unwinds
    it hands nothing back and either the panic is an injected one or the balance is exact. -/
def SCons (w : Obj K V → Nat) {α : Type} (r : Res (Sys K V Q) α) (sys : Sys K V Q) (inn : Nat) (own : α → Nat) : Prop :=
  match r with
  | .ok a sys' => SBal w sys sys' inn (own a)
  | .panic c sys' => (c = .inject ∧ sys.w.inject ≠ none) ∨ SBal w sys sys' inn 0
  | .ub => True

variable {w : Obj K V → Nat}

theorem SBal.refl (sys : Sys K V Q) (n : Nat) : SBal w sys sys n n :=
  ⟨[], [], WExt.refl _, by simp [createdOf, droppedOf]⟩

theorem SBal.of_eq {sys sys' : Sys K V Q} {i o i' o' : Nat} (h : SBal w sys sys' i o) (hi : i = i') (ho : o = o') :
    SBal w sys sys' i' o' := by subst hi; subst ho; exact h

theorem SBal.trans {s s1 s2 : Sys K V Q} {i1 o1 x o2 : Nat} (h1 : SBal w s s1 i1 o1)
    (h2 : SBal w s1 s2 (o1 + x) o2) : SBal w s s2 (i1 + x) o2 := by
  obtain ⟨e1, l1, a1, a2⟩ := h1
  obtain ⟨e2, l2, b1, b2⟩ := h2
  refine ⟨e1 ++ e2, l1 ++ l2, a1.trans b1, ?_⟩
  simp only [createdOf_append, droppedOf_append, wsum_append]
  omega

theorem SBal.armed {s s' : Sys K V Q} {i o : Nat} (h : SBal w s s' i o) (ha : s'.w.inject ≠ none) :
    s.w.inject ≠ none := by
  obtain ⟨ev, lk, hw, _⟩ := h
  exact fun hn => ha (hw.inj hn)

/-- relabel the result of a run. -/
def mapRet {σ α β : Type} (f : α → β) : Res σ α → Res σ β
  | .ok a s => .ok (f a) s
  | .panic c s => .panic c s
  | .ub => .ub

/-- the result of a system-level run, relabelled. -/
theorem SCons.map {α β : Type} {r : Res (Sys K V Q) α} {sys : Sys K V Q} {inn : Nat} {own : α → Nat}
    (h : SCons w r sys inn own) (f : α → β) (own' : β → Nat) (ho : ∀ a, own' (f a) = own a) :
    SCons w (mapRet f r) sys inn own' := by
  cases r with
  | ok a s => exact SBal.of_eq h rfl (ho a).symm
  | panic c s => exact h
  | ub => trivial

/-! ### running on one register -/

variable {P : Event K V Q → Prop}

/-- a run on a map register. -/
theorem runOnMap_scons {α : Type} {m : SM K V Q α} {sys : Sys K V Q} {i : Nat} {inn : Nat} {own : α → Nat}
    {pown : Option Nat} (hi : i < nRegs) (h : ConsAt P w m ⟨sys.maps i, sys.w⟩ inn own pown)
    (hp : ∀ q, pown = some q → q = 0) : SCons w (runOnMap sys i m) sys inn own := by
  unfold ConsAt at h
  unfold runOnMap
  cases hm : m ⟨sys.maps i, sys.w⟩ with
  | ub => trivial
  | ok a s =>
    rw [hm] at h
    obtain ⟨ev, lk, hx, heq⟩ := h
    refine ⟨ev, lk, wext_toTrue hx, ?_⟩
    have := sysLive_updMap w sys hi s.r s.w
    simp only at heq ⊢
    omega
  | panic c s =>
    rw [hm] at h
    rcases h with hl | ⟨q, hq, ev, lk, hx, heq⟩
    · exact Or.inl hl
    · have := hp q hq
      subst this
      refine Or.inr ⟨ev, lk, wext_toTrue hx, ?_⟩
      have := sysLive_updMap w sys hi s.r s.w
      simp only at heq ⊢
      omega

/-- a run on a set register (in the world of the set registers). -/
theorem runOnSet_scons {PU : Event K Unit Q → Prop} {α : Type} {m : SM K Unit Q α} {sys : Sys K V Q} {i : Nat}
    {inn : Nat} {own : α → Nat} {pown : Option Nat} (hi : i < nRegs)
    (h : ConsAt PU (wU w) m ⟨sys.sets i, sys.w.toUnit⟩ inn own pown)
    (hp : ∀ q, pown = some q → q = 0) : SCons w (runOnSet sys i m) sys inn own := by
  unfold ConsAt at h
  unfold runOnSet
  cases hm : m ⟨sys.sets i, sys.w.toUnit⟩ with
  | ub => trivial
  | ok a s =>
    rw [hm] at h
    obtain ⟨ev, lk, hx, heq⟩ := h
    refine ⟨_, _, wext_fromUnit hx, ?_⟩
    have := sysLive_updSet w sys hi s.r (sys.w.mergeUnit s.w)
    rw [created_fromUnit, dropped_fromUnit, wsum_fromUnit]
    simp only at heq ⊢
    omega
  | panic c s =>
    rw [hm] at h
    rcases h with ⟨hc, ha⟩ | ⟨q, hq, ev, lk, hx, heq⟩
    · exact Or.inl ⟨hc, ha⟩
    · have := hp q hq
      subst this
      refine Or.inr ⟨_, _, wext_fromUnit hx, ?_⟩
      have := sysLive_updSet w sys hi s.r (sys.w.mergeUnit s.w)
      rw [created_fromUnit, dropped_fromUnit, wsum_fromUnit]
      simp only at heq ⊢
      omega


/-! ### the operations of one register: what they carry, what their result owns -/

/-- the operations that `stepCore` handles itself (they involve a scratch or a second register);
    on them `stepMapOp` is a no-op. -/
def _root_.Micromap.MapOp.sysLevel : MapOp K V Q → Bool
  | .clone_to _ => true
  | .from_iter _ _ => true
  | .serde _ => true
  | _ => false

/-- every key and value object the text of a map operation carries. -/
def _root_.Micromap.MapOp.inObjs : MapOp K V Q → List (Obj K V)
  | .insert k v => [.k k, .v v]
  | .insert_key_value k v => [.k k, .v v]
  | .checked_insert k v => [.k k, .v v]
  | .insert_unchecked k v => [.k k, .v v]
  | .from_iter _ xs => pairObjs xs
  | .entry k _ fin => .k k :: finIn fin
  | _ => []

/-- the weighting does not tell the values the user closures of the operation write through `&mut V`
    from the values they found there (`Ledger2.L2Op.WOk`, on the model's own operation type). -/
def _root_.Micromap.MapOp.WOk (w : Obj K V → Nat) : MapOp K V Q → Prop
  | .retain f => ∀ n k v, w (.v (f n k v).2) = w (.v v)
  | .get_mut _ g => ∀ v, w (.v (g v)) = w (.v v)
  | .index_mut _ g => ∀ v, w (.v (g v)) = w (.v v)
  | .entry _ mods fin => (∀ g ∈ mods, ∀ v, w (.v (g v)) = w (.v v)) ∧ finWOk w fin
  | .iter kind g _ => (kind = .iter_mut ∨ kind = .values_mut) → ∀ v, w (.v (g v)) = w (.v v)
  | .get_disjoint_mut _ g _ => ∀ v, w (.v (g v)) = w (.v v)
  | _ => True

/-- the kind of entry the tag in the result of `entryOp` stands for. -/
def tagEntry (k : K) (t : String) : EntryS K := if t = "occ" then .occ 0 else .vac k

/-- what the caller owns after an entry chain, read off the result `[tag "occ"/"vac", r]` of
    `entryOp`: `Own.finBack` (NOT `RV.owned r`: the terminals `key`, `OccupiedEntry::key`,
    `VacantEntry::key` render the key they return BY REFERENCE as a bare `.key k` — for a vacant
    entry there is no slot to refer to — and a value passed to a terminal that does not consume it
    stays with the caller). -/
def entryOwned (k : K) (fin : EntryEnd V) : RV K V → List (Obj K V)
  | .list [.tag t, r] => finBack fin (tagEntry k t) r
  | _ => []

/-- what the caller owns of the result of a map operation. -/
def _root_.Micromap.MapOp.owned : MapOp K V Q → RV K V → List (Obj K V)
  | .entry k _ fin, r => entryOwned k fin r
  | _, r => RV.owned r

theorem finBack_occ (fin : EntryEnd V) (i j : Nat) (r : RV K V) :
    finBack fin (.occ i : EntryS K) r = finBack fin (.occ j) r := by
  cases fin <;> cases r <;> rfl

theorem finBack_vac (fin : EntryEnd V) (k k' : K) (r : RV K V) :
    finBack fin (.vac k : EntryS K) r = finBack fin (.vac k') r := by
  cases fin <;> cases r <;> rfl

theorem and_modify_ok {g : V → V} {e e' : EntryS K} {s s' : St K V Q} (h : and_modify g e s = .ok e' s') :
    e' = e := by
  cases e with
  | vac key =>
    simp only [and_modify, pure_apply] at h
    injection h with h1 _
    exact h1.symm
  | occ i =>
    simp only [and_modify, bind_apply] at h
    cases h1 : (itemRef i : SM K V Q (K × V)) s with
    | ub => rw [h1] at h; cases h
    | panic c s1 => rw [h1] at h; cases h
    | ok p s1 =>
      rw [h1] at h
      simp only at h
      cases h2 : (callF 1 : SM K V Q Unit) s1 with
      | ub => rw [h2] at h; cases h
      | panic c s2 => rw [h2] at h; cases h
      | ok u s2 =>
        rw [h2] at h
        simp only at h
        cases h3 : (valueReplace i (g p.2) : SM K V Q V) s2 with
        | ub => rw [h3] at h; cases h
        | panic c s3 => rw [h3] at h; cases h
        | ok u s3 =>
          rw [h3] at h
          simp only [pure_apply] at h
          injection h with h4 _
          exact h4.symm

theorem entryMods_ok : ∀ {mods : List (V → V)} {e e' : EntryS K} {s s' : St K V Q},
    entryMods mods e s = .ok e' s' → e' = e
  | [], e, e', s, s', h => by
    simp only [entryMods, pure_apply] at h
    injection h with h1 _
    exact h1.symm
  | g :: gs, e, e', s, s', h => by
    simp only [entryMods, bind_apply] at h
    cases h1 : (and_modify g e : SM K V Q (EntryS K)) s with
    | ub => rw [h1] at h; cases h
    | panic c s1 => rw [h1] at h; cases h
    | ok e1 s1 =>
      rw [h1] at h
      have := and_modify_ok h1
      subst this
      exact entryMods_ok h

theorem wsum_owned_pairs (w : Obj K V → Nat) (l : List (K × V)) :
    wsum w (RV.owned.ownedL (l.map fun p => RV.pair p.1 p.2)) = wpairs w l := by
  induction l with
  | nil => simp
  | cons p l ih => simp [ih]; omega

theorem wsum_owned_kpairs (w : Obj K V → Nat) (l : List (K × V)) :
    wsum w (RV.owned.ownedL (l.map fun p => RV.pair p.1 p.2)) = wkinds w .pairs l := by
  induction l with
  | nil => simp [wkinds]
  | cons p l ih => simp [wkinds, wkind] at ih ⊢; omega

theorem wsum_owned_keys (w : Obj K V → Nat) (l : List (K × V)) :
    wsum w (RV.owned.ownedL (l.map fun p => (RV.key p.1 : RV K V))) = wkinds w .keys l := by
  induction l with
  | nil => simp [wkinds]
  | cons p l ih => simp [wkinds, wkind] at ih ⊢; omega

theorem wsum_owned_vals (w : Obj K V → Nat) (l : List (K × V)) :
    wsum w (RV.owned.ownedL (l.map fun p => (RV.val p.2 : RV K V))) = wkinds w .values l := by
  induction l with
  | nil => simp [wkinds]
  | cons p l ih => simp [wkinds, wkind] at ih ⊢; omega

variable (E : Env K V Q) [EvP P]

/-- **every operation of one register** (`stepMapOp`, the model's own function), in any world, for
    any user equality: the objects the operation text carries are received, the result owns
    `MapOp.owned`. -/
theorem stepMapOp_cons (hv : HV E w) (R : Render K V) (other : Nat → Raw K V) (op : MapOp K V Q)
    (hsafe : op.safeApi = true) (hsys : op.sysLevel = false) (hop : op.WOk w) {s : St K V Q} (hs : Inv E s.r) :
    ConsAt P w (stepMapOp E R other op) s (wsum w op.inObjs) (fun r => wsum w (op.owned r)) (some 0) := by
  cases op with
  | insert k v =>
    simp only [MapOp.inObjs, wsum_cons, wsum_nil, Nat.add_zero, stepMapOp]
    refine ConsAt.bind (insert_cons E hv k v s) (Nat.le_refl _) (by own_p) (fun o s1 _ => ?_)
    cases o <;> exact ConsAt.pure (by simp [MapOp.owned])
  | insert_key_value k v =>
    simp only [MapOp.inObjs, wsum_cons, wsum_nil, Nat.add_zero, stepMapOp]
    refine ConsAt.bind (insert_key_value_cons E hv k v s) (Nat.le_refl _) (by own_p) (fun o s1 _ => ?_)
    cases o <;> exact ConsAt.pure (by simp [MapOp.owned])
  | checked_insert k v =>
    simp only [MapOp.inObjs, wsum_cons, wsum_nil, Nat.add_zero, stepMapOp]
    refine ConsAt.bind (checked_insert_cons E hv k v s) (Nat.le_refl _) (by own_p) (fun o s1 _ => ?_)
    cases o with
    | none => exact ConsAt.pure (by simp [wovv, MapOp.owned])
    | some o' => cases o' <;> exact ConsAt.pure (by simp [wovv, MapOp.owned])
  | insert_unchecked k v => cases hsafe
  | get pr =>
    simp only [stepMapOp]
    refine ConsAt.bind0 (get_cons E pr s) (by own_p) (fun o s1 _ => ?_)
    cases o <;> exact ConsAt.pure (by simp [MapOp.inObjs, MapOp.owned, optRef])
  | get_key_value pr =>
    simp only [stepMapOp]
    refine ConsAt.bind0 (get_cons E pr s) (by own_p) (fun o s1 _ => ?_)
    cases o <;> exact ConsAt.pure (by simp [MapOp.inObjs, MapOp.owned, optRef])
  | get_mut pr g =>
    simp only [stepMapOp]
    refine ConsAt.bind0 (get_mut_cons E pr g hop s) (by own_p) (fun o s1 _ => ?_)
    cases o <;> exact ConsAt.pure (by simp [MapOp.inObjs, MapOp.owned, optRef])
  | contains_key pr =>
    simp only [stepMapOp]
    refine ConsAt.bind0 (contains_key_cons E pr s) (by own_p) (fun o s1 _ => ?_)
    exact ConsAt.pure (by simp [MapOp.inObjs, MapOp.owned])
  | index pr =>
    simp only [stepMapOp]
    refine ConsAt.bind0 (index_cons E pr s) (by own_p) (fun o s1 _ => ?_)
    exact ConsAt.pure (by simp [MapOp.inObjs, MapOp.owned])
  | index_mut pr g =>
    simp only [stepMapOp]
    refine ConsAt.bind0 (index_mut_cons E pr g hop s) (by own_p) (fun o s1 _ => ?_)
    exact ConsAt.pure (by simp [MapOp.inObjs, MapOp.owned])
  | remove pr =>
    simp only [stepMapOp]
    refine ConsAt.bind (remove_cons E pr s) (Nat.zero_le _) (by own_p) (fun o s1 _ => ?_)
    cases o <;> exact ConsAt.pure (by simp [MapOp.inObjs, MapOp.owned])
  | remove_entry pr =>
    simp only [stepMapOp]
    refine ConsAt.bind (remove_entry_cons E pr s) (Nat.zero_le _) (by own_p) (fun o s1 _ => ?_)
    cases o <;> exact ConsAt.pure (by simp [MapOp.inObjs, MapOp.owned])
  | retain f =>
    simp only [stepMapOp]
    refine ConsAt.bind0 (retain_cons E hv f hop s) (by own_p) (fun o s1 _ => ?_)
    exact ConsAt.pure (by simp [MapOp.inObjs, MapOp.owned])
  | clear =>
    simp only [stepMapOp]
    refine ConsAt.bind0 (clear_cons E hv s) (by own_p) (fun o s1 _ => ?_)
    exact ConsAt.pure (by simp [MapOp.inObjs, MapOp.owned])
  | len =>
    simp only [stepMapOp]
    refine ConsAt.bind0 (getLen_cons s) (by own_np) (fun o s1 _ => ?_)
    exact ConsAt.pure (by simp [MapOp.inObjs, MapOp.owned])
  | is_empty =>
    simp only [stepMapOp]
    refine ConsAt.bind0 (m := Micromap.is_empty) (p1 := none) ?_ (by own_np) (fun o s1 _ => ?_)
    · unfold Micromap.is_empty
      refine ConsAt.bind0 (getLen_cons s) (by own_np) (fun o s1 _ => ?_)
      exact ConsAt.pure rfl
    · exact ConsAt.pure (by simp [MapOp.inObjs, MapOp.owned])
  | capacity =>
    simp only [stepMapOp]
    refine ConsAt.bind0 (getCap_cons s) (by own_np) (fun o s1 _ => ?_)
    exact ConsAt.pure (by simp [MapOp.inObjs, MapOp.owned])
  | drain take forget =>
    simp only [stepMapOp]
    refine ConsAt.bind (drainOp_cons E hv take forget s) (Nat.zero_le _) (by own_p) (fun r s1 _ => ?_)
    obtain ⟨items, remaining, rest⟩ := r
    refine ConsAt.pure ?_
    simp [MapOp.inObjs, MapOp.owned, wsum_owned_pairs]
  | into_iter kind take forget =>
    obtain ⟨l, hr, _⟩ := hs
    simp only [stepMapOp]
    refine ConsAt.bind (intoIterOp_cons E hv kind take forget hr) (Nat.zero_le _) (by own_np) (fun r s1 _ => ?_)
    obtain ⟨items, remaining, rest⟩ := r
    refine ConsAt.pure ?_
    cases kind <;> simp [MapOp.inObjs, MapOp.owned, wsum_owned_kpairs, wsum_owned_keys, wsum_owned_vals]
  | iter kind g script =>
    simp only [stepMapOp]
    refine ConsAt.bind (iterOp_own R kind g hop script s) (Nat.zero_le _) (by own_p) (fun o s1 _ => ?_)
    exact ConsAt.pure (by simp [MapOp.inObjs, MapOp.owned])
  | clone_to dst => cases hsys
  | eq o =>
    simp only [stepMapOp]
    refine ConsAt.getS_bind ?_
    refine ConsAt.bind0 (mapEq_cons E s.r (other o) s) (by own_p) (fun b s1 _ => ?_)
    exact ConsAt.pure (by simp [MapOp.inObjs, MapOp.owned])
  | from_iter pulls xs => cases hsys
  | entry k mods fin =>
    simp only [MapOp.inObjs, wsum_cons, stepMapOp, entryOp]
    have hle : s.r.len ≤ s.r.cap := by obtain ⟨l, hr, _⟩ := hs; exact hr.1 ▸ hr.2.1
    refine ConsAt.bind (entry_inj E k hle) (by omega) (by own_np) (fun e s1 _ => ?_)
    refine ConsAt.bind (entryMods_cons mods hop.1 e s1) (by omega) (by own_np) (fun e' s2 he' => ?_)
    have := entryMods_ok he'
    subst this
    refine ConsAt.bind (entryFinish_cons E hv fin hop.2 e' s2) (by omega) (by own_p) (fun r s3 _ => ?_)
    refine ConsAt.pure ?_
    cases e' with
    | occ i =>
      simp only [MapOp.owned, entryOwned, tagEntry, if_true]
      rw [finBack_occ fin 0 i]; omega
    | vac key =>
      have : ("vac" = "occ") = False := by decide
      simp only [MapOp.owned, entryOwned, tagEntry, this, if_false]
      rw [finBack_vac fin k key]; omega
  | get_disjoint_mut u g ks =>
    cases u with
    | true => cases hsafe
    | false =>
      simp only [stepMapOp, Bool.false_eq_true, if_false]
      refine ConsAt.bind0 (get_disjoint_mut_cons E ks s) (by own_p) (fun slots s1 _ => ?_)
      refine ConsAt.bind0 (writeSlots_cons g hop slots s1) (by own_np) (fun _ s2 _ => ?_)
      refine ConsAt.getS_bind ?_
      refine ConsAt.bind (readSlots_own s2.r slots s2) (Nat.zero_le _) (by own_np) (fun _ s3 _ => ?_)
      exact ConsAt.pure (by simp [MapOp.inObjs, MapOp.owned])
  | fmt kind =>
    simp only [stepMapOp]
    refine ConsAt.bind0 (fmtMap_cons R kind s) (by own_p) (fun o s1 _ => ?_)
    exact ConsAt.pure (by simp [MapOp.inObjs, MapOp.owned])
  | drop =>
    simp only [stepMapOp]
    refine ConsAt.bind0 (dropAndRenew_cons E hv s) (by own_p) (fun o s1 _ => ?_)
    exact ConsAt.pure (by simp [MapOp.inObjs, MapOp.owned])
  | forget =>
    simp only [stepMapOp]
    refine ConsAt.bind0 (forgetMap_cons s) (by own_np) (fun o s1 _ => ?_)
    exact ConsAt.pure (by simp [MapOp.inObjs, MapOp.owned])
  | with_capacity c =>
    simp only [stepMapOp]
    refine ConsAt.bind0 (getCap_cons s) (by own_np) (fun cap s1 _ => ?_)
    refine ConsAt.bind0 (assertP_cons _ _ s1) (by own_p) (fun _ s2 _ => ?_)
    exact ConsAt.pure (by simp [MapOp.inObjs, MapOp.owned])
  | serde dst => cases hsys


/-! ### the operations of a set register -/

/-- the set operations that `stepCore` handles itself. -/
def _root_.Micromap.SetOp.sysLevel : SetOp K Q → Bool
  | .clone_to _ => true
  | .from_iter _ _ => true
  | .sub _ _ => true
  | .serde _ => true
  | .extend_from _ => true
  | _ => false

/-- the keys the text of a set operation carries. -/
def _root_.Micromap.SetOp.inKeys : SetOp K Q → List K
  | .insert k => [k]
  | .replace k => [k]
  | .from_iter _ xs => xs
  | .extend _ xs => xs
  | _ => []

section setops
variable {K Q : Type} {PU : Event K Unit Q → Prop} [EvP PU] {wu : Obj K Unit → Nat} (F : Env K Unit Q)

theorem wpairs_unit_keys (hw0 : ∀ u, wu (.v u) = 0) (xs : List K) :
    wpairs wu (xs.map fun k => (k, ())) = wsum wu (xs.map Obj.k) := by
  induction xs with
  | nil => rfl
  | cons k xs ih => simp [ih, hw0]

theorem wsum_owned_ukeys (l : List (K × Unit)) :
    wsum wu (RV.owned.ownedL (l.map fun p => (RV.key p.1 : RV K Unit))) = wkinds wu .keys l :=
  wsum_owned_keys wu l

theorem wkinds_keys_unit (hw0 : ∀ u, wu (.v u) = 0) (l : List (K × Unit)) :
    wkinds wu .keys l = wpairs wu l := by
  induction l with
  | nil => rfl
  | cons p l ih =>
    simp only [wkinds, List.map_cons, List.sum_cons, wpairs_cons] at ih ⊢
    simp only [wkind, hw0]
    omega

theorem fmtSet_cons (R : Render K Unit) (kind : FmtKind) :
    Cons PU wu (fmtSet R kind : SM K Unit Q String) 0 (fun _ => 0) (some 0) := by
  intro s
  unfold fmtSet
  refine ConsAt.getS_bind ?_
  refine ConsAt.bind0 (entriesOf_cons s.r s) (by own_p) (fun l s1 _ => ?_)
  cases kind <;> exact ConsAt.pure rfl

/-- **every operation of a set register** (`stepSetOp`), in any world, for any user equality. -/
theorem stepSetOp_cons (hw0 : ∀ u, wu (.v u) = 0) (R : Render K Unit) (other : Nat → Raw K Unit) (op : SetOp K Q)
    (hsys : op.sysLevel = false) {s : St K Unit Q} (hs : Inv F s.r) :
    ConsAt PU wu (stepSetOp F R other op) s (wsum wu (op.inKeys.map Obj.k)) (fun r => wsum wu (RV.owned r)) (some 0) := by
  have hv : HV F wu := Or.inr hw0
  cases op with
  | insert k =>
    simp only [stepSetOp, SetOp.inKeys, List.map_cons, List.map_nil, wsum_cons, wsum_nil, Nat.add_zero]
    refine ConsAt.bind (insert_cons F hv k () s) (by simp [hw0]) (by own_p) (fun o s1 _ => ?_)
    exact ConsAt.pure (by cases o <;> simp [hw0])
  | replace k =>
    simp only [stepSetOp, SetOp.inKeys, List.map_cons, List.map_nil, wsum_cons, wsum_nil, Nat.add_zero]
    refine ConsAt.bind (insert_ii_cons F hv k () true s) (by simp [hw0]) (by own_p) (fun r s1 _ => ?_)
    obtain ⟨j, ex⟩ := r
    cases ex with
    | none => exact ConsAt.pure (by simp [hw0])
    | some p => exact ConsAt.pure (by simp [hw0])
  | contains pr =>
    simp only [stepSetOp]
    refine ConsAt.bind0 (contains_key_cons F pr s) (by own_p) (fun o s1 _ => ?_)
    exact ConsAt.pure (by simp [SetOp.inKeys])
  | get pr =>
    simp only [stepSetOp]
    refine ConsAt.bind0 (get_cons F pr s) (by own_p) (fun o s1 _ => ?_)
    cases o <;> exact ConsAt.pure (by simp [SetOp.inKeys, optRef])
  | remove pr =>
    simp only [stepSetOp]
    refine ConsAt.bind (remove_cons F pr s) (Nat.zero_le _) (by own_p) (fun o s1 _ => ?_)
    cases o <;> exact ConsAt.pure (by simp [SetOp.inKeys, hw0])
  | take pr =>
    simp only [stepSetOp]
    refine ConsAt.bind (remove_entry_cons F pr s) (Nat.zero_le _) (by own_p) (fun o s1 _ => ?_)
    cases o <;> exact ConsAt.pure (by simp [SetOp.inKeys, hw0])
  | retain f =>
    simp only [stepSetOp]
    refine ConsAt.bind0 (retain_cons F hv _ (fun _ _ _ => rfl) s) (by own_p) (fun o s1 _ => ?_)
    exact ConsAt.pure (by simp [SetOp.inKeys])
  | clear =>
    simp only [stepSetOp]
    refine ConsAt.bind0 (clear_cons F hv s) (by own_p) (fun o s1 _ => ?_)
    exact ConsAt.pure (by simp [SetOp.inKeys])
  | len =>
    simp only [stepSetOp]
    refine ConsAt.bind0 (getLen_cons s) (by own_np) (fun o s1 _ => ?_)
    exact ConsAt.pure (by simp [SetOp.inKeys])
  | is_empty =>
    simp only [stepSetOp]
    refine ConsAt.bind0 (m := Micromap.is_empty) (p1 := none) ?_ (by own_np) (fun o s1 _ => ?_)
    · unfold Micromap.is_empty
      refine ConsAt.bind0 (getLen_cons s) (by own_np) (fun o s1 _ => ?_)
      exact ConsAt.pure rfl
    · exact ConsAt.pure (by simp [SetOp.inKeys])
  | capacity =>
    simp only [stepSetOp]
    refine ConsAt.bind0 (getCap_cons s) (by own_np) (fun o s1 _ => ?_)
    exact ConsAt.pure (by simp [SetOp.inKeys])
  | drain take forget =>
    simp only [stepSetOp]
    refine ConsAt.bind (drainOp_cons F hv take forget s) (Nat.zero_le _) (by own_p) (fun r s1 _ => ?_)
    obtain ⟨items, remaining, rest⟩ := r
    refine ConsAt.pure ?_
    have h1 := wsum_owned_ukeys (wu := wu) items
    have h2 := wkinds_keys_unit hw0 items
    simp [SetOp.inKeys, h1, h2]
  | into_iter take forget =>
    obtain ⟨l, hr, _⟩ := hs
    simp only [stepSetOp]
    refine ConsAt.bind (intoIterOp_cons F hv .keys take forget hr) (Nat.zero_le _) (by own_np) (fun r s1 _ => ?_)
    obtain ⟨items, remaining, rest⟩ := r
    refine ConsAt.pure ?_
    have h1 := wsum_owned_ukeys (wu := wu) items
    simp [SetOp.inKeys, h1]
  | iter script =>
    simp only [stepSetOp]
    refine ConsAt.bind (iterOp_own R .keys id (fun _ _ => rfl) script s) (Nat.zero_le _) (by own_p) (fun o s1 _ => ?_)
    exact ConsAt.pure (by simp [SetOp.inKeys])
  | clone_to dst => cases hsys
  | eq o =>
    simp only [stepSetOp]
    refine ConsAt.getS_bind ?_
    refine ConsAt.bind0 (mapEq_cons F s.r (other o) s) (by own_p) (fun b s1 _ => ?_)
    exact ConsAt.pure (by simp [SetOp.inKeys])
  | from_iter pulls xs => cases hsys
  | extend pulls xs =>
    simp only [stepSetOp, SetOp.inKeys]
    rw [← wpairs_unit_keys hw0]
    refine ConsAt.bind (extendLoop_cons F hv pulls _ s) (Nat.le_refl _) (by own_p) (fun o s1 _ => ?_)
    exact ConsAt.pure (by simp)
  | alg kind o script =>
    simp only [stepSetOp]
    refine ConsAt.getS_bind ?_
    refine ConsAt.bind (algOp_cons F R.dbgK kind s.r (other o) script s) (Nat.zero_le _) (by own_p) (fun l s1 _ => ?_)
    exact ConsAt.pure (by simp [SetOp.inKeys])
  | is_subset o =>
    simp only [stepSetOp]
    refine ConsAt.getS_bind ?_
    refine ConsAt.bind0 (is_subset_cons F s.r (other o) s) (by own_p) (fun b s1 _ => ?_)
    exact ConsAt.pure (by simp [SetOp.inKeys])
  | is_superset o =>
    simp only [stepSetOp]
    refine ConsAt.getS_bind ?_
    refine ConsAt.bind0 (is_superset_cons F s.r (other o) s) (by own_p) (fun b s1 _ => ?_)
    exact ConsAt.pure (by simp [SetOp.inKeys])
  | is_disjoint o =>
    simp only [stepSetOp]
    refine ConsAt.getS_bind ?_
    refine ConsAt.bind0 (is_disjoint_cons F s.r (other o) s) (by own_p) (fun b s1 _ => ?_)
    exact ConsAt.pure (by simp [SetOp.inKeys])
  | sub o dst => cases hsys
  | fmt kind =>
    simp only [stepSetOp]
    refine ConsAt.bind0 (fmtSet_cons R kind s) (by own_p) (fun o s1 _ => ?_)
    exact ConsAt.pure (by simp [SetOp.inKeys])
  | drop =>
    simp only [stepSetOp]
    refine ConsAt.bind0 (dropAndRenew_cons F hv s) (by own_p) (fun o s1 _ => ?_)
    exact ConsAt.pure (by simp [SetOp.inKeys])
  | forget =>
    simp only [stepSetOp]
    refine ConsAt.bind0 (forgetMap_cons s) (by own_np) (fun o s1 _ => ?_)
    exact ConsAt.pure (by simp [SetOp.inKeys])
  | serde dst => cases hsys
  | extend_from o => cases hsys

end setops


/-! ### building in a scratch register and assigning (`*dst = built`) -/

theorem live_new' (w : Obj K V → Nat) {r : Raw K V} {cap : Nat} (h : r = Raw.new cap) : live w r = 0 := by
  subst h; exact live_new w cap

/-- what the ledger needs of a construction in a scratch register: a balance when it returns; when
    it unwinds, an injected panic or a balance AND a scratch register without live slots (the local
    is gone: it must not take objects with it). -/
def BuildOk (P : Event K V Q → Prop) (w : Obj K V → Nat) (s0 : St K V Q) (inn : Nat) : Res (St K V Q) Unit → Prop
  | .ok _ s' => Bal P w s0 s' inn 0
  | .panic c s' => (c = .inject ∧ s0.w.inject ≠ none) ∨ (Bal P w s0 s' inn 0 ∧ live w s'.r = 0)
  | .ub => True

/-- from a triple and the deadness of the dropped local. -/
theorem BuildOk.of_cons {build : SM K V Q Unit} {s0 : St K V Q} {inn : Nat} {pown : Option Nat}
    (h : ConsAt P w build s0 inn (fun _ => 0) pown) (hp : ∀ q, pown = some q → q = 0)
    (hdead : ∀ c s', build s0 = .panic c s' → live w s'.r = 0) : BuildOk P w s0 inn (build s0) := by
  unfold ConsAt at h
  cases hm : build s0 with
  | ub => trivial
  | ok a s' => rw [hm] at h; exact h
  | panic c s' =>
    rw [hm] at h
    rcases h with hl | ⟨q, hq, hb⟩
    · exact Or.inl hl
    · have := hp q hq
      subst this
      exact Or.inr ⟨hb, hdead c s' hm⟩

theorem assignMap_scons (hv : HV E w) {sys : Sys K V Q} (hs : SysInv E sys) {dst cap : Nat} (hdst : dst < nRegs)
    {build : SM K V Q Unit} {inn : Nat} (hb : BuildOk P w ⟨Raw.new cap, sys.w⟩ inn (build ⟨Raw.new cap, sys.w⟩)) :
    SCons w (assignMap E sys dst cap build) sys inn (fun _ => 0) := by
  unfold assignMap
  have h0 : live w (Raw.new cap : Raw K V) = 0 := live_new w cap
  cases hbuild : build ⟨Raw.new cap, sys.w⟩ with
  | ub => trivial
  | panic c s =>
    rw [hbuild] at hb
    rcases hb with hl | ⟨⟨ev, lk, hx, heq⟩, hdead⟩
    · exact Or.inl hl
    · refine Or.inr ⟨ev, lk, wext_toTrue hx, ?_⟩
      simp only [h0, hdead] at heq
      show sysLive w sys + inn + _ = sysLive w sys + 0 + _ + _
      omega
  | ok u s =>
    rw [hbuild] at hb
    obtain ⟨ev, lk, hx, heq⟩ := hb
    simp only [h0] at heq
    obtain ⟨l, hrep, _⟩ := hs.1 dst
    have hd := dropAndRenew_cons (P := P) (w := w) E hv ⟨sys.maps dst, s.w⟩
    have hsat := dropAndRenew_sat E (s := ⟨sys.maps dst, s.w⟩) hrep
    unfold ConsAt at hd
    simp only
    cases hdr : dropAndRenew E ⟨sys.maps dst, s.w⟩ with
    | ub => trivial
    | ok u' s' =>
      rw [hdr] at hd
      have hnew := live_new' w (Sat.ok_of hsat hdr)
      obtain ⟨ev2, lk2, hx2, heq2⟩ := hd
      refine ⟨ev ++ ev2, lk ++ lk2, wext_toTrue (hx.trans hx2), ?_⟩
      have := sysLive_updMap w sys hdst s.r s'.w
      simp only [hnew, createdOf_append, droppedOf_append, wsum_append] at heq2 this ⊢
      omega
    | panic c s' =>
      rw [hdr] at hd
      have hnew := live_new' w (Sat.panic_of hsat hdr)
      rcases hd with ⟨hc, ha⟩ | ⟨q, hq, ev2, lk2, hx2, heq2⟩
      · exact Or.inl ⟨hc, fun hn => ha (hx.inj hn)⟩
      · cases hq
        refine Or.inr ⟨ev ++ ev2, lk ++ lk2, wext_toTrue (hx.trans hx2), ?_⟩
        have := sysLive_updMap w sys hdst s.r s'.w
        simp only [hnew, createdOf_append, droppedOf_append, wsum_append] at heq2 this ⊢
        omega

theorem assignSet_scons {PU : Event K Unit Q → Prop} [EvP PU] {sys : Sys K V Q} (hs : SysInv E sys) {dst cap : Nat}
    (hdst : dst < nRegs) {build : SM K Unit Q Unit} {inn : Nat}
    (hb : BuildOk PU (wU w) ⟨Raw.new cap, sys.w.toUnit⟩ inn (build ⟨Raw.new cap, sys.w.toUnit⟩)) :
    SCons w (assignSet E sys dst cap build) sys inn (fun _ => 0) := by
  unfold assignSet
  have h0 : live (wU w) (Raw.new cap : Raw K Unit) = 0 := live_new _ cap
  cases hbuild : build ⟨Raw.new cap, sys.w.toUnit⟩ with
  | ub => trivial
  | panic c s =>
    rw [hbuild] at hb
    rcases hb with hl | ⟨⟨ev, lk, hx, heq⟩, hdead⟩
    · exact Or.inl hl
    · refine Or.inr ⟨_, _, wext_fromUnit hx, ?_⟩
      simp only [h0, hdead] at heq
      rw [created_fromUnit, dropped_fromUnit, wsum_fromUnit]
      show sysLive w sys + inn + _ = sysLive w sys + 0 + _ + _
      omega
  | ok u s =>
    rw [hbuild] at hb
    obtain ⟨ev, lk, hx, heq⟩ := hb
    simp only [h0] at heq
    obtain ⟨l, hrep, _⟩ := hs.2 dst
    have hd := dropAndRenew_cons (P := PU) (w := wU w) E.toUnit (hv_unit E w) ⟨sys.sets dst, s.w⟩
    have hsat := dropAndRenew_sat E.toUnit (s := ⟨sys.sets dst, s.w⟩) hrep
    unfold ConsAt at hd
    simp only
    cases hdr : dropAndRenew E.toUnit ⟨sys.sets dst, s.w⟩ with
    | ub => trivial
    | ok u' s' =>
      rw [hdr] at hd
      have hnew := live_new' (wU w) (Sat.ok_of hsat hdr)
      obtain ⟨ev2, lk2, hx2, heq2⟩ := hd
      refine ⟨_, _, wext_fromUnit (hx.trans hx2), ?_⟩
      have := sysLive_updSet w sys hdst s.r (sys.w.mergeUnit s'.w)
      rw [created_fromUnit, dropped_fromUnit, wsum_fromUnit]
      simp only [hnew, createdOf_append, droppedOf_append, wsum_append] at heq2 this ⊢
      omega
    | panic c s' =>
      rw [hdr] at hd
      have hnew := live_new' (wU w) (Sat.panic_of hsat hdr)
      rcases hd with ⟨hc, ha⟩ | ⟨q, hq, ev2, lk2, hx2, heq2⟩
      · exact Or.inl ⟨hc, fun hn => ha (hx.inj hn)⟩
      · cases hq
        refine Or.inr ⟨_, _, wext_fromUnit (hx.trans hx2), ?_⟩
        have := sysLive_updSet w sys hdst s.r (sys.w.mergeUnit s'.w)
        rw [created_fromUnit, dropped_fromUnit, wsum_fromUnit]
        simp only [hnew, createdOf_append, droppedOf_append, wsum_append] at heq2 this ⊢
        omega


/-! ### `a.extend(b)` with `b` a set that is moved in: two registers, one world -/

section extendFrom
variable {K Q : Type} {PU : Event K Unit Q → Prop} [EvP PU] {wu : Obj K Unit → Nat} (F : Env K Unit Q)

/-- the balance between two states of the pair (source register, destination register with the
    world): nothing is passed in, nothing is handed out — every key of the source ends up stored in
    the destination, dropped (a duplicate, or the rest of the source when the loop unwinds) or, if a
    `Drop` unwinds, leaked. -/
def PBal (PU : Event K Unit Q → Prop) (wu : Obj K Unit → Nat) (rs : Raw K Unit) (sd : St K Unit Q)
    (x : Raw K Unit × St K Unit Q) : Prop :=
  ∃ ev lk, WExt PU sd.w x.2.w ev lk ∧
    live wu rs + live wu sd.r + wsum wu (createdOf ev) =
      live wu x.1 + live wu x.2.r + wsum wu (droppedOf ev) + wsum wu lk

/-- the loop conserves: exactly when it returns or unwinds by the container's own panic (overflow);
    nothing is claimed after an injected panic in an armed world (as in `ConsAt`). -/
def PCons (PU : Event K Unit Q → Prop) (wu : Obj K Unit → Nat) (r : Res (Raw K Unit × St K Unit Q) Unit)
    (rs : Raw K Unit) (sd : St K Unit Q) : Prop :=
  match r with
  | .ok _ x => PBal PU wu rs sd x
  | .panic c x => (c = .inject ∧ sd.w.inject ≠ none) ∨ PBal PU wu rs sd x
  | .ub => True

theorem wov_unit (hw0 : ∀ u, wu (.v u) = 0) (a : Option Unit) : wov wu a = 0 := by
  cases a <;> simp [hw0]

/-- **the loop of `a.extend(b)` conserves objects**, in any world, for any user equality. -/
theorem extendFromLoop_pcons (hw0 : ∀ u, wu (.v u) = 0) : ∀ (n : Nat) (rs : Raw K Unit) (sd : St K Unit Q),
    PCons PU wu (extendFromLoop F n rs sd) rs sd
  | 0, rs, sd => ⟨[], [], WExt.refl _, by simp [createdOf, droppedOf]⟩
  | n + 1, rs, sd => by
    have hv : HV F wu := Or.inr hw0
    have h1 := intoIterNextK_inj (P := PU) (w := wu) F hv .keys ⟨rs, sd.w⟩
    unfold ConsAt at h1
    unfold extendFromLoop
    cases hm : intoIterNextK F .keys ⟨rs, sd.w⟩ with
    | ub => trivial
    | panic c s1 =>
      rw [hm] at h1
      rcases h1 with hl | ⟨q, hq, _⟩
      · exact Or.inl hl
      · cases hq
    | ok o s1 =>
      rw [hm] at h1
      obtain ⟨ev1, lk1, hx1, he1⟩ := h1
      cases o with
      | none =>
        refine ⟨ev1, lk1, hx1, ?_⟩
        simp only [Option.map_none, Option.getD_none] at he1 ⊢
        omega
      | some p =>
        simp only [Option.map_some, Option.getD_some, wkind] at he1
        simp only
        have h2 := insert_cons (P := PU) (w := wu) F hv p.1 () ⟨sd.r, s1.w⟩
        unfold ConsAt at h2
        cases hi : insert F p.1 () ⟨sd.r, s1.w⟩ with
        | ub => trivial
        | ok a s2 =>
          rw [hi] at h2
          obtain ⟨ev2, lk2, hx2, he2⟩ := h2
          have ha := wov_unit hw0 a
          have hu := hw0 ()
          simp only [ha, hu] at he2
          have ih := extendFromLoop_pcons hw0 n s1.r s2
          show PCons PU wu (extendFromLoop F n s1.r s2) rs sd
          generalize extendFromLoop F n s1.r s2 = r at ih
          have hcomb : ∀ x, PBal PU wu s1.r s2 x → PBal PU wu rs sd x := by
            intro x ⟨ev3, lk3, hx3, he3⟩
            refine ⟨ev1 ++ (ev2 ++ ev3), lk1 ++ (lk2 ++ lk3), hx1.trans (hx2.trans hx3), ?_⟩
            simp only [createdOf_append, droppedOf_append, wsum_append]
            omega
          cases r with
          | ub => trivial
          | ok u x => exact hcomb x ih
          | panic c x =>
            rcases ih with ⟨hc, ha'⟩ | ih
            · exact Or.inl ⟨hc, fun hn => ha' (hx2.inj (hx1.inj hn))⟩
            · exact Or.inr (hcomb x ih)
        | panic c s2 =>
          rw [hi] at h2
          simp only
          have h3 := dropAndRenew_cons (P := PU) (w := wu) F hv ((⟨s1.r, s2.w⟩ : St K Unit Q).setUnw true)
          unfold ConsAt at h3
          cases hd : dropAndRenew F ((⟨s1.r, s2.w⟩ : St K Unit Q).setUnw true) with
          | ub => trivial
          | panic c' s3 => trivial
          | ok u s3 =>
            rw [hd] at h3
            rcases h2 with ⟨hc, ha'⟩ | ⟨q, hq, ev2, lk2, hx2, he2⟩
            · exact Or.inl ⟨hc, fun hn => ha' (hx1.inj hn)⟩
            · cases hq
              obtain ⟨ev3, lk3, hx3, he3⟩ := h3
              have hu := hw0 ()
              simp only [hu, setUnw_r] at he2 he3
              refine Or.inr ⟨ev1 ++ (ev2 ++ ev3), lk1 ++ (lk2 ++ lk3),
                hx1.trans (hx2.trans (WExt.through_unw (s' := ⟨s1.r, s2.w⟩) hx3)), ?_⟩
              simp only [createdOf_append, droppedOf_append, wsum_append]
              omega

end extendFrom

theorem sysLive_extendFin (w : Obj K V → Nat) (sys : Sys K V Q) {i j : Nat} (hi : i < nRegs) (hj : j < nRegs)
    (hij : j ≠ i) (rs rd : Raw K Unit) (u : World K Unit Q) :
    sysLive w (extendFin sys i j rs rd u) + live (wU w) (sys.sets i) + live (wU w) (sys.sets j) =
      sysLive w sys + live (wU w) rs + live (wU w) rd := by
  rcases lt_nRegs hi with rfl | rfl <;> rcases lt_nRegs hj with rfl | rfl <;>
    first | exact absurd rfl hij | (simp [sysLive, extendFin, updReg]; omega)

/-- **`sets[i].extend(sets[j])` conserves objects** at the system level: nothing comes in (the
    objects are those of the source register, which is one of the registers of `sysLive`), nothing
    is handed out; every key of the source is stored in the destination, dropped, or leaked by an
    unwinding `Drop` — in any world, for any user equality, whether the call returns or the
    destination overflows in the middle. -/
theorem extendFrom_scons {sys : Sys K V Q} {i j : Nat} (hi : i < nRegs) (hj : j < nRegs) (hij : j ≠ i) :
    SCons w (extendFrom E sys i j) sys 0 (fun _ => 0) := by
  have hl := extendFromLoop_pcons (PU := fun _ => True) (wu := wU w) E.toUnit (fun _ => rfl)
    ((sys.sets j).len + 1) (sys.sets j) ⟨sys.sets i, sys.w.toUnit⟩
  have hfin : ∀ (rs rd : Raw K Unit) (u : World K Unit Q) (ev : List (Event K Unit Q)) (lk : List (Obj K Unit)),
      WExt (fun _ => True) sys.w.toUnit u ev lk →
      live (wU w) (sys.sets j) + live (wU w) (sys.sets i) + wsum (wU w) (createdOf ev) =
        live (wU w) rs + live (wU w) rd + wsum (wU w) (droppedOf ev) + wsum (wU w) lk →
      SBal w sys (extendFin sys i j rs rd u) 0 0 := by
    intro rs rd u ev lk hx he
    refine ⟨_, _, wext_fromUnit hx, ?_⟩
    have := sysLive_extendFin w sys hi hj hij rs rd u
    rw [created_fromUnit, dropped_fromUnit, wsum_fromUnit]
    omega
  unfold extendFrom
  cases hloop : extendFromLoop E.toUnit ((sys.sets j).len + 1) (sys.sets j) ⟨sys.sets i, sys.w.toUnit⟩ with
  | ub => trivial
  | panic c x =>
    rw [hloop] at hl
    rcases hl with hc | ⟨ev, lk, hx, he⟩
    · exact Or.inl hc
    · exact Or.inr (hfin _ _ _ ev lk hx he)
  | ok u x =>
    rw [hloop] at hl
    obtain ⟨ev, lk, hx, he⟩ := hl
    have hd := dropAndRenew_cons (P := fun _ => True) (w := wU w) E.toUnit (hv_unit E w) ⟨x.1, x.2.w⟩
    unfold ConsAt at hd
    simp only
    cases hdr : dropAndRenew E.toUnit ⟨x.1, x.2.w⟩ with
    | ub => trivial
    | ok u' s4 =>
      rw [hdr] at hd
      obtain ⟨ev2, lk2, hx2, he2⟩ := hd
      refine hfin _ _ _ (ev ++ ev2) (lk ++ lk2) (hx.trans hx2) ?_
      simp only [createdOf_append, droppedOf_append, wsum_append] at he he2 ⊢
      omega
    | panic c s4 =>
      rw [hdr] at hd
      rcases hd with ⟨hc, ha⟩ | ⟨q, hq, ev2, lk2, hx2, he2⟩
      · exact Or.inl ⟨hc, fun hn => ha (hx.inj hn)⟩
      · cases hq
        refine Or.inr (hfin _ _ _ (ev ++ ev2) (lk ++ lk2) (hx.trans hx2) ?_)
        simp only [createdOf_append, droppedOf_append, wsum_append] at he he2 ⊢
        omega


/-! ### the operation language of the system -/

/-- every register the operation reads or writes (the model's `touched`) is one of the `nRegs`
    registers of each kind that exist for the ledger (and that `endCase` drops). -/
def _root_.Micromap.Op.regsOk (op : Op K V Q) : Bool :=
  (touched op).1.all (· < nRegs) && (touched op).2.all (· < nRegs)

/-- every key and value object the operation text carries: the arguments of the inserts, the lists
    of `from_iter` / `extend`, the key of an entry chain and the value of its terminal.  A set
    operation carries keys only; a `Map<K, (), N>` operation on a set register (`umap`) carries its
    keys (the unit values are no objects), and the three `umap` operations that the model does not
    execute (`clone_to`, `from_iter`, `serde`: no-ops of `stepCore`) carry nothing. -/
def _root_.Micromap.Op.inObjs : Op K V Q → List (Obj K V)
  | .map _ op => op.inObjs
  | .set _ op => op.inKeys.map Obj.k
  | .umap _ op => if op.sysLevel then [] else op.inObjs.filterMap objFromUnit
  | .inject _ => []
  | .endCase => []

/-- the weighting is admissible for the in-place writes of the operation (`MapOp.WOk`; on a set
    register there is nothing to write: the values are `()`). -/
def _root_.Micromap.Op.WOk (w : Obj K V → Nat) : Op K V Q → Prop
  | .map _ op => op.WOk w
  | _ => True

/-- `entryOwned` for an entry chain on a `Map<K, (), N>` register, read off the result after the cast
    to the common result type (`RV.castU`: `pair k () ↦ key k`, `val () ↦ unit`): the key of a removed
    entry (`remove_entry`) and the key of a vacant entry (`into_key`). -/
def uEntryOwned (fin : EntryEnd Unit) : RV K V → List (Obj K V)
  | .list [.tag t, .key k] =>
    match fin with
    | .occ_remove_entry => if t = "occ" then [.k k] else []
    | .vac_into_key => if t = "occ" then [] else [.k k]
    | _ => []
  | _ => []

/-- what the caller owns of the value a step returns (`Out.ret`): the keys, values and pairs that
    are not under a reference (`RV.owned`), except for entry chains (`entryOwned`). -/
def _root_.Micromap.Op.owned : Op K V Q → RV K V → List (Obj K V)
  | .map _ op, r => op.owned r
  | .umap _ (.entry _ _ fin), r => uEntryOwned fin r
  | _, r => RV.owned r

theorem owned_castU (w : Obj K V → Nat) : ∀ x : RV K Unit,
    wsum w (RV.owned (RV.castU x : RV K V)) = wsum (wU w) (RV.owned x)
  | .unit => by simp [RV.castU]
  | .none => by simp [RV.castU]
  | .bool _ => by simp [RV.castU]
  | .nat _ => by simp [RV.castU]
  | .key k => by simp [RV.castU]
  | .val _ => by simp [RV.castU]
  | .pair k _ => by simp [RV.castU]
  | .ref _ _ => by simp [RV.castU]
  | .oref _ _ _ => by simp [RV.castU]
  | .some x => by simp [RV.castU, owned_castU w x]
  | .list l => by simp [RV.castU]; exact ownedL_castU w l
  | .hint _ _ => by simp [RV.castU]
  | .str _ => by simp [RV.castU]
  | .tag _ => by simp [RV.castU]
where
  ownedL_castU (w : Obj K V → Nat) : ∀ l : List (RV K Unit),
      wsum w (RV.owned.ownedL (RV.castU.castUL l : List (RV K V))) = wsum (wU w) (RV.owned.ownedL l)
    | [] => by simp [RV.castU.castUL]
    | x :: xs => by simp [RV.castU.castUL, owned_castU w x, ownedL_castU w xs]

theorem MapOp.owned_eq (op : MapOp K V Q) (h : ∀ k mods fin, op ≠ .entry k mods fin) (r : RV K V) :
    op.owned r = RV.owned r := by
  cases op <;> first | rfl | exact absurd rfl (h _ _ _)

/-- the shape of what the two terminals return whose result the cast makes ambiguous. -/
theorem entryFinish_shape (E : Env K V Q) {fin : EntryEnd V} {e : EntryS K} {s s' : St K V Q} {r : RV K V}
    (h : entryFinish E fin e s = .ok r s') :
    (∀ i, fin = .occ_remove_entry → e = .occ i → ∃ k v, r = .pair k v) ∧
    (∀ key, fin = .vac_into_key → e = .vac key → ∃ k, r = .key k) := by
  refine ⟨fun i hf he => ?_, fun key hf he => ?_⟩
  · subst hf; subst he
    simp only [entryFinish, bind_apply] at h
    cases h1 : (occ_remove_entry i : SM K V Q (K × V)) s with
    | ub => rw [h1] at h; cases h
    | panic c s1 => rw [h1] at h; cases h
    | ok p s1 =>
      rw [h1] at h
      simp only [pure_apply] at h
      injection h with h2 _
      exact ⟨_, _, h2.symm⟩
  · subst hf; subst he
    simp only [entryFinish, pure_apply] at h
    injection h with h2 _
    exact ⟨_, h2.symm⟩

/-- an entry chain on a `Map<K, (), N>` register: `uEntryOwned` of the cast result weighs what
    `finBack` weighs in the world of the set registers. -/
theorem uEntryOwned_castU (w : Obj K V → Nat) (fin : EntryEnd Unit) (e : EntryS K) (r : RV K Unit)
    (h1 : ∀ i, fin = .occ_remove_entry → e = .occ i → ∃ k v, r = .pair k v)
    (h2 : ∀ key, fin = .vac_into_key → e = .vac key → ∃ k, r = .key k) :
    wsum w (uEntryOwned fin (RV.castU (.list [.tag (match e with | .occ _ => "occ" | .vac _ => "vac"), r]) : RV K V)) =
      wsum (wU w) (finBack fin e r) := by
  have hne : ("vac" = "occ") = False := by decide
  cases e <;> cases fin <;> cases r <;>
    simp [RV.castU, RV.castU.castUL, uEntryOwned, finBack, hne]
  · obtain ⟨_, _, hr⟩ := h1 _ rfl rfl; cases hr
  · obtain ⟨_, hr⟩ := h2 _ rfl rfl; cases hr


theorem MapOp.WOk_unit (w : Obj K V → Nat) (op : MapOp K Unit Q) : op.WOk (wU w) := by
  cases op with
  | retain f => exact fun _ _ _ => rfl
  | get_mut pr g => exact fun _ => rfl
  | index_mut pr g => exact fun _ => rfl
  | iter kind g script => exact fun _ _ => rfl
  | get_disjoint_mut u g ks => exact fun _ => rfl
  | entry k mods fin =>
    refine ⟨fun _ _ _ => rfl, ?_⟩
    cases fin <;> first | exact trivial | exact fun _ => rfl
  | _ => exact trivial

/-- **every `Map<K, (), N>` operation on a set register** (`umap`), with the result cast to the
    common result type. -/
theorem stepMapOp_unit_cons {PU : Event K Unit Q → Prop} [EvP PU] (R : Render K Unit) (other : Nat → Raw K Unit)
    (reg : Nat) (op : MapOp K Unit Q) (hsafe : op.safeApi = true) (hsys : op.sysLevel = false)
    {s : St K Unit Q} (hs : Inv E.toUnit s.r) :
    ConsAt PU (wU w) (stepMapOp E.toUnit R other op) s (wsum w (op.inObjs.filterMap objFromUnit))
      (fun a => wsum w (Op.owned (.umap reg op : Op K V Q) (RV.castU a))) (some 0) := by
  rw [wsum_fromUnit]
  by_cases hent : ∀ k mods fin, op ≠ .entry k mods fin
  · refine (stepMapOp_cons E.toUnit (hv_unit E w) R other op hsafe hsys (MapOp.WOk_unit w op) hs).congr rfl
      (fun a => ?_) (fun _ h => h)
    rw [MapOp.owned_eq op hent, ← owned_castU]
    cases op <;> first | rfl | exact absurd rfl (hent _ _ _)
  · have : ∃ k mods fin, op = .entry k mods fin := by
      apply Classical.byContradiction
      intro hn
      exact hent (fun k mods fin h => hn ⟨k, mods, fin, h⟩)
    obtain ⟨k, mods, fin, rfl⟩ := this
    have hv := hv_unit E w
    have hop := MapOp.WOk_unit w (.entry k mods fin : MapOp K Unit Q)
    simp only [MapOp.inObjs, wsum_cons, stepMapOp, entryOp]
    have hle : s.r.len ≤ s.r.cap := by obtain ⟨l, hr, _⟩ := hs; exact hr.1 ▸ hr.2.1
    refine ConsAt.bind (entry_inj E.toUnit k hle) (by omega) (by own_np) (fun e s1 _ => ?_)
    refine ConsAt.bind (entryMods_cons mods hop.1 e s1) (by omega) (by own_np) (fun e' s2 he' => ?_)
    have := entryMods_ok he'
    subst this
    refine ConsAt.bind (entryFinish_cons E.toUnit hv fin hop.2 e' s2) (by omega) (by own_p) (fun r s3 hfin => ?_)
    refine ConsAt.pure ?_
    obtain ⟨h1, h2⟩ := entryFinish_shape E.toUnit hfin
    have := uEntryOwned_castU w fin e' r h1 h2
    simp only [Op.owned]
    cases e' <;> simp only at this ⊢ <;> omega


/-! ### `stepCore` -/

/-- the objects a step creates by DECODING (`serde`: `K::deserialize` / `V::deserialize` log no
    event): the decode results of a prefix of the serialized entries of the source register — of
    all of them when `full` (the step returned) —, with the identities the model gives them (the
    fresh-object counter stands at `sys.w.nextId` when the step starts).  Empty for every other
    operation. -/
def _root_.Micromap.Op.DecOf (E : Env K V Q) (sys : Sys K V Q) (op : Op K V Q) (full : Bool) (dec : List (Obj K V)) : Prop :=
  match op with
  | .map reg (.serde _) => OwnSys.DecOf E full sys.w.nextId (sys.maps reg).abs dec
  | .set reg (.serde _) => ∃ du, OwnSys.DecOf E.toUnit full sys.w.nextId (sys.sets reg).abs du ∧ dec = du.filterMap objFromUnit
  | _ => dec = []

def isOk {σ α : Type} : Res σ α → Bool
  | .ok _ _ => true
  | _ => false

theorem stepCore_map_eq (R : Render K V) (sys : Sys K V Q) (reg : Nat) (mop : MapOp K V Q) (h : mop.sysLevel = false) :
    stepCore E R sys (.map reg mop) = runOnMap sys reg (stepMapOp E R sys.maps mop) := by
  cases mop <;> first | rfl | cases h

theorem stepCore_set_eq (R : Render K V) (sys : Sys K V Q) (reg : Nat) (sop : SetOp K Q) (h : sop.sysLevel = false) :
    stepCore E R sys (.set reg sop) = mapRet RV.castU (runOnSet sys reg (stepSetOp E.toUnit R.toUnit sys.sets sop)) := by
  cases sop <;> first | (cases h; done) | (simp only [stepCore]; cases runOnSet sys reg _ <;> rfl)

theorem stepCore_umap_eq (R : Render K V) (sys : Sys K V Q) (reg : Nat) (uop : MapOp K Unit Q) (h : uop.sysLevel = false) :
    stepCore E R sys (.umap reg uop) = mapRet RV.castU (runOnSet sys reg (stepMapOp E.toUnit R.toUnit sys.sets uop)) := by
  cases uop <;> first | (cases h; done) | (simp only [stepCore]; cases runOnSet sys reg _ <;> rfl)

theorem stepCore_umap_sys (R : Render K V) (sys : Sys K V Q) (reg : Nat) (uop : MapOp K Unit Q) (h : uop.sysLevel = true) :
    stepCore E R sys (.umap reg uop) = .ok .unit sys := by
  cases uop <;> first | rfl | cases h

/-- a result relabelled to `unit`. -/
theorem SCons.unit {r : Res (Sys K V Q) Unit} {sys : Sys K V Q} {inn : Nat} (h : SCons w r sys inn (fun _ => 0))
    (x : RV K V) (own : RV K V → Nat) (hx : own x = 0) :
    SCons w (match r with | .ok _ s => .ok x s | .panic c s => .panic c s | .ub => (.ub : Res (Sys K V Q) (RV K V)))
      sys inn own := by
  cases r with
  | ok a s => exact SBal.of_eq h rfl hx.symm
  | panic c s => exact h
  | ub => trivial

theorem isOk_unit {r : Res (Sys K V Q) Unit} (x : RV K V) :
    isOk (match r with | .ok _ s => .ok x s | .panic c s => .panic c s | .ub => (.ub : Res (Sys K V Q) (RV K V))) = isOk r := by
  cases r <;> rfl

theorem isOk_assignMap {sys : Sys K V Q} {dst cap : Nat} {build : SM K V Q Unit} (h : isOk (assignMap E sys dst cap build) = true) :
    isOk (build ⟨Raw.new cap, sys.w⟩) = true := by
  unfold assignMap at h
  cases hb : build ⟨Raw.new cap, sys.w⟩ with
  | ok a s => rfl
  | panic c s => rw [hb] at h; cases h
  | ub => rw [hb] at h; cases h

theorem isOk_assignSet {sys : Sys K V Q} {dst cap : Nat} {build : SM K Unit Q Unit} (h : isOk (assignSet E sys dst cap build) = true) :
    isOk (build ⟨Raw.new cap, sys.w.toUnit⟩) = true := by
  unfold assignSet at h
  cases hb : build ⟨Raw.new cap, sys.w.toUnit⟩ with
  | ok a s => rfl
  | panic c s => rw [hb] at h; cases h
  | ub => rw [hb] at h; cases h

/-- `Deserialize` into a scratch register, as a `BuildOk`. -/
theorem deserialize_build (E : Env K V Q) {P : Event K V Q → Prop} [EvP P] {w : Obj K V → Nat} (hv : HV E w)
    (n : Option Nat) (l : List (K × V)) (cap : Nat) (w0 : World K V Q) :
    let toks : List (Tok K V) := .start n :: l.map (fun p => Tok.entry p.1 p.2) ++ [.fin]
    ∃ dec, DecOf E (isOk (deserializeInto E toks ⟨Raw.new cap, w0⟩)) w0.nextId l dec ∧
      BuildOk P w ⟨Raw.new cap, w0⟩ (wsum w dec) (deserializeInto E toks ⟨Raw.new cap, w0⟩) := by
  intro toks
  have hbal := deserializeInto_bal (P := P) E hv toks ⟨Raw.new cap, w0⟩
  rw [desEntries_serialized] at hbal
  have hdead : ∀ c s', deserializeInto E toks ⟨Raw.new cap, w0⟩ = .panic c s' → live w s'.r = 0 := by
    intro c s' h
    exact live_dead w (scratch_dead E (opInv_visitLoop E _) (opG_visitLoop E _) (Inv.new E cap) (NoGarb.new cap) h)
  cases hm : deserializeInto E toks ⟨Raw.new cap, w0⟩ with
  | ub => exact ⟨[], .stop _ _, trivial⟩
  | ok u s' =>
    rw [hm] at hbal
    obtain ⟨dec, hd, hb⟩ := hbal
    exact ⟨dec, hd, hb⟩
  | panic c s' =>
    rw [hm] at hbal
    rcases hbal with hl | ⟨dec, hd, hb⟩
    · exact ⟨[], .stop _ _, Or.inl hl⟩
    · exact ⟨dec, hd, Or.inr ⟨hb, hdead c s' hm⟩⟩


theorem SCons.congr {α : Type} {r : Res (Sys K V Q) α} {sys : Sys K V Q} {inn inn' : Nat} {own own' : α → Nat}
    (h : SCons w r sys inn own) (hi : inn = inn') (ho : ∀ a, own a = own' a) : SCons w r sys inn' own' := by
  subst hi
  cases r with
  | ok a s => exact SBal.of_eq h rfl (ho a)
  | panic c s => exact h
  | ub => trivial

theorem regsOk_map_reg {reg : Nat} {mop : MapOp K V Q} (h : (Op.map reg mop : Op K V Q).regsOk = true) : reg < nRegs := by
  cases mop <;> simp [Op.regsOk, touched] at h <;> first | exact h | exact h.1

theorem regsOk_set_reg {reg : Nat} {sop : SetOp K Q} (h : (Op.set reg sop : Op K V Q).regsOk = true) : reg < nRegs := by
  cases sop <;> simp [Op.regsOk, touched] at h <;> first | exact h | exact h.1

theorem regsOk_umap_reg {reg : Nat} {uop : MapOp K Unit Q} (h : (Op.umap reg uop : Op K V Q).regsOk = true) : reg < nRegs := by
  cases uop <;> simp [Op.regsOk, touched] at h <;> first | exact h | exact h.1

theorem decOf_nil_map {sys : Sys K V Q} {reg : Nat} {mop : MapOp K V Q} (h : ∀ d, mop ≠ .serde d) (full : Bool) :
    (Op.map reg mop : Op K V Q).DecOf E sys full [] := by
  cases mop <;> first | rfl | exact absurd rfl (h _)

theorem decOf_nil_set {sys : Sys K V Q} {reg : Nat} {sop : SetOp K Q} (h : ∀ d, sop ≠ .serde d) (full : Bool) :
    (Op.set reg sop : Op K V Q).DecOf E sys full [] := by
  cases sop <;> first | rfl | exact absurd rfl (h _)

theorem wsum_keys_unit (w : Obj K V → Nat) (ks : List K) :
    wsum (wU w) (ks.map Obj.k) = wsum w (ks.map Obj.k) := by
  induction ks with
  | nil => rfl
  | cons k ks ih => simp [ih]

theorem decOf_assignMap {E' : Env K V Q} {sys : Sys K V Q} {dst cap : Nat} {build : SM K V Q Unit} {n l dec}
    {res : Res (Sys K V Q) Unit} (hres : assignMap E sys dst cap build = res)
    (hdec : DecOf E' (isOk (build ⟨Raw.new cap, sys.w⟩)) n l dec) : DecOf E' (isOk res) n l dec := by
  subst hres
  cases hok : isOk (assignMap E sys dst cap build) with
  | true => rw [isOk_assignMap E hok] at hdec; exact hdec
  | false => exact hdec.weaken

theorem decOf_assignSet {E' : Env K Unit Q} {sys : Sys K V Q} {dst cap : Nat} {build : SM K Unit Q Unit} {n l dec}
    {res : Res (Sys K V Q) Unit} (hres : assignSet E sys dst cap build = res)
    (hdec : DecOf E' (isOk (build ⟨Raw.new cap, sys.w.toUnit⟩)) n l dec) : DecOf E' (isOk res) n l dec := by
  subst hres
  cases hok : isOk (assignSet E sys dst cap build) with
  | true => rw [isOk_assignSet E hok] at hdec; exact hdec
  | false => exact hdec.weaken

/-- **`stepCore` conserves**: for every safe operation on the registers that exist, in any world,
    for any user equality. -/
theorem stepCore_scons (hv : HV E w) (R : Render K V) {sys : Sys K V Q} (hs : SysInv E sys) (op : Op K V Q)
    (hsafe : op.safeApi = true) (hreg : op.regsOk = true) (hop : op.WOk w) :
    ∃ dec, op.DecOf E sys (isOk (stepCore E R sys op)) dec ∧
      SCons w (stepCore E R sys op) sys (wsum w op.inObjs + wsum w dec) (fun r => wsum w (op.owned r)) := by
  cases op with
  | inject j => exact ⟨[], rfl, SBal.refl sys 0⟩
  | endCase => exact ⟨[], rfl, SBal.refl sys 0⟩
  | map reg mop =>
    have hr := regsOk_map_reg hreg
    by_cases hsl : mop.sysLevel = false
    · refine ⟨[], decOf_nil_map E (fun d hd => by subst hd; cases hsl) _, ?_⟩
      rw [stepCore_map_eq E R sys reg mop hsl]
      exact (runOnMap_scons hr (stepMapOp_cons (P := fun _ => True) E hv R sys.maps mop hsafe hsl hop (hs.1 reg))
        (fun q hq => by cases hq; rfl)).congr (by simp [Op.inObjs]) (fun _ => rfl)
    · cases mop with
      | clone_to dst =>
        have hd : dst < nRegs := by simp [Op.regsOk, touched] at hreg; exact hreg.2
        refine ⟨[], rfl, ?_⟩
        obtain ⟨l, hrep, _⟩ := hs.1 reg
        have hb : BuildOk (fun _ => True) w ⟨Raw.new (sys.maps reg).cap, sys.w⟩ 0
            (cloneInto E (sys.maps reg) ⟨Raw.new (sys.maps reg).cap, sys.w⟩) := by
          refine BuildOk.of_cons (cloneInto_cons E (fun _ => trivial) hv (sys.maps reg) _) (fun q hq => by cases hq; rfl) ?_
          intro c s' h
          have := Sat.panic_of (EqClone.cloneInto_sat E hrep (s := ⟨Raw.new (sys.maps reg).cap, sys.w⟩)
            (EqClone.Fresh.new _) rfl) h
          exact live_dead w this.2.2.1
        have := assignMap_scons E hv hs hd hb
        simp only [stepCore]
        exact (SCons.unit this .unit _ (by simp [Op.owned, MapOp.owned])).congr (by simp [Op.inObjs, MapOp.inObjs]) (fun _ => rfl)
      | from_iter pulls xs =>
        refine ⟨[], rfl, ?_⟩
        have hb : BuildOk (fun _ => True) w ⟨Raw.new (sys.maps reg).cap, sys.w⟩ (wpairs w xs)
            (from_iter E pulls xs ⟨Raw.new (sys.maps reg).cap, sys.w⟩) := by
          refine BuildOk.of_cons (from_iter_cons E hv pulls xs _) (fun q hq => by cases hq; rfl) ?_
          intro c s' h
          exact live_dead w (scratch_dead E (opInv_extendLoop E pulls xs) (opG_extendLoop E pulls xs)
            (Inv.new E _) (NoGarb.new _) h)
        have := assignMap_scons E hv hs hr hb
        simp only [stepCore]
        exact (SCons.unit this .unit _ (by simp [Op.owned, MapOp.owned])).congr
          (by simp [Op.inObjs, MapOp.inObjs, Ledger2.wsum_pairObjs]) (fun _ => rfl)
      | serde dst =>
        have hd : dst < nRegs := by simp [Op.regsOk, touched] at hreg; exact hreg.2
        obtain ⟨hrep, _⟩ := (hs.1 reg).abs
        simp only [stepCore, serializeR_ok hrep]
        obtain ⟨dec, hdec, hb⟩ := deserialize_build E (P := fun _ => True) hv (some (sys.maps reg).abs.length)
          (sys.maps reg).abs (sys.maps dst).cap sys.w
        have := assignMap_scons E hv hs hd hb
        refine ⟨dec, ?_, ?_⟩
        · show DecOf E _ _ _ dec
          generalize hres : assignMap E _ dst _ _ = res
          cases res <;> exact decOf_assignMap E hres hdec
        · refine (SCons.unit this _ _ ?_).congr (by simp [Op.inObjs, MapOp.inObjs]) (fun _ => rfl)
          simp [Op.owned, MapOp.owned, tokSummary]
      | _ => exact absurd rfl hsl
  | set reg sop =>
    have hr := regsOk_set_reg hreg
    by_cases hsl : sop.sysLevel = false
    · refine ⟨[], decOf_nil_set E (fun d hd => by subst hd; cases hsl) _, ?_⟩
      rw [stepCore_set_eq E R sys reg sop hsl]
      have h1 := runOnSet_scons hr (stepSetOp_cons (PU := fun _ => True) E.toUnit (fun _ => rfl) R.toUnit sys.sets sop hsl (hs.2 reg))
        (fun q hq => by cases hq; rfl) (w := w)
      have e1 : wsum (wU w) (sop.inKeys.map Obj.k) = wsum w (Op.set reg sop : Op K V Q).inObjs + wsum w [] := by
        simp [Op.inObjs, wsum_keys_unit]
      have h2 := SCons.map h1 RV.castU (fun r => wsum w (RV.owned r)) (fun a => owned_castU w a)
      have h3 := h2.congr (own' := fun r => wsum w ((Op.set reg sop : Op K V Q).owned r)) e1 (fun _ => rfl)
      exact h3
    · cases sop with
      | clone_to dst =>
        have hd : dst < nRegs := by simp [Op.regsOk, touched] at hreg; exact hreg.2
        refine ⟨[], rfl, ?_⟩
        obtain ⟨l, hrep, _⟩ := hs.2 reg
        have hb : BuildOk (fun _ => True) (wU w) ⟨Raw.new (sys.sets reg).cap, sys.w.toUnit⟩ 0
            (cloneInto E.toUnit (sys.sets reg) ⟨Raw.new (sys.sets reg).cap, sys.w.toUnit⟩) := by
          refine BuildOk.of_cons (cloneInto_cons E.toUnit (fun _ => trivial) (hv_unit E w) (sys.sets reg) _)
            (fun q hq => by cases hq; rfl) ?_
          intro c s' h
          have := Sat.panic_of (EqClone.cloneInto_sat E.toUnit hrep (s := ⟨Raw.new (sys.sets reg).cap, sys.w.toUnit⟩)
            (EqClone.Fresh.new _) rfl) h
          exact live_dead _ this.2.2.1
        have := assignSet_scons E hs hd hb
        simp only [stepCore]
        exact (SCons.unit this .unit _ (by simp [Op.owned])).congr (by simp [Op.inObjs, SetOp.inKeys]) (fun _ => rfl)
      | from_iter pulls xs =>
        refine ⟨[], rfl, ?_⟩
        have hb : BuildOk (fun _ => True) (wU w) ⟨Raw.new (sys.sets reg).cap, sys.w.toUnit⟩
            (wpairs (wU w) (xs.map fun k => (k, ())))
            (from_iter E.toUnit pulls (xs.map fun k => (k, ())) ⟨Raw.new (sys.sets reg).cap, sys.w.toUnit⟩) := by
          refine BuildOk.of_cons (from_iter_cons E.toUnit (hv_unit E w) pulls _ _) (fun q hq => by cases hq; rfl) ?_
          intro c s' h
          exact live_dead _ (scratch_dead E.toUnit (opInv_extendLoop E.toUnit pulls _) (opG_extendLoop E.toUnit pulls _)
            (Inv.new _ _) (NoGarb.new _) h)
        have := assignSet_scons E hs hr hb
        simp only [stepCore]
        exact (SCons.unit this .unit _ (by simp [Op.owned])).congr
          (by rw [wpairs_unit_keys (fun _ => rfl)]; simp [Op.inObjs, SetOp.inKeys, wsum_keys_unit]) (fun _ => rfl)
      | sub o dst =>
        have hd : dst < nRegs := by simp [Op.regsOk, touched] at hreg; exact hreg.2.2
        refine ⟨[], rfl, ?_⟩
        obtain ⟨la, hra, _⟩ := hs.2 reg
        obtain ⟨lb, hrb, _⟩ := hs.2 o
        have hI : OpInv E.toUnit (do
            let it ← iterStartR (sys.sets reg)
            subLoop E.toUnit (sys.sets reg) (sys.sets o) (it.len + 1) it) := by
          intro s hs'
          have hstart : iterStartR (sys.sets reg) s = .ok ⟨0, la.length⟩ s := Alg.iterStartR_eq hra s
          refine Sat.bind (Sat.of_ok hstart (Q := fun it s' => it = ⟨0, la.length⟩ ∧ s = s') ⟨rfl, rfl⟩) ?_
          rintro _ _ ⟨rfl, rfl⟩
          exact opInv_subLoop E.toUnit hra hrb _ _ (Nat.le_refl _) s hs'
        have hG : OpG (do
            let it ← iterStartR (sys.sets reg)
            subLoop E.toUnit (sys.sets reg) (sys.sets o) (it.len + 1) it : SM K Unit Q Unit) :=
          OpG.bind (OpG.of_frame (frame_iterStartR _)) (fun it => opG_subLoop E.toUnit _ _ _ it)
        have hb : BuildOk (fun _ => True) (wU w) ⟨Raw.new (sys.sets reg).cap, sys.w.toUnit⟩ 0
            (subInto E.toUnit (sys.sets reg) (sys.sets o) ⟨Raw.new (sys.sets reg).cap, sys.w.toUnit⟩) := by
          refine BuildOk.of_cons (subInto_cons E.toUnit (fun _ => trivial) (fun _ => rfl) _ _ _)
            (fun q hq => by cases hq; rfl) ?_
          intro c s' h
          exact live_dead _ (scratch_dead E.toUnit hI hG (Inv.new _ _) (NoGarb.new _) h)
        have := assignSet_scons E hs hd hb
        simp only [stepCore]
        exact (SCons.unit this .unit _ (by simp [Op.owned])).congr (by simp [Op.inObjs, SetOp.inKeys]) (fun _ => rfl)
      | extend_from o =>
        have ho : o < nRegs := by simp [Op.regsOk, touched] at hreg; exact hreg.2
        refine ⟨[], rfl, ?_⟩
        simp only [stepCore]
        split
        · exact (SBal.refl sys 0).of_eq (by simp [Op.inObjs, SetOp.inKeys]) (by simp [Op.owned])
        · rename_i hne
          have := extendFrom_scons E (w := w) (sys := sys) hr ho hne
          exact (SCons.unit this .unit _ (by simp [Op.owned])).congr (by simp [Op.inObjs, SetOp.inKeys]) (fun _ => rfl)
      | serde dst =>
        have hd : dst < nRegs := by simp [Op.regsOk, touched] at hreg; exact hreg.2
        obtain ⟨hrep, _⟩ := (hs.2 reg).abs
        simp only [stepCore, serializeR_ok hrep]
        obtain ⟨du, hdec, hb⟩ := deserialize_build E.toUnit (P := fun _ => True) (hv_unit E w)
          (some (sys.sets reg).abs.length) (sys.sets reg).abs (sys.sets dst).cap sys.w.toUnit
        have hs' : SysInv E { sys with w := sys.w.mergeUnit sys.w.toUnit } := hs
        have hmerge : sys.w.mergeUnit sys.w.toUnit = sys.w := by
          cases hw : sys.w; simp [World.mergeUnit, World.toUnit]
        rw [hmerge]
        have := assignSet_scons E hs hd hb
        refine ⟨du.filterMap objFromUnit, ⟨du, ?_, rfl⟩, ?_⟩
        · generalize hres : assignSet E _ dst _ _ = res
          cases res <;> exact decOf_assignSet E hres hdec
        · rw [wsum_fromUnit]
          refine (SCons.unit this _ _ ?_).congr (by simp [Op.inObjs, SetOp.inKeys]) (fun _ => rfl)
          simp [Op.owned, tokSummary, RV.castU, RV.castU.castUL]
      | _ => exact absurd rfl hsl
  | umap reg uop =>
    have hr := regsOk_umap_reg hreg
    refine ⟨[], rfl, ?_⟩
    by_cases hsl : uop.sysLevel = false
    · rw [stepCore_umap_eq E R sys reg uop hsl]
      have h1 := runOnSet_scons hr (stepMapOp_unit_cons (PU := fun _ => True) E R.toUnit sys.sets reg uop hsafe hsl (hs.2 reg) (w := w))
        (fun q hq => by cases hq; rfl)
      have e1 : wsum w (uop.inObjs.filterMap objFromUnit) = wsum w (Op.umap reg uop : Op K V Q).inObjs + wsum w [] := by
        simp [Op.inObjs, hsl]
      have h3 := (SCons.map h1 RV.castU (fun r => wsum w (Op.owned (.umap reg uop) r)) (fun a => rfl)).congr e1 (fun _ => rfl)
      exact h3
    · have hsl' : uop.sysLevel = true := by simpa using hsl
      rw [stepCore_umap_sys E R sys reg uop hsl']
      have h0 : wsum w (Op.owned (.umap reg uop : Op K V Q) .unit) = 0 := by
        cases uop <;> first | (cases hsl'; done) | (show wsum w (RV.owned (RV.unit : RV K V)) = 0; simp)
      exact (SBal.refl sys 0).of_eq (by simp [Op.inObjs, hsl']) h0.symm


/-! ### `step` -/

/-- the state `step` hands to `stepCore`: the event log is per step. -/
def sys0 (sys : Sys K V Q) : Sys K V Q := { sys with w := { sys.w with events := [] } }

/-- what `step` makes of the result of `stepCore` (the fields the ledger reads). -/
theorem step_generic (R : Render K V) (sys : Sys K V Q) (op : Op K V Q) (h1 : ∀ j, op ≠ .inject j) (h2 : op ≠ .endCase) :
    match stepCore E R (sys0 sys) op with
    | .ok r s => (step E R sys op).1 = { s with w := { s.w with inject := none } } ∧
        (step E R sys op).2.outcome = .ok ∧ (step E R sys op).2.ret = r ∧ (step E R sys op).2.events = s.w.events
    | .panic c s => (step E R sys op).1 = { s with w := { s.w with inject := none } } ∧
        (step E R sys op).2.outcome = .panic c ∧ (step E R sys op).2.ret = .unit ∧
        (step E R sys op).2.events = s.w.events
    | .ub => (step E R sys op).2.outcome = .ub := by
  cases op with
  | inject j => exact absurd rfl (h1 j)
  | endCase => exact absurd rfl h2
  | map reg mop =>
    simp only [step, sys0]
    cases stepCore E R _ (Op.map reg mop) <;> simp
  | set reg sop =>
    simp only [step, sys0]
    cases stepCore E R _ (Op.set reg sop) <;> simp
  | umap reg uop =>
    simp only [step, sys0]
    cases stepCore E R _ (Op.umap reg uop) <;> simp

theorem Op.owned_unit (w : Obj K V → Nat) (op : Op K V Q) : wsum w (op.owned .unit) = 0 := by
  cases op with
  | map reg mop => cases mop <;> simp [Op.owned, MapOp.owned, entryOwned]
  | umap reg uop => cases uop <;> first | (show wsum w (RV.owned (RV.unit : RV K V)) = 0; simp) | simp [Op.owned, uEntryOwned]
  | set reg sop => show wsum w (RV.owned (RV.unit : RV K V)) = 0; simp
  | inject j => show wsum w (RV.owned (RV.unit : RV K V)) = 0; simp
  | endCase => show wsum w (RV.owned (RV.unit : RV K V)) = 0; simp

theorem Op.decOf_sys0 {sys : Sys K V Q} {op : Op K V Q} {full dec} (h : op.DecOf E (sys0 sys) full dec) :
    op.DecOf E sys full dec := h

/-- the ledger equation of one step. -/
def StepEq (w : Obj K V → Nat) (sys : Sys K V Q) (op : Op K V Q) (sys' : Sys K V Q) (out : Out K V Q)
    (dec lk : List (Obj K V)) : Prop :=
  sysLive w sys + wsum w op.inObjs + wsum w (createdOf out.events) + wsum w dec =
    sysLive w sys' + wsum w (op.owned out.ret) + wsum w (droppedOf out.events) + wsum w lk


/-! ### `endCase`: every register is dropped -/

theorem SBal.inj_none {s s' : Sys K V Q} {i o : Nat} (h : SBal w s s' i o) (hn : s.w.inject = none) :
    s'.w.inject = none := by
  obtain ⟨ev, lk, hw, _⟩ := h
  exact hw.inj hn

theorem dropMapReg (hv : HV E w) {sys : Sys K V Q} (hs : SysInv E sys) (hinj : sys.w.inject = none) {i : Nat}
    (hi : i < nRegs) :
    ∃ s1, (runOnMap sys i (dropAndRenew E) = .ok () s1 ∨ ∃ c, runOnMap sys i (dropAndRenew E) = .panic c s1) ∧
      SBal w sys s1 0 0 ∧ SysInv E s1 ∧ s1.sets = sys.sets ∧
      s1.maps = updReg sys.maps i (Raw.new (sys.maps i).cap) := by
  have hsc := runOnMap_scons (w := w) hi (dropAndRenew_cons (P := fun _ => True) E hv ⟨sys.maps i, sys.w⟩)
    (fun q hq => by cases hq; rfl)
  have hinv := runOnMap_inv E (opInv_drop E) hs i
  obtain ⟨l, hrep, _⟩ := hs.1 i
  have hsat := dropAndRenew_sat E (s := ⟨sys.maps i, sys.w⟩) hrep
  unfold runOnMap at hsc hinv ⊢
  cases hm : dropAndRenew E ⟨sys.maps i, sys.w⟩ with
  | ub => rw [hm] at hinv; exact hinv.elim
  | ok a s =>
    rw [hm] at hsc hinv
    have hr : s.r = Raw.new (sys.maps i).cap := Sat.ok_of hsat hm
    exact ⟨_, Or.inl rfl, hsc, hinv, rfl, by simp only [hr]⟩
  | panic c s =>
    rw [hm] at hsc hinv
    have hr : s.r = Raw.new (sys.maps i).cap := Sat.panic_of hsat hm
    rcases hsc with ⟨_, ha⟩ | hb
    · exact absurd hinj ha
    · exact ⟨_, Or.inr ⟨c, rfl⟩, hb, hinv, rfl, by simp only [hr]⟩

theorem dropSetReg {sys : Sys K V Q} (hs : SysInv E sys) (hinj : sys.w.inject = none) {i : Nat} (hi : i < nRegs) :
    ∃ s1, (runOnSet sys i (dropAndRenew E.toUnit) = .ok () s1 ∨
        ∃ c, runOnSet sys i (dropAndRenew E.toUnit) = .panic c s1) ∧
      SBal w sys s1 0 0 ∧ SysInv E s1 ∧ s1.maps = sys.maps ∧
      s1.sets = updReg sys.sets i (Raw.new (sys.sets i).cap) := by
  have hsc := runOnSet_scons (w := w) hi
    (dropAndRenew_cons (P := fun _ => True) E.toUnit (hv_unit E w) ⟨sys.sets i, sys.w.toUnit⟩)
    (fun q hq => by cases hq; rfl)
  have hinv := runOnSet_inv E (opInv_drop E.toUnit) hs i
  obtain ⟨l, hrep, _⟩ := hs.2 i
  have hsat := dropAndRenew_sat E.toUnit (s := ⟨sys.sets i, sys.w.toUnit⟩) hrep
  unfold runOnSet at hsc hinv ⊢
  cases hm : dropAndRenew E.toUnit ⟨sys.sets i, sys.w.toUnit⟩ with
  | ub => rw [hm] at hinv; exact hinv.elim
  | ok a s =>
    rw [hm] at hsc hinv
    have hr : s.r = Raw.new (sys.sets i).cap := Sat.ok_of hsat hm
    exact ⟨_, Or.inl rfl, hsc, hinv, rfl, by simp only [hr]⟩
  | panic c s =>
    rw [hm] at hsc hinv
    have hr : s.r = Raw.new (sys.sets i).cap := Sat.panic_of hsat hm
    rcases hsc with ⟨_, ha⟩ | hb
    · exact absurd hinj ha
    · exact ⟨_, Or.inr ⟨c, rfl⟩, hb, hinv, rfl, by simp only [hr]⟩

theorem goM_bal (hv : HV E w) : ∀ (n i : Nat) (sys : Sys K V Q), SysInv E sys → sys.w.inject = none → i + n ≤ nRegs →
    ∃ s', dropAllRegs.goM E n i sys = .ok () s' ∧ SBal w sys s' 0 0 ∧ SysInv E s' ∧ s'.sets = sys.sets ∧
      (∀ j, j < i → s'.maps j = sys.maps j) ∧ (∀ j, i ≤ j → j < i + n → ∃ c, s'.maps j = Raw.new c)
  | 0, i, sys, hs, _, _ => ⟨sys, rfl, SBal.refl sys 0, hs, rfl, fun _ _ => rfl, fun j h1 h2 => by omega⟩
  | n + 1, i, sys, hs, hinj, hle => by
    obtain ⟨s1, hrun, hb1, hs1, hsets1, hmaps1⟩ := dropMapReg E hv hs hinj (i := i) (by omega)
    obtain ⟨s', hgo, hb2, hs2, hsets2, hlow, hnew⟩ :=
      goM_bal hv n (i + 1) s1 hs1 (hb1.inj_none hinj) (by omega)
    refine ⟨s', ?_, SBal.trans (x := 0) hb1 hb2, hs2, hsets2.trans hsets1, ?_, ?_⟩
    · unfold dropAllRegs.goM
      rcases hrun with h | ⟨c, h⟩ <;> rw [h] <;> exact hgo
    · intro j hj
      rw [hlow j (by omega), hmaps1]
      simp [updReg]; omega
    · intro j h1 h2
      by_cases hji : j = i
      · subst hji
        rw [hlow j (by omega), hmaps1]
        exact ⟨_, by simp only [updReg, if_true]; rfl⟩
      · exact hnew j (by omega) (by omega)

theorem goS_bal : ∀ (n i : Nat) (sys : Sys K V Q), SysInv E sys → sys.w.inject = none → i + n ≤ nRegs →
    ∃ s', dropAllRegs.goS E n i sys = .ok () s' ∧ SBal w sys s' 0 0 ∧ SysInv E s' ∧ s'.maps = sys.maps ∧
      (∀ j, j < i → s'.sets j = sys.sets j) ∧ (∀ j, i ≤ j → j < i + n → ∃ c, s'.sets j = Raw.new c)
  | 0, i, sys, hs, _, _ => ⟨sys, rfl, SBal.refl sys 0, hs, rfl, fun _ _ => rfl, fun j h1 h2 => by omega⟩
  | n + 1, i, sys, hs, hinj, hle => by
    obtain ⟨s1, hrun, hb1, hs1, hmaps1, hsets1⟩ := dropSetReg (w := w) E hs hinj (i := i) (by omega)
    obtain ⟨s', hgo, hb2, hs2, hmaps2, hlow, hnew⟩ :=
      goS_bal n (i + 1) s1 hs1 (hb1.inj_none hinj) (by omega)
    refine ⟨s', ?_, SBal.trans (x := 0) hb1 hb2, hs2, hmaps2.trans hmaps1, ?_, ?_⟩
    · unfold dropAllRegs.goS
      rcases hrun with h | ⟨c, h⟩ <;> rw [h] <;> exact hgo
    · intro j hj
      rw [hlow j (by omega), hsets1]
      simp [updReg]; omega
    · intro j h1 h2
      by_cases hji : j = i
      · subst hji
        rw [hlow j (by omega), hsets1]
        exact ⟨_, by simp only [updReg, if_true]; rfl⟩
      · exact hnew j (by omega) (by omega)

theorem garbage_new (cap : Nat) : garbage (Raw.new cap : Raw K V) = [] := by
  have : ∀ n, garbageFrom (Raw.new cap : Raw K V) n = [] := by
    intro n
    induction n with
    | zero => rfl
    | succ n ih =>
      show garbageFrom (Raw.new cap : Raw K V) n ++ _ = []
      rw [ih]
      simp [Raw.new]
  exact this _

/-- **`endCase`**: with no fault armed, dropping all registers returns; the balance is exact, and
    afterwards every register is a fresh `new()`: no slot is live and nothing is unreachable. -/
theorem dropAllRegs_bal (hv : HV E w) {sys : Sys K V Q} (hs : SysInv E sys) (hinj : sys.w.inject = none) :
    ∃ s', dropAllRegs E sys = .ok () s' ∧ SBal w sys s' 0 0 ∧ SysInv E s' ∧ sysLive w s' = 0 ∧ allGarbage s' = [] := by
  obtain ⟨s1, h1, hb1, hs1, hsets1, _, hnew1⟩ := goM_bal E hv nRegs 0 sys hs hinj (by omega)
  obtain ⟨s2, h2, hb2, hs2, hmaps2, _, hnew2⟩ := goS_bal (w := w) E nRegs 0 s1 hs1 (hb1.inj_none hinj) (by omega)
  refine ⟨s2, ?_, SBal.trans (x := 0) hb1 hb2, hs2, ?_, ?_⟩
  · unfold dropAllRegs
    rw [h1]; exact h2
  · obtain ⟨c0, e0⟩ := hnew1 0 (by omega) (by unfold nRegs; omega)
    obtain ⟨c1, e1⟩ := hnew1 1 (by omega) (by unfold nRegs; omega)
    obtain ⟨d0, f0⟩ := hnew2 0 (by omega) (by unfold nRegs; omega)
    obtain ⟨d1, f1⟩ := hnew2 1 (by omega) (by unfold nRegs; omega)
    simp [sysLive, hmaps2, e0, e1, f0, f1]
  · obtain ⟨c0, e0⟩ := hnew1 0 (by omega) (by unfold nRegs; omega)
    obtain ⟨c1, e1⟩ := hnew1 1 (by omega) (by unfold nRegs; omega)
    obtain ⟨d0, f0⟩ := hnew2 0 (by omega) (by unfold nRegs; omega)
    obtain ⟨d1, f1⟩ := hnew2 1 (by omega) (by unfold nRegs; omega)
    simp [allGarbage, hmaps2, e0, e1, f0, f1, garbage_new]


/-! ### the step theorem -/

/-- the state `endCase` starts its drops from: per-step event log, no fault armed. -/
def sysE (sys : Sys K V Q) : Sys K V Q := { sys with w := { sys.w with events := [], inject := none } }

theorem step_endCase_eq (R : Render K V) (sys : Sys K V Q) :
    match dropAllRegs E (sysE sys) with
    | .ok _ s => step E R sys .endCase = (s, ({ outcome := Outcome.ok, ret := RV.unit, events := s.w.events, calls := s.w.calls - sys.w.calls, leaks := s.w.leaked ++ allGarbage s } : Out K V Q))
    | .panic _ _ => True
    | .ub => True := by
  simp only [step, sysE]
  cases dropAllRegs E _ <;> simp

/-- **`endCase`**: the step returns, every register is empty afterwards, and `Out.leaks` is exactly
    `World.leaked` (nothing is unreachable in a fresh register). -/
theorem step_endCase (hv : HV E w) (R : Render K V) {sys : Sys K V Q} (hs : SysInv E sys) :
    (step E R sys .endCase).2.outcome = .ok ∧ (step E R sys .endCase).2.ret = .unit ∧
    sysLive w (step E R sys .endCase).1 = 0 ∧
    (step E R sys .endCase).2.leaks = (step E R sys .endCase).1.w.leaked ∧
    SBal w (sysE sys) (step E R sys .endCase).1 0 0 ∧
    (step E R sys .endCase).2.events = (step E R sys .endCase).1.w.events := by
  obtain ⟨s', h, hb, _, hl, hg⟩ := dropAllRegs_bal (w := w) E hv (sys := sysE sys) hs rfl
  have := step_endCase_eq E R sys
  rw [h] at this
  simp only at this
  rw [this]
  exact ⟨rfl, rfl, hl, by simp [hg], hb, rfl⟩

/-- **One step of the system conserves objects** — `Micromap.step`, the model's transition function, on
    any safe operation over the registers that exist, in any world, for any user equality: the step
    does not reach `ub`, keeps the invariant, and EITHER it unwound from an injected panic (a fault
    was armed) OR the ledger equation `StepEq` holds exactly, with `lk` the suffix `World.leaked`
    grew by and `dec` the decode results of the step. -/
theorem step_scons (hv : HV E w) (R : Render K V) {sys : Sys K V Q} (hs : SysInv E sys) (op : Op K V Q)
    (hsafe : op.safeApi = true) (hreg : op.regsOk = true) (hop : op.WOk w) :
    (step E R sys op).2.outcome ≠ .ub ∧ SysInv E (step E R sys op).1 ∧
    (((step E R sys op).2.outcome = .panic .inject ∧ sys.w.inject ≠ none) ∨
      ∃ lk dec, (step E R sys op).1.w.leaked = sys.w.leaked ++ lk ∧
        op.DecOf E sys ((step E R sys op).2.outcome == .ok) dec ∧
        StepEq w sys op (step E R sys op).1 (step E R sys op).2 dec lk) := by
  have hinv := step_inv E R hs op hsafe
  refine ⟨hinv.1, hinv.2, ?_⟩
  by_cases hj : ∃ j, op = .inject j
  · obtain ⟨j, rfl⟩ := hj
    refine Or.inr ⟨[], [], by simp [step], rfl, ?_⟩
    simp [StepEq, step, Op.inObjs, Op.owned, createdOf, droppedOf, sysLive]
  by_cases he : op = .endCase
  · subst he
    obtain ⟨h1, h2, _, _, ⟨ev, lk, hx, heq⟩, h6⟩ := step_endCase (w := w) E hv R hs
    refine Or.inr ⟨lk, [], hx.leaked, rfl, ?_⟩
    have hev : (step E R sys .endCase).2.events = ev := by
      rw [h6, hx.events]; rfl
    unfold StepEq
    rw [h2, hev]
    have : sysLive w (sysE sys) = sysLive w sys := rfl
    simp only [Op.inObjs, Op.owned, owned_unit, wsum_nil, Nat.add_zero] at heq ⊢
    omega
  · have hgen := step_generic E R sys op (fun j h => hj ⟨j, h⟩) he
    obtain ⟨dec, hdec, hsc⟩ := stepCore_scons (w := w) E hv R (sys := sys0 sys) hs op hsafe hreg hop
    cases hres : stepCore E R (sys0 sys) op with
    | ub =>
      rw [hres] at hgen
      exact absurd hgen hinv.1
    | ok r s =>
      rw [hres] at hgen hsc hdec
      obtain ⟨g1, g2, g3, g4⟩ := hgen
      obtain ⟨ev, lk, hx, heq⟩ := hsc
      have hev : s.w.events = ev := by rw [hx.events]; rfl
      refine Or.inr ⟨lk, dec, by rw [g1]; exact hx.leaked, by rw [g2]; exact hdec, ?_⟩
      unfold StepEq
      rw [g1, g3, g4, hev]
      have : sysLive w (sys0 sys) = sysLive w sys := rfl
      dsimp only at heq
      show sysLive w sys + _ + _ + _ = sysLive w s + _ + _ + _
      omega
    | panic c s =>
      rw [hres] at hgen hsc hdec
      obtain ⟨g1, g2, g3, g4⟩ := hgen
      rcases hsc with ⟨hc, ha⟩ | ⟨ev, lk, hx, heq⟩
      · exact Or.inl ⟨by rw [g2, hc], ha⟩
      · have hev : s.w.events = ev := by rw [hx.events]; rfl
        refine Or.inr ⟨lk, dec, by rw [g1]; exact hx.leaked, by rw [g2]; exact hdec, ?_⟩
        unfold StepEq
        rw [g1, g3, g4, hev, Op.owned_unit]
        have : sysLive w (sys0 sys) = sysLive w sys := rfl
        show sysLive w sys + _ + _ + _ = sysLive w s + _ + _ + _
        omega

/-- the world after a step: the unwinding flag is kept, and no fault is armed unless the step was
    an `inject`. -/
theorem step_world (R : Render K V) {sys : Sys K V Q} (hs : SysInv E sys) (op : Op K V Q)
    (hsafe : op.safeApi = true) (hne : ∀ j, op ≠ .inject j) : (step E R sys op).1.w.inject = none := by
  by_cases he : op = .endCase
  · subst he
    have hub := (step_inv E R hs .endCase rfl).1
    simp only [step] at hub ⊢
    cases hd : dropAllRegs E _ with
    | ub => rw [hd] at hub; exact absurd rfl hub
    | ok a s =>
      simp only
      have h := dropAllRegs_bal (w := fun _ => 0) E (Or.inr fun _ => rfl) (sys := sysE sys) hs rfl
      obtain ⟨s', h1, hb, _⟩ := h
      have : Res.ok () s' = Res.ok a s := h1.symm.trans hd
      injection this with _ h2
      subst h2
      exact hb.inj_none rfl
    | panic c s =>
      have h := dropAllRegs_bal (w := fun _ => 0) E (Or.inr fun _ => rfl) (sys := sysE sys) hs rfl
      obtain ⟨s', h1, _⟩ := h
      have : Res.ok () s' = Res.panic c s := h1.symm.trans hd
      cases this
  · have hgen := step_generic E R sys op hne he
    have hub := (step_inv E R hs op hsafe).1
    cases hres : stepCore E R (sys0 sys) op with
    | ub => rw [hres] at hgen; exact absurd hgen hub
    | ok r s => rw [hres] at hgen; rw [hgen.1]
    | panic c s => rw [hres] at hgen; rw [hgen.1]


/-! ### histories -/

theorem run_cons_fst (R : Render K V) (sys : Sys K V Q) (op : Op K V Q) (ops : List (Op K V Q)) :
    (run E R sys (op :: ops)).1 = (run E R (step E R sys op).1 ops).1 := rfl

theorem run_cons_snd (R : Render K V) (sys : Sys K V Q) (op : Op K V Q) (ops : List (Op K V Q)) :
    (run E R sys (op :: ops)).2 = (step E R sys op).2 :: (run E R (step E R sys op).1 ops).2 := rfl

/-- everything the operation texts of a history carry. -/
def runIn (ops : List (Op K V Q)) : List (Obj K V) := ops.flatMap Op.inObjs

/-- the clone results of all steps. -/
def runCreated (outs : List (Out K V Q)) : List (Obj K V) := outs.flatMap fun o => createdOf o.events

/-- the drop log of all steps. -/
def runDropped (outs : List (Out K V Q)) : List (Obj K V) := outs.flatMap fun o => droppedOf o.events

/-- what the caller owns of the results of all steps. -/
def runOwned (ops : List (Op K V Q)) (outs : List (Out K V Q)) : List (Obj K V) :=
  (ops.zip outs).flatMap fun p => p.1.owned p.2.ret

/-- the decode results of all steps of a history (`Op.DecOf` at every step, on the state the step
    starts from). -/
def DecRun (E : Env K V Q) (R : Render K V) : Sys K V Q → List (Op K V Q) → List (Obj K V) → Prop
  | _, [], dec => dec = []
  | sys, op :: ops, dec => ∃ d1 d2, dec = d1 ++ d2 ∧
      op.DecOf E sys ((step E R sys op).2.outcome == .ok) d1 ∧ DecRun E R (step E R sys op).1 ops d2

/-- some step of the history unwound from an injected panic (a fault was armed when it started). -/
def InjectedRun (E : Env K V Q) (R : Render K V) : Sys K V Q → List (Op K V Q) → Prop
  | _, [] => False
  | sys, op :: ops => ((step E R sys op).2.outcome = .panic .inject ∧ sys.w.inject ≠ none) ∨
      InjectedRun E R (step E R sys op).1 ops

/-- the ledger equation of a history. -/
def RunEq (w : Obj K V → Nat) (sys : Sys K V Q) (ops : List (Op K V Q)) (sysF : Sys K V Q) (outs : List (Out K V Q))
    (dec lk : List (Obj K V)) : Prop :=
  sysLive w sys + wsum w (runIn ops) + wsum w (runCreated outs) + wsum w dec =
    sysLive w sysF + wsum w (runOwned ops outs) + wsum w (runDropped outs) + wsum w lk

/-- **Every history**, any world: either some step unwound from an injected panic, or the ledger
    equation holds for the whole history. -/
theorem run_bal (hv : HV E w) (R : Render K V) : ∀ (ops : List (Op K V Q)) (sys : Sys K V Q), SysInv E sys →
    (∀ op ∈ ops, op.safeApi = true ∧ op.regsOk = true ∧ op.WOk w) →
    InjectedRun E R sys ops ∨
      ∃ lk dec, (run E R sys ops).1.w.leaked = sys.w.leaked ++ lk ∧ DecRun E R sys ops dec ∧
        RunEq w sys ops (run E R sys ops).1 (run E R sys ops).2 dec lk
  | [], sys, _, _ => Or.inr ⟨[], [], by simp [run], rfl, by simp [RunEq, run, runIn, runCreated, runOwned, runDropped]⟩
  | op :: ops, sys, hs, hops => by
    obtain ⟨h1, h2, h3⟩ := hops op (List.mem_cons_self ..)
    obtain ⟨_, hs1, hstep⟩ := step_scons (w := w) E hv R hs op h1 h2 h3
    rcases hstep with hinj | ⟨lk1, d1, hl1, hd1, he1⟩
    · exact Or.inl (Or.inl hinj)
    · rcases run_bal hv R ops (step E R sys op).1 hs1 (fun o ho => hops o (List.mem_cons_of_mem _ ho)) with
        hinj | ⟨lk2, d2, hl2, hd2, he2⟩
      · exact Or.inl (Or.inr hinj)
      · refine Or.inr ⟨lk1 ++ lk2, d1 ++ d2, ?_, ⟨d1, d2, rfl, hd1, hd2⟩, ?_⟩
        · rw [run_cons_fst, hl2, hl1, List.append_assoc]
        · unfold RunEq StepEq at *
          rw [run_cons_fst, run_cons_snd]
          simp only [runIn, runCreated, runDropped, runOwned, List.flatMap_cons, List.zip_cons_cons, wsum_append] at he1 he2 ⊢
          omega

/-- without `inject` operations, from a world in which no fault is armed, no step is an injected
    panic. -/
theorem not_injectedRun (R : Render K V) : ∀ (ops : List (Op K V Q)) (sys : Sys K V Q), SysInv E sys →
    sys.w.inject = none → (∀ op ∈ ops, op.safeApi = true ∧ ∀ j, op ≠ .inject j) → ¬ InjectedRun E R sys ops
  | [], _, _, _, _ => fun h => h
  | op :: ops, sys, hs, hinj, hops => by
    obtain ⟨h1, h2⟩ := hops op (List.mem_cons_self ..)
    intro h
    rcases h with ⟨_, ha⟩ | h
    · exact ha hinj
    · exact not_injectedRun R ops _ (step_inv E R hs op h1).2 (step_world E R hs op h1 h2)
        (fun o ho => hops o (List.mem_cons_of_mem _ ho)) h

theorem injectedRun_out (R : Render K V) : ∀ (ops : List (Op K V Q)) (sys : Sys K V Q), InjectedRun E R sys ops →
    ∃ o ∈ (run E R sys ops).2, o.outcome = .panic .inject
  | [], _, h => h.elim
  | op :: ops, sys, h => by
    rw [run_cons_snd]
    rcases h with ⟨h, _⟩ | h
    · exact ⟨_, List.mem_cons_self .., h⟩
    · obtain ⟨o, ho, h'⟩ := injectedRun_out R ops _ h
      exact ⟨o, List.mem_cons_of_mem _ ho, h'⟩


theorem run_append (R : Render K V) : ∀ (a b : List (Op K V Q)) (sys : Sys K V Q),
    (run E R sys (a ++ b)).1 = (run E R (run E R sys a).1 b).1 ∧
    (run E R sys (a ++ b)).2 = (run E R sys a).2 ++ (run E R (run E R sys a).1 b).2
  | [], b, sys => ⟨rfl, rfl⟩
  | op :: a, b, sys => by
    have ih := run_append R a b (step E R sys op).1
    simp only [List.cons_append, run_cons_fst, run_cons_snd, ih.1, ih.2, List.cons_append]
    exact ⟨trivial, trivial⟩

/-- a step that does not return shows `unit`. -/
theorem step_ret_panic (R : Render K V) (sys : Sys K V Q) (op : Op K V Q) {c : PanicClass}
    (h : (step E R sys op).2.outcome = .panic c) : (step E R sys op).2.ret = .unit := by
  by_cases hj : ∃ j, op = .inject j
  · obtain ⟨j, rfl⟩ := hj
    simp [step] at h
  by_cases he : op = .endCase
  · subst he
    simp only [step] at h ⊢
    cases dropAllRegs E _ <;> rfl
  · have hgen := step_generic E R sys op (fun j h => hj ⟨j, h⟩) he
    cases hres : stepCore E R (sys0 sys) op with
    | ub => rw [hres] at hgen; rw [hgen] at h; cases h
    | ok r s => rw [hres] at hgen; rw [hgen.2.1] at h; cases h
    | panic c' s => rw [hres] at hgen; exact hgen.2.2.1

theorem sysLive_init (w : Obj K V → Nat) (capM capS : Nat → Nat) (w0 : World K V Q) :
    sysLive w (Sys.init capM capS w0) = 0 := by
  simp [sysLive, Sys.init]


/-! ### histories without in-place writes: every weighting is admissible -/

/-- the user closures of the operation leave the values they are shown as they are. -/
def _root_.Micromap.MapOp.NoWrite : MapOp K V Q → Prop
  | .retain f => ∀ n k v, (f n k v).2 = v
  | .get_mut _ g => ∀ v, g v = v
  | .index_mut _ g => ∀ v, g v = v
  | .entry _ mods fin => (∀ g ∈ mods, ∀ v, g v = v) ∧
      (match fin with | .occ_get_mut g => ∀ v, g v = v | _ => True)
  | .iter kind g _ => (kind = .iter_mut ∨ kind = .values_mut) → ∀ v, g v = v
  | .get_disjoint_mut _ g _ => ∀ v, g v = v
  | _ => True

def _root_.Micromap.Op.NoWrite : Op K V Q → Prop
  | .map _ op => op.NoWrite
  | _ => True

/-- without writes every weighting is admissible. -/
theorem Op.WOk_of_noWrite (w : Obj K V → Nat) (op : Op K V Q) (h : op.NoWrite) : op.WOk w := by
  cases op with
  | map reg mop =>
    cases mop with
    | retain f => exact fun n k v => by rw [h n k v]
    | get_mut pr g => exact fun v => by rw [h v]
    | index_mut pr g => exact fun v => by rw [h v]
    | iter kind g script => exact fun hk v => by rw [h hk v]
    | get_disjoint_mut u g ks => exact fun v => by rw [h v]
    | entry k mods fin =>
      refine ⟨fun g hg v => by rw [h.1 g hg v], ?_⟩
      cases fin with
      | occ_get_mut g => exact fun v => by rw [h.2 v]
      | _ => exact trivial
    | _ => exact trivial
  | _ => exact trivial

end Micromap.OwnSys
