/-
Formatting: the hand-written `Display` loops equal `intercalate`, and the `Debug` outputs of
containers, iterators and drains are the std builders applied to exactly the entries that are
stored / not yet yielded.
-/
import Micromap.Proofs.Iters
import Micromap.Proofs.Refine
import Micromap.Model.Sys

namespace Micromap.Fmt
variable {K V Q : Type}

theorem join_map_append (sep : String) : ∀ (acc : String) (xs : List String),
    List.foldl (fun r s => r ++ s) acc (xs.map fun x => sep ++ x) =
      acc ++ String.join (xs.map fun x => sep ++ x)
  | acc, [] => by simp [String.join]
  | acc, x :: xs => by
    simp only [List.map_cons, List.foldl_cons]
    rw [join_map_append sep (acc ++ (sep ++ x)) xs, String.join_cons, String.append_assoc]

/-- `first, then ", "-prefixed rest` is `intercalate`. -/
theorem intercalate_eq_join (sep : String) : ∀ (x : String) (xs : List String),
    sep.intercalate (x :: xs) = x ++ String.join (xs.map fun y => sep ++ y)
  | x, [] => by simp [String.join]
  | x, y :: ys => by
    rw [String.intercalate_cons_cons, intercalate_eq_join sep y ys]
    simp only [List.map_cons, String.join_cons, String.append_assoc]

/-- `Display for Map` as coded (first entry, then `", "`-prefixed entries) is the documented
    layout `{k: v, k: v}`. -/
theorem displayMapCode_eq (R : Render K V) (l : List (K × V)) :
    displayMapCode R l = StdFmt.displayMap (l.map fun p => (R.dspK p.1, R.dspV p.2)) := by
  unfold displayMapCode StdFmt.displayMap StdFmt.joinComma
  cases l with
  | nil => simp
  | cons p rest =>
    simp only [List.map_cons, List.map_map]
    rw [intercalate_eq_join]
    simp only [List.map_map, String.append_assoc]
    rfl

/-- `Display for Set` as coded is `{a, b}`. -/
theorem displaySetCode_eq (dsp : K → String) (l : List (K × Unit)) :
    displaySetCode dsp l = StdFmt.displaySet (l.map fun p => dsp p.1) := by
  unfold displaySetCode StdFmt.displaySet StdFmt.joinComma
  cases l with
  | nil => simp
  | cons p rest =>
    simp only [List.map_cons]
    rw [intercalate_eq_join]
    simp only [List.map_map]
    rfl

end Micromap.Fmt
