/-
`stepMapOp` computes `lMapOp`: every operation of the safe `Map` API on one register.
-/
import Micromap.Proofs.ListSysEntry

namespace Micromap.ListSys
open Micromap Refine
variable {K V Q : Type} (E : Env K V Q) (R : Render K V)

/-- **One map register.**  For a time-independent `==`, from a state that represents `l` (capacity
    `cap`) in a world without armed faults, every operation of the safe `Map` API run on the slot
    machine returns exactly the value `lMapOp` computes (or raises the panic `lMapOp` says) and
    leaves a state that represents the list `lMapOp` computes, with the capacity unchanged and the
    world still benign. -/
theorem stepMapOp_ok (hE : E.Pure) {prof : Profile} {cap : Nat} {l : List (K × V)} {s : St K V Q}
    (hc : Ctx prof cap l s) (other : Nat → Raw K V) (lo : Nat → List (K × V))
    (hother : ∀ o, Rep (other o) (lo o)) (op : MapOp K V Q) (hop : op.safeApi = true)
    (hside : MapOp.SideOK op) :
    RegOK prof cap (lMapOp E R prof cap lo l op) (stepMapOp E R other op) s := by
  cases op with
  | insert k v => exact insert_ok E R other hE hc k v
  | insert_key_value k v => exact insert_key_value_ok E R other hE hc k v
  | checked_insert k v => exact checked_insert_ok E R other hE hc k v
  | insert_unchecked k v => cases hop
  | get pr => exact get_ok E R other hE hc pr
  | get_key_value pr => exact get_key_value_ok E R other hE hc pr
  | get_mut pr g => exact get_mut_ok E R other hE hc pr g
  | contains_key pr => exact contains_key_ok E R other hE hc pr
  | index pr => exact index_ok E R other hE hc pr
  | index_mut pr g => exact index_mut_ok E R other hE hc pr g
  | remove pr => exact remove_ok E R other hE hc pr
  | remove_entry pr => exact remove_entry_ok E R other hE hc pr
  | retain f =>
    exact Ret.bind (retain_ret E hc f hside) (fun s1 hc1 => Ret.pure hc1)
  | clear => exact Ret.bind (clear_ret E hc) (fun s1 hc1 => Ret.pure hc1)
  | len => exact ⟨s, by simp [stepMapOp, len, getLen, bind_apply, hc.rep.1], hc⟩
  | is_empty => exact ⟨s, by simp [stepMapOp, is_empty, getLen, bind_apply, hc.rep.1], hc⟩
  | capacity => exact ⟨s, by simp [stepMapOp, capacity, getCap, bind_apply, hc.cap], hc⟩
  | drain take forget =>
    exact Ret.bind (drainOp_ret E hc take forget) (fun s1 hc1 => Ret.pure hc1)
  | into_iter kind take forget =>
    refine Ret.bind (intoIterOp_ret E hc kind take forget) (fun s1 hc1 => ?_)
    cases kind <;> exact Ret.pure hc1
  | iter kind g script =>
    exact Ret.bind (iterOp_ret R kind g script hc) (fun s1 hc1 => Ret.pure hc1)
  | clone_to dst => exact ⟨s, rfl, hc⟩
  | eq o =>
    obtain ⟨s1, h1, h2⟩ := mapEq_ret E hE hc hc.rep (hother o)
    exact ⟨s1, by simp [stepMapOp, getS, bind_apply, h1], h2⟩
  | from_iter pulls xs => exact ⟨s, rfl, hc⟩
  | entry k mods fin => exact entryOp_ok E hE hc k mods fin
  | get_disjoint_mut unchecked g ks =>
    cases unchecked with
    | true => cases hop
    | false => exact gdm_ok E R hE hc other g ks
  | fmt kind => exact ⟨s, by simp [stepMapOp, bind_apply, fmtMap_eq R hc kind], hc⟩
  | drop => exact Ret.bind (dropAndRenew_ret E hc) (fun s1 hc1 => Ret.pure hc1)
  | forget => exact Ret.bind (forgetMap_ret hc) (fun s1 hc1 => Ret.pure hc1)
  | with_capacity c =>
    simp only [lMapOp]
    by_cases h : (c == cap) = true
    · rw [if_pos h]
      exact ⟨s, by simp [stepMapOp, getCap, bind_apply, assertP, hc.cap, h], hc⟩
    · rw [if_neg h]
      exact ⟨s, by simp [stepMapOp, getCap, bind_apply, assertP, hc.cap, h], hc⟩
  | serde dst => exact ⟨s, rfl, hc⟩

end Micromap.ListSys
