/-
`stepSetOp` computes `lSetOp`: every operation of the `Set` API on one register.
-/
import Micromap.Proofs.ListSysMapAll
import Micromap.Proofs.ListSysAlg

namespace Micromap.ListSys
open Micromap Refine
variable {K Q : Type}

/-- the side condition of the set operations: the `retain` predicate does not look at the call
    counter. -/
def SetOp.SideOK : SetOp K Q → Prop
  | .retain f => ∀ n k, f n k = f 0 k
  | _ => True

theorem set_unit_self {l : List (K × Unit)} {j : Nat} (hj : j < l.length) : l.set j (l[j].1, ()) = l :=
  List.set_getElem_self hj

variable (F : Env K Unit Q) (R : Render K Unit)

theorem fmtSet_eq {prof cap} {l : List (K × Unit)} {s : St K Unit Q} (hc : Ctx prof cap l s) (kind : FmtKind) :
    fmtSet R kind s = .ok (lFmtSet R kind l) s := by
  cases kind <;> simp [fmtSet, getS, bind_apply, entriesOf_eq hc.rep, lFmtSet]

/-- **One set register.**  As `stepMapOp_ok`, for the `Set` API. -/
theorem stepSetOp_ok (hF : F.Pure) {prof : Profile} {cap : Nat} {l : List (K × Unit)} {s : St K Unit Q}
    (hc : Ctx prof cap l s) (other : Nat → Raw K Unit) (lo : Nat → List (K × Unit))
    (hother : ∀ o, Rep (other o) (lo o)) (op : SetOp K Q) (hside : SetOp.SideOK op) :
    RegOK prof cap (lSetOp F R prof cap lo l op) (stepSetOp F R other op) s := by
  cases op with
  | insert k =>
    simp only [lSetOp, lInsert]
    rcases outcome (insert_sat F hc.rep k ()) with ⟨a, s', hm, hcap, hq⟩ | ⟨c, s', hm, _, hq⟩
    · rcases hq with ⟨j, hj, ha, hrep, hw, hfj⟩ | ⟨ha, hroom, hrep, hw, hfn⟩
      · rw [lookup_some F (hfj hF) hj]
        subst ha
        rw [set_unit_self hj] at hrep
        exact ⟨s', by simp [stepSetOp, bind_apply, hm], hc.step hrep hcap hw⟩
      · rw [lookup_none F (hfn hF)]
        have : l.length < cap := hc.cap ▸ hroom
        simp only [this, if_true]
        subst ha
        exact ⟨s', by simp [stepSetOp, bind_apply, hm], hc.step hrep hcap hw⟩
    · rcases hq with ⟨hi', _⟩ | ⟨hs, ho, hfull, hfn, hw⟩
      · exact (no_inj hc.benign hi').elim
      · rw [lookup_none F (hfn hF)]
        have : ¬ l.length < cap := by rw [← hc.cap]; omega
        simp only [this, if_false]
        rw [← overflow_class ho hc.prof]
        exact ⟨s', by simp [stepSetOp, bind_apply, hm], hc.frame hs hw⟩
  | replace k =>
    simp only [lSetOp, lInsert]
    rcases outcome (insert_ii_sat F hc.rep k () true) with ⟨res, s', hm, hcap, hw, hq⟩ | ⟨c, s', hm, hs, hq⟩
    · obtain ⟨i, ex⟩ := res
      rcases hq with ⟨hi, hex, hrep, hfi⟩ | ⟨hi, hex, hroom, hrep, hfn⟩
      · simp only [if_true] at hex hrep
        simp only at hex hrep hi hfi
        subst hex
        rw [lookup_some F (hfi hF) hi]
        exact ⟨s', by simp [stepSetOp, bind_apply, hm], hc.step hrep hcap hw⟩
      · simp only at hex hrep hi hfn
        subst hex
        rw [lookup_none F (hfn hF)]
        have : l.length < cap := hc.cap ▸ hroom
        simp only [this, if_true]
        exact ⟨s', by simp [stepSetOp, bind_apply, hm], hc.step hrep hcap hw⟩
    · rcases hq with hi' | ⟨ho, hfull, hfn, hw⟩
      · exact (no_inj hc.benign hi').elim
      · rw [lookup_none F (hfn hF)]
        have : ¬ l.length < cap := by rw [← hc.cap]; omega
        simp only [this, if_false]
        rw [← overflow_class ho hc.prof]
        exact ⟨s', by simp [stepSetOp, bind_apply, hm], hc.frame hs hw⟩
  | contains pr =>
    simp only [lSetOp]
    rcases outcome (contains_key_cb F hc.rep pr) with ⟨b, s', hm, hs, hw, hb⟩ | ⟨c, s', _, _, hi'⟩
    · rw [← hb hF]
      exact ⟨s', by simp [stepSetOp, bind_apply, hm], hc.frame hs hw⟩
    · exact (no_inj hc.benign hi').elim
  | get pr =>
    obtain ⟨s', hm, hc'⟩ := get_ret F hF hc pr
    simp only [lSetOp]
    cases hl : lookup F l pr with
    | none => rw [hl] at hm; exact ⟨s', by simp [stepSetOp, bind_apply, hm, optRef], hc'⟩
    | some x => obtain ⟨i, p⟩ := x; rw [hl] at hm; exact ⟨s', by simp [stepSetOp, bind_apply, hm, optRef], hc'⟩
  | remove pr =>
    simp only [lSetOp]
    rcases outcome (remove_sat F hc.rep pr) with ⟨o, s', hm, hcap, ho, hfo⟩ | ⟨c, s', _, _, hi', _⟩
    · rcases ho with ⟨hon, hs, hw⟩ | ⟨j, hj, hoj, hrep, hw, hfj⟩
      · subst hon
        rw [lookup_none F (findKey_none_of_isSome F (hfo hF))]
        exact ⟨s', by simp [stepSetOp, bind_apply, hm], hc.frame hs hw⟩
      · subst hoj
        rw [lookup_some F (hfj hF) hj]
        exact ⟨s', by simp [stepSetOp, bind_apply, hm], hc.step hrep hcap hw⟩
    · exact (no_inj hc.benign hi').elim
  | take pr =>
    simp only [lSetOp]
    rcases outcome (remove_entry_sat F hc.rep pr) with ⟨o, s', hm, hcap, hw, ho, hfo⟩ | ⟨c, s', _, _, hi'⟩
    · rcases ho with ⟨hon, hs⟩ | ⟨j, hj, hoj, hrep, hfj⟩
      · subst hon
        rw [lookup_none F (findKey_none_of_isSome F (hfo hF))]
        exact ⟨s', by simp [stepSetOp, bind_apply, hm], hc.frame hs hw⟩
      · subst hoj
        rw [lookup_some F (hfj hF) hj]
        exact ⟨s', by simp [stepSetOp, bind_apply, hm], hc.step hrep hcap hw⟩
    · exact (no_inj hc.benign hi').elim
  | retain f =>
    have hf : ∀ n k (u : Unit), (fun n k (u : Unit) => (f n k, u)) n k u = (fun n k (u : Unit) => (f n k, u)) 0 k u := by
      intro n k u; simp only; rw [hside n k]
    exact Ret.bind (retain_ret F hc (fun n k u => (f n k, u)) hf) (fun s1 hc1 => Ret.pure hc1)
  | clear => exact Ret.bind (clear_ret F hc) (fun s1 hc1 => Ret.pure hc1)
  | len => exact ⟨s, by simp [stepSetOp, len, getLen, bind_apply, hc.rep.1], hc⟩
  | is_empty => exact ⟨s, by simp [stepSetOp, is_empty, getLen, bind_apply, hc.rep.1], hc⟩
  | capacity => exact ⟨s, by simp [stepSetOp, capacity, getCap, bind_apply, hc.cap], hc⟩
  | drain take forget =>
    exact Ret.bind (drainOp_ret F hc take forget) (fun s1 hc1 => Ret.pure hc1)
  | into_iter take forget =>
    exact Ret.bind (intoIterOp_ret F hc .keys take forget) (fun s1 hc1 => Ret.pure hc1)
  | iter script =>
    have h := iterOp_ret R .keys id script hc
    rw [lIterScript_shared R (kind := .keys) rfl] at h
    exact Ret.bind h (fun s1 hc1 => Ret.pure hc1)
  | clone_to dst => exact ⟨s, rfl, hc⟩
  | eq o =>
    obtain ⟨s1, h1, h2⟩ := mapEq_ret F hF hc hc.rep (hother o)
    exact ⟨s1, by simp [stepSetOp, getS, bind_apply, h1], h2⟩
  | from_iter pulls xs => exact ⟨s, rfl, hc⟩
  | extend pulls xs =>
    simp only [lSetOp]
    rcases outcome (FromIter.extendLoop_sat F pulls (xs.map fun k => (k, ())) s l hc.rep) with
      ⟨_, s', hm, hcap, l', tr, hrep, hw, hp⟩ | ⟨c, s', hm, hcap, _, _, hq⟩
    · obtain ⟨hl', _, hov⟩ := hp hF
      rw [hc.cap] at hov
      rw [if_pos hov]
      subst hl'
      exact ⟨s', by simp [stepSetOp, bind_apply, hm], hc.step hrep hcap hw⟩
    · rcases hq with hi' | ⟨ho, hp⟩
      · exact (no_inj hc.benign hi').elim
      · obtain ⟨m, k, v, hov, _, hrep, hw⟩ := hp hF
        rw [hc.cap] at hov
        rw [if_neg (by rw [hov]; simp), hov]
        rw [← overflow_class ho hc.prof]
        exact ⟨s', by simp [stepSetOp, bind_apply, hm], hc.step hrep hcap hw⟩
  | alg kind o script =>
    obtain ⟨s1, h1, h2⟩ := (algOp_qex F hF hc.rep (hother o) R.dbgK kind script).ret hc
    exact ⟨s1, by simp [stepSetOp, getS, bind_apply, h1], h2⟩
  | is_subset o =>
    obtain ⟨s1, h1, h2⟩ := (is_subset_qex F hF hc.rep (hother o)).ret hc
    exact ⟨s1, by simp [stepSetOp, getS, bind_apply, h1], h2⟩
  | is_superset o =>
    obtain ⟨s1, h1, h2⟩ := (is_superset_qex F hF hc.rep (hother o)).ret hc
    exact ⟨s1, by simp [stepSetOp, getS, bind_apply, h1], h2⟩
  | is_disjoint o =>
    obtain ⟨s1, h1, h2⟩ := (is_disjoint_qex F hF hc.rep (hother o)).ret hc
    exact ⟨s1, by simp [stepSetOp, getS, bind_apply, h1], h2⟩
  | sub o dst => exact ⟨s, rfl, hc⟩
  | fmt kind => exact ⟨s, by simp [stepSetOp, bind_apply, fmtSet_eq R hc kind], hc⟩
  | drop => exact Ret.bind (dropAndRenew_ret F hc) (fun s1 hc1 => Ret.pure hc1)
  | forget => exact Ret.bind (forgetMap_ret hc) (fun s1 hc1 => Ret.pure hc1)
  | serde dst => exact ⟨s, rfl, hc⟩
  | extend_from o => exact ⟨s, rfl, hc⟩

end Micromap.ListSys
