/-
The three functions of the PINNED tree that the `fix:` commits in /repo repaired (DESIGN.md §8),
mirrored as they were.  They are not used by `step`; they exist so that the defects have a formal
counterpart (`Props/C04.lean`: `legacy_*`), next to the replay files `corpus/c04-*.ops`.
-/
import Micromap.Model.Map

namespace Micromap.Legacy
variable {K V Q : Type} (E : Env K V Q)

/-- `clear` before f1d9076: `len` is reset only after the loop that drops the elements. -/
def clear : SM K V Q Unit := do
  let len ← getLen
  dropRange E len 0
  setLen 0

/-- `remove_index_drop` before 09f1297: the pair is dropped in place, then `len` is fixed up. -/
def remove_index_drop (i : Nat) : SM K V Q Unit := do
  itemDrop E i
  let len ← getLen
  setLen (len - 1)
  if i ≠ len - 1 then
    let value ← itemRead (len - 1)
    itemWrite i value

/-- `clone` before 992fc5c: `m.len = self.len` is published before any slot is written. -/
def cloneLoop (src : Raw K V) : Nat → Nat → SM K V Q Unit
  | 0, _ => pure ()
  | n + 1, i => do
    let cap ← getCap
    if i < cap then
      let p ← itemRefR src i
      let p' ← clonePair E p
      itemWrite i p'
      cloneLoop src n (i + 1)
    else pure ()

def cloneInto (src : Raw K V) : SM K V Q Unit :=
  unwindWith (dropMap E) do
    setLen src.len
    if src.len ≤ src.cap then cloneLoop E src src.len 0 else throwP .oob

end Micromap.Legacy
