/-
L0 mirror of the borrowing iterators (`iterators.rs`, `keys.rs`, `values.rs`,
`set/iterators.rs`) and of the lazy set-algebra adaptors (`set/difference.rs`,
`intersection.rs`, `union.rs`, `symmetric_difference.rs`, `sub.rs`) and the
set predicates of `set/methods.rs`.

A borrowing iterator is a `core::slice::Iter` over `pairs[..len]`: a window
`[lo, hi)` of slot positions of a container that cannot change while it lives.
-/
import Micromap.Model.Map

namespace Micromap

/-- `core::slice::Iter` over `pairs[..len]`. -/
structure SliceIt where
  lo : Nat
  hi : Nat
  deriving Repr, DecidableEq

def SliceIt.len (it : SliceIt) : Nat := it.hi - it.lo

section
variable {K V Q : Type} (E : Env K V Q)

/-- `iter()` / `iter_mut()`: `self.pairs[..self.len]…iter()`. -/
def iterStartR (r : Raw K V) : SM K V Q SliceIt :=
  if r.len ≤ r.cap then pure ⟨0, r.len⟩ else throwP .oob

/-- `Iter::next` on container `r`: slot position and the pair behind the reference. -/
def iterNextR (r : Raw K V) (it : SliceIt) : SM K V Q (Option (Nat × (K × V)) × SliceIt) :=
  if it.lo < it.hi then do
    let p ← itemRefR r it.lo
    pure (some (it.lo, p), { it with lo := it.lo + 1 })
  else pure (none, it)

/-- the not-yet-yielded entries, as `slice_iter(self.iter.as_slice())` reads them. -/
def iterRestR (r : Raw K V) : Nat → Nat → SM K V Q (List (K × V))
  | 0, _ => pure []
  | n + 1, i => do
    let p ← itemRefR r i
    let rest ← iterRestR r n (i + 1)
    pure (p :: rest)

def SliceIt.restR (r : Raw K V) (it : SliceIt) : SM K V Q (List (K × V)) :=
  iterRestR r it.len it.lo

/-! ### Difference / Intersection: `self.iter.find(|item| (!)other.contains(item))` -/

/-- `want = false`: difference (yield when `other` does not contain it);
    `want = true`: intersection.  `a` is iterated, `b` is probed. -/
def filtNextR (a b : Raw K V) (want : Bool) : Nat → Nat → SM K V Q (Option (Nat × K) × Nat)
  | 0, lo => pure (none, lo)
  | n + 1, lo => do
    let p ← itemRefR a lo
    let c ← scanR E b (.key p.1)
    if c.isSome == want then pure (some (lo, p.1), lo + 1)
    else filtNextR a b want n (lo + 1)

def filtNext (a b : Raw K V) (want : Bool) (it : SliceIt) :
    SM K V Q (Option (Nat × K) × SliceIt) := do
  let (o, lo') ← filtNextR E a b want it.len it.lo
  pure (o, { it with lo := lo' })

/-- the custom `fold`: visits every remaining element, calling `f` on the selected ones. -/
def filtFoldR (a b : Raw K V) (want : Bool) : Nat → Nat → SM K V Q (List (Nat × K))
  | 0, _ => pure []
  | n + 1, lo => do
    let p ← itemRefR a lo
    let c ← scanR E b (.key p.1)
    let rest ← filtFoldR a b want n (lo + 1)
    if c.isSome == want then pure ((lo, p.1) :: rest) else pure rest

def diffHint (b : Raw K V) (it : SliceIt) : Nat × Option Nat :=
  (if it.len > b.len then it.len - b.len else 0, some it.len)

def interHint (b : Raw K V) (it : SliceIt) : Nat × Option Nat :=
  (0, some (min it.len b.len))


/-! ### the four lazy set-algebra iterators

`a` is `self`, `b` is `other`.  An item is reported as (operand it points into:
0 = `self`, 1 = `other`; slot; the key behind the reference). -/

inductive AlgKind where
  | difference | intersection | union | symmetric_difference
  deriving DecidableEq, Repr

/-- iterator state. For `union`: `fst` = `SetIter` over `other`, `snd` = `Difference(self, other)`;
    for `symmetric_difference`: `fst` = `Difference(self, other)`, `snd` = `Difference(other, self)`
    (`core::iter::Chain` keeps both halves as `Option`s and clears only the first). -/
structure AlgIt where
  kind : AlgKind
  fst : Option SliceIt
  snd : Option SliceIt
  deriving Repr

abbrev AlgItem (K : Type) := Nat × Nat × K

def algStart (a b : Raw K V) (kind : AlgKind) : SM K V Q AlgIt := do
  match kind with
  | .difference | .intersection => pure ⟨kind, some (← iterStartR a), none⟩
  | .union =>
    let ib ← iterStartR b
    let ia ← iterStartR a
    pure ⟨kind, some ib, some ia⟩
  | .symmetric_difference =>
    let ia ← iterStartR a
    let ib ← iterStartR b
    pure ⟨kind, some ia, some ib⟩

/-- `next` of the first half of a chain / of a plain adaptor. -/
def algFstNext (a b : Raw K V) (kind : AlgKind) (it : SliceIt) :
    SM K V Q (Option (AlgItem K) × SliceIt) := do
  match kind with
  | .difference | .symmetric_difference =>
    let (o, it') ← filtNext E a b false it
    pure (o.map fun (i, k) => (0, i, k), it')
  | .intersection =>
    let (o, it') ← filtNext E a b true it
    pure (o.map fun (i, k) => (0, i, k), it')
  | .union =>
    let (o, it') ← iterNextR b it
    pure (o.map fun (i, p) => (1, i, p.1), it')

/-- `next` of the second half of a chain. -/
def algSndNext (a b : Raw K V) (kind : AlgKind) (it : SliceIt) :
    SM K V Q (Option (AlgItem K) × SliceIt) := do
  match kind with
  | .union =>
    let (o, it') ← filtNext E a b false it
    pure (o.map fun (i, k) => (0, i, k), it')
  | _ =>
    let (o, it') ← filtNext E b a false it
    pure (o.map fun (i, k) => (1, i, k), it')

def algNext (a b : Raw K V) (s : AlgIt) : SM K V Q (Option (AlgItem K) × AlgIt) := do
  match s.kind with
  | .difference | .intersection =>
    match s.fst with
    | some it =>
      let (o, it') ← algFstNext E a b s.kind it
      pure (o, { s with fst := some it' })
    | none => pure (none, s)
  | _ =>
    -- Chain::next: and_then_or_clear(&mut self.a, next).or_else(|| self.b.as_mut()?.next())
    let (o, s) ← (match s.fst with
      | some it => do
        let (o, it') ← algFstNext E a b s.kind it
        match o with
        | some x => pure (some x, { s with fst := some it' })
        | none => pure (none, { s with fst := none })
      | none => pure (none, s) : SM K V Q (Option (AlgItem K) × AlgIt))
    match o with
    | some x => pure (some x, s)
    | none =>
      match s.snd with
      | some it =>
        let (o, it') ← algSndNext E a b s.kind it
        pure (o, { s with snd := some it' })
      | none => pure (none, s)

def addHint (x y : Nat × Option Nat) : Nat × Option Nat :=
  (x.1 + y.1, match x.2, y.2 with | some p, some q => some (p + q) | _, _ => none)

def algHint (a b : Raw K V) (s : AlgIt) : Nat × Option Nat :=
  match s.kind with
  | .difference => match s.fst with | some it => diffHint b it | none => (0, some 0)
  | .intersection => match s.fst with | some it => interHint b it | none => (0, some 0)
  | .union =>
    match s.fst, s.snd with
    | some x, some y => addHint (x.len, some x.len) (diffHint b y)
    | some x, none => (x.len, some x.len)
    | none, some y => diffHint b y
    | none, none => (0, some 0)
  | .symmetric_difference =>
    match s.fst, s.snd with
    | some x, some y => addHint (diffHint b x) (diffHint a y)
    | some x, none => diffHint b x
    | none, some y => diffHint a y
    | none, none => (0, some 0)

/-- `fold` of a first half: all remaining items, through the custom `fold`s. -/
def algFstFold (a b : Raw K V) (kind : AlgKind) (it : SliceIt) : SM K V Q (List (AlgItem K)) := do
  match kind with
  | .difference | .symmetric_difference =>
    pure ((← filtFoldR E a b false it.len it.lo).map fun (i, k) => (0, i, k))
  | .intersection =>
    pure ((← filtFoldR E a b true it.len it.lo).map fun (i, k) => (0, i, k))
  | .union =>
    pure ((← iterRestR b it.len it.lo).zipIdx.map fun (p, j) => (1, it.lo + j, p.1))

def algSndFold (a b : Raw K V) (kind : AlgKind) (it : SliceIt) : SM K V Q (List (AlgItem K)) := do
  match kind with
  | .union => pure ((← filtFoldR E a b false it.len it.lo).map fun (i, k) => (0, i, k))
  | _ => pure ((← filtFoldR E b a false it.len it.lo).map fun (i, k) => (1, i, k))

/-- `fold` (and `count`, which the defaults and `Chain` route through it): consumes the iterator. -/
def algFold (a b : Raw K V) (s : AlgIt) : SM K V Q (List (AlgItem K)) := do
  let xs ← (match s.fst with
    | some it => algFstFold E a b s.kind it
    | none => pure [] : SM K V Q (List (AlgItem K)))
  let ys ← (match s.snd with
    | some it => algSndFold E a b s.kind it
    | none => pure [] : SM K V Q (List (AlgItem K)))
  pure (xs ++ ys)

/-! ### set predicates -/

/-- `a.iter().all(|v| other.contains(v) == want)`. -/
def allContainR (a b : Raw K V) (want : Bool) : Nat → Nat → SM K V Q Bool
  | 0, _ => pure true
  | n + 1, i => do
    let p ← itemRefR a i
    let c ← scanR E b (.key p.1)
    if c.isSome == want then allContainR a b want n (i + 1) else pure false

def allContain (a b : Raw K V) (want : Bool) : SM K V Q Bool :=
  if a.len ≤ a.cap then allContainR E a b want a.len 0 else throwP .oob

def is_disjoint (a b : Raw K V) : SM K V Q Bool :=
  if a.len ≤ b.len then allContain E a b false else allContain E b a false

def is_subset (a b : Raw K V) : SM K V Q Bool :=
  if a.len ≤ b.len then allContain E a b true else pure false

def is_superset (a b : Raw K V) : SM K V Q Bool := is_subset E b a

end
end Micromap
