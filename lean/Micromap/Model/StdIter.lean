/-
std's PROVIDED iterator methods on the crate's owning iterators (`IntoIter`, `IntoKeys`,
`IntoValues`, `Drain`, and the set wrappers): `nth`, `count`, `last`.

They are not functions of the crate (unless it overrides them — tools/inventory.json says which it
does: none on these types), but callers reach the crate's `next` through them, with std's own
drops of the skipped items IN BETWEEN the calls of `next`.  With an element destructor that can
panic, the order matters: a skipped item is destroyed while the iterator still owns the rest.
Here they are written exactly as core defines them, on top of the model's `next`:

    nth(k):   advance_by(k)  = k times `self.next()?` with the result dropped at once;  then `self.next()`
    count():  fold(0, |c, _x| c + 1)   = `next` until `None`, every item dropped at once
    last():   fold(None, |_, x| Some(x)) = `next` until `None`; the previous item is dropped after the
              next one has been produced

A panic while a skipped item is dropped unwinds through the caller's frame, which owns the
iterator: the iterator is dropped (the rest of the map / of the drained range is destroyed), with
injection suppressed — `unwindWith`.
-/
import Micromap.Model.Step

namespace Micromap

variable {K V Q : Type} (E : Env K V Q)

/-- the caller discards an item of a consuming iterator of kind `kind` (for `keys` / `values` the
    other half was already dropped inside `next`). -/
def dropItem (kind : IntoKind) (p : K × V) : SM K V Q Unit :=
  match kind with
  | .pairs => dropPair E p
  | .keys => dropK p.1
  | .values => dropV E p.2

/-- `advance_by(k)` on `IntoIter` / `IntoKeys` / `IntoValues`: `true` if `k` items were skipped. -/
def intoIterSkip (kind : IntoKind) : Nat → SM K V Q Bool
  | 0 => pure true
  | k + 1 => do
    match ← intoIterNextK E kind with
    | none => pure false
    | some p =>
      dropItem E kind p
      intoIterSkip kind k

/-- `nth(k)`. -/
def intoIterNth (kind : IntoKind) (k : Nat) : SM K V Q (Option (K × V)) := do
  if ← intoIterSkip E kind k then intoIterNextK E kind else pure none

/-- `count()`: `fuel` bounds the loop (`len + 1` suffices: every `next` shortens the map). -/
def intoIterCount (kind : IntoKind) : Nat → SM K V Q Nat
  | 0 => pure 0
  | fuel + 1 => do
    match ← intoIterNextK E kind with
    | none => pure 0
    | some p =>
      dropItem E kind p
      pure ((← intoIterCount kind fuel) + 1)

/-- the item that already sits in the return place of std's `some(_, x) = Some(x)` when the drop of
    the old accumulator unwinds: it is not dropped (the return place is not, as observed for the
    discarded halves in `remove` / `IntoKeys::next`) — leaked. -/
def leakItem (kind : IntoKind) (p : K × V) : SM K V Q Unit :=
  match kind with
  | .pairs => do leak (.k p.1); leak (.v p.2)
  | .keys => leak (.k p.1)
  | .values => leak (.v p.2)

/-- `last()`: the previous item is dropped after the next one has been produced; if that drop
    unwinds, the new item is leaked (and the caller's frame drops the iterator). -/
def intoIterLast (kind : IntoKind) : Nat → Option (K × V) → SM K V Q (Option (K × V))
  | 0, acc => pure acc
  | fuel + 1, acc => do
    -- `IntoKeys::next` / `IntoValues::next` drop the other half: if that unwinds, `fold`'s frame
    -- still owns the accumulator and drops it
    match ← unwindWith (match acc with | some q => dropItem E kind q | none => pure ()) (intoIterNextK E kind) with
    | none => pure acc
    | some p =>
      match acc with
      | some q => unwindWith (leakItem kind p) (dropItem E kind q)
      | none => pure ()
      intoIterLast kind fuel (some p)

inductive StdTake where
  | next (n : Nat)      -- `n` calls of `next` (what `intoIterOp` / `drainOp` do)
  | nth (k : Nat)
  | last

inductive StdEnd where
  | drop | forget | count

/-- the composite the harness runs on a consuming iterator of the map in the register: take,
    observe (`len()`, the entries `Debug` shows), end.  Returns the items handed to the caller, the
    length reported after the take phase, the entries still owned at that point, and `count()`'s
    answer if that is how it ended.  `last()` consumes the iterator, so nothing is observed after it. -/
def intoIterStdOp (kind : IntoKind) (take : StdTake) (fin : StdEnd) :
    SM K V Q (List (K × V) × Nat × List (K × V) × Option Nat) := do
  let len0 ← getLen
  let items ← unwindWith (dropAndRenew E) (match take with
    | .next n => intoIterTake E kind n
    | .nth k => do pure (← intoIterNth E kind k).toList
    | .last => do pure (← intoIterLast E kind (len0 + 1) none).toList)
  let remaining ← getLen
  let s ← getS
  let rest ← entriesOf s.r
  match fin with
  | .forget => do forgetMap; pure (items, remaining, rest, none)
  | .drop => do dropAndRenew E; pure (items, remaining, rest, none)
  | .count => do
    let c ← unwindWith (dropAndRenew E) (intoIterCount E kind (remaining + 1))
    dropAndRenew E
    pure (items, remaining, rest, some c)

/-! ### `Drain` -/

/-- `advance_by(k)` on a `Drain` standing at `lo`: the new position and whether `k` items were
    skipped.  If the drop of a skipped item unwinds, the `Drain` is dropped: the range behind the
    item just read is destroyed. -/
def drainSkip (hi : Nat) : Nat → Nat → SM K V Q (Nat × Bool)
  | 0, lo => pure (lo, true)
  | k + 1, lo => do
    match ← drainNext lo hi with
    | none => pure (lo, false)
    | some p =>
      unwindWith (drainDrop E (lo + 1) hi) (dropPair E p)
      drainSkip hi k (lo + 1)

def drainNth (hi lo k : Nat) : SM K V Q (Option (K × V) × Nat) := do
  let (lo', ok) ← drainSkip E hi k lo
  if ok then
    match ← drainNext lo' hi with
    | some p => pure (some p, lo' + 1)
    | none => pure (none, lo')
  else pure (none, lo')

def drainCount (hi : Nat) : Nat → Nat → SM K V Q Nat
  | 0, _ => pure 0
  | fuel + 1, lo => do
    match ← drainNext lo hi with
    | none => pure 0
    | some p =>
      unwindWith (drainDrop E (lo + 1) hi) (dropPair E p)
      pure ((← drainCount hi fuel (lo + 1)) + 1)

def drainLast (hi : Nat) : Nat → Nat → Option (K × V) → SM K V Q (Option (K × V))
  | 0, _, acc => pure acc
  | fuel + 1, lo, acc => do
    match ← drainNext lo hi with
    | none => pure acc
    | some p =>
      match acc with
      | some q => unwindWith (do leakItem .pairs p; drainDrop E (lo + 1) hi) (dropPair E q)
      | none => pure ()
      drainLast hi fuel (lo + 1) (some p)

def drainStdOp (take : StdTake) (fin : StdEnd) :
    SM K V Q (List (K × V) × Nat × List (K × V) × Option Nat) := do
  let hi ← drainStart
  let (items, lo) ← (match take with
    | .next n => drainTake n 0 hi
    | .nth k => do
      let (x, lo) ← drainNth E hi 0 k
      pure (x.toList, lo)
    | .last => do
      let x ← drainLast E hi (hi + 1) 0 none
      pure (x.toList, hi))
  let remaining := hi - lo
  let s ← getS
  let rest ← iterRestR s.r remaining lo
  match fin with
  | .forget => pure (items, remaining, rest, none)
  | .drop => do drainDrop E lo hi; pure (items, remaining, rest, none)
  | .count => do
    let c ← drainCount E hi (remaining + 1) lo
    pure (items, remaining, rest, some c)

end Micromap
