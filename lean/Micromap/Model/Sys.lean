/-
System level: set operations (every `Set` method is the `Map<T, (), N>` method it
forwards to), operations that involve two registers (among them `a.extend(b)` with the set `b`
moved in: `extendFromLoop` / `extendFrom`), fault injection, end of case, and `step` / `run`.
-/
import Micromap.Model.Step

namespace Micromap

section
variable {K V Q : Type}

/-- cast of a result over `V = ()` (set registers) into the common result type. -/
def RV.castU : RV K Unit → RV K V
  | .unit => .unit
  | .none => .none
  | .bool b => .bool b
  | .nat n => .nat n
  | .key k => .key k
  | .val _ => .unit
  | .pair k _ => .key k
  | .ref s x => .ref s x.castU
  | .oref o s x => .oref o s x.castU
  | .some x => .some x.castU
  | .list l => .list (castUL l)
  | .hint lo hi => .hint lo hi
  | .str s => .str s
  | .tag s => .tag s
where
  castUL : List (RV K Unit) → List (RV K V)
    | [] => []
    | x :: xs => x.castU :: castUL xs

variable (E : Env K Unit Q)

/-! ### set-algebra scripts -/

def algRunOut (a b : Raw K Unit) : Nat → AlgIt → SM K Unit Q (List (AlgItem K))
  | 0, _ => ubM
  | n + 1, it => do
    let (o, it') ← algNext E a b it
    match o with
    | none => pure []
    | some x => pure (x :: (← algRunOut a b n it'))

def algItemRV (x : AlgItem K) : RV K Unit := .oref x.1 x.2.1 (.key x.2.2)

def algRunForks (a b : Raw K Unit) : List AlgIt → SM K Unit Q (List (RV K Unit))
  | [] => pure []
  | f :: fs => do
    let x ← algRunOut E a b (a.len + b.len + 1) f
    let rest ← algRunForks a b fs
    pure (RV.list (x.map algItemRV) :: rest)

def algScript (dbg : Bool → K → String) (a b : Raw K Unit) :
    List IterCmd → AlgIt → List AlgIt → SM K Unit Q (List (RV K Unit))
  | [], _, forks => algRunForks E a b forks
  | c :: cs, it, forks => do
    match c with
    | .next =>
      let (o, it') ← algNext E a b it
      let r : RV K Unit := match o with | none => .none | some x => .some (algItemRV x)
      pure (r :: (← algScript dbg a b cs it' forks))
    | .hint =>
      let h := algHint a b it
      pure (RV.hint h.1 h.2 :: (← algScript dbg a b cs it forks))
    | .len => algScript dbg a b cs it forks       -- not ExactSizeIterator
    | .debug =>
      let l ← algRunOut E a b (a.len + b.len + 1) it
      pure (RV.str (StdFmt.debugList false (l.map fun x => dbg false x.2.2)) ::
        (← algScript dbg a b cs it forks))
    | .debugAlt =>
      let l ← algRunOut E a b (a.len + b.len + 1) it
      pure (RV.str (StdFmt.debugList true (l.map fun x => dbg true x.2.2)) ::
        (← algScript dbg a b cs it forks))
    | .clone => algScript dbg a b cs it (forks ++ [it])
    | .count =>
      let l ← algFold E a b it
      pure (RV.nat l.length :: (← algScript dbg a b [] it forks))
    | .fold =>
      let l ← algFold E a b it
      pure (RV.list (l.map algItemRV) :: (← algScript dbg a b [] it forks))

def algOp (dbg : Bool → K → String) (kind : AlgKind) (a b : Raw K Unit) (script : List IterCmd) :
    SM K Unit Q (List (RV K Unit)) := do
  let it ← algStart a b kind
  algScript E dbg a b script it []

/-- `&a - &b`: `self.difference(rhs).cloned().collect()`.  Runs with `s.r = Raw.new a.cap`
    (the local being collected into); on unwinding the local is dropped. -/
def subLoop (a b : Raw K Unit) : Nat → SliceIt → SM K Unit Q Unit
  | 0, _ => pure ()
  | n + 1, it => do
    let (o, it') ← filtNext E a b false it
    match o with
    | none => pure ()
    | some (_, k) =>
      let k' ← cloneK E k
      let _ ← insert E k' ()
      subLoop a b n it'

def subInto (a b : Raw K Unit) : SM K Unit Q Unit :=
  unwindWith (dropMap E) do
    let it ← iterStartR a
    subLoop E a b (it.len + 1) it

def displaySetCode (dsp : K → String) (l : List (K × Unit)) : String :=
  "{" ++ (match l with
    | [] => ""
    | p :: rest => dsp p.1 ++ String.join (rest.map fun q => ", " ++ dsp q.1)) ++ "}"

def fmtSet (R : Render K Unit) (kind : FmtKind) : SM K Unit Q String := do
  let s ← getS
  let l ← entriesOf s.r
  match kind with
  | .debug => pure (StdFmt.debugSet false (l.map fun p => R.dbgK false p.1))
  | .debugAlt => pure (StdFmt.debugSet true (l.map fun p => R.dbgK true p.1))
  | .display | .displayPad | .displayAlt => pure (displaySetCode R.dspK l)
  | .debugPad => pure (StdFmt.debugSet false (l.map fun p => R.dbgK false p.1))

/-- one set operation on register state `s.r`. -/
def stepSetOp (R : Render K Unit) (other : Nat → Raw K Unit) : SetOp K Q → SM K Unit Q (RV K Unit)
  | .insert k => do pure (.bool (← insert E k ()).isNone)
  | .replace k => do
    let (_, existing) ← insert_ii E k () true
    match existing with
    | none => pure .none
    | some p => pure (.some (.key p.1))
  | .contains p => do pure (.bool (← contains_key E p))
  | .get p => do pure (optRef (← get E p) fun x => .key x.1)
  | .remove p => do pure (.bool (← remove E p).isSome)
  | .take p => do
    match ← remove_entry E p with
    | none => pure .none
    | some x => pure (.some (.key x.1))
  | .retain f => do
    retain E (fun n k u => (f n k, u))
    pure .unit
  | .clear => do clear E; pure .unit
  | .len => do pure (.nat (← len))
  | .is_empty => do pure (.bool (← is_empty))
  | .capacity => do pure (.nat (← capacity))
  | .drain take forget => do
    let (items, remaining, _) ← drainOp E take forget
    pure (.list [.list (items.map fun p => .key p.1), .nat remaining])
  | .into_iter take forget => do
    let (items, remaining, _) ← intoIterOp E .keys take forget
    pure (.list [.list (items.map fun p => .key p.1), .nat remaining])
  | .iter script => do pure (.list (← iterOp R .keys id script))
  | .clone_to _ => pure .unit
  | .eq o => do
    let s ← getS
    pure (.bool (← mapEq E s.r (other o)))
  | .from_iter _ _ => pure .unit
  | .extend pulls xs => do
    extendLoop E pulls (xs.map fun k => (k, ()))
    pure .unit
  | .alg kind o script => do
    let s ← getS
    pure (.list (← algOp E R.dbgK kind s.r (other o) script))
  | .is_subset o => do
    let s ← getS
    pure (.bool (← is_subset E s.r (other o)))
  | .is_superset o => do
    let s ← getS
    pure (.bool (← is_superset E s.r (other o)))
  | .is_disjoint o => do
    let s ← getS
    pure (.bool (← is_disjoint E s.r (other o)))
  | .sub _ _ => pure .unit
  | .fmt kind => do pure (.str (← fmtSet R kind))
  | .drop => do dropAndRenew E; pure .unit
  | .forget => do forgetMap; pure .unit
  | .serde _ => pure .unit
  | .extend_from _ => pure .unit          -- handled at the system level (two registers)

end

/-! ### the system step -/

section
variable {K V Q : Type} (E : Env K V Q) (R : Render K V)

def Render.toUnit (R : Render K V) : Render K Unit :=
  { dbgK := R.dbgK, dbgV := fun _ _ => "()", dspK := R.dspK, dspV := fun _ => "()" }

def Sys.init (capM capS : Nat → Nat) (w : World K V Q) : Sys K V Q :=
  { maps := fun i => Raw.new (capM i), sets := fun i => Raw.new (capS i), w := w }

/-- build a new container in a scratch state and, on success, assign it to `dst`
    (`*dst = built`: the old value of `dst` is dropped after the new one exists). -/
def assignMap (sys : Sys K V Q) (dst cap : Nat) (build : SM K V Q Unit) : Res (Sys K V Q) Unit :=
  match build ⟨Raw.new cap, sys.w⟩ with
  | .ub => .ub
  | .panic c s => .panic c { sys with w := s.w }
  | .ok _ s =>
    match dropAndRenew E ⟨sys.maps dst, s.w⟩ with
    | .ub => .ub
    | .panic c s' => .panic c { sys with maps := updReg sys.maps dst s.r, w := s'.w }
    | .ok _ s' => .ok () { sys with maps := updReg sys.maps dst s.r, w := s'.w }

def assignSet (sys : Sys K V Q) (dst cap : Nat) (build : SM K Unit Q Unit) : Res (Sys K V Q) Unit :=
  match build ⟨Raw.new cap, sys.w.toUnit⟩ with
  | .ub => .ub
  | .panic c s => .panic c { sys with w := sys.w.mergeUnit s.w }
  | .ok _ s =>
    match dropAndRenew E.toUnit ⟨sys.sets dst, s.w⟩ with
    | .ub => .ub
    | .panic c s' => .panic c { sys with sets := updReg sys.sets dst s.r, w := sys.w.mergeUnit s'.w }
    | .ok _ s' => .ok () { sys with sets := updReg sys.sets dst s.r, w := sys.w.mergeUnit s'.w }

/-! ### `a.extend(b)` with `b` a set that is moved in

`impl Extend<T> for Set<T, N>` is `iter.into_iter().for_each(|item| { self.insert(item); })`.  With
`iter` another `Set<T, M>`, `into_iter()` is `SetIntoIter` (a wrapper of `IntoKeys<T, (), M>`) and
`for_each` is std's `fold`: `while let Some(k) = it.next() { self.insert(k); }`.  Two registers are
involved — the source (the iterator owns it) and the destination — and they share one world. -/

/-- the loop of `dst.extend(src)`: `rs` is the source register (what the consuming iterator still
    owns), `sd` the destination register together with the world.  `IntoKeys::next` pops from the
    END of the source; the key goes into `insert` on the destination.  If `insert` unwinds (the
    destination is full, or the user's `==` panicked) the key moved into it is handled by `insert`'s
    own unwinding, and the iterator — the rest of the source — is dropped during the unwinding
    (`dropAndRenew` with injection suppressed, exactly as `unwindWith` runs a clean-up; a panic in
    that clean-up would abort the process: `ub`).  (`IntoKeys::next` itself cannot unwind for
    `V = ()`: there is no drop glue for the discarded half.)  `fuel` = number of `next` calls
    allowed; `len + 1` suffices. -/
def extendFromLoop (F : Env K Unit Q) : Nat → Raw K Unit → St K Unit Q →
    Res (Raw K Unit × St K Unit Q) Unit
  | 0, rs, sd => .ok () (rs, sd)
  | n + 1, rs, sd =>
    match intoIterNextK F .keys ⟨rs, sd.w⟩ with
    | .ub => .ub
    | .panic c s1 => .panic c (s1.r, { sd with w := s1.w })
    | .ok o s1 =>
      match o with
      | none => .ok () (s1.r, { sd with w := s1.w })
      | some p =>
        match insert F p.1 () ⟨sd.r, s1.w⟩ with
        | .ub => .ub
        | .ok _ s2 => extendFromLoop F n s1.r s2
        | .panic c s2 =>
          match dropAndRenew F ((⟨s1.r, s2.w⟩ : St K Unit Q).setUnw true) with
          | .ok _ s3 => .panic c (s3.r, { s2 with w := (s3.setUnw s2.w.unwinding).w })
          | _ => .ub

/-- the system after `extend_from`: source register `j`, destination register `i`, world. -/
def extendFin (sys : Sys K V Q) (i j : Nat) (rs rd : Raw K Unit) (u : World K Unit Q) : Sys K V Q :=
  { sys with sets := updReg (updReg sys.sets j rs) i rd, w := sys.w.mergeUnit u }

/-- `sets[i].extend(sets[j])`, `i ≠ j`: the loop, then — at the normal end — the drop of the
    exhausted iterator; the harness leaves a fresh `new()` in the source register. -/
def extendFrom (sys : Sys K V Q) (i j : Nat) : Res (Sys K V Q) Unit :=
  match extendFromLoop E.toUnit ((sys.sets j).len + 1) (sys.sets j) ⟨sys.sets i, sys.w.toUnit⟩ with
  | .ub => .ub
  | .panic c x => .panic c (extendFin sys i j x.1 x.2.r x.2.w)
  | .ok _ x =>
    match dropAndRenew E.toUnit ⟨x.1, x.2.w⟩ with
    | .ok _ s4 => .ok () (extendFin sys i j s4.r x.2.r s4.w)
    | .panic c s4 => .panic c (extendFin sys i j s4.r x.2.r s4.w)
    | .ub => .ub

/-- what the caller sees of a token stream: the announced length and the number of entries. -/
def Tok.isEntry {K V : Type} : Tok K V → Bool
  | .entry _ _ => true
  | _ => false

def tokSummary {K V : Type} (toks : List (Tok K V)) : RV K V :=
  .list [ (match toks with | .start (some n) :: _ => .nat n | _ => .none),
          .nat (toks.filter Tok.isEntry).length,
          .tag "ok" ]

def stepCore (sys : Sys K V Q) : Op K V Q → Res (Sys K V Q) (RV K V)
  | .map reg op =>
    match op with
    | .serde dst =>
      match serializeR (Q := Q) (sys.maps reg) ⟨sys.maps reg, sys.w⟩ with
      | .ub => .ub
      | .panic c s => .panic c { sys with w := s.w }
      | .ok toks s =>
        match assignMap E { sys with w := s.w } dst (sys.maps dst).cap (deserializeInto E toks) with
        | .ok _ s' => .ok (tokSummary toks) s' | .panic c s' => .panic c s' | .ub => .ub
    | .clone_to dst =>
      let src := sys.maps reg
      match assignMap E sys dst src.cap (cloneInto E src) with
      | .ok _ s => .ok .unit s | .panic c s => .panic c s | .ub => .ub
    | .from_iter pulls xs =>
      match assignMap E sys reg (sys.maps reg).cap (from_iter E pulls xs) with
      | .ok _ s => .ok .unit s | .panic c s => .panic c s | .ub => .ub
    | op => runOnMap sys reg (stepMapOp E R sys.maps op)
  | .set reg op =>
    match op with
    | .serde dst =>
      match serializeR (Q := Q) (sys.sets reg) ⟨sys.sets reg, sys.w.toUnit⟩ with
      | .ub => .ub
      | .panic c s => .panic c { sys with w := sys.w.mergeUnit s.w }
      | .ok toks s =>
        match assignSet E { sys with w := sys.w.mergeUnit s.w } dst (sys.sets dst).cap
            (deserializeInto E.toUnit toks) with
        | .ok _ s' => .ok (tokSummary toks).castU s' | .panic c s' => .panic c s' | .ub => .ub
    | .clone_to dst =>
      let src := sys.sets reg
      match assignSet E sys dst src.cap (cloneInto E.toUnit src) with
      | .ok _ s => .ok .unit s | .panic c s => .panic c s | .ub => .ub
    | .from_iter pulls xs =>
      match assignSet E sys reg (sys.sets reg).cap
          (from_iter E.toUnit pulls (xs.map fun k => (k, ()))) with
      | .ok _ s => .ok .unit s | .panic c s => .panic c s | .ub => .ub
    | .sub o dst =>
      let a := sys.sets reg
      match assignSet E sys dst a.cap (subInto E.toUnit a (sys.sets o)) with
      | .ok _ s => .ok .unit s | .panic c s => .panic c s | .ub => .ub
    | .extend_from o =>
      -- `a.extend(a)` cannot be written (a set cannot be moved into its own `&mut self` method):
      -- the operation text is ignored
      if o = reg then .ok .unit sys else
      match extendFrom E sys reg o with
      | .ok _ s => .ok .unit s | .panic c s => .panic c s | .ub => .ub
    | op =>
      match runOnSet sys reg (stepSetOp E.toUnit R.toUnit sys.sets op) with
      | .ok a s => .ok a.castU s | .panic c s => .panic c s | .ub => .ub
  | .umap reg op =>
    match op with
    | .clone_to _ => .ok .unit sys | .from_iter _ _ => .ok .unit sys | .serde _ => .ok .unit sys
    | op =>
      match runOnSet sys reg (stepMapOp E.toUnit R.toUnit sys.sets op) with
      | .ok a s => .ok a.castU s | .panic c s => .panic c s | .ub => .ub
  | .inject _ => .ok .unit sys
  | .endCase => .ok .unit sys

def touched : Op K V Q → List Nat × List Nat
  | .map reg (.clone_to dst) => ([reg, dst], [])
  | .map reg (.eq o) => ([reg, o], [])
  | .map reg (.serde dst) => ([reg, dst], [])
  | .set reg (.serde dst) => ([], [reg, dst])
  | .map reg _ => ([reg], [])
  | .set reg (.clone_to dst) => ([], [reg, dst])
  | .set reg (.eq o) => ([], [reg, o])
  | .set reg (.alg _ o _) => ([], [reg, o])
  | .set reg (.is_subset o) => ([], [reg, o])
  | .set reg (.is_superset o) => ([], [reg, o])
  | .set reg (.is_disjoint o) => ([], [reg, o])
  | .set reg (.sub o dst) => ([], [reg, o, dst])
  | .set reg (.extend_from o) => ([], [reg, o])
  | .set reg _ => ([], [reg])
  | .umap reg (.eq o) => ([], [reg, o])
  | .umap reg _ => ([], [reg])
  | _ => ([], [])

/-- ghost-live slots at or beyond `len` (unreachable: leaked in place). -/
def garbageFrom (r : Raw K V) : Nat → List (Obj K V)
  | 0 => []
  | n + 1 => garbageFrom r n ++
      (if r.len ≤ n then match r.slots n with | some p => [.k p.1, .v p.2] | none => [] else [])

def garbage (r : Raw K V) : List (Obj K V) := garbageFrom r r.cap

/-- number of registers of each kind. -/
def nRegs : Nat := 2

def dropAllRegs (sys : Sys K V Q) : Res (Sys K V Q) Unit :=
  let rec goM : Nat → Nat → Sys K V Q → Res (Sys K V Q) Unit
    | 0, _, s => .ok () s
    | n + 1, i, s =>
      match runOnMap s i (dropAndRenew E) with
      | .ok _ s' => goM n (i + 1) s'
      | .panic _ s' => goM n (i + 1) s'     -- a panicking drop does not stop the harness
      | .ub => .ub
  let rec goS : Nat → Nat → Sys K V Q → Res (Sys K V Q) Unit
    | 0, _, s => .ok () s
    | n + 1, i, s =>
      match runOnSet s i (dropAndRenew E.toUnit) with
      | .ok _ s' => goS n (i + 1) s'
      | .panic _ s' => goS n (i + 1) s'
      | .ub => .ub
  match goM nRegs 0 sys with
  | .ok _ s => goS nRegs 0 s
  | r => r

def allGarbage (sys : Sys K V Q) : List (Obj K V) :=
  garbage (sys.maps 0) ++ garbage (sys.maps 1) ++
  (garbage (sys.sets 0) ++ garbage (sys.sets 1)).filterMap objFromUnit

/-- One step.  Events are per step; an armed injection applies to the next
    operation only and is disarmed when that operation is over. -/
def step (sys : Sys K V Q) (op : Op K V Q) : Sys K V Q × Out K V Q :=
  let calls0 := sys.w.calls
  let sys0 : Sys K V Q := { sys with w := { sys.w with events := [] } }
  match op with
  | .inject j =>
    ({ sys0 with w := { sys0.w with inject := some j } },
     { outcome := .ok, ret := .unit, events := [], calls := 0 })
  | .endCase =>
    match dropAllRegs E { sys0 with w := { sys0.w with inject := none } } with
    | .ok _ s =>
      (s, { outcome := .ok, ret := .unit, events := s.w.events, calls := s.w.calls - calls0,
            leaks := s.w.leaked ++ allGarbage s })
    | .panic c s => (s, { outcome := .panic c, ret := .unit, events := s.w.events, calls := 0 })
    | .ub => (sys0, { outcome := .ub, ret := .unit, events := [], calls := 0 })
  | op =>
    let (tm, ts) := touched op
    match stepCore E R sys0 op with
    | .ok r s =>
      ({ s with w := { s.w with inject := none } },
       { outcome := .ok, ret := r, events := s.w.events, calls := s.w.calls - calls0,
         touchedMaps := tm, touchedSets := ts })
    | .panic c s =>
      ({ s with w := { s.w with inject := none } },
       { outcome := .panic c, ret := .unit, events := s.w.events, calls := s.w.calls - calls0,
         touchedMaps := tm, touchedSets := ts })
    | .ub => (sys0, { outcome := .ub, ret := .unit, events := [], calls := 0,
                      touchedMaps := tm, touchedSets := ts })

def run (sys : Sys K V Q) : List (Op K V Q) → Sys K V Q × List (Out K V Q)
  | [] => (sys, [])
  | op :: ops =>
    let (s', o) := step E R sys op
    let (s'', os) := run s' ops
    (s'', o :: os)

end
end Micromap
