/-
L0 mirror of `src/entry.rs`.  An `Entry` borrows the map mutably, so in the
model it is just the data it carries: a slot index or the owned key.
-/
import Micromap.Model.Map

namespace Micromap

inductive EntryS (K : Type) where
  | occ (index : Nat)
  | vac (key : K)

section
variable {K V Q : Type} (E : Env K V Q)

/-- `Map::entry`. -/
def entry (k : K) : SM K V Q (EntryS K) := do
  match ← unwindWith (dropK k) (scan E (.key k)) with
  | some i =>
    dropK k                     -- the supplied key is not kept
    pure (.occ i)
  | none => pure (.vac k)

/-- an entry that goes out of scope unused. -/
def dropEntry : EntryS K → SM K V Q Unit
  | .occ _ => pure ()
  | .vac key => dropK key

/-- `Entry::key`, `OccupiedEntry::key`, `VacantEntry::key`. -/
def entry_key : EntryS K → SM K V Q K
  | .occ i => do pure (← itemRef i).1
  | .vac key => pure key

/-- `Entry::and_modify(f)` with `f = |v| *v = g(*v)` (a callback). -/
def and_modify (g : V → V) : EntryS K → SM K V Q (EntryS K)
  | .occ i => do
    let p ← itemRef i           -- entry.get_mut()
    callF 1
    let _ ← valueReplace i (g p.2)
    pure (.occ i)
  | .vac key => pure (.vac key)

/-- temporaries of type `Option<(K, V)>` dropped at the end of a statement. -/
def dropOptPair : Option (K × V) → SM K V Q Unit
  | none => pure ()
  | some p => dropPair E p

/-- `VacantEntry::insert`. Returns the slot of the returned `&mut V`. -/
def vacant_insert (key : K) (value : V) : SM K V Q Nat := do
  let (index, ex) ← insert_ii E key value false
  dropOptPair E ex
  let _ ← itemRef index         -- value_mut(index)
  pure index

/-- `Entry::or_insert`. -/
def or_insert (default : V) : EntryS K → SM K V Q Nat
  | .occ i => do
    let _ ← unwindWith (dropV E default) (itemRef i)   -- into_mut
    dropV E default
    pure i
  | .vac key => vacant_insert E key default

/-- `or_insert_with`, `or_insert_with_key`, `or_default`: `mk` is what the closure
    (or `V::default`) returns when it is run; `tag` tells them apart in the trace. -/
def or_insert_with (tag : Nat) (mk : V) : EntryS K → SM K V Q Nat
  | .occ i => do
    let _ ← itemRef i
    pure i
  | .vac key => do
    unwindWith (dropK key) (callF tag)
    vacant_insert E key mk

def occ_get (i : Nat) : SM K V Q (K × V) := itemRef i

def occ_get_mut (i : Nat) (g : V → V) : SM K V Q (K × V) := do
  let p ← itemRef i
  let _ ← valueReplace i (g p.2)
  pure (p.1, g p.2)

/-- `OccupiedEntry::insert`: `mem::replace(self.get_mut(), value)`. -/
def occ_insert (i : Nat) (value : V) : SM K V Q V := do
  let _ ← unwindWith (dropV E value) (itemRef i)
  valueReplace i value

def occ_remove_entry (i : Nat) : SM K V Q (K × V) := remove_index_read i

def occ_remove (i : Nat) : SM K V Q V := do
  let p ← remove_index_read i
  unwindWith (leak (.v p.2)) (dropK p.1)   -- return place is not dropped when the key's drop unwinds
  pure p.2

end
end Micromap
