/-
std's PROVIDED iterator methods `nth` and `last` on the crate's BORROWING iterators (`Iter`,
`IterMut`, `Keys`, `Values`, `ValuesMut`, `SetIter`) and on the four lazy set operations
(`Difference`, `Intersection`, `Union`, `SymmetricDifference`).

None of these types overrides `nth`, `advance_by` or `last` (tools/inventory.json), so callers reach
the crate's `next` — and, for the set operations, the crate's `fold` — through core's definitions:

    nth(k):   advance_by(k) = `self.next()` up to `k` times, stopping at the first `None`;
              then (only if all `k` were there) `self.next()`
    last():   fold(None, |_, x| Some(x)).  The borrowing iterators do not override `fold`: it is
              `while let Some(x) = self.next() { acc = Some(x) }`.  The lazy set operations DO
              override `fold`, so there `last()` runs the crate's `fold` and keeps the last item
              visited.  `last` takes the iterator by value: the script ends.

They are written here over the model's `iterNextR` / `algNext` / `algFold`, as scripts of an
extended command type `IterCmdX`; on scripts without `nth` / `last` the extended interpreters ARE
the old ones (`iterScriptX_base`, `algScriptX_base` in `Proofs/StdIterB.lean`).

The caller of the script (the harness) writes `g v` through the `&mut V` of the items it RECEIVES
from `iter_mut` / `values_mut`: the items `nth` skips and all but the last item of `last()` are
never handed out and are not written (`iterYield`).
-/
import Micromap.Model.Sys

namespace Micromap

/-- one step of an iterator script, with std's provided `nth(k)` and `last()`. -/
inductive IterCmdX where
  | base (c : IterCmd)
  | nth (k : Nat)
  | last           -- consumes the iterator (ends the script)
  deriving DecidableEq, Repr

def IterCmdX.isBase : IterCmdX → Bool
  | .base _ => true
  | _ => false

/-! ### borrowing iterators -/

section
variable {K V Q : Type}

/-- `advance_by(k)` on a borrowing iterator over container `r`: `next` up to `k` times, stopping at
    the first `None`; `true` if `k` items were skipped. -/
def iterSkipR (r : Raw K V) : Nat → SliceIt → SM K V Q (Bool × SliceIt)
  | 0, it => pure (true, it)
  | k + 1, it => do
    let (o, it') ← iterNextR r it
    match o with
    | none => pure (false, it')
    | some _ => iterSkipR r k it'

/-- `nth(k)`. -/
def iterNthR (r : Raw K V) (k : Nat) (it : SliceIt) :
    SM K V Q (Option (Nat × (K × V)) × SliceIt) := do
  let (ok, it') ← iterSkipR r k it
  if ok then iterNextR r it' else pure (none, it')

/-- `last()`: `next` until `None`, keeping the latest item.  `fuel` bounds the loop (`len + 1`
    suffices: every successful `next` shortens the window); running out of it is `ub`, so a theorem
    "never `ub`" says the bound is enough. -/
def iterLastR (r : Raw K V) : Nat → SliceIt → Option (Nat × (K × V)) →
    SM K V Q (Option (Nat × (K × V)) × SliceIt)
  | 0, _, _ => ubM
  | fuel + 1, it, acc => do
    let (o, it') ← iterNextR r it
    match o with
    | none => pure (acc, it')
    | some x => iterLastR r fuel it' (some x)

/-- what the script does with an item it receives: for `iter_mut` / `values_mut` it writes `g v`
    through the reference; the item is reported as a reference into its slot. -/
def iterYield (kind : IterKind) (g : V → V) : Option (Nat × (K × V)) → SM K V Q (RV K V)
  | none => pure RV.none
  | some (slot, p) => do
    let p' ← (if kind = .iter_mut ∨ kind = .values_mut then do
        let _ ← valueReplace slot (g p.2)
        pure (p.1, g p.2)
      else pure p : SM K V Q (K × V))
    pure (RV.some (projItem kind slot p'))

/-- interpret an extended script over a borrowing iterator of `self`.  The `base` commands are those
    of `iterScript`, word for word. -/
def iterScriptX (R : Render K V) (kind : IterKind) (g : V → V) :
    List IterCmdX → SliceIt → List SliceIt → SM K V Q (List (RV K V))
  | [], _, forks => iterRunForks kind forks
  | c :: cs, it, forks => do
    match c with
    | .base .next =>
      let s ← getS
      let (o, it') ← iterNextR s.r it
      let x ← iterYield kind g o
      pure (x :: (← iterScriptX R kind g cs it' forks))
    | .base .len => pure (RV.nat it.len :: (← iterScriptX R kind g cs it forks))
    | .base .hint => pure (RV.hint it.len (some it.len) :: (← iterScriptX R kind g cs it forks))
    | .base .debug =>
      let s ← getS
      let l ← it.restR s.r
      pure (RV.str (renderRest R kind false l) :: (← iterScriptX R kind g cs it forks))
    | .base .debugAlt =>
      let s ← getS
      let l ← it.restR s.r
      pure (RV.str (renderRest R kind true l) :: (← iterScriptX R kind g cs it forks))
    | .base .clone =>
      if kind = .iter_mut ∨ kind = .values_mut then iterScriptX R kind g cs it forks
      else iterScriptX R kind g cs it (forks ++ [it])
    | .base .count | .base .fold =>
      -- consumes the iterator: the script ends here (forks are still run out)
      pure (RV.nat it.len :: (← iterRunForks kind forks))
    | .nth k =>
      let s ← getS
      let (o, it') ← iterNthR s.r k it
      let x ← iterYield kind g o
      pure (x :: (← iterScriptX R kind g cs it' forks))
    | .last =>
      -- consumes the iterator: the script ends here (forks are still run out)
      let s ← getS
      let (o, _) ← iterLastR s.r (it.len + 1) it none
      let x ← iterYield kind g o
      pure (x :: (← iterRunForks kind forks))

def iterOpX (R : Render K V) (kind : IterKind) (g : V → V) (script : List IterCmdX) :
    SM K V Q (List (RV K V)) := do
  let s ← getS
  let it ← iterStartR s.r
  iterScriptX R kind g script it []

end

/-! ### the lazy set operations -/

section
variable {K V Q : Type} (E : Env K V Q)

/-- `advance_by(k)` on one of the four lazy set iterators. -/
def algSkip (a b : Raw K V) : Nat → AlgIt → SM K V Q (Bool × AlgIt)
  | 0, it => pure (true, it)
  | k + 1, it => do
    let (o, it') ← algNext E a b it
    match o with
    | none => pure (false, it')
    | some _ => algSkip a b k it'

/-- `nth(k)`. -/
def algNth (a b : Raw K V) (k : Nat) (it : AlgIt) : SM K V Q (Option (AlgItem K) × AlgIt) := do
  let (ok, it') ← algSkip E a b k it
  if ok then algNext E a b it' else pure (none, it')

/-- `last()`: the crate's `fold` with `|_, x| Some(x)` — the last item `fold` visits. -/
def algLast (a b : Raw K V) (it : AlgIt) : SM K V Q (Option (AlgItem K)) := do
  let l ← algFold E a b it
  pure l.getLast?

end

section
variable {K Q : Type} (E : Env K Unit Q)

def algOptRV (o : Option (AlgItem K)) : RV K Unit :=
  match o with | none => .none | some x => .some (algItemRV x)

/-- interpret an extended script over a lazy set operation.  The `base` commands are those of
    `algScript`, word for word. -/
def algScriptX (dbg : Bool → K → String) (a b : Raw K Unit) :
    List IterCmdX → AlgIt → List AlgIt → SM K Unit Q (List (RV K Unit))
  | [], _, forks => algRunForks E a b forks
  | c :: cs, it, forks => do
    match c with
    | .base .next =>
      let (o, it') ← algNext E a b it
      let r : RV K Unit := match o with | none => .none | some x => .some (algItemRV x)
      pure (r :: (← algScriptX dbg a b cs it' forks))
    | .base .hint =>
      let h := algHint a b it
      pure (RV.hint h.1 h.2 :: (← algScriptX dbg a b cs it forks))
    | .base .len => algScriptX dbg a b cs it forks       -- not ExactSizeIterator
    | .base .debug =>
      let l ← algRunOut E a b (a.len + b.len + 1) it
      pure (RV.str (StdFmt.debugList false (l.map fun x => dbg false x.2.2)) ::
        (← algScriptX dbg a b cs it forks))
    | .base .debugAlt =>
      let l ← algRunOut E a b (a.len + b.len + 1) it
      pure (RV.str (StdFmt.debugList true (l.map fun x => dbg true x.2.2)) ::
        (← algScriptX dbg a b cs it forks))
    | .base .clone => algScriptX dbg a b cs it (forks ++ [it])
    | .base .count =>
      let l ← algFold E a b it
      pure (RV.nat l.length :: (← algRunForks E a b forks))
    | .base .fold =>
      let l ← algFold E a b it
      pure (RV.list (l.map algItemRV) :: (← algRunForks E a b forks))
    | .nth k =>
      let (o, it') ← algNth E a b k it
      pure (algOptRV o :: (← algScriptX dbg a b cs it' forks))
    | .last =>
      -- consumes the iterator: the script ends here (forks are still run out)
      let o ← algLast E a b it
      pure (algOptRV o :: (← algRunForks E a b forks))

def algOpX (dbg : Bool → K → String) (kind : AlgKind) (a b : Raw K Unit) (script : List IterCmdX) :
    SM K Unit Q (List (RV K Unit)) := do
  let it ← algStart a b kind
  algScriptX E dbg a b script it []

end
end Micromap
