/-
The operation language and `step`: the function the driver executes line by
line against the real crate, and the function the history theorems quantify
over.  Borrow-holding iterators cannot be interleaved with mutation in safe
Rust, so they appear as composite operations carrying a script.
-/
import Micromap.Model.Map
import Micromap.Model.Entry
import Micromap.Model.Iter
import Micromap.Spec.StdFmt

namespace Micromap

/-- generic tree of returned values (what the caller can observe of a result). -/
inductive RV (K V : Type) where
  | unit
  | none
  | bool (b : Bool)
  | nat (n : Nat)
  | key (k : K)
  | val (v : V)
  | pair (k : K) (v : V)
  | ref (slot : Nat) (x : RV K V)         -- a reference into slot `slot`
  | oref (operand slot : Nat) (x : RV K V) -- a reference into operand 0/1
  | some (x : RV K V)
  | list (l : List (RV K V))
  | hint (lo : Nat) (hi : Option Nat)
  | str (s : String)
  | tag (s : String)

/-- how elements render (`Debug` / `Display` of the user types). -/
structure Render (K V : Type) where
  dbgK : Bool → K → String     -- `{:?}` (false) / `{:#?}` (true) of a key: the pretty form may be multi-line
  dbgV : Bool → V → String
  dspK : K → String
  dspV : V → String

inductive IterKind where
  | iter | keys | values | iter_mut | values_mut
  deriving DecidableEq, Repr

/-- one step of an iterator script. -/
inductive IterCmd where
  | next | len | hint | debug | debugAlt
  | clone      -- fork here; the fork is run to the end after the script and reported
  | count      -- consumes the iterator (ends the script)
  | fold       -- consumes the iterator through `fold` (set algebra)
  deriving DecidableEq, Repr

inductive IntoKind where
  | pairs | keys | values
  deriving DecidableEq, Repr

inductive FmtKind where
  | debug | debugAlt | display
  | displayPad    -- `{:>30}`: `Display for Map/Set` writes directly, width and fill are ignored
  | displayAlt    -- `{:#}`: … and so is the alternate flag
  | debugPad      -- `{:30?}`: `debug_map`/`debug_set` pass the width on to the elements only
  deriving DecidableEq, Repr

/-- terminal of an entry chain. -/
inductive EntryEnd (V : Type) where
  | or_insert (v : V) | or_insert_with (v : V) | or_insert_with_key (v : V) | or_default (v : V)
  | key | drop
  | occ_key | occ_get | occ_get_mut (g : V → V) | occ_insert (v : V) | occ_remove | occ_remove_entry
  | occ_into_mut
  | vac_key | vac_into_key | vac_insert (v : V)

/-- operations on a map register. -/
inductive MapOp (K V Q : Type) where
  | insert (k : K) (v : V)
  | insert_key_value (k : K) (v : V)
  | checked_insert (k : K) (v : V)
  | insert_unchecked (k : K) (v : V)
  | get (p : Probe K Q)
  | get_key_value (p : Probe K Q)
  | get_mut (p : Probe K Q) (g : V → V)
  | contains_key (p : Probe K Q)
  | index (p : Probe K Q)
  | index_mut (p : Probe K Q) (g : V → V)
  | remove (p : Probe K Q)
  | remove_entry (p : Probe K Q)
  | retain (f : Nat → K → V → Bool × V)
  | clear | len | is_empty | capacity
  | drain (take : Nat) (forget : Bool)
  | into_iter (kind : IntoKind) (take : Nat) (forget : Bool)
  | iter (kind : IterKind) (g : V → V) (script : List IterCmd)
  | clone_to (dst : Nat)
  | eq (other : Nat)
  | from_iter (pulls : Bool) (xs : List (K × V))
  | entry (k : K) (mods : List (V → V)) (fin : EntryEnd V)
  | get_disjoint_mut (unchecked : Bool) (g : V → V) (ks : List (Probe K Q))
  | fmt (kind : FmtKind)
  | drop | forget
  | with_capacity (c : Nat)
  | serde (dst : Nat)      -- serialize, then deserialize the token stream into register `dst`

inductive SetOp (K Q : Type) where
  | insert (k : K)
  | replace (k : K)
  | contains (p : Probe K Q)
  | get (p : Probe K Q)
  | remove (p : Probe K Q)
  | take (p : Probe K Q)
  | retain (f : Nat → K → Bool)
  | clear | len | is_empty | capacity
  | drain (take : Nat) (forget : Bool)
  | into_iter (take : Nat) (forget : Bool)
  | iter (script : List IterCmd)
  | clone_to (dst : Nat)
  | eq (other : Nat)
  | from_iter (pulls : Bool) (xs : List K)
  | extend (pulls : Bool) (xs : List K)
  | alg (kind : AlgKind) (other : Nat) (script : List IterCmd)
  | is_subset (other : Nat) | is_superset (other : Nat) | is_disjoint (other : Nat)
  | sub (other dst : Nat)
  | fmt (kind : FmtKind)
  | drop | forget
  | serde (dst : Nat)
  /-- `self.extend(other)` with `other` a `Set` that is MOVED in (`Extend<T> for Set<T, N>` fed with
      `SetIntoIter`): the set register `other` is consumed; afterwards it holds a fresh `new()` of
      its capacity. -/
  | extend_from (other : Nat)

inductive Op (K V Q : Type) where
  | map (reg : Nat) (op : MapOp K V Q)
  | set (reg : Nat) (op : SetOp K Q)
  /-- a `Map` API operation on a `Map<K, (), N>`: the zero-sized-value shape.  `Set<T, N>` is a
      `#[repr(transparent)]` wrapper of such a map, so these operations act on the set registers. -/
  | umap (reg : Nat) (op : MapOp K Unit Q)
  | inject (at_ : Nat)
  | endCase

/-- the system: register files and the world. -/
structure Sys (K V Q : Type) where
  maps : Nat → Raw K V
  sets : Nat → Raw K Unit
  w : World K V Q

inductive Outcome where
  | ok | panic (c : PanicClass) | ub
  deriving DecidableEq, Repr

/-- what one step shows to the outside. -/
structure Out (K V Q : Type) where
  outcome : Outcome
  ret : RV K V
  events : List (Event K V Q)
  calls : Nat                     -- callbacks made by this step
  touchedMaps : List Nat := []
  touchedSets : List Nat := []
  leaks : List (Obj K V) := []    -- only for `endCase`

section
variable {K V Q : Type}

def updReg (f : Nat → α) (i : Nat) (x : α) : Nat → α := fun j => if j = i then x else f j

/-! ### worlds of set registers (`V = ()`) -/

def evToUnit : Event K V Q → Option (Event K Unit Q)
  | .dropK k => some (.dropK k)
  | .cloneK a b => some (.cloneK a b)
  | .eqK a b r => some (.eqK a b r)
  | .eqQ a b r => some (.eqQ a b r)
  | .call t => some (.call t)
  | .pull => some .pull
  | _ => none

def evFromUnit : Event K Unit Q → Option (Event K V Q)
  | .dropK k => some (.dropK k)
  | .cloneK a b => some (.cloneK a b)
  | .eqK a b r => some (.eqK a b r)
  | .eqQ a b r => some (.eqQ a b r)
  | .call t => some (.call t)
  | .pull => some .pull
  | _ => none

def objFromUnit : Obj K Unit → Option (Obj K V)
  | .k x => some (.k x)
  | .v _ => none

def World.toUnit (w : World K V Q) : World K Unit Q :=
  { profile := w.profile, inject := w.inject, unwinding := w.unwinding, calls := w.calls,
    nextId := w.nextId, events := [], leaked := [] }

def World.mergeUnit (w : World K V Q) (u : World K Unit Q) : World K V Q :=
  { profile := u.profile, inject := u.inject, unwinding := u.unwinding, calls := u.calls,
    nextId := u.nextId, events := w.events ++ u.events.filterMap evFromUnit,
    leaked := w.leaked ++ u.leaked.filterMap objFromUnit }

def Env.toUnit (E : Env K V Q) : Env K Unit Q :=
  { eqK := E.eqK, eqQ := E.eqQ, eqV := fun _ _ => true, borrow := E.borrow, clK := E.clK,
    clV := fun _ u => u, vGlue := false }

/-- result of running a piece of machine on one register. -/
inductive R3 (α σ : Type) where
  | ok (a : α) (s : σ) | panic (c : PanicClass) (s : σ) | ub

def runOnMap (sys : Sys K V Q) (i : Nat) (m : SM K V Q α) : Res (Sys K V Q) α :=
  match m ⟨sys.maps i, sys.w⟩ with
  | .ok a s => .ok a { sys with maps := updReg sys.maps i s.r, w := s.w }
  | .panic c s => .panic c { sys with maps := updReg sys.maps i s.r, w := s.w }
  | .ub => .ub

def runOnSet (sys : Sys K V Q) (i : Nat) (m : SM K Unit Q α) : Res (Sys K V Q) α :=
  match m ⟨sys.sets i, sys.w.toUnit⟩ with
  | .ok a s => .ok a { sys with sets := updReg sys.sets i s.r, w := sys.w.mergeUnit s.w }
  | .panic c s => .panic c { sys with sets := updReg sys.sets i s.r, w := sys.w.mergeUnit s.w }
  | .ub => .ub

/-! ### composite operations -/

variable (E : Env K V Q)

/-- all ghost-live objects of a container (what leaks when it is forgotten). -/
def liveObjs (r : Raw K V) : Nat → List (Obj K V)
  | 0 => []
  | n + 1 => liveObjs r n ++ (match r.slots n with | some p => [.k p.1, .v p.2] | none => [])

/-- `mem::forget(map)`: every ghost-live slot leaks; the register becomes a fresh `new()`. -/
def forgetMap : SM K V Q Unit := fun s =>
  .ok () { r := Raw.new s.r.cap,
           w := { s.w with leaked := s.w.leaked ++ liveObjs s.r s.r.cap } }

/-- drop the container (what is still ghost-live afterwards — slots beyond `len`, or the
    rest after a panicking element drop — is leaked) and put a fresh `new()` in the register. -/
def dropAndRenew : SM K V Q Unit :=
  unwindWith forgetMap do
    dropMap E
    forgetMap

def entriesOf (r : Raw K V) : SM K V Q (List (K × V)) :=
  if r.len ≤ r.cap then iterRestR r r.len 0 else throwP .oob

/-- `drain()`, `take` calls of `next`, then drop or forget the `Drain`. -/
def drainTake : Nat → Nat → Nat → SM K V Q (List (K × V) × Nat)
  | 0, lo, _ => pure ([], lo)
  | n + 1, lo, hi => do
    match ← drainNext lo hi with
    | none => pure ([], lo)
    | some p =>
      let (rest, lo') ← drainTake n (lo + 1) hi
      pure (p :: rest, lo')

/-- returns the items taken, `len()` of the drain afterwards and the entries its `Debug`
    shows at that point (`slice_iter(self.iter.as_slice())`). -/
def drainOp (take : Nat) (forget : Bool) : SM K V Q (List (K × V) × Nat × List (K × V)) := do
  let hi ← drainStart
  let (items, lo) ← drainTake take 0 hi
  let remaining := hi - lo
  let s ← getS
  let rest ← iterRestR s.r remaining lo
  if forget then pure (items, remaining, rest)
  else do
    drainDrop E lo hi
    pure (items, remaining, rest)

/-- `IntoKeys::next` / `IntoValues::next`: `self.iter.next().map(|p| p.0)` drops the other half. -/
def intoIterNextK (kind : IntoKind) : SM K V Q (Option (K × V)) := do
  match ← intoIterNext with
  | none => pure none
  | some p =>
    match kind with
    | .pairs => pure (some p)
    -- if the discarded half's drop unwinds, the kept half already sits in the return place
    -- and is leaked (observed on the real crate)
    | .keys => do
      unwindWith (leak (.k p.1)) (dropV E p.2)
      pure (some p)
    | .values => do
      unwindWith (leak (.v p.2)) (dropK p.1)
      pure (some p)

def intoIterTake (kind : IntoKind) : Nat → SM K V Q (List (K × V))
  | 0 => pure []
  | n + 1 => do
    match ← intoIterNextK E kind with
    | none => pure []
    | some p =>
      let rest ← intoIterTake kind n
      pure (p :: rest)

/-- returns the items taken, `len()` afterwards and the entries `Debug` shows at that
    point (`self.map.iter()`: ascending, not in yield order). -/
def intoIterOp (kind : IntoKind) (take : Nat) (forget : Bool) :
    SM K V Q (List (K × V) × Nat × List (K × V)) := do
  -- a panicking `next` (drop of the discarded half) unwinds through the iterator's owner:
  -- the iterator, and with it the rest of the map, is dropped
  let items ← unwindWith (dropAndRenew E) (intoIterTake E kind take)
  let remaining ← getLen
  let s ← getS
  let rest ← entriesOf s.r
  if forget then forgetMap else dropAndRenew E
  pure (items, remaining, rest)

def projItem (kind : IterKind) (slot : Nat) (p : K × V) : RV K V :=
  match kind with
  | .iter | .iter_mut => .ref slot (.pair p.1 p.2)
  | .keys => .ref slot (.key p.1)
  | .values | .values_mut => .ref slot (.val p.2)

def renderRest (R : Render K V) (kind : IterKind) (alt : Bool) (l : List (K × V)) : String :=
  match kind with
  | .iter | .iter_mut =>
    StdFmt.debugList alt (l.map fun p => if alt
      then "(\n" ++ StdFmt.indent (R.dbgK true p.1) ++ ",\n" ++ StdFmt.indent (R.dbgV true p.2) ++ ",\n)"
      else "(" ++ R.dbgK false p.1 ++ ", " ++ R.dbgV false p.2 ++ ")")
  | .keys => StdFmt.debugList alt (l.map fun p => R.dbgK alt p.1)
  | .values | .values_mut => StdFmt.debugList alt (l.map fun p => R.dbgV alt p.2)

/-- run a clone of a borrowing iterator to its end. -/
def iterRunOut (kind : IterKind) (it : SliceIt) : SM K V Q (List (RV K V)) := do
  let s ← getS
  let l ← it.restR s.r
  pure (l.zipIdx.map fun (p, j) => projItem kind (it.lo + j) p)

/-- run every fork (clone) to its end, in the order they were taken. -/
def iterRunForks (kind : IterKind) : List SliceIt → SM K V Q (List (RV K V))
  | [] => pure []
  | f :: fs => do
    let x ← iterRunOut kind f
    let rest ← iterRunForks kind fs
    pure (RV.list x :: rest)

/-- interpret an iterator script over a borrowing iterator of `self`. -/
def iterScript (R : Render K V) (kind : IterKind) (g : V → V) :
    List IterCmd → SliceIt → List SliceIt → SM K V Q (List (RV K V))
  | [], _, forks => iterRunForks kind forks
  | c :: cs, it, forks => do
    match c with
    | .next =>
      let s ← getS
      let (o, it') ← iterNextR s.r it
      match o with
      | none =>
        pure (RV.none :: (← iterScript R kind g cs it' forks))
      | some (slot, p) =>
        let p' ← (if kind = .iter_mut ∨ kind = .values_mut then do
            let _ ← valueReplace slot (g p.2)
            pure (p.1, g p.2)
          else pure p : SM K V Q (K × V))
        pure (RV.some (projItem kind slot p') :: (← iterScript R kind g cs it' forks))
    | .len => pure (RV.nat it.len :: (← iterScript R kind g cs it forks))
    | .hint => pure (RV.hint it.len (some it.len) :: (← iterScript R kind g cs it forks))
    | .debug =>
      let s ← getS
      let l ← it.restR s.r
      pure (RV.str (renderRest R kind false l) :: (← iterScript R kind g cs it forks))
    | .debugAlt =>
      let s ← getS
      let l ← it.restR s.r
      pure (RV.str (renderRest R kind true l) :: (← iterScript R kind g cs it forks))
    | .clone =>
      if kind = .iter_mut ∨ kind = .values_mut then iterScript R kind g cs it forks
      else iterScript R kind g cs it (forks ++ [it])
    | .count | .fold =>
      -- consumes the iterator: the script ends here (forks are still run out)
      pure (RV.nat it.len :: (← iterScript R kind g [] it forks))

def iterOp (R : Render K V) (kind : IterKind) (g : V → V) (script : List IterCmd) :
    SM K V Q (List (RV K V)) := do
  let s ← getS
  let it ← iterStartR s.r
  iterScript R kind g script it []

/-- entry chain. -/
def entryMods : List (V → V) → EntryS K → SM K V Q (EntryS K)
  | [], e => pure e
  | g :: gs, e => do
    let e' ← and_modify g e
    entryMods gs e'

def refVal (slot : Nat) : SM K V Q (RV K V) := do
  let p ← itemRef slot
  pure (.ref slot (.val p.2))

def entryFinish (fin : EntryEnd V) (e : EntryS K) : SM K V Q (RV K V) := do
  match fin, e with
  | .or_insert v, e => refVal (← or_insert E v e)
  | .or_insert_with v, e => refVal (← or_insert_with E 2 v e)
  | .or_insert_with_key v, e => refVal (← or_insert_with E 3 v e)
  | .or_default v, e => refVal (← or_insert_with E 4 v e)
  | .key, e =>
    let k ← entry_key e
    dropEntry e
    pure (.key k)
  | .drop, e => do dropEntry e; pure .unit
  | .occ_key, .occ i => do pure (.key (← occ_get i).1)
  | .occ_get, .occ i => do pure (.ref i (.val (← occ_get i).2))
  | .occ_get_mut g, .occ i => do pure (.ref i (.val (← occ_get_mut i g).2))
  | .occ_insert v, .occ i => do pure (.val (← occ_insert E i v))
  | .occ_remove, .occ i => do pure (.val (← occ_remove i))
  | .occ_remove_entry, .occ i => do
    let p ← occ_remove_entry i
    pure (.pair p.1 p.2)
  | .occ_into_mut, .occ i => refVal i
  | .vac_key, .vac key => do
    dropK key
    pure (.key key)
  | .vac_into_key, .vac key => pure (.key key)        -- handed to the caller
  | .vac_insert v, .vac key => refVal (← vacant_insert E key v)
  -- the terminal does not apply to this kind of entry: values it carried are
  -- dropped by the caller, the entry goes out of scope
  | _, .vac key => do dropK key; pure (.tag "vacant")
  | _, .occ _ => pure (.tag "occupied")

def entryOp (k : K) (mods : List (V → V)) (fin : EntryEnd V) : SM K V Q (RV K V) := do
  let e ← entry E k
  let kind : RV K V := match e with | .occ _ => .tag "occ" | .vac _ => .tag "vac"
  let e ← entryMods mods e
  let r ← entryFinish E fin e
  pure (.list [kind, r])

def optRef : Option (Nat × (K × V)) → (K × V → RV K V) → RV K V
  | none, _ => .none
  | some (i, p), f => .some (.ref i (f p))

/-- `Display for Map` as written in `display.rs`: first entry, then `", "`-prefixed rest. -/
def displayMapCode (R : Render K V) (l : List (K × V)) : String :=
  "{" ++ (match l with
    | [] => ""
    | p :: rest => R.dspK p.1 ++ ": " ++ R.dspV p.2 ++
        String.join (rest.map fun q => ", " ++ R.dspK q.1 ++ ": " ++ R.dspV q.2)) ++ "}"

def fmtMap (R : Render K V) (kind : FmtKind) : SM K V Q String := do
  let s ← getS
  let l ← entriesOf s.r
  match kind with
  | .debug => pure (StdFmt.debugMap false (l.map fun p => (R.dbgK false p.1, R.dbgV false p.2)))
  | .debugAlt => pure (StdFmt.debugMap true (l.map fun p => (R.dbgK true p.1, R.dbgV true p.2)))
  | .display | .displayPad | .displayAlt => pure (displayMapCode R l)
  | .debugPad => pure (StdFmt.debugMap false (l.map fun p => (R.dbgK false p.1, R.dbgV false p.2)))

/-- read back the values behind the references `get_disjoint_mut` returned. -/
def readSlots (r : Raw K V) : List (Option Nat) → SM K V Q (List (RV K V))
  | [] => pure []
  | none :: rest => do pure (RV.none :: (← readSlots r rest))
  | some i :: rest => do
    let p ← itemRefR r i
    pure (RV.some (.ref i (.val p.2)) :: (← readSlots r rest))

/-- one map operation on register state `s.r`; `other` gives read access to the
    other registers (for `eq`). -/
def stepMapOp (R : Render K V) (other : Nat → Raw K V) : MapOp K V Q → SM K V Q (RV K V)
  | .insert k v => do
    match ← insert E k v with
    | none => pure .none
    | some v => pure (.some (.val v))
  | .insert_key_value k v => do
    match ← insert_key_value E k v with
    | none => pure .none
    | some p => pure (.some (.pair p.1 p.2))
  | .checked_insert k v => do
    match ← checked_insert E k v with
    | none => pure .none
    | some none => pure (.some .none)
    | some (some v) => pure (.some (.some (.val v)))
  | .insert_unchecked k v => do
    match ← insert_unchecked E k v with
    | none => pure .none
    | some v => pure (.some (.val v))
  | .get p => do pure (optRef (← get E p) fun x => .val x.2)
  | .get_key_value p => do pure (optRef (← get E p) fun x => .pair x.1 x.2)
  | .get_mut p g => do pure (optRef (← get_mut E p g) fun x => .val x.2)
  | .contains_key p => do pure (.bool (← contains_key E p))
  | .index p => do
    let (i, x) ← index E p
    pure (.ref i (.val x.2))
  | .index_mut p g => do
    let (i, x) ← index_mut E p g
    pure (.ref i (.val x.2))
  | .remove p => do
    match ← remove E p with
    | none => pure .none
    | some v => pure (.some (.val v))
  | .remove_entry p => do
    match ← remove_entry E p with
    | none => pure .none
    | some x => pure (.some (.pair x.1 x.2))
  | .retain f => do retain E f; pure .unit
  | .clear => do clear E; pure .unit
  | .len => do pure (.nat (← len))
  | .is_empty => do pure (.bool (← is_empty))
  | .capacity => do pure (.nat (← capacity))
  | .drain take forget => do
    let (items, remaining, rest) ← drainOp E take forget
    pure (.list [.list (items.map fun p => .pair p.1 p.2), .nat remaining,
      .str (renderRest R .iter false rest)])
  | .into_iter kind take forget => do
    let (items, remaining, rest) ← intoIterOp E kind take forget
    let f : K × V → RV K V := match kind with
      | .pairs => fun p => .pair p.1 p.2
      | .keys => fun p => .key p.1
      | .values => fun p => .val p.2
    let ik : IterKind := match kind with | .pairs => .iter | .keys => .keys | .values => .values
    pure (.list [.list (items.map f), .nat remaining, .str (renderRest R ik false rest)])
  | .iter kind g script => do pure (.list (← iterOp R kind g script))
  | .clone_to _ => pure .unit            -- handled at the system level
  | .eq o => do
    let s ← getS
    pure (.bool (← mapEq E s.r (other o)))
  | .from_iter _ _ => pure .unit         -- handled at the system level
  | .entry k mods fin => entryOp E k mods fin
  | .get_disjoint_mut unchecked g ks => do
    let slots ← if unchecked then get_disjoint_unchecked_mut E ks else get_disjoint_mut E ks
    writeSlots g slots
    let s ← getS
    pure (.list (← readSlots s.r slots))
  | .fmt kind => do pure (.str (← fmtMap R kind))
  | .drop => do dropAndRenew E; pure .unit
  | .forget => do forgetMap; pure .unit
  | .with_capacity c => do
    let cap ← getCap
    assertP (c == cap) .capacity
    pure .unit
  | .serde _ => pure .unit               -- handled at the system level

end
end Micromap
